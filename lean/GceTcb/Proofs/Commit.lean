import GceTcb.Model.Commit
import GceTcb.Proofs.Manifest
/-
Helper lemmas for C14 / C15: adjacency predicate over logs, structure of one attempt's log, the
protocol automaton `Step` that every adjacent pair of a RetrySubmit log satisfies.
-/
namespace GceTcb.Commit
open GceTcb.Manifest

/-! ### consecutive elements -/

/-- `a` is immediately followed by `b` in `l`. -/
def Consecutive {α : Type} (l : List α) (a b : α) : Prop := ∃ pre post, l = pre ++ a :: b :: post

/-- every two consecutive elements satisfy `R` (recursive form used in proofs). -/
def Adj {α : Type} (R : α → α → Prop) : List α → Prop
  | [] => True
  | [_] => True
  | a :: b :: t => R a b ∧ Adj R (b :: t)

theorem adj_cons {α : Type} (R : α → α → Prop) (a : α) (l : List α) :
    Adj R (a :: l) ↔ (∀ b, l.head? = some b → R a b) ∧ Adj R l := by
  cases l with
  | nil => simp [Adj]
  | cons b t => simp [Adj]

theorem adj_append {α : Type} (R : α → α → Prop) (l₁ l₂ : List α) :
    Adj R (l₁ ++ l₂) ↔
      Adj R l₁ ∧ Adj R l₂ ∧ (∀ a b, l₁.getLast? = some a → l₂.head? = some b → R a b) := by
  induction l₁ with
  | nil => simp [Adj]
  | cons x t ih =>
    cases t with
    | nil =>
      rw [List.singleton_append, adj_cons]
      simp only [Adj, List.getLast?_singleton, Option.some.injEq, true_and]
      constructor
      · rintro ⟨h1, h2⟩; exact ⟨h2, fun a b ha hb => ha ▸ h1 b hb⟩
      · rintro ⟨h1, h2⟩; exact ⟨fun b hb => h2 x b rfl hb, h1⟩
    | cons y t' =>
      rw [List.cons_append, adj_cons, ih, adj_cons (l := y :: t')]
      simp only [List.cons_append, List.head?_cons, Option.some.injEq, forall_eq']
      rw [List.getLast?_cons_cons]
      constructor
      · rintro ⟨h1, h2, h3, h4⟩; exact ⟨⟨h1, h2⟩, h3, h4⟩
      · rintro ⟨⟨h1, h2⟩, h3, h4⟩; exact ⟨h1, h2, h3, h4⟩

theorem adj_of_consecutive {α : Type} (R : α → α → Prop) (l : List α) (h : Adj R l) (a b : α)
    (hc : Consecutive l a b) : R a b := by
  obtain ⟨pre, post, rfl⟩ := hc
  induction pre with
  | nil => exact h.1
  | cons x t ih =>
    rw [List.cons_append, adj_cons] at h
    exact ih h.2

theorem adj_imp {α : Type} {R S : α → α → Prop} (hRS : ∀ a b, R a b → S a b) (l : List α)
    (h : Adj R l) : Adj S l := by
  induction l with
  | nil => trivial
  | cons x t ih =>
    rw [adj_cons] at h ⊢
    exact ⟨fun b hb => hRS _ _ (h.1 b hb), ih h.2⟩

/-! ### kinds -/

def Kind.isPlan : Kind → Bool
  | .readManifest | .readFile | .writeFiles | .chmod | .writeManifest => true
  | _ => false

theorem snapshotCalls_kinds (c : Cfg) : ∀ x ∈ snapshotCalls c, x.kind.isPlan = true ∧ x.kind ≠ .writeManifest := by
  intro x hx
  simp only [snapshotCalls, List.mem_append, List.mem_map, List.mem_singleton] at hx
  rcases hx with ((hx | ⟨_, _, hx⟩) | hx) | ⟨_, _, hx⟩ <;> subst hx <;> simp [Kind.isPlan]

theorem planManifest_kinds (c : Cfg) (e : Entry) (a : Attempt) :
    ∀ x ∈ (planManifest c e a).calls, x.kind.isPlan = true := by
  intro x hx
  unfold planManifest at hx
  split at hx
  · simp at hx; subst hx; rfl
  · split at hx
    · simp at hx; subst hx; rfl
    · split at hx
      · simp at hx; rcases hx with hx | hx <;> subst hx <;> rfl
      · simp at hx; rcases hx with hx | hx | hx | hx | hx <;> subst hx <;> rfl

theorem plan_kinds (c : Cfg) (e : Entry) (a : Attempt) :
    ∀ x ∈ (plan c e a).calls, x.kind.isPlan = true := by
  intro x hx
  unfold plan at hx
  split at hx
  · exact (snapshotCalls_kinds c x hx).1
  · split at hx
    · unfold planDry at hx
      split at hx
      · simp at hx
      · simp at hx; rcases hx with hx | hx | hx <;> subst hx <;> rfl
    · exact planManifest_kinds c e a x hx


theorem isPlan_ne {k : Kind} (h : k.isPlan = true) :
    k ≠ .getOps ∧ k ≠ .commit ∧ k ≠ .destroy ∧ k ≠ .retriable ∧ k ≠ .result := by
  cases k <;> simp [Kind.isPlan] at h ⊢

/-- ChangeOps calls: the change function's calls, TryCommit and Destroy. -/
def Kind.isOp (k : Kind) : Bool := k.isPlan || k == .commit || k == .destroy

/-! ### the protocol automaton -/

/-- What may immediately follow an event in a RetrySubmit log. -/
structure Step (a b : Ev) : Prop where
  afterOk : (a.kind = .getOps ∨ a.kind.isPlan = true) → a.ok = true → b.ws = a.ws ∧ b.kind.isOp = true
  afterFailedGet : a.kind = .getOps → a.ok = false → b.kind = .retriable ∧ b.ws = a.ws
  afterFailedOp : (a.kind.isPlan = true ∨ a.kind = .commit) → a.ok = false → b = evDestroy a.ws
  afterCommit : a.kind = .commit → a.ok = true → b = evResult a.ws true b.arg
  afterDestroy : a.kind = .destroy → b.kind = .retriable ∧ b.ws = a.ws
  afterRetriable : a.kind = .retriable → a.ok = true ∧ b.kind = .getOps ∧ b.ws = a.ws + 1
  afterResult : a.kind ≠ .result

def okEv (ws : Nat) (c : Call) : Ev := ⟨ws, c.kind, true, c.arg, c.manifest⟩
def failEv (ws : Nat) (c : Call) : Ev := ⟨ws, c.kind, false, c.arg, c.manifest⟩

theorem step_okEv (ws : Nat) (c : Call) (b : Ev) (hc : c.kind.isPlan = true) (hw : b.ws = ws)
    (hk : b.kind.isOp = true) : Step (okEv ws c) b := by
  have hn := isPlan_ne hc
  constructor <;> simp_all [okEv]

theorem step_failEv (ws : Nat) (c : Call) (hc : c.kind.isPlan = true) :
    Step (failEv ws c) (evDestroy ws) := by
  have hn := isPlan_ne hc
  constructor <;> simp_all [failEv, evDestroy]

/-! ### runCalls -/

theorem runCalls_spec (ws : Nat) (f : Option Nat) : ∀ (cs : List Call) (k : Nat),
    (∀ x ∈ cs, x.kind.isPlan = true) →
    (∀ ev ∈ (runCalls ws f k cs).1, ev.ws = ws ∧ ev.kind.isPlan = true ∧
        ∃ c ∈ cs, ev.kind = c.kind ∧ ev.arg = c.arg ∧ ev.manifest = c.manifest) ∧
    Adj Step (runCalls ws f k cs).1 ∧
    (∀ ev, (runCalls ws f k cs).1.getLast? = some ev → ev.ok = (runCalls ws f k cs).2) ∧
    ((runCalls ws f k cs).1 = [] → (runCalls ws f k cs).2 = true) ∧
    ((runCalls ws f k cs).2 = true → ∀ ev ∈ (runCalls ws f k cs).1, ev.ok = true) := by
  intro cs
  induction cs with
  | nil => intro k _; simp [runCalls, Adj]
  | cons c cs ih =>
    intro k hk
    have hc : c.kind.isPlan = true := hk c (by simp)
    have hcs : ∀ x ∈ cs, x.kind.isPlan = true := fun x hx => hk x (by simp [hx])
    by_cases hf : f = some k
    · simp [runCalls, hf, Adj, hc]
    · obtain ⟨h1, h2, h3, h4, h5⟩ := ih (k + 1) hcs
      simp only [runCalls, hf, if_false]
      refine ⟨?_, ?_, ?_, ?_, ?_⟩
      · intro ev hev
        rcases List.mem_cons.mp hev with rfl | hev
        · exact ⟨rfl, hc, c, by simp, rfl, rfl, rfl⟩
        · obtain ⟨a1, a2, c', hc', a3⟩ := h1 ev hev
          exact ⟨a1, a2, c', by simp [hc'], a3⟩
      · rw [adj_cons]
        refine ⟨?_, h2⟩
        intro b hb
        have hbm : b ∈ (runCalls ws f (k + 1) cs).1 := List.mem_of_head? hb
        have := h1 b hbm
        exact step_okEv ws c b hc this.1 (by simp [Kind.isOp, this.2.1])
      · intro ev hev
        cases hr : (runCalls ws f (k + 1) cs).1 with
        | nil =>
          rw [hr] at hev
          simp at hev
          subst hev
          simp [h4 hr]
        | cons y t =>
          rw [hr, List.getLast?_cons_cons] at hev
          exact h3 ev (by rw [hr]; exact hev)
      · intro h; simp at h
      · intro h ev hev
        rcases List.mem_cons.mp hev with rfl | hev
        · rfl
        · exact h5 h ev hev


/-! ### one attempt -/

theorem step_plan_destroy (i : Nat) (ev : Ev) (hw : ev.ws = i) (hk : ev.kind.isPlan = true) :
    Step ev (evDestroy i) := by
  have hn := isPlan_ne hk
  constructor <;> simp_all [evDestroy, Kind.isOp, Kind.isPlan]

theorem step_plan_commit (i : Nat) (ev : Ev) (b : Bool) (hw : ev.ws = i) (hk : ev.kind.isPlan = true)
    (ho : ev.ok = true) : Step ev (evCommit i b) := by
  have hn := isPlan_ne hk
  constructor <;> simp_all [evCommit, Kind.isOp, Kind.isPlan]

/-- Normal form of the log of one attempt on a real workspace. -/
theorem attempt_nf (c : Cfg) (e : Entry) (i : Nat) (a : Attempt) (hd : c.dryRun = false) :
    ∃ R : List Ev, R = (runCalls i a.failAt 1 (plan c e a).calls).1 ∧
      (∀ ev ∈ R, ev.ws = i ∧ ev.kind.isPlan = true ∧
        ∃ cl ∈ (plan c e a).calls, ev.kind = cl.kind ∧ ev.arg = cl.arg ∧ ev.manifest = cl.manifest) ∧
      Adj Step R ∧
      (attempt c e i a = ([evGetOps i false], false) ∨
       attempt c e i a = (evGetOps i true :: (R ++ [evDestroy i]), false) ∨
       (attempt c e i a = (evGetOps i true :: (R ++ [evCommit i false, evDestroy i]), false) ∧
          ∀ ev ∈ R, ev.ok = true) ∨
       (attempt c e i a =
          (evGetOps i true :: (R ++ [evCommit i true, evResult i true (plan c e a).certPath]), true) ∧
          ∀ ev ∈ R, ev.ok = true)) := by
  obtain ⟨h1, h2, _, _, h5⟩ := runCalls_spec i a.failAt (plan c e a).calls 1 (plan_kinds c e a)
  refine ⟨(runCalls i a.failAt 1 (plan c e a).calls).1, rfl, h1, h2, ?_⟩
  unfold attempt
  simp only [hd, Bool.false_eq_true, if_false]
  by_cases h0 : a.failAt = some 0
  · simp [h0]
  · simp only [h0, if_false]
    by_cases hr : (!(runCalls i a.failAt 1 (plan c e a).calls).2 || (plan c e a).internalErr) = true
    · simp [hr]
    · simp only [hr]
      have hok : (runCalls i a.failAt 1 (plan c e a).calls).2 = true := by
        simp at hr; exact hr.1
      by_cases hc : a.failAt = some (1 + (plan c e a).calls.length)
      · simp only [if_pos hc]
        exact Or.inr (Or.inr (Or.inl ⟨rfl, h5 hok⟩))
      · simp only [if_neg hc]
        exact Or.inr (Or.inr (Or.inr ⟨rfl, h5 hok⟩))

theorem step_getOps_ok (i : Nat) (b : Ev) (hw : b.ws = i) (hk : b.kind.isOp = true) :
    Step (evGetOps i true) b := by
  constructor <;> simp_all [evGetOps, Kind.isPlan]

/-- Adjacency inside `G :: (R ++ tail)` where tail starts with an op of workspace i. -/
theorem adj_attempt_shape (i : Nat) (R tail : List Ev) (t0 : Ev)
    (hR : ∀ ev ∈ R, ev.ws = i ∧ ev.kind.isPlan = true) (hA : Adj Step R)
    (ht : tail.head? = some t0) (ht0 : t0.ws = i ∧ t0.kind.isOp = true)
    (hlast : ∀ ev, R.getLast? = some ev → Step ev t0) (hT : Adj Step tail) :
    Adj Step (evGetOps i true :: (R ++ tail)) := by
  rw [adj_cons, adj_append]
  refine ⟨?_, hA, hT, ?_⟩
  · intro b hb
    cases R with
    | nil => simp only [List.nil_append] at hb; rw [ht] at hb; cases hb; exact step_getOps_ok i _ ht0.1 ht0.2
    | cons x t =>
      simp only [List.cons_append, List.head?_cons, Option.some.injEq] at hb
      subst hb
      have := hR x (by simp)
      exact step_getOps_ok i x this.1 (by simp [Kind.isOp, this.2])
  · intro x y hx hy
    rw [ht] at hy; cases hy
    exact hlast x hx

theorem attempt_adj (c : Cfg) (e : Entry) (i : Nat) (a : Attempt) (hd : c.dryRun = false) :
    Adj Step (attempt c e i a).1 := by
  obtain ⟨R, _, hR, hA, h⟩ := attempt_nf c e i a hd
  have hR' : ∀ ev ∈ R, ev.ws = i ∧ ev.kind.isPlan = true := fun ev h => ⟨(hR ev h).1, (hR ev h).2.1⟩
  rcases h with h | h | ⟨h, hok⟩ | ⟨h, hok⟩ <;> rw [h]
  · simp [Adj]
  · refine adj_attempt_shape i R _ (evDestroy i) hR' hA rfl ⟨rfl, rfl⟩ ?_ (by simp [Adj])
    intro ev hev
    have := hR' ev (List.mem_of_getLast? hev)
    exact step_plan_destroy i ev this.1 this.2
  · refine adj_attempt_shape i R _ (evCommit i false) hR' hA rfl ⟨rfl, rfl⟩ ?_ ?_
    · intro ev hev
      have hm := List.mem_of_getLast? hev
      exact step_plan_commit i ev false (hR' ev hm).1 (hR' ev hm).2 (hok ev hm)
    · simp only [Adj, and_true]
      constructor <;> simp [evCommit, evDestroy, Kind.isPlan]
  · refine adj_attempt_shape i R _ (evCommit i true) hR' hA rfl ⟨rfl, rfl⟩ ?_ ?_
    · intro ev hev
      have hm := List.mem_of_getLast? hev
      exact step_plan_commit i ev true (hR' ev hm).1 (hR' ev hm).2 (hok ev hm)
    · simp only [Adj, and_true]
      constructor <;> simp [evCommit, evResult, Kind.isPlan]


theorem attempt_head (c : Cfg) (e : Entry) (i : Nat) (a : Attempt) (hd : c.dryRun = false) :
    ∃ ok tl, (attempt c e i a).1 = evGetOps i ok :: tl := by
  obtain ⟨R, _, _, _, h⟩ := attempt_nf c e i a hd
  rcases h with h | h | ⟨h, _⟩ | ⟨h, _⟩ <;> rw [h] <;> exact ⟨_, _, rfl⟩

theorem getLast?_cons_append_cons {α : Type} (x : α) (l t : List α) (y : α) :
    (x :: (l ++ y :: t)).getLast? = (y :: t).getLast? := by
  rw [← List.cons_append, List.getLast?_append]
  cases h : (y :: t).getLast? with
  | none => simp at h
  | some z => rfl

theorem attempt_last_fail (c : Cfg) (e : Entry) (i : Nat) (a : Attempt) (hd : c.dryRun = false)
    (hf : (attempt c e i a).2 = false) :
    (attempt c e i a).1.getLast? = some (evDestroy i) ∨
    (attempt c e i a).1.getLast? = some (evGetOps i false) := by
  obtain ⟨R, _, _, _, h⟩ := attempt_nf c e i a hd
  rcases h with h | h | ⟨h, _⟩ | ⟨h, _⟩
  · right; rw [h]; rfl
  · left; rw [h, getLast?_cons_append_cons]; rfl
  · left; rw [h, getLast?_cons_append_cons]; rfl
  · rw [h] at hf; cases hf

theorem step_to_retriable (i : Nat) (b : Bool) (x : Ev)
    (hx : x = evDestroy i ∨ x = evGetOps i false) : Step x (evRetriable i b) := by
  rcases hx with rfl | rfl <;> constructor <;> simp [evDestroy, evGetOps, evRetriable, Kind.isPlan]

theorem step_retriable_getOps (i : Nat) (ok : Bool) : Step (evRetriable i true) (evGetOps (i + 1) ok) := by
  constructor <;> simp [evGetOps, evRetriable, Kind.isPlan]

/-! ### the retry loop: the four ways one iteration ends -/

theorem retryLoop_cases (c : Cfg) (e : Entry) (budget : Int) (tries : Nat) (a : Attempt)
    (rest : List Attempt) :
    ((attempt c e tries a).2 = true ∧
      retryLoop c e budget tries (a :: rest) = ((attempt c e tries a).1, .ok)) ∨
    ((attempt c e tries a).2 = false ∧ a.retriable = false ∧
      retryLoop c e budget tries (a :: rest) =
        ((attempt c e tries a).1 ++ [evRetriable tries false], .err)) ∨
    ((attempt c e tries a).2 = false ∧ a.retriable = true ∧ budget - ((tries : Int) + 1) < 0 ∧
      retryLoop c e budget tries (a :: rest) =
        ((attempt c e tries a).1 ++ [evRetriable tries true], .noRetries)) ∨
    ((attempt c e tries a).2 = false ∧ a.retriable = true ∧ ¬ budget - ((tries : Int) + 1) < 0 ∧
      retryLoop c e budget tries (a :: rest) =
        ((attempt c e tries a).1 ++ evRetriable tries true :: (retryLoop c e budget (tries + 1) rest).1,
         (retryLoop c e budget (tries + 1) rest).2)) := by
  by_cases hok : (attempt c e tries a).2 = true
  · left; exact ⟨hok, by simp [retryLoop, hok]⟩
  · have hf : (attempt c e tries a).2 = false := by simpa using hok
    right
    by_cases hr : a.retriable = true
    · right
      by_cases hb : budget - ((tries : Int) + 1) < 0
      · left; exact ⟨hf, hr, hb, by simp [retryLoop, hf, hr, hb]⟩
      · right; exact ⟨hf, hr, hb, by simp [retryLoop, hf, hr, hb]⟩
    · have hr' : a.retriable = false := by simpa using hr
      left; exact ⟨hf, hr', by simp [retryLoop, hf, hr']⟩

theorem retryLoop_head (c : Cfg) (e : Entry) (budget : Int) (hd : c.dryRun = false) (tries : Nat)
    (script : List Attempt) (b : Ev) (hb : (retryLoop c e budget tries script).1.head? = some b) :
    ∃ ok, b = evGetOps tries ok := by
  cases script with
  | nil => simp [retryLoop] at hb
  | cons a rest =>
    obtain ⟨ok, tl, h⟩ := attempt_head c e tries a hd
    refine ⟨ok, ?_⟩
    rcases retryLoop_cases c e budget tries a rest with ⟨_, h'⟩ | ⟨_, _, h'⟩ | ⟨_, _, _, h'⟩ | ⟨_, _, _, h'⟩ <;>
      rw [h', h] at hb <;> simp at hb <;> exact hb.symm

theorem retryLoop_adj (c : Cfg) (e : Entry) (budget : Int) (hd : c.dryRun = false) :
    ∀ (script : List Attempt) (tries : Nat), Adj Step (retryLoop c e budget tries script).1 := by
  intro script
  induction script with
  | nil => intro tries; simp [retryLoop, Adj]
  | cons a rest ih =>
    intro tries
    have hA := attempt_adj c e tries a hd
    have junction : (attempt c e tries a).2 = false → ∀ (b : Bool) x y,
        (attempt c e tries a).1.getLast? = some x →
        (evRetriable tries b :: ([] : List Ev)).head? = some y → Step x y := by
      intro hf b x y hx hy
      have hl := attempt_last_fail c e tries a hd hf
      simp only [List.head?_cons, Option.some.injEq] at hy; subst hy
      apply step_to_retriable
      rcases hl with h | h <;> rw [h] at hx <;> cases hx <;> simp
    rcases retryLoop_cases c e budget tries a rest with ⟨_, h'⟩ | ⟨hf, _, h'⟩ | ⟨hf, _, _, h'⟩ | ⟨hf, _, _, h'⟩ <;>
      rw [h']
    · exact hA
    · show Adj Step (_ ++ _)
      rw [adj_append]
      exact ⟨hA, by simp [Adj], junction hf false⟩
    · show Adj Step (_ ++ _)
      rw [adj_append]
      exact ⟨hA, by simp [Adj], junction hf true⟩
    · show Adj Step (_ ++ _ :: _)
      rw [adj_append, adj_cons]
      refine ⟨hA, ⟨?_, ih (tries + 1)⟩, ?_⟩
      · intro y hy
        obtain ⟨ok, rfl⟩ := retryLoop_head c e budget hd (tries + 1) rest y hy
        exact step_retriable_getOps tries ok
      · intro x y hx hy
        exact junction hf true x y hx (by simpa using hy)


/-! ### membership and counting facts -/

def isGetOps (ev : Ev) : Bool := ev.kind == .getOps
def isResult (ev : Ev) : Bool := ev.kind == .result
def isCommitOk (ev : Ev) : Bool := ev.kind == .commit && ev.ok

/-- number of attempts visible in a log = number of GetChangeOps calls -/
def attempts (log : List Ev) : Nat := log.countP isGetOps

theorem countP_plan_zero (p : Ev → Bool) (R : List Ev)
    (hp : ∀ ev, p ev = true → ev.kind.isPlan = false)
    (hR : ∀ ev ∈ R, ev.kind.isPlan = true) : R.countP p = 0 := by
  rw [List.countP_eq_zero]
  intro ev hev hpe
  have := hp ev hpe
  rw [hR ev hev] at this
  cases this

theorem attempt_mem (c : Cfg) (e : Entry) (i : Nat) (a : Attempt) (hd : c.dryRun = false) :
    ∀ ev ∈ (attempt c e i a).1, ev.ws = i ∧ ev.kind ≠ .retriable := by
  obtain ⟨R, _, hR, _, h⟩ := attempt_nf c e i a hd
  have hRr : ∀ ev ∈ R, ev.ws = i ∧ ev.kind ≠ .retriable :=
    fun ev h => ⟨(hR ev h).1, (isPlan_ne (hR ev h).2.1).2.2.2.1⟩
  intro ev hev
  rcases h with h | h | ⟨h, _⟩ | ⟨h, _⟩ <;> rw [h] at hev <;>
    simp only [List.mem_cons, List.mem_append, List.not_mem_nil, or_false] at hev
  · subst hev; simp [evGetOps]
  · rcases hev with rfl | hev | rfl
    · simp [evGetOps]
    · exact hRr ev hev
    · simp [evDestroy]
  · rcases hev with rfl | hev | rfl | rfl
    · simp [evGetOps]
    · exact hRr ev hev
    · simp [evCommit]
    · simp [evDestroy]
  · rcases hev with rfl | hev | rfl | rfl
    · simp [evGetOps]
    · exact hRr ev hev
    · simp [evCommit]
    · simp [evResult]

theorem attempt_counts (c : Cfg) (e : Entry) (i : Nat) (a : Attempt) (hd : c.dryRun = false) :
    attempts (attempt c e i a).1 = 1 ∧
    (attempt c e i a).1.countP isResult = (if (attempt c e i a).2 then 1 else 0) ∧
    (attempt c e i a).1.countP isCommitOk = (if (attempt c e i a).2 then 1 else 0) := by
  obtain ⟨R, _, hR, _, h⟩ := attempt_nf c e i a hd
  have hP : ∀ ev ∈ R, ev.kind.isPlan = true := fun ev h => (hR ev h).2.1
  have z1 : R.countP isGetOps = 0 := countP_plan_zero _ R
    (by intro ev h; simp [isGetOps] at h; simp [h, Kind.isPlan]) hP
  have z2 : R.countP isResult = 0 := countP_plan_zero _ R
    (by intro ev h; simp [isResult] at h; simp [h, Kind.isPlan]) hP
  have z3 : R.countP isCommitOk = 0 := countP_plan_zero _ R
    (by intro ev h; simp [isCommitOk] at h; simp [h.1, Kind.isPlan]) hP
  rcases h with h | h | ⟨h, _⟩ | ⟨h, _⟩ <;> rw [h] <;>
    simp [attempts, List.countP_append, z1, z2, z3, isGetOps, isResult, isCommitOk,
      evGetOps, evDestroy, evCommit, evResult]

theorem retryLoop_ws_ge (c : Cfg) (e : Entry) (budget : Int) (hd : c.dryRun = false) :
    ∀ (script : List Attempt) (tries : Nat), ∀ ev ∈ (retryLoop c e budget tries script).1, tries ≤ ev.ws := by
  intro script
  induction script with
  | nil => intro tries ev hev; simp [retryLoop] at hev
  | cons a rest ih =>
    intro tries ev hev
    have hm := attempt_mem c e tries a hd
    rcases retryLoop_cases c e budget tries a rest with ⟨_, h'⟩ | ⟨_, _, h'⟩ | ⟨_, _, _, h'⟩ | ⟨_, _, _, h'⟩ <;>
      rw [h'] at hev <;>
      simp only [List.mem_cons, List.mem_append, List.not_mem_nil, or_false] at hev
    · exact Nat.le_of_eq (hm ev hev).1.symm
    · rcases hev with hev | rfl
      · exact Nat.le_of_eq (hm ev hev).1.symm
      · simp [evRetriable]
    · rcases hev with hev | rfl
      · exact Nat.le_of_eq (hm ev hev).1.symm
      · simp [evRetriable]
    · rcases hev with hev | rfl | hev
      · exact Nat.le_of_eq (hm ev hev).1.symm
      · simp [evRetriable]
      · exact Nat.le_of_succ_le (ih (tries + 1) ev hev)


/-! ### manifest writes -/

theorem plan_writeManifest (c : Cfg) (e : Entry) (a : Attempt) (cl : Call)
    (h : cl ∈ (plan c e a).calls) (hk : cl.kind = .writeManifest) :
    (plan c e a).calls = [cReadManifest c, cReadFile c, cWriteFile c, cChmod c, cl] ∧
    cl = cWriteManifest c (addEntry a.manifest.entries e) ∧ a.manifest ≠ .garbage := by
  unfold plan at h ⊢
  split at h
  · exact absurd hk (snapshotCalls_kinds c cl h).2
  · split at h
    · unfold planDry at h
      split at h
      · simp at h
      · simp at h
        rcases h with h | h | h <;> subst h <;> simp [cReadFile, cWriteFile, cChmod] at hk
    · rename_i h1 h2
      simp only [h1, h2, if_false]
      unfold planManifest at h ⊢
      split at h
      · simp at h; subst h; simp [cReadManifest] at hk
      · split at h
        · simp at h; subst h; simp [cReadManifest] at hk
        · split at h
          · simp at h; rcases h with h | h <;> subst h <;> simp [cReadManifest, cReadFile] at hk
          · rename_i h3 h3' h4
            simp only [h3, h3', h4, if_false]
            simp at h
            rcases h with h | h | h | h | h
            · subst h; simp [cReadManifest] at hk
            · subst h; simp [cReadFile] at hk
            · subst h; simp [cWriteFile] at hk
            · subst h; simp [cChmod] at hk
            · subst h; exact ⟨rfl, rfl, h3⟩

theorem runCalls_five (ws : Nat) (f : Option Nat) (c1 c2 c3 c4 c5 : Call) (ev : Ev)
    (hev : ev ∈ (runCalls ws f 1 [c1, c2, c3, c4, c5]).1) (hk : ev.kind = c5.kind)
    (h1 : c1.kind ≠ c5.kind) (h2 : c2.kind ≠ c5.kind) (h3 : c3.kind ≠ c5.kind) (h4 : c4.kind ≠ c5.kind) :
    okEv ws c1 ∈ (runCalls ws f 1 [c1, c2, c3, c4, c5]).1 := by
  simp only [runCalls] at hev ⊢
  by_cases f1 : f = some 1
  · simp [f1] at hev; subst hev; exact absurd hk h1
  · simp only [f1, if_false] at hev ⊢
    simp [okEv]

theorem attempt_writeManifest (c : Cfg) (e : Entry) (i : Nat) (a : Attempt) (hd : c.dryRun = false)
    (ev : Ev) (hev : ev ∈ (attempt c e i a).1) (hk : ev.kind = .writeManifest) :
    a.manifest ≠ .garbage ∧ ev.manifest = addEntry a.manifest.entries e ∧
    ev.arg = relOut c manifestFile ∧ ev.ws = i ∧
    okEv i (cReadManifest c) ∈ (attempt c e i a).1 := by
  obtain ⟨R, hRdef, hR, _, h⟩ := attempt_nf c e i a hd
  have inR : ev ∈ R := by
    rcases h with h | h | ⟨h, _⟩ | ⟨h, _⟩ <;> rw [h] at hev <;>
      simp only [List.mem_cons, List.mem_append, List.not_mem_nil, or_false] at hev
    · subst hev; simp [evGetOps] at hk
    · rcases hev with rfl | hev | rfl
      · simp [evGetOps] at hk
      · exact hev
      · simp [evDestroy] at hk
    · rcases hev with rfl | hev | rfl | rfl
      · simp [evGetOps] at hk
      · exact hev
      · simp [evCommit] at hk
      · simp [evDestroy] at hk
    · rcases hev with rfl | hev | rfl | rfl
      · simp [evGetOps] at hk
      · exact hev
      · simp [evCommit] at hk
      · simp [evResult] at hk
  obtain ⟨hw, _, cl, hcl, k1, k2, k3⟩ := hR ev inR
  obtain ⟨hcalls, hcl', hg⟩ := plan_writeManifest c e a cl hcl (by rw [← k1]; exact hk)
  have hfirst : okEv i (cReadManifest c) ∈ R := by
    rw [hRdef, hcalls] at inR ⊢
    apply runCalls_five i a.failAt _ _ _ _ cl ev inR k1 <;> rw [hcl'] <;>
      simp [cReadManifest, cReadFile, cWriteFile, cChmod, cWriteManifest]
  refine ⟨hg, by rw [k3, hcl']; rfl, by rw [k2, hcl']; rfl, hw, ?_⟩
  rcases h with h | h | ⟨h, _⟩ | ⟨h, _⟩
  · rw [h] at hev; simp at hev; subst hev; simp [evGetOps] at hk
  all_goals (rw [h]; simp [hfirst])

theorem addEntry_mem_new (m : List Entry) (e : Entry) : e ∈ addEntry m e := by
  by_cases hu : Unique m
  · exact mem_addEntry m e hu
  · have : entryMapsOk m = false := by
      cases h : entryMapsOk m with
      | false => rfl
      | true => exact absurd ((entryMapsOk_iff m).mp h) hu
    simp [addEntry, this]

/-- The merge never drops an entry that the new entry does not replace. -/
theorem addEntry_keeps (m : List Entry) (e x : Entry) (hx : x ∈ m) (hp : x.path ≠ e.path)
    (hdg : x.digest ≠ e.digest) : x ∈ addEntry m e := by
  unfold addEntry
  split
  · simp [hx]
  · split
    · simp [hx]
    · rename_i p _
      show x ∈ List.map _ (if ((List.find? (fun x => x.digest == e.digest) m).isSome &&
        p.digest != e.digest) = true then removeDigest m e.digest else m)
      have hx' : x ∈ (if ((List.find? (fun x => x.digest == e.digest) m).isSome &&
          p.digest != e.digest) = true then removeDigest m e.digest else m) := by
        split
        · simp [removeDigest, hx, hdg]
        · exact hx
      rw [List.mem_map]
      exact ⟨x, hx', by simp [hp]⟩
    · rw [List.mem_map]
      exact ⟨x, hx, by simp [hdg]⟩


/-! ### loop-level facts (generalised over the number of failed attempts so far) -/

theorem mem_retryLoop_cons (c : Cfg) (e : Entry) (budget : Int) (tries : Nat) (a : Attempt)
    (rest : List Attempt) (ev : Ev) (hev : ev ∈ (retryLoop c e budget tries (a :: rest)).1) :
    ev ∈ (attempt c e tries a).1 ∨ (∃ b, ev = evRetriable tries b) ∨
    ((attempt c e tries a).2 = false ∧ ev ∈ (retryLoop c e budget (tries + 1) rest).1 ∧
      (retryLoop c e budget tries (a :: rest)).1 =
        (attempt c e tries a).1 ++ evRetriable tries true :: (retryLoop c e budget (tries + 1) rest).1) := by
  rcases retryLoop_cases c e budget tries a rest with ⟨_, h'⟩ | ⟨_, _, h'⟩ | ⟨_, _, _, h'⟩ | ⟨hf, _, _, h'⟩ <;>
    rw [h'] at hev ⊢ <;>
    simp only [List.mem_cons, List.mem_append, List.not_mem_nil, or_false] at hev
  · exact Or.inl hev
  · rcases hev with h | h
    · exact Or.inl h
    · exact Or.inr (Or.inl ⟨_, h⟩)
  · rcases hev with h | h
    · exact Or.inl h
    · exact Or.inr (Or.inl ⟨_, h⟩)
  · rcases hev with h | h | h
    · exact Or.inl h
    · exact Or.inr (Or.inl ⟨_, h⟩)
    · exact Or.inr (Or.inr ⟨hf, h, rfl⟩)

theorem attempt_sub_retryLoop (c : Cfg) (e : Entry) (budget : Int) (tries : Nat) (a : Attempt)
    (rest : List Attempt) : ∀ ev ∈ (attempt c e tries a).1, ev ∈ (retryLoop c e budget tries (a :: rest)).1 := by
  intro ev hev
  rcases retryLoop_cases c e budget tries a rest with ⟨_, h'⟩ | ⟨_, _, h'⟩ | ⟨_, _, _, h'⟩ | ⟨_, _, _, h'⟩ <;>
    rw [h'] <;> simp [hev]

theorem retryLoop_writeManifest (c : Cfg) (e : Entry) (budget : Int) (hd : c.dryRun = false) :
    ∀ (script : List Attempt) (tries : Nat) (ev : Ev),
      ev ∈ (retryLoop c e budget tries script).1 → ev.kind = .writeManifest →
      ∃ j a, script[j]? = some a ∧ ev.ws = tries + j ∧ a.manifest ≠ .garbage ∧
        ev.manifest = addEntry a.manifest.entries e ∧ ev.arg = relOut c manifestFile ∧
        okEv ev.ws (cReadManifest c) ∈ (retryLoop c e budget tries script).1 := by
  intro script
  induction script with
  | nil => intro tries ev hev; simp [retryLoop] at hev
  | cons a rest ih =>
    intro tries ev hev hk
    rcases mem_retryLoop_cons c e budget tries a rest ev hev with h | ⟨b, h⟩ | ⟨_, h, heq⟩
    · obtain ⟨h1, h2, h3, h4, h5⟩ := attempt_writeManifest c e tries a hd ev h hk
      refine ⟨0, a, rfl, by simp [h4], h1, h2, h3, ?_⟩
      rw [h4]
      exact attempt_sub_retryLoop c e budget tries a rest _ h5
    · subst h; simp [evRetriable] at hk
    · obtain ⟨j, a', h1, h2, h3, h4, h5, h6⟩ := ih (tries + 1) ev h hk
      refine ⟨j + 1, a', by simpa using h1, by omega, h3, h4, h5, ?_⟩
      rw [heq]
      simp [h6]

theorem attempt_commitOk_iff (c : Cfg) (e : Entry) (i : Nat) (a : Attempt) (hd : c.dryRun = false) :
    (attempt c e i a).2 = true ↔ ∃ ev ∈ (attempt c e i a).1, isCommitOk ev = true := by
  have h3 := (attempt_counts c e i a hd).2.2
  constructor
  · intro h
    rw [h] at h3
    have : 0 < (attempt c e i a).1.countP isCommitOk := by rw [h3]; simp
    obtain ⟨ev, hev, hp⟩ := List.countP_pos_iff.mp this
    exact ⟨ev, hev, hp⟩
  · rintro ⟨ev, hev, hp⟩
    have : 0 < (attempt c e i a).1.countP isCommitOk := List.countP_pos_iff.mpr ⟨ev, hev, hp⟩
    cases h : (attempt c e i a).2 with
    | true => rfl
    | false => rw [h] at h3; simp only [Bool.false_eq_true, if_false] at h3; omega

theorem retryLoop_counts (c : Cfg) (e : Entry) (budget : Int) (hd : c.dryRun = false) :
    ∀ (script : List Attempt) (tries : Nat),
      (retryLoop c e budget tries script).1.countP isResult =
        (if (retryLoop c e budget tries script).2 = .ok then 1 else 0) ∧
      (retryLoop c e budget tries script).1.countP isCommitOk =
        (if (retryLoop c e budget tries script).2 = .ok then 1 else 0) := by
  intro script
  induction script with
  | nil => intro tries; simp [retryLoop]
  | cons a rest ih =>
    intro tries
    obtain ⟨_, c2, c3⟩ := attempt_counts c e tries a hd
    have q1 : ∀ b, isResult (evRetriable tries b) = false := fun _ => rfl
    have q2 : ∀ b, isCommitOk (evRetriable tries b) = false := fun _ => rfl
    rcases retryLoop_cases c e budget tries a rest with ⟨hs, h'⟩ | ⟨hs, _, h'⟩ | ⟨hs, _, _, h'⟩ | ⟨hs, _, _, h'⟩ <;>
      rw [h'] <;> rw [hs] at c2 c3
    · simpa using ⟨c2, c3⟩
    · simp [List.countP_append, c2, c3, q1, q2]
    · simp [List.countP_append, c2, c3, q1, q2]
    · have := ih (tries + 1)
      simp only [List.countP_append, List.countP_cons, c2, c3, q1, q2]
      simpa using this

/-- per-workspace accounting: a workspace that was obtained is either committed or destroyed once. -/
theorem attempt_released (c : Cfg) (e : Entry) (i : Nat) (a : Attempt) (hd : c.dryRun = false)
    (hg : evGetOps i true ∈ (attempt c e i a).1) :
    ((attempt c e i a).2 = true ∧ evCommit i true ∈ (attempt c e i a).1 ∧ (attempt c e i a).1.count (evDestroy i) = 0) ∨
    ((attempt c e i a).2 = false ∧ evCommit i true ∉ (attempt c e i a).1 ∧ (attempt c e i a).1.count (evDestroy i) = 1 ∧
      (attempt c e i a).1.getLast? = some (evDestroy i)) := by
  obtain ⟨R, _, hR, _, h⟩ := attempt_nf c e i a hd
  have hP : ∀ ev ∈ R, ev.kind.isPlan = true := fun ev h => (hR ev h).2.1
  have nd : R.count (evDestroy i) = 0 := by
    rw [List.count_eq_zero]; intro hm; have := hP _ hm; simp [evDestroy, Kind.isPlan] at this
  have nc : evCommit i true ∉ R := by
    intro hm; have := hP _ hm; simp [evCommit, Kind.isPlan] at this
  have nd' := nd
  have nc' := nc
  simp only [evDestroy] at nd'
  simp only [evCommit] at nc'
  rcases h with h | h | ⟨h, _⟩ | ⟨h, _⟩
  · rw [h] at hg; simp [evGetOps] at hg
  · right; rw [h]
    refine ⟨rfl, ?_, ?_, by rw [getLast?_cons_append_cons]; rfl⟩
    · simp [nc', evCommit, evGetOps, evDestroy]
    · simp [List.count_cons, List.count_append, nd', evGetOps, evDestroy]
  · right; rw [h]
    refine ⟨rfl, ?_, ?_, by rw [getLast?_cons_append_cons]; rfl⟩
    · simp [nc', evCommit, evGetOps, evDestroy]
    · simp [List.count_cons, List.count_append, nd', evGetOps, evDestroy, evCommit]
  · left; rw [h]
    refine ⟨rfl, by simp, ?_⟩
    simp [List.count_cons, List.count_append, nd', evGetOps, evDestroy, evCommit, evResult]

theorem retryLoop_released (c : Cfg) (e : Entry) (budget : Int) (hd : c.dryRun = false) :
    ∀ (script : List Attempt) (tries : Nat) (k : Nat),
      evGetOps k true ∈ (retryLoop c e budget tries script).1 →
      (evCommit k true ∈ (retryLoop c e budget tries script).1 ∧
        (retryLoop c e budget tries script).1.count (evDestroy k) = 0) ∨
      (evCommit k true ∉ (retryLoop c e budget tries script).1 ∧
        (retryLoop c e budget tries script).1.count (evDestroy k) = 1) := by
  intro script
  induction script with
  | nil => intro tries k h; simp [retryLoop] at h
  | cons a rest ih =>
    intro tries k hg
    have hm := attempt_mem c e tries a hd
    have hge := retryLoop_ws_ge c e budget hd rest (tries + 1)
    -- the attempt's own log mentions only workspace `tries`; later logs only larger ones
    have cntA : k ≠ tries → (attempt c e tries a).1.count (evDestroy k) = 0 ∧ evCommit k true ∉ (attempt c e tries a).1 := by
      intro hk
      constructor
      · rw [List.count_eq_zero]; intro h; have := (hm _ h).1; simp [evDestroy] at this; exact hk this
      · intro h; have := (hm _ h).1; simp [evCommit] at this; exact hk this
    have cntN : k = tries → (retryLoop c e budget (tries + 1) rest).1.count (evDestroy k) = 0 ∧
        evCommit k true ∉ (retryLoop c e budget (tries + 1) rest).1 := by
      intro hk
      constructor
      · rw [List.count_eq_zero]; intro h; have := hge _ h; simp [evDestroy] at this; omega
      · intro h; have := hge _ h; simp [evCommit] at this; omega
    have qd : ∀ b, (evRetriable tries b == evDestroy k) = false := by intro b; simp [evRetriable, evDestroy]
    have qc : ∀ b, evCommit k true ≠ evRetriable tries b := by intro b; simp [evRetriable, evCommit]
    by_cases hk : k = tries
    · subst hk
      have hgA : evGetOps k true ∈ (attempt c e k a).1 := by
        rcases mem_retryLoop_cons c e budget k a rest _ hg with h | ⟨b, h⟩ | ⟨_, h, _⟩
        · exact h
        · simp [evGetOps, evRetriable] at h
        · have := hge _ h; simp [evGetOps] at this; omega
      obtain ⟨n1, n2⟩ := cntN rfl
      rcases attempt_released c e k a hd hgA with ⟨hs, r1, r2⟩ | ⟨hs, r1, r2, _⟩ <;>
        rcases retryLoop_cases c e budget k a rest with ⟨hs', h'⟩ | ⟨hs', _, h'⟩ | ⟨hs', _, _, h'⟩ | ⟨hs', _, _, h'⟩ <;>
        rw [hs] at hs' <;> first | cases hs' | skip
      · left; rw [h']; exact ⟨r1, r2⟩
      · right; rw [h']; simp [List.count_append, List.count_cons, r1, r2, qd, qc]
      · right; rw [h']; simp [List.count_append, List.count_cons, r1, r2, qd, qc]
      · right; rw [h']; simp [List.count_append, List.count_cons, r1, r2, qd, qc, n1, n2]
    · obtain ⟨a1, a2⟩ := cntA hk
      rcases mem_retryLoop_cons c e budget tries a rest _ hg with h | ⟨b, h⟩ | ⟨_, h, heq⟩
      · have := (hm _ h).1; simp [evGetOps] at this; exact absurd this hk
      · simp [evGetOps, evRetriable] at h
      · rw [heq]
        rcases ih (tries + 1) k h with ⟨i1, i2⟩ | ⟨i1, i2⟩
        · left; simp [List.count_append, List.count_cons, a1, i1, i2, qd]
        · right; simp [List.count_append, List.count_cons, a1, a2, i1, i2, qd, qc]

/-! ### paths (arbitrary names): what the calls of an attempt are made on -/

/-- The (kind, path argument) pairs an attempt's ChangeOps calls can carry: computed from the request
    configuration alone — not from the attempt's number, not from what its workspace holds. -/
def planArgs (c : Cfg) : List (Kind × String) :=
  if c.snapshot then (snapshotCalls c).map (fun cl => (cl.kind, cl.arg))
  else [(.readManifest, relOut c manifestFile), (.readFile, relOut c (basename c.cand)),
        (.writeFiles, relOut c (basename c.cand)), (.chmod, relOut c (basename c.cand)),
        (.writeManifest, relOut c manifestFile)]

theorem plan_args (c : Cfg) (e : Entry) (a : Attempt) :
    ∀ cl ∈ (plan c e a).calls, (cl.kind, cl.arg) ∈ planArgs c := by
  intro cl h
  unfold plan at h
  unfold planArgs
  split at h
  · rename_i hs
    simp only [hs, if_true]
    exact List.mem_map.mpr ⟨cl, h, rfl⟩
  · rename_i hs
    simp only [hs, if_false]
    split at h
    · unfold planDry at h
      split at h
      · simp at h
      · simp at h
        rcases h with h | h | h <;> subst h <;> simp [cReadFile, cWriteFile, cChmod]
    · unfold planManifest at h
      split at h
      · simp at h; subst h; simp [cReadManifest]
      · split at h
        · simp at h; subst h; simp [cReadManifest]
        · split at h
          · simp at h; rcases h with h | h <;> subst h <;> simp [cReadManifest, cReadFile]
          · simp at h
            rcases h with h | h | h | h | h <;> subst h <;>
              simp [cReadManifest, cReadFile, cWriteFile, cChmod, cWriteManifest]

/-- Every ChangeOps call of the change function in an attempt is one of the plan. -/
theorem attempt_plan_events (c : Cfg) (e : Entry) (i : Nat) (a : Attempt) (hd : c.dryRun = false) :
    ∀ ev ∈ (attempt c e i a).1, ev.kind.isPlan = true →
      ∃ cl ∈ (plan c e a).calls, ev.kind = cl.kind ∧ ev.arg = cl.arg := by
  obtain ⟨R, _, hR, _, h⟩ := attempt_nf c e i a hd
  intro ev hev hk
  have inR : ev ∈ R := by
    rcases h with h | h | ⟨h, _⟩ | ⟨h, _⟩ <;> rw [h] at hev <;>
      simp only [List.mem_cons, List.mem_append, List.not_mem_nil, or_false] at hev
    · subst hev; simp [evGetOps, Kind.isPlan] at hk
    · rcases hev with rfl | hev | rfl
      · simp [evGetOps, Kind.isPlan] at hk
      · exact hev
      · simp [evDestroy, Kind.isPlan] at hk
    · rcases hev with rfl | hev | rfl | rfl
      · simp [evGetOps, Kind.isPlan] at hk
      · exact hev
      · simp [evCommit, Kind.isPlan] at hk
      · simp [evDestroy, Kind.isPlan] at hk
    · rcases hev with rfl | hev | rfl | rfl
      · simp [evGetOps, Kind.isPlan] at hk
      · exact hev
      · simp [evCommit, Kind.isPlan] at hk
      · simp [evResult, Kind.isPlan] at hk
  obtain ⟨_, _, cl, hcl, k1, k2, _⟩ := hR ev inR
  exact ⟨cl, hcl, k1, k2⟩

theorem retryLoop_plan_events (c : Cfg) (e : Entry) (budget : Int) (hd : c.dryRun = false) :
    ∀ (script : List Attempt) (tries : Nat), ∀ ev ∈ (retryLoop c e budget tries script).1,
      ev.kind.isPlan = true → (ev.kind, ev.arg) ∈ planArgs c := by
  intro script
  induction script with
  | nil => intro tries ev hev; simp [retryLoop] at hev
  | cons a rest ih =>
    intro tries ev hev hk
    rcases mem_retryLoop_cons c e budget tries a rest ev hev with h | ⟨b, h⟩ | ⟨_, h, _⟩
    · obtain ⟨cl, hcl, k1, k2⟩ := attempt_plan_events c e tries a hd ev h hk
      rw [k1, k2]; exact plan_args c e a cl hcl
    · subst h; simp [evRetriable, Kind.isPlan] at hk
    · exact ih (tries + 1) ev h hk

/-- A refused candidate name (manifest mode): the plan is at most the manifest read and ends in an error. -/
theorem plan_refused (c : Cfg) (e : Entry) (a : Attempt) (hs : c.snapshot = false) (hn : nameOk c.cand = false) :
    (plan c e a).internalErr = true ∧ ∀ cl ∈ (plan c e a).calls, cl.kind = .readManifest := by
  unfold plan
  simp only [hs, Bool.false_eq_true, if_false]
  split
  · simp [planDry, hn]
  · unfold planManifest
    split
    · simp [cReadManifest]
    · simp [hn, cReadManifest]

theorem attempt_refused (c : Cfg) (e : Entry) (i : Nat) (a : Attempt) (hd : c.dryRun = false)
    (hs : c.snapshot = false) (hn : nameOk c.cand = false) :
    (attempt c e i a).2 = false ∧
    ∀ ev ∈ (attempt c e i a).1, ev.kind.isPlan = true → ev.kind = .readManifest := by
  obtain ⟨hie, hcalls⟩ := plan_refused c e a hs hn
  constructor
  · unfold attempt
    simp only [hd, Bool.false_eq_true, if_false]
    by_cases h0 : a.failAt = some 0
    · simp [h0]
    · simp [h0, hie]
  · intro ev hev hk
    obtain ⟨cl, hcl, k1, _⟩ := attempt_plan_events c e i a hd ev hev hk
    rw [k1]; exact hcalls cl hcl

theorem retryLoop_refused (c : Cfg) (e : Entry) (budget : Int) (hd : c.dryRun = false)
    (hs : c.snapshot = false) (hn : nameOk c.cand = false) :
    ∀ (script : List Attempt) (tries : Nat),
      (retryLoop c e budget tries script).2 ≠ .ok ∧
      ∀ ev ∈ (retryLoop c e budget tries script).1, ev.kind.isPlan = true → ev.kind = .readManifest := by
  intro script
  induction script with
  | nil => intro tries; simp [retryLoop]
  | cons a rest ih =>
    intro tries
    obtain ⟨hf, hev⟩ := attempt_refused c e tries a hd hs hn
    constructor
    · rcases retryLoop_cases c e budget tries a rest with ⟨h, _⟩ | ⟨_, _, h'⟩ | ⟨_, _, _, h'⟩ | ⟨_, _, _, h'⟩
      · rw [hf] at h; cases h
      · rw [h']; simp
      · rw [h']; simp
      · rw [h']; exact (ih (tries + 1)).1
    · intro ev hm hk
      rcases mem_retryLoop_cons c e budget tries a rest ev hm with h | ⟨b, h⟩ | ⟨_, h, _⟩
      · exact hev ev h hk
      · subst h; simp [evRetriable, Kind.isPlan] at hk
      · exact (ih (tries + 1)).2 ev h hk

/-- The path handed to Result: the plan's certPath of the committing attempt. -/
theorem attempt_result_arg (c : Cfg) (e : Entry) (i : Nat) (a : Attempt) (hd : c.dryRun = false) :
    ∀ ev ∈ (attempt c e i a).1, ev.kind = .result →
      ev.arg = (if c.snapshot then "" else basename c.cand) ∧ (c.snapshot = false → nameOk c.cand = true) := by
  obtain ⟨R, _, hR, _, h⟩ := attempt_nf c e i a hd
  intro ev hev hk
  have nR : ∀ x ∈ R, x.kind ≠ .result := fun x hx => (isPlan_ne (hR x hx).2.1).2.2.2.2
  rcases h with h | h | ⟨h, _⟩ | ⟨h, _⟩ <;> rw [h] at hev <;>
    simp only [List.mem_cons, List.mem_append, List.not_mem_nil, or_false] at hev
  · subst hev; simp [evGetOps] at hk
  · rcases hev with rfl | hev | rfl
    · simp [evGetOps] at hk
    · exact absurd hk (nR ev hev)
    · simp [evDestroy] at hk
  · rcases hev with rfl | hev | rfl | rfl
    · simp [evGetOps] at hk
    · exact absurd hk (nR ev hev)
    · simp [evCommit] at hk
    · simp [evDestroy] at hk
  · rcases hev with rfl | hev | rfl | rfl
    · simp [evGetOps] at hk
    · exact absurd hk (nR ev hev)
    · simp [evCommit] at hk
    · -- the attempt succeeded: the plan has no internal error
      have hsucc : (attempt c e i a).2 = true := by rw [h]
      by_cases hs : c.snapshot = true
      · simp [evResult, plan, hs]
      · have hs' : c.snapshot = false := by simpa using hs
        by_cases hn : nameOk c.cand = true
        · refine ⟨?_, fun _ => hn⟩
          simp only [evResult, hs', Bool.false_eq_true, if_false]
          unfold plan planManifest
          simp only [hs', hd, Bool.false_eq_true, if_false, hn, Bool.not_true]
          split
          · -- garbage manifest: the attempt cannot have succeeded
            exfalso
            rename_i hg
            have : (plan c e a).internalErr = true := by simp [plan, planManifest, hs', hd, hg]
            unfold attempt at hsucc
            simp only [hd, Bool.false_eq_true, if_false, this] at hsucc
            split at hsucc <;> simp at hsucc
          · split
            · exfalso
              rename_i hg hx
              have : (plan c e a).internalErr = true := by simp [plan, planManifest, hs', hd, hg, hn, hx]
              unfold attempt at hsucc
              simp only [hd, Bool.false_eq_true, if_false, this] at hsucc
              split at hsucc <;> simp at hsucc
            · rfl
        · exfalso
          have hn' : nameOk c.cand = false := by simpa using hn
          rw [(attempt_refused c e i a hd hs' hn').1] at hsucc
          cases hsucc

/-! ### concrete inputs used by the non-vacuity examples of the property file -/

def exCfg : Cfg := ⟨false, false, false, false, false, "rc0", "R", "out", "snap", "fw.fd"⟩
def exEntry : Entry := ⟨"rc0.binarypb", "aa", "9"⟩
def exOther : Entry := ⟨"rc7.binarypb", "bb", "1"⟩
def exOther2 : Entry := ⟨"rc8.binarypb", "cc", "2"⟩
/-- uncanonical names everywhere: candidate "x/../sub//rc0", out dir "./out//", snapshot dir "snap/", image "d/./fw.fd" -/
def exCfgNames : Cfg := ⟨false, false, false, false, false, "x/../sub//rc0", "R", "./out//", "snap/", "d/./fw.fd"⟩
def exEntryNames : Entry := ⟨"sub/rc0.binarypb", "aa", "9"⟩
/-- a climbing candidate name -/
def exCfgClimb : Cfg := ⟨false, false, true, false, false, "../out/rc0", "R", "out", "snap", "fw.fd"⟩

end GceTcb.Commit
