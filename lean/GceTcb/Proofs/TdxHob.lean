import GceTcb.Model.TdxHob
import GceTcb.Spec.TdHob
import GceTcb.Proofs.Codecs
import GceTcb.Proofs.TdxIntervals
/-
C05 — the TD hand-off block built by getTDHOBList equals the PI-specification block of Spec/TdHob.lean,
has exactly the section's size, and is refused exactly when it does not fit.  Core-only.
-/
namespace GceTcb.TdxHob
open GceTcb GceTcb.Codec GceTcb.Codecs GceTcb.Intervals GceTcb.TdxMeta

def pair (g : Gpr) : Nat × Nat := (g.start, g.len)

theorem handoff_eq_phit (e : Nat) :
    handoffWriteTo ⟨⟨1, 56⟩, 9, 0, 0, 0, 0, 0, e⟩ = Spec.TdHob.phit e := by
  simp [handoffWriteTo, Rec.enc, handoffRec, encF, Spec.TdHob.phit, Spec.TdHob.header, Spec.TdHob.u16,
    Spec.TdHob.u32, Spec.TdHob.u64, List.append_assoc]

theorem zero_owner : leBytes 4 0 ++ (leBytes 2 0 ++ (leBytes 2 0 ++ leBytes 8 (leVal (List.replicate 8 (0 : UInt8))))) =
    Spec.TdHob.zeros 16 := by decide

theorem resource_eq (rt attrs : Nat) (g : Gpr) :
    hobResource rt attrs g = Spec.TdHob.resource rt attrs g.start g.len := by
  have := zero_owner
  simp only [hobResource, resourceWriteTo, Rec.enc, resourceRec, encF, Spec.TdHob.resource, Spec.TdHob.header,
    Spec.TdHob.u16, Spec.TdHob.u32, Spec.TdHob.u64, List.append_assoc, List.append_nil] at *
  rw [← this]
  simp [List.append_assoc]

theorem end_eq : hobHeaderWriteTo ⟨0xFFFF, 8⟩ = Spec.TdHob.endMarker := by
  simp [hobHeaderWriteTo, Rec.enc, hobHeaderRec, encF, Spec.TdHob.endMarker, Spec.TdHob.header, Spec.TdHob.u16,
    Spec.TdHob.u32, List.append_assoc]

theorem attrs_eq (dea : Bool) (g : Gpr) (h : g.start + g.len < 2 ^ 64) :
    unacceptedAttrs dea g = Spec.TdHob.unacceptedAttributes dea g.start g.len := by
  unfold unacceptedAttrs Spec.TdHob.unacceptedAttributes
  rw [end_of_lt h]
  rfl

theorem flatMap_pair (f : Nat → Nat → Bytes) (l : List Gpr) :
    (l.map pair).flatMap (fun s => f s.1 s.2) = l.flatMap (fun g => f g.start g.len) := by
  induction l with
  | nil => rfl
  | cons a t ih => simp [List.flatMap_cons, ih, pair]

theorem flatMap_congr_mem {f g : Gpr → Bytes} : ∀ (l : List Gpr), (∀ b ∈ l, f b = g b) → l.flatMap f = l.flatMap g := by
  intro l
  induction l with
  | nil => intro _; rfl
  | cons a t ih =>
    intro h
    rw [List.flatMap_cons, List.flatMap_cons, h a (List.mem_cons_self ..), ih (fun b hb => h b (List.mem_cons_of_mem _ hb))]

/-- the bytes written before the size check are the specification's HOB list -/
theorem hobContent_eq (hob : Gpr) (priv un : List Gpr) (dea : Bool)
    (hn : 48 * (un.length + priv.length) + 56 < 2 ^ 32)
    (hb : hob.start + 56 + 48 * (un.length + priv.length) < 2 ^ 64)
    (hun : NoOverflow un) :
    hobContent hob priv un dea = Spec.TdHob.hobList hob.start (priv.map pair) (un.map pair) dea := by
  unfold hobContent Spec.TdHob.hobList
  simp only [List.length_map]
  have a1 : 48 * (un.length + priv.length) % 2 ^ 32 = 48 * (un.length + priv.length) :=
    Nat.mod_eq_of_lt (by omega)
  have a2 : (56 + 48 * (un.length + priv.length)) % 2 ^ 32 = 56 + 48 * (un.length + priv.length) :=
    Nat.mod_eq_of_lt (by omega)
  have a3 : hob.start % 2 ^ 64 = hob.start := Nat.mod_eq_of_lt (by omega)
  have e1 : (hob.start % 2 ^ 64 + (56 + 48 * (un.length + priv.length) % 2 ^ 32) % 2 ^ 32) % 2 ^ 64
      = hob.start + 56 + 48 * (priv.length + un.length) := by
    rw [a1, a2, a3, Nat.mod_eq_of_lt (by omega)]; omega
  rw [e1, handoff_eq_phit, end_eq, flatMap_pair (fun a b => Spec.TdHob.resource Spec.TdHob.systemMemory Spec.TdHob.baseAttributes a b),
    flatMap_pair (fun a b => Spec.TdHob.resource Spec.TdHob.memoryUnaccepted (Spec.TdHob.unacceptedAttributes dea a b) a b)]
  congr 2
  · congr 1
    apply flatMap_congr_mem
    intro g _
    exact resource_eq 0 baseAttrs g
  · apply flatMap_congr_mem
    intro g hg
    rw [attrs_eq dea g (hun g hg)]
    exact resource_eq 7 _ g

theorem resource_length (rt attrs : Nat) (g : Gpr) : (hobResource rt attrs g).length = 48 := by
  simp [hobResource, resourceWriteTo, Rec.enc, encF_length, resourceRec]

theorem flatMap_length_const (f : Gpr → Bytes) (k : Nat) (l : List Gpr) (h : ∀ g, (f g).length = k) :
    (l.flatMap f).length = k * l.length := by
  induction l with
  | nil => simp
  | cons a t ih => simp [List.flatMap_cons, ih, h]; rw [Nat.mul_add]; omega

/-- 56-byte PHIT, 48 bytes per descriptor, 8-byte end marker -/
theorem hobContent_length (hob : Gpr) (priv un : List Gpr) (dea : Bool) :
    (hobContent hob priv un dea).length = 56 + 48 * (priv.length + un.length) + 8 := by
  unfold hobContent
  simp only [List.length_append]
  rw [flatMap_length_const _ 48 priv (resource_length 0 baseAttrs),
    flatMap_length_const _ 48 un (fun g => resource_length 7 _ g)]
  simp [handoffWriteTo, hobHeaderWriteTo, Rec.enc, encF_length, handoffRec, hobHeaderRec]
  omega

end GceTcb.TdxHob
