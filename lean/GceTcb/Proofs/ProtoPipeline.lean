import GceTcb.Proofs.ProtoEndorse
/-
The C03 pipeline with protobuf instantiated by the wire codec: `unmarshal (marshal g) = some g` is a
theorem for every representable document.  Core-only.
-/
namespace GceTcb.ProtoEndorse
open GceTcb GceTcb.ProtoWire GceTcb.Pipeline GceTcb.Policy

/-- What is still assumed once protobuf is the Lean codec: RSA-PSS sign/verify agreement, X.509 path
    validation for a leaf issued by a self-signed CA root inside both validity windows, and that a DER
    certificate is non-empty and parses back. -/
structure CryptoLaws (X : Crypto) : Prop where
  sig_ok : ∀ k m, X.checkSig k m (X.sign k m) = true
  chain_ok : ∀ (c r : Cert) (now : Nat), c.issuer = r.subject → r.issuer = r.subject → r.isCA = true →
    r.valid now → c.valid now → X.verifyChain c [r] now = true
  cert_parse : ∀ c, X.parseCert (X.certDer c) = some c
  cert_nonempty : ∀ c, X.certDer c ≠ []

/-- The document's values fit the Go types of the message fields, and its measurement map is given in
    canonical form (the Lean representation of a Go map: ascending keys). -/
structure Representable (g : Pipeline.Golden) : Prop where
  clSpec : g.clSpec < 18446744073709551616
  timestamp : g.timestamp < 9223372036854775808
  sev : ∀ s, g.sev = some s → s.svn < 4294967296 ∧ s.policy < 18446744073709551616 ∧
    SortedKeys s.measurements ∧ ∀ p ∈ s.measurements, p.1 < 4294967296
  tdx : ∀ rows, g.tdx = some rows → ∀ r ∈ rows, r.ramGib < 4294967296

theorem wf_toWire (X : Crypto) (g : Pipeline.Golden) (h : Representable g) : WfGolden (toWire X g) := by
  refine ⟨h.clSpec, ?_, ?_, ?_, rfl⟩
  · intro t ht
    simp only [toWire, Option.some.injEq] at ht
    subst ht
    have := h.timestamp
    exact ⟨by simp only; omega, by simp only; omega, by simp only; omega, by simp only; omega, rfl⟩
  · intro s hs
    simp only [toWire, Option.map_eq_some_iff] at hs
    obtain ⟨s0, h0, rfl⟩ := hs
    obtain ⟨h1, h2, _, h4⟩ := h.sev s0 h0
    exact ⟨h1, h2, h4, rfl⟩
  · intro d hd
    simp only [toWire, Option.map_eq_some_iff] at hd
    obtain ⟨rows, h0, rfl⟩ := hd
    refine ⟨by show (0 : Nat) < 4294967296; omega, ?_, rfl⟩
    intro r hr
    simp only [List.mem_map] at hr
    obtain ⟨x, hx, rfl⟩ := hr
    exact ⟨h.tdx rows h0 x hx, rfl⟩

theorem canon_toWire (X : Crypto) (g : Pipeline.Golden) (h : Representable g) :
    canonGolden (toWire X g) = toWire X g := by
  cases hs : g.sev with
  | none => simp [canonGolden, toWire, hs]
  | some s =>
    obtain ⟨_, _, h3, _⟩ := h.sev s hs
    simp [canonGolden, toWire, hs, canonSevSnp, sevToWire, normMap_sorted _ h3]

theorem ofWire_toWire (X : Crypto) (hX : CryptoLaws X) (g : Pipeline.Golden) : ofWire X (toWire X g) = some g := by
  have hrows : ∀ rows : List TdxRow, List.map rowOfWire (List.map rowToWire rows) = rows := by
    intro rows
    induction rows with
    | nil => rfl
    | cons r rs ih => simp only [List.map_cons, ih]; rfl
  have hsev : Option.map sevOfWire (Option.map sevToWire g.sev) = g.sev := by
    cases g.sev with
    | none => rfl
    | some s => rfl
  have htdx : Option.map (fun d : WTdx => List.map rowOfWire d.measurements)
      (Option.map (fun rows : List TdxRow => (⟨0, List.map rowToWire rows, []⟩ : WTdx)) g.tdx) = g.tdx := by
    cases g.tdx with
    | none => rfl
    | some rows => simp only [Option.map_some, hrows]
  cases g with
  | mk digest clSpec commit timestamp cert sev tdx =>
    cases cert with
    | none =>
      simp only [ofWire, toWire, if_true] at hsev htdx ⊢
      simp only [hsev, htdx, Int.toNat_natCast]
    | some c =>
      simp only [ofWire, toWire, hX.cert_nonempty c, if_false, hX.cert_parse c] at hsev htdx ⊢
      simp only [hsev, htdx, Int.toNat_natCast]

/-- `unmarshal ∘ marshal = id` — the law C03 used to assume of protobuf — for the Lean codec, for every
    representable document, whatever order the marshaller's map iteration produces. -/
theorem unmarshal_marshal_wire (X : Crypto) (hX : CryptoLaws X) (ord : List (Nat × Bytes) → List (Nat × Bytes))
    (hord : ∀ l, (ord l).Perm l) (g : Pipeline.Golden) (hg : Representable g)
    (hsz : (marshalGolden X ord g).length < 2 ^ 64) :
    unmarshalGolden X (marshalGolden X ord g) = some g := by
  have hm : marshalGolden X ord g = encodeGoldenRaw (reorderGolden ord (toWire X g)) := rfl
  rw [hm] at hsz
  unfold unmarshalGolden
  rw [hm, decodeGolden_encodeRaw _ (wf_reorderGolden ord hord _ (wf_toWire X g hg)) hsz,
    canon_reorderGolden ord hord _ (canon_toWire X g hg)]
  exact ofWire_toWire X hX g

end GceTcb.ProtoEndorse
