import GceTcb.Model.VerifyWire
import GceTcb.Proofs.Verify
import GceTcb.Proofs.ProtoWireLast
import GceTcb.Proofs.ProtoWireMsg
/-
Helper lemmas for C01 over raw bytes (Props/C01Wire.lean): byte strings that differ and decode to the same
message (over-long tag varint, an appended unknown field), and two encoder-made containers back to back.
Core-only.
-/
namespace GceTcb.VerifyWire
open GceTcb GceTcb.ProtoWire

/-! ### the same message in other bytes -/

theorem decodeVarint_one (v : Nat) (hv : v < 128) (rest : Bytes) :
    decodeVarint (UInt8.ofNat v :: rest) = some (v, rest) := by
  have h : (UInt8.ofNat v).toNat = v := u8_toNat_ofNat v (by omega)
  simp [decodeVarint, decodeVarintF, h, hv]

/-- the two-byte, non-minimal encoding of a value below 128: continuation bit set, then a zero byte -/
theorem decodeVarint_overlong (v : Nat) (hv : v < 128) (rest : Bytes) :
    decodeVarint (UInt8.ofNat (v + 128) :: 0 :: rest) = some (v, rest) := by
  have h : (UInt8.ofNat (v + 128)).toNat = v + 128 := u8_toNat_ofNat _ (by omega)
  have h0 : (0 : UInt8).toNat = 0 := rfl
  have h1 : ¬ (v + 128 < 128) := by omega
  simp only [decodeVarint, decodeVarintF, h, h0, h1, if_false]
  simp

theorem readField_overlong (v : Nat) (hv : v < 128) (rest : Bytes) :
    readField (UInt8.ofNat (v + 128) :: 0 :: rest) = readField (UInt8.ofNat v :: rest) := by
  unfold readField
  rw [decodeVarint_overlong v hv rest, decodeVarint_one v hv rest]

/-- Re-encoding the first tag of a message (every known field of the five messages has a one-byte tag) in
    two bytes changes the byte string and not the sequence of fields the loop reads. -/
theorem parseFields_overlong (v : Nat) (hv : v < 128) (rest : Bytes) :
    parseFields (UInt8.ofNat (v + 128) :: 0 :: rest) = parseFields (UInt8.ofNat v :: rest) := by
  rw [parseFields_cons _ (by simp), parseFields_cons (UInt8.ofNat v :: rest) (by simp), readField_overlong v hv rest]

/-- one field, unknown to the golden measurement whatever its wire type -/
theorem stepGolden_unknown (m : WGolden) (f : Field) (h : 9 ≤ f.num) :
    stepGolden m f = some { m with unknown := m.unknown ++ f.unknownBytes } := by
  obtain ⟨num, val, raw⟩ := f
  simp only at h
  unfold stepGolden
  split <;> first | (rename_i h1 _; simp only at h1; omega) | rfl

theorem parseFields_single (u : Bytes) (f : Field) (h : readField u = some (f, [])) : parseFields u = some [f] := by
  have hne : u ≠ [] := by
    intro hu; subst hu
    simp [readField, decodeVarint, decodeVarintF] at h
  rw [parseFields_cons u hne, h]
  rfl

/-- Appending a field with a number the message does not know: a different byte string, the same
    golden measurement but for its unknown-field bytes — so the same view for the verifier. -/
theorem decodeGolden_append_unknown (p u : Bytes) (g : WGolden) (f : Field) (hg : decodeGolden p = some g)
    (hu : readField u = some (f, [])) (hn : 9 ≤ f.num) :
    decodeGolden (p ++ u) = some { g with unknown := g.unknown ++ f.unknownBytes } := by
  obtain ⟨fa, hp, _⟩ := decodeInto_parses stepGolden .zero g p hg
  unfold decodeGolden at hg ⊢
  rw [decodeInto_append stepGolden .zero g p u fa hp hg]
  unfold decodeInto
  rw [parseFields_single u f hu]
  simp only [foldFields, stepGolden_unknown g f hn]

theorem unmarshalGolden_append_unknown (p u : Bytes) (g : WGolden) (f : Field) (hg : decodeGolden p = some g)
    (hu : readField u = some (f, [])) (hn : 9 ≤ f.num) :
    unmarshalGolden (p ++ u) = unmarshalGolden p := by
  unfold unmarshalGolden
  rw [decodeGolden_append_unknown p u g f hg hu hn, hg]
  rfl

/-! ### field order -/

/-- a field that sets one of the plain (scalar / bytes) fields of the golden measurement:
    cl_spec = 2 (varint), commit = 3, cert = 4, digest = 5, ca_bundle = 6 (length-delimited) -/
def PlainKnown (f : Field) : Prop :=
  (f.num = 2 ∧ ∃ v, f.val = .varint v) ∨ ((f.num = 3 ∨ f.num = 4 ∨ f.num = 5 ∨ f.num = 6) ∧ ∃ p, f.val = .len p)

macro "comm_plain" : tactic => `(tactic| (
  unfold stepGolden
  split
  all_goals first
    | (split <;> simp_all)
    | simp_all))

/-- a plain known field commutes with every field of another number (known, embedded or unknown) -/
theorem stepGolden_comm_plain (m : WGolden) (f1 f2 : Field) (h1 : PlainKnown f1) (hne : f2.num ≠ f1.num) :
    (stepGolden m f1).bind (fun m1 => stepGolden m1 f2) = (stepGolden m f2).bind (fun m2 => stepGolden m2 f1) := by
  obtain ⟨n1, v1, r1⟩ := f1
  obtain ⟨n2, v2, r2⟩ := f2
  simp only at hne
  rcases h1 with ⟨hn, v, hv⟩ | ⟨hn, p, hv⟩
  · simp only at hn hv; subst hn; subst hv
    have h : ∀ m : WGolden, stepGolden m ⟨2, .varint v, r1⟩ = some { m with clSpec := v % 18446744073709551616 } :=
      fun m => rfl
    rw [h]; simp only [Option.bind_some]
    comm_plain
  · simp only at hn hv; subst hv
    rcases hn with hn | hn | hn | hn <;> subst hn
    · have h : ∀ m : WGolden, stepGolden m ⟨3, .len p, r1⟩ = some { m with commit := p } := fun m => rfl
      rw [h]; simp only [Option.bind_some]
      comm_plain
    · have h : ∀ m : WGolden, stepGolden m ⟨4, .len p, r1⟩ = some { m with cert := p } := fun m => rfl
      rw [h]; simp only [Option.bind_some]
      comm_plain
    · have h : ∀ m : WGolden, stepGolden m ⟨5, .len p, r1⟩ = some { m with digest := p } := fun m => rfl
      rw [h]; simp only [Option.bind_some]
      comm_plain
    · have h : ∀ m : WGolden, stepGolden m ⟨6, .len p, r1⟩ = some { m with caBundle := p } := fun m => rfl
      rw [h]; simp only [Option.bind_some]
      comm_plain

theorem foldFields_bind {M : Type} (step : M → Field → Option M) (o : Option M) (fs : List Field) (f1 f2 : Field)
    (m : M) (ho : o = (step m f1).bind (fun m1 => step m1 f2)) :
    foldFields step m (f1 :: f2 :: fs) = o.bind (fun m' => foldFields step m' fs) := by
  subst ho
  simp only [foldFields]
  cases step m f1 with
  | none => rfl
  | some m1 =>
    simp only [Option.bind_some]
    cases step m1 f2 <;> rfl

/-- swapping two adjacent fields, one of them a plain known field, the other of another number, does not
    change what the golden-measurement fold yields -/
theorem foldGolden_swap (a b : List Field) (f1 f2 : Field) (m : WGolden) (h1 : PlainKnown f1)
    (hne : f2.num ≠ f1.num) :
    foldFields stepGolden m (a ++ f1 :: f2 :: b) = foldFields stepGolden m (a ++ f2 :: f1 :: b) := by
  rw [foldFields_append, foldFields_append]
  cases foldFields stepGolden m a with
  | none => rfl
  | some ma =>
    simp only
    rw [foldFields_bind stepGolden _ b f1 f2 ma rfl, foldFields_bind stepGolden _ b f2 f1 ma rfl,
      stepGolden_comm_plain ma f1 f2 h1 hne]

/-- The same at byte level: `a ++ u1 ++ u2 ++ b` and `a ++ u2 ++ u1 ++ b` — `a`, `b` sequences of fields,
    `u1`, `u2` one field each — decode to the same golden measurement. -/
theorem decodeGolden_swap (a u1 u2 b : Bytes) (fa fb : List Field) (f1 f2 : Field) (ha : parseFields a = some fa)
    (hu1 : readField u1 = some (f1, [])) (hu2 : readField u2 = some (f2, [])) (hb : parseFields b = some fb)
    (h1 : PlainKnown f1) (hne : f2.num ≠ f1.num) :
    decodeGolden (a ++ (u1 ++ (u2 ++ b))) = decodeGolden (a ++ (u2 ++ (u1 ++ b))) := by
  have p1 := parseFields_single u1 f1 hu1
  have p2 := parseFields_single u2 f2 hu2
  have e1 : parseFields (a ++ (u1 ++ (u2 ++ b))) = some (fa ++ f1 :: f2 :: fb) := by
    rw [parseFields_append a fa _ ha, parseFields_append u1 [f1] _ p1, parseFields_append u2 [f2] _ p2, hb]
    rfl
  have e2 : parseFields (a ++ (u2 ++ (u1 ++ b))) = some (fa ++ f2 :: f1 :: fb) := by
    rw [parseFields_append a fa _ ha, parseFields_append u2 [f2] _ p2, parseFields_append u1 [f1] _ p1, hb]
    rfl
  unfold decodeGolden decodeInto
  rw [e1, e2]
  exact foldGolden_swap fa fb f1 f2 .zero h1 hne


/-! ### two encoder-made containers back to back -/

theorem parseFields_encodeEndorsement (p s : Bytes) (hsz : (encodeEndorsement ⟨p, s, []⟩).length < 2 ^ 64) :
    parseFields (encodeEndorsement ⟨p, s, []⟩) = some (optBytes 1 p ++ optBytes 2 s) := by
  have e : encodeEndorsement ⟨p, s, []⟩ = encFields (optBytes 1 p ++ optBytes 2 s) := by
    simp [encodeEndorsement, endorsementFields]
  rw [e] at hsz ⊢
  exact parseFields_encFields _ (good_of_shape _ (endorsementFields_shape ⟨p, s, []⟩) hsz)

theorem lastLenD_optBytes_same (num : Nat) (d p : Bytes) :
    lastLenD num d (optBytes num p) = if p = [] then d else p := by
  unfold optBytes
  split
  · rfl
  · simp [lastLenD, lastD, isLen, fLen]

theorem lastLenD_optBytes_other (num k : Nat) (d p : Bytes) (h : k ≠ num) :
    lastLenD num d (optBytes k p) = d := by
  unfold optBytes
  split
  · rfl
  · simp [lastLenD, lastD, isLen, fLen, h]

theorem unkEnd_optBytes (k : Nat) (p : Bytes) (h : k = 1 ∨ k = 2) : unkEnd (optBytes k p) = [] := by
  unfold optBytes
  split
  · rfl
  · rcases h with rfl | rfl <;> simp [unkEnd, isLen, fLen]

end GceTcb.VerifyWire
