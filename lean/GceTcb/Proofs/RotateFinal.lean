import GceTcb.Proofs.RotateMem
/-
Glue between the step specifications and the property theorems of C10, the executable check implied by
`PrimaryOK`, and the concrete states used by the witness theorem and the non-vacuity examples.
-/
namespace GceTcb.CA

theorem and_false_cases' {a b : Bool} (h : (a && !b) = false) : a = false ∨ b = true := by
  cases a <;> cases b <;> simp_all

/-- facts about one run, extracted from the step-by-step specifications: whatever the script, the state
    that survives satisfies the invariant and the log destroy-after-commit; a normal return moved the
    primary to the next name and means the target object was not claimed by another key version; a crash
    needs a fault; an error needs a fault, `overwrite = false`, or a claimed target object. -/
theorem rotate_run_facts (cfg : Cfg) (req : Req) (sc : Nat → Fault) (s : St)
    (hb : BumpOK cfg) (hi : Inv cfg s) (hf : Fresh cfg req s) :
    match rotateKey cfg req sc s.reload with
    | .ok k s' => Inv cfg s' ∧ DAC cfg s'.log ∧ primaryOf cfg s' = k ∧ k = cfg.bump (primaryOf cfg s) ∧ ¬ Claimed cfg req s
    | .err s' => (Inv cfg s' ∧ DAC cfg s'.log) ∧ (¬ NoFault sc ∨ cfg.overwrite = false ∨ Claimed cfg req s)
    | .crash s' => (Inv cfg s' ∧ DAC cfg s'.log) ∧ ¬ NoFault sc := by
  cases hca : cfg.ca with
  | gcsca =>
    unfold Inv at hi; rw [hca] at hi
    obtain ⟨m0, r, c0, path0, h0⟩ := hi
    unfold Fresh at hf; rw [hca] at hf
    obtain ⟨ht1, ht2⟩ := hf m0 h0.man
    have hP : Ph cfg m0 r c0 path0 false none s.reload :=
      ⟨h0.transfer rfl rfl, Or.inl rfl, fun e he => (by cases he), fun _ _ e => (by cases e)⟩
    have hp0 : primaryOf cfg s = m0.signing := by
      unfold primaryOf; rw [hca, h0.man]
    have hclaim : Claimed cfg req s ↔ claimed cfg req m0 = true := by
      unfold Claimed
      constructor
      · rintro ⟨_, m, hm, hc⟩
        rw [h0.man] at hm
        injection hm with hm; injection hm with hm
        rw [hm]; exact hc
      · intro hc; exact ⟨hca, m0, h0.man, hc⟩
    have := rotateKey_gcs (sc := sc) hca hb req ht1 ht2 s.reload hP
    cases hr : rotateKey cfg req sc s.reload with
    | ok k s' =>
      rw [hr] at this
      obtain ⟨hk, hcf, mat, hinv, hdac⟩ := this
      refine ⟨?_, hdac, ?_, by rw [hk, hp0], ?_⟩
      · unfold Inv; rw [hca]; exact ⟨_, _, _, _, hinv⟩
      · unfold primaryOf; rw [hca, hinv.man, hk]; exact rotatedManifest_signing req
      · rw [hclaim, hcf]; simp
    | err s' =>
      rw [hr] at this
      refine ⟨this.1, ?_⟩
      rcases this.2 with h | h
      · exact Or.inl h
      · rcases and_false_cases' h with h | h
        · exact Or.inr (Or.inl h)
        · exact Or.inr (Or.inr (hclaim.mpr h))
    | crash s' => rw [hr] at this; exact this
  | memca =>
    unfold Inv at hi; rw [hca] at hi
    obtain ⟨r, c0, h0⟩ := hi
    have hP : PhM cfg r c0 s.memPrimary s.memRoot none none s.reload :=
      ⟨h0.transfer rfl rfl rfl rfl, rfl, rfl, fun e he => (by cases he), fun _ _ e => (by cases e), fun _ _ e => (by cases e)⟩
    have hp0 : primaryOf cfg s = s.memPrimary := by
      unfold primaryOf; rw [hca]
    have hnc : ¬ Claimed cfg req s := by
      rintro ⟨h, _⟩; rw [hca] at h; cases h
    have := rotateKey_mem (sc := sc) (ow := cfg.overwrite) hca hb req s.reload hP
    cases hr : rotateKey cfg req sc s.reload with
    | ok k s' =>
      rw [hr] at this
      obtain ⟨hk, hprim, mat, hinv, hdac⟩ := this
      refine ⟨?_, hdac, ?_, by rw [hk, hp0], hnc⟩
      · unfold Inv; rw [hca]; exact ⟨_, _, hinv⟩
      · unfold primaryOf; rw [hca, hprim, hk]
    | err s' =>
      rw [hr] at this
      exact ⟨this.1, this.2.imp (fun x => x) Or.inl⟩
    | crash s' => rw [hr] at this; exact this

theorem not_claimed_of_unclaimed {cfg : Cfg} {req : Req} {s : St} (hu : Unclaimed cfg req s) : ¬ Claimed cfg req s := by
  rintro ⟨hca, m, hm, hc⟩
  unfold Unclaimed at hu
  rw [hca] at hu
  rw [hu m hm] at hc
  cases hc

/-- the same configuration with overwriting allowed -/
def Cfg.allowOverwrite (cfg : Cfg) : Cfg := { cfg with overwrite := true }

theorem Inv_allowOverwrite (cfg : Cfg) (s : St) : Inv cfg.allowOverwrite s ↔ Inv cfg s := by
  unfold Inv Cfg.allowOverwrite
  cases cfg.ca with
  | gcsca =>
    constructor
    · rintro ⟨m, r, c, p, h⟩
      exact ⟨m, r, c, p, ⟨h.man, h.root, h.entry, h.prim, h.kprim, h.chain, h.kroot, h.sig_ne, h.root_ne, h.sr, h.pm, h.rm, h.broot⟩⟩
    · rintro ⟨m, r, c, p, h⟩
      exact ⟨m, r, c, p, ⟨h.man, h.root, h.entry, h.prim, h.kprim, h.chain, h.kroot, h.sig_ne, h.root_ne, h.sr, h.pm, h.rm, h.broot⟩⟩
  | memca =>
    constructor
    · rintro ⟨r, c, h⟩
      exact ⟨r, c, ⟨h.root, h.prim, h.kprim, h.chain, h.kroot, h.sig_ne, h.root_ne, h.sr, h.broot⟩⟩
    · rintro ⟨r, c, h⟩
      exact ⟨r, c, ⟨h.root, h.prim, h.kprim, h.chain, h.kroot, h.sig_ne, h.root_ne, h.sr, h.broot⟩⟩

/-- executable check implied by `PrimaryOK` -/
def primaryOKb (cfg : Cfg) (s : St) : Bool :=
  match cfg.ca with
  | .gcsca =>
    match lookup s.store manifestName, lookup s.store cfg.rootPath with
    | some (.manifest m), some (.pem r) =>
      match lookup m.entries m.signing with
      | some path =>
        match lookup s.store path with
        | some (.der c) => lookup s.keys m.signing == some c.pub && c.sigBy == r.pub
        | _ => false
      | none => false
    | _, _ => false
  | .memca =>
    match lookup s.memCerts s.memRoot, lookup s.memCerts s.memPrimary with
    | some r, some c => lookup s.keys s.memPrimary == some c.pub && c.sigBy == r.pub
    | _, _ => false

theorem primaryOKb_of (cfg : Cfg) (s : St) (h : PrimaryOK cfg s) : primaryOKb cfg s = true := by
  unfold PrimaryOK at h; unfold primaryOKb
  cases hca : cfg.ca with
  | gcsca =>
    rw [hca] at h
    obtain ⟨m, r, c, path, h1, h2, h3, h4, h5, h6⟩ := h
    simp [h1, h2, h3, h4, h5, h6]
  | memca =>
    rw [hca] at h
    obtain ⟨r, c, h1, h2, h3, h4⟩ := h
    simp [h1, h2, h3, h4]

def demoBump (n : String) : String := n ++ "_n"

theorem demoBump_ok (ca : CAKind) : BumpOK ⟨ca, .memkm, "root.crt", "certs/", demoBump, 2, 1, false⟩ := by
  have hlen : ∀ n : String, (n ++ "_n").length = n.length + 2 := by
    intro n; rw [String.length_append]; rfl
  constructor
  · intro n e
    have := congrArg String.length e
    simp only [demoBump] at this
    rw [hlen] at this
    omega
  · intro n e
    have := congrArg String.length e
    simp only [demoBump] at this
    rw [hlen] at this
    simp at this

/-- a good durable state on the deferred authority: root key 0, signing key "sk" (material 1) with
    certificate sigcn-2, as left by a bootstrap -/
def demoG : St :=
  { St.init with
    keys := [("sk", 1), ("root", 0)], nextMat := 2,
    store := [(manifestName, .manifest ⟨[("root", "certs/rootcn-1.crt"), ("sk", "certs/sigcn-2.crt")], "root", "sk"⟩),
              ("root.crt", .pem ⟨"rootcn", 1, 0, 0⟩),
              ("certs/sigcn-2.crt", .der ⟨"sigcn", 2, 1, 0⟩),
              ("certs/rootcn-1.crt", .der ⟨"rootcn", 1, 0, 0⟩)] }

/-- the same on the immediate authority -/
def demoM : St :=
  { St.init with
    keys := [("sk", 1), ("root", 0)], nextMat := 2,
    memCerts := [("sk", ⟨"sigcn", 2, 1, 0⟩), ("root", ⟨"rootcn", 1, 0, 0⟩)], memRoot := "root", memPrimary := "sk" }

def demoCfg (ca : CAKind) : Cfg := ⟨ca, .memkm, "root.crt", "certs/", demoBump, 2, 1, false⟩

theorem demoBump_ne_root (n : String) : demoBump n ≠ "root" := by
  intro e
  have hl := congrArg String.length e
  simp only [demoBump] at hl
  rw [String.length_append] at hl
  have h2 : ("_n" : String).length = 2 := rfl
  have h3 : ("root" : String).length = 4 := rfl
  have hn : n.length = 2 := by omega
  have hd : n.toList ++ "_n".toList = "root".toList := by
    have := congrArg String.toList e
    simpa [demoBump, String.toList_append] using this
  have : "_n".toList = ("root".toList).drop n.toList.length := by
    rw [← hd]; simp
  rw [String.length_toList, hn] at this
  revert this; decide

theorem demoG_inv : Inv (demoCfg .gcsca) demoG := by
  refine ⟨⟨[("root", "certs/rootcn-1.crt"), ("sk", "certs/sigcn-2.crt")], "root", "sk"⟩, ⟨"rootcn", 1, 0, 0⟩,
    ⟨"sigcn", 2, 1, 0⟩, "certs/sigcn-2.crt", ?_⟩
  exact ⟨by decide, by decide, by decide, by decide, by decide, by decide, by decide, by decide, by decide,
    by decide, by decide, by decide, demoBump_ne_root⟩

theorem demoM_inv : Inv (demoCfg .memca) demoM := by
  refine ⟨⟨"rootcn", 1, 0, 0⟩, ⟨"sigcn", 2, 1, 0⟩, ?_⟩
  exact ⟨by decide, by decide, by decide, by decide, by decide, by decide, by decide, by decide, demoBump_ne_root⟩

theorem demoG_manifest {m : Manifest} (hm : lookup demoG.store manifestName = some (.manifest m)) :
    m = ⟨[("root", "certs/rootcn-1.crt"), ("sk", "certs/sigcn-2.crt")], "root", "sk"⟩ := by
  have h : lookup demoG.store manifestName =
      some (.manifest ⟨[("root", "certs/rootcn-1.crt"), ("sk", "certs/sigcn-2.crt")], "root", "sk"⟩) := by decide
  rw [h] at hm
  injection hm with hm
  injection hm with hm
  exact hm.symm

/-- every request whose common name and serial give an object name other than "root.crt" is admissible
    in `demoG` — including ⟨"sigcn", 2⟩, the request that names the PRIMARY's certificate object -/
theorem demoG_fresh (req : Req) (h : objName (demoCfg .gcsca) req ≠ "root.crt") (h' : objName (demoCfg .gcsca) req ≠ manifestName) :
    Fresh (demoCfg .gcsca) req demoG := by
  intro m hm
  rw [demoG_manifest hm]
  exact ⟨h', h⟩

theorem demoG_unclaimed : Unclaimed (demoCfg .gcsca) ⟨"sig", 3⟩ demoG := by
  intro m hm
  rw [demoG_manifest hm]
  decide

def failAt (n : Nat) : Nat → Fault := fun i => if i = n then .fail else .ok

def crashAt (n : Nat) : Nat → Fault := fun i => if i = n then .crash else .ok

def Res.tag {α : Type} : Res α → String
  | .ok _ _ => "ok"
  | .err _ => "err"
  | .crash _ => "crash"


end GceTcb.CA
