import GceTcb.Model.PathScan
/-
Helper lemmas for C19 about the scanner model: every recogniser returns a length between 1 and the
remaining input, escapes and runes consume at least one and at most the remaining bytes, the string
loop has enough fuel, and `scan` is total with strict progress on every non-eof token.
-/
namespace GceTcb.Path
open GceTcb

theorem spanLen_le (p : Nat → Bool) (s : Str) : spanLen p s ≤ s.length := by
  induction s with
  | nil => simp [spanLen]
  | cons c cs ih =>
    simp only [spanLen]
    split
    · simp only [List.length_cons]; omega
    · omega

theorem matchIdent_bounds {s : Str} {n : Nat} (h : matchIdent s = some n) : 1 ≤ n ∧ n ≤ s.length := by
  cases s with
  | nil => simp [matchIdent] at h
  | cons c cs =>
    simp only [matchIdent] at h
    split at h
    · have := spanLen_le isIdentCont cs
      simp only [Option.some.injEq] at h
      simp only [List.length_cons]; omega
    · simp at h

theorem optMinus_len (s : Str) : (optMinus s).1 + (optMinus s).2.length = s.length := by
  unfold optMinus
  split
  · simp only [List.length_cons]; omega
  · simp

theorem withMinus_bounds (body : Str → Option Nat)
    (hb : ∀ r m, body r = some m → 1 ≤ m ∧ m ≤ r.length) {s : Str} {n : Nat}
    (h : withMinus body s = some n) : 1 ≤ n ∧ n ≤ s.length := by
  unfold withMinus at h
  split at h
  · rename_i m hm
    have := hb _ _ hm
    have := optMinus_len s
    simp only [Option.some.injEq] at h
    omega
  · simp at h

theorem decimalBody_bounds (r : Str) (m : Nat) (h : decimalBody r = some m) : 1 ≤ m ∧ m ≤ r.length := by
  cases r with
  | nil => simp [decimalBody] at h
  | cons c cs =>
    simp only [decimalBody] at h
    have := spanLen_le isDigit cs
    split at h
    · simp only [Option.some.injEq] at h; simp only [List.length_cons]; omega
    · split at h
      · simp only [Option.some.injEq] at h; simp only [List.length_cons]; omega
      · simp at h

theorem octalBody_bounds (r : Str) (m : Nat) (h : octalBody r = some m) : 1 ≤ m ∧ m ≤ r.length := by
  unfold octalBody at h
  split at h
  · rename_i cs
    have := spanLen_le isOct cs
    simp only at h
    split at h
    · simp only [Option.some.injEq] at h; simp only [List.length_cons]; omega
    · simp at h
  · simp at h

theorem hexBody_bounds (r : Str) (m : Nat) (h : hexBody r = some m) : 1 ≤ m ∧ m ≤ r.length := by
  unfold hexBody at h
  split at h
  · rename_i x cs
    have := spanLen_le isHex cs
    split at h
    · simp only at h
      split at h
      · simp only [Option.some.injEq] at h; simp only [List.length_cons]; omega
      · simp at h
    · simp at h
  · simp at h

theorem matchDecimal_bounds {s : Str} {n : Nat} (h : matchDecimal s = some n) : 1 ≤ n ∧ n ≤ s.length :=
  withMinus_bounds _ decimalBody_bounds h
theorem matchOctal_bounds {s : Str} {n : Nat} (h : matchOctal s = some n) : 1 ≤ n ∧ n ≤ s.length :=
  withMinus_bounds _ octalBody_bounds h
theorem matchHex_bounds {s : Str} {n : Nat} (h : matchHex s = some n) : 1 ≤ n ∧ n ≤ s.length :=
  withMinus_bounds _ hexBody_bounds h

theorem boundedRe_bounds (p : Nat → Bool) (lo hi : Nat) {s : Str} {n : Nat}
    (h : boundedRe p lo hi s = some n) : lo ≤ n ∧ n ≤ s.length := by
  unfold boundedRe at h
  simp only at h
  split at h
  · simp only [Option.some.injEq] at h
    have := spanLen_le p (s.take hi)
    have : (s.take hi).length ≤ s.length := by simp [List.length_take]; omega
    omega
  · simp at h

theorem decodeRune_size (s : Str) (h : s ≠ []) : 1 ≤ (decodeRune s).2 ∧ (decodeRune s).2 ≤ s.length := by
  cases s with
  | nil => exact absurd rfl h
  | cons p0 t =>
    simp only [decodeRune, List.length_cons]
    repeat' split
    all_goals (simp only [List.length_cons]; omega)

/-! ### Outcome plumbing -/

theorem bind_eq_ok {α β : Type} {x : Outcome α} {f : α → Outcome β} {b : β}
    (h : (x >>= f) = .ok b) : ∃ a, x = .ok a ∧ f a = .ok b := by
  cases x with
  | ok a => exact ⟨a, rfl, h⟩
  | err c => simp at h
  | panic s => simp at h

theorem idx_ok {buf : Str} {i : Nat} (site : String) (h : i < buf.length) :
    idx buf i site = .ok buf[i] := by
  simp [idx, List.getElem?_eq_getElem h]

theorem slice_ok {buf : Str} {lo hi : Nat} (site : String) (h1 : lo ≤ hi) (h2 : hi ≤ buf.length) :
    slice buf lo hi site = .ok ((buf.drop lo).take (hi - lo)) := by
  simp [slice, h1, h2]

theorem sliceFrom_ok {buf : Str} {lo : Nat} (site : String) (h : lo ≤ buf.length) :
    sliceFrom buf lo site = .ok (buf.drop lo) := by
  simp [sliceFrom, h]

/-- `number` is total: it returns a position between `pos` and the end, strictly larger than `pos`
    when the rune is valid. -/
theorem number_total (buf : Str) (pos start : Nat) (re : Str → Option Nat) (base : Nat)
    (hpos : pos ≤ buf.length) (hre : ∀ r n, re r = some n → 1 ≤ n ∧ n ≤ r.length) :
    ∃ er p', number buf pos start re base = .ok (er, p') ∧ pos ≤ p' ∧ p' ≤ buf.length ∧
      (er.valid = true → pos < p') ∧ er.pos = start := by
  unfold number
  rw [sliceFrom_ok _ hpos]
  simp only [Outcome.bind_ok]
  cases hm : re (buf.drop pos) with
  | none =>
    simp only []
    refine ⟨_, _, rfl, ?_, ?_, ?_, rfl⟩
    · split <;> omega
    · split <;> omega
    · simp
  | some numLen =>
    have hb := hre _ _ hm
    simp only [List.length_drop] at hb
    simp only []
    rw [slice_ok _ (by omega) (by omega)]
    simp only [Outcome.bind_ok]
    split
    · exact ⟨_, _, rfl, by omega, by omega, fun _ => by omega, rfl⟩
    · exact ⟨_, _, rfl, by omega, by omega, fun h => by simp at h, rfl⟩

theorem oct13_bounds (r : Str) (n : Nat) (h : oct13 r = some n) : 1 ≤ n ∧ n ≤ r.length := boundedRe_bounds _ _ _ h
theorem hex12_bounds (r : Str) (n : Nat) (h : hex12 r = some n) : 1 ≤ n ∧ n ≤ r.length := boundedRe_bounds _ _ _ h
theorem hex4_bounds (r : Str) (n : Nat) (h : hex4 r = some n) : 1 ≤ n ∧ n ≤ r.length := by
  have := boundedRe_bounds _ _ _ h; omega
theorem hex8_bounds (r : Str) (n : Nat) (h : hex8 r = some n) : 1 ≤ n ∧ n ≤ r.length := by
  have := boundedRe_bounds _ _ _ h; omega

/-- `escape` is total and always consumes the backslash: new position in (pos0, len]. -/
theorem escape_total (buf : Str) (pos0 : Nat) (h : pos0 < buf.length) :
    ∃ er p', escape buf pos0 = .ok (er, p') ∧ pos0 < p' ∧ p' ≤ buf.length ∧ pos0 ≤ er.pos := by
  unfold escape
  simp only []
  split
  · exact ⟨_, _, rfl, by omega, by omega, by simp⟩
  · rename_i hlt
    have hlt' : pos0 + 1 < buf.length := by omega
    rw [idx_ok _ hlt']
    simp only [Outcome.bind_ok]
    split
    · exact ⟨_, _, rfl, by omega, by omega, by simp⟩
    · split
      · obtain ⟨er, p', he, h1, h2, _, h6⟩ := number_total buf (pos0 + 1) pos0 oct13 8 (by omega) oct13_bounds
        exact ⟨er, p', he, by omega, h2, by omega⟩
      · split
        · obtain ⟨er, p', he, h1, h2, _, h6⟩ := number_total buf (pos0 + 1 + 1) pos0 hex4 16 (by omega) hex4_bounds
          exact ⟨er, p', he, by omega, h2, by omega⟩
        · split
          · obtain ⟨er, p', he, h1, h2, _, h6⟩ := number_total buf (pos0 + 1 + 1) pos0 hex8 16 (by omega) hex8_bounds
            exact ⟨er, p', he, by omega, h2, by omega⟩
          · split
            · obtain ⟨er, p', he, h1, h2, _, h6⟩ := number_total buf (pos0 + 1 + 1) pos0 hex12 16 (by omega) hex12_bounds
              exact ⟨er, p', he, by omega, h2, by omega⟩
            · exact ⟨_, _, rfl, by omega, by omega, by simp⟩

/-- The string loop is total when the fuel exceeds the remaining bytes; it never yields eof and ends
    at a position in [pos, len]. -/
theorem strLoop_total (buf : Str) (start quote : Nat) (hs : start ≤ buf.length) :
    ∀ (fuel pos : Nat) (lit : Str), start ≤ pos → pos ≤ buf.length → buf.length - pos < fuel →
    ∃ t p', strLoop buf start quote fuel pos lit = .ok (t, p') ∧ pos ≤ p' ∧ p' ≤ buf.length ∧ t.kind ≠ .eof := by
  intro fuel
  induction fuel with
  | zero => intro pos lit _ _ h; omega
  | succ fuel ih =>
    intro pos lit hsp hp hf
    unfold strLoop
    split
    · rw [sliceFrom_ok _ hs]
      exact ⟨_, _, rfl, by omega, by omega, by simp⟩
    · rename_i hlt
      have hlt' : pos < buf.length := by omega
      rw [idx_ok _ hlt']
      simp only [Outcome.bind_ok]
      split
      · exact ⟨_, _, rfl, by omega, by omega, by simp⟩
      · split
        · obtain ⟨er, p', he, h1, h2, h7⟩ := escape_total buf pos hlt'
          rw [he]
          simp only [Outcome.bind_ok]
          split
          · have hle : min (er.pos + 1) buf.length ≤ buf.length := Nat.min_le_right _ _
            have hsl : start ≤ min (er.pos + 1) buf.length := by
              rw [Nat.le_min]; omega
            rw [slice_ok _ hsl hle]
            exact ⟨_, _, rfl, by omega, by omega, by simp⟩
          · obtain ⟨t, p'', hl, h3, h4, h5⟩ := ih p' (lit ++ encodeRune er.rune) (by omega) h2 (by omega)
            exact ⟨t, p'', hl, by omega, h4, h5⟩
        · split
          · exact ⟨_, _, rfl, by omega, by omega, by simp⟩
          · have hne : buf.drop pos ≠ [] := by
              intro h0
              have := congrArg List.length h0
              simp at this; omega
            have hd := decodeRune_size _ hne
            simp only [List.length_drop] at hd
            split
            · exact ⟨_, _, rfl, by omega, by omega, by simp⟩
            · obtain ⟨t, p'', hl, h3, h4, h5⟩ :=
                ih (pos + (decodeRune (buf.drop pos)).2) (lit ++ encodeRune (decodeRune (buf.drop pos)).1)
                  (by omega) (by omega) (by omega)
              exact ⟨t, p'', hl, by omega, h4, h5⟩

theorem literal_total (buf : Str) (pos : Nat) (k : TokKind) (n : Nat) (h1 : 1 ≤ n) (h2 : pos + n ≤ buf.length) :
    ∃ t, literal buf pos k n = .ok (t, pos + n) ∧ t.kind = k := by
  unfold literal
  rw [slice_ok _ (by omega) h2]
  exact ⟨_, rfl, rfl⟩

/-- `scan` is total; an eof token leaves the position unchanged at the end of the input, every other
    token strictly advances the position and stays within the input. -/
theorem scan_total (buf : Str) (pos : Nat) :
    ∃ t p', scan buf pos = .ok (t, p') ∧
      ((t.kind = .eof ∧ p' = pos ∧ buf.length ≤ pos) ∨ (t.kind ≠ .eof ∧ pos < p' ∧ p' ≤ buf.length)) := by
  unfold scan
  split
  · exact ⟨_, _, rfl, Or.inl ⟨rfl, rfl, by omega⟩⟩
  · rename_i hlt
    have hlt' : pos < buf.length := by omega
    rw [sliceFrom_ok _ (by omega)]
    simp only [Outcome.bind_ok]
    have lit : ∀ (k : TokKind) (n : Nat), k ≠ .eof → 1 ≤ n → n ≤ (buf.drop pos).length →
        ∃ t p', literal buf pos k n = .ok (t, p') ∧
          ((t.kind = .eof ∧ p' = pos ∧ buf.length ≤ pos) ∨ (t.kind ≠ .eof ∧ pos < p' ∧ p' ≤ buf.length)) := by
      intro k n hk h1 h2
      simp only [List.length_drop] at h2
      obtain ⟨t, ht, hkind⟩ := literal_total buf pos k n h1 (by omega)
      exact ⟨t, _, ht, Or.inr ⟨by rw [hkind]; exact hk, by omega, by omega⟩⟩
    split
    · rename_i n hm
      have := matchOctal_bounds hm
      exact lit .intlit n (by simp) this.1 this.2
    · split
      · rename_i n hm
        have := matchHex_bounds hm
        exact lit .intlit n (by simp) this.1 this.2
      · split
        · rename_i n hm
          have := matchDecimal_bounds hm
          exact lit .intlit n (by simp) this.1 this.2
        · split
          · rename_i n hm
            have := matchIdent_bounds hm
            exact lit .ident n (by simp) this.1 this.2
          · have hr : 0 < (buf.drop pos).length := by simp only [List.length_drop]; omega
            rw [idx_ok _ hr]
            simp only [Outcome.bind_ok]
            have sg : ∀ k : TokKind, k ≠ .eof → ∃ t p', single pos k = .ok (t, p') ∧
                ((t.kind = .eof ∧ p' = pos ∧ buf.length ≤ pos) ∨ (t.kind ≠ .eof ∧ pos < p' ∧ p' ≤ buf.length)) := by
              intro k hk
              exact ⟨_, _, rfl, Or.inr ⟨hk, by omega, by omega⟩⟩
            split
            · exact sg _ (by simp)
            · split
              · exact sg _ (by simp)
              · split
                · exact sg _ (by simp)
                · split
                  · exact sg _ (by simp)
                  · split
                    · exact sg _ (by simp)
                    · split
                      · unfold scanString
                        rw [idx_ok _ hlt']
                        simp only [Outcome.bind_ok]
                        obtain ⟨t, p', hl, h1, h2, h3⟩ :=
                          strLoop_total buf pos buf[pos] (by omega) (buf.length - pos) (pos + 1) []
                            (by omega) (by omega) (by omega)
                        exact ⟨t, p', hl, Or.inr ⟨h3, by omega, h2⟩⟩
                      · have hne : buf.drop pos ≠ [] := by
                          intro h0
                          have := congrArg List.length h0
                          simp at this; omega
                        have hd := decodeRune_size _ hne
                        simp only [List.length_drop] at hd
                        exact ⟨_, _, rfl, Or.inr ⟨by simp, by omega, by omega⟩⟩

end GceTcb.Path
