import GceTcb.Model.Kms
/-
Helper lemmas for C20 (Cloud KMS signing, wipeout, bootstrap, rotation).  Core-only.
-/
namespace GceTcb.Kms

theorem sign_pss (crc : Bytes → Nat) (svc : SignReq → Option SignResp) (name : String) (digest : Bytes)
    (s : Int) (h : Nat) :
    sign crc svc name digest (.pss s h) =
      if optsOk (.pss s h) = true then
        match svc (mkSignReq crc name digest) with
        | none => ⟨some (mkSignReq crc name digest), .err "rpc"⟩
        | some r => ⟨some (mkSignReq crc name digest), checkResp crc r⟩
      else ⟨none, .err "opts"⟩ := rfl

/-! ### Walks -/

theorem walk_single {α : Type} {p : Pager α} {tok : String} {pg : Page α} :
    Walk p tok [pg] ↔ (p tok = pg ∧ pg.next = "") := by
  simp [Walk]

theorem walk_cons_cons {α : Type} {p : Pager α} {tok : String} {pg pg' : Page α} {rest : List (Page α)} :
    Walk p tok (pg :: pg' :: rest) ↔ (p tok = pg ∧ pg.next ≠ "" ∧ Walk p pg.next (pg' :: rest)) := by
  simp [Walk]

theorem walk_head {α : Type} {p : Pager α} {tok : String} {pg : Page α} {rest : List (Page α)}
    (h : Walk p tok (pg :: rest)) : p tok = pg := by
  cases rest with
  | nil => exact (walk_single.mp h).1
  | cons pg' r => exact (walk_cons_cons.mp h).1

/-- A walk either ends here (`next = ""`, no further pages) or continues at the next token. -/
theorem walk_cases {α : Type} {p : Pager α} {tok : String} {pg : Page α} {rest : List (Page α)}
    (h : Walk p tok (pg :: rest)) :
    (pg.next = "" ∧ rest = []) ∨ (pg.next ≠ "" ∧ rest ≠ [] ∧ Walk p pg.next rest) := by
  cases rest with
  | nil => exact Or.inl ⟨(walk_single.mp h).2, rfl⟩
  | cons pg' r =>
    have := walk_cons_cons.mp h
    exact Or.inr ⟨this.2.1, by simp, this.2.2⟩

theorem walk_ne_nil {α : Type} {p : Pager α} {tok : String} {pages : List (Page α)}
    (h : Walk p tok pages) : pages ≠ [] := by
  cases pages with
  | nil => simp [Walk] at h
  | cons _ _ => simp

theorem flatItems_cons {α : Type} (pg : Page α) (rest : List (Page α)) :
    flatItems (pg :: rest) = pg.items ++ flatItems rest := by
  simp [flatItems]

theorem flatItems_nil {α : Type} : flatItems ([] : List (Page α)) = [] := rfl

theorem stop_fixed (len : Nat) (next : String) : (Style.stop .fixed len next = true) ↔ next = "" := by
  simp [Style.stop]

theorem stop_old (ps len : Nat) (next : String) : (Style.stop (.old ps) len next = true) ↔ len < ps := by
  simp [Style.stop]

/-! ### Counting list calls -/

def isListCall : Call → Bool
  | .listKeys _ => true
  | .listVers _ _ => true
  | _ => false

/-- number of listing calls in a log -/
def nList (log : List Ev) : Nat := (log.filter fun e => isListCall e.call).length

theorem nList_cons_list (c : Call) (ok : Bool) (log : List Ev) (h : isListCall c = true) :
    nList (⟨c, ok⟩ :: log) = nList log + 1 := by
  simp [nList, h]

theorem nList_cons_other (c : Call) (ok : Bool) (log : List Ev) (h : isListCall c = false) :
    nList (⟨c, ok⟩ :: log) = nList log := by
  simp [nList, h]

/-! ### Wipeout: "gone" = neither ENABLED nor DISABLED -/

def Gone (s : String → Nat) (v : String) : Prop := s v ≠ stEnabled ∧ s v ≠ stDisabled

theorem destroyable_enabled : destroyableState stEnabled = some true := by decide
theorem destroyable_disabled : destroyableState stDisabled = some true := by decide

theorem push_state (st : St) (c : Call) (ok : Bool) : (st.push c ok).state = st.state := rfl
theorem push_log (st : St) (c : Call) (ok : Bool) : (st.push c ok).log = ⟨c, ok⟩ :: st.log := rfl

theorem callDestroy_fail (svc : Svc) (st : St) (name : String) (h : svc.fail st.idx = true) :
    callDestroy svc st name = (st.push (.destroy name) false, false) := by
  unfold callDestroy; rw [if_pos h]

theorem callDestroy_live (svc : Svc) (st : St) (name : String) (h : ¬ svc.fail st.idx = true)
    (hs : st.state name = stEnabled ∨ st.state name = stDisabled) :
    callDestroy svc st name =
      (⟨fun x => if x = name then stDestroyScheduled else st.state x, ⟨.destroy name, true⟩ :: st.log⟩, true) := by
  unfold callDestroy; rw [if_neg h, if_pos hs]

theorem callDestroy_dead (svc : Svc) (st : St) (name : String) (h : ¬ svc.fail st.idx = true)
    (hs : ¬ (st.state name = stEnabled ∨ st.state name = stDisabled)) :
    callDestroy svc st name = (st.push (.destroy name) false, false) := by
  unfold callDestroy; rw [if_neg h, if_neg hs]

theorem scheduled_gone : stDestroyScheduled ≠ stEnabled ∧ stDestroyScheduled ≠ stDisabled := by decide

theorem callDestroy_stable (svc : Svc) (st : St) (name x : String) (h : Gone st.state x) :
    Gone (callDestroy svc st name).1.state x := by
  by_cases hf : svc.fail st.idx = true
  · rw [callDestroy_fail svc st name hf]; exact h
  · by_cases hs : st.state name = stEnabled ∨ st.state name = stDisabled
    · rw [callDestroy_live svc st name hf hs]
      show Gone (fun y => if y = name then stDestroyScheduled else st.state y) x
      by_cases hx : x = name
      · unfold Gone; dsimp only; rw [if_pos hx]; exact scheduled_gone
      · unfold Gone; dsimp only; rw [if_neg hx]; exact h
    · rw [callDestroy_dead svc st name hf hs]; exact h

theorem callDestroy_ok (svc : Svc) (st : St) (name : String) (h : (callDestroy svc st name).2 = true) :
    Gone (callDestroy svc st name).1.state name := by
  by_cases hf : svc.fail st.idx = true
  · rw [callDestroy_fail svc st name hf] at h; cases h
  · by_cases hs : st.state name = stEnabled ∨ st.state name = stDisabled
    · rw [callDestroy_live svc st name hf hs]
      show Gone (fun y => if y = name then stDestroyScheduled else st.state y) name
      unfold Gone; dsimp only; rw [if_pos rfl]; exact scheduled_gone
    · rw [callDestroy_dead svc st name hf hs] at h; cases h

theorem callDestroy_nList (svc : Svc) (st : St) (name : String) :
    nList (callDestroy svc st name).1.log = nList st.log := by
  by_cases hf : svc.fail st.idx = true
  · rw [callDestroy_fail svc st name hf]; exact nList_cons_other _ _ _ rfl
  · by_cases hs : st.state name = stEnabled ∨ st.state name = stDisabled
    · rw [callDestroy_live svc st name hf hs]; exact nList_cons_other _ _ _ rfl
    · rw [callDestroy_dead svc st name hf hs]; exact nList_cons_other _ _ _ rfl

theorem destroyVersions_nil (svc : Svc) (a : Acc) : destroyVersions svc [] a = a := rfl

theorem destroyVersions_cons (svc : Svc) (v : Ver) (vs : List Ver) (a : Acc) :
    destroyVersions svc (v :: vs) a =
      match destroyableState v.state with
      | none => destroyVersions svc vs ⟨a.st, true⟩
      | some false => destroyVersions svc vs a
      | some true =>
        destroyVersions svc vs ⟨(callDestroy svc a.st v.name).1, a.failed || !(callDestroy svc a.st v.name).2⟩ := rfl

theorem destroyVersions_failed_mono (svc : Svc) (vs : List Ver) (a : Acc) (h : a.failed = true) :
    (destroyVersions svc vs a).failed = true := by
  induction vs generalizing a with
  | nil => exact h
  | cons v vs ih =>
    rw [destroyVersions_cons]
    split
    · exact ih _ rfl
    · exact ih _ h
    · exact ih _ (by simp [h])

theorem destroyVersions_stable (svc : Svc) (vs : List Ver) (a : Acc) (x : String) (h : Gone a.st.state x) :
    Gone (destroyVersions svc vs a).st.state x := by
  induction vs generalizing a with
  | nil => exact h
  | cons v vs ih =>
    rw [destroyVersions_cons]
    split
    · exact ih _ h
    · exact ih _ h
    · exact ih _ (callDestroy_stable svc a.st v.name x h)

theorem destroyVersions_nList (svc : Svc) (vs : List Ver) (a : Acc) :
    nList (destroyVersions svc vs a).st.log = nList a.st.log := by
  induction vs generalizing a with
  | nil => rfl
  | cons v vs ih =>
    rw [destroyVersions_cons]
    split
    · exact ih _
    · exact ih _
    · rw [ih]; exact callDestroy_nList svc a.st v.name

theorem destroyVersions_cons_none (svc : Svc) (v : Ver) (vs : List Ver) (a : Acc)
    (h : destroyableState v.state = none) :
    destroyVersions svc (v :: vs) a = destroyVersions svc vs ⟨a.st, true⟩ := by
  rw [destroyVersions_cons, h]

theorem destroyVersions_cons_false (svc : Svc) (v : Ver) (vs : List Ver) (a : Acc)
    (h : destroyableState v.state = some false) :
    destroyVersions svc (v :: vs) a = destroyVersions svc vs a := by
  rw [destroyVersions_cons, h]

theorem destroyVersions_cons_true (svc : Svc) (v : Ver) (vs : List Ver) (a : Acc)
    (h : destroyableState v.state = some true) :
    destroyVersions svc (v :: vs) a =
      destroyVersions svc vs ⟨(callDestroy svc a.st v.name).1, a.failed || !(callDestroy svc a.st v.name).2⟩ := by
  rw [destroyVersions_cons, h]

/-- If the page was processed without error, every listed version is gone afterwards — provided the
    versions whose listed state is not ENABLED/DISABLED were already gone when the page was read. -/
theorem destroyVersions_gone (svc : Svc) (vs : List Ver) (a : Acc)
    (hsnap : ∀ v ∈ vs, (v.state ≠ stEnabled ∧ v.state ≠ stDisabled) → Gone a.st.state v.name)
    (hok : (destroyVersions svc vs a).failed = false) :
    ∀ v ∈ vs, Gone (destroyVersions svc vs a).st.state v.name := by
  induction vs generalizing a with
  | nil => intro v hv; cases hv
  | cons w ws ih =>
    intro v hv
    cases hd : destroyableState w.state with
    | none =>
      rw [destroyVersions_cons_none svc w ws a hd] at hok
      have := destroyVersions_failed_mono svc ws ⟨a.st, true⟩ rfl
      rw [this] at hok; cases hok
    | some b =>
      cases b with
      | false =>
        rw [destroyVersions_cons_false svc w ws a hd] at hok ⊢
        have hw : w.state ≠ stEnabled ∧ w.state ≠ stDisabled := by
          constructor
          · intro he; rw [he, destroyable_enabled] at hd; cases hd
          · intro he; rw [he, destroyable_disabled] at hd; cases hd
        rcases List.mem_cons.mp hv with rfl | hv'
        · exact destroyVersions_stable svc ws a _ (hsnap _ (List.mem_cons_self ..) hw)
        · exact ih a (fun u hu => hsnap u (List.mem_cons_of_mem _ hu)) hok v hv'
      | true =>
        rw [destroyVersions_cons_true svc w ws a hd] at hok ⊢
        have hfa : (a.failed || !(callDestroy svc a.st w.name).2) = false := by
          cases hff : (a.failed || !(callDestroy svc a.st w.name).2) with
          | false => rfl
          | true =>
            have := destroyVersions_failed_mono svc ws
              ⟨(callDestroy svc a.st w.name).1, a.failed || !(callDestroy svc a.st w.name).2⟩ hff
            rw [this] at hok; cases hok
        have hcd : (callDestroy svc a.st w.name).2 = true := by
          cases hc : (callDestroy svc a.st w.name).2 with
          | true => rfl
          | false => rw [hc] at hfa; simp at hfa
        rcases List.mem_cons.mp hv with rfl | hv'
        · exact destroyVersions_stable svc ws _ _ (callDestroy_ok svc a.st _ hcd)
        · exact ih _ (fun u hu hs => callDestroy_stable svc a.st w.name u.name
            (hsnap u (List.mem_cons_of_mem _ hu) hs)) hok v hv'

/-! ### wipeoutKey -/

theorem wipeoutKeyPage_failed_mono (svc : Svc) (key tok : String) (a : Acc) (h : a.failed = true) :
    (wipeoutKeyPage svc key tok a).failed = true :=
  destroyVersions_failed_mono svc _ _ h

theorem wipeoutKeyPage_stable (svc : Svc) (key tok : String) (a : Acc) (x : String) (h : Gone a.st.state x) :
    Gone (wipeoutKeyPage svc key tok a).st.state x :=
  destroyVersions_stable svc _ _ x h

theorem wipeoutKeyPage_nList (svc : Svc) (key tok : String) (a : Acc) :
    nList (wipeoutKeyPage svc key tok a).st.log = nList a.st.log + 1 := by
  unfold wipeoutKeyPage
  rw [destroyVersions_nList]
  exact nList_cons_list _ _ _ rfl

theorem wipeoutKeyPage_gone (svc : Svc) (key tok : String) (a : Acc)
    (hok : (wipeoutKeyPage svc key tok a).failed = false) :
    ∀ n ∈ (svc.vers key tok).items, Gone (wipeoutKeyPage svc key tok a).st.state n := by
  intro n hn
  have := destroyVersions_gone svc (snapshot a.st (svc.vers key tok).items)
    ⟨a.st.push (.listVers key tok) true, a.failed⟩
    (by
      intro v hv hs
      simp only [snapshot, List.mem_map] at hv
      obtain ⟨m, _, rfl⟩ := hv
      exact hs)
    hok ⟨n, a.st.state n⟩ (by simp only [snapshot, List.mem_map]; exact ⟨n, hn, rfl⟩)
  exact this

theorem wipeoutKeyLoop_zero (sty : Style) (svc : Svc) (key tok : String) (a : Acc) :
    wipeoutKeyLoop sty svc key 0 tok a = none := rfl

theorem wipeoutKeyLoop_succ (sty : Style) (svc : Svc) (key : String) (fuel : Nat) (tok : String) (a : Acc) :
    wipeoutKeyLoop sty svc key (fuel + 1) tok a =
      if svc.fail a.st.idx = true then some ⟨a.st.push (.listVers key tok) false, true⟩
      else if sty.stop (svc.vers key tok).items.length (svc.vers key tok).next = true then
        some (wipeoutKeyPage svc key tok a)
      else wipeoutKeyLoop sty svc key fuel (svc.vers key tok).next (wipeoutKeyPage svc key tok a) := rfl

/-- failed is monotone and gone is stable through the whole per-key loop (any style, any pager). -/
theorem wipeoutKeyLoop_mono (sty : Style) (svc : Svc) (key : String) (fuel : Nat) (tok : String) (a r : Acc)
    (h : wipeoutKeyLoop sty svc key fuel tok a = some r) :
    (a.failed = true → r.failed = true) ∧ (∀ x, Gone a.st.state x → Gone r.st.state x) := by
  induction fuel generalizing tok a with
  | zero => rw [wipeoutKeyLoop_zero] at h; cases h
  | succ f ih =>
    rw [wipeoutKeyLoop_succ] at h
    by_cases hf : svc.fail a.st.idx = true
    · rw [if_pos hf] at h
      simp only [Option.some.injEq] at h
      subst h
      exact ⟨fun _ => rfl, fun x hx => hx⟩
    · rw [if_neg hf] at h
      by_cases hs : sty.stop (svc.vers key tok).items.length (svc.vers key tok).next = true
      · rw [if_pos hs] at h
        simp only [Option.some.injEq] at h
        subst h
        exact ⟨wipeoutKeyPage_failed_mono svc key tok a, fun x hx => wipeoutKeyPage_stable svc key tok a x hx⟩
      · rw [if_neg hs] at h
        have := ih _ _ h
        exact ⟨fun ha => this.1 (wipeoutKeyPage_failed_mono svc key tok a ha),
               fun x hx => this.2 x (wipeoutKeyPage_stable svc key tok a x hx)⟩

/-- The fixed per-key loop over a legal pager: if it reports no error, every listed version is gone. -/
theorem wipeoutKeyLoop_gone (svc : Svc) (key : String) (pages : List (Page String)) :
    ∀ (fuel : Nat) (tok : String) (a r : Acc), Walk (svc.vers key) tok pages →
      wipeoutKeyLoop .fixed svc key fuel tok a = some r → r.failed = false →
      ∀ n ∈ flatItems pages, Gone r.st.state n := by
  induction pages with
  | nil => intro fuel tok a r hw; simp [Walk] at hw
  | cons pg rest ih =>
    intro fuel tok a r hw h hok
    cases fuel with
    | zero => rw [wipeoutKeyLoop_zero] at h; cases h
    | succ f =>
      rw [wipeoutKeyLoop_succ] at h
      have hpg := walk_head hw
      by_cases hf : svc.fail a.st.idx = true
      · rw [if_pos hf] at h
        simp only [Option.some.injEq] at h
        subst h; cases hok
      · rw [if_neg hf] at h
        rcases walk_cases hw with ⟨hnext, hrest⟩ | ⟨hnext, _, hwr⟩
        · have hs : Style.stop .fixed (svc.vers key tok).items.length (svc.vers key tok).next = true := by
            rw [stop_fixed, hpg]; exact hnext
          rw [if_pos hs] at h
          simp only [Option.some.injEq] at h
          subst h; subst hrest
          intro n hn
          rw [flatItems_cons, flatItems_nil, List.append_nil, ← hpg] at hn
          exact wipeoutKeyPage_gone svc key tok a hok n hn
        · have hs : ¬ (Style.stop .fixed (svc.vers key tok).items.length (svc.vers key tok).next = true) := by
            rw [stop_fixed, hpg]; exact hnext
          rw [if_neg hs, hpg] at h
          have hmono := wipeoutKeyLoop_mono .fixed svc key f pg.next (wipeoutKeyPage svc key tok a) r h
          intro n hn
          rw [flatItems_cons] at hn
          rcases List.mem_append.mp hn with hn | hn
          · have hok1 : (wipeoutKeyPage svc key tok a).failed = false := by
              cases hff : (wipeoutKeyPage svc key tok a).failed with
              | false => rfl
              | true => rw [hmono.1 hff] at hok; cases hok
            rw [← hpg] at hn
            exact hmono.2 n (wipeoutKeyPage_gone svc key tok a hok1 n hn)
          · exact ih f pg.next _ r hwr h hok n hn

/-- The fixed per-key loop terminates on every legal pager with at most one list call per page. -/
theorem wipeoutKeyLoop_terminates (svc : Svc) (key : String) (pages : List (Page String)) :
    ∀ (fuel : Nat) (tok : String) (a : Acc), Walk (svc.vers key) tok pages → pages.length ≤ fuel →
      ∃ r, wipeoutKeyLoop .fixed svc key fuel tok a = some r ∧
        nList r.st.log ≤ nList a.st.log + pages.length := by
  induction pages with
  | nil => intro fuel tok a hw; simp [Walk] at hw
  | cons pg rest ih =>
    intro fuel tok a hw hlen
    cases fuel with
    | zero => simp at hlen
    | succ f =>
      rw [wipeoutKeyLoop_succ]
      have hpg := walk_head hw
      by_cases hf : svc.fail a.st.idx = true
      · rw [if_pos hf]
        refine ⟨_, rfl, ?_⟩
        simp only [push_log]
        rw [nList_cons_list _ _ _ rfl]
        simp only [List.length_cons]; omega
      · rw [if_neg hf]
        rcases walk_cases hw with ⟨hnext, _⟩ | ⟨hnext, _, hwr⟩
        · have hs : Style.stop .fixed (svc.vers key tok).items.length (svc.vers key tok).next = true := by
            rw [stop_fixed, hpg]; exact hnext
          rw [if_pos hs]
          refine ⟨_, rfl, ?_⟩
          rw [wipeoutKeyPage_nList]; simp only [List.length_cons]; omega
        · have hs : ¬ (Style.stop .fixed (svc.vers key tok).items.length (svc.vers key tok).next = true) := by
            rw [stop_fixed, hpg]; exact hnext
          rw [if_neg hs, hpg]
          obtain ⟨r, hr, hn⟩ := ih f pg.next (wipeoutKeyPage svc key tok a) hwr (by simp only [List.length_cons] at hlen; omega)
          refine ⟨r, hr, ?_⟩
          rw [wipeoutKeyPage_nList] at hn
          simp only [List.length_cons]; omega

/-- More fuel never changes a result. -/
theorem wipeoutKeyLoop_fuel_mono (sty : Style) (svc : Svc) (key : String) (fuel : Nat) (tok : String) (a r : Acc)
    (h : wipeoutKeyLoop sty svc key fuel tok a = some r) (k : Nat) :
    wipeoutKeyLoop sty svc key (fuel + k) tok a = some r := by
  induction fuel generalizing tok a with
  | zero => rw [wipeoutKeyLoop_zero] at h; cases h
  | succ f ih =>
    have e : f + 1 + k = (f + k) + 1 := by omega
    rw [e, wipeoutKeyLoop_succ]
    rw [wipeoutKeyLoop_succ] at h
    by_cases hf : svc.fail a.st.idx = true
    · rw [if_pos hf] at h ⊢; exact h
    · rw [if_neg hf] at h ⊢
      by_cases hs : sty.stop (svc.vers key tok).items.length (svc.vers key tok).next = true
      · rw [if_pos hs] at h ⊢; exact h
      · rw [if_neg hs] at h ⊢
        exact ih _ _ h

/-! ### Wipeout: the loop over the keys of a page, and the loop over key pages -/

theorem wipeoutKeys_nil (sty : Style) (svc : Svc) (fuel : Nat) (a : Acc) :
    wipeoutKeys sty svc fuel [] a = some a := rfl

theorem wipeoutKeys_cons (sty : Style) (svc : Svc) (fuel : Nat) (k : String) (ks : List String) (a : Acc) :
    wipeoutKeys sty svc fuel (k :: ks) a =
      match wipeoutKeyLoop sty svc k fuel "" ⟨a.st, false⟩ with
      | none => none
      | some r => wipeoutKeys sty svc fuel ks ⟨r.st, a.failed || r.failed⟩ := rfl

theorem wipeoutKeys_cons_some (sty : Style) (svc : Svc) (fuel : Nat) (k : String) (ks : List String) (a r1 : Acc)
    (h : wipeoutKeyLoop sty svc k fuel "" ⟨a.st, false⟩ = some r1) :
    wipeoutKeys sty svc fuel (k :: ks) a = wipeoutKeys sty svc fuel ks ⟨r1.st, a.failed || r1.failed⟩ := by
  rw [wipeoutKeys_cons, h]

theorem wipeoutKeys_cons_none (sty : Style) (svc : Svc) (fuel : Nat) (k : String) (ks : List String) (a : Acc)
    (h : wipeoutKeyLoop sty svc k fuel "" ⟨a.st, false⟩ = none) :
    wipeoutKeys sty svc fuel (k :: ks) a = none := by
  rw [wipeoutKeys_cons, h]

theorem wipeoutKeys_mono (sty : Style) (svc : Svc) (fuel : Nat) (ks : List String) (a r : Acc)
    (h : wipeoutKeys sty svc fuel ks a = some r) :
    (a.failed = true → r.failed = true) ∧ (∀ x, Gone a.st.state x → Gone r.st.state x) := by
  induction ks generalizing a with
  | nil =>
    rw [wipeoutKeys_nil] at h; simp only [Option.some.injEq] at h; subst h
    exact ⟨fun h => h, fun _ h => h⟩
  | cons k ks ih =>
    cases hk : wipeoutKeyLoop sty svc k fuel "" ⟨a.st, false⟩ with
    | none => rw [wipeoutKeys_cons_none sty svc fuel k ks a hk] at h; cases h
    | some r1 =>
      rw [wipeoutKeys_cons_some sty svc fuel k ks a r1 hk] at h
      have h1 := wipeoutKeyLoop_mono sty svc k fuel "" ⟨a.st, false⟩ r1 hk
      have h2 := ih _ h
      exact ⟨fun ha => h2.1 (by simp [ha]), fun x hx => h2.2 x (h1.2 x hx)⟩

theorem wipeoutKeys_gone (svc : Svc) (fuel : Nat) (vp : String → List (Page String)) (ks : List String) (a r : Acc)
    (hv : ∀ k ∈ ks, Walk (svc.vers k) "" (vp k))
    (h : wipeoutKeys .fixed svc fuel ks a = some r) (hok : r.failed = false) :
    ∀ k ∈ ks, ∀ n ∈ flatItems (vp k), Gone r.st.state n := by
  induction ks generalizing a with
  | nil => intro k hk; cases hk
  | cons k ks ih =>
    cases hk : wipeoutKeyLoop .fixed svc k fuel "" ⟨a.st, false⟩ with
    | none => rw [wipeoutKeys_cons_none .fixed svc fuel k ks a hk] at h; cases h
    | some r1 =>
      rw [wipeoutKeys_cons_some .fixed svc fuel k ks a r1 hk] at h
      have h2 := wipeoutKeys_mono .fixed svc fuel ks _ r h
      have hr1 : r1.failed = false := by
        cases hff : r1.failed with
        | false => rfl
        | true =>
          have : r.failed = true := h2.1 (by simp [hff])
          rw [this] at hok; cases hok
      intro k' hk' n hn
      rcases List.mem_cons.mp hk' with rfl | hk''
      · exact h2.2 n (wipeoutKeyLoop_gone svc k' (vp k') fuel "" ⟨a.st, false⟩ r1
          (hv k' (List.mem_cons_self ..)) hk hr1 n hn)
      · exact ih _ (fun u hu => hv u (List.mem_cons_of_mem _ hu)) h k' hk'' n hn

/-- total number of version pages of a list of keys -/
def pagesOf (vp : String → List (Page String)) : List String → Nat
  | [] => 0
  | k :: ks => (vp k).length + pagesOf vp ks

theorem pagesOf_append (vp : String → List (Page String)) (xs ys : List String) :
    pagesOf vp (xs ++ ys) = pagesOf vp xs + pagesOf vp ys := by
  induction xs with
  | nil => simp [pagesOf]
  | cons x xs ih => simp only [List.cons_append, pagesOf, ih]; omega

theorem wipeoutKeys_terminates (svc : Svc) (fuel : Nat) (vp : String → List (Page String)) (ks : List String)
    (a : Acc) (hv : ∀ k ∈ ks, Walk (svc.vers k) "" (vp k) ∧ (vp k).length ≤ fuel) :
    ∃ r, wipeoutKeys .fixed svc fuel ks a = some r ∧ nList r.st.log ≤ nList a.st.log + pagesOf vp ks := by
  induction ks generalizing a with
  | nil => exact ⟨a, rfl, by simp [pagesOf]⟩
  | cons k ks ih =>
    obtain ⟨r1, hr1, hn1⟩ := wipeoutKeyLoop_terminates svc k (vp k) fuel "" ⟨a.st, false⟩
      (hv k (List.mem_cons_self ..)).1 (hv k (List.mem_cons_self ..)).2
    rw [wipeoutKeys_cons_some .fixed svc fuel k ks a r1 hr1]
    obtain ⟨r, hr, hn⟩ := ih ⟨r1.st, a.failed || r1.failed⟩ (fun u hu => hv u (List.mem_cons_of_mem _ hu))
    refine ⟨r, hr, ?_⟩
    simp only [pagesOf] at hn hn1 ⊢
    omega

theorem wipeoutLoop_zero (sty : Style) (svc : Svc) (fuelK : Nat) (tok : String) (a : Acc) :
    wipeoutLoop sty svc fuelK 0 tok a = none := rfl

theorem wipeoutLoop_succ (sty : Style) (svc : Svc) (fuelK fuel : Nat) (tok : String) (a : Acc) :
    wipeoutLoop sty svc fuelK (fuel + 1) tok a =
      if svc.fail a.st.idx = true then some ⟨a.st.push (.listKeys tok) false, true⟩
      else
        match wipeoutKeys sty svc fuelK (svc.keys tok).items ⟨a.st.push (.listKeys tok) true, a.failed⟩ with
        | none => none
        | some a' =>
          if sty.stop (svc.keys tok).items.length (svc.keys tok).next = true then some a'
          else wipeoutLoop sty svc fuelK fuel (svc.keys tok).next a' := rfl

theorem wipeoutLoop_mono (sty : Style) (svc : Svc) (fuelK fuel : Nat) (tok : String) (a r : Acc)
    (h : wipeoutLoop sty svc fuelK fuel tok a = some r) :
    (a.failed = true → r.failed = true) ∧ (∀ x, Gone a.st.state x → Gone r.st.state x) := by
  induction fuel generalizing tok a with
  | zero => rw [wipeoutLoop_zero] at h; cases h
  | succ f ih =>
    rw [wipeoutLoop_succ] at h
    by_cases hf : svc.fail a.st.idx = true
    · rw [if_pos hf] at h; simp only [Option.some.injEq] at h; subst h
      exact ⟨fun _ => rfl, fun x hx => hx⟩
    · rw [if_neg hf] at h
      cases hk : wipeoutKeys sty svc fuelK (svc.keys tok).items ⟨a.st.push (.listKeys tok) true, a.failed⟩ with
      | none => rw [hk] at h; cases h
      | some a' =>
        rw [hk] at h
        have h1 := wipeoutKeys_mono sty svc fuelK _ _ a' hk
        by_cases hs : sty.stop (svc.keys tok).items.length (svc.keys tok).next = true
        · simp only [hs, if_true, Option.some.injEq] at h; subst h
          exact ⟨fun ha => h1.1 ha, fun x hx => h1.2 x hx⟩
        · simp only [hs] at h
          have h2 := ih _ _ h
          exact ⟨fun ha => h2.1 (h1.1 ha), fun x hx => h2.2 x (h1.2 x hx)⟩

theorem wipeoutLoop_gone (svc : Svc) (fuelK : Nat) (vp : String → List (Page String))
    (kpages : List (Page String)) :
    ∀ (fuel : Nat) (tok : String) (a r : Acc), Walk svc.keys tok kpages →
      (∀ k ∈ flatItems kpages, Walk (svc.vers k) "" (vp k)) →
      wipeoutLoop .fixed svc fuelK fuel tok a = some r → r.failed = false →
      ∀ k ∈ flatItems kpages, ∀ n ∈ flatItems (vp k), Gone r.st.state n := by
  induction kpages with
  | nil => intro fuel tok a r hw; simp [Walk] at hw
  | cons pg rest ih =>
    intro fuel tok a r hw hv h hok
    cases fuel with
    | zero => rw [wipeoutLoop_zero] at h; cases h
    | succ f =>
      rw [wipeoutLoop_succ] at h
      have hpg := walk_head hw
      by_cases hf : svc.fail a.st.idx = true
      · rw [if_pos hf] at h; simp only [Option.some.injEq] at h; subst h; cases hok
      · rw [if_neg hf] at h
        cases hk : wipeoutKeys .fixed svc fuelK (svc.keys tok).items ⟨a.st.push (.listKeys tok) true, a.failed⟩ with
        | none => rw [hk] at h; cases h
        | some a' =>
          rw [hk] at h
          have hv1 : ∀ k ∈ (svc.keys tok).items, Walk (svc.vers k) "" (vp k) := by
            intro k hk'
            apply hv
            rw [flatItems_cons, ← hpg]
            exact List.mem_append_left _ hk'
          rcases walk_cases hw with ⟨hnext, hrest⟩ | ⟨hnext, _, hwr⟩
          · have hs : Style.stop .fixed (svc.keys tok).items.length (svc.keys tok).next = true := by
              rw [stop_fixed, hpg]; exact hnext
            simp only [hs, if_true, Option.some.injEq] at h
            subst h; subst hrest
            intro k hk' n hn
            rw [flatItems_cons, flatItems_nil, List.append_nil, ← hpg] at hk'
            exact wipeoutKeys_gone svc fuelK vp _ _ a' hv1 hk hok k hk' n hn
          · have hs : ¬ (Style.stop .fixed (svc.keys tok).items.length (svc.keys tok).next = true) := by
              rw [stop_fixed, hpg]; exact hnext
            simp only [hs] at h
            rw [hpg] at h
            have hmono := wipeoutLoop_mono .fixed svc fuelK f pg.next a' r h
            intro k hk' n hn
            rw [flatItems_cons] at hk'
            rcases List.mem_append.mp hk' with hk' | hk'
            · have hok1 : a'.failed = false := by
                cases hff : a'.failed with
                | false => rfl
                | true => rw [hmono.1 hff] at hok; cases hok
              rw [← hpg] at hk'
              exact hmono.2 n (wipeoutKeys_gone svc fuelK vp _ _ a' hv1 hk hok1 k hk' n hn)
            · exact ih f pg.next a' r hwr
                (fun u hu => hv u (by rw [flatItems_cons]; exact List.mem_append_right _ hu)) h hok k hk' n hn

theorem wipeoutLoop_terminates (svc : Svc) (fuelK : Nat) (vp : String → List (Page String))
    (kpages : List (Page String)) :
    ∀ (fuel : Nat) (tok : String) (a : Acc), Walk svc.keys tok kpages → kpages.length ≤ fuel →
      (∀ k ∈ flatItems kpages, Walk (svc.vers k) "" (vp k) ∧ (vp k).length ≤ fuelK) →
      ∃ r, wipeoutLoop .fixed svc fuelK fuel tok a = some r ∧
        nList r.st.log ≤ nList a.st.log + kpages.length + pagesOf vp (flatItems kpages) := by
  induction kpages with
  | nil => intro fuel tok a hw; simp [Walk] at hw
  | cons pg rest ih =>
    intro fuel tok a hw hlen hv
    cases fuel with
    | zero => simp at hlen
    | succ f =>
      rw [wipeoutLoop_succ]
      have hpg := walk_head hw
      by_cases hf : svc.fail a.st.idx = true
      · rw [if_pos hf]
        refine ⟨_, rfl, ?_⟩
        simp only [push_log]
        rw [nList_cons_list _ _ _ rfl]
        simp only [List.length_cons]; omega
      · rw [if_neg hf]
        have hv1 : ∀ k ∈ (svc.keys tok).items, Walk (svc.vers k) "" (vp k) ∧ (vp k).length ≤ fuelK := by
          intro k hk'
          apply hv
          rw [flatItems_cons, ← hpg]
          exact List.mem_append_left _ hk'
        obtain ⟨a', ha', hn'⟩ := wipeoutKeys_terminates svc fuelK vp (svc.keys tok).items
          ⟨a.st.push (.listKeys tok) true, a.failed⟩ hv1
        rw [ha']
        have hn'' : nList a'.st.log ≤ nList a.st.log + 1 + pagesOf vp pg.items := by
          simp only [push_log] at hn'
          rw [nList_cons_list _ _ _ rfl, hpg] at hn'
          exact hn'
        rcases walk_cases hw with ⟨hnext, hrest⟩ | ⟨hnext, _, hwr⟩
        · have hs : Style.stop .fixed (svc.keys tok).items.length (svc.keys tok).next = true := by
            rw [stop_fixed, hpg]; exact hnext
          simp only [hs, if_true]
          refine ⟨a', rfl, ?_⟩
          rw [flatItems_cons, pagesOf_append]
          simp only [List.length_cons]; omega
        · have hs : ¬ (Style.stop .fixed (svc.keys tok).items.length (svc.keys tok).next = true) := by
            rw [stop_fixed, hpg]; exact hnext
          simp only [hs]
          rw [hpg]
          obtain ⟨r, hr, hn⟩ := ih f pg.next a' hwr (by simp only [List.length_cons] at hlen; omega)
            (fun u hu => hv u (by rw [flatItems_cons]; exact List.mem_append_right _ hu))
          refine ⟨r, hr, ?_⟩
          rw [flatItems_cons, pagesOf_append]
          simp only [List.length_cons]; omega

/-! ### bootstrap: scanning pages for an ENABLED / PENDING_GENERATION version -/

def isEn (v : Ver) : Bool := decide (v.state = stEnabled)

/-- the PENDING_GENERATION version the scan remembers: the last one of the list, else the incoming one -/
def lastPending : List Ver → Option Ver → Option Ver
  | [], pend => pend
  | v :: vs, pend => if v.state = stPending then lastPending vs (some v) else lastPending vs pend

theorem scanPage_nil (pend : Option Ver) : scanPage [] pend = .cont pend := rfl

theorem scanPage_cons (v : Ver) (vs : List Ver) (pend : Option Ver) :
    scanPage (v :: vs) pend =
      if v.state = stEnabled then .ret v
      else if v.state = stPending then scanPage vs (some v)
      else scanPage vs pend := rfl

/-- One scan over a list = first ENABLED version if there is one, else the last PENDING one. -/
theorem scanPage_eq (vs : List Ver) (pend : Option Ver) :
    scanPage vs pend =
      match vs.find? isEn with
      | some v => .ret v
      | none => .cont (lastPending vs pend) := by
  induction vs generalizing pend with
  | nil => rfl
  | cons v vs ih =>
    rw [scanPage_cons]
    by_cases he : v.state = stEnabled
    · rw [if_pos he]
      have : isEn v = true := by simp [isEn, he]
      simp [this]
    · rw [if_neg he]
      have hen : isEn v = false := by simp [isEn, he]
      by_cases hp : v.state = stPending
      · rw [if_pos hp, ih]
        simp only [List.find?_cons, hen, lastPending, if_pos hp]
      · rw [if_neg hp, ih]
        simp only [List.find?_cons, hen, lastPending, if_neg hp]

theorem scanPage_append (xs ys : List Ver) (pend : Option Ver) :
    scanPage (xs ++ ys) pend =
      match scanPage xs pend with
      | .ret v => .ret v
      | .cont p => scanPage ys p := by
  induction xs generalizing pend with
  | nil => rfl
  | cons v vs ih =>
    rw [List.cons_append, scanPage_cons, scanPage_cons]
    by_cases he : v.state = stEnabled
    · rw [if_pos he, if_pos he]
    · rw [if_neg he, if_neg he]
      by_cases hp : v.state = stPending
      · rw [if_pos hp, if_pos hp]; exact ih _
      · rw [if_neg hp, if_neg hp]; exact ih _

theorem scanPage_ret (vs : List Ver) (pend : Option Ver) (v : Ver) (h : scanPage vs pend = .ret v) :
    v ∈ vs ∧ v.state = stEnabled := by
  induction vs generalizing pend with
  | nil => rw [scanPage_nil] at h; cases h
  | cons w ws ih =>
    rw [scanPage_cons] at h
    by_cases he : w.state = stEnabled
    · rw [if_pos he] at h; injection h with h; subst h
      exact ⟨List.mem_cons_self .., he⟩
    · rw [if_neg he] at h
      by_cases hp : w.state = stPending
      · rw [if_pos hp] at h
        exact ⟨List.mem_cons_of_mem _ (ih _ h).1, (ih _ h).2⟩
      · rw [if_neg hp] at h
        exact ⟨List.mem_cons_of_mem _ (ih _ h).1, (ih _ h).2⟩

theorem scanPage_cont_pending (vs : List Ver) (pend p : Option Ver) (h : scanPage vs pend = .cont p)
    (hp : ∀ q, pend = some q → q.state = stPending) : ∀ q, p = some q → q.state = stPending := by
  induction vs generalizing pend with
  | nil => rw [scanPage_nil] at h; injection h with h; subst h; exact hp
  | cons w ws ih =>
    rw [scanPage_cons] at h
    by_cases he : w.state = stEnabled
    · rw [if_pos he] at h; cases h
    · rw [if_neg he] at h
      by_cases hw : w.state = stPending
      · rw [if_pos hw] at h
        exact ih _ h (fun q hq => by injection hq with hq; subst hq; exact hw)
      · rw [if_neg hw] at h
        exact ih _ h hp

theorem lastPending_some (vs : List Ver) (pend : Option Ver) (q : Ver) (h : lastPending vs pend = some q) :
    (q ∈ vs ∧ q.state = stPending) ∨ pend = some q := by
  induction vs generalizing pend with
  | nil => exact Or.inr h
  | cons w ws ih =>
    simp only [lastPending] at h
    by_cases hw : w.state = stPending
    · rw [if_pos hw] at h
      rcases ih _ h with ⟨hm, hs⟩ | hq
      · exact Or.inl ⟨List.mem_cons_of_mem _ hm, hs⟩
      · injection hq with hq; subst hq; exact Or.inl ⟨List.mem_cons_self .., hw⟩
    · rw [if_neg hw] at h
      rcases ih _ h with ⟨hm, hs⟩ | hq
      · exact Or.inl ⟨List.mem_cons_of_mem _ hm, hs⟩
      · exact Or.inr hq

theorem lastPending_none (vs : List Ver) (h : lastPending vs none = none) : ∀ v ∈ vs, v.state ≠ stPending := by
  have gen : ∀ (vs : List Ver) (pend : Option Ver), lastPending vs pend = none →
      pend = none ∧ ∀ v ∈ vs, v.state ≠ stPending := by
    intro vs
    induction vs with
    | nil => intro pend h; exact ⟨h, fun v hv => by cases hv⟩
    | cons w ws ih =>
      intro pend h
      simp only [lastPending] at h
      by_cases hw : w.state = stPending
      · rw [if_pos hw] at h
        have := (ih _ h).1; cases this
      · rw [if_neg hw] at h
        refine ⟨(ih _ h).1, ?_⟩
        intro v hv
        rcases List.mem_cons.mp hv with rfl | hv'
        · exact hw
        · exact (ih _ h).2 v hv'
  exact (gen vs none h).2

theorem snapshot_push (st : St) (c : Call) (ok : Bool) (names : List String) :
    snapshot (st.push c ok) names = snapshot st names := rfl

theorem snapshot_append (st : St) (xs ys : List String) :
    snapshot st (xs ++ ys) = snapshot st xs ++ snapshot st ys := by
  simp [snapshot]

theorem gepLoop_zero (sty : Style) (svc : Svc) (key tok : String) (pend : Option Ver) (st : St) :
    gepLoop sty svc key 0 tok pend st = (st, .diverged) := rfl

theorem gepLoop_succ (sty : Style) (svc : Svc) (key : String) (fuel : Nat) (tok : String) (pend : Option Ver)
    (st : St) :
    gepLoop sty svc key (fuel + 1) tok pend st =
      if svc.fail st.idx = true then (st.push (.listVers key tok) false, .errList)
      else if (svc.vers key tok).total = 0 then (st.push (.listVers key tok) true, .errMissing)
      else
        match scanPage (snapshot st (svc.vers key tok).items) pend with
        | .ret v => (st.push (.listVers key tok) true, .found v)
        | .cont pend' =>
          if sty.stop (svc.vers key tok).items.length (svc.vers key tok).next = true then
            (st.push (.listVers key tok) true, gepEnd pend')
          else gepLoop sty svc key fuel (svc.vers key tok).next pend' (st.push (.listVers key tok) true) := rfl

/-- The listing loop of bootstrap never changes the service state and makes one call per iteration. -/
theorem gepLoop_state (sty : Style) (svc : Svc) (key : String) (fuel : Nat) (tok : String) (pend : Option Ver)
    (st : St) : (gepLoop sty svc key fuel tok pend st).1.state = st.state := by
  induction fuel generalizing tok pend st with
  | zero => rfl
  | succ f ih =>
    rw [gepLoop_succ]
    by_cases hf : svc.fail st.idx = true
    · rw [if_pos hf]; rfl
    · rw [if_neg hf]
      by_cases ht : (svc.vers key tok).total = 0
      · rw [if_pos ht]; rfl
      · rw [if_neg ht]
        cases hsc : scanPage (snapshot st (svc.vers key tok).items) pend with
        | ret v => rfl
        | cont p =>
          dsimp only
          by_cases hs : sty.stop (svc.vers key tok).items.length (svc.vers key tok).next = true
          · rw [if_pos hs]; rfl
          · rw [if_neg hs, ih]; rfl

/-- On a legal pager, with honest (non-zero) totals and no listing fault, the fixed loop computes a
    single scan over the concatenated listing, with at most one list call per page. -/
theorem gepLoop_walk (svc : Svc) (key : String) (hfail : ∀ i, svc.fail i = false) (pages : List (Page String)) :
    ∀ (fuel : Nat) (tok : String) (pend : Option Ver) (st : St), Walk (svc.vers key) tok pages →
      pages.length ≤ fuel → (∀ pg ∈ pages, pg.total ≠ 0) →
      (gepLoop .fixed svc key fuel tok pend st).2 =
        (match scanPage (snapshot st (flatItems pages)) pend with
         | .ret v => .found v
         | .cont p => gepEnd p) ∧
      (gepLoop .fixed svc key fuel tok pend st).1.log.length ≤ st.log.length + pages.length := by
  induction pages with
  | nil => intro fuel tok pend st hw; simp [Walk] at hw
  | cons pg rest ih =>
    intro fuel tok pend st hw hlen htot
    cases fuel with
    | zero => simp at hlen
    | succ f =>
      have hpg := walk_head hw
      have hf : ¬ svc.fail st.idx = true := by rw [hfail]; simp
      have ht : ¬ (svc.vers key tok).total = 0 := by rw [hpg]; exact htot pg (List.mem_cons_self ..)
      rw [gepLoop_succ, if_neg hf, if_neg ht, flatItems_cons, snapshot_append, scanPage_append, hpg]
      cases hsc : scanPage (snapshot st pg.items) pend with
      | ret v =>
        refine ⟨rfl, ?_⟩
        simp only [push_log, List.length_cons]; omega
      | cont p =>
        dsimp only
        rcases walk_cases hw with ⟨hnext, hrest⟩ | ⟨hnext, _, hwr⟩
        · have hs : Style.stop .fixed pg.items.length pg.next = true := by rw [stop_fixed]; exact hnext
          subst hrest
          rw [if_pos hs]
          simp only [flatItems_nil]
          refine ⟨rfl, ?_⟩
          simp only [push_log, List.length_cons]; omega
        · have hs : ¬ (Style.stop .fixed pg.items.length pg.next = true) := by rw [stop_fixed]; exact hnext
          rw [if_neg hs]
          have := ih f pg.next p (st.push (.listVers key tok) true) hwr
            (by simp only [List.length_cons] at hlen; omega)
            (fun q hq => htot q (List.mem_cons_of_mem _ hq))
          rw [snapshot_push] at this
          refine ⟨this.1, ?_⟩
          have h2 := this.2
          simp only [push_log, List.length_cons] at h2 ⊢
          omega

/-- Any pager, any style, any faults: what the loop returns is ENABLED and was listed, or PENDING. -/
theorem gepLoop_found (sty : Style) (svc : Svc) (key : String) (fuel : Nat) :
    ∀ (tok : String) (pend : Option Ver) (st st' : St) (v : Ver),
      gepLoop sty svc key fuel tok pend st = (st', .found v) →
      (∀ q, pend = some q → q.state = stPending) →
      (v.state = stEnabled ∧ ∃ tok', v ∈ snapshot st (svc.vers key tok').items) ∨ v.state = stPending := by
  induction fuel with
  | zero => intro tok pend st st' v h; rw [gepLoop_zero] at h; cases h
  | succ f ih =>
    intro tok pend st st' v h hp
    rw [gepLoop_succ] at h
    by_cases hf : svc.fail st.idx = true
    · rw [if_pos hf] at h; cases h
    · rw [if_neg hf] at h
      by_cases ht : (svc.vers key tok).total = 0
      · rw [if_pos ht] at h; cases h
      · rw [if_neg ht] at h
        cases hsc : scanPage (snapshot st (svc.vers key tok).items) pend with
        | ret w =>
          rw [hsc] at h
          simp only [Prod.mk.injEq, Gep.found.injEq] at h
          obtain ⟨_, rfl⟩ := h
          have := scanPage_ret _ _ _ hsc
          exact Or.inl ⟨this.2, tok, this.1⟩
        | cont p =>
          rw [hsc] at h
          dsimp only at h
          have hp' := scanPage_cont_pending _ _ _ hsc hp
          by_cases hs : sty.stop (svc.vers key tok).items.length (svc.vers key tok).next = true
          · rw [if_pos hs] at h
            simp only [Prod.mk.injEq] at h
            cases p with
            | none => simp [gepEnd] at h
            | some q =>
              simp only [gepEnd, Gep.found.injEq] at h
              obtain ⟨_, rfl⟩ := h
              exact Or.inr (hp' _ rfl)
          · rw [if_neg hs] at h
            rcases ih _ _ _ _ _ h hp' with ⟨he, tok', hm⟩ | hpe
            · exact Or.inl ⟨he, tok', by rw [snapshot_push] at hm; exact hm⟩
            · exact Or.inr hpe

/-! ### polling -/

theorem pollOnce_log (svc : Svc) (name : String) (i : Nat) (st : St) :
    (pollOnce svc name i st).1.log.length = st.log.length + 1 ∧ (pollOnce svc name i st).1.state = st.state := by
  unfold pollOnce
  by_cases hf : svc.fail st.idx = true
  · rw [if_pos hf]; exact ⟨rfl, rfl⟩
  · rw [if_neg hf]
    cases hg : svc.gets i name with
    | none => exact ⟨rfl, rfl⟩
    | some v =>
      simp only
      by_cases he : v.state = stEnabled
      · rw [if_pos he]; exact ⟨rfl, rfl⟩
      · rw [if_neg he]
        by_cases hp : v.state = stPending
        · rw [if_pos hp]; exact ⟨rfl, rfl⟩
        · rw [if_neg hp]; exact ⟨rfl, rfl⟩

theorem pollOnce_ok (svc : Svc) (name : String) (i : Nat) (st st' : St) (n : String)
    (h : pollOnce svc name i st = (st', .done (.ok n))) :
    ∃ v, svc.gets i name = some v ∧ v.state = stEnabled ∧ v.name = n := by
  unfold pollOnce at h
  by_cases hf : svc.fail st.idx = true
  · rw [if_pos hf] at h; simp at h
  · rw [if_neg hf] at h
    cases hg : svc.gets i name with
    | none => rw [hg] at h; simp at h
    | some v =>
      rw [hg] at h
      simp only at h
      by_cases he : v.state = stEnabled
      · rw [if_pos he] at h
        simp only [Prod.mk.injEq, PollStep.done.injEq, Boot.ok.injEq] at h
        exact ⟨v, rfl, he, h.2⟩
      · rw [if_neg he] at h
        by_cases hp : v.state = stPending
        · rw [if_pos hp] at h; simp at h
        · rw [if_neg hp] at h; simp at h

theorem pollOnce_again (svc : Svc) (name : String) (i : Nat) (st st' : St)
    (h : pollOnce svc name i st = (st', .again)) :
    ∃ v, svc.gets i name = some v ∧ v.state = stPending := by
  unfold pollOnce at h
  by_cases hf : svc.fail st.idx = true
  · rw [if_pos hf] at h; simp at h
  · rw [if_neg hf] at h
    cases hg : svc.gets i name with
    | none => rw [hg] at h; simp at h
    | some v =>
      rw [hg] at h
      simp only at h
      by_cases he : v.state = stEnabled
      · rw [if_pos he] at h; simp at h
      · rw [if_neg he] at h
        by_cases hp : v.state = stPending
        · exact ⟨v, rfl, hp⟩
        · rw [if_neg hp] at h; simp at h

theorem poll_zero (svc : Svc) (name : String) (i : Nat) (st : St) :
    poll svc name 0 i st =
      match pollOnce svc name i st with
      | (st', .done r) => (st', r)
      | (st', .again) => (st', .err "timeout") := rfl

theorem poll_succ (svc : Svc) (name : String) (fuel i : Nat) (st : St) :
    poll svc name (fuel + 1) i st =
      match pollOnce svc name i st with
      | (st', .done r) => (st', r)
      | (st', .again) => poll svc name fuel (i + 1) st' := rfl

/-- A name is returned by the polling loop only after the service answered ENABLED for it, every
    earlier answer having been PENDING_GENERATION; at most `fuel + 1` polls are made. -/
theorem poll_ok (svc : Svc) (name : String) (fuel : Nat) :
    ∀ (i : Nat) (st st' : St) (n : String), poll svc name fuel i st = (st', .ok n) →
      ∃ j v, i ≤ j ∧ j ≤ i + fuel ∧ svc.gets j name = some v ∧ v.state = stEnabled ∧ v.name = n ∧
        ∀ j', i ≤ j' → j' < j → ∃ v', svc.gets j' name = some v' ∧ v'.state = stPending := by
  induction fuel with
  | zero =>
    intro i st st' n h
    rw [poll_zero] at h
    cases hp : pollOnce svc name i st with
    | mk s1 step =>
      rw [hp] at h
      cases step with
      | done r =>
        simp only [Prod.mk.injEq] at h
        obtain ⟨rfl, rfl⟩ := h
        obtain ⟨v, hg, he, hn⟩ := pollOnce_ok svc name i st s1 n hp
        exact ⟨i, v, Nat.le_refl _, by omega, hg, he, hn, fun j' h1 h2 => by omega⟩
      | again => simp at h
  | succ f ih =>
    intro i st st' n h
    rw [poll_succ] at h
    cases hp : pollOnce svc name i st with
    | mk s1 step =>
      rw [hp] at h
      cases step with
      | done r =>
        simp only [Prod.mk.injEq] at h
        obtain ⟨rfl, rfl⟩ := h
        obtain ⟨v, hg, he, hn⟩ := pollOnce_ok svc name i st s1 n hp
        exact ⟨i, v, Nat.le_refl _, by omega, hg, he, hn, fun j' h1 h2 => by omega⟩
      | again =>
        simp only at h
        obtain ⟨j, v, h1, h2, hg, he, hn, hall⟩ := ih (i + 1) s1 st' n h
        obtain ⟨v0, hg0, hp0⟩ := pollOnce_again svc name i st s1 hp
        refine ⟨j, v, by omega, by omega, hg, he, hn, ?_⟩
        intro j' hj1 hj2
        by_cases hij : j' = i
        · subst hij; exact ⟨v0, hg0, hp0⟩
        · exact hall j' (by omega) hj2

theorem poll_calls (svc : Svc) (name : String) (fuel : Nat) :
    ∀ (i : Nat) (st : St), (poll svc name fuel i st).1.log.length ≤ st.log.length + fuel + 1 := by
  induction fuel with
  | zero =>
    intro i st
    rw [poll_zero]
    have := (pollOnce_log svc name i st).1
    cases hp : pollOnce svc name i st with
    | mk s1 step =>
      rw [hp] at this
      simp only at this
      cases step <;> simp only <;> omega
  | succ f ih =>
    intro i st
    rw [poll_succ]
    have := (pollOnce_log svc name i st).1
    cases hp : pollOnce svc name i st with
    | mk s1 step =>
      rw [hp] at this
      simp only at this
      cases step with
      | done r => simp only; omega
      | again =>
        simp only
        have := ih (i + 1) s1
        omega

/-! ### the loop before the fix -/

/-- Old exit rule, every page of the listing full (so in particular the last one), no faults: from any
    point of the walk the loop never ends — after the last page it starts again at the first. -/
theorem oldKeyLoop_none (svc : Svc) (key : String) (ps : Nat) (pages : List (Page String))
    (hfail : ∀ i, svc.fail i = false) (hw : Walk (svc.vers key) "" pages)
    (hfull : ∀ pg ∈ pages, ps ≤ pg.items.length) :
    ∀ (n : Nat) (tok : String) (a : Acc),
      (∃ pre suf, pages = pre ++ suf ∧ Walk (svc.vers key) tok suf) →
      wipeoutKeyLoop (.old ps) svc key n tok a = none := by
  intro n
  induction n with
  | zero => intro tok a _; rfl
  | succ m ih =>
    intro tok a hreach
    obtain ⟨pre, suf, hsplit, hws⟩ := hreach
    cases suf with
    | nil => simp [Walk] at hws
    | cons pg rest =>
      have hpg := walk_head hws
      have hmem : pg ∈ pages := by rw [hsplit]; exact List.mem_append_right _ (List.mem_cons_self ..)
      have hf : ¬ svc.fail a.st.idx = true := by rw [hfail]; simp
      have hs : ¬ (Style.stop (.old ps) (svc.vers key tok).items.length (svc.vers key tok).next = true) := by
        rw [stop_old, hpg]; have := hfull pg hmem; omega
      rw [wipeoutKeyLoop_succ, if_neg hf, if_neg hs, hpg]
      apply ih
      rcases walk_cases hws with ⟨hnext, _⟩ | ⟨_, _, hwr⟩
      · rw [hnext]; exact ⟨[], pages, rfl, hw⟩
      · exact ⟨pre ++ [pg], rest, by rw [hsplit]; simp, hwr⟩

/-! ### bootstrap: what can be returned -/

/-- `n` names a version the service reported ENABLED: in some page of the key's listing, as the answer to
    CreateCryptoKeyVersion, or as the answer to some GetCryptoKeyVersion. -/
def ReportedEnabled (svc : Svc) (key : String) (s : String → Nat) (n : String) : Prop :=
  (∃ tok, (⟨n, stEnabled⟩ : Ver) ∈ ((svc.vers key tok).items.map fun m => (⟨m, s m⟩ : Ver))) ∨
  svc.createVer = ⟨n, stEnabled⟩ ∨
  (∃ j nm w, svc.gets j nm = some w ∧ w.state = stEnabled ∧ w.name = n)

theorem awaitVersion_ok (svc : Svc) (fuelP : Nat) (v : Ver) (st st' : St) (n : String)
    (h : awaitVersion svc fuelP v st = (st', .ok n)) :
    (v.state = stEnabled ∧ v.name = n) ∨
    (∃ j w, j ≤ fuelP ∧ svc.gets j v.name = some w ∧ w.state = stEnabled ∧ w.name = n) := by
  unfold awaitVersion at h
  by_cases he : v.state = stEnabled
  · rw [if_pos he] at h
    simp only [Prod.mk.injEq, Boot.ok.injEq] at h
    exact Or.inl ⟨he, h.2⟩
  · rw [if_neg he] at h
    obtain ⟨j, w, _, h2, hg, hen, hn, _⟩ := poll_ok svc v.name fuelP 0 st st' n h
    exact Or.inr ⟨j, w, by omega, hg, hen, hn⟩

theorem enabled_ne_pending : stEnabled ≠ stPending := by decide

theorem createVersion_state (svc : Svc) (key : String) (st : St) :
    (createVersion svc key st).1.state = st.state := by
  unfold createVersion
  by_cases hf : svc.fail st.idx = true
  · rw [if_pos hf]; rfl
  · rw [if_neg hf]; rfl

theorem waitForKeyGen_ok (sty : Style) (svc : Svc) (key : String) (fuelL fuelP : Nat) (st st' : St) (n : String)
    (h : waitForKeyGen sty svc key fuelL fuelP st = (st', .ok n)) : ReportedEnabled svc key st.state n := by
  unfold waitForKeyGen at h
  cases hg : gepLoop sty svc key fuelL "" none st with
  | mk st1 g =>
    rw [hg] at h
    cases g with
    | diverged => simp at h
    | errList => simp at h
    | errMissing => simp at h
    | found v =>
      dsimp only at h
      rcases awaitVersion_ok svc fuelP v st1 st' n h with ⟨he, hn⟩ | ⟨j, w, _, hgw, hen, hwn⟩
      · rcases gepLoop_found sty svc key fuelL "" none st st1 v hg (fun q hq => by cases hq) with ⟨_, tok', hm⟩ | hp
        · refine Or.inl ⟨tok', ?_⟩
          have : v = ⟨n, stEnabled⟩ := by cases v; simp only at he hn; subst he; subst hn; rfl
          rw [← this]; exact hm
        · rw [he] at hp; exact absurd hp enabled_ne_pending
      · exact Or.inr (Or.inr ⟨j, _, w, hgw, hen, hwn⟩)
    | errNoVersions =>
      dsimp only at h
      unfold createVersion at h
      by_cases hf : svc.fail st1.idx = true
      · rw [if_pos hf] at h; simp at h
      · rw [if_neg hf] at h
        dsimp only at h
        rcases awaitVersion_ok svc fuelP svc.createVer _ st' n h with ⟨he, hn⟩ | ⟨j, w, _, hgw, hen, hwn⟩
        · refine Or.inr (Or.inl ?_)
          cases hc : svc.createVer with
          | mk nm s => rw [hc] at he hn; simp only at he hn; subst he; subst hn; rfl
        · exact Or.inr (Or.inr ⟨j, _, w, hgw, hen, hwn⟩)

theorem callCreate_state (svc : Svc) (e : Bool) (c : Call) (st : St) :
    (callCreate svc e c st).1.state = st.state := by
  unfold callCreate
  by_cases hf : svc.fail st.idx = true
  · rw [if_pos hf]; rfl
  · rw [if_neg hf]
    by_cases he : e = true
    · rw [if_pos he]; rfl
    · rw [if_neg he]; rfl

theorem recreateCryptoKey_ok (sty : Style) (svc : Svc) (keep : Bool) (id key : String) (hsm : Bool)
    (fuelL fuelP : Nat) (st st' : St) (n : String)
    (h : recreateCryptoKey sty svc keep id key hsm fuelL fuelP st = (st', .ok n)) :
    ReportedEnabled svc key st.state n := by
  unfold recreateCryptoKey at h
  have hst := callCreate_state svc svc.keyExists (.createKey id hsm) st
  cases hc : callCreate svc svc.keyExists (.createKey id hsm) st with
  | mk st1 o =>
    rw [hc] at h hst
    simp only at hst
    cases o with
    | fail => simp at h
    | ok =>
      dsimp only at h
      rw [← hst]; exact waitForKeyGen_ok sty svc key fuelL fuelP st1 st' n h
    | alreadyExists =>
      dsimp only at h
      by_cases hk : keep = true
      · rw [if_pos hk] at h
        rw [← hst]; exact waitForKeyGen_ok sty svc key fuelL fuelP st1 st' n h
      · rw [if_neg hk] at h; simp at h

theorem createNewRootKey_ok (sty : Style) (svc : Svc) (keep : Bool) (id key : String)
    (fuelL fuelP : Nat) (st st' : St) (n : String)
    (h : createNewRootKey sty svc keep id key fuelL fuelP st = (st', .ok n)) :
    ReportedEnabled svc key st.state n := by
  unfold createNewRootKey at h
  have hst := callCreate_state svc svc.ringExists .createRing st
  cases hc : callCreate svc svc.ringExists .createRing st with
  | mk st1 o =>
    rw [hc] at h hst
    simp only at hst
    cases o with
    | fail =>
      dsimp only at h
      rw [← hst]; exact recreateCryptoKey_ok sty svc keep id key true fuelL fuelP st1 st' n h
    | ok =>
      dsimp only at h
      rw [← hst]; exact recreateCryptoKey_ok sty svc keep id key true fuelL fuelP st1 st' n h
    | alreadyExists =>
      dsimp only at h
      by_cases hk : keep = true
      · rw [if_pos hk] at h
        rw [← hst]; exact recreateCryptoKey_ok sty svc keep id key true fuelL fuelP st1 st' n h
      · rw [if_neg hk] at h; simp at h

theorem createFirstSigningKey_ok (sty : Style) (svc : Svc) (keep : Bool) (id key : String)
    (fuelL fuelP : Nat) (st st' : St) (n : String)
    (h : createFirstSigningKey sty svc keep id key fuelL fuelP st = (st', .ok n)) :
    ReportedEnabled svc key st.state n := by
  unfold createFirstSigningKey at h
  cases hc : recreateCryptoKey sty svc keep id key false fuelL fuelP st with
  | mk st1 b =>
    rw [hc] at h
    cases b with
    | ok m =>
      dsimp only at h
      by_cases hf : svc.fail st1.idx = true
      · rw [if_pos hf] at h; simp at h
      · rw [if_neg hf] at h
        simp only [Prod.mk.injEq, Boot.ok.injEq] at h
        rw [← h.2]
        exact recreateCryptoKey_ok sty svc keep id key false fuelL fuelP st st1 m hc
    | err c => simp at h
    | diverged => simp at h

/-! ### more fuel never changes a result -/

theorem wipeoutKeys_fuel_mono (sty : Style) (svc : Svc) (fuel : Nat) (ks : List String) (a r : Acc)
    (h : wipeoutKeys sty svc fuel ks a = some r) (k : Nat) :
    wipeoutKeys sty svc (fuel + k) ks a = some r := by
  induction ks generalizing a with
  | nil => exact h
  | cons x xs ih =>
    cases hk : wipeoutKeyLoop sty svc x fuel "" ⟨a.st, false⟩ with
    | none => rw [wipeoutKeys_cons_none sty svc fuel x xs a hk] at h; cases h
    | some r1 =>
      rw [wipeoutKeys_cons_some sty svc fuel x xs a r1 hk] at h
      rw [wipeoutKeys_cons_some sty svc (fuel + k) x xs a r1 (wipeoutKeyLoop_fuel_mono sty svc x fuel "" _ r1 hk k)]
      exact ih _ h

theorem wipeoutLoop_fuel_mono (sty : Style) (svc : Svc) (fuelK fuel : Nat) (tok : String) (a r : Acc)
    (h : wipeoutLoop sty svc fuelK fuel tok a = some r) (k k' : Nat) :
    wipeoutLoop sty svc (fuelK + k) (fuel + k') tok a = some r := by
  induction fuel generalizing tok a with
  | zero => rw [wipeoutLoop_zero] at h; cases h
  | succ f ih =>
    have e : f + 1 + k' = (f + k') + 1 := by omega
    rw [e, wipeoutLoop_succ]
    rw [wipeoutLoop_succ] at h
    by_cases hf : svc.fail a.st.idx = true
    · rw [if_pos hf] at h ⊢; exact h
    · rw [if_neg hf] at h ⊢
      cases hk : wipeoutKeys sty svc fuelK (svc.keys tok).items ⟨a.st.push (.listKeys tok) true, a.failed⟩ with
      | none => rw [hk] at h; cases h
      | some a' =>
        rw [hk] at h
        rw [wipeoutKeys_fuel_mono sty svc fuelK _ _ a' hk k]
        dsimp only at h ⊢
        by_cases hs : sty.stop (svc.keys tok).items.length (svc.keys tok).next = true
        · rw [if_pos hs] at h ⊢; exact h
        · rw [if_neg hs] at h ⊢
          exact ih _ _ h

/-- The bootstrap listing loop terminates on every legal pager, whatever the faults and totals. -/
theorem gepLoop_terminates (svc : Svc) (key : String) (pages : List (Page String)) :
    ∀ (fuel : Nat) (tok : String) (pend : Option Ver) (st : St), Walk (svc.vers key) tok pages →
      pages.length ≤ fuel →
      (gepLoop .fixed svc key fuel tok pend st).2 ≠ .diverged ∧
      (gepLoop .fixed svc key fuel tok pend st).1.log.length ≤ st.log.length + pages.length := by
  induction pages with
  | nil => intro fuel tok pend st hw; simp [Walk] at hw
  | cons pg rest ih =>
    intro fuel tok pend st hw hlen
    cases fuel with
    | zero => simp at hlen
    | succ f =>
      have hpg := walk_head hw
      rw [gepLoop_succ]
      by_cases hf : svc.fail st.idx = true
      · rw [if_pos hf]
        refine ⟨by simp, ?_⟩
        simp only [push_log, List.length_cons]; omega
      · rw [if_neg hf]
        by_cases ht : (svc.vers key tok).total = 0
        · rw [if_pos ht]
          refine ⟨by simp, ?_⟩
          simp only [push_log, List.length_cons]; omega
        · rw [if_neg ht]
          cases hsc : scanPage (snapshot st (svc.vers key tok).items) pend with
          | ret v =>
            refine ⟨by simp, ?_⟩
            simp only [push_log, List.length_cons]; omega
          | cont p =>
            dsimp only
            rw [hpg]
            rcases walk_cases hw with ⟨hnext, _⟩ | ⟨hnext, _, hwr⟩
            · have hs : Style.stop .fixed pg.items.length pg.next = true := by rw [stop_fixed]; exact hnext
              rw [if_pos hs]
              refine ⟨by cases p <;> simp [gepEnd], ?_⟩
              simp only [push_log, List.length_cons]; omega
            · have hs : ¬ (Style.stop .fixed pg.items.length pg.next = true) := by rw [stop_fixed]; exact hnext
              rw [if_neg hs]
              have := ih f pg.next p (st.push (.listVers key tok) true) hwr
                (by simp only [List.length_cons] at hlen; omega)
              refine ⟨this.1, ?_⟩
              have h2 := this.2
              simp only [push_log, List.length_cons] at h2 ⊢
              omega

/-- Trusted-base hypothesis about CRC32C: a single flipped bit always changes the checksum. -/
def CrcSingleBit (crc : Bytes → Nat) : Prop :=
  ∀ (bs : Bytes) (i : Nat), i < 8 * bs.length → crc (flipBit bs i) ≠ crc bs

end GceTcb.Kms
