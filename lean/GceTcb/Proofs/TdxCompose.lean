import GceTcb.Proofs.TdxNoPanic
import GceTcb.Proofs.TdxStream
/-
C05 / C08 — composition: what a successful parse returns, and tdx.MRTD as the hash of the
specification's record stream of the returned regions.  Core-only.
-/
namespace GceTcb.TdxHob
open GceTcb GceTcb.Codec GceTcb.Codecs GceTcb.Intervals GceTcb.TdxMeta

theorem setBuf_gprs : ∀ (l : List Region) (i : Nat) (b : HostBuf), (setBuf l i b).map (·.gpr) = l.map (·.gpr) := by
  intro l
  induction l with
  | nil => intro i b; rfl
  | cons r rs ih =>
    intro i b
    cases i with
    | zero => simp [setBuf]
    | succ n => simp [setBuf, ih]

/-- What a successful tdxFwParser.parse is made of (any image size: SectionCount is a uint32, so the
    index is below 2^32, and a successful `int32` conversion means it is below 2^31). -/
theorem parse_ok (o : ParserOpts) (fw : Bytes) (banks : List Gpr) (regions : List Region)
    (h : parse o fw banks = .ok regions) :
    ∃ md st i r b, extractTDXMetadata fw = .ok md ∧ parseLoop o.measureAll fw md.sections {} = .ok st ∧
      st.hobIndex = some i ∧ i < 2 ^ 31 ∧ st.regions[i]? = some r ∧
      getTDHOBList r.gpr st.priv (unacceptedMemRanges st.priv banks) o.disableEarlyAccept = .ok b ∧
      regions = setBuf st.regions i b := by
  unfold parse at h
  cases hmd : extractTDXMetadata fw with
  | err c => rw [hmd] at h; simp at h
  | panic p => rw [hmd] at h; simp at h
  | ok md =>
    rw [hmd] at h; simp only [] at h
    cases hp : parseLoop o.measureAll fw md.sections {} with
    | err c => rw [hp] at h; simp at h
    | panic p => rw [hp] at h; simp at h
    | ok st =>
      rw [hp] at h; simp only [] at h
      cases hh : st.hobIndex with
      | none => rw [hh] at h; simp at h
      | some i =>
        rw [hh] at h; simp only [] at h
        obtain ⟨hv, _, _⟩ := extract_ok fw md hmd
        obtain ⟨inv, hidx, _⟩ := (parseLoop_ok o.measureAll fw md.sections {} hv.secs pinv_init).2 st hp
        by_cases h31 : i % 2 ^ 32 ≥ 2 ^ 31
        · rw [if_pos h31] at h; simp at h
        · rw [if_neg h31] at h
          cases hr : st.regions[i % 2 ^ 32]? with
          | none => rw [hr] at h; simp at h
          | some r =>
            rw [hr] at h; simp only [] at h
            cases hg : getTDHOBList r.gpr st.priv (unacceptedMemRanges st.priv banks) o.disableEarlyAccept with
            | err c => rw [hg] at h; simp at h
            | panic p => rw [hg] at h; simp at h
            | ok b =>
              rw [hg] at h; simp only [] at h
              injection h with h
              have hi := inv.hob i hh
              have hcount := extract_count fw md hmd
              have hidx' : st.index = md.sections.length := by simpa using hidx
              have himod : i % 2 ^ 32 = i := Nat.mod_eq_of_lt (by omega)
              rw [himod] at hr h h31
              exact ⟨md, st, i, r, b, rfl, hp, hh, by omega, hr, hg, h.symm⟩

/-- Facts about the regions a successful parse returns: one per section, each range inside the 52-bit
    physical address space, the declared sizes adding up to at most 4 GiB. -/
theorem parse_ok_facts (o : ParserOpts) (fw : Bytes) (banks : List Gpr) (regions : List Region)
    (h : parse o fw banks = .ok regions) :
    (∀ r ∈ regions, r.gpr.start + r.gpr.len ≤ 2 ^ 52) ∧ (regions.map (·.gpr.len)).sum ≤ maxInitialMemory ∧
    32 * regions.length ≤ fw.length := by
  obtain ⟨md, st, i, r, b, hmd, hp, _, _, _, _, hreg⟩ := parse_ok o fw banks regions h
  obtain ⟨hv, hl, _⟩ := extract_ok fw md hmd
  obtain ⟨inv, hidx, hsum⟩ := (parseLoop_ok o.measureAll fw md.sections {} hv.secs pinv_init).2 st hp
  have hg := setBuf_gprs st.regions i b
  rw [← hreg] at hg
  have hidx' : st.index = md.sections.length := by simpa using hidx
  refine ⟨?_, ?_, ?_⟩
  · intro x hx
    have : x.gpr ∈ regions.map (·.gpr) := List.mem_map.mpr ⟨x, hx, rfl⟩
    rw [hg] at this
    obtain ⟨y, hy, hxy⟩ := List.mem_map.mp this
    have := inv.range y hy
    rw [← hxy]; exact this
  · have e : regions.map (·.gpr.len) = (regions.map (·.gpr)).map (·.len) := by rw [List.map_map]; rfl
    have e' : st.regions.map (·.gpr.len) = (st.regions.map (·.gpr)).map (·.len) := by rw [List.map_map]; rfl
    rw [e, hg, ← e', hsum]
    have := hv.total
    simp only [List.map_nil, List.sum_nil, Nat.zero_add]
    exact this
  · have : regions.length = st.regions.length := by
      have := congrArg List.length hg
      simpa using this
    rw [this, inv.len, hidx']; exact hl

end GceTcb.TdxHob

namespace GceTcb.Mrtd
open GceTcb GceTcb.Codec GceTcb.Intervals GceTcb.TdxMeta GceTcb.TdxHob GceTcb.Spec.Mrtd

/-- the specification section a region stands for under InitMemoryRegion -/
def specSectionOf (measureAll : Bool) (r : Region) : Section :=
  ⟨r.gpr.start, r.gpr.len / 4096, measureOf measureAll r, r.buf.toBytes⟩

theorem initAll_eq_spec (m : Bool) : ∀ (regions : List Region) (s : Bytes),
    (∀ r ∈ regions, r.gpr.start + r.gpr.len ≤ 2 ^ 52) → initAll m regions = .ok s →
    s = regions.flatMap (fun r => sectionRecs (specSectionOf m r)) := by
  intro regions
  induction regions with
  | nil => intro s _ h; simp [initAll] at h; subst h; rfl
  | cons r rs ih =>
    intro s hr h
    unfold initAll at h
    cases h1 : initMemoryRegion m r with
    | err c => rw [h1] at h; simp at h
    | panic p => rw [h1] at h; simp at h
    | ok a =>
      rw [h1] at h; simp only [] at h
      cases h2 : initAll m rs with
      | err c => rw [h2] at h; simp at h
      | panic p => rw [h2] at h; simp at h
      | ok t =>
        rw [h2] at h; simp only [] at h
        injection h with h
        have hrr := hr r (List.mem_cons_self ..)
        have e1 := initMemoryRegion_eq_spec m r a (by omega) (by omega) (by omega) h1
        have e2 := ih t (fun x hx => hr x (List.mem_cons_of_mem _ hx)) h2
        rw [List.flatMap_cons, ← h, e1, e2]; rfl

/-- tdx.MRTD, every hash and every option combination: the digest is the hash of the
    specification's TDH.MEM.PAGE.ADD / TDH.MR.EXTEND record stream of the regions that
    ExtractMaterialGuestPhysicalRegions* returned, in order, one page at a time. -/
theorem mrtd_eq_region_stream (H : Bytes → Bytes) (o : LaunchOptions) (fw : Bytes) (d : Bytes)
    (h : mrtd H o fw = .ok d) :
    ∃ regions, mrtdRegions o fw = .ok regions ∧
      d = H (regions.flatMap (fun r => sectionRecs (specSectionOf o.measureAllRegions r))) := by
  unfold mrtd at h
  cases hs : mrtdStream o fw with
  | err c => rw [hs] at h; simp at h
  | panic p => rw [hs] at h; simp at h
  | ok s =>
    rw [hs] at h; simp only [] at h
    injection h with h
    unfold mrtdStream at hs
    cases hr : mrtdRegions o fw with
    | err c => rw [hr] at hs; simp at hs
    | panic p => rw [hr] at hs; simp at hs
    | ok regions =>
      rw [hr] at hs; simp only [] at hs
      refine ⟨regions, rfl, ?_⟩
      have hfacts : ∀ r ∈ regions, r.gpr.start + r.gpr.len ≤ 2 ^ 52 := by
        unfold mrtdRegions extractNoUnacceptedMemory extractTDHOBBug extractDefault at hr
        split at hr
        · exact (parse_ok_facts _ fw _ regions hr).1
        · split at hr
          · exact (parse_ok_facts _ fw _ regions hr).1
          · exact (parse_ok_facts _ fw _ regions hr).1
      rw [← h, initAll_eq_spec _ regions s hfacts hs]

end GceTcb.Mrtd
