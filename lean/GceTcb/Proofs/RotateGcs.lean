import GceTcb.Proofs.RotateDefs
/-
C10, deferred authority (gcsca): specifications of every step of `rotateKey` in the program logic of
Proofs/Hoare.lean, for one arbitrary fault script.
-/
namespace GceTcb.CA

variable {sc : Nat → Fault}

theorem nd_stR (o : String) : NonDestroy (.stR o) := fun _ => ⟨fun h => (by cases h), fun h => (by cases h)⟩
theorem nd_stE (o : String) : NonDestroy (.stE o) := fun _ => ⟨fun h => (by cases h), fun h => (by cases h)⟩
theorem nd_stW (o : String) : NonDestroy (.stW o) := fun _ => ⟨fun h => (by cases h), fun h => (by cases h)⟩
theorem nd_stWr (o : String) : NonDestroy (.stWr o) := fun _ => ⟨fun h => (by cases h), fun h => (by cases h)⟩
theorem nd_stC (o : String) : NonDestroy (.stC o) := fun _ => ⟨fun h => (by cases h), fun h => (by cases h)⟩
theorem nd_sgPub (o : String) : NonDestroy (.sgPub o) := fun _ => ⟨fun h => (by cases h), fun h => (by cases h)⟩
theorem nd_sgSign (o : String) : NonDestroy (.sgSign o) := fun _ => ⟨fun h => (by cases h), fun h => (by cases h)⟩
theorem nd_caCert (o : String) : NonDestroy (.caCert o) := fun _ => ⟨fun h => (by cases h), fun h => (by cases h)⟩
theorem nd_caPsk : NonDestroy .caPsk := fun _ => ⟨fun h => (by cases h), fun h => (by cases h)⟩
theorem nd_caPrk : NonDestroy .caPrk := fun _ => ⟨fun h => (by cases h), fun h => (by cases h)⟩
theorem nd_caBundle : NonDestroy .caBundle := fun _ => ⟨fun h => (by cases h), fun h => (by cases h)⟩
theorem nd_caFin : NonDestroy .caFin := fun _ => ⟨fun h => (by cases h), fun h => (by cases h)⟩
theorem nd_kmsCreate : NonDestroy .kmsCreate := fun _ => ⟨fun h => (by cases h), fun h => (by cases h)⟩
theorem nd_kmsGet (o : String) : NonDestroy (.kmsGet o) := fun _ => ⟨fun h => (by cases h), fun h => (by cases h)⟩
theorem nd_kmsPub (o : String) : NonDestroy (.kmsPub o) := fun _ => ⟨fun h => (by cases h), fun h => (by cases h)⟩
theorem nd_kmsSign (o : String) : NonDestroy (.kmsSign o) := fun _ => ⟨fun h => (by cases h), fun h => (by cases h)⟩
theorem nd_kmCreate : NonDestroy .kmCreate := fun _ => ⟨fun h => (by cases h), fun h => (by cases h)⟩

/-! ### generic leaf calls -/

section leaf
variable {ow : Bool} {P X : St → Prop}

theorem stReader_spec (o : String) (hP : Stable P) (hPX : ∀ s, P s → X s) :
    Tr sc ow P (stReader o) (fun r s => P s ∧ r = lookup s.store o) X := by
  unfold stReader
  refine Tr.wrap (P' := P) (.stR o) (fun s f h => hP s _ f (nd_stR o) h)
    (fun s h => hPX _ (hP s _ _ (nd_stR o) h)) ?_ (fun a s h => hPX s h.1)
  refine Triple.getSt_bind ?_
  intro s0 h0
  exact Triple.pure _ (fun s hs => by subst hs; exact ⟨h0, rfl⟩)

theorem stExists_spec (o : String) (hP : Stable P) (hPX : ∀ s, P s → X s) :
    Tr sc ow P (stExists o) (fun r s => P s ∧ r = (lookup s.store o).isSome) X := by
  unfold stExists
  refine Tr.wrap (P' := P) (.stE o) (fun s f h => hP s _ f (nd_stE o) h)
    (fun s h => hPX _ (hP s _ _ (nd_stE o) h)) ?_ (fun a s h => hPX s h.1)
  refine Triple.getSt_bind ?_
  intro s0 h0
  exact Triple.pure _ (fun s hs => by subst hs; exact ⟨h0, rfl⟩)

/-- a signer call on a key that the precondition shows to be live -/
theorem sgPub_spec (k : String) (hP : Stable P) (hPX : ∀ s, P s → X s)
    (hk : ∀ s, P s → ∃ a, lookup s.keys k = some a) :
    Tr sc ow P (sgPub k) (fun a s => P s ∧ lookup s.keys k = some a) X := by
  unfold sgPub
  refine Tr.wrap (P' := P) (.sgPub k) (fun s f h => hP s _ f (nd_sgPub k) h)
    (fun s h => hPX _ (hP s _ _ (nd_sgPub k) h)) ?_ (fun a s h => hPX s h.1)
  refine Triple.getSt_bind ?_
  intro s0 h0
  obtain ⟨a, ha⟩ := hk s0 h0
  rw [ha]
  exact Triple.pure _ (fun s hs => by subst hs; exact ⟨h0, ha⟩)

theorem sgSign_spec (k : String) (hP : Stable P) (hPX : ∀ s, P s → X s)
    (hk : ∀ s, P s → ∃ a, lookup s.keys k = some a) :
    Tr sc ow P (sgSign k) (fun a s => P s ∧ lookup s.keys k = some a) X := by
  unfold sgSign
  refine Tr.wrap (P' := P) (.sgSign k) (fun s f h => hP s _ f (nd_sgSign k) h)
    (fun s h => hPX _ (hP s _ _ (nd_sgSign k) h)) ?_ (fun a s h => hPX s h.1)
  refine Triple.getSt_bind ?_
  intro s0 h0
  obtain ⟨a, ha⟩ := hk s0 h0
  rw [ha]
  exact Triple.pure _ (fun s hs => by subst hs; exact ⟨h0, ha⟩)

/-- storage/ops.WriteFile: the object changes exactly when Close completes. `Q' f` describes the state
    after the commit when the script gave Close the outcome `f`. -/
theorem writeFile_spec (o : String) (data : Obj) {Q' : Fault → St → Prop}
    (hP : Stable P) (hPX : ∀ s, P s → X s)
    (hcommit : ∀ s f, P s → Q' f { (s.logged (.stC o) f) with store := (o, data) :: s.store })
    (hQX : ∀ f s, Q' f s → X s) :
    Tr sc ow P (writeFile o data) (fun _ s => Q' .ok s) X := by
  unfold writeFile
  refine Triple.bind (Q1 := fun _ s => P s) ?_ ?_
  · exact Tr.wrap (P' := P) (.stW o) (fun s f h => hP s _ f (nd_stW o) h)
      (fun s h => hPX _ (hP s _ _ (nd_stW o) h)) (Triple.pure _ (fun _ h => h)) (fun _ s h => hPX s h)
  intro _
  refine Triple.bind (Q1 := fun w s => match w with
      | some _ => P s
      | none => P s ∧ (¬ NoFault sc ∨ ow = false)) ?_ ?_
  · have h1 : Tr sc ow P (wrap (.stWr o) (pure ())) (fun _ s => P s) P :=
      Tr.wrap (P' := P) (.stWr o) (fun s f h => hP s _ f (nd_stWr o) h)
        (fun s h => hP s _ _ (nd_stWr o) h) (Triple.pure _ (fun _ h => h)) (fun _ s h => h)
    exact (Triple.attempt (R' := fun s => X s ∧ (¬ NoFault sc ∨ ow = false)) h1).conseq (fun _ h => h)
      (fun a s h => by cases a <;> exact h) (fun _ h => h) (fun s h => ⟨hPX s h.1, h.2⟩)
  intro w
  cases w with
  | none =>
    show Triple sc _ (wrap (.stC o) (pure ()) >>= fun _ => throw) _ _ _
    refine Triple.of_fact (φ := ¬ NoFault sc ∨ ow = false) (P := P) ?_ |>.pre (fun s h => ⟨h.2, h.1⟩)
    intro hacct
    refine Triple.bind (Q1 := fun _ s => P s) ?_ ?_
    · exact Tr.wrap (P' := P) (.stC o) (fun s f h => hP s _ f (nd_stC o) h)
        (fun s h => hPX _ (hP s _ _ (nd_stC o) h)) (Triple.pure _ (fun _ h => h)) (fun _ s h => hPX s h)
    intro _
    exact Triple.throw (fun s h => ⟨hPX s h, hacct⟩)
  | some u =>
    show Triple sc _ (wrap (.stC o) (modSt fun s => { s with store := (o, data) :: s.store })) _ _ _
    exact Tr.wrapI (P' := fun f s' => ∃ s, P s ∧ s' = s.logged (.stC o) f) (Q' := fun f _ s => Q' f s) (.stC o)
      (fun s f h => ⟨s, h, rfl⟩)
      (fun s h => hPX _ (hP s _ _ (nd_stC o) h))
      (fun f => Triple.modSt _ (fun s' ⟨s, h, e⟩ => by subst e; exact hcommit s f h))
      (fun _ s h => hQX _ s h)

end leaf

/-! ### phase A: everything before Finalize changes anything -/

section gcs
variable {ow : Bool}
variable (cfg : Cfg) (m0 : Manifest) (r c0 : Cert) (path0 : String)

/-- Phase predicate: the durable state is the good initial one (witnesses `m0 r c0 path0`), the cached
    manifest (if any; `cached = true`: certainly) is the stored one, no key has been destroyed, and the
    key `kk` (once created) is live with the given material. -/
structure Ph (cached : Bool) (kk : Option (String × Nat)) (s : St) : Prop where
  inv : InvG cfg m0 r c0 path0 s
  cache : if cached then s.cache = some m0 else (s.cache = none ∨ s.cache = some m0)
  nd : NoDestroy s.log
  key : ∀ k mat, kk = some (k, mat) → lookup s.keys k = some mat

variable {cfg m0 r c0 path0}

theorem Ph.stable (b : Bool) (kk : Option (String × Nat)) : Stable (Ph cfg m0 r c0 path0 b kk) :=
  fun _ _ f hc h => ⟨h.inv.transfer rfl rfl, h.cache, h.nd.snoc hc f, h.key⟩

theorem Ph.weaken {b : Bool} {kk : Option (String × Nat)} {s : St} (h : Ph cfg m0 r c0 path0 b kk s) :
    Ph cfg m0 r c0 path0 false none s :=
  ⟨h.inv, by
    have := h.cache
    cases b with
    | true => exact Or.inr this
    | false => exact this, h.nd, fun _ _ e => by cases e⟩

theorem Ph.uncache {b : Bool} {kk : Option (String × Nat)} {s : St} (h : Ph cfg m0 r c0 path0 b kk s) :
    Ph cfg m0 r c0 path0 false kk s :=
  ⟨h.inv, by
    have := h.cache
    cases b with
    | true => exact Or.inr this
    | false => exact this, h.nd, h.key⟩

theorem Ph.safe (hca : cfg.ca = .gcsca) {b : Bool} {kk : Option (String × Nat)} {s : St}
    (h : Ph cfg m0 r c0 path0 b kk s) : Safe cfg s := by
  refine ⟨?_, DAC_of_noDestroy cfg h.nd⟩
  unfold Inv; rw [hca]
  exact ⟨m0, r, c0, path0, h.inv⟩

/-- go: gcsca.getManifest -/
theorem getManifest_spec (b : Bool) (kk : Option (String × Nat)) :
    Tr sc ow (Ph cfg m0 r c0 path0 b kk) getManifest
      (fun m s => m = m0 ∧ Ph cfg m0 r c0 path0 true kk s) (Ph cfg m0 r c0 path0 b kk) := by
  unfold getManifest
  refine Triple.getSt_bind ?_
  intro s0 h0
  cases hc : s0.cache with
  | some m =>
    have hm : m = m0 := by
      have := h0.cache
      cases b with
      | true => simp [hc] at this; exact this
      | false => simp [hc] at this; exact this
    subst hm
    exact Triple.pure _ (fun s hs => by subst hs; exact ⟨rfl, h0.inv, by simp [hc], h0.nd, h0.key⟩)
  | none =>
    have hb : b = false := by
      cases b with
      | true => have := h0.cache; simp [hc] at this
      | false => rfl
    subst hb
    show Triple sc _ (stReader manifestName >>= fun r => _) _ _ _
    refine Triple.bind (Q1 := fun ro s => ro = some (.manifest m0) ∧ Ph cfg m0 r c0 path0 false kk s) ?_ ?_
    · refine (stReader_spec (X := Ph cfg m0 r c0 path0 false kk) manifestName (Ph.stable false kk) (fun _ h => h)).conseq
        (fun s hs => by subst hs; exact h0) (fun a s h => ⟨by rw [h.2, h.1.inv.man], h.1⟩) (fun _ h => h) (fun _ h => h)
    intro rr
    refine Triple.of_fact ?_
    intro hr
    subst hr
    show Triple sc _ ((pure m0 : Run Manifest) >>= fun m => (modSt fun s => { s with cache := some m }) >>= fun _ => pure m) _ _ _
    refine Triple.bind (Triple.pure (Q := fun m s => m = m0 ∧ Ph cfg m0 r c0 path0 false kk s) m0 (fun s h => ⟨rfl, h⟩)) ?_
    intro m
    refine Triple.of_fact ?_
    intro hm
    rw [hm]
    refine Triple.bind (Triple.modSt (Q := fun _ s => Ph cfg m0 r c0 path0 true kk s) _ ?_) ?_
    · intro s h
      exact ⟨h.inv.transfer rfl rfl, rfl, h.nd, h.key⟩
    intro _
    exact Triple.pure _ (fun s h => ⟨rfl, h⟩)

/-- go: gcsca.PrimarySigningKeyVersion -/
theorem caPsk_spec (hca : cfg.ca = .gcsca) (b : Bool) (kk : Option (String × Nat)) :
    Tr sc ow (Ph cfg m0 r c0 path0 b kk) (caPsk cfg)
      (fun p s => p = m0.signing ∧ Ph cfg m0 r c0 path0 true kk s) (Ph cfg m0 r c0 path0 b kk) := by
  unfold caPsk; rw [hca]
  refine Tr.wrap (P' := Ph cfg m0 r c0 path0 b kk) .caPsk (fun s f h => Ph.stable b kk s _ f nd_caPsk h)
    (fun s h => Ph.stable b kk s _ _ nd_caPsk h) ?_ (fun a s h => by
      have := h.2.uncache
      cases b with
      | true => exact h.2
      | false => exact this)
  show Triple sc _ (getManifest >>= fun m => pure m.signing) _ _ _
  refine Triple.bind (getManifest_spec b kk) ?_
  intro m
  exact Triple.pure _ (fun s h => ⟨by rw [h.1], h.2⟩)

/-- go: gcsca.PrimaryRootKeyVersion -/
theorem caPrk_spec (hca : cfg.ca = .gcsca) (b : Bool) (kk : Option (String × Nat)) :
    Tr sc ow (Ph cfg m0 r c0 path0 b kk) (caPrk cfg)
      (fun p s => p = m0.root ∧ Ph cfg m0 r c0 path0 true kk s) (Ph cfg m0 r c0 path0 b kk) := by
  unfold caPrk; rw [hca]
  refine Tr.wrap (P' := Ph cfg m0 r c0 path0 b kk) .caPrk (fun s f h => Ph.stable b kk s _ f nd_caPrk h)
    (fun s h => Ph.stable b kk s _ _ nd_caPrk h) ?_ (fun a s h => by
      have := h.2.uncache
      cases b with
      | true => exact h.2
      | false => exact this)
  show Triple sc _ (getManifest >>= fun m => pure m.root) _ _ _
  refine Triple.bind (getManifest_spec b kk) ?_
  intro m
  exact Triple.pure _ (fun s h => ⟨by rw [h.1], h.2⟩)

/-- go: sops.IssuerCertFromBundle over gcsca.CABundle -/
theorem caIssuer_spec (hca : cfg.ca = .gcsca) (b : Bool) (kk : Option (String × Nat)) :
    Tr sc ow (Ph cfg m0 r c0 path0 b kk) (caIssuer cfg)
      (fun c s => c = r ∧ Ph cfg m0 r c0 path0 b kk s) (Ph cfg m0 r c0 path0 b kk) := by
  unfold caIssuer; rw [hca]
  refine Tr.wrap (P' := Ph cfg m0 r c0 path0 b kk) .caBundle (fun s f h => Ph.stable b kk s _ f nd_caBundle h)
    (fun s h => Ph.stable b kk s _ _ nd_caBundle h) ?_ (fun a s h => h.2)
  show Triple sc _ (stReader cfg.rootPath >>= fun ro => _) _ _ _
  refine Triple.bind (Q1 := fun ro s => ro = some (.pem r) ∧ Ph cfg m0 r c0 path0 b kk s) ?_ ?_
  · exact (stReader_spec cfg.rootPath (Ph.stable b kk) (fun _ h => h)).post
      (fun a s h => ⟨by rw [h.2, h.1.inv.root], h.1⟩)
  intro ro
  refine Triple.of_fact ?_
  intro hr
  rw [hr]
  exact Triple.pure _ (fun s h => ⟨rfl, h⟩)

/-- go: gcsca.Certificate, as used where its error is swallowed: whatever it returns, the phase
    predicate still holds. -/
theorem caCert_weak (hca : cfg.ca = .gcsca) (kvn : String) (kk : Option (String × Nat)) :
    Triple sc (Ph cfg m0 r c0 path0 true kk) (caCert cfg kvn)
      (fun _ s => Ph cfg m0 r c0 path0 true kk s) (Ph cfg m0 r c0 path0 true kk)
      (fun s => Ph cfg m0 r c0 path0 true kk s ∧ ¬ NoFault sc) := by
  unfold caCert; rw [hca]
  have hweak : ∀ {α : Type} {m : Run α} {Q : α → St → Prop},
      Tr sc false (Ph cfg m0 r c0 path0 true kk) m Q (Ph cfg m0 r c0 path0 true kk) →
      Triple sc (Ph cfg m0 r c0 path0 true kk) m Q (Ph cfg m0 r c0 path0 true kk)
        (fun s => Ph cfg m0 r c0 path0 true kk s ∧ ¬ NoFault sc) :=
    fun h => h.conseq (fun _ h => h) (fun _ _ h => h) (fun _ h => h.1) (fun _ h => h)
  refine Triple.wrap (P' := Ph cfg m0 r c0 path0 true kk) (.caCert kvn)
    (fun s f h => Ph.stable true kk s _ f (nd_caCert kvn) h)
    (fun s h _ => Ph.stable true kk s _ _ (nd_caCert kvn) h) ?_ (fun a s hf h => ⟨h, hf⟩) (fun s hf h => ⟨h, hf⟩)
  show Triple sc _ (getManifest >>= fun m => _) _ _ _
  refine Triple.bind (hweak (getManifest_spec (ow := false) true kk)) ?_
  intro m
  refine Triple.pre (P := Ph cfg m0 r c0 path0 true kk) ?_ (fun s h => h.2)
  cases lookup m.entries kvn with
  | none => exact Triple.throw (fun _ h => h)
  | some path =>
    show Triple sc _ (stReader path >>= fun ro => _) _ _ _
    refine Triple.bind (hweak (stReader_spec (ow := false) path (Ph.stable true kk) (fun _ h => h))) ?_
    intro ro
    refine Triple.pre (P := Ph cfg m0 r c0 path0 true kk) ?_ (fun s h => h.1)
    cases ro with
    | none => exact Triple.throw (fun _ h => h)
    | some o =>
      cases o with
      | der c => exact Triple.pure _ (fun _ h => h)
      | pem c => exact Triple.throw (fun _ h => h)
      | manifest mm => exact Triple.throw (fun _ h => h)

/-- go: memkm/localkm CreateNewSigningKeyVersion -/
theorem kmCreate_spec (hca : cfg.ca = .gcsca) (hb : BumpOK cfg) :
    Tr sc ow (Ph cfg m0 r c0 path0 false none) (kmCreate cfg)
      (fun kv s => kv = cfg.bump m0.signing ∧ ∃ mat, Ph cfg m0 r c0 path0 true (some (cfg.bump m0.signing, mat)) s)
      (Ph cfg m0 r c0 path0 false none) := by
  unfold kmCreate
  refine Tr.wrap (P' := Ph cfg m0 r c0 path0 false none) .kmCreate
    (fun s f h => Ph.stable false none s _ f nd_kmCreate h)
    (fun s h => Ph.stable false none s _ _ nd_kmCreate h) ?_ (fun a s h => by
      obtain ⟨_, mat, hm⟩ := h; exact hm.weaken)
  refine Triple.bind (caPsk_spec hca false none) ?_
  intro p
  refine Triple.of_fact ?_
  intro hp
  rw [hp]
  refine Tr.weaken (X := Ph cfg m0 r c0 path0 true none) ?_ (fun _ h => h) (fun _ _ h => h) (fun _ h => h.weaken)
  unfold genKey
  refine Triple.bind (Triple.modSt (Q := fun _ s => ∃ mat, Ph cfg m0 r c0 path0 true (some (cfg.bump m0.signing, mat)) s) _ ?_) ?_
  · intro s h
    refine ⟨s.nextMat, ?_, h.cache, h.nd, ?_⟩
    · have h1 : cfg.bump m0.signing ≠ m0.signing := hb.1 _
      have h2 : cfg.bump m0.signing ≠ m0.root := h.inv.broot _
      exact ⟨h.inv.man, h.inv.root, h.inv.entry, h.inv.prim, by simp [lookup, h1, h.inv.kprim], h.inv.chain,
        by simp [lookup, h2, h.inv.kroot], h.inv.sig_ne, h.inv.root_ne, h.inv.sr, h.inv.pm, h.inv.rm, h.inv.broot⟩
    · intro k mat e
      cases e
      simp [lookup]
  intro _
  exact Triple.pure _ (fun s h => ⟨rfl, h⟩)

/-- go: keyRequest.getCurrentInfo -/
theorem getCurrentInfo_spec (hca : cfg.ca = .gcsca) (kk : Option (String × Nat)) :
    Tr sc ow (Ph cfg m0 r c0 path0 true kk) (getCurrentInfo cfg)
      (fun x s => x = (m0.signing, m0.root, r) ∧ Ph cfg m0 r c0 path0 true kk s)
      (Ph cfg m0 r c0 path0 true kk) := by
  unfold getCurrentInfo
  refine Triple.bind (caPsk_spec hca true kk) ?_
  intro cur
  refine Triple.of_fact ?_
  intro h1
  refine Triple.bind (caPrk_spec hca true kk) ?_
  intro root
  refine Triple.of_fact ?_
  intro h2
  refine Triple.bind (caIssuer_spec hca true kk) ?_
  intro iss
  refine Triple.of_fact ?_
  intro h3
  exact Triple.pure _ (fun s h => ⟨by rw [h1, h2, h3], h⟩)

/-- go: memkm.signingKeyTemplateFrom (its calls) -/
theorem kmTemplate_spec (hca : cfg.ca = .gcsca) (kk : Option (String × Nat)) :
    Tr sc ow (Ph cfg m0 r c0 path0 true kk) (kmTemplate cfg)
      (fun _ s => Ph cfg m0 r c0 path0 true kk s) (Ph cfg m0 r c0 path0 true kk) := by
  unfold kmTemplate
  refine Triple.bind (caPsk_spec hca true kk) ?_
  intro p
  refine Triple.pre (P := Ph cfg m0 r c0 path0 true kk) ?_ (fun s h => h.2)
  refine Triple.bind (Q1 := fun _ s => Ph cfg m0 r c0 path0 true kk s) ?_ ?_
  · exact (Triple.attempt (caCert_weak hca p kk)).conseq (fun _ h => h)
      (fun a s h => by cases a <;> exact h) (fun _ h => h) (fun _ h => h)
  intro _
  exact Triple.pure _ (fun _ h => h)

theorem parentMatches_of_all {r : Cert} {pre : List Nat} (h : ∀ a ∈ pre, a = r.pub) :
    parentMatches (some r) pre = true := by
  unfold parentMatches
  cases hl : pre.getLast? with
  | none => rfl
  | some p =>
    have : p ∈ pre := List.mem_of_getLast? hl
    simp [h p this]

/-- go: sops.CreateCertificateFromTemplate with the root as issuer -/
theorem createCertificate_spec (req : Req) (subjPub : Nat) (kk : Option (String × Nat)) :
    Tr sc ow (Ph cfg m0 r c0 path0 true kk) (createCertificate cfg req subjPub m0.root (some r))
      (fun c s => c = ⟨req.cn, req.serial, subjPub, r.pub⟩ ∧ Ph cfg m0 r c0 path0 true kk s)
      (Ph cfg m0 r c0 path0 true kk) := by
  unfold createCertificate
  have hpub : Tr sc ow (Ph cfg m0 r c0 path0 true kk) (sgPub m0.root)
      (fun a s => a = r.pub ∧ Ph cfg m0 r c0 path0 true kk s) (Ph cfg m0 r c0 path0 true kk) :=
    (sgPub_spec m0.root (Ph.stable true kk) (fun _ h => h) (fun s h => ⟨_, h.inv.kroot⟩)).post
      (fun a s h => ⟨by have := h.1.inv.kroot; rw [h.2] at this; exact (Option.some.inj this), h.1⟩)
  refine Triple.bind (Triple.repeatRun hpub cfg.pubPre) ?_
  intro pre
  refine Triple.of_fact ?_
  intro hpre
  rw [parentMatches_of_all hpre]
  show Triple sc _ (sgSign m0.root >>= fun b => _) _ _ _
  refine Triple.bind (Q1 := fun a s => a = r.pub ∧ Ph cfg m0 r c0 path0 true kk s) ?_ ?_
  · exact (sgSign_spec m0.root (Ph.stable true kk) (fun _ h => h) (fun s h => ⟨_, h.inv.kroot⟩)).post
      (fun a s h => ⟨by have := h.1.inv.kroot; rw [h.2] at this; exact (Option.some.inj this), h.1⟩)
  intro b
  refine Triple.of_fact ?_
  intro hb
  refine Triple.bind (Triple.repeatRun hpub cfg.pubPost) ?_
  intro _
  exact Triple.pure _ (fun s h => ⟨by rw [hb], h.2⟩)

/-- go: rotate.signCert for the new key version -/
theorem signCert_spec (hca : cfg.ca = .gcsca) (req : Req) (k : String) (mat : Nat) :
    Tr sc ow (Ph cfg m0 r c0 path0 true (some (k, mat))) (signCert cfg req {} r k m0.root)
      (fun x s => x.2 = ⟨req.cn, req.serial, mat, r.pub⟩ ∧ x.1.certs = [(k, x.2)] ∧ x.1.primaryRoot = none ∧
        x.1.primarySigning = none ∧ x.1.rootCert = none ∧ Ph cfg m0 r c0 path0 true (some (k, mat)) s)
      (Ph cfg m0 r c0 path0 true (some (k, mat))) := by
  unfold signCert
  refine Triple.bind (Q1 := fun a s => a = mat ∧ Ph cfg m0 r c0 path0 true (some (k, mat)) s) ?_ ?_
  · exact (sgPub_spec k (Ph.stable true _) (fun _ h => h) (fun s h => ⟨_, h.key k mat rfl⟩)).post
      (fun a s h => ⟨by have := h.1.key k mat rfl; rw [h.2] at this; exact (Option.some.inj this), h.1⟩)
  intro sp
  refine Triple.of_fact ?_
  intro hsp
  rw [hsp]
  refine Triple.bind (kmTemplate_spec hca _) ?_
  intro _
  refine Triple.bind (createCertificate_spec req mat _) ?_
  intro c
  refine Triple.of_fact ?_
  intro hc
  unfold mutAddCert; rw [hca]
  show Triple sc _ ((pure _ : Run Mut) >>= fun mu' => pure (mu', c)) _ _ _
  refine Triple.bind (Triple.pure (Q := fun mu s => mu = ({ certs := [(k, c)] } : Mut) ∧ Ph cfg m0 r c0 path0 true (some (k, mat)) s) _ (fun s h => ⟨rfl, h⟩)) ?_
  intro mu
  refine Triple.of_fact ?_
  intro hmu
  exact Triple.pure _ (fun s h => ⟨hc, by rw [hmu], by rw [hmu], by rw [hmu], by rw [hmu], h⟩)

/-! ### Finalize and after -/

/-- inside Finalize: the durable state is still the initial one, possibly with the new certificate
    object `obj` already written; the cached manifest is `cm`. -/
structure PhF (cfg : Cfg) (m0 : Manifest) (r c0 : Cert) (path0 : String) (K : String) (mat : Nat)
    (cm : Manifest) (obj : Option (String × Cert)) (s : St) : Prop where
  inv : InvG cfg m0 r c0 path0 s
  cache : s.cache = some cm
  nd : NoDestroy s.log
  key : lookup s.keys K = some mat
  obj : ∀ t c, obj = some (t, c) → lookup s.store t = some (.der c)

/-- after the manifest write: the durable state is the new good one (witnesses `m3 r C T`), the old
    primary key is still live, nothing was destroyed, and (when the Close call was not the crash point)
    the commit call is in the log. -/
structure PhD (cfg : Cfg) (m0 : Manifest) (r c0 : Cert) (m3 : Manifest) (C : Cert) (T : String)
    (f : Fault) (s : St) : Prop where
  inv : InvG cfg m3 r C T s
  old : lookup s.keys m0.signing = some c0.pub
  nd : NoDestroy s.log
  com : f = .ok → commitCall cfg ∈ s.log

theorem PhF.stable {K : String} {mat : Nat} {cm : Manifest} {obj : Option (String × Cert)} :
    Stable (PhF cfg m0 r c0 path0 K mat cm obj) :=
  fun _ _ f hc h => ⟨h.inv.transfer rfl rfl, h.cache, h.nd.snoc hc f, h.key, h.obj⟩

theorem PhF.safe (hca : cfg.ca = .gcsca) {K : String} {mat : Nat} {cm : Manifest} {obj : Option (String × Cert)}
    {s : St} (h : PhF cfg m0 r c0 path0 K mat cm obj s) : Safe cfg s := by
  refine ⟨?_, DAC_of_noDestroy cfg h.nd⟩
  unfold Inv; rw [hca]
  exact ⟨m0, r, c0, path0, h.inv⟩

theorem PhD.safe (hca : cfg.ca = .gcsca) {m3 : Manifest} {C : Cert} {T : String} {f : Fault}
    {s : St} (h : PhD cfg m0 r c0 m3 C T f s) : Safe cfg s := by
  refine ⟨?_, DAC_of_noDestroy cfg h.nd⟩
  unfold Inv; rw [hca]
  exact ⟨m3, r, C, T, h.inv⟩

theorem Ph.safeN (hca : cfg.ca = .gcsca) {b : Bool} {kk : Option (String × Nat)} {s : St}
    (h : Ph cfg m0 r c0 path0 b kk s) : SafeN cfg s := by
  refine ⟨?_, h.nd⟩
  unfold Inv; rw [hca]
  exact ⟨m0, r, c0, path0, h.inv⟩

theorem PhF.safeN (hca : cfg.ca = .gcsca) {K : String} {mat : Nat} {cm : Manifest} {obj : Option (String × Cert)}
    {s : St} (h : PhF cfg m0 r c0 path0 K mat cm obj s) : SafeN cfg s := by
  refine ⟨?_, h.nd⟩
  unfold Inv; rw [hca]
  exact ⟨m0, r, c0, path0, h.inv⟩

theorem PhD.safeN (hca : cfg.ca = .gcsca) {m3 : Manifest} {C : Cert} {T : String} {f : Fault}
    {s : St} (h : PhD cfg m0 r c0 m3 C T f s) : SafeN cfg s := by
  refine ⟨?_, h.nd⟩
  unfold Inv; rw [hca]
  exact ⟨m3, r, C, T, h.inv⟩

theorem lookup_cons_ne {α : Type} (k q : String) (v : α) (l : List (String × α)) (h : k ≠ q) :
    lookup ((k, v) :: l) q = lookup l q := by
  simp [lookup, h]

theorem lookup_cons_self {α : Type} (k : String) (v : α) (l : List (String × α)) :
    lookup ((k, v) :: l) k = some v := by
  simp [lookup]

theorem withEntry_lookup (m : Manifest) (k : String) (d : String) :
    lookup (withEntry m k ((lookup m.entries k).getD d)).entries k = some ((lookup m.entries k).getD d) := by
  unfold withEntry
  cases h : lookup m.entries k with
  | none => simp [lookup_append_none _ _ _ h]
  | some x => simp [h]

theorem withEntry_signing (m : Manifest) (k n : String) : (withEntry m k n).signing = m.signing := by
  unfold withEntry; split <;> rfl

theorem withEntry_root (m : Manifest) (k n : String) : (withEntry m k n).root = m.root := by
  unfold withEntry; split <;> rfl

/-- the state of the durable manifest after a complete rotation -/
def rotatedManifest (cfg : Cfg) (req : Req) (m0 : Manifest) : Manifest :=
  withEntry { m0 with signing := cfg.bump m0.signing } (cfg.bump m0.signing) (target cfg req m0)

/-- go: gcsca.Finalize for the mutation a rotation builds -/
theorem gcsFinalize_spec (hca : cfg.ca = .gcsca) (hb1 : cfg.bump m0.signing ≠ m0.signing)
    (hb2 : cfg.bump m0.signing ≠ "") (req : Req) (mat : Nat) (mu : Mut)
    (hmr : mu.primaryRoot = none) (hms : mu.primarySigning = some (cfg.bump m0.signing)) (hmc : mu.rootCert = none)
    (ht1 : target cfg req m0 ≠ manifestName) (ht2 : target cfg req m0 ≠ cfg.rootPath) :
    Tr sc (cfg.overwrite && !claimed cfg req m0) (Ph cfg m0 r c0 path0 true (some (cfg.bump m0.signing, mat)))
      (gcsFinalize cfg mu [(cfg.bump m0.signing, ⟨req.cn, req.serial, mat, r.pub⟩)])
      (fun _ s => claimed cfg req m0 = false ∧
        PhD cfg m0 r c0 (rotatedManifest cfg req m0) ⟨req.cn, req.serial, mat, r.pub⟩ (target cfg req m0) .ok s)
      (SafeN cfg) := by
  refine Triple.have_fact (φ := lookup m0.entries m0.signing = some path0) (fun s h => h.inv.entry) ?_
  intro hm0e
  -- abbreviations
  have hclD : claimed cfg req m0 = heldByOther m0 (target cfg req m0) (cfg.bump m0.signing) := rfl
  generalize hK : cfg.bump m0.signing = K at *
  generalize hC : (⟨req.cn, req.serial, mat, r.pub⟩ : Cert) = C at *
  have hKs : K ≠ m0.signing := hb1
  have hcl : heldByOther { m0 with signing := K } (target cfg req m0) K = claimed cfg req m0 := hclD.symm
  have hm2 : applyPrimaries mu m0 = { m0 with signing := K } := by
    unfold applyPrimaries setRoot setSigning
    rw [hmr, hms]
    simp [Ne.symm hKs]
  have hT : uploadName cfg { m0 with signing := K } K C = target cfg req m0 := by
    unfold uploadName target
    rw [hK, ← hC]; rfl
  unfold gcsFinalize
  refine Triple.bind ((getManifest_spec true _).weaken (fun _ h => h) (fun _ _ h => h) (fun _ h => h.safeN hca)) ?_
  intro m
  refine Triple.of_fact ?_
  intro hm
  rw [hm, hm2]
  refine Triple.bind (Triple.modSt (Q := fun _ s => PhF cfg m0 r c0 path0 K mat { m0 with signing := K } none s) _ ?_) ?_
  · intro s h
    exact ⟨h.inv.transfer rfl rfl, rfl, h.nd, h.key K mat rfl, fun _ _ e => by cases e⟩
  intro _
  by_cases hcd : claimed cfg req m0 = true
  · -- the target object is recorded for another key version: upload refuses before any storage call
    refine Triple.bind (Q1 := fun _ _ => False) ?_ (fun _ => Triple.unreach (fun _ h => h))
    show Triple sc _ (upload cfg K C >>= fun _ => uploadAll cfg []) _ _ _
    refine Triple.bind (Q1 := fun _ _ => False) ?_ (fun _ => Triple.unreach (fun _ h => h))
    unfold upload
    refine Triple.getSt_bind ?_
    intro s0 h0
    rw [h0.cache]
    show Triple sc _ (if heldByOther { m0 with signing := K } (uploadName cfg { m0 with signing := K } K C) K = true then throw
      else _) _ _ _
    rw [hT, hcl, if_pos hcd]
    exact Triple.throw (fun s hs => by subst hs; exact ⟨h0.safeN hca, Or.inr (by simp [hcd])⟩)
  have hcf : claimed cfg req m0 = false := by simpa using hcd
  have ht3 : target cfg req m0 ≠ path0 := by
    intro e
    apply hcd
    have hh : heldByOther m0 path0 K = true := heldByOther_of_lookup (kvn := K) hm0e (Ne.symm hKs)
    rw [← hcl, e]; exact hh
  -- uploadAll [(K, C)]
  refine Triple.bind (Q1 := fun _ s => PhF cfg m0 r c0 path0 K mat (withEntry { m0 with signing := K } K (target cfg req m0)) (some (target cfg req m0, C)) s) ?_ ?_
  · show Triple sc _ (upload cfg K C >>= fun _ => uploadAll cfg []) _ _ _
    refine Triple.bind (Q1 := fun _ s => PhF cfg m0 r c0 path0 K mat (withEntry { m0 with signing := K } K (target cfg req m0)) (some (target cfg req m0, C)) s) ?_ (fun _ => Triple.pure _ (fun _ h => h))
    unfold upload
    refine Triple.getSt_bind ?_
    intro s0 h0
    rw [h0.cache]
    show Triple sc _ (if heldByOther { m0 with signing := K } (uploadName cfg { m0 with signing := K } K C) K = true then throw
      else (writeIfAllowed cfg (uploadName cfg { m0 with signing := K } K C) (.der C) >>= fun _ => _)) _ _ _
    rw [hT, hcl, if_neg hcd]
    refine Triple.pre (P := PhF cfg m0 r c0 path0 K mat { m0 with signing := K } none) ?_ (fun s hs => by subst hs; exact h0)
    refine Triple.bind (Q1 := fun _ s => PhF cfg m0 r c0 path0 K mat { m0 with signing := K } (some (target cfg req m0, C)) s) ?_ ?_
    · unfold writeIfAllowed
      refine Triple.bind ((stExists_spec (target cfg req m0) PhF.stable (fun _ h => h)).weaken (fun _ h => h) (fun _ _ h => h) (fun _ h => h.safeN hca)) ?_
      intro ex
      refine Triple.pre (P := PhF cfg m0 r c0 path0 K mat { m0 with signing := K } none) ?_ (fun s h => h.1)
      by_cases hex : (ex && !cfg.overwrite) = true
      · rw [if_pos hex]
        refine Triple.throw (fun s h => ⟨h.safeN hca, Or.inr ?_⟩)
        simp at hex; simp [hex.2]
      · rw [if_neg hex]
        refine Triple.bind (Q1 := fun _ s => PhF cfg m0 r c0 path0 K mat { m0 with signing := K } (some (target cfg req m0, C)) s) ?_ (fun _ => Triple.pure _ (fun _ h => h))
        refine writeFile_spec (Q' := fun _ s => PhF cfg m0 r c0 path0 K mat { m0 with signing := K } (some (target cfg req m0, C)) s)
          (target cfg req m0) (.der C) PhF.stable (fun _ h => h.safeN hca) ?_ (fun _ _ h => h.safeN hca)
        intro s f h
        refine ⟨⟨?_, ?_, h.inv.entry, ?_, h.inv.kprim, h.inv.chain, h.inv.kroot, h.inv.sig_ne, h.inv.root_ne, h.inv.sr,
          h.inv.pm, h.inv.rm, h.inv.broot⟩, h.cache, h.nd.snoc (nd_stC _) f, h.key, ?_⟩
        · show lookup ((target cfg req m0, _) :: s.store) manifestName = _
          rw [lookup_cons_ne _ _ _ _ ht1]; exact h.inv.man
        · show lookup ((target cfg req m0, _) :: s.store) cfg.rootPath = _
          rw [lookup_cons_ne _ _ _ _ ht2]; exact h.inv.root
        · show lookup ((target cfg req m0, _) :: s.store) path0 = _
          rw [lookup_cons_ne _ _ _ _ ht3]; exact h.inv.prim
        · intro t c e
          cases e
          exact lookup_cons_self _ _ _
    intro _
    refine Triple.modSt _ ?_
    intro s h
    refine ⟨h.inv.transfer rfl rfl, ?_, h.nd, h.key, h.obj⟩
    show some (withEntry (s.cache.getD Manifest.empty) K (uploadName cfg (s.cache.getD Manifest.empty) K C)) = _
    rw [h.cache]
    show some (withEntry { m0 with signing := K } K (uploadName cfg { m0 with signing := K } K C)) = _
    rw [hT]
  intro _
  rw [hmc]
  show Triple sc _ ((pure () : Run Unit) >>= fun _ => _) _ _ _
  refine Triple.bind (Triple.pure (Q := fun _ s => PhF cfg m0 r c0 path0 K mat (withEntry { m0 with signing := K } K (target cfg req m0)) (some (target cfg req m0, C)) s) () (fun _ h => h)) ?_
  intro _
  have hcond : (decide (({ m0 with signing := K } : Manifest) ≠ m0) || !([(K, C)] : List (String × Cert)).isEmpty) = true := by
    simp
  rw [if_pos hcond]
  unfold writeManifest
  refine Triple.getSt_bind ?_
  intro s0 h0
  rw [h0.cache]
  show Triple sc _ (writeFile manifestName (.manifest (withEntry { m0 with signing := K } K (target cfg req m0)))) _ _ _
  refine Triple.pre (P := PhF cfg m0 r c0 path0 K mat (withEntry { m0 with signing := K } K (target cfg req m0)) (some (target cfg req m0, C))) ?_ (fun s hs => by subst hs; exact h0)
  have hrm : rotatedManifest cfg req m0 = withEntry { m0 with signing := K } K (target cfg req m0) := by
    unfold rotatedManifest; rw [hK]
  rw [hrm]
  refine (writeFile_spec (Q' := fun f s => PhD cfg m0 r c0 (withEntry { m0 with signing := K } K (target cfg req m0)) C (target cfg req m0) f s)
    manifestName _ PhF.stable (fun _ h => h.safeN hca) ?_ (fun _ _ h => h.safeN hca)).post (fun _ _ h => ⟨hcf, h⟩)
  intro s f h
  have hobj := h.obj _ _ rfl
  refine ⟨⟨lookup_cons_self _ _ _, ?_, ?_, ?_, ?_, ?_, ?_, ?_, ?_, ?_, ht1, h.inv.rm, ?_⟩, h.inv.kprim, h.nd.snoc (nd_stC _) f, ?_⟩
  · show lookup ((manifestName, _) :: s.store) cfg.rootPath = _
    rw [lookup_cons_ne _ _ _ _ (Ne.symm h.inv.rm)]; exact h.inv.root
  · rw [withEntry_signing]
    have : target cfg req m0 = (lookup ({ m0 with signing := K } : Manifest).entries K).getD (objName cfg req) := by
      unfold target; rw [hK]
    rw [this]
    exact withEntry_lookup _ _ _
  · show lookup ((manifestName, _) :: s.store) (target cfg req m0) = _
    rw [lookup_cons_ne _ _ _ _ (Ne.symm ht1)]; exact hobj
  · rw [withEntry_signing, ← hC]; exact h.key
  · rw [← hC]
  · rw [withEntry_root]; exact h.inv.kroot
  · rw [withEntry_signing]; exact hb2
  · rw [withEntry_root]; exact h.inv.root_ne
  · rw [withEntry_signing, withEntry_root, ← hK]; exact h.inv.broot _
  · rw [withEntry_root]; exact h.inv.broot
  · intro hf
    subst hf
    show commitCall cfg ∈ s.log ++ [(Call.stC manifestName, Fault.ok)]
    unfold commitCall; rw [hca]; simp

/-- go: CertificateAuthority.Finalize as called by updatePrimaryAndDestroy -/
theorem caFinalize_spec (hca : cfg.ca = .gcsca) (hb1 : cfg.bump m0.signing ≠ m0.signing)
    (hb2 : cfg.bump m0.signing ≠ "") (req : Req) (mat : Nat) (mu : Mut)
    (hmr : mu.primaryRoot = none) (hms : mu.primarySigning = some (cfg.bump m0.signing)) (hmc : mu.rootCert = none)
    (ht1 : target cfg req m0 ≠ manifestName) (ht2 : target cfg req m0 ≠ cfg.rootPath) :
    Tr sc (cfg.overwrite && !claimed cfg req m0) (Ph cfg m0 r c0 path0 true (some (cfg.bump m0.signing, mat)))
      (caFinalize cfg mu [(cfg.bump m0.signing, ⟨req.cn, req.serial, mat, r.pub⟩)])
      (fun _ s => claimed cfg req m0 = false ∧
        PhD cfg m0 r c0 (rotatedManifest cfg req m0) ⟨req.cn, req.serial, mat, r.pub⟩ (target cfg req m0) .ok s)
      (SafeN cfg) := by
  unfold caFinalize; rw [hca]
  exact Tr.wrap (P' := Ph cfg m0 r c0 path0 true (some (cfg.bump m0.signing, mat))) .caFin
    (fun s f h => Ph.stable _ _ s _ f nd_caFin h)
    (fun s h => (Ph.stable _ _ s _ _ nd_caFin h).safeN hca)
    (gcsFinalize_spec hca hb1 hb2 req mat mu hmr hms hmc ht1 ht2) (fun _ s h => h.2.safeN hca)

theorem caFinalize_spec_safe (hca : cfg.ca = .gcsca) (hb1 : cfg.bump m0.signing ≠ m0.signing)
    (hb2 : cfg.bump m0.signing ≠ "") (req : Req) (mat : Nat) (mu : Mut)
    (hmr : mu.primaryRoot = none) (hms : mu.primarySigning = some (cfg.bump m0.signing)) (hmc : mu.rootCert = none)
    (ht1 : target cfg req m0 ≠ manifestName) (ht2 : target cfg req m0 ≠ cfg.rootPath) :
    Tr sc (cfg.overwrite && !claimed cfg req m0) (Ph cfg m0 r c0 path0 true (some (cfg.bump m0.signing, mat)))
      (caFinalize cfg mu [(cfg.bump m0.signing, ⟨req.cn, req.serial, mat, r.pub⟩)])
      (fun _ s => claimed cfg req m0 = false ∧
        PhD cfg m0 r c0 (rotatedManifest cfg req m0) ⟨req.cn, req.serial, mat, r.pub⟩ (target cfg req m0) .ok s)
      (Safe cfg) :=
  Tr.weaken (caFinalize_spec hca hb1 hb2 req mat mu hmr hms hmc ht1 ht2)
    (fun _ h => h) (fun _ _ h => h) (fun _ h => h.safe)

/-- go: DestroyKeyVersion of the old primary, after the commit -/
theorem kmDestroy_spec (hca : cfg.ca = .gcsca) {m3 : Manifest} {C : Cert} {T : String}
    (h1 : m3.signing ≠ m0.signing) (h2 : m3.root ≠ m0.signing) :
    Tr sc ow (PhD cfg m0 r c0 m3 C T .ok) (kmDestroy cfg m0.signing)
      (fun _ s => InvG cfg m3 r C T s ∧ DAC cfg s.log) (Safe cfg) := by
  unfold kmDestroy
  have hsafe : ∀ s, (InvG cfg m3 r C T s ∧ DAC cfg s.log) → Safe cfg s := by
    intro s h
    refine ⟨?_, h.2⟩
    unfold Inv; rw [hca]; exact ⟨m3, r, C, T, h.1⟩
  refine Tr.wrap (P' := fun s => InvG cfg m3 r C T s ∧ lookup s.keys m0.signing = some c0.pub ∧ DAC cfg s.log)
    (.kmDestroy m0.signing)
    (fun s f h => ⟨h.inv.transfer rfl rfl, h.old, DAC_snoc_destroy cfg h.nd (h.com rfl) _ f⟩)
    (fun s h => hsafe _ ⟨h.inv.transfer rfl rfl, DAC_snoc_destroy cfg h.nd (h.com rfl) _ _⟩)
    ?_ (fun _ s h => hsafe s h)
  refine Triple.getSt_bind ?_
  intro s0 h0
  rw [h0.2.1, if_neg (by simp)]
  refine Triple.modSt _ ?_
  intro s hs
  subst hs
  refine ⟨?_, h0.2.2⟩
  have hi := h0.1
  exact ⟨hi.man, hi.root, hi.entry, hi.prim,
    by show lookup (erase s.keys m0.signing) m3.signing = _
       rw [lookup_erase_ne _ _ _ h1]; exact hi.kprim,
    hi.chain,
    by show lookup (erase s.keys m0.signing) m3.root = _
       rw [lookup_erase_ne _ _ _ h2]; exact hi.kroot,
    hi.sig_ne, hi.root_ne, hi.sr, hi.pm, hi.rm, hi.broot⟩

theorem rotatedManifest_signing (req : Req) : (rotatedManifest cfg req m0).signing = cfg.bump m0.signing := by
  unfold rotatedManifest; rw [withEntry_signing]

theorem rotatedManifest_root (req : Req) : (rotatedManifest cfg req m0).root = m0.root := by
  unfold rotatedManifest; rw [withEntry_root]

/-- go: rotate.Key on the deferred authority, for one arbitrary fault script: a normal return means the
    durable state is the rotated one; an error or a crash leaves a durable state satisfying the
    invariant; every log satisfies destroy-after-commit; a crash needs a fault, an error needs a fault
    or overwrite = false. -/
theorem rotateKey_gcs (hca : cfg.ca = .gcsca) (hb : BumpOK cfg) (req : Req)
    (ht1 : target cfg req m0 ≠ manifestName) (ht2 : target cfg req m0 ≠ cfg.rootPath) :
    Tr sc (cfg.overwrite && !claimed cfg req m0) (Ph cfg m0 r c0 path0 false none) (rotateKey cfg req)
      (fun kv s => kv = cfg.bump m0.signing ∧ claimed cfg req m0 = false ∧ ∃ mat, InvG cfg (rotatedManifest cfg req m0) r
        ⟨req.cn, req.serial, mat, r.pub⟩ (target cfg req m0) s ∧ DAC cfg s.log)
      (Safe cfg) := by
  unfold rotateKey
  refine Triple.have_fact (φ := m0.signing ≠ m0.root ∧ m0.signing ≠ "") (fun s h => ⟨h.inv.sr, h.inv.sig_ne⟩) ?_
  intro hst
  refine Triple.bind ((kmCreate_spec hca hb).weaken (fun _ h => h) (fun _ _ h => h) (fun _ h => h.safe hca)) ?_
  intro kver
  refine Triple.of_fact ?_
  intro hk
  refine Triple.of_exists ?_
  intro mat
  refine Triple.bind ((getCurrentInfo_spec hca _).weaken (fun _ h => h) (fun _ _ h => h) (fun _ h => h.safe hca)) ?_
  intro x
  refine Triple.of_fact ?_
  intro hx
  rw [hx, hk]
  show Triple sc _ (if m0.root = "" ∨ cfg.bump m0.signing = "" then throw else _) _ _ _
  refine Triple.ite (fun hc => Triple.unreach (fun s h => ?_)) (fun _ => ?_)
  · rcases hc with hc | hc
    · exact h.inv.root_ne hc
    · exact hb.2 _ hc
  refine Triple.bind ((signCert_spec hca req _ mat).weaken (fun _ h => h) (fun _ _ h => h) (fun _ h => h.safe hca)) ?_
  intro y
  obtain ⟨mu, c⟩ := y
  refine Triple.of_fact ?_
  intro hc
  refine Triple.pre (P := fun s => (mu.certs = [(cfg.bump m0.signing, c)] ∧ mu.primaryRoot = none ∧ mu.primarySigning = none ∧ mu.rootCert = none) ∧ Ph cfg m0 r c0 path0 true (some (cfg.bump m0.signing, mat)) s) ?_
    (fun s h => ⟨⟨h.1, h.2.1, h.2.2.1, h.2.2.2.1⟩, h.2.2.2.2⟩)
  refine Triple.of_fact ?_
  intro hmu
  simp only at hc hmu
  show Triple sc _ (mutSetPrimary cfg mu (cfg.bump m0.signing) >>= fun mu2 => _) _ _ _
  unfold mutSetPrimary; rw [hca]
  show Triple sc _ ((pure { mu with primarySigning := some (cfg.bump m0.signing) } : Run Mut) >>= fun mu2 => _) _ _ _
  refine Triple.bind (Triple.pure (Q := fun mu2 s => mu2 = { mu with primarySigning := some (cfg.bump m0.signing) } ∧ Ph cfg m0 r c0 path0 true (some (cfg.bump m0.signing, mat)) s) _ (fun s h => ⟨rfl, h⟩)) ?_
  intro mu2
  refine Triple.of_fact ?_
  intro hmu2
  rw [hmu2]
  show Triple sc _ (caFinalize cfg _ mu.certs >>= fun _ => _) _ _ _
  rw [hmu.1, hc]
  refine Triple.bind (caFinalize_spec_safe hca (hb.1 _) (hb.2 _) req mat _ hmu.2.1 rfl hmu.2.2.2 ht1 ht2) ?_
  intro _
  refine Triple.of_fact ?_
  intro hcf
  refine Triple.bind (Q1 := fun _ s => InvG cfg (rotatedManifest cfg req m0) r ⟨req.cn, req.serial, mat, r.pub⟩ (target cfg req m0) s ∧ DAC cfg s.log) ?_ ?_
  · unfold destroyOld
    refine Triple.ite (fun _ => ?_) (fun hne => Triple.unreach (fun s h => ?_))
    · exact kmDestroy_spec hca (by rw [rotatedManifest_signing]; exact hb.1 _)
        (by rw [rotatedManifest_root]; exact Ne.symm hst.1)
    · exact hne hst.2
  intro _
  exact Triple.pure _ (fun s h => ⟨rfl, hcf, mat, h⟩)

end gcs

end GceTcb.CA

