import GceTcb.Model.EventLogRecv
import GceTcb.Proofs.EventLog
import GceTcb.Proofs.Codecs
import GceTcb.Spec.AbiLayouts
/-
C18 — helper lemmas for Props/C18Recv.lean: for the code of the tree (`Variant.tree`) a decode into ANY receiver
reports exactly what the functional decoder of Model/EventLog.lean reports (`toRes … = read…`).
-/
set_option linter.unusedSimpArgs false
namespace GceTcb.EventLog
open GceTcb GceTcb.Codec GceTcb.Codecs

namespace RRes
variable {α β : Type}

@[simp] theorem toRes_ok (a : α) (r : Bytes) : (RRes.ok a r).toRes = .ok a r := rfl
@[simp] theorem toRes_eof (a : α) : (RRes.eof a).toRes = .eof := rfl
@[simp] theorem toRes_fail (a : α) : (RRes.fail a).toRes = .fail := rfl

@[simp] theorem toRes_ofRes (recv : α) (r : Res α) : (ofRes recv r).toRes = r := by cases r <;> rfl

theorem toRes_thenStore (r : RRes β) (recv : α) (set : α → β → α) (k : α → Bytes → RRes α) :
    (r.thenStore recv set k).toRes = r.toRes.andThen fun x rest => (k (set recv x) rest).toRes := by
  cases r <;> rfl

theorem toRes_ok_iff {r : RRes α} {v : α} {rest : Bytes} : r.toRes = .ok v rest ↔ r = .ok v rest := by
  cases r <;> simp [toRes]

theorem isOk_toRes (r : RRes α) : r.toRes.isOk = r.isOk := by cases r <;> rfl

/-- a failed `ofRes` decode leaves the receiver -/
theorem ofRes_recv_of_not_ok (recv : α) (r : Res α) (h : (ofRes recv r).isOk = false) : (ofRes recv r).recv = recv := by
  cases r <;> simp_all [ofRes, RRes.recv, isOk]

end RRes

theorem readLE_long {n : Nat} {b : Bytes} (h : n ≤ b.length) : readLE n b = .ok (leVal (b.take n)) (b.drop n) := by
  simp [readLE, readFull, h, Res.map]

theorem readLE_short' {n : Nat} {b : Bytes} (h : ¬ n ≤ b.length) : readLE n b = .eof ∨ readLE n b = .fail := by
  simp only [readLE, readFull, h, if_false]
  by_cases he : b.isEmpty = true
  · left; simp [he, Res.map]
  · right; simp [he, Res.map]

@[simp] theorem toRes_readLEInto (n recv : Nat) (b : Bytes) : (readLEInto n recv b).toRes = readLE n b :=
  RRes.toRes_ofRes _ _

@[simp] theorem toRes_readGuidInto (recv b : Bytes) : (readGuidInto recv b).toRes = readGuid b :=
  RRes.toRes_ofRes _ _

/-! ## size-prefixed arrays -/

/-- the code of the tree: every success path of readSizedArray stores -/
@[simp] theorem toRes_readSizedArrayInto (k : RKind) (w : Nat) (recv b : Bytes) :
    (readSizedArrayInto .tree k w recv b).toRes = readSizedArray ⟨true, k⟩ w b := by
  simp only [readSizedArrayInto, readSizedArray, Variant.tree, treeCfg, Bool.false_and, Bool.false_eq_true, if_false]
  cases readLE w b with
  | eof => rfl
  | fail => rfl
  | ok size rest =>
    simp only [Res.andThen]
    cases readBody ⟨true, k⟩ true size rest <;> rfl

@[simp] theorem toRes_readU32ArrayInto (k : RKind) (recv b : Bytes) :
    (readU32ArrayInto .tree k recv b).toRes = readU32Array ⟨true, k⟩ b := toRes_readSizedArrayInto k 4 recv b

@[simp] theorem toRes_readCStrInto (k : RKind) (recv b : Bytes) :
    (readCStrInto .tree k recv b).toRes = readCStr ⟨true, k⟩ b := by
  have h := toRes_readSizedArrayInto k 1 [] b
  simp only [readCStrInto, readCStr]
  rw [← h]
  cases readSizedArrayInto .tree k 1 [] b with
  | eof _ => rfl
  | fail _ => rfl
  | ok data rest =>
    by_cases hc : (data.isEmpty || data.getLast? != some 0) = true
    · simp only [RRes.toRes_ok, Res.andThen, hc, if_true, RRes.toRes_fail]
    · simp only [RRes.toRes_ok, Res.andThen, hc, RRes.toRes_ok]; rfl

/-- a failed decode of a size-prefixed array / string / GUID leaves the receiver exactly as it was (any variant) -/
theorem readSizedArrayInto_failed (v : Variant) (k : RKind) (w : Nat) (recv b : Bytes)
    (h : (readSizedArrayInto v k w recv b).isOk = false) : (readSizedArrayInto v k w recv b).recv = recv := by
  revert h
  simp only [readSizedArrayInto]
  cases readLE w b with
  | eof => intro _; rfl
  | fail => intro _; rfl
  | ok size rest =>
    simp only
    split
    · intro h; cases h
    · cases readBody (treeCfg k) true size rest with
      | eof => intro _; rfl
      | fail => intro _; rfl
      | ok _ _ => intro h; cases h

theorem readCStrInto_failed (v : Variant) (k : RKind) (recv b : Bytes)
    (h : (readCStrInto v k recv b).isOk = false) : (readCStrInto v k recv b).recv = recv := by
  revert h
  simp only [readCStrInto]
  cases readSizedArrayInto v k 1 [] b with
  | eof _ => intro _; rfl
  | fail _ => intro _; rfl
  | ok data rest =>
    simp only
    split
    · intro _; rfl
    · intro h; cases h

/-! ## digests -/

@[simp] theorem toRes_readDigestInto (recv : Digest) (b : Bytes) : (readDigestInto recv b).toRes = readDigest b := by
  simp only [readDigestInto, readDigest]
  cases readLE 2 b with
  | eof => rfl
  | fail => rfl
  | ok alg rest =>
    simp only [Res.andThen]
    cases tpmAlgoSize alg with
    | none => rfl
    | some sz =>
      simp only [readFull]
      by_cases h : sz ≤ rest.length
      · simp only [h, if_true]; rfl
      · simp only [h, if_false]
        by_cases he : rest.isEmpty = true
        · simp only [he, if_true]; rfl
        · simp only [he]; rfl

theorem Res.map_map {α β γ : Type} (r : Res α) (f : α → β) (g : β → γ) : (r.map f).map g = r.map (g ∘ f) := by
  cases r <;> rfl

theorem toRes_readDigestsInto (n : Nat) (acc : List Digest) (b : Bytes) :
    (readDigestsInto n acc b).toRes = (readDigests n b).map (acc ++ ·) := by
  induction n generalizing acc b with
  | zero => simp [readDigestsInto, readDigests, RRes.toRes, Res.map]
  | succ n ih =>
    have h := toRes_readDigestInto Digest.zero b
    simp only [readDigestsInto, readDigests]
    rw [← h]
    cases readDigestInto Digest.zero b with
    | eof _ => rfl
    | fail _ => rfl
    | ok d rest =>
      simp only [RRes.toRes_ok, Res.noEof, Res.andThen]
      rw [ih, Res.map_map]
      congr 1
      funext x
      simp

/-- a failed element loop leaves the elements that decoded before the failing one -/
theorem readDigestsInto_failed (n : Nat) (acc : List Digest) (b : Bytes) (h : (readDigestsInto n acc b).isOk = false) :
    ∃ m ds rest, m < n ∧ readDigests m b = .ok ds rest ∧ (readDigestsInto n acc b).recv = acc ++ ds := by
  induction n generalizing acc b with
  | zero => simp [readDigestsInto, RRes.isOk] at h
  | succ n ih =>
    have hd := toRes_readDigestInto Digest.zero b
    simp only [readDigestsInto] at h ⊢
    cases hq : readDigestInto Digest.zero b with
    | eof _ => exact ⟨0, [], b, by omega, rfl, by simp [RRes.recv]⟩
    | fail _ => exact ⟨0, [], b, by omega, rfl, by simp [RRes.recv]⟩
    | ok d rest =>
      rw [hq] at h hd
      simp only at h
      obtain ⟨m, ds, rest', hm, hr, he⟩ := ih (acc ++ [d]) rest h
      refine ⟨m + 1, d :: ds, rest', by omega, ?_, ?_⟩
      · simp only [readDigests, ← hd, RRes.toRes_ok, Res.noEof, Res.andThen, hr, Res.map]
      · simp only [he, List.append_assoc, List.singleton_append]

@[simp] theorem toRes_readDigestArrayInto (recv : List Digest) (b : Bytes) :
    (readDigestArrayInto .tree recv b).toRes = readDigestArray b := by
  simp only [readDigestArrayInto, readDigestArray, Variant.tree, Bool.false_eq_true, if_false]
  cases readLE 4 b with
  | eof => rfl
  | fail => rfl
  | ok n rest =>
    simp only [Res.noEof, Res.andThen, toRes_readDigestsInto]
    by_cases hn : n = 0
    · subst hn; simp [readDigests, Res.map]
    · simp only [hn, if_false]
      cases readDigests n rest <;> simp [Res.map]

/-! ## SP800-155 Event3 -/

@[simp] theorem toRes_readEvent3FieldsInto (k : RKind) (e : Event3) (b : Bytes) :
    (readEvent3FieldsInto .tree k e b).toRes = readEvent3Fields ⟨true, k⟩ b := by
  simp only [readEvent3FieldsInto, readEvent3Fields, RRes.toRes_thenStore, toRes_readLEInto, toRes_readGuidInto,
    toRes_readCStrInto, toRes_readU32ArrayInto, RRes.toRes_ok]

@[simp] theorem toRes_unmarshalEvent3Into (e : Event3) (data : Bytes) :
    (unmarshalEvent3Into .tree e data).toRes = unmarshalEvent3 true data := by
  have h := toRes_readEvent3FieldsInto .buffer e data
  simp only [unmarshalEvent3Into, unmarshalEvent3]
  rw [← h]
  cases readEvent3FieldsInto .tree .buffer e data with
  | eof _ => rfl
  | fail _ => rfl
  | ok e' rest =>
    by_cases hz : allZero rest = true
    · simp only [RRes.toRes_ok, Res.andThen, hz, if_true]
    · simp only [RRes.toRes_ok, Res.andThen, hz, RRes.toRes_fail]; rfl

/-! ## event data, events, the log -/

@[simp] theorem toRes_readEventDataInto (k : RKind) (recv : EventData) (b : Bytes) :
    (readEventDataInto .tree k recv b).toRes = readEventData ⟨true, k⟩ b := by
  simp only [readEventDataInto, readEventData, treeCfg]
  cases readLE 4 b with
  | eof => rfl
  | fail => rfl
  | ok size rest =>
    simp only [Res.andThen]
    cases readBody ⟨true, k⟩ false size rest with
    | eof => rfl
    | fail => rfl
    | ok chunk rest' =>
      simp only
      split
      · have ht : event3Target .tree recv = Event3.zero := by
          cases recv <;> rfl
        rw [ht]
        have h := toRes_unmarshalEvent3Into Event3.zero (chunk.drop 16)
        rw [← h]
        cases unmarshalEvent3Into .tree Event3.zero (chunk.drop 16) <;> rfl
      · rfl

theorem toRes_readSha1Into (recv b : Bytes) : (readSha1Into recv b).toRes = readFull 20 b := by
  simp only [readSha1Into, readFull]
  by_cases h : 20 ≤ b.length
  · simp only [h, if_true]; rfl
  · simp only [h, if_false]
    by_cases he : b.isEmpty = true
    · simp only [he, if_true]; rfl
    · simp only [he]; rfl

@[simp] theorem toRes_readPcrEventInto (k : RKind) (e : PcrEvent) (b : Bytes) :
    (readPcrEventInto .tree k e b).toRes = readPcrEvent ⟨true, k⟩ b := by
  simp only [readPcrEventInto, readPcrEvent, RRes.toRes_thenStore, toRes_readLEInto, toRes_readSha1Into,
    toRes_readEventDataInto, RRes.toRes_ok]

@[simp] theorem toRes_readEvent2Into (k : RKind) (e : Event2) (b : Bytes) :
    (readEvent2Into .tree k e b).toRes = readEvent2 ⟨true, k⟩ b := by
  simp only [readEvent2Into, readEvent2, RRes.toRes_thenStore, toRes_readLEInto, toRes_readDigestArrayInto,
    toRes_readEventDataInto, RRes.toRes_ok]

theorem toRes_readEventsInto (k : RKind) (fuel : Nat) (acc : List Event2) (b : Bytes) :
    (readEventsInto .tree k fuel acc b).toRes = (readEvents ⟨true, k⟩ fuel b).map (acc ++ ·) := by
  induction fuel generalizing acc b with
  | zero => rfl
  | succ fuel ih =>
    have h := toRes_readEvent2Into k Event2.zero b
    simp only [readEventsInto, readEvents]
    rw [← h]
    cases readEvent2Into .tree k Event2.zero b with
    | eof _ =>
      simp only [RRes.toRes_eof, if_true]
      split <;> simp [Res.map]
    | fail _ => rfl
    | ok e rest =>
      simp only [RRes.toRes_ok]
      rw [ih, Res.map_map]
      congr 1
      funext x
      simp

@[simp] theorem toRes_readLogInto (k : RKind) (l : Log) (b : Bytes) :
    (readLogInto .tree k l b).toRes = readLog ⟨true, k⟩ b := by
  have h := toRes_readPcrEventInto k l.header b
  simp only [readLogInto, readLog]
  rw [← h]
  cases readPcrEventInto .tree k l.header b with
  | eof _ => rfl
  | fail _ => rfl
  | ok hd rest =>
    simp only [RRes.toRes_ok, Res.andThen, Variant.tree, Bool.false_eq_true, if_false]
    have h2 := toRes_readEventsInto k (rest.length + 1) [] rest
    simp only [Variant.tree] at h2
    cases hr : readEventsInto ⟨false, false, false, false⟩ k (rest.length + 1) [] rest with
    | ok es r =>
      rw [hr] at h2; simp only [RRes.toRes_ok, RRes.toRes_eof, RRes.toRes_fail] at h2
      cases hq : readEvents ⟨true, k⟩ (rest.length + 1) rest with
      | ok es' r' => rw [hq] at h2; simp only [Res.map, List.nil_append] at h2; injection h2 with a b; subst a; subst b; rfl
      | eof => rw [hq] at h2; cases h2
      | fail => rw [hq] at h2; cases h2
    | eof es =>
      rw [hr] at h2; simp only [RRes.toRes_ok, RRes.toRes_eof, RRes.toRes_fail] at h2
      cases hq : readEvents ⟨true, k⟩ (rest.length + 1) rest with
      | ok es' r' => rw [hq] at h2; cases h2
      | eof => rfl
      | fail => rw [hq] at h2; cases h2
    | fail es =>
      rw [hr] at h2; simp only [RRes.toRes_ok, RRes.toRes_eof, RRes.toRes_fail] at h2
      cases hq : readEvents ⟨true, k⟩ (rest.length + 1) rest with
      | ok es' r' => rw [hq] at h2; cases h2
      | eof => rw [hq] at h2; cases h2
      | fail => rfl

end GceTcb.EventLog

/-! ## the Put encoders store by store -/
namespace GceTcb.Codecs
open GceTcb GceTcb.Codec

theorem storeAt_eq (buf : Bytes) (off : Nat) (bs : Bytes) (h : off + bs.length ≤ buf.length) :
    (storeAt buf off bs).length = buf.length ∧ (storeAt buf off bs).take (off + bs.length) = buf.take off ++ bs ∧
    ∀ n, off + bs.length ≤ n → (storeAt buf off bs).drop n = buf.drop n := by
  have hl : (buf.take off ++ bs).length = off + bs.length := by simp; omega
  refine ⟨?_, ?_, ?_⟩
  · simp [storeAt]; omega
  · unfold storeAt
    rw [← hl, List.take_left']
    rfl
  · intro n hn
    unfold storeAt
    rw [List.drop_append, List.drop_eq_nil_of_le (by omega), List.nil_append, List.drop_drop, hl]
    congr 1; omega

theorem putStores_contiguous (sts : List (Nat × Bytes)) (s : Nat) (buf : Bytes)
    (hc : storesContiguousFrom s sts = true) (hl : s + (storesImage sts).length ≤ buf.length) :
    putStores sts buf = buf.take s ++ storesImage sts ++ buf.drop (s + (storesImage sts).length) := by
  induction sts generalizing s buf with
  | nil => simp [putStores, storesImage]
  | cons st rest ih =>
    obtain ⟨off, bs⟩ := st
    simp only [storesContiguousFrom, Bool.and_eq_true, beq_iff_eq] at hc
    obtain ⟨rfl, hc⟩ := hc
    simp only [storesImage, List.length_append] at hl ⊢
    obtain ⟨h1, h2, h3⟩ := storeAt_eq buf off bs (by omega)
    simp only [putStores]
    rw [ih (off + bs.length) _ hc (by omega), h2, h3 _ (by omega)]
    simp [List.append_assoc, Nat.add_assoc]

open GceTcb.Spec in
theorem layoutStores_contiguous (l : List (Nat × Nat × String)) (imgs : List Bytes) (s : Nat)
    (hc : AbiLayouts.contiguousFrom s l = true) (hf : ImagesFit l imgs) :
    storesContiguousFrom s (layoutStores l imgs) = true ∧
    (storesImage (layoutStores l imgs)).length = AbiLayouts.total l ∧
    storesImage (layoutStores l imgs) = imgs.flatten := by
  induction l generalizing imgs s with
  | nil =>
    cases imgs with
    | nil => simp [layoutStores, storesContiguousFrom, storesImage, AbiLayouts.total, AbiLayouts.widths]
    | cons _ _ => cases hf
  | cons e l ih =>
    obtain ⟨off, w, nm⟩ := e
    cases imgs with
    | nil => cases hf
    | cons img imgs =>
      obtain ⟨hw, hf⟩ := hf
      simp only [AbiLayouts.contiguousFrom, Bool.and_eq_true, beq_iff_eq] at hc
      obtain ⟨rfl, hc⟩ := hc
      obtain ⟨h1, h2, h3⟩ := ih imgs (off + w) hc hf
      refine ⟨?_, ?_, ?_⟩
      · simp only [layoutStores, storesContiguousFrom, beq_self_eq_true, Bool.true_and, hw, h1]
      · simp only [layoutStores, storesImage, List.length_append, h2, hw, AbiLayouts.total, AbiLayouts.widths,
          List.map_cons, List.sum_cons]
      · simp only [layoutStores, storesImage, h3, List.flatten_cons]

open GceTcb.Spec in
/-- a `Put` performed store by store over a layout without holes writes exactly the images, whatever the buffer held,
    and leaves the bytes beyond the layout's total -/
theorem putStores_layout (l : List (Nat × Nat × String)) (imgs : List Bytes) (buf : Bytes)
    (hc : AbiLayouts.contiguous l = true) (hf : ImagesFit l imgs) (hl : AbiLayouts.total l ≤ buf.length) :
    putStores (layoutStores l imgs) buf = imgs.flatten ++ buf.drop (AbiLayouts.total l) := by
  obtain ⟨h1, h2, h3⟩ := layoutStores_contiguous l imgs 0 hc hf
  have := putStores_contiguous (layoutStores l imgs) 0 buf h1 (by omega)
  rw [this, h2, h3]; simp

theorem fieldImages_flatten (ws vs : List Nat) : (fieldImages ws vs).flatten = encF ws vs := by
  induction ws generalizing vs with
  | nil => simp [fieldImages, encF]
  | cons w ws ih =>
    cases vs with
    | nil => simp [fieldImages, encF, ih]
    | cons v vs => simp [fieldImages, encF, ih]

open GceTcb.Spec in
theorem fieldImages_fit (l : List (Nat × Nat × String)) (vs : List Nat) :
    ImagesFit l (fieldImages (AbiLayouts.widths l) vs) := by
  induction l generalizing vs with
  | nil => simp [AbiLayouts.widths, fieldImages, ImagesFit]
  | cons e l ih =>
    obtain ⟨off, w, nm⟩ := e
    cases vs with
    | nil => exact ⟨leBytes_length _ _, ih []⟩
    | cons v vs => exact ⟨leBytes_length _ _, ih vs⟩

end GceTcb.Codecs
