import GceTcb.Proofs.Kms
/-
CRC32C detects every single-bit error — proved for the executable `crc32c` of Model/Kms.lean (the function the
driver compares with Go's hash/crc32 on every run).  Idea: one bit step `crcStep` of the reflected
shift-register is injective (the polynomial 0x82F63B78 has bit 31 set, so bit 31 of the result tells which
branch was taken and the rest gives the shifted-out state back); hence a byte step is injective in the
register for a fixed byte and in the byte for a fixed register; a flipped bit changes one byte, so the
registers differ after that byte and stay different through the remaining bytes.  Core only.
-/
namespace GceTcb.Kms
open GceTcb

private def P : Nat := 0x82F63B78
private def stepN (c : Nat) : Nat := if c % 2 = 1 then (c / 2) ^^^ P else c / 2

private theorem crcStep_toNat (c : UInt32) : (crcStep c).toNat = stepN c.toNat := by
  unfold crcStep stepN
  have h1 : (c &&& 1 = 1) ↔ (c.toNat % 2 = 1) := by
    rw [← UInt32.toNat_inj]
    simp [UInt32.toNat_and, Nat.and_one_is_mod]
  by_cases h : c.toNat % 2 = 1
  · rw [if_pos (h1.mpr h), if_pos h]
    simp [UInt32.toNat_xor, UInt32.toNat_shiftRight, Nat.shiftRight_eq_div_pow, P]
  · rw [if_neg (fun x => h (h1.mp x)), if_neg h]
    simp [UInt32.toNat_shiftRight, Nat.shiftRight_eq_div_pow]

private theorem stepN_testBit31 (c : Nat) (hc : c < 2^32) : (stepN c).testBit 31 = decide (c % 2 = 1) := by
  unfold stepN
  have hlt : c / 2 < 2^31 := by omega
  have h0 : (c/2).testBit 31 = false := Nat.testBit_lt_two_pow hlt
  by_cases h : c % 2 = 1
  · simp [h, Nat.testBit_xor, h0, P]
    decide
  · simp [h, h0]

private theorem stepN_inj (a b : Nat) (ha : a < 2^32) (hb : b < 2^32) (h : stepN a = stepN b) : a = b := by
  have h31 : decide (a % 2 = 1) = decide (b % 2 = 1) := by
    rw [← stepN_testBit31 a ha, ← stepN_testBit31 b hb, h]
  unfold stepN at h
  by_cases h1 : a % 2 = 1
  · have h2 : b % 2 = 1 := by simpa [h1] using h31
    rw [if_pos h1, if_pos h2] at h
    have hx : a / 2 = b / 2 := by
      have := congrArg (· ^^^ P) h
      simpa [Nat.xor_assoc] using this
    omega
  · have h2 : ¬ b % 2 = 1 := by simpa [h1] using h31
    rw [if_neg h1, if_neg h2] at h
    omega

private theorem crcStep_inj {a b : UInt32} (h : crcStep a = crcStep b) : a = b := by
  apply UInt32.toNat_inj.mp
  apply stepN_inj _ _ a.toNat_lt b.toNat_lt
  rw [← crcStep_toNat, ← crcStep_toNat, h]

private theorem u32_xor_right_cancel {a b c : UInt32} (h : a ^^^ c = b ^^^ c) : a = b := by
  apply UInt32.toNat_inj.mp
  have := congrArg UInt32.toNat h
  simp only [UInt32.toNat_xor] at this
  have := congrArg (· ^^^ c.toNat) this
  simpa [Nat.xor_assoc] using this

private theorem u32_xor_left_cancel {a b c : UInt32} (h : c ^^^ a = c ^^^ b) : a = b := by
  apply UInt32.toNat_inj.mp
  have := congrArg UInt32.toNat h
  simp only [UInt32.toNat_xor] at this
  have := congrArg (c.toNat ^^^ ·) this
  simpa [← Nat.xor_assoc] using this

private theorem crcByte_inj_state {c d : UInt32} {b : UInt8} (h : crcByte c b = crcByte d b) : c = d := by
  unfold crcByte at h
  exact u32_xor_right_cancel (crcStep_inj (crcStep_inj (crcStep_inj (crcStep_inj (crcStep_inj (crcStep_inj (crcStep_inj (crcStep_inj h))))))))

private theorem crcByte_inj_byte {c : UInt32} {a b : UInt8} (h : crcByte c a = crcByte c b) : a = b := by
  unfold crcByte at h
  have := u32_xor_left_cancel (crcStep_inj (crcStep_inj (crcStep_inj (crcStep_inj (crcStep_inj (crcStep_inj (crcStep_inj (crcStep_inj h))))))))
  have h2 := congrArg UInt32.toNat this
  simp only [UInt8.toNat_toUInt32] at h2
  exact UInt8.toNat_inj.mp h2

private theorem fold_inj_state (bs : Bytes) : ∀ (s t : UInt32), s ≠ t → bs.foldl crcByte s ≠ bs.foldl crcByte t := by
  induction bs with
  | nil => intro s t h; simpa using h
  | cons b bs ih =>
    intro s t h
    simp only [List.foldl_cons]
    exact ih _ _ (fun e => h (crcByte_inj_state e))

private theorem flip_ne (b : UInt8) (i : Nat) (hi : i < 8) : b ^^^ (1 <<< i.toUInt8) ≠ b := by
  intro h
  have h1 := congrArg UInt8.toNat h
  simp only [UInt8.toNat_xor] at h1
  have h2 : (1 <<< i.toUInt8 : UInt8).toNat = 0 := by
    have := congrArg (b.toNat ^^^ ·) h1
    simpa [← Nat.xor_assoc] using this
  have : ∀ j : Fin 8, (1 <<< j.val.toUInt8 : UInt8).toNat ≠ 0 := by decide
  exact this ⟨i, hi⟩ h2

private theorem fold_flip_ne (bs : Bytes) : ∀ (s : UInt32) (i : Nat), i < 8 * bs.length →
    (flipBit bs i).foldl crcByte s ≠ bs.foldl crcByte s := by
  induction bs with
  | nil => intro s i h; simp at h
  | cons b bs ih =>
    intro s i h
    unfold flipBit
    by_cases hi : i < 8
    · rw [if_pos hi]
      simp only [List.foldl_cons]
      exact fold_inj_state bs _ _ (fun e => flip_ne b i hi (crcByte_inj_byte e))
    · rw [if_neg hi]
      simp only [List.foldl_cons]
      exact ih _ _ (by simp only [List.length_cons] at h; omega)

theorem crc32c_single_bit : CrcSingleBit crc32c := by
  intro bs i hi h
  unfold crc32c at h
  exact fold_flip_ne bs _ i hi (u32_xor_right_cancel (UInt32.toNat_inj.mp h))

end GceTcb.Kms
