import GceTcb.Model.VirtualFirmware
import GceTcb.Proofs.Commit
import GceTcb.Proofs.Endorse
/- Helper lemmas for C15. -/
namespace GceTcb.VF
open GceTcb GceTcb.Endorse GceTcb.Manifest GceTcb.Commit

/-- A dry run's change function fails only on a refused candidate name (manifest mode). -/
theorem plan_dry_noErr (c : Cfg) (e : Entry) (a : Attempt) (hd : c.dryRun = true)
    (hn : c.snapshot = true ∨ nameOk c.cand = true) :
    (plan c e a).internalErr = false := by
  unfold plan
  split
  · rfl
  · rename_i hs
    have hok : nameOk c.cand = true := hn.resolve_left hs
    simp [hd, planDry, hok]

theorem attempt_dry (c : Cfg) (e : Entry) (i : Nat) (a : Attempt) (hd : c.dryRun = true) :
    attempt c e i a =
      if (plan c e a).internalErr then ([], false) else ([evResult 0 false (plan c e a).certPath], true) := by
  simp [attempt, hd]

/-- With dry-run the loop consults no workspace: the only calls on the VersionControl double are
    Result(nil, path) and — when the change function refused the candidate name — RetriableError queries. -/
theorem retryLoop_dry_events (c : Cfg) (e : Entry) (budget : Int) (hd : c.dryRun = true) :
    ∀ (script : List Attempt) (tries : Nat), ∀ ev ∈ (retryLoop c e budget tries script).1,
      (ev.kind = .result ∧ ev.ok = false) ∨ ev.kind = .retriable := by
  intro script
  induction script with
  | nil => intro tries ev hev; simp [retryLoop] at hev
  | cons a rest ih =>
    intro tries ev hev
    have hA : ∀ x ∈ (attempt c e tries a).1, (x.kind = .result ∧ x.ok = false) ∨ x.kind = .retriable := by
      intro x hx
      rw [attempt_dry c e tries a hd] at hx
      split at hx
      · simp at hx
      · simp at hx; subst hx; left; simp [evResult]
    rcases mem_retryLoop_cons c e budget tries a rest ev hev with h | ⟨b, h⟩ | ⟨_, h, _⟩
    · exact hA ev h
    · right; rw [h]; rfl
    · exact ih (tries + 1) ev h

/-- With dry-run and an accepted name the loop makes one "attempt" that consults no backend: the only
    call on the VersionControl double is Result(nil, path). -/
theorem retryLoop_dry (c : Cfg) (e : Entry) (budget : Int) (hd : c.dryRun = true)
    (hn : c.snapshot = true ∨ nameOk c.cand = true) (tries : Nat)
    (a : Attempt) (rest : List Attempt) :
    retryLoop c e budget tries (a :: rest) = ([evResult 0 false (plan c e a).certPath], .ok) := by
  have ha : attempt c e tries a = ([evResult 0 false (plan c e a).certPath], true) := by
    simp [attempt, hd, plan_dry_noErr c e a hd hn]
  simp [retryLoop, ha]

theorem commitPhase_dry (c : Cfg) (e : Entry) (budget : Int) (hd : c.dryRun = true)
    (script : List Attempt) :
    (∀ ev ∈ (commitPhase false c e budget script).1, (ev.kind = .result ∧ ev.ok = false) ∨ ev.kind = .retriable) ∧
    (script ≠ [] → (c.snapshot = true ∨ nameOk c.cand = true) → (commitPhase false c e budget script).2 = .ok) ∧
    (commitPhase false c e budget script).2 ≠ .panic := by
  unfold commitPhase
  simp only [Bool.and_false, Bool.false_eq_true, if_false]
  refine ⟨?_, ?_, ?_⟩
  · intro ev hev
    exact retryLoop_dry_events c e budget hd script 0 ev hev
  · intro hne hn
    cases script with
    | nil => exact absurd rfl hne
    | cons a rest => simp [retrySubmit, retryLoop_dry c e budget hd hn 0 a rest]
  · split <;> simp

theorem commitPhase_ne_panic (c : Cfg) (e : Entry) (budget : Int) (script : List Attempt) :
    (commitPhase false c e budget script).2 ≠ .panic := by
  unfold commitPhase
  simp only [Bool.and_false, Bool.false_eq_true, if_false]
  split <;> simp

theorem commitAll_cons (L : Bool) (c : Cfg) (e : Entry) (budget : Int) (i : Nat) (s : List Attempt)
    (rest : List (Nat × List Attempt)) :
    commitAll L c e budget ((i, s) :: rest) =
      if (commitPhase L c e budget s).2 = .ok then
        ((commitPhase L c e budget s).1.map (Eff.vcs i) ++ (commitAll L c e budget rest).1,
         (commitAll L c e budget rest).2)
      else ((commitPhase L c e budget s).1.map (Eff.vcs i), (commitPhase L c e budget s).2) := rfl

theorem commitAll_ne_panic (c : Cfg) (e : Entry) (budget : Int) :
    ∀ l : List (Nat × List Attempt), (commitAll false c e budget l).2 ≠ .panic := by
  intro l
  induction l with
  | nil => simp [commitAll]
  | cons x rest ih =>
    obtain ⟨i, s⟩ := x
    rw [commitAll_cons]
    split
    · exact ih
    · exact commitPhase_ne_panic c e budget s

theorem commitAll_dry (c : Cfg) (e : Entry) (budget : Int) (hd : c.dryRun = true) :
    ∀ l : List (Nat × List Attempt),
      (∀ eff ∈ (commitAll false c e budget l).1, ∃ i ev, eff = Eff.vcs i ev ∧
        ((ev.kind = .result ∧ ev.ok = false) ∨ ev.kind = .retriable)) ∧
      ((∀ x ∈ l, x.2 ≠ []) → (c.snapshot = true ∨ nameOk c.cand = true) → (commitAll false c e budget l).2 = .ok) := by
  intro l
  induction l with
  | nil => simp [commitAll]
  | cons x rest ih =>
    obtain ⟨i, s⟩ := x
    obtain ⟨p1, p2, _⟩ := commitPhase_dry c e budget hd s
    have hmap : ∀ eff ∈ (commitPhase false c e budget s).1.map (Eff.vcs i),
        ∃ i ev, eff = Eff.vcs i ev ∧ ((ev.kind = .result ∧ ev.ok = false) ∨ ev.kind = .retriable) := by
      intro eff heff
      obtain ⟨ev, hev, rfl⟩ := List.mem_map.mp heff
      exact ⟨i, ev, rfl, p1 ev hev⟩
    rw [commitAll_cons]
    constructor
    · split
      · intro eff heff
        rcases List.mem_append.mp heff with h | h
        · exact hmap eff h
        · exact ih.1 eff h
      · exact hmap
    · intro hne hn
      have h1 := p2 (hne (i, s) (by simp)) hn
      simp only [h1, if_true]
      exact ih.2 (fun x hx => hne x (by simp [hx])) hn

theorem signDocEff_kinds (keys : Option Keys) (ts : Int × Nat) (g : Golden) :
    ∀ eff ∈ (signDocEff keys ts g).1.map ofSignEff,
      (∀ i ev, eff ≠ Eff.vcs i ev) ∧ (∀ l, eff ≠ Eff.stdout l) := by
  intro eff heff
  obtain ⟨se, _, rfl⟩ := List.mem_map.mp heff
  cases se <;> simp [ofSignEff]

/-- every document handed to the signer is the measured document with cert, bundle, timestamp -/
theorem signDocEff_docs (keys : Option Keys) (ts : Int × Nat) (g : Golden) :
    ∀ k d, SignEff.sign k d ∈ (signDocEff keys ts g).1 →
      d.digest = g.digest ∧ d.snp = g.snp ∧ d.tdx = g.tdx ∧ d.clSpec = g.clSpec ∧ d.commit = g.commit ∧
      d.timestamp = some ts := by
  intro k d h
  unfold signDocEff at h
  cases keys with
  | none => simp at h
  | some ks =>
    simp only at h
    cases hca : ks.ca with
    | none => rw [hca] at h; simp at h
    | some ca =>
      rw [hca] at h; simp only at h
      cases hsg : ks.signer with
      | none => rw [hsg] at h; simp at h
      | some signer =>
        rw [hsg] at h; simp only at h
        cases hp : ca.primary with
        | err e => rw [hp] at h; simp at h
        | panic s => rw [hp] at h; simp at h
        | ok key =>
          rw [hp] at h; simp only at h
          cases hc : ca.certificate key with
          | err e => rw [hc] at h; simp at h
          | panic s => rw [hc] at h; simp at h
          | ok cert =>
            rw [hc] at h; simp only at h
            cases hb : ca.bundle key with
            | err e => rw [hb] at h; simp at h
            | panic s => rw [hb] at h; simp at h
            | ok bundle =>
              rw [hb] at h; simp only at h
              cases hs : signer key { g with cert := cert, caBundle := bundle, timestamp := some ts } <;>
                rw [hs] at h <;> simp at h <;> obtain ⟨_, rfl⟩ := h <;> exact ⟨rfl, rfl, rfl, rfl, rfl, rfl⟩

theorem sign_not_in_commitAll (cfg : Cfg) (e : Entry) (budget : Int) (k : String) (d : Golden) :
    ∀ lst : List (Nat × List Attempt), Eff.sign k d ∉ (commitAll false cfg e budget lst).1 := by
  intro lst
  induction lst with
  | nil => simp [commitAll]
  | cons x rest ih =>
    obtain ⟨i, s⟩ := x
    rw [commitAll_cons]
    split <;> simp [ih]

theorem sign_mem_map (k : String) (d : Golden) (l : List SignEff) :
    Eff.sign k d ∈ l.map ofSignEff ↔ SignEff.sign k d ∈ l := by
  constructor
  · intro hl
    obtain ⟨se, hse, heq⟩ := List.mem_map.mp hl
    cases se <;> simp [ofSignEff] at heq
    obtain ⟨rfl, rfl⟩ := heq
    exact hse
  · intro h
    exact List.mem_map.mpr ⟨_, h, rfl⟩

/-- Which documents reach the signer does not depend on the commit configuration at all. -/
theorem sign_mem_iff (P : Prims) (T : Tables) (c : Ctx) (keys : Option Keys) (ts : Int × Nat)
    (fl : Flags) (vcs : Option (List Attempt)) (vcss : List (List Attempt)) (k : String) (d : Golden) :
    Eff.sign k d ∈ (virtualFirmware false P T c keys ts fl vcs vcss).effects ↔
      fl.measurementOnly = false ∧ ∃ g, goldenMeasurement P T c = .ok g ∧
        SignEff.sign k d ∈ (signDocEff keys ts g).1 := by
  unfold virtualFirmware
  cases hg : goldenMeasurement P T c with
  | err e => simp
  | panic s => simp
  | ok g =>
    simp only [Outcome.ok.injEq, exists_eq_left']
    cases hm : fl.measurementOnly with
    | true => simp
    | false =>
      simp only [Bool.false_eq_true, if_false, true_and]
      cases hs : signDocEff keys ts g with
      | mk effs r =>
        cases r with
        | err e => exact sign_mem_map k d effs
        | panic s => exact sign_mem_map k d effs
        | ok v =>
          simp only [List.mem_append]
          constructor
          · rintro (h | h)
            · exact (sign_mem_map k d effs).mp h
            · exact absurd h (sign_not_in_commitAll _ _ _ k d _)
          · intro h; exact Or.inl ((sign_mem_map k d effs).mpr h)

/-! ### no panic from the measuring half when the primitives do not panic -/

theorem generateLDs_noPanic (P : Prims) (img : Bytes) (pr : Nat)
    (hP : ∀ k, (P.launchDigest img k pr).isPanic = false) :
    ∀ (cs : List Nat) (acc : List (Nat × Bytes)), (generateLDs P img pr cs acc).isPanic = false := by
  intro cs
  induction cs with
  | nil => intro acc; rfl
  | cons c cs ih =>
    intro acc
    unfold generateLDs
    have := hP c
    cases hl : P.launchDigest img c pr with
    | ok ld => exact ih _
    | err e => rfl
    | panic s => rw [hl] at this; cases this

theorem generateMRTDs_noPanic (P : Prims) (T : Tables) (img : Bytes) (early : Bool)
    (hP : ∀ s m, (P.mrtd img s m).isPanic = false) :
    ∀ (ss : List String) (acc : List TdxRow), (generateMRTDs P T img early ss acc).isPanic = false := by
  intro ss
  induction ss with
  | nil =>
    intro acc
    unfold generateMRTDs
    have := hP "" .default
    cases hm : P.mrtd img "" .default with
    | ok m => rfl
    | err e => rfl
    | panic s => rw [hm] at this; cases this
  | cons s ss ih =>
    intro acc
    unfold generateMRTDs
    cases hs : shapeSize T s with
    | none => rfl
    | some sz =>
      simp only
      have h1 := hP s .tdhobBug
      have h2 := hP s .earlyAccept
      cases hm : P.mrtd img s .tdhobBug with
      | err e => rfl
      | panic p => rw [hm] at h1; cases h1
      | ok m =>
        simp only
        cases early with
        | false => exact ih _
        | true =>
          simp only [if_true]
          cases hm2 : P.mrtd img s .earlyAccept with
          | panic p => rw [hm2] at h2; cases h2
          | ok m2 => exact ih _
          | err e => exact ih _

theorem goldenMeasurement_noPanic (P : Prims) (T : Tables) (c : Ctx)
    (h1 : ∀ k pr, (P.launchDigest c.image k pr).isPanic = false)
    (h2 : ∀ s m, (P.mrtd c.image s m).isPanic = false) :
    (goldenMeasurement P T c).isPanic = false := by
  have hs : (snpPart P T c).isPanic = false := by
    unfold snpPart
    cases c.snp with
    | none => rfl
    | some r =>
      simp only
      unfold unsignedSnp
      cases P.parseUuid (canonFamily T r) with
      | none => rfl
      | some fam =>
        cases P.parseUuid (canonImage c.rndImageId r) with
        | none => rfl
        | some iid =>
          have := generateLDs_noPanic P c.image r.product (fun k => h1 k r.product) (vmsaCounts T r) []
          cases hl : generateLDs P c.image r.product (vmsaCounts T r) [] with
          | ok _ => rfl
          | err _ => rfl
          | panic s => rw [hl] at this; cases this
  have ht : (tdxPart P T c).isPanic = false := by
    unfold tdxPart
    cases c.tdx with
    | none => rfl
    | some t =>
      simp only
      unfold unsignedTdx
      have := generateMRTDs_noPanic P T c.image t.includeEarlyAccept h2 t.machineShapes []
      cases hm : generateMRTDs P T c.image t.includeEarlyAccept t.machineShapes [] with
      | ok _ => rfl
      | err _ => rfl
      | panic s => rw [hm] at this; cases this
  unfold goldenMeasurement
  split
  · rfl
  · cases h : snpPart P T c with
    | err _ => rfl
    | panic s => rw [h] at hs; cases hs
    | ok snp =>
      cases h' : tdxPart P T c with
      | err _ => rfl
      | panic s => rw [h'] at ht; cases ht
      | ok tdx => rfl

/-! ### concrete inputs used by the non-vacuity examples of the property file -/

def exP : Prims :=
  { sha384 := fun b => 0xAA :: b
    launchDigest := fun img k pr => .ok (UInt8.ofNat k :: UInt8.ofNat pr :: img)
    mrtd := fun img s _ => .ok (UInt8.ofNat s.length :: img)
    parseUuid := fun s => if s.length == 36 then some [1] else none }
def exT : Tables := ⟨[1, 2], [("c3-standard-4", 16, 1, 176)], "f73a6949-e8f3-473b-9553-e40e056fa3a2", 7⟩
def exC : Ctx :=
  { snp := some ⟨5, "", "", 0, 1⟩, tdx := some ⟨6, false, ["c3-standard-4"]⟩, image := [9], clSpec := 1, commit := [],
    svsmMeasurement := [], rndImageId := "87654321-dead-beef-c0de-123456789abc" }
def exKeys : Option Keys :=
  some ⟨some ⟨.ok "k", fun _ => .ok [1], fun _ => .ok [2]⟩, some (fun _ _ => .ok [3])⟩
def exCfgVF (dry snap : Bool) : Cfg := ⟨dry, snap, false, false, false, "rc0", "R", "out", "snap", "fw.fd"⟩
def exFl (mo dry snap : Bool) : Flags := ⟨mo, 0, 5, exCfgVF dry snap⟩
def exScript : List Attempt := [⟨none, false, .notFound, false⟩]

def countVcs (l : List Eff) : Nat := l.countP fun | .vcs _ _ => true | _ => false
def countKeys (l : List Eff) : Nat := l.countP fun | .stdout _ => false | .vcs _ _ => false | _ => true
def stdoutLines (l : List Eff) : List String := l.filterMap fun | .stdout s => some s | _ => none

end GceTcb.VF
