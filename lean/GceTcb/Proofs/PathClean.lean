import GceTcb.Model.Paths
import GceTcb.Proofs.SecureJoin
/-
Laws of Go's path.Clean / path.Join (model: SecureJoin.clean / joinElems) used by C13 / C14:
the shape of a cleaned path, idempotence, a clean local path is its own cleaning, extension of a
directory text by a local name, injectivity of that extension, cleaning the inner element of a Join
first does not change the result (associativity up to Clean) for a relative inner element.
-/
namespace GceTcb.SecureJoin

/-! ## the stack of Clean -/

/-- The stack of Clean (top first): normal components above a run of ".." that is empty for a rooted
    path. -/
def Shape (rooted : Bool) (st : List Name) : Prop :=
  ∃ ns k, st = ns ++ List.replicate k dotdot ∧ AllNormal ns ∧ (rooted = true → k = 0)

theorem Shape.nil (r : Bool) : Shape r [] := ⟨[], 0, rfl, AllNormal.nil, fun _ => rfl⟩

theorem normal_ne_dotdot {c : Name} (h : Normal c) : c ≠ dotdot := h.2.2.1

theorem cleanStep_normal (r : Bool) (st : List Name) (c : Name) (hc : Normal c) : cleanStep r st c = c :: st := by
  unfold cleanStep
  rw [if_neg (by intro h'; rcases h' with h' | h'; exact hc.1 h'; exact hc.2.1 h'), if_neg hc.2.2.1]

theorem cleanStep_dot (r : Bool) (st : List Name) : cleanStep r st ['.'] = st := by
  simp [cleanStep]

theorem cleanStep_shape (r : Bool) (st : List Name) (c : Name) (hc : '/' ∉ c) (h : Shape r st) :
    Shape r (cleanStep r st c) := by
  obtain ⟨ns, k, rfl, hn, hk⟩ := h
  by_cases h1 : c = [] ∨ c = ['.']
  · simp only [cleanStep, if_pos h1]; exact ⟨ns, k, rfl, hn, hk⟩
  by_cases h2 : c = dotdot
  · simp only [cleanStep, if_neg h1, if_pos h2]
    cases ns with
    | nil =>
      cases k with
      | zero =>
        simp only [List.replicate, List.append_nil]
        cases r with
        | true => exact Shape.nil _
        | false => exact ⟨[], 1, rfl, AllNormal.nil, fun h => by cases h⟩
      | succ k' =>
        simp only [List.nil_append, List.replicate_succ, if_true]
        exact ⟨[], k' + 2, by simp [List.replicate_succ], AllNormal.nil, fun h => by have := hk h; omega⟩
    | cons n ns' =>
      have hnn : Normal n := hn n List.mem_cons_self
      simp only [List.cons_append, if_neg (normal_ne_dotdot hnn)]
      exact ⟨ns', k, rfl, fun x hx => hn x (List.mem_cons_of_mem _ hx), hk⟩
  · have hcn : Normal c := ⟨fun e => h1 (Or.inl e), fun e => h1 (Or.inr e), h2, hc⟩
    rw [cleanStep_normal r _ c hcn]
    refine ⟨c :: ns, k, rfl, ?_, hk⟩
    intro x hx
    rcases List.mem_cons.mp hx with rfl | hx
    · exact hcn
    · exact hn x hx

theorem foldl_cleanStep_shape (r : Bool) (comps : List Name) (hc : ∀ c ∈ comps, '/' ∉ c) :
    ∀ st, Shape r st → Shape r (comps.foldl (cleanStep r) st) := by
  induction comps with
  | nil => intro st h; exact h
  | cons c cs ih =>
    intro st h
    exact ih (fun x hx => hc x (List.mem_cons_of_mem _ hx)) _
      (cleanStep_shape r st c (hc c List.mem_cons_self) h)

/-- The stack of Clean, bottom first: a run of ".." (none for a rooted path) below normal components. -/
theorem cleanStack_shape (p : PathStr) :
    ∃ k ns, cleanStack p = List.replicate k dotdot ++ ns ∧ AllNormal ns ∧ (isAbs p = true → k = 0) := by
  obtain ⟨ns, k, h, hn, hk⟩ :=
    foldl_cleanStep_shape (isAbs p) (splitSlash p) (splitSlash_no_slash p) [] (Shape.nil _)
  refine ⟨k, ns.reverse, ?_, ?_, hk⟩
  · unfold cleanStack; rw [h]; simp
  · intro c hc; exact hn c (List.mem_reverse.mp hc)

theorem dotdot_noslash : '/' ∉ dotdot := by decide

theorem cleanStack_noslash (p : PathStr) : ∀ c ∈ cleanStack p, '/' ∉ c := by
  obtain ⟨k, ns, h, hn, _⟩ := cleanStack_shape p
  intro c hc
  rw [h] at hc
  rcases List.mem_append.mp hc with hc | hc
  · rw [(List.mem_replicate.mp hc).2]; exact dotdot_noslash
  · exact (hn c hc).2.2.2

/-! ## rendering and cutting again -/

theorem splitSlash_renderRel (c : Name) (cs : List Name) (h : ∀ x ∈ c :: cs, '/' ∉ x) :
    splitSlash (renderRel (c :: cs)) = c :: cs := by
  unfold renderRel
  rw [splitSlash_append_flatMap c cs (fun x hx => h x (List.mem_cons_of_mem _ hx)),
    splitSlash_noslash c (h c List.mem_cons_self)]
  rfl

theorem splitSlash_renderAbs' (l : List Name) (h : ∀ x ∈ l, '/' ∉ x) (h0 : l ≠ []) :
    splitSlash (renderAbs l) = [] :: l := by
  unfold renderAbs
  rw [if_neg h0]
  have := splitSlash_append_flatMap [] l h
  simpa [splitSlash] using this

theorem renderRel_inj (a b : List Name) (ha : ∀ x ∈ a, '/' ∉ x) (hb : ∀ x ∈ b, '/' ∉ x)
    (ha0 : a ≠ []) (hb0 : b ≠ []) (h : renderRel a = renderRel b) : a = b := by
  cases a with
  | nil => exact absurd rfl ha0
  | cons x xs =>
    cases b with
    | nil => exact absurd rfl hb0
    | cons y ys =>
      have := congrArg splitSlash h
      rwa [splitSlash_renderRel x xs ha, splitSlash_renderRel y ys hb] at this

theorem renderAbs_inj (a b : List Name) (ha : ∀ x ∈ a, '/' ∉ x) (hb : ∀ x ∈ b, '/' ∉ x)
    (ha0 : a ≠ []) (hb0 : b ≠ []) (h : renderAbs a = renderAbs b) : a = b := by
  have := congrArg splitSlash h
  rw [splitSlash_renderAbs' a ha ha0, splitSlash_renderAbs' b hb hb0] at this
  exact List.tail_eq_of_cons_eq this

theorem renderClean_inj (r : Bool) (a b : List Name) (ha : ∀ x ∈ a, '/' ∉ x) (hb : ∀ x ∈ b, '/' ∉ x)
    (ha0 : a ≠ []) (hb0 : b ≠ []) (h : renderClean r a = renderClean r b) : a = b := by
  cases r with
  | true => exact renderAbs_inj a b ha hb ha0 hb0 h
  | false => exact renderRel_inj a b ha hb ha0 hb0 h

theorem isAbs_renderRel_normal (c : Name) (cs : List Name) (hc : c ≠ []) (hs : '/' ∉ c) :
    isAbs (renderRel (c :: cs)) = false := by
  cases c with
  | nil => exact absurd rfl hc
  | cons x xs =>
    have hx : x ≠ '/' := fun e => hs (by simp [e])
    simp [renderRel, isAbs, hx]

/-! ## a clean local path is its own cleaning -/

theorem cleanStack_renderRel (ns : List Name) (hn : AllNormal ns) (h0 : ns ≠ []) :
    cleanStack (renderRel ns) = ns ∧ isAbs (renderRel ns) = false ∧ renderRel ns ≠ [] := by
  cases ns with
  | nil => exact absurd rfl h0
  | cons c cs =>
    have hc := hn c List.mem_cons_self
    have habs := isAbs_renderRel_normal c cs hc.1 hc.2.2.2
    refine ⟨?_, habs, ?_⟩
    · unfold cleanStack
      rw [habs, splitSlash_renderRel c cs hn.noslash, foldl_cleanStep_normal _ _ hn]
      simp
    · cases c with
      | nil => exact absurd rfl hc.1
      | cons x xs => simp [renderRel]

theorem clean_renderRel (ns : List Name) (hn : AllNormal ns) (h0 : ns ≠ []) :
    clean (renderRel ns) = renderRel ns := by
  obtain ⟨h1, h2, h3⟩ := cleanStack_renderRel ns hn h0
  unfold clean
  rw [if_neg h3, h1, h2]
  rfl

/-! ## idempotence -/

theorem cleanStep_dotdot_dotdots (j : Nat) :
    cleanStep false (List.replicate j dotdot) dotdot = List.replicate (j + 1) dotdot := by
  cases j with
  | zero => simp [cleanStep, dotdot]
  | succ m => simp [cleanStep, dotdot, List.replicate_succ]

theorem foldl_cleanStep_dotdots' (k : Nat) : ∀ j,
    (List.replicate k dotdot).foldl (cleanStep false) (List.replicate j dotdot) = List.replicate (j + k) dotdot := by
  induction k with
  | zero => intro j; rfl
  | succ n ih =>
    intro j
    rw [List.replicate_succ, List.foldl_cons, cleanStep_dotdot_dotdots, ih (j + 1)]
    congr 1; omega

theorem foldl_cleanStep_dotdots (k : Nat) :
    (List.replicate k dotdot).foldl (cleanStep false) [] = List.replicate k dotdot := by
  have := foldl_cleanStep_dotdots' k 0
  simpa using this

theorem clean_ne_nil (p : PathStr) : clean p ≠ [] := by
  unfold clean
  split
  · simp
  · unfold renderClean
    split
    · exact renderAbs_ne_nil _
    · cases h : cleanStack p with
      | nil => simp [renderRel]
      | cons c cs =>
        obtain ⟨k, ns, hs, hn, _⟩ := cleanStack_shape p
        have hc : c ≠ [] := by
          rw [h] at hs
          cases k with
          | zero =>
            simp only [List.replicate, List.nil_append] at hs
            have : c ∈ ns := by rw [← hs]; exact List.mem_cons_self
            exact (hn c this).1
          | succ k' =>
            simp only [List.replicate_succ, List.cons_append, List.cons.injEq] at hs
            rw [hs.1]; decide
        cases c with
        | nil => exact absurd rfl hc
        | cons x xs => simp [renderRel]

/-- path.Clean is idempotent. -/
theorem clean_idem (p : PathStr) : clean (clean p) = clean p := by
  by_cases hp : p = []
  · subst hp; decide
  obtain ⟨k, ns, hs, hn, hk⟩ := cleanStack_shape p
  have hcl : clean p = renderClean (isAbs p) (cleanStack p) := by unfold clean; rw [if_neg hp]
  by_cases hr : isAbs p = true
  · have k0 := hk hr
    subst k0
    simp only [List.replicate, List.nil_append] at hs
    rw [hcl, hr, hs]
    show clean (renderAbs ns) = renderAbs ns
    unfold clean
    rw [if_neg (renderAbs_ne_nil ns), isAbs_renderAbs, cleanStack_renderAbs ns hn]
    rfl
  · have hr' : isAbs p = false := by simpa using hr
    rw [hcl, hr', hs]
    show clean (renderRel _) = renderRel _
    cases hF : List.replicate k dotdot ++ ns with
    | nil => decide
    | cons c cs =>
      have hns : ∀ x ∈ c :: cs, '/' ∉ x := by
        intro x hx; rw [← hF] at hx
        rcases List.mem_append.mp hx with hx | hx
        · rw [(List.mem_replicate.mp hx).2]; exact dotdot_noslash
        · exact (hn x hx).2.2.2
      have hc0 : c ≠ [] := by
        have : c ∈ List.replicate k dotdot ++ ns := by rw [hF]; exact List.mem_cons_self
        rcases List.mem_append.mp this with hx | hx
        · rw [(List.mem_replicate.mp hx).2]; decide
        · exact (hn c hx).1
      have habs := isAbs_renderRel_normal c cs hc0 (hns c List.mem_cons_self)
      have hne : renderRel (c :: cs) ≠ [] := by
        cases c with
        | nil => exact absurd rfl hc0
        | cons x xs => simp [renderRel]
      unfold clean
      rw [if_neg hne, habs]
      unfold cleanStack
      rw [habs, splitSlash_renderRel c cs hns, ← hF, List.foldl_append, foldl_cleanStep_dotdots,
        foldl_cleanStep_normal _ ns hn]
      simp [renderClean]

/-! ## extending a directory text by a local name -/

/-- `path.Clean(P + "/" + name)` for a clean local `name` (normal components `ns`): the cleaned `P`
    extended by the components. -/
theorem clean_extend (P : PathStr) (hP : P ≠ []) (ns : List Name) (hn : AllNormal ns) (h0 : ns ≠ []) :
    clean (P ++ '/' :: renderRel ns) = renderClean (isAbs P) (cleanStack P ++ ns) := by
  have hne : P ++ '/' :: renderRel ns ≠ [] := by simp [hP]
  cases ns with
  | nil => exact absurd rfl h0
  | cons c cs =>
    unfold clean
    rw [if_neg hne, isAbs_append P _ hP]
    congr 1
    unfold cleanStack
    rw [isAbs_append P _ hP, splitSlash_append_slash, List.foldl_append,
      splitSlash_renderRel c cs hn.noslash, foldl_cleanStep_normal _ _ hn]
    simp

theorem slash_renderRel (ns : List Name) (h0 : ns ≠ []) : '/' :: renderRel ns = renderAbs ns := by
  cases ns with
  | nil => exact absurd rfl h0
  | cons c cs => simp [renderRel, renderAbs]

theorem clean_renderAbs (ns : List Name) (hn : AllNormal ns) : clean (renderAbs ns) = renderAbs ns := by
  unfold clean
  rw [if_neg (renderAbs_ne_nil ns), isAbs_renderAbs, cleanStack_renderAbs ns hn]
  rfl

/-- A map from local names to path texts that extends a fixed cleaned directory (`rooted`, stack `T`)
    by the name's components. -/
def Ext (f : PathStr → PathStr) : Prop :=
  ∃ (r : Bool) (T : List Name), (∀ c ∈ T, '/' ∉ c) ∧
    ∀ ns, AllNormal ns → ns ≠ [] → f (renderRel ns) = renderClean r (T ++ ns)

/-- … or, as texts: the name itself, or a fixed text, "/", the name. -/
def Pre (f : PathStr → PathStr) : Prop :=
  (∀ ns, AllNormal ns → ns ≠ [] → f (renderRel ns) = renderRel ns) ∨
  (∃ Y : PathStr, ∀ ns, AllNormal ns → ns ≠ [] → f (renderRel ns) = Y ++ '/' :: renderRel ns)

theorem flatMap_slash_append (T ns : List Name) (h0 : ns ≠ []) :
    (T ++ ns).flatMap ('/' :: ·) = T.flatMap ('/' :: ·) ++ '/' :: renderRel ns := by
  cases ns with
  | nil => exact absurd rfl h0
  | cons c cs => simp [renderRel, List.flatMap_append]

theorem Ext.pre {f : PathStr → PathStr} (h : Ext f) : Pre f := by
  obtain ⟨r, T, _, hf⟩ := h
  cases r with
  | true =>
    right
    refine ⟨T.flatMap ('/' :: ·), ?_⟩
    intro ns hn h0
    rw [hf ns hn h0]
    show renderAbs (T ++ ns) = _
    unfold renderAbs
    rw [if_neg (by simp [h0]), flatMap_slash_append T ns h0]
  | false =>
    cases T with
    | nil => left; intro ns hn h0; rw [hf ns hn h0]; rfl
    | cons t ts =>
      right
      refine ⟨renderRel (t :: ts), ?_⟩
      intro ns hn h0
      rw [hf ns hn h0]
      show renderRel (t :: ts ++ ns) = _
      simp only [renderRel, List.cons_append]
      rw [flatMap_slash_append ts ns h0]
      simp [renderRel]

/-- go: path.Join(dir, name) -/
theorem ext_join_dir (dir : PathStr) : Ext (fun b => joinElems [dir, b]) := by
  by_cases hd : dir = []
  · subst hd
    refine ⟨false, [], by simp, ?_⟩
    intro ns hn h0
    have hne := (cleanStack_renderRel ns hn h0).2.2
    simp only [joinElems, List.dropWhile, decide_true, hne, decide_false]
    simp [clean_renderRel ns hn h0, renderClean]
  · refine ⟨isAbs dir, cleanStack dir, cleanStack_noslash dir, ?_⟩
    intro ns hn h0
    simp only [joinElems, List.dropWhile, hd, decide_false]
    simp only [List.flatMap_cons, List.flatMap_nil, List.append_nil]
    exact clean_extend dir hd ns hn h0

theorem pre_clean {f : PathStr → PathStr} (h : Pre f) : Ext (fun b => clean (f b)) := by
  rcases h with h | ⟨Y, h⟩
  · refine ⟨false, [], by simp, ?_⟩
    intro ns hn h0
    simp only [h ns hn h0, clean_renderRel ns hn h0]; rfl
  · by_cases hY : Y = []
    · subst hY
      refine ⟨true, [], by simp, ?_⟩
      intro ns hn h0
      simp only [h ns hn h0, List.nil_append, slash_renderRel ns h0, clean_renderAbs ns hn]; rfl
    · refine ⟨isAbs Y, cleanStack Y, cleanStack_noslash Y, ?_⟩
      intro ns hn h0
      simp only [h ns hn h0]
      exact clean_extend Y hY ns hn h0

theorem pre_clean_root {f : PathStr → PathStr} (h : Pre f) (root : PathStr) (hr : root ≠ []) :
    Ext (fun b => clean (root ++ '/' :: f b)) := by
  rcases h with h | ⟨Y, h⟩
  · refine ⟨isAbs root, cleanStack root, cleanStack_noslash root, ?_⟩
    intro ns hn h0
    simp only [h ns hn h0]
    exact clean_extend root hr ns hn h0
  · refine ⟨isAbs (root ++ '/' :: Y), cleanStack (root ++ '/' :: Y), cleanStack_noslash _, ?_⟩
    intro ns hn h0
    simp only [h ns hn h0]
    have : root ++ '/' :: (Y ++ '/' :: renderRel ns) = (root ++ '/' :: Y) ++ '/' :: renderRel ns := by simp
    rw [this]
    exact clean_extend _ (by simp [hr]) ns hn h0

theorem Ext.ne_nil {f : PathStr → PathStr} (h : Ext f) (ns : List Name) (hn : AllNormal ns) (h0 : ns ≠ []) :
    f (renderRel ns) ≠ [] := by
  obtain ⟨r, T, hT, hf⟩ := h
  rw [hf ns hn h0]
  cases r with
  | true => exact renderAbs_ne_nil _
  | false =>
    show renderRel (T ++ ns) ≠ []
    intro he
    have hsl : ∀ x ∈ T ++ ns, '/' ∉ x := by
      intro x hx
      rcases List.mem_append.mp hx with hx | hx
      · exact hT x hx
      · exact (hn x hx).2.2.2
    cases hTn : T ++ ns with
    | nil => simp [h0] at hTn
    | cons c cs =>
      rw [hTn] at he hsl
      have hs := splitSlash_renderRel c cs hsl
      rw [he] at hs
      simp only [splitSlash, List.cons.injEq] at hs
      obtain ⟨n, hnm⟩ := List.exists_mem_of_ne_nil ns h0
      have : n ∈ T ++ ns := List.mem_append_right _ hnm
      rw [hTn, ← hs.1, ← hs.2] at this
      simp at this
      exact (hn n hnm).1 this

/-- go: path.Join(root, f(name)) for `f` extending a directory: again an extension of a directory. -/
theorem ext_join_root {f : PathStr → PathStr} (h : Ext f) (root : PathStr) :
    Ext (fun b => joinElems [root, f b]) := by
  by_cases hr : root = []
  · subst hr
    obtain ⟨r, T, hT, hE⟩ := pre_clean h.pre
    refine ⟨r, T, hT, ?_⟩
    intro ns hn h0
    have hne := h.ne_nil ns hn h0
    simp only [joinElems, List.dropWhile, decide_true, hne, decide_false]
    simp only [List.flatMap_nil, List.append_nil]
    exact hE ns hn h0
  · obtain ⟨r, T, hT, hE⟩ := pre_clean_root h.pre root hr
    refine ⟨r, T, hT, ?_⟩
    intro ns hn h0
    simp only [joinElems, List.dropWhile, hr, decide_false]
    simp only [List.flatMap_cons, List.flatMap_nil, List.append_nil]
    exact hE ns hn h0

/-- Two clean local names extend a directory to the same path only if they are the same name. -/
theorem Ext.inj {f : PathStr → PathStr} (h : Ext f) (a b : List Name) (ha : AllNormal a) (hb : AllNormal b)
    (ha0 : a ≠ []) (hb0 : b ≠ []) (he : f (renderRel a) = f (renderRel b)) : a = b := by
  obtain ⟨r, T, hT, hf⟩ := h
  rw [hf a ha ha0, hf b hb hb0] at he
  have hsl : ∀ l : List Name, AllNormal l → ∀ x ∈ T ++ l, '/' ∉ x := by
    intro l hl x hx
    rcases List.mem_append.mp hx with hx | hx
    · exact hT x hx
    · exact (hl x hx).2.2.2
  have := renderClean_inj r (T ++ a) (T ++ b) (hsl a ha) (hsl b hb) (by simp [ha0]) (by simp [hb0]) he
  exact List.append_cancel_left this

end GceTcb.SecureJoin

namespace GceTcb.SecureJoin

/-! ## a text that ends in a '/'-free suffix -/

theorem splitSlash_append_noslash (y s : PathStr) (hs : '/' ∉ s) :
    ∃ init last, splitSlash y = init ++ [last] ∧ splitSlash (y ++ s) = init ++ [last ++ s] := by
  induction y with
  | nil => exact ⟨[], [], rfl, by simp [splitSlash_noslash s hs]⟩
  | cons c cs ih =>
    obtain ⟨init, last, h1, h2⟩ := ih
    by_cases hc : c = '/'
    · refine ⟨[] :: init, last, ?_, ?_⟩
      · simp only [splitSlash, hc, if_true, h1, List.cons_append]
      · simp only [List.cons_append, splitSlash, hc, if_true, h2]
    · cases init with
      | nil =>
        refine ⟨[], c :: last, ?_, ?_⟩
        · simp only [splitSlash, if_neg hc, h1, List.nil_append]
        · simp only [List.cons_append, splitSlash, if_neg hc, h2, List.nil_append]
      | cons i is =>
        refine ⟨(c :: i) :: is, last, ?_, ?_⟩
        · simp only [splitSlash, if_neg hc, h1, List.cons_append]
        · simp only [List.cons_append, splitSlash, if_neg hc, h2]

/-- The file extension the endorsement basename always ends in. -/
def extChars : PathStr := ['.', 'b', 'i', 'n', 'a', 'r', 'y', 'p', 'b']

theorem normal_append_ext (z : Name) (hz : '/' ∉ z) : Normal (z ++ extChars) := by
  have hl : (z ++ extChars).length ≥ 9 := by simp [extChars]
  refine ⟨?_, ?_, ?_, ?_⟩
  · intro h; rw [h] at hl; simp at hl
  · intro h; rw [h] at hl; simp at hl
  · intro h; rw [h] at hl; simp [dotdot] at hl
  · intro h
    rcases List.mem_append.mp h with h | h
    · exact hz h
    · simp [extChars] at h

/-- The stack of Clean for a text ending in the extension: the last component (which carries the
    extension) is kept on top of the stack of what precedes it. -/
theorem cleanStack_ext (y : PathStr) :
    ∃ k ns l, cleanStack (y ++ extChars) = List.replicate k dotdot ++ ns ++ [l] ∧ AllNormal ns ∧ Normal l ∧
      (isAbs (y ++ extChars) = true → k = 0) := by
  obtain ⟨init, last, h1, h2⟩ := splitSlash_append_noslash y extChars (by decide)
  have hnos : ∀ c ∈ init ++ [last], '/' ∉ c := by rw [← h1]; exact splitSlash_no_slash y
  have hl : Normal (last ++ extChars) := normal_append_ext last (hnos last (by simp))
  obtain ⟨ns, k, hst, hn, hk⟩ := foldl_cleanStep_shape (isAbs (y ++ extChars)) init
    (fun c hc => hnos c (List.mem_append_left _ hc)) [] (Shape.nil _)
  refine ⟨k, ns.reverse, last ++ extChars, ?_, ?_, hl, hk⟩
  · unfold cleanStack
    rw [h2, List.foldl_append, List.foldl_cons, List.foldl_nil, hst, cleanStep_normal _ _ _ hl]
    simp
  · intro c hc; exact hn c (List.mem_reverse.mp hc)

def climbsL (b : PathStr) : Bool := ['.', '.', '/'].isPrefixOf b

/-- A cleaned text that ends in the extension and is neither rooted nor starts with "../" is a clean
    local path: one or more normal components joined by '/'. -/
theorem clean_ext_local (y : PathStr) (habs : isAbs (clean (y ++ extChars)) = false)
    (hcl : climbsL (clean (y ++ extChars)) = false) :
    ∃ ns, AllNormal ns ∧ ns ≠ [] ∧ clean (y ++ extChars) = renderRel ns := by
  obtain ⟨k, ns, l, hs, hn, hl, hk⟩ := cleanStack_ext y
  have hne : y ++ extChars ≠ [] := by simp [extChars]
  have hc : clean (y ++ extChars) = renderClean (isAbs (y ++ extChars)) (cleanStack (y ++ extChars)) := by
    unfold clean; rw [if_neg hne]
  by_cases hr : isAbs (y ++ extChars) = true
  · rw [hc, hr] at habs
    have := isAbs_renderAbs (cleanStack (y ++ extChars))
    simp only [renderClean, if_true] at habs
    rw [this] at habs; cases habs
  · have hr' : isAbs (y ++ extChars) = false := by simpa using hr
    cases k with
    | zero =>
      refine ⟨ns ++ [l], hn.snoc hl, by simp, ?_⟩
      rw [hc, hr', hs]; simp [renderClean]
    | succ k' =>
      exfalso
      rw [hc, hr', hs] at hcl
      have : List.replicate (k' + 1) dotdot ++ ns ++ [l] = dotdot :: (List.replicate k' dotdot ++ ns ++ [l]) := by
        simp [List.replicate_succ]
      rw [this] at hcl
      cases hrest : List.replicate k' dotdot ++ ns ++ [l] with
      | nil => simp at hrest
      | cons c cs =>
        rw [hrest] at hcl
        simp [renderClean, renderRel, dotdot, climbsL] at hcl

theorem renderRel_local (ns : List Name) (hn : AllNormal ns) (h0 : ns ≠ []) :
    isAbs (renderRel ns) = false ∧ climbsL (renderRel ns) = false := by
  refine ⟨(cleanStack_renderRel ns hn h0).2.1, ?_⟩
  cases ns with
  | nil => exact absurd rfl h0
  | cons c cs =>
    obtain ⟨c1, c2, c3, c4⟩ := hn c List.mem_cons_self
    cases c with
    | nil => exact absurd rfl c1
    | cons a t =>
      cases t with
      | nil =>
        have ha : a ≠ '.' := fun e => c2 (by rw [e])
        cases cs with
        | nil => simp [renderRel, climbsL, List.isPrefixOf]
        | cons d ds =>
          simp only [renderRel, climbsL, List.flatMap_cons, List.cons_append, List.nil_append, List.isPrefixOf]
          simp
      | cons b u =>
        cases u with
        | nil =>
          have : ¬ (a = '.' ∧ b = '.') := fun e => c3 (by rw [e.1, e.2]; rfl)
          cases cs with
          | nil => simp [renderRel, climbsL, List.isPrefixOf]
          | cons d ds =>
            simp only [renderRel, climbsL, List.flatMap_cons, List.cons_append, List.nil_append, List.isPrefixOf]
            simp
            intro h1 h2
            exact this ⟨h1.symm, h2.symm⟩
        | cons d v =>
          have hd : d ≠ '/' := fun e => c4 (by simp [e])
          simp only [renderRel, climbsL, List.cons_append, List.isPrefixOf]
          simp
          intro _ _ e
          exact hd e.symm

end GceTcb.SecureJoin

/-! ## the same laws on `String` (Go's `path` package as `Paths.pclean` / `Paths.pjoin`) -/
namespace GceTcb.Paths
open GceTcb.SecureJoin

/-- A clean local path: one or more normal components (not "", ".", "..", '/'-free) joined by '/'.
    Exactly the relative paths that path.Clean leaves alone and that do not climb. -/
def LocalClean (b : String) : Prop := ∃ ns, AllNormal ns ∧ ns ≠ [] ∧ b.toList = renderRel ns

theorem pclean_toList (s : String) : (pclean s).toList = clean s.toList := String.toList_ofList

theorem pjoin_toList (l : List String) : (pjoin l).toList = joinElems (l.map String.toList) :=
  String.toList_ofList

/-- path.Clean is idempotent. -/
theorem pclean_idem (s : String) : pclean (pclean s) = pclean s := by
  apply String.ext
  rw [pclean_toList, pclean_toList, clean_idem]

theorem pclean_ne_empty (s : String) : pclean s ≠ "" := by
  intro h
  have := congrArg String.toList h
  rw [pclean_toList] at this
  exact clean_ne_nil _ this

/-- path.Clean leaves a clean local path alone. -/
theorem LocalClean.pclean_eq {b : String} (h : LocalClean b) : pclean b = b := by
  obtain ⟨ns, hn, h0, hb⟩ := h
  apply String.ext
  rw [pclean_toList, hb, clean_renderRel ns hn h0]

theorem climbs_eq (b : String) : climbs b = climbsL b.toList := rfl

/-- A clean local path passes the name test of defaultGenerateBasename. -/
theorem LocalClean.localName {b : String} (h : LocalClean b) : localName b = true := by
  obtain ⟨ns, hn, h0, hb⟩ := h
  obtain ⟨h1, h2⟩ := renderRel_local ns hn h0
  simp [Paths.localName, pisAbs, climbs_eq, hb, h1, h2]

theorem LocalClean.ne_empty {b : String} (h : LocalClean b) : b ≠ "" := by
  obtain ⟨ns, hn, h0, hb⟩ := h
  intro he
  rw [he] at hb
  exact (cleanStack_renderRel ns hn h0).2.2 hb.symm

theorem ext_toList : ".binarypb".toList = extChars := by decide

/-- The cleaned basename that passes the name test is a clean local path. -/
theorem cleanBasename_local (cand : String) (h : localName (cleanBasename cand) = true) :
    LocalClean (cleanBasename cand) := by
  unfold Paths.localName at h
  simp only [Bool.and_eq_true, Bool.not_eq_true'] at h
  obtain ⟨h1, h2⟩ := h
  unfold cleanBasename at h1 h2 ⊢
  generalize (if cand == "" then "endorsement" else cand) = rel at h1 h2 ⊢
  unfold pisAbs at h1
  rw [climbs_eq] at h2
  rw [pclean_toList, String.toList_append, ext_toList] at h1 h2
  obtain ⟨ns, hn, h0, hc⟩ := clean_ext_local rel.toList h1 h2
  exact ⟨ns, hn, h0, by rw [pclean_toList, String.toList_append, ext_toList, hc]⟩

/-- The name test of defaultGenerateBasename accepts exactly the names whose cleaned basename is a
    clean local path. -/
theorem localName_cleanBasename_iff (cand : String) :
    localName (cleanBasename cand) = true ↔ LocalClean (cleanBasename cand) :=
  ⟨cleanBasename_local cand, LocalClean.localName⟩

/-- A candidate name without '/' is used as it is (no cleaning needed) and accepted. -/
theorem cleanBasename_plain (cand : String) (h : '/' ∉ cand.toList) :
    cleanBasename cand = (if cand == "" then "endorsement" else cand) ++ ".binarypb" ∧
    LocalClean (cleanBasename cand) := by
  have hrel : '/' ∉ (if cand == "" then "endorsement" else cand).toList := by
    split
    · decide
    · exact h
  unfold cleanBasename
  generalize (if cand == "" then "endorsement" else cand) = rel at hrel ⊢
  have hn : Normal (rel.toList ++ extChars) := normal_append_ext _ hrel
  have hall : AllNormal [rel.toList ++ extChars] := by
    intro c hc; simp only [List.mem_singleton] at hc; rw [hc]; exact hn
  have hlc : LocalClean (rel ++ ".binarypb") :=
    ⟨[rel.toList ++ extChars], hall, by simp, by rw [String.toList_append, ext_toList]; simp [renderRel]⟩
  rw [hlc.pclean_eq]
  exact ⟨rfl, hlc⟩

theorem manifestFile_local : LocalClean "manifest.textproto" :=
  ⟨["manifest.textproto".toList], by
    intro c hc; simp only [List.mem_singleton] at hc; rw [hc]
    refine ⟨by decide, by decide, by decide, by decide⟩, by simp, by decide⟩

/-- The full path of a local name: a fixed text (empty for ReleasePath = path.Join, root + "/" for
    ReleasePath = concatenation), then a fixed cleaned directory extended by the components of the name. -/
theorem outPath_ext (mode : RelMode) (root outDir : String) :
    ∃ (pre : PathStr) (r : Bool) (T : List Name), (∀ c ∈ T, '/' ∉ c) ∧
      ∀ (b : String) (ns : List Name), AllNormal ns → ns ≠ [] → b.toList = renderRel ns →
        (outPath mode root outDir b).toList = pre ++ renderClean r (T ++ ns) := by
  cases mode with
  | concat =>
    obtain ⟨r, T, hT, hE⟩ := ext_join_dir outDir.toList
    refine ⟨root.toList ++ ['/'], r, T, hT, ?_⟩
    intro b ns hn h0 hb
    simp only [outPath, release, String.toList_append, pjoin_toList, List.map_cons, List.map_nil, hb]
    have := hE ns hn h0
    simp only at this
    rw [this]
    rfl
  | join =>
    obtain ⟨r, T, hT, hE⟩ := ext_join_root (ext_join_dir outDir.toList) root.toList
    refine ⟨[], r, T, hT, ?_⟩
    intro b ns hn h0 hb
    simp only [outPath, release, pjoin_toList, List.map_cons, List.map_nil, hb, List.nil_append]
    exact hE ns hn h0

/-- Two clean local names denote the same file below the output directory only if they are equal. -/
theorem outPath_inj (mode : RelMode) (root outDir : String) (b₁ b₂ : String)
    (h₁ : LocalClean b₁) (h₂ : LocalClean b₂)
    (he : outPath mode root outDir b₁ = outPath mode root outDir b₂) : b₁ = b₂ := by
  obtain ⟨pre, r, T, hT, hE⟩ := outPath_ext mode root outDir
  obtain ⟨n1, hn1, h01, hb1⟩ := h₁
  obtain ⟨n2, hn2, h02, hb2⟩ := h₂
  have := congrArg String.toList he
  rw [hE b₁ n1 hn1 h01 hb1, hE b₂ n2 hn2 h02 hb2] at this
  have hX := List.append_cancel_left this
  have hsl : ∀ l : List Name, AllNormal l → ∀ x ∈ T ++ l, '/' ∉ x := by
    intro l hl x hx
    rcases List.mem_append.mp hx with hx | hx
    · exact hT x hx
    · exact (hl x hx).2.2.2
  have := renderClean_inj r (T ++ n1) (T ++ n2) (hsl n1 hn1) (hsl n2 hn2) (by simp [h01]) (by simp [h02]) hX
  have hnn := List.append_cancel_left this
  apply String.ext
  rw [hb1, hb2, hnn]

end GceTcb.Paths

/-! ## Join is associative up to Clean (relative inner element) -/
namespace GceTcb.SecureJoin

theorem shape_head (acc : List Name) (t : Name) (ts : List Name) (h : Shape false acc) (he : acc = t :: ts) :
    t = dotdot ∨ Normal t := by
  obtain ⟨ns, k, hs, hn, _⟩ := h
  cases ns with
  | nil =>
    cases k with
    | zero => simp [he] at hs
    | succ k' =>
      rw [he] at hs
      simp only [List.nil_append, List.replicate_succ, List.cons.injEq] at hs
      exact Or.inl hs.1
  | cons n ns' =>
    rw [he] at hs
    simp only [List.cons_append, List.cons.injEq] at hs
    exact Or.inr (hs.1 ▸ hn n List.mem_cons_self)

/-- Reducing a component in the empty relative context and replaying the reduced stack in a context
    `st` is the same as applying the component in that context. -/
theorem cleanStep_replay (r : Bool) (st acc : List Name) (c : Name) (hc : '/' ∉ c) (h : Shape false acc) :
    (cleanStep false acc c).reverse.foldl (cleanStep r) st =
      cleanStep r (acc.reverse.foldl (cleanStep r) st) c := by
  by_cases h1 : c = [] ∨ c = ['.']
  · simp only [cleanStep, if_pos h1]
  by_cases h2 : c = dotdot
  · subst h2
    cases hacc : acc with
    | nil => simp [cleanStep, dotdot]
    | cons t ts =>
      rcases shape_head acc t ts h hacc with ht | ht
      · subst ht
        have : cleanStep false (dotdot :: ts) dotdot = dotdot :: dotdot :: ts := by simp [cleanStep, dotdot]
        rw [this]
        simp only [List.reverse_cons, List.foldl_append, List.foldl_cons, List.foldl_nil]
      · have : cleanStep false (t :: ts) dotdot = ts := by
          simp only [cleanStep, dotdot]
          have := normal_ne_dotdot ht
          simp only [dotdot] at this
          simp [this]
        rw [this]
        simp only [List.reverse_cons, List.foldl_append, List.foldl_cons, List.foldl_nil]
        rw [cleanStep_normal r _ t ht]
        simp only [cleanStep, dotdot]
        have := normal_ne_dotdot ht
        simp only [dotdot] at this
        simp [this]
  · have hcn : Normal c := ⟨fun e => h1 (Or.inl e), fun e => h1 (Or.inr e), h2, hc⟩
    rw [cleanStep_normal false _ c hcn]
    simp only [List.reverse_cons, List.foldl_append, List.foldl_cons, List.foldl_nil]

theorem foldl_cleanStep_replay (r : Bool) (st : List Name) (l : List Name) (hl : ∀ c ∈ l, '/' ∉ c) :
    ∀ acc, Shape false acc →
      (l.foldl (cleanStep false) acc).reverse.foldl (cleanStep r) st =
        l.foldl (cleanStep r) (acc.reverse.foldl (cleanStep r) st) := by
  induction l with
  | nil => intro acc _; rfl
  | cons c cs ih =>
    intro acc h
    have hc := hl c List.mem_cons_self
    simp only [List.foldl_cons]
    rw [ih (fun x hx => hl x (List.mem_cons_of_mem _ hx)) _ (cleanStep_shape false acc c hc h),
      cleanStep_replay r st acc c hc h]

/-- The components of a cleaned relative text act on a context like the components of the text itself. -/
theorem foldl_splitSlash_clean (r : Bool) (st : List Name) (x : PathStr) (hx0 : x ≠ []) (hx : isAbs x = false) :
    (splitSlash (clean x)).foldl (cleanStep r) st = (splitSlash x).foldl (cleanStep r) st := by
  have key := foldl_cleanStep_replay r st (splitSlash x) (splitSlash_no_slash x) [] (Shape.nil _)
  simp only [List.reverse_nil, List.foldl_nil] at key
  rw [← key]
  have hcl : clean x = renderRel (cleanStack x) := by
    unfold clean; rw [if_neg hx0, hx]; rfl
  have hst : cleanStack x = ((splitSlash x).foldl (cleanStep false) []).reverse := by
    unfold cleanStack; rw [hx]
  rw [hcl, ← hst]
  cases hF : cleanStack x with
  | nil =>
    show List.foldl (cleanStep r) st (splitSlash ['.']) = st
    simp [splitSlash, cleanStep]
  | cons c cs =>
    rw [splitSlash_renderRel c cs (by rw [← hF]; exact cleanStack_noslash x)]

/-- `Clean(a + "/" + Clean(x)) = Clean(a + "/" + x)` for a relative `x`. -/
theorem clean_of_ne (p : PathStr) (h : p ≠ []) : clean p = renderClean (isAbs p) (cleanStack p) := by
  unfold clean; rw [if_neg h]

theorem cleanStack_append_slash (a y : PathStr) (ha : a ≠ []) :
    cleanStack (a ++ '/' :: y) =
      ((splitSlash y).foldl (cleanStep (isAbs a)) ((splitSlash a).foldl (cleanStep (isAbs a)) [])).reverse := by
  unfold cleanStack
  rw [isAbs_append a _ ha, splitSlash_append_slash, List.foldl_append]

theorem clean_join_clean (a x : PathStr) (ha : a ≠ []) (hx0 : x ≠ []) (hx : isAbs x = false) :
    clean (a ++ '/' :: clean x) = clean (a ++ '/' :: x) := by
  rw [clean_of_ne (a ++ '/' :: clean x) (by simp [ha]), clean_of_ne (a ++ '/' :: x) (by simp [ha]),
    isAbs_append a _ ha, isAbs_append a _ ha, cleanStack_append_slash a _ ha, cleanStack_append_slash a _ ha,
    foldl_splitSlash_clean _ _ x hx0 hx]

end GceTcb.SecureJoin

namespace GceTcb.Paths
open GceTcb.SecureJoin

/-- path.Join is associative up to Clean when the inner Join starts with a relative element:
    `Join(a, Join(b, c)) = Join(a, b, c)` for a non-empty relative `b` (any `a`, `c`, also empty ones). -/
theorem pjoin_assoc (a b c : String) (hb : b ≠ "") (hr : pisAbs b = false) :
    pjoin [a, pjoin [b, c]] = pjoin [a, b, c] := by
  apply String.ext
  have hbl : b.toList ≠ [] := fun h => hb (String.toList_eq_nil_iff.mp h)
  simp only [pjoin_toList, List.map_cons, List.map_nil]
  have hinner : joinElems [b.toList, c.toList] = clean (b.toList ++ '/' :: c.toList) := by
    simp [joinElems, List.dropWhile, hbl]
  have hx0 : b.toList ++ '/' :: c.toList ≠ [] := by simp [hbl]
  have hxr : isAbs (b.toList ++ '/' :: c.toList) = false := by rw [isAbs_append _ _ hbl]; exact hr
  rw [hinner]
  by_cases ha : a.toList = []
  · simp only [joinElems, List.dropWhile, ha, decide_true, clean_ne_nil, hbl, decide_false]
    simp [clean_idem]
  · simp only [joinElems, List.dropWhile, ha, decide_false]
    simp only [List.flatMap_cons, List.flatMap_nil, List.append_nil]
    have := clean_join_clean a.toList _ ha hx0 hxr
    rw [this]
    simp

end GceTcb.Paths
