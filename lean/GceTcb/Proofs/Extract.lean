import GceTcb.Model.Extract
/-
Helper lemmas for C16 (names, URLs, extraction decision logic, path confinement). Core-only.
-/
namespace GceTcb.Extract
open GceTcb

/-! ## Hex encoding is injective -/

theorem hexDigit_inj : ∀ i j : Fin 16, hexDigit i.val = hexDigit j.val → i = j := by decide

theorem hexByte_toList (b : UInt8) :
    (hexByte b).toList = [hexDigit (b.toNat / 16), hexDigit (b.toNat % 16)] := by
  simp [hexByte]

theorem hexEncode_toList (bs : Bytes) :
    (hexEncode bs).toList = bs.flatMap (fun b => [hexDigit (b.toNat / 16), hexDigit (b.toNat % 16)]) := by
  simp [hexEncode, String.toList_join, List.flatMap_map, hexByte_toList]

theorem byte_of_nibbles (a b : UInt8) (h1 : hexDigit (a.toNat / 16) = hexDigit (b.toNat / 16))
    (h2 : hexDigit (a.toNat % 16) = hexDigit (b.toNat % 16)) : a = b := by
  have ha := a.toNat_lt
  have hb := b.toNat_lt
  have e1 := hexDigit_inj ⟨a.toNat / 16, by omega⟩ ⟨b.toNat / 16, by omega⟩ h1
  have e2 := hexDigit_inj ⟨a.toNat % 16, by omega⟩ ⟨b.toNat % 16, by omega⟩ h2
  have e1' : a.toNat / 16 = b.toNat / 16 := by simpa using congrArg Fin.val e1
  have e2' : a.toNat % 16 = b.toNat % 16 := by simpa using congrArg Fin.val e2
  apply UInt8.toNat_inj.mp
  omega

/-- `hexEncode` is injective on ALL byte lists (any lengths). -/
theorem hex_injective (a b : Bytes) (h : hexEncode a = hexEncode b) : a = b := by
  have h' : (hexEncode a).toList = (hexEncode b).toList := by rw [h]
  rw [hexEncode_toList, hexEncode_toList] at h'
  clear h
  induction a generalizing b with
  | nil =>
    cases b with
    | nil => rfl
    | cons y ys => simp at h'
  | cons x xs ih =>
    cases b with
    | nil => simp at h'
    | cons y ys =>
      simp only [List.flatMap_cons, List.cons_append, List.nil_append, List.cons.injEq] at h'
      obtain ⟨h1, h2, h3⟩ := h'
      rw [byte_of_nibbles x y h1 h2, ih ys h3]

theorem hexEncode_length (bs : Bytes) : (hexEncode bs).toList.length = 2 * bs.length := by
  rw [hexEncode_toList]
  induction bs with
  | nil => rfl
  | cons x xs ih => simp only [List.flatMap_cons, List.length_append, List.length_cons, List.length_nil, ih]; omega

/-! ## Strings as character lists -/

theorem str_append_cancel_left (p a b : String) (h : p ++ a = p ++ b) : a = b :=
  (String.append_right_inj p).mp h

theorem str_append_cancel_right (s a b : String) (h : a ++ s = b ++ s) : a = b :=
  (String.append_left_inj s).mp h

/-- Two lists that agree up to the first occurrence of a separator `c` absent from both heads have
    equal heads and equal tails. -/
theorem split_at_sep {α : Type} (c : α) :
    ∀ (l1 l2 r1 r2 : List α), c ∉ l1 → c ∉ l2 → l1 ++ c :: r1 = l2 ++ c :: r2 → l1 = l2 ∧ r1 = r2 := by
  intro l1
  induction l1 with
  | nil =>
    intro l2 r1 r2 _ h2 h
    cases l2 with
    | nil => simpa using h
    | cons y ys =>
      simp only [List.nil_append, List.cons_append, List.cons.injEq] at h
      exact absurd (h.1 ▸ List.mem_cons_self) h2
  | cons x xs ih =>
    intro l2 r1 r2 h1 h2 h
    cases l2 with
    | nil =>
      simp only [List.nil_append, List.cons_append, List.cons.injEq] at h
      exact absurd (h.1 ▸ List.mem_cons_self) h1
    | cons y ys =>
      simp only [List.cons_append, List.cons.injEq] at h
      have := ih ys r1 r2 (fun hm => h1 (List.mem_cons_of_mem _ hm)) (fun hm => h2 (List.mem_cons_of_mem _ hm)) h.2
      exact ⟨by rw [h.1, this.1], this.2⟩

/-! ## Object names -/

theorem objectName_toList (p t e : String) (m : Bytes) :
    (objectName p t e m).toList = p.toList ++ '/' :: (t.toList ++ '/' :: ((hexEncode m).toList ++ e.toList)) := by
  simp [objectName, String.toList_append]

/-- Same family prefix, technology and extension: the name determines the measurement. -/
theorem objectName_injective (p t e : String) (a b : Bytes) (h : objectName p t e a = objectName p t e b) : a = b := by
  unfold objectName at h
  have h1 := str_append_cancel_right e _ _ h
  have h2 := str_append_cancel_left _ _ _ h1
  exact hex_injective a b h2

/-- Names under different '/'-free family prefixes differ, whatever the rest. -/
theorem objectName_prefix_separated (p1 p2 t1 t2 e1 e2 : String) (a b : Bytes)
    (hp1 : '/' ∉ p1.toList) (hp2 : '/' ∉ p2.toList) (hne : p1 ≠ p2) :
    objectName p1 t1 e1 a ≠ objectName p2 t2 e2 b := by
  intro h
  have h' := congrArg String.toList h
  rw [objectName_toList, objectName_toList] at h'
  exact hne (String.toList_inj.mp (split_at_sep '/' _ _ _ _ hp1 hp2 h').1)

/-- Names under the same '/'-free family prefix but different '/'-free technology segments differ. -/
theorem objectName_tech_separated (p t1 t2 e1 e2 : String) (a b : Bytes)
    (hp : '/' ∉ p.toList) (ht1 : '/' ∉ t1.toList) (ht2 : '/' ∉ t2.toList) (hne : t1 ≠ t2) :
    objectName p t1 e1 a ≠ objectName p t2 e2 b := by
  intro h
  have h' := congrArg String.toList h
  rw [objectName_toList, objectName_toList] at h'
  have h2 := (split_at_sep '/' _ _ _ _ hp hp h').2
  exact hne (String.toList_inj.mp (split_at_sep '/' _ _ _ _ ht1 ht2 h2).1)

theorem gceTcbURL_injective (a b : String) (h : gceTcbURL a = gceTcbURL b) : a = b :=
  str_append_cancel_left _ _ _ h

theorem objectName_ne_empty (p t e : String) (m : Bytes) : objectName p t e m ≠ "" := by
  intro h
  have h' := congrArg String.toList h
  rw [objectName_toList] at h'
  simp at h'

/-! ## Event selection -/

theorem findSome_mem {α β : Type} (f : α → Option β) (l : List α) (b : β) (h : l.findSome? f = some b) :
    ∃ a ∈ l, f a = some b := by
  induction l with
  | nil => simp at h
  | cons x xs ih =>
    simp only [List.findSome?_cons] at h
    cases hx : f x with
    | some v =>
      rw [hx] at h
      exact ⟨x, List.mem_cons_self, by rw [hx]; exact h⟩
    | none =>
      rw [hx] at h
      obtain ⟨a, ha, hfa⟩ := ih h
      exact ⟨a, List.mem_cons_of_mem _ ha, hfa⟩

/-- The selected event is an EV_NO_ACTION SP800-155 event of the log that matches the manufacturer
    filter and whose locator type is in the precedence list. -/
theorem selectEventBy_sound (prec : List Nat) (mfr : Bytes) (evs : List LogEvent) (e : RimEvent)
    (h : selectEventBy prec mfr evs = some e) :
    e ∈ rimEvents evs ∧ manufacturerMatches mfr e = true ∧ e.locType ∈ prec := by
  unfold selectEventBy at h
  obtain ⟨t, ht, hf⟩ := findSome_mem _ _ _ h
  have hm := List.mem_of_find?_eq_some hf
  have hp := List.find?_some hf
  rw [List.mem_filter] at hm
  refine ⟨hm.1, hp, ?_⟩
  have : e.locType = t := by simpa using hm.2
  rw [this]; exact ht

/-- Precedence: when type `t` comes first in the precedence list and some matching event of type `t`
    exists, the selected event has type `t` and is the first such event in log order. -/
theorem selectEventBy_head (t : Nat) (rest : List Nat) (mfr : Bytes) (evs : List LogEvent) (e : RimEvent)
    (h : ((rimEvents evs).filter (fun x => x.locType == t)).find? (manufacturerMatches mfr) = some e) :
    selectEventBy (t :: rest) mfr evs = some e := by
  simp only [selectEventBy, List.findSome?_cons, h]

/-- Precedence: when no matching event of the first type exists, selection continues with the rest. -/
theorem selectEventBy_skip (t : Nat) (rest : List Nat) (mfr : Bytes) (evs : List LogEvent)
    (h : ((rimEvents evs).filter (fun x => x.locType == t)).find? (manufacturerMatches mfr) = none) :
    selectEventBy (t :: rest) mfr evs = selectEventBy rest mfr evs := by
  simp only [selectEventBy, List.findSome?_cons, h]

/-! ## readVariable / locate: what is opened and requested -/

theorem readVariable_urls (env : Env) (root : String) (g n : Bytes) : (readVariable env root g n).urls = [] := by
  unfold readVariable
  split
  · split
    · rfl
    · split <;> rfl
  · rfl
  · rfl

theorem readVariable_paths (env : Env) (root : String) (g n : Bytes) (p : String)
    (hp : p ∈ (readVariable env root g n).paths) :
    ∃ u, env.secureJoin root u = some p := by
  unfold readVariable at hp
  split at hp
  next q hq =>
    have hq' : ∃ u, env.secureJoin root u = some q := by
      unfold varBasename at hq
      split at hq
      · next b _ =>
        split at hq
        · next q' hj => exact ⟨_, by simpa [Outcome.ok.injEq] using (by injection hq with hq; rw [← hq]; exact hj)⟩
        · simp at hq
      · simp at hq
      · simp at hq
    have : p = q := by
      split at hp
      · simpa using hp
      · split at hp <;> simpa using hp
    rw [this]; exact hq'
  · simp at hp
  · simp at hp

end GceTcb.Extract

namespace GceTcb.Extract
open GceTcb

/-! ## Shapes of the phases of `extract.Endorsement` -/

theorem fromQuote_name (t : Option Tee) (b : Bytes) (n : String) (h : fromQuote t = some (b, some n)) :
    ∃ tee, t = some tee ∧ (teeMeasurement tee).length = 48 ∧ n = teeObjectName tee := by
  unfold fromQuote at h
  split at h
  · simp at h
  · next m x =>
    simp only [Option.some.injEq, Prod.mk.injEq] at h
    by_cases hl : m.length = Gen.Names.sevMeasurementSize
    · rw [if_pos hl] at h
      exact ⟨.sev m x, rfl, hl, by simpa [teeObjectName] using h.2.symm⟩
    · rw [if_neg hl] at h; simp at h
  · next m =>
    simp only [Option.some.injEq, Prod.mk.injEq] at h
    by_cases hl : m.length = Gen.Names.tdxMrTdSize
    · rw [if_pos hl] at h
      exact ⟨.tdx m, rfl, hl, by simpa [teeObjectName] using h.2.symm⟩
    · rw [if_neg hl] at h; simp at h

/-- The fetch phase (fixed code) requests nothing, or exactly the URL of the object name it was given. -/
theorem fetchPhase_shape (env : Env) (o : Options) (name : Option String) (urls : List Url) (paths : List String) (pv : Nat) :
    ((fetchPhase false env o name urls paths pv).urls = urls ∧
        (∃ c, (fetchPhase false env o name urls paths pv).out = .err c)) ∨
    (∃ n, name = some n ∧ o.hasGetter = true ∧
      (fetchPhase false env o name urls paths pv).urls = urls ++ [.derived (gceTcbURL n)]) := by
  unfold fetchPhase
  by_cases hg : o.hasGetter = true
  · rw [if_pos hg]
    cases name with
    | none => left; exact ⟨rfl, _, rfl⟩
    | some n =>
      right
      refine ⟨n, rfl, hg, ?_⟩
      simp only [Bool.false_eq_true, if_false]
      cases env.get (.derived (gceTcbURL n)) <;> rfl
  · rw [if_neg hg]; left; exact ⟨rfl, _, rfl⟩

theorem fetchPhase_paths (b : Bool) (env : Env) (o : Options) (name : Option String) (urls : List Url) (paths : List String) (pv : Nat) :
    (fetchPhase b env o name urls paths pv).paths = paths := by
  unfold fetchPhase
  split
  · split
    · rfl
    · split <;> rfl
  · rfl

theorem providerPhase_paths (fq : Option Tee → Option (Bytes × Option String)) (b : Bool) (env : Env) (o : Options)
    (p : Option (Option Tee)) (urls : List Url) (paths : List String) :
    (providerPhase fq b env o p urls paths).paths = paths := by
  unfold providerPhase
  split
  · rfl
  · split
    · rfl
    · split
      · rfl
      · exact fetchPhase_paths ..

theorem quotePhase_paths (fq : Option Tee → Option (Bytes × Option String)) (b : Bool) (env : Env) (o : Options)
    (urls : List Url) (paths : List String) :
    (quotePhase fq b env o urls paths).paths = paths := by
  unfold quotePhase
  split
  · split
    · rfl
    · exact fetchPhase_paths ..
  · split
    · rfl
    · split
      · exact providerPhase_paths ..
      · exact fetchPhase_paths ..
  · split
    · exact providerPhase_paths ..
    · exact fetchPhase_paths ..

/-- URLs of the quote / provider / fetch phases (fixed code): the ones already requested, possibly
    followed by ONE URL derived from the object name of the supplied or the provided quote, whose
    measurement is then 48 bytes long. -/
theorem quotePhase_urls (env : Env) (o : Options) (urls : List Url) (paths : List String) :
    (quotePhase fromQuote false env o urls paths).urls = urls ∨
    ∃ tee, (o.quote = some tee ∨ o.provider = some (some (some tee))) ∧ (teeMeasurement tee).length = 48 ∧
      o.hasGetter = true ∧
      (quotePhase fromQuote false env o urls paths).urls = urls ++ [.derived (gceTcbURL (teeObjectName tee))] := by
  have viaFetch : ∀ (t : Option Tee) (b : Bytes) (name : Option String) (pv : Nat), fromQuote t = some (b, name) →
      (o.quote = t ∨ o.provider = some (some t)) →
      (fetchPhase false env o name urls paths pv).urls = urls ∨
      ∃ tee, (o.quote = some tee ∨ o.provider = some (some (some tee))) ∧ (teeMeasurement tee).length = 48 ∧
        o.hasGetter = true ∧
        (fetchPhase false env o name urls paths pv).urls = urls ++ [.derived (gceTcbURL (teeObjectName tee))] := by
    intro t b name pv hq hsrc
    rcases fetchPhase_shape env o name urls paths pv with h | ⟨n, hn, hg, hu⟩
    · left; exact h.1
    · right
      subst hn
      obtain ⟨tee, ht, hl, hname⟩ := fromQuote_name t b n hq
      subst ht
      refine ⟨tee, hsrc, hl, hg, ?_⟩
      rw [hu, hname]
  have viaProvider : ∀ (p : Option (Option Tee)), o.provider = some p →
      (providerPhase fromQuote false env o p urls paths).urls = urls ∨
      ∃ tee, (o.quote = some tee ∨ o.provider = some (some (some tee))) ∧ (teeMeasurement tee).length = 48 ∧
        o.hasGetter = true ∧
        (providerPhase fromQuote false env o p urls paths).urls = urls ++ [.derived (gceTcbURL (teeObjectName tee))] := by
    intro p hp
    unfold providerPhase
    cases p with
    | none => left; rfl
    | some t =>
      simp only
      cases hq : fromQuote t with
      | none => left; rfl
      | some bn =>
        obtain ⟨b, name⟩ := bn
        simp only
        split
        · left; rfl
        · exact viaFetch t b name 1 hq (Or.inr hp)
  have noName : ∀ (name : Option String) (pv : Nat), name = none →
      (fetchPhase false env o name urls paths pv).urls = urls := by
    intro name pv hn
    rcases fetchPhase_shape env o name urls paths pv with h | ⟨n, hn', _, _⟩
    · exact h.1
    · rw [hn] at hn'; simp at hn'
  unfold quotePhase
  cases hq : fromQuote o.quote with
  | none =>
    simp only
    split
    · next p hp => exact viaProvider p hp
    · left; exact noName none 0 rfl
  | some bn =>
    obtain ⟨b, name⟩ := bn
    cases name with
    | some n =>
      simp only
      split
      · left; rfl
      · exact viaFetch o.quote b (some n) 0 hq (Or.inl rfl)
    | none =>
      simp only
      split
      · left; rfl
      · split
        · next p hp => exact viaProvider p hp
        · left; exact noName none 0 rfl

/-- The event-log phase: no effect and an error, or the `Locate` of the selected event. -/
theorem fromEventLog_cases (env : Env) (o : Options) :
    (∃ c, fromEventLog env o = { out := .err c }) ∨
    (∃ evs e, o.eventLog = some (.parsed evs) ∧ selectEvent o.manufacturer evs = some e ∧
      fromEventLog env o = locate env o e) := by
  unfold fromEventLog
  split
  · left; exact ⟨_, rfl⟩
  · left; exact ⟨_, rfl⟩
  · next evs hel =>
    split
    · next e he => right; exact ⟨evs, e, hel, he, rfl⟩
    · left; exact ⟨_, rfl⟩

/-- `Locate` requests a URL only for a URI locator, and then exactly the locator's bytes. -/
theorem locate_urls (env : Env) (o : Options) (e : RimEvent) :
    (locate env o e).urls = [] ∨
    (e.locType = Gen.Names.rimLocationURI ∧ o.hasGetter = true ∧ (locate env o e).urls = [.verbatim e.locator]) := by
  unfold locate
  split
  · left; rfl
  · split
    · next hu =>
      split
      · right
        refine ⟨hu, by assumption, ?_⟩
        split <;> rfl
      · left; rfl
    · split
      · split
        · left; rfl
        · split
          · left; rfl
          · left; exact readVariable_urls ..
      · left; rfl

/-- `Locate` opens a path only through the variable reader. -/
theorem locate_paths (env : Env) (o : Options) (e : RimEvent) (p : String) (hp : p ∈ (locate env o e).paths) :
    ∃ root u, o.reader = some root ∧ env.secureJoin root u = some p := by
  unfold locate at hp
  split at hp
  · simp at hp
  · split at hp
    · split at hp
      · split at hp <;> simp at hp
      · simp at hp
    · split at hp
      · split at hp
        · simp at hp
        · split at hp
          · simp at hp
          · next root hr =>
            obtain ⟨u, hu⟩ := readVariable_paths env root _ _ p hp
            exact ⟨root, u, hr, hu⟩
      · simp at hp

theorem fromEventLog_paths (env : Env) (o : Options) (p : String) (hp : p ∈ (fromEventLog env o).paths) :
    ∃ root u, o.reader = some root ∧ env.secureJoin root u = some p := by
  rcases fromEventLog_cases env o with ⟨c, h⟩ | ⟨evs, e, _, _, h⟩
  · rw [h] at hp; simp at hp
  · rw [h] at hp; exact locate_paths env o e p hp

/-- Paths of the whole extraction are those of the event-log phase. -/
theorem endorsementWith_paths (fq : Option Tee → Option (Bytes × Option String)) (b : Bool) (env : Env) (o : Options)
    (p : String) (hp : p ∈ (endorsementWith fq b env o).paths) : p ∈ (fromEventLog env o).paths := by
  unfold endorsementWith at hp
  split at hp
  · split at hp
    · exact hp
    · exact hp
    · rw [quotePhase_paths] at hp; exact hp
  · rw [quotePhase_paths] at hp; simp at hp

end GceTcb.Extract
