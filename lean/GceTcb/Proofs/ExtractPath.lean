import GceTcb.Model.Extract
/-
Helper lemmas for C16: the lexical secure join (filepath-securejoin on a root without symbolic
links) meets the contract "the result is lexically inside root". Core-only.
-/
namespace GceTcb.Extract
open GceTcb

theorem splitSlash_no_slash (l : List Char) : ∀ p ∈ splitSlash l, '/' ∉ p := by
  induction l with
  | nil => intro p hp; simp [splitSlash] at hp; rw [hp]; simp
  | cons c cs ih =>
    intro p hp
    unfold splitSlash at hp
    by_cases hc : c = '/'
    · rw [if_pos hc] at hp
      rcases List.mem_cons.mp hp with h | h
      · rw [h]; simp
      · exact ih p h
    · rw [if_neg hc] at hp
      cases hs : splitSlash cs with
      | nil => rw [hs] at hp; simp at hp; rw [hp]; simp; exact fun h => hc h.symm
      | cons q qs =>
        rw [hs] at hp ih
        rcases List.mem_cons.mp hp with h | h
        · rw [h]
          intro hm
          rcases List.mem_cons.mp hm with h' | h'
          · exact hc h'.symm
          · exact ih q List.mem_cons_self h'
        · exact ih p (List.mem_cons_of_mem _ h)

/-- Components accepted into the path being built. -/
def GoodComp (c : String) : Prop := c ≠ "" ∧ c ≠ "." ∧ c ≠ ".." ∧ '/' ∉ c.toList

theorem sjStep_good (cur : List String) (part : String) (cur' : List String)
    (hpart : '/' ∉ part.toList) (hcur : ∀ c ∈ cur, GoodComp c) (h : sjStep cur part = some cur') :
    ∀ c ∈ cur', GoodComp c := by
  unfold sjStep at h
  split at h
  · simp only [Option.some.injEq] at h; rw [← h]; exact hcur
  · next h1 =>
    split at h
    · simp only [Option.some.injEq] at h; rw [← h]
      intro c hc; exact hcur c (List.dropLast_subset _ hc)
    · next h2 =>
      split at h
      · simp at h
      · simp only [Option.some.injEq] at h; rw [← h]
        intro c hc
        rcases List.mem_append.mp hc with h' | h'
        · exact hcur c h'
        · simp only [List.mem_singleton] at h'
          rw [h']
          exact ⟨fun e => h1 (Or.inl e), fun e => h1 (Or.inr e), h2, hpart⟩

theorem sjFold_good (parts : List String) (cur res : List String)
    (hparts : ∀ p ∈ parts, '/' ∉ p.toList) (hcur : ∀ c ∈ cur, GoodComp c) (h : sjFold cur parts = some res) :
    ∀ c ∈ res, GoodComp c := by
  induction parts generalizing cur with
  | nil => simp only [sjFold, Option.some.injEq] at h; rw [← h]; exact hcur
  | cons p ps ih =>
    unfold sjFold at h
    split at h
    · simp at h
    · next cur' hs =>
      exact ih cur' (fun q hq => hparts q (List.mem_cons_of_mem _ hq))
        (sjStep_good cur p cur' (hparts p List.mem_cons_self) hcur hs) h

/-- The lexical secure join satisfies the contract of the `secureJoin` parameter, for every root and
    every unsafe path. -/
theorem secureJoinLex_inside (root u p : String) (h : secureJoinLex root u = some p) : Inside root p := by
  unfold secureJoinLex at h
  cases hf : sjFold [] ((splitSlash u.toList).map String.ofList) with
  | none => rw [hf] at h; simp at h
  | some comps =>
    rw [hf] at h
    simp only [Option.map_some, Option.some.injEq] at h
    refine ⟨comps, h.symm, ?_⟩
    have := sjFold_good _ [] comps (by
      intro q hq
      rw [List.mem_map] at hq
      obtain ⟨l, hl, rfl⟩ := hq
      rw [String.toList_ofList]
      exact splitSlash_no_slash _ l hl) (by intro c hc; simp at hc) hf
    exact this

end GceTcb.Extract
