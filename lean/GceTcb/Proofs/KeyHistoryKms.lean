import GceTcb.Model.KeyHistoryKms
import GceTcb.Spec.KeyHistoryKms
import GceTcb.Proofs.KeyHistory
/-
Helper lemmas for C12 on the Cloud KMS manager (Model/KeyHistoryKms.lean): the service operations only move
key versions FORWARD (PENDING_GENERATION → ENABLED → DISABLED / DESTROY_SCHEDULED → DESTROYED) and only add
versions under new numbers; the certificate-authority lemmas are those of Proofs/KeyHistory.lean.  Core-only.
-/
namespace GceTcb.KeyHistory.KmsH
open GceTcb.Gen GceTcb.KeyHistory

/-! ### states -/

def VSt.usable : VSt → Bool
  | .enabled => true
  | .pending _ => true
  | _ => false

def VSt.isPending : VSt → Bool
  | .pending _ => true
  | _ => false

/-- `b` is `a` or a later state of the same version (nothing re-enables, nothing returns to PENDING). -/
def VSt.le (a b : VSt) : Prop :=
  (b.usable = true → a.usable = true) ∧ (b.isPending = true → a.isPending = true) ∧
  (b = .enabled → a = .enabled ∨ a.isPending = true)

theorem VSt.le_refl (a : VSt) : VSt.le a a := ⟨id, id, fun h => Or.inl h⟩

theorem VSt.le_trans {a b c : VSt} (h1 : VSt.le a b) (h2 : VSt.le b c) : VSt.le a c := by
  refine ⟨fun h => h1.1 (h2.1 h), fun h => h1.2.1 (h2.2.1 h), fun h => ?_⟩
  rcases h2.2.2 h with e | e
  · exact h1.2.2 e
  · exact Or.inr (h1.2.1 e)

/-- The service moved forward: every version that existed still exists, in the same or a later state, with
    the same key material; version counts did not decrease. -/
def Prog (s s' : Svc) : Prop :=
  (∀ n, s.has n = true → s'.has n = true ∧ VSt.le (s.ver n).st (s'.ver n).st ∧ (s'.ver n).mat = (s.ver n).mat) ∧
  (∀ k, s.keys.contains k = true → s'.keys.contains k = true ∧ s.count k ≤ s'.count k)

theorem Prog.refl (s : Svc) : Prog s s :=
  ⟨fun _ h => ⟨h, VSt.le_refl _, rfl⟩, fun _ h => ⟨h, Nat.le_refl _⟩⟩

theorem Prog.trans {a b c : Svc} (h1 : Prog a b) (h2 : Prog b c) : Prog a c := by
  refine ⟨fun n hn => ?_, fun k hk => ⟨(h2.2 k (h1.2 k hk).1).1, Nat.le_trans (h1.2 k hk).2 (h2.2 k (h1.2 k hk).1).2⟩⟩
  obtain ⟨x1, x2, x3⟩ := h1.1 n hn
  obtain ⟨y1, y2, y3⟩ := h2.1 n x1
  exact ⟨y1, VSt.le_trans x2 y2, y3.trans x3⟩

theorem has_iff (s : Svc) (n : KName) :
    s.has n = true ↔ s.keys.contains n.base = true ∧ 1 ≤ n.idx ∧ n.idx ≤ s.count n.base := by
  simp [Svc.has, and_assoc]

theorem has_set (s : Svc) (n m : KName) (v : Ver) : (s.set n v).has m = s.has m := rfl

theorem ver_set (s : Svc) (n m : KName) (v : Ver) : (s.set n v).ver m = if m = n then v else s.ver m := rfl

/-- overwriting an existing version with a later state -/
theorem Prog_set {s : Svc} {n : KName} {v : Ver} (hle : VSt.le (s.ver n).st v.st) (hm : v.mat = (s.ver n).mat) :
    Prog s (s.set n v) := by
  refine ⟨fun m hm' => ⟨hm', ?_, ?_⟩, fun _ h => ⟨h, Nat.le_refl _⟩⟩
  · rw [ver_set]
    by_cases e : m = n
    · simp only [e, if_true]; exact hle
    · simp only [e, if_false]; exact VSt.le_refl _
  · rw [ver_set]
    by_cases e : m = n
    · simp only [e, if_true]; exact hm
    · simp only [e, if_false]

theorem nextName_not_has (s : Svc) (k : String) : s.has (s.nextName k) = false := by
  cases h : s.has (s.nextName k) with
  | false => rfl
  | true =>
    have := (has_iff s _).mp h
    simp only [Svc.nextName] at this
    omega

theorem Prog_create (e : Env) (s : Svc) (k : String) : Prog s (s.create e k) := by
  refine ⟨fun n hn => ?_, fun x hx => ⟨hx, ?_⟩⟩
  · have hne : n ≠ ⟨k, s.count k + 1⟩ := by
      intro e'; rw [e'] at hn
      have := nextName_not_has s k
      simp only [Svc.nextName] at this
      rw [this] at hn; cases hn
    obtain ⟨h1, h2, h3⟩ := (has_iff s n).mp hn
    refine ⟨(has_iff _ n).mpr ⟨h1, h2, ?_⟩, ?_, ?_⟩
    · simp only [Svc.create]
      by_cases e' : n.base = k
      · simp only [e', if_true]; rw [e'] at h3; omega
      · simp only [e', if_false]; exact h3
    · simp only [Svc.create, hne, if_false]; exact VSt.le_refl _
    · simp only [Svc.create, hne, if_false]
  · simp only [Svc.create]
    by_cases e' : x = k
    · simp only [e', if_true]; omega
    · simp only [e', if_false]; exact Nat.le_refl _

theorem has_create (e : Env) (s : Svc) (k : String) (hk : s.keys.contains k = true) :
    (s.create e k).has (s.nextName k) = true := by
  apply (has_iff _ _).mpr
  refine ⟨hk, ?_, ?_⟩ <;> simp [Svc.create, Svc.nextName]

theorem ver_create_next (e : Env) (s : Svc) (k : String) :
    (s.create e k).ver (s.nextName k) = ⟨e.createdSt, s.next⟩ := by
  simp [Svc.create, Svc.nextName]

theorem Prog_addKey (e : Env) (s : Svc) (k : String) (hk : s.keys.contains k = false) : Prog s (s.addKey e k) := by
  refine ⟨fun n hn => ?_, fun x hx => ?_⟩
  · obtain ⟨h1, h2, h3⟩ := (has_iff s n).mp hn
    have hb : n.base ≠ k := by intro e'; rw [e', hk] at h1; cases h1
    have hne : n ≠ ⟨k, 1⟩ := by intro e'; rw [e'] at hb; exact hb rfl
    refine ⟨(has_iff _ n).mpr ⟨?_, h2, ?_⟩, ?_, ?_⟩
    · simp only [Svc.addKey, List.contains_eq_mem, List.mem_append, decide_eq_true_eq]
      left; simpa using h1
    · simp only [Svc.addKey, hb, if_false]; exact h3
    · simp only [Svc.addKey, hne, if_false]; exact VSt.le_refl _
    · simp only [Svc.addKey, hne, if_false]
  · have hb : x ≠ k := by intro e'; rw [e', hk] at hx; cases hx
    refine ⟨?_, ?_⟩
    · simp only [Svc.addKey, List.contains_eq_mem, List.mem_append, decide_eq_true_eq]
      left; simpa using hx
    · simp only [Svc.addKey, hb, if_false]; exact Nat.le_refl _

/-! ### waitForKeyVersionGen, the listing scan, waitForKeyGen -/

theorem has_of_ver? {s : Svc} {n : KName} {v : Ver} (h : s.ver? n = some v) : s.has n = true ∧ s.ver n = v := by
  unfold Svc.ver? at h
  by_cases hh : s.has n = true
  · simp only [hh, if_true, Option.some.injEq] at h; exact ⟨hh, h⟩
  · simp [hh] at h

theorem ver?_of_has {s : Svc} {n : KName} (h : s.has n = true) : s.ver? n = some (s.ver n) := by
  simp [Svc.ver?, h]

theorem signer?_usable' {s : Svc} {n : KName} {k : Nat} (h : s.signer? n = some k) :
    s.has n = true ∧ (s.ver n).st.usable = true := by
  unfold Svc.signer? at h
  cases hv : s.ver? n with
  | none => simp [hv] at h
  | some v =>
    obtain ⟨hh, hvv⟩ := has_of_ver? hv
    obtain ⟨st, m⟩ := v
    rw [hv] at h
    cases st <;> simp at h
    exact ⟨hh, by rw [hvv]; rfl⟩

/-- waitForKeyVersionGen moves the polled version forward and nothing else; when it returns a name the
    version is ENABLED. -/
theorem waitGen_spec (e : Env) (s : Svc) (n : KName) :
    Prog s (waitGen e s n).1 ∧
    ((waitGen e s n).2 = true → (waitGen e s n).1.has n = true ∧ ((waitGen e s n).1.ver n).st = .enabled) ∧
    (waitGen e s n).1.next = s.next := by
  unfold waitGen
  cases hv : s.ver? n with
  | none => exact ⟨Prog.refl _, fun h => (by cases h), rfl⟩
  | some v =>
    obtain ⟨hh, hvv⟩ := has_of_ver? hv
    simp only []
    cases hst : v.st with
    | enabled => exact ⟨Prog.refl _, fun _ => ⟨hh, (by rw [hvv]; exact hst)⟩, rfl⟩
    | disabled => exact ⟨Prog.refl _, fun h => (by cases h), rfl⟩
    | scheduled => exact ⟨Prog.refl _, fun h => (by cases h), rfl⟩
    | destroyed => exact ⟨Prog.refl _, fun h => (by cases h), rfl⟩
    | pending g =>
      have hp : (s.ver n).st = .pending g := by rw [hvv]; exact hst
      cases g with
      | zero =>
        refine ⟨Prog_set ⟨fun _ => (by rw [hp]; rfl), fun h => (by cases h), fun _ => Or.inr (by rw [hp]; rfl)⟩ (by rw [hvv]),
          fun _ => ⟨hh, (by simp [ver_set])⟩, rfl⟩
      | succ g =>
        by_cases hd : e.deadline = true
        · simp only [hd, if_true]
          exact ⟨Prog_set ⟨fun _ => (by rw [hp]; rfl), fun _ => (by rw [hp]; rfl), fun h => (by cases h)⟩ (by rw [hvv]),
            fun h => (by cases h), rfl⟩
        · simp only [hd]
          exact ⟨Prog_set ⟨fun _ => (by rw [hp]; rfl), fun h => (by cases h), fun _ => Or.inr (by rw [hp]; rfl)⟩ (by rw [hvv]),
            fun _ => ⟨hh, (by simp [ver_set])⟩, rfl⟩

/-- the inner loop returns an index of the scanned range whose version is ENABLED, or remembers one of the range -/
theorem scanFrom_spec (st : Nat → VSt) (todo i : Nat) (pend : Option Nat) :
    (∀ j, scanFrom st todo i pend = .ret j → i ≤ j ∧ j < i + todo ∧ st j = .enabled) ∧
    (∀ j, scanFrom st todo i pend = .cont (some j) → pend = some j ∨ (i ≤ j ∧ j < i + todo)) := by
  induction todo generalizing i pend with
  | zero =>
    refine ⟨fun j h => by simp [scanFrom] at h, fun j h => ?_⟩
    simp only [scanFrom, Scan.cont.injEq] at h; exact Or.inl h
  | succ t ih =>
    unfold scanFrom
    cases hs : st i with
    | enabled =>
      refine ⟨fun j h => ?_, fun j h => by simp at h⟩
      simp only [Scan.ret.injEq] at h; subst h; exact ⟨Nat.le_refl _, by omega, hs⟩
    | pending g =>
      simp only []
      refine ⟨fun j h => ?_, fun j h => ?_⟩
      · obtain ⟨a, b, c⟩ := (ih (i + 1) (some i)).1 j h; exact ⟨by omega, by omega, c⟩
      · rcases (ih (i + 1) (some i)).2 j h with e | ⟨a, b⟩
        · simp only [Option.some.injEq] at e; right; omega
        · right; omega
    | disabled =>
      simp only []
      refine ⟨fun j h => ?_, fun j h => ?_⟩
      · obtain ⟨a, b, c⟩ := (ih (i + 1) pend).1 j h; exact ⟨by omega, by omega, c⟩
      · rcases (ih (i + 1) pend).2 j h with e | ⟨a, b⟩
        · exact Or.inl e
        · right; omega
    | scheduled =>
      simp only []
      refine ⟨fun j h => ?_, fun j h => ?_⟩
      · obtain ⟨a, b, c⟩ := (ih (i + 1) pend).1 j h; exact ⟨by omega, by omega, c⟩
      · rcases (ih (i + 1) pend).2 j h with e | ⟨a, b⟩
        · exact Or.inl e
        · right; omega
    | destroyed =>
      simp only []
      refine ⟨fun j h => ?_, fun j h => ?_⟩
      · obtain ⟨a, b, c⟩ := (ih (i + 1) pend).1 j h; exact ⟨by omega, by omega, c⟩
      · rcases (ih (i + 1) pend).2 j h with e | ⟨a, b⟩
        · exact Or.inl e
        · right; omega

/-- bootstrap.go's shortcut on the response of CreateCryptoKeyVersion changes nothing as long as the response
    reports the state the version is in: polling a version that is ENABLED returns at once -/
theorem createAndWait_eq (e : Env) (s : Svc) (k : String) (hk : s.keys.contains k = true) :
    createAndWait e s k =
      ((waitGen e (s.create e k) (s.nextName k)).1,
       if (waitGen e (s.create e k) (s.nextName k)).2 then some (s.nextName k) else none) := by
  unfold createAndWait
  by_cases hc : e.createdSt = .enabled
  · rw [if_pos hc]
    have hw : waitGen e (s.create e k) (s.nextName k) = (s.create e k, true) := by
      unfold waitGen
      rw [ver?_of_has (has_create e s k hk), ver_create_next, hc]
    rw [hw]
    rfl
  · rw [if_neg hc]

/-- What a key-creating step of bootstrap returns: the service only moved forward, and a returned name is an
    existing ENABLED version of the requested cryptoKey. -/
def KeyStepOK (k : String) (s : Svc) (r : Svc × Option KName) : Prop :=
  Prog s r.1 ∧ ∀ n, r.2 = some n → n.base = k ∧ r.1.has n = true ∧ (r.1.ver n).st = .enabled

theorem waitForKeyGen_spec (e : Env) (s : Svc) (k : String) : KeyStepOK k s (waitForKeyGen e s k) := by
  unfold waitForKeyGen
  by_cases h0 : (!s.keys.contains k || decide (s.count k = 0)) = true
  · rw [if_pos h0]; exact ⟨Prog.refl _, fun n h => by cases h⟩
  · rw [if_neg h0]
    simp only [Bool.or_eq_true, Bool.not_eq_true', decide_eq_true_eq, not_or] at h0
    have hk : s.keys.contains k = true := by simpa using h0.1
    cases hsc : scan s k with
    | ret i =>
      simp only []
      refine ⟨Prog.refl _, fun n h => ?_⟩
      simp only [Option.some.injEq] at h; subst h
      obtain ⟨a, b, c⟩ := (scanFrom_spec _ _ _ _).1 i hsc
      exact ⟨rfl, (has_iff _ _).mpr ⟨hk, a, by simp only []; omega⟩, c⟩
    | cont p =>
      cases p with
      | some i =>
        simp only []
        obtain ⟨w1, w2, _⟩ := waitGen_spec e s ⟨k, i⟩
        refine ⟨w1, fun n h => ?_⟩
        by_cases hw : (waitGen e s ⟨k, i⟩).2 = true
        · simp only [hw, if_true, Option.some.injEq] at h; subst h
          exact ⟨rfl, w2 hw⟩
        · simp [hw] at h
      | none =>
        simp only []
        rw [createAndWait_eq e s k hk]
        obtain ⟨w1, w2, _⟩ := waitGen_spec e (s.create e k) (s.nextName k)
        refine ⟨(Prog_create e s k).trans w1, fun n h => ?_⟩
        by_cases hw : (waitGen e (s.create e k) (s.nextName k)).2 = true
        · simp only [hw, if_true, Option.some.injEq] at h; subst h
          exact ⟨rfl, w2 hw⟩
        · simp [hw] at h

theorem recreateCryptoKey_spec (f : Flags) (e : Env) (s : Svc) (k : String) : KeyStepOK k s (recreateCryptoKey f e s k) := by
  unfold recreateCryptoKey
  by_cases hk : s.keys.contains k = true
  · rw [if_pos hk]
    by_cases hg : f.keepGoing = true
    · rw [if_pos hg]; exact waitForKeyGen_spec e s k
    · rw [if_neg hg]; exact ⟨Prog.refl _, fun n h => by cases h⟩
  · rw [if_neg hk]
    obtain ⟨w1, w2⟩ := waitForKeyGen_spec e (s.addKey e k) k
    exact ⟨(Prog_addKey e s k (by simpa using hk)).trans w1, w2⟩

theorem Prog_ring (s : Svc) : Prog s { s with ring := true } :=
  ⟨fun _ h => ⟨h, VSt.le_refl _, rfl⟩, fun _ h => ⟨h, Nat.le_refl _⟩⟩

theorem createNewRootKey_spec (f : Flags) (e : Env) (s : Svc) (k : String) : KeyStepOK k s (createNewRootKey f e s k) := by
  unfold createNewRootKey
  by_cases h : (s.ring && !f.keepGoing) = true
  · rw [if_pos h]; exact ⟨Prog.refl _, fun n h => by cases h⟩
  · rw [if_neg h]
    obtain ⟨w1, w2⟩ := recreateCryptoKey_spec f e { s with ring := true } k
    exact ⟨(Prog_ring s).trans w1, w2⟩

theorem createFirstSigningKey_spec (f : Flags) (e : Env) (s : Svc) (k : String) :
    KeyStepOK k s (createFirstSigningKey f e s k) := recreateCryptoKey_spec f e s k

/-! ### DestroyCryptoKeyVersion, wipeout, external events -/

theorem destroy_spec (s : Svc) (n : KName) :
    Prog s (s.destroy n).1 ∧
    ((s.destroy n).2 = true → s.has n = true ∧ ((s.destroy n).1.ver n).st = .scheduled) ∧
    (s.has n = true → (s.ver n).st.isPending = false → ((s.destroy n).1.ver n).st.usable = false ∨
      ((s.destroy n).1 = s ∧ (s.ver n).st.usable = false)) := by
  unfold Svc.destroy
  cases hv : s.ver? n with
  | none =>
    refine ⟨Prog.refl _, fun h => (by cases h), fun hh _ => ?_⟩
    rw [ver?_of_has hh] at hv; cases hv
  | some v =>
    obtain ⟨hh, hvv⟩ := has_of_ver? hv
    obtain ⟨st, m⟩ := v
    have hst : (s.ver n).st = st := by rw [hvv]
    have hm : (s.ver n).mat = m := by rw [hvv]
    cases st with
    | enabled =>
      exact ⟨Prog_set ⟨fun h => (by cases h), fun h => (by cases h), fun h => (by cases h)⟩ hm.symm,
        fun _ => ⟨hh, (by simp [ver_set])⟩, fun _ _ => Or.inl (by simp [ver_set, VSt.usable])⟩
    | disabled =>
      exact ⟨Prog_set ⟨fun h => (by cases h), fun h => (by cases h), fun h => (by cases h)⟩ hm.symm,
        fun _ => ⟨hh, (by simp [ver_set])⟩, fun _ _ => Or.inl (by simp [ver_set, VSt.usable])⟩
    | scheduled =>
      exact ⟨Prog.refl _, fun h => (by cases h), fun _ _ => Or.inr ⟨rfl, (by rw [hst]; rfl)⟩⟩
    | destroyed =>
      exact ⟨Prog.refl _, fun h => (by cases h), fun _ _ => Or.inr ⟨rfl, (by rw [hst]; rfl)⟩⟩
    | pending g =>
      refine ⟨Prog.refl _, fun h => (by cases h), fun _ hp => ?_⟩
      rw [hst] at hp; cases hp

theorem wipeVer_le (v : Ver) : VSt.le v.st (wipeVer v).st ∧ (wipeVer v).mat = v.mat := by
  unfold wipeVer
  cases GceTcb.Kms.destroyableState v.st.code with
  | none => exact ⟨VSt.le_refl _, rfl⟩
  | some b =>
    cases b with
    | false => exact ⟨VSt.le_refl _, rfl⟩
    | true =>
      obtain ⟨st, m⟩ := v
      cases st with
      | enabled => exact ⟨⟨fun h => (by cases h), fun h => (by cases h), fun h => (by cases h)⟩, rfl⟩
      | disabled => exact ⟨⟨fun h => (by cases h), fun h => (by cases h), fun h => (by cases h)⟩, rfl⟩
      | scheduled => exact ⟨VSt.le_refl _, rfl⟩
      | destroyed => exact ⟨VSt.le_refl _, rfl⟩
      | pending g => exact ⟨VSt.le_refl _, rfl⟩

theorem Prog_wipeKeys (s : Svc) : Prog s (wipeKeys s).1 := by
  refine ⟨fun n hn => ⟨hn, ?_, ?_⟩, fun _ h => ⟨h, Nat.le_refl _⟩⟩
  · simp only [wipeKeys, hn, if_true]; exact (wipeVer_le _).1
  · simp only [wipeKeys, hn, if_true]; exact (wipeVer_le _).2

theorem extVer_le (x : Ext) (n : KName) (v : Ver) : VSt.le v.st (extVer x n v).st ∧ (extVer x n v).mat = v.mat := by
  obtain ⟨st, m⟩ := v
  cases x with
  | settle =>
    cases st with
    | pending g => exact ⟨⟨fun _ => rfl, fun h => (by cases h), fun _ => Or.inr rfl⟩, rfl⟩
    | enabled => exact ⟨VSt.le_refl _, rfl⟩
    | disabled => exact ⟨VSt.le_refl _, rfl⟩
    | scheduled => exact ⟨VSt.le_refl _, rfl⟩
    | destroyed => exact ⟨VSt.le_refl _, rfl⟩
  | expire =>
    cases st with
    | scheduled => exact ⟨⟨fun h => (by cases h), fun h => (by cases h), fun h => (by cases h)⟩, rfl⟩
    | enabled => exact ⟨VSt.le_refl _, rfl⟩
    | disabled => exact ⟨VSt.le_refl _, rfl⟩
    | pending g => exact ⟨VSt.le_refl _, rfl⟩
    | destroyed => exact ⟨VSt.le_refl _, rfl⟩
  | disable m' =>
    cases st with
    | enabled =>
      simp only [extVer]
      by_cases e : n = m'
      · simp only [e, if_true]; exact ⟨⟨fun h => (by cases h), fun h => (by cases h), fun h => (by cases h)⟩, (by first | rfl | trivial)⟩
      · simp only [e, if_false]; exact ⟨VSt.le_refl _, (by first | rfl | trivial)⟩
    | scheduled => exact ⟨VSt.le_refl _, rfl⟩
    | disabled => exact ⟨VSt.le_refl _, rfl⟩
    | pending g => exact ⟨VSt.le_refl _, rfl⟩
    | destroyed => exact ⟨VSt.le_refl _, rfl⟩

theorem Prog_ext (s : Svc) (x : Ext) : Prog s (s.ext x) := by
  refine ⟨fun n hn => ⟨hn, ?_, ?_⟩, fun _ h => ⟨h, Nat.le_refl _⟩⟩
  · simp only [Svc.ext, hn, if_true]; exact (extVer_le _ _ _).1
  · simp only [Svc.ext, hn, if_true]; exact (extVer_le _ _ _).2

/-! ### certificates made over the Cloud KMS signer -/

theorem kSign_signer {sk : Option Nat} {parent : Option Cert} {t : Tmpl} {c : Cert}
    (h : kSign sk parent t = some c) : sk = some c.signerKey := by
  unfold kSign at h
  have := (signCert_some h).2.2.2.2.2.2.2.2.2.2.1
  cases sk with
  | none => simp [get] at this
  | some m => simpa [get] using this

theorem kSign_root {sk : Option Nat} {cn : String} {serial now key : Nat} {c : Cert}
    (h : kSign sk none (Tmpl.google true cn serial now key) = some c) : RootProfile c :=
  rootProfile_of_signed (google_root_ok cn serial now key) h

/-- A certificate made from the Google signing template under parent `r`: the documented signing profile,
    issued by `r`, with the requested name, serial and time. -/
theorem kSign_sign {sk : Option Nat} {r : Cert} {cn : String} {serial now key : Nat} {c : Cert}
    (h : kSign sk (some r) (Tmpl.google false cn serial now key) = some c) :
    SignProfile c ∧ IssuedBy r c ∧ c.cn = cn ∧ c.subjSerial = serial ∧ c.certSerial = serial ∧ c.notBefore = now ∧
    c.subjectKey = key := by
  obtain ⟨t1, t2, t3, t4, t5⟩ := google_sign_ok cn serial now key
  obtain ⟨c1, c2, c3, c4, c5, c6, c7, c8, c9, c10, _, c12⟩ := signCert_some h
  simp only at c12
  obtain ⟨k1, k2, k3⟩ := c12
  refine ⟨⟨c5.trans t1, c6.trans t2, c7.trans t3, ?_, ?_⟩, ⟨?_, k2, k3⟩, c3, c2, c1, c8, c4⟩
  · rw [c9, c8]; exact t4
  · rw [c1, c2]; exact t5
  · rw [c10, k1]

/-! ### gcsca.Finalize: which entries it can add -/

def Recorded (ca : CA) (n : KName) : Prop := (get ca.entries n).isSome = true

theorem upload_entries {g : Bool} {f : Flags} {ca ca' : CA} {n : KName} {c : Cert}
    (h : upload g f ca n c = some ca') (m : KName) (hm : Recorded ca' m) : m = n ∨ Recorded ca m := by
  unfold Recorded at hm ⊢
  rcases upload_cases h with ⟨e, _⟩ | ⟨e, _⟩
  · subst e
    by_cases e2 : m = n
    · exact Or.inl e2
    · right; simpa [caSkip, get_put_ne _ _ _ _ e2] using hm
  · subst e
    by_cases e2 : m = n
    · exact Or.inl e2
    · right; simpa [caWrite, get_put_ne _ _ _ _ e2] using hm

theorem uploadAll_entries (g : Bool) (f : Flags) (l : List (KName × Cert)) (ca : CA) (m : KName)
    (hm : Recorded (uploadAll g f ca l).1 m) : m ∈ l.map (·.1) ∨ Recorded ca m := by
  induction l generalizing ca with
  | nil => exact Or.inr hm
  | cons hd t ih =>
    obtain ⟨n, c⟩ := hd
    unfold uploadAll at hm
    cases hu : upload g f ca n c with
    | none => rw [hu] at hm; exact Or.inr hm
    | some ca' =>
      rw [hu] at hm
      rcases ih ca' hm with h1 | h1
      · left; simp only [List.map_cons, List.mem_cons]; exact Or.inr h1
      · rcases upload_entries hu m h1 with h2 | h2
        · left; simp [h2]
        · exact Or.inr h2

theorem gcsFinalize_entries (g : Bool) (f : Flags) (ca : CA) (mu : Mut) (m : KName)
    (hm : Recorded (gcsFinalize g f ca mu).1 m) : m ∈ mu.certs.map (·.1) ∨ Recorded ca m := by
  unfold gcsFinalize at hm
  have key := uploadAll_entries g f mu.certs { ca with primaryRoot := mu.pr.getD ca.primaryRoot,
                                                       primarySigning := mu.ps.getD ca.primarySigning } m
  cases hu : uploadAll g f { ca with primaryRoot := mu.pr.getD ca.primaryRoot,
                                     primarySigning := mu.ps.getD ca.primarySigning } mu.certs with
  | mk ca1 ok =>
    rw [hu] at hm key
    cases ok with
    | false => exact Or.inr hm
    | true =>
      simp only [] at hm key
      cases hr : mu.root with
      | none => rw [hr] at hm; exact key hm
      | some r =>
        rw [hr] at hm
        simp only [] at hm
        unfold writeRoot at hm
        by_cases h1 : (ca1.rootObj.isSome && !f.overwrite) = true
        · simp only [h1, if_true] at hm
          by_cases h2 : f.keepGoing = true
          · simp only [h2, if_true] at hm; exact key hm
          · simp only [h2] at hm; exact Or.inr hm
        · simp only [h1] at hm; exact key hm

/-- Finalize of a two-certificate mutation into an EMPTY store (bootstrap): both certificates are written and
    recorded, unless they would share one object — then the second upload is refused (the object is recorded
    for the first key version), Finalize aborts and nothing is recorded. -/
theorem gcsFinalize_empty_two (f : Flags) (a b n1 n2 : KName) (c1 c2 r : Cert) (hn : n1 ≠ n2) :
    gcsFinalize true f CA.empty ⟨some a, some b, [(n1, c1), (n2, c2)], some r⟩ =
      if certPath c1 = certPath c2 then (⟨noName, noName, [], [(certPath c1, c1)], none⟩, false)
      else (⟨a, b, [(n1, certPath c1), (n2, certPath c2)], [(certPath c1, c1), (certPath c2, c2)], some r⟩, true) := by
  have hn' : n2 ≠ n1 := fun e => hn e.symm
  by_cases hp : certPath c1 = certPath c2
  · rw [if_pos hp]
    simp [gcsFinalize, uploadAll, upload, heldByOther, writeIfAllowed, CA.empty, get, put, abortTo, hn, hn', hp]
  · rw [if_neg hp]
    have hp' : certPath c2 ≠ certPath c1 := fun e => hp e.symm
    simp [gcsFinalize, uploadAll, upload, heldByOther, writeIfAllowed, writeRoot, CA.empty, get, put, hn, hn', hp, hp']

/-! ### the invariant of ALL histories -/

/-- The served root has the root profile; every recorded key-version name is a version that exists. -/
structure InvU (s : KState) : Prop where
  root : GcsRootInv s.ca
  bound : ∀ n, Recorded s.ca n → s.svc.has n = true

theorem InvU_init : InvU KState.init :=
  ⟨fun r h => by simp [KState.init, CA.empty] at h, fun n h => by simp [Recorded, KState.init, CA.empty, get] at h⟩

theorem InvU_svc {svc svc' : Svc} {ca : CA} (h : InvU ⟨svc, ca⟩) (hp : Prog svc svc') : InvU ⟨svc', ca⟩ :=
  ⟨h.root, fun n hn => (hp.1 n (h.bound n hn)).1⟩

theorem InvU_emptyCA (svc : Svc) : InvU ⟨svc, CA.empty⟩ :=
  ⟨fun r h => by simp [CA.empty] at h, fun n h => by simp [Recorded, CA.empty, get] at h⟩

/-- the name the next CreateCryptoKeyVersion hands out is not recorded -/
theorem InvU.next_fresh {s : KState} (h : InvU s) (k : String) : get s.ca.entries (s.svc.nextName k) = none := by
  cases hg : get s.ca.entries (s.svc.nextName k) with
  | none => rfl
  | some p =>
    have := h.bound (s.svc.nextName k) (by simp [Recorded, hg])
    rw [nextName_not_has] at this; cases this

theorem caAfterRotate_eq (f : Flags) (ca : CA) (kver : KName) (c : Cert) :
    caAfterRotate caCfg f ca kver (some c) = gcsFinalize true f ca ⟨none, some kver, [(kver, c)], none⟩ := rfl

theorem bundle_caCfg (ca : CA) : bundle caCfg ca = ca.rootObj := rfl

theorem GcsRootInv_finalize {ca : CA} (h : GcsRootInv ca) (f : Flags) (m : Mut)
    (hr : ∀ r, m.root = some r → RootProfile r) : GcsRootInv (gcsFinalize true f ca m).1 := by
  intro r hrr
  rcases (gcsFinalize_ext true f ca m).2 with e | ⟨r', e1, e2, _⟩
  · rw [e] at hrr; exact h r hrr
  · rw [e2] at hrr; simp only [Option.some.injEq] at hrr; subst hrr; exact hr r' e1

/-! ### shapes of the commands -/

theorem kBootCerts_shape (f : Flags) (a : BootArgs) (svc : Svc) (rootKV signKV : KName) (stored : CA) (sf : Bool) :
    kBootCerts f a svc rootKV signKV stored sf = (stored, false) ∨
    ∃ rc sc rk sk, svc.signer? rootKV = some rk ∧ svc.signer? signKV = some sk ∧
      kSign (svc.signer? rootKV) none (Tmpl.google true a.rootCn a.rootSerial a.now rk) = some rc ∧
      kSign (svc.signer? rootKV) (some rc) (Tmpl.google false a.signCn a.signSerial a.now sk) = some sc ∧
      kBootCerts f a svc rootKV signKV stored sf =
        gcsFinalize true f stored ⟨some rootKV, some signKV,
          if sf then [(signKV, sc), (rootKV, rc)] else [(rootKV, rc), (signKV, sc)], some rc⟩ := by
  unfold kBootCerts
  cases h1 : svc.signer? rootKV with
  | none => left; rfl
  | some rk =>
    simp only []
    cases h2 : kSign (some rk) none (Tmpl.google true a.rootCn a.rootSerial a.now rk) with
    | none => left; rfl
    | some rc =>
      simp only []
      cases h3 : svc.signer? signKV with
      | none => left; rfl
      | some sk =>
        simp only []
        cases h4 : kSign (some rk) (some rc) (Tmpl.google false a.signCn a.signSerial a.now sk) with
        | none => left; rfl
        | some sc => right; exact ⟨rc, sc, rk, sk, rfl, rfl, h2, h4, rfl⟩

/-- rotate.Bootstrap: either the authority is untouched, or both key steps returned ENABLED versions and the
    authority is what the certificate step made of it; Cloud KMS only moved forward. -/
theorem kBootstrap_shape (cfg : KCfg) (f : Flags) (a : BootArgs) (e : Env) (sf : Bool) (s : KState) :
    Prog s.svc (kBootstrap cfg f a e sf s).1.svc ∧
    ((kBootstrap cfg f a e sf s).1.ca = s.ca ∧ (kBootstrap cfg f a e sf s).2 = false ∨
     ∃ rootKV signKV, rootKV.base = cfg.rootKey ∧ signKV.base = cfg.signKey ∧
       (kBootstrap cfg f a e sf s).1.svc.has rootKV = true ∧
       ((kBootstrap cfg f a e sf s).1.svc.ver rootKV).st.isPending = false ∧
       (kBootstrap cfg f a e sf s).1.svc.has signKV = true ∧
       ((kBootstrap cfg f a e sf s).1.svc.ver signKV).st = .enabled ∧
       (kBootstrap cfg f a e sf s).1.ca = (kBootCerts f a (kBootstrap cfg f a e sf s).1.svc rootKV signKV s.ca sf).1 ∧
       (kBootstrap cfg f a e sf s).2 = (kBootCerts f a (kBootstrap cfg f a e sf s).1.svc rootKV signKV s.ca sf).2) := by
  obtain ⟨p1, q1⟩ := createNewRootKey_spec f e s.svc cfg.rootKey
  obtain ⟨p2, q2⟩ := createFirstSigningKey_spec f e (createNewRootKey f e s.svc cfg.rootKey).1 cfg.signKey
  unfold kBootstrap
  cases h1 : (createNewRootKey f e s.svc cfg.rootKey).2 with
  | none => exact ⟨p1, Or.inl ⟨rfl, rfl⟩⟩
  | some rootKV =>
    simp only []
    obtain ⟨a1, a2, a3⟩ := q1 rootKV h1
    cases h2 : (createFirstSigningKey f e (createNewRootKey f e s.svc cfg.rootKey).1 cfg.signKey).2 with
    | none => exact ⟨p1.trans p2, Or.inl ⟨rfl, rfl⟩⟩
    | some signKV =>
      simp only []
      obtain ⟨b1, b2, b3⟩ := q2 signKV h2
      obtain ⟨x1, x2, _⟩ := p2.1 rootKV a2
      refine ⟨p1.trans p2, Or.inr ⟨rootKV, signKV, a1, b1, x1, ?_, b2, b3, rfl, rfl⟩⟩
      cases hp : ((createFirstSigningKey f e (createNewRootKey f e s.svc cfg.rootKey).1 cfg.signKey).1.ver rootKV).st.isPending with
      | false => rfl
      | true => have := x2.2.1 hp; rw [a3] at this; cases this

/-- the service after the first two steps of a rotation that got that far -/
def rotSvc (cfg : KCfg) (e : Env) (s : KState) : Svc :=
  (waitGen e (s.svc.create e cfg.signKey) (s.svc.nextName cfg.signKey)).1

theorem Prog_rotSvc (cfg : KCfg) (e : Env) (s : KState) : Prog s.svc (rotSvc cfg e s) :=
  (Prog_create e s.svc cfg.signKey).trans (waitGen_spec e _ _).1

/-- rotate.Key: either the authority is untouched (and the rotation failed), or the certificate was made and
    Finalize succeeded: then the authority is Finalize's result and the previous primary (if any) went through
    DestroyCryptoKeyVersion, whose outcome is the rotation's. -/
theorem kRotate_shape (cfg : KCfg) (f : Flags) (e : Env) (s : KState) (cn : String) (serial now : Nat) :
    ((kRotate cfg f e s cn serial now).1.ca = s.ca ∧ (kRotate cfg f e s cn serial now).2 = false ∧
      Prog s.svc (kRotate cfg f e s cn serial now).1.svc) ∨
    ∃ c, s.svc.keys.contains cfg.signKey = true ∧
      (rotSvc cfg e s).has (s.svc.nextName cfg.signKey) = true ∧
      ((rotSvc cfg e s).ver (s.svc.nextName cfg.signKey)).st = .enabled ∧
      kRotCert (rotSvc cfg e s) s.ca (s.svc.nextName cfg.signKey) cn serial now = some c ∧
      (caAfterRotate caCfg f s.ca (s.svc.nextName cfg.signKey) (some c)).2 = true ∧
      (kRotate cfg f e s cn serial now).1.ca = (caAfterRotate caCfg f s.ca (s.svc.nextName cfg.signKey) (some c)).1 ∧
      ((s.ca.primarySigning = noName ∧ (kRotate cfg f e s cn serial now).1.svc = rotSvc cfg e s ∧
          (kRotate cfg f e s cn serial now).2 = true) ∨
       (s.ca.primarySigning ≠ noName ∧
          (kRotate cfg f e s cn serial now).1.svc = ((rotSvc cfg e s).destroy s.ca.primarySigning).1 ∧
          (kRotate cfg f e s cn serial now).2 = ((rotSvc cfg e s).destroy s.ca.primarySigning).2)) := by
  have hp := Prog_rotSvc cfg e s
  obtain ⟨_, w2, _⟩ := waitGen_spec e (s.svc.create e cfg.signKey) (s.svc.nextName cfg.signKey)
  unfold kRotate
  by_cases hk : s.svc.keys.contains cfg.signKey = true
  · rw [if_neg (by rw [hk]; decide : ¬ (!s.svc.keys.contains cfg.signKey) = true)]
    cases hw : (waitGen e (s.svc.create e cfg.signKey) (s.svc.nextName cfg.signKey)).2 with
    | false => left; exact ⟨rfl, rfl, hp⟩
    | true =>
      simp only []
      obtain ⟨w3, w4⟩ := w2 hw
      cases hc : kRotCert (waitGen e (s.svc.create e cfg.signKey) (s.svc.nextName cfg.signKey)).1 s.ca
          (s.svc.nextName cfg.signKey) cn serial now with
      | none => left; exact ⟨rfl, rfl, hp⟩
      | some c =>
        simp only []
        by_cases hf : (caAfterRotate caCfg f s.ca (s.svc.nextName cfg.signKey) (some c)).2 = true
        · rw [if_pos hf]
          right
          refine ⟨c, hk, w3, w4, hc, hf, ?_, ?_⟩
          · by_cases hn : s.ca.primarySigning = noName
            · rw [if_pos hn]
            · rw [if_neg hn]
          · by_cases hn : s.ca.primarySigning = noName
            · rw [if_pos hn]; exact Or.inl ⟨hn, rfl, rfl⟩
            · rw [if_neg hn]; exact Or.inr ⟨hn, rfl, rfl⟩
        · rw [if_neg hf]
          left
          have := caAfterRotate_fail (by simpa using hf : (caAfterRotate caCfg f s.ca (s.svc.nextName cfg.signKey) (some c)).2 = false)
          exact ⟨this, rfl, hp⟩
  · rw [if_pos (by cases hc : s.svc.keys.contains cfg.signKey <;> simp_all : (!s.svc.keys.contains cfg.signKey) = true)]
    exact Or.inl ⟨rfl, rfl, Prog.refl _⟩

theorem kRotCert_some {svc : Svc} {ca : CA} {kver : KName} {cn : String} {serial now : Nat} {c : Cert}
    (h : kRotCert svc ca kver cn serial now = some c) :
    ∃ r, ca.rootObj = some r ∧ SignProfile c ∧ IssuedBy r c ∧ c.cn = cn ∧ c.subjSerial = serial ∧ c.certSerial = serial ∧
      c.notBefore = now := by
  unfold kRotCert at h
  by_cases hg : rotGuard caCfg ca = true
  · rw [if_pos hg] at h
    obtain ⟨⟨r, hr⟩, _⟩ := rotGuard_some hg
    cases hs : svc.signer? kver with
    | none => simp [hs] at h
    | some sk =>
      simp only [hs] at h
      rw [hr] at h
      obtain ⟨g1, g2, g3, g4, g5, g6, _⟩ := kSign_sign h
      exact ⟨r, hr, g1, g2, g3, g4, g5, g6⟩
  · simp [hg] at h

/-! ### every command preserves the invariant of all histories -/

theorem InvU_of {s s' : KState} (h : InvU s) (hp : Prog s.svc s'.svc) (hr : GcsRootInv s'.ca)
    (hb : ∀ n, Recorded s'.ca n → Recorded s.ca n ∨ s'.svc.has n = true) : InvU s' :=
  ⟨hr, fun n hn => by
    rcases hb n hn with h1 | h1
    · exact (hp.1 n (h.bound n h1)).1
    · exact h1⟩

theorem InvU_bootstrap (cfg : KCfg) (f : Flags) (a : BootArgs) (e : Env) (sf : Bool) {s : KState} (h : InvU s) :
    InvU (kBootstrap cfg f a e sf s).1 := by
  obtain ⟨hp, hsh⟩ := kBootstrap_shape cfg f a e sf s
  rcases hsh with ⟨e1, _⟩ | ⟨rootKV, signKV, _, _, h3, _, h5, _, h7, _⟩
  · exact InvU_of h hp (by rw [e1]; exact h.root) (fun n hn => Or.inl (by rw [e1] at hn; exact hn))
  · rcases kBootCerts_shape f a (kBootstrap cfg f a e sf s).1.svc rootKV signKV s.ca sf with e1 | ⟨rc, sc, rk, sk, _, _, k3, _, e1⟩
    · rw [e1] at h7
      exact InvU_of h hp (by rw [h7]; exact h.root) (fun n hn => Or.inl (by rw [h7] at hn; exact hn))
    · rw [e1] at h7
      refine InvU_of h hp ?_ ?_
      · rw [h7]
        exact GcsRootInv_finalize h.root f _ (fun r hr => by
          simp only [Option.some.injEq] at hr; subst hr; exact kSign_root k3)
      · intro n hn
        rw [h7] at hn
        rcases gcsFinalize_entries _ _ _ _ n hn with hm | hm
        · right
          simp only [] at hm
          cases sf with
          | true =>
            simp only [if_true, List.map_cons, List.map_nil, List.mem_cons, List.mem_nil_iff, or_false] at hm
            rcases hm with e2 | e2
            · rw [e2]; exact h5
            · rw [e2]; exact h3
          | false =>
            simp only [Bool.false_eq_true, if_false, List.map_cons, List.map_nil, List.mem_cons, List.mem_nil_iff, or_false] at hm
            rcases hm with e2 | e2
            · rw [e2]; exact h3
            · rw [e2]; exact h5
        · exact Or.inl hm

theorem InvU_rotate (cfg : KCfg) (f : Flags) (e : Env) {s : KState} (h : InvU s) (cn : String) (serial now : Nat) :
    InvU (kRotate cfg f e s cn serial now).1 := by
  rcases kRotate_shape cfg f e s cn serial now with ⟨e1, _, hp⟩ | ⟨c, _, h2, _, _, _, h6, h7⟩
  · exact InvU_of h hp (by rw [e1]; exact h.root) (fun n hn => Or.inl (by rw [e1] at hn; exact hn))
  · have hp : Prog (rotSvc cfg e s) (kRotate cfg f e s cn serial now).1.svc := by
      rcases h7 with ⟨_, e2, _⟩ | ⟨_, e2, _⟩
      · rw [e2]; exact Prog.refl _
      · rw [e2]; exact (destroy_spec _ _).1
    refine InvU_of h ((Prog_rotSvc cfg e s).trans hp) ?_ ?_
    · rw [h6, caAfterRotate_eq]
      exact GcsRootInv_finalize h.root f _ (fun r hr => by simp at hr)
    · intro n hn
      rw [h6, caAfterRotate_eq] at hn
      rcases gcsFinalize_entries _ _ _ _ n hn with hm | hm
      · right
        simp only [List.map_cons, List.map_nil, List.mem_cons, List.mem_nil_iff, or_false] at hm
        rw [hm]; exact (hp.1 _ h2).1
      · exact Or.inl hm

theorem InvU_step (cfg : KCfg) {s : KState} (h : InvU s) (c : KCmd) : InvU (kStep cfg s c).1 := by
  cases c with
  | bootstrap f a e sf => exact InvU_bootstrap cfg f a e sf h
  | rotate f a e =>
    simp only [kStep]
    cases resolveSerial s.ca a.serial with
    | none => exact h
    | some n => exact InvU_rotate cfg f e h a.cn n a.now
  | wipeout f c k =>
    simp only [kStep, kWipeout]
    have hp : Prog s.svc (if k = true then (wipeKeys s.svc).1 else s.svc) := by
      cases k with
      | true => exact Prog_wipeKeys _
      | false => exact Prog.refl _
    cases c with
    | true => exact InvU_emptyCA _
    | false => exact InvU_svc h hp
  | ext x => exact InvU_svc h (Prog_ext _ _)

theorem InvU_run (cfg : KCfg) (h : List KCmd) : ∀ s : KState, InvU s → InvU (kRun cfg s h) := by
  induction h with
  | nil => intro s hs; exact hs
  | cons c t ih => intro s hs; exact ih _ (InvU_step cfg hs c)

/-- no command takes a version away or renumbers one -/
theorem Prog_step (cfg : KCfg) (s : KState) (c : KCmd) : Prog s.svc (kStep cfg s c).1.svc := by
  cases c with
  | bootstrap f a e sf => exact (kBootstrap_shape cfg f a e sf s).1
  | rotate f a e =>
    simp only [kStep]
    cases resolveSerial s.ca a.serial with
    | none => exact Prog.refl _
    | some n =>
      rcases kRotate_shape cfg f e s a.cn n a.now with ⟨_, _, hp⟩ | ⟨c, _, _, _, _, _, _, h7⟩
      · exact hp
      · rcases h7 with ⟨_, e2, _⟩ | ⟨_, e2, _⟩
        · rw [e2]; exact Prog_rotSvc cfg e s
        · rw [e2]; exact (Prog_rotSvc cfg e s).trans (destroy_spec _ _).1
  | wipeout f c k =>
    simp only [kStep, kWipeout]
    cases k with
    | true => exact Prog_wipeKeys _
    | false => exact Prog.refl _
  | ext x => exact Prog_ext _ _

/-! ### the invariant of histories that bootstrap only into an empty certificate store -/

structure InvK (s : KState) : Prop where
  /-- every RECORDED certificate other than the primary root's entry -/
  good : ∀ n p c, get s.ca.entries n = some p → n ≠ s.ca.primaryRoot → get s.ca.objects p = some c → Good caCfg s.ca c
  /-- a recorded version other than the two primaries is neither ENABLED nor PENDING_GENERATION -/
  onlyPrimary : ∀ n, Recorded s.ca n → n ≠ s.ca.primaryRoot → n ≠ s.ca.primarySigning → (s.svc.ver n).st.usable = false
  notPending : ∀ n, Recorded s.ca n → (s.svc.ver n).st.isPending = false

theorem InvK_init : InvK KState.init :=
  ⟨fun n p c h => by simp [KState.init, CA.empty, get] at h,
   fun n h => by simp [Recorded, KState.init, CA.empty, get] at h,
   fun n h => by simp [Recorded, KState.init, CA.empty, get] at h⟩

theorem InvK_emptyCA (svc : Svc) : InvK ⟨svc, CA.empty⟩ :=
  ⟨fun n p c h => by simp [CA.empty, get] at h,
   fun n h => by simp [Recorded, CA.empty, get] at h,
   fun n h => by simp [Recorded, CA.empty, get] at h⟩

theorem usable_false_of_le {a b : VSt} (h : VSt.le a b) (ha : a.usable = false) : b.usable = false := by
  cases hb : b.usable with
  | false => rfl
  | true => rw [h.1 hb] at ha; cases ha

theorem isPending_false_of_le {a b : VSt} (h : VSt.le a b) (ha : a.isPending = false) : b.isPending = false := by
  cases hb : b.isPending with
  | false => rfl
  | true => rw [h.2.1 hb] at ha; cases ha

theorem InvK_svc {svc svc' : Svc} {ca : CA} (hu : InvU ⟨svc, ca⟩) (h : InvK ⟨svc, ca⟩) (hp : Prog svc svc') :
    InvK ⟨svc', ca⟩ :=
  ⟨h.good,
   fun n hn h1 h2 => usable_false_of_le (hp.1 n (hu.bound n hn)).2.1 (h.onlyPrimary n hn h1 h2),
   fun n hn => isPending_false_of_le (hp.1 n (hu.bound n hn)).2.1 (h.notPending n hn)⟩

theorem noName_not_has (s : Svc) : s.has noName = false := by
  cases h : s.has noName with
  | false => rfl
  | true => have := (has_iff s _).mp h; simp [noName] at this

theorem InvK_rotate (cfg : KCfg) (f : Flags) (e : Env) {s : KState} (hu : InvU s) (h : InvK s)
    (cn : String) (serial now : Nat) : InvK (kRotate cfg f e s cn serial now).1 := by
  rcases kRotate_shape cfg f e s cn serial now with ⟨e1, _, hp⟩ | ⟨c, _, h2, h3, h4, _, h6, h7⟩
  · have := InvK_svc (svc' := (kRotate cfg f e s cn serial now).1.svc) hu h hp
    rw [← e1] at this; exact this
  · have he := hu.next_fresh cfg.signKey
    have hpD : Prog (rotSvc cfg e s) (kRotate cfg f e s cn serial now).1.svc := by
      rcases h7 with ⟨_, e2, _⟩ | ⟨_, e2, _⟩
      · rw [e2]; exact Prog.refl _
      · rw [e2]; exact (destroy_spec _ _).1
    have hpR := Prog_rotSvc cfg e s
    have hpA := hpR.trans hpD
    -- the previous primary, if recorded, cannot sign any more
    have hold : ∀ n, Recorded s.ca n → n = s.ca.primarySigning →
        ((kRotate cfg f e s cn serial now).1.svc.ver n).st.usable = false := by
      intro n hn hps
      have hhas := hu.bound n hn
      rcases h7 with ⟨e0, _, _⟩ | ⟨_, e2, _⟩
      · rw [hps, e0, noName_not_has] at hhas; cases hhas
      · rw [e2, hps]
        have hx := hpR.1 n hhas
        rw [hps] at hx
        have hnp := isPending_false_of_le hx.2.1 (by rw [← hps]; exact h.notPending n hn)
        rcases (destroy_spec (rotSvc cfg e s) s.ca.primarySigning).2.2 hx.1 hnp with d | ⟨d1, d2⟩
        · exact d
        · rw [d1]; exact d2
    rcases caAfterRotate_shape (cfg := caCfg) f (some c) he with e1 | ⟨e0, _⟩ | ⟨c', hc', ⟨e1, hun⟩ | ⟨_, _, _, hgd⟩⟩
    · have := InvK_svc (svc' := (kRotate cfg f e s cn serial now).1.svc) hu h hpA
      rw [← e1, ← h6] at this; exact this
    · cases e0
    · simp only [Option.some.injEq] at hc'; subst hc'
      have hca := h6.trans e1
      have hun' := hun rfl rfl
      obtain ⟨r, hr, g1, g2, _⟩ := kRotCert_some h4
      have hdp : defaultPath caCfg (s.svc.nextName cfg.signKey) c = certPath c := rfl
      rw [hdp] at hca hun'
      constructor
      · intro n p x hn hne hx
        rw [hca] at hn hne hx ⊢
        simp only [caWrite] at hn hne hx
        have goodOld : ∀ y, Good caCfg s.ca y →
            Good caCfg { caWrite s.ca (s.svc.nextName cfg.signKey) (certPath c) c with primarySigning := s.svc.nextName cfg.signKey } y :=
          fun y ⟨y1, r', y2, y3⟩ => ⟨y1, r', y2, y3⟩
        rw [get_put] at hn
        by_cases e2 : n = s.svc.nextName cfg.signKey
        · simp only [e2, if_true, Option.some.injEq] at hn
          rw [← hn, get_put_self] at hx
          simp only [Option.some.injEq] at hx; subst hx
          exact goodOld c ⟨g1, r, hr, g2⟩
        · simp only [e2, if_false] at hn
          have hpp : p ≠ certPath c := hun' n p hn e2
          rw [get_put_ne _ _ _ _ hpp] at hx
          exact goodOld x (h.good n p x hn hne hx)
      · intro n hn h1 h2'
        rw [hca] at hn h1 h2'
        simp only [Recorded, caWrite] at hn h1 h2'
        rw [get_put_ne _ _ _ _ h2'] at hn
        by_cases e2 : n = s.ca.primarySigning
        · exact hold n hn e2
        · exact usable_false_of_le (hpA.1 n (hu.bound n hn)).2.1 (h.onlyPrimary n hn h1 e2)
      · intro n hn
        rw [hca] at hn
        simp only [Recorded, caWrite] at hn
        by_cases e2 : n = s.svc.nextName cfg.signKey
        · rw [e2]
          exact isPending_false_of_le (hpD.1 _ h2).2.1 (by rw [h3]; rfl)
        · rw [get_put_ne _ _ _ _ e2] at hn
          exact isPending_false_of_le (hpA.1 n (hu.bound n hn)).2.1 (h.notPending n hn)
    · cases hgd

/-! ### bootstrap into an empty certificate store -/

theorem InvK_two (svc : Svc) (a b : KName) (pa pb : ObjKey) (ra sb : Cert) (entries : List (KName × ObjKey))
    (objects : List (ObjKey × Cert))
    (hent : ∀ n, get entries n = if n = a then some pa else if n = b then some pb else none)
    (hobj : get objects pb = some sb) (hgood : SignProfile sb ∧ IssuedBy ra sb)
    (hpa : (svc.ver a).st.isPending = false) (hpb : (svc.ver b).st.isPending = false) :
    InvK ⟨svc, ⟨a, b, entries, objects, some ra⟩⟩ := by
  have hrec : ∀ n, Recorded ⟨a, b, entries, objects, some ra⟩ n → n = a ∨ n = b := by
    intro n hn
    simp only [Recorded, hent] at hn
    by_cases e1 : n = a
    · exact Or.inl e1
    · by_cases e2 : n = b
      · exact Or.inr e2
      · simp [e1, e2] at hn
  refine ⟨?_, ?_, ?_⟩
  · intro n p c hn hne hc
    simp only [] at hn hne hc
    rw [hent] at hn
    simp only [hne, if_false] at hn
    by_cases e2 : n = b
    · simp only [e2, if_true, Option.some.injEq] at hn
      rw [← hn, hobj] at hc
      simp only [Option.some.injEq] at hc; subst hc
      exact ⟨hgood.1, ra, rfl, hgood.2⟩
    · simp [e2] at hn
  · intro n hn h1 h2
    rcases hrec n hn with e | e
    · exact absurd e h1
    · exact absurd e h2
  · intro n hn
    rcases hrec n hn with e | e
    · rw [e]; exact hpa
    · rw [e]; exact hpb

theorem InvK_collide (svc : Svc) (objects : List (ObjKey × Cert)) : InvK ⟨svc, ⟨noName, noName, [], objects, none⟩⟩ :=
  ⟨fun n p c h => by simp [get] at h, fun n h => by simp [Recorded, get] at h, fun n h => by simp [Recorded, get] at h⟩

theorem InvK_of_ca {s : KState} {ca : CA} (h : InvK ⟨s.svc, ca⟩) (e : s.ca = ca) : InvK s := by
  cases s with
  | mk svc ca' => simp only at e; subst e; exact h

theorem InvK_bootstrap_clean (cfg : KCfg) (hne : cfg.rootKey ≠ cfg.signKey) (f : Flags) (a : BootArgs) (e : Env)
    (sf : Bool) {s : KState} (hu : InvU s) (hc : s.ca = CA.empty) : InvK (kBootstrap cfg f a e sf s).1 := by
  have h : InvK s := by
    cases s with
    | mk svc ca => simp only at hc; subst hc; exact InvK_emptyCA svc
  obtain ⟨hp, hsh⟩ := kBootstrap_shape cfg f a e sf s
  rcases hsh with ⟨e1, _⟩ | ⟨rootKV, signKV, b1, b2, _, h4, _, h6, h7, _⟩
  · have := InvK_svc (svc' := (kBootstrap cfg f a e sf s).1.svc) hu h hp
    rw [← e1] at this; exact this
  · have hnn : rootKV ≠ signKV := by
      intro e'; rw [e'] at b1; exact hne (b1.symm.trans b2)
    have h6' : ((kBootstrap cfg f a e sf s).1.svc.ver signKV).st.isPending = false := by rw [h6]; rfl
    rcases kBootCerts_shape f a (kBootstrap cfg f a e sf s).1.svc rootKV signKV s.ca sf with e1 | ⟨rc, sc, rk, sk, _, _, _, k4, e1⟩
    · rw [e1] at h7
      have h7' : (kBootstrap cfg f a e sf s).1.ca = s.ca := h7
      have := InvK_svc (svc' := (kBootstrap cfg f a e sf s).1.svc) hu h hp
      rw [← h7'] at this; exact this
    · obtain ⟨g1, g2, _⟩ := kSign_sign k4
      rw [e1, hc] at h7
      cases sf with
      | false =>
        simp only [Bool.false_eq_true, if_false] at h7
        rw [gcsFinalize_empty_two f rootKV signKV rootKV signKV rc sc rc hnn] at h7
        by_cases hpth : certPath rc = certPath sc
        · rw [if_pos hpth] at h7
          exact InvK_of_ca (InvK_collide (kBootstrap cfg f a e false s).1.svc [(certPath rc, rc)]) h7
        · rw [if_neg hpth] at h7
          have := InvK_two (kBootstrap cfg f a e false s).1.svc rootKV signKV (certPath rc) (certPath sc) rc sc
            [(rootKV, certPath rc), (signKV, certPath sc)] [(certPath rc, rc), (certPath sc, sc)]
            (fun n => by rw [get2]) (by rw [get2, if_neg (fun e' => hpth (Eq.symm e')), if_pos rfl]) ⟨g1, g2⟩ h4 h6'
          exact InvK_of_ca this h7
      | true =>
        simp only [if_true] at h7
        rw [gcsFinalize_empty_two f rootKV signKV signKV rootKV sc rc rc (fun e' => hnn e'.symm)] at h7
        by_cases hpth : certPath sc = certPath rc
        · rw [if_pos hpth] at h7
          exact InvK_of_ca (InvK_collide (kBootstrap cfg f a e true s).1.svc [(certPath sc, sc)]) h7
        · rw [if_neg hpth] at h7
          have := InvK_two (kBootstrap cfg f a e true s).1.svc rootKV signKV (certPath rc) (certPath sc) rc sc
            [(signKV, certPath sc), (rootKV, certPath rc)] [(certPath sc, sc), (certPath rc, rc)]
            (fun n => by
              rw [get2]
              by_cases e1 : n = rootKV
              · have : n ≠ signKV := by rw [e1]; exact hnn
                simp [e1, hnn]
              · simp [e1])
            (by rw [get2, if_pos rfl]) ⟨g1, g2⟩ h4 h6'
          exact InvK_of_ca this h7

theorem InvK_step (cfg : KCfg) (hne : cfg.rootKey ≠ cfg.signKey) {s : KState} (hu : InvU s) (h : InvK s) (c : KCmd)
    (hclean : isBootstrapK c = true → s.ca = CA.empty) : InvK (kStep cfg s c).1 := by
  cases c with
  | bootstrap f a e sf => exact InvK_bootstrap_clean cfg hne f a e sf hu (hclean rfl)
  | rotate f a e =>
    simp only [kStep]
    cases resolveSerial s.ca a.serial with
    | none => exact h
    | some n => exact InvK_rotate cfg f e hu h a.cn n a.now
  | wipeout f c k =>
    simp only [kStep, kWipeout]
    have hp : Prog s.svc (if k = true then (wipeKeys s.svc).1 else s.svc) := by
      cases k with
      | true => exact Prog_wipeKeys _
      | false => exact Prog.refl _
    cases c with
    | true => exact InvK_emptyCA _
    | false => exact InvK_svc hu h hp
  | ext x => exact InvK_svc hu h (Prog_ext _ _)

theorem InvK_run (cfg : KCfg) (hne : cfg.rootKey ≠ cfg.signKey) (h : List KCmd) :
    ∀ s : KState, InvU s → InvK s → CleanRunK cfg s h → InvU (kRun cfg s h) ∧ InvK (kRun cfg s h) := by
  induction h with
  | nil => intro s hu hk _; exact ⟨hu, hk⟩
  | cons c t ih =>
    intro s hu hk hc
    exact ih _ (InvU_step cfg hu c) (InvK_step cfg hne hu hk c hc.1) hc.2

/-! ### wipeout -/

/-- no existing version is ENABLED or PENDING_GENERATION -/
def Dead (s : Svc) : Prop := ∀ n, s.has n = true → (s.ver n).st.usable = false

def NoPend (s : Svc) : Prop := ∀ n, s.has n = true → (s.ver n).st.isPending = false

theorem NoPend_of_NoPending {s : Svc} (h : NoPending s) : NoPend s := by
  intro n hn
  cases hs : (s.ver n).st with
  | pending g => exact absurd hs (h n hn g)
  | enabled => rfl
  | disabled => rfl
  | scheduled => rfl
  | destroyed => rfl

theorem NoPending_of_NoPend {s : Svc} (h : NoPend s) : NoPending s := by
  intro n hn g hg
  have := h n hn
  rw [hg] at this; cases this

theorem wipeVer_dead (v : Ver) (hp : v.st.isPending = false) : (wipeVer v).st.usable = false := by
  obtain ⟨st, m⟩ := v
  cases st with
  | pending g => cases hp
  | enabled =>
    have : GceTcb.Kms.destroyableState VSt.enabled.code = some true := by decide
    simp [wipeVer, this, VSt.usable]
  | disabled =>
    have : GceTcb.Kms.destroyableState VSt.disabled.code = some true := by decide
    simp [wipeVer, this, VSt.usable]
  | scheduled =>
    have : GceTcb.Kms.destroyableState VSt.scheduled.code = some false := by decide
    simp [wipeVer, this, VSt.usable]
  | destroyed =>
    have : GceTcb.Kms.destroyableState VSt.destroyed.code = some false := by decide
    simp [wipeVer, this, VSt.usable]

theorem wipeVer_gone (v : Ver) (hp : v.st.isPending = false) : (wipeVer v).st = .scheduled ∨ (wipeVer v).st = .destroyed := by
  obtain ⟨st, m⟩ := v
  cases st with
  | pending g => cases hp
  | enabled =>
    have : GceTcb.Kms.destroyableState VSt.enabled.code = some true := by decide
    simp [wipeVer, this]
  | disabled =>
    have : GceTcb.Kms.destroyableState VSt.disabled.code = some true := by decide
    simp [wipeVer, this]
  | scheduled =>
    have : GceTcb.Kms.destroyableState VSt.scheduled.code = some false := by decide
    simp [wipeVer, this]
  | destroyed =>
    have : GceTcb.Kms.destroyableState VSt.destroyed.code = some false := by decide
    simp [wipeVer, this]

theorem wipeKeys_gone (s : Svc) (hnp : NoPend s) (n : KName) (hn : s.has n = true) :
    ((wipeKeys s).1.ver n).st = .scheduled ∨ ((wipeKeys s).1.ver n).st = .destroyed := by
  simp only [wipeKeys, hn, if_true]
  exact wipeVer_gone _ (hnp n hn)

theorem wipeKeys_ok (s : Svc) (hnp : NoPend s) : (wipeKeys s).2 = true := by
  simp only [wipeKeys, Bool.not_eq_true', List.any_eq_false, List.any_eq_true, not_exists, not_and, Bool.not_eq_true]
  intro k hk v hv
  simp only [versOf, List.mem_map, List.mem_range] at hv
  obtain ⟨i, hi, e⟩ := hv
  have hh : s.has ⟨k, i + 1⟩ = true := (has_iff _ _).mpr ⟨by simpa using hk, by simp, by simp only []; omega⟩
  have hp := hnp _ hh
  rw [e] at hp
  obtain ⟨st, m⟩ := v
  cases st with
  | pending g => cases hp
  | enabled =>
    have : GceTcb.Kms.destroyableState VSt.enabled.code = some true := by decide
    simp [wipeVerFails, this]
  | disabled =>
    have : GceTcb.Kms.destroyableState VSt.disabled.code = some true := by decide
    simp [wipeVerFails, this]
  | scheduled =>
    have : GceTcb.Kms.destroyableState VSt.scheduled.code = some false := by decide
    simp [wipeVerFails, this]
  | destroyed =>
    have : GceTcb.Kms.destroyableState VSt.destroyed.code = some false := by decide
    simp [wipeVerFails, this]

/-- Manager.Wipeout leaves no usable version — provided none is PENDING_GENERATION at that moment -/
theorem wipeKeys_dead (s : Svc) (hnp : NoPend s) : Dead (wipeKeys s).1 := by
  intro n hn
  have hn' : s.has n = true := hn
  simp only [wipeKeys, hn', if_true]
  exact wipeVer_dead _ (hnp n hn')

theorem Dead_ext {s : Svc} (h : Dead s) (x : Ext) : Dead (s.ext x) := by
  intro n hn
  have hn' : s.has n = true := hn
  simp only [Svc.ext, hn', if_true]
  exact usable_false_of_le (extVer_le x n (s.ver n)).1 (h n hn')

theorem Dead_exts (cfg : KCfg) (t : List Ext) : ∀ s : KState, Dead s.svc → Dead (kRun cfg s (t.map .ext)).svc := by
  induction t with
  | nil => intro s hs; exact hs
  | cons x t ih => intro s hs; exact ih _ (Dead_ext hs x)

theorem Dead_signer {s : Svc} (h : Dead s) (n : KName) : s.signer? n = none := by
  cases hs : s.signer? n with
  | none => rfl
  | some k =>
    have hu := signer?_usable' hs
    rw [h n hu.1] at hu; cases hu.2

/-! ### histories in which no wait is cut short never leave a PENDING_GENERATION version behind -/

/-- only `n` may be PENDING_GENERATION -/
def PendAt (s : Svc) (n : KName) : Prop := ∀ m, s.has m = true → m ≠ n → (s.ver m).st.isPending = false

theorem waitGen_noDeadline {e : Env} (hd : e.deadline = false) {s : Svc} {n : KName} (h : PendAt s n) :
    NoPend (waitGen e s n).1 := by
  unfold waitGen
  cases hv : s.ver? n with
  | none =>
    intro m hm
    by_cases e1 : m = n
    · rw [e1] at hm; rw [ver?_of_has hm] at hv; cases hv
    · exact h m hm e1
  | some v =>
    obtain ⟨hh, hvv⟩ := has_of_ver? hv
    have same : ∀ st', v.st = st' → st'.isPending = false → NoPend s := by
      intro st' h1 h2 m hm
      by_cases e1 : m = n
      · rw [e1, hvv, h1]; exact h2
      · exact h m hm e1
    have setE : NoPend (s.set n ⟨.enabled, v.mat⟩) := by
      intro m hm
      rw [ver_set]
      by_cases e1 : m = n
      · simp [e1, VSt.isPending]
      · simp only [e1, if_false]; exact h m hm e1
    simp only []
    cases hst : v.st with
    | enabled => exact same _ hst rfl
    | disabled => exact same _ hst rfl
    | scheduled => exact same _ hst rfl
    | destroyed => exact same _ hst rfl
    | pending g =>
      cases g with
      | zero => exact setE
      | succ g => simp only [hd, Bool.false_eq_true, if_false]; exact setE

theorem PendAt_of_NoPend {s : Svc} (h : NoPend s) (n : KName) : PendAt s n := fun m hm _ => h m hm

theorem PendAt_create (e : Env) {s : Svc} (h : NoPend s) (k : String) : PendAt (s.create e k) (s.nextName k) := by
  intro m hm hne
  obtain ⟨h1, h2, h3⟩ := (has_iff _ m).mp hm
  have hne' : m ≠ ⟨k, s.count k + 1⟩ := hne
  have hold : s.has m = true := by
    apply (has_iff _ m).mpr
    refine ⟨h1, h2, ?_⟩
    simp only [Svc.create] at h3
    by_cases eb : m.base = k
    · simp only [eb, if_true] at h3
      have : m.idx ≠ s.count k + 1 := by
        intro ei; apply hne'
        cases m with
        | mk b i => simp only at eb ei; subst eb; subst ei; rfl
      rw [eb]; omega
    · simpa [eb] using h3
  simp only [Svc.create, hne', if_false]
  exact h m hold

theorem PendAt_addKey (e : Env) {s : Svc} (h : NoPend s) (k : String) (hk : s.keys.contains k = false) :
    PendAt (s.addKey e k) ⟨k, 1⟩ := by
  intro m hm hne
  obtain ⟨h1, h2, h3⟩ := (has_iff _ m).mp hm
  have hb : m.base ≠ k := by
    intro eb
    simp only [Svc.addKey, eb, if_true] at h3
    apply hne
    cases m with
    | mk b i => simp only at eb h2 h3; subst eb; have : i = 1 := by omega
                subst this; rfl
  have hold : s.has m = true := by
    apply (has_iff _ m).mpr
    refine ⟨?_, h2, by simpa [Svc.addKey, hb] using h3⟩
    simp only [Svc.addKey, List.contains_eq_mem, List.mem_append, List.mem_singleton, decide_eq_true_eq] at h1
    rcases h1 with h1 | h1
    · simpa using h1
    · exact absurd h1 hb
  simp only [Svc.addKey, hne, if_false]
  exact h m hold

theorem waitForKeyGen_noDeadline {e : Env} (hd : e.deadline = false) {s : Svc} (h : NoPend s) (k : String) :
    NoPend (waitForKeyGen e s k).1 := by
  unfold waitForKeyGen
  by_cases h0 : (!s.keys.contains k || decide (s.count k = 0)) = true
  · rw [if_pos h0]; exact h
  · rw [if_neg h0]
    cases scan s k with
    | ret i => exact h
    | cont p =>
      cases p with
      | some i => exact waitGen_noDeadline hd (PendAt_of_NoPend h _)
      | none =>
        have hk : s.keys.contains k = true := by
          cases hkk : s.keys.contains k with
          | true => rfl
          | false => rw [hkk] at h0; exact absurd rfl h0
        show NoPend (createAndWait e s k).1
        rw [createAndWait_eq e s k hk]
        exact waitGen_noDeadline hd (PendAt_create e h k)

theorem recreateCryptoKey_noDeadline (f : Flags) {e : Env} (hd : e.deadline = false) {s : Svc} (h : NoPend s) (k : String) :
    NoPend (recreateCryptoKey f e s k).1 := by
  unfold recreateCryptoKey
  by_cases hk : s.keys.contains k = true
  · rw [if_pos hk]
    by_cases hg : f.keepGoing = true
    · rw [if_pos hg]; exact waitForKeyGen_noDeadline hd h k
    · rw [if_neg hg]; exact h
  · rw [if_neg hk]
    have hk' : s.keys.contains k = false := by simpa using hk
    have hpa := PendAt_addKey e h k hk'
    have hsc : scan (s.addKey e k) k = .cont (some 1) := by
      simp [scan, Svc.addKey, scanFrom]
    have hc : ¬ ((!(s.addKey e k).keys.contains k || decide ((s.addKey e k).count k = 0)) = true) := by
      simp [Svc.addKey]
    unfold waitForKeyGen
    rw [if_neg hc, hsc]
    exact waitGen_noDeadline hd hpa

theorem kBootstrap_noDeadline (cfg : KCfg) (f : Flags) (a : BootArgs) {e : Env} (hd : e.deadline = false) (sf : Bool)
    {s : KState} (h : NoPend s.svc) : NoPend (kBootstrap cfg f a e sf s).1.svc := by
  have h1 : NoPend (createNewRootKey f e s.svc cfg.rootKey).1 := by
    unfold createNewRootKey
    by_cases hr : (s.svc.ring && !f.keepGoing) = true
    · rw [if_pos hr]; exact h
    · rw [if_neg hr]; exact recreateCryptoKey_noDeadline f hd (s := { s.svc with ring := true }) h _
  have h2 : NoPend (createFirstSigningKey f e (createNewRootKey f e s.svc cfg.rootKey).1 cfg.signKey).1 :=
    recreateCryptoKey_noDeadline f hd h1 _
  unfold kBootstrap
  cases (createNewRootKey f e s.svc cfg.rootKey).2 with
  | none => exact h1
  | some rootKV =>
    simp only []
    cases (createFirstSigningKey f e (createNewRootKey f e s.svc cfg.rootKey).1 cfg.signKey).2 with
    | none => exact h2
    | some signKV => exact h2

theorem NoPend_same {s s' : Svc} (hp : Prog s s') (hh : ∀ n, s'.has n = true → s.has n = true) (h : NoPend s) : NoPend s' :=
  fun n hn => isPending_false_of_le (hp.1 n (hh n hn)).2.1 (h n (hh n hn))

theorem NoPend_destroy {s : Svc} (h : NoPend s) (n : KName) : NoPend (s.destroy n).1 := by
  refine NoPend_same (destroy_spec s n).1 (fun m hm => ?_) h
  unfold Svc.destroy at hm
  cases hv : s.ver? n with
  | none => rw [hv] at hm; exact hm
  | some v =>
    rw [hv] at hm
    obtain ⟨st, mt⟩ := v
    cases st <;> exact hm

theorem kRotate_noDeadline (cfg : KCfg) (f : Flags) {e : Env} (hd : e.deadline = false) {s : KState} (h : NoPend s.svc)
    (cn : String) (serial now : Nat) : NoPend (kRotate cfg f e s cn serial now).1.svc := by
  have hR : NoPend (rotSvc cfg e s) := waitGen_noDeadline hd (PendAt_create e h _)
  rcases kRotate_shape cfg f e s cn serial now with _ | ⟨c, _, _, _, _, _, _, h7⟩
  · -- the authority is untouched: the service is the original one or the one after the wait
    unfold kRotate
    by_cases hk : (!s.svc.keys.contains cfg.signKey) = true
    · rw [if_pos hk]; exact h
    · rw [if_neg hk]
      cases (waitGen e (s.svc.create e cfg.signKey) (s.svc.nextName cfg.signKey)).2 with
      | false => exact hR
      | true =>
        simp only []
        cases kRotCert (waitGen e (s.svc.create e cfg.signKey) (s.svc.nextName cfg.signKey)).1 s.ca
            (s.svc.nextName cfg.signKey) cn serial now with
        | none => exact hR
        | some c =>
          simp only []
          by_cases hf : (caAfterRotate caCfg f s.ca (s.svc.nextName cfg.signKey) (some c)).2 = true
          · rw [if_pos hf]
            by_cases hn : s.ca.primarySigning = noName
            · rw [if_pos hn]; exact hR
            · rw [if_neg hn]; exact NoPend_destroy hR _
          · rw [if_neg hf]; exact hR
  · rcases h7 with ⟨_, e2, _⟩ | ⟨_, e2, _⟩
    · rw [e2]; exact hR
    · rw [e2]; exact NoPend_destroy hR _

theorem NoPend_step (cfg : KCfg) {s : KState} (h : NoPend s.svc) (c : KCmd) (hd : NoDeadline [c]) :
    NoPend (kStep cfg s c).1.svc := by
  cases c with
  | bootstrap f a e sf => exact kBootstrap_noDeadline cfg f a hd.1 sf h
  | rotate f a e =>
    simp only [kStep]
    cases resolveSerial s.ca a.serial with
    | none => exact h
    | some n => exact kRotate_noDeadline cfg f hd.1 h a.cn n a.now
  | wipeout f c k =>
    simp only [kStep, kWipeout]
    cases k with
    | true => exact NoPend_same (Prog_wipeKeys _) (fun n hn => hn) h
    | false => exact h
  | ext x => exact NoPend_same (Prog_ext _ _) (fun n hn => hn) h

theorem NoDeadline_cons {c : KCmd} {t : List KCmd} (h : NoDeadline (c :: t)) : NoDeadline [c] ∧ NoDeadline t := by
  cases c with
  | bootstrap f a e sf => exact ⟨⟨h.1, trivial⟩, h.2⟩
  | rotate f a e => exact ⟨⟨h.1, trivial⟩, h.2⟩
  | wipeout f c k => exact ⟨trivial, h⟩
  | ext x => exact ⟨trivial, h⟩

theorem NoPend_run (cfg : KCfg) (h : List KCmd) : ∀ s : KState, NoDeadline h → NoPend s.svc → NoPend (kRun cfg s h).svc := by
  induction h with
  | nil => intro s _ hs; exact hs
  | cons c t ih =>
    intro s hd hs
    obtain ⟨d1, d2⟩ := NoDeadline_cons hd
    exact ih _ d2 (NoPend_step cfg hs c d1)

/-! ### the listing scan is C20's -/

/-- `scanFrom` over versions `i, i+1, …` is C20's `Kms.scanPage` (the inner loop of
    getEnabledOrPendingKeyVersion in Model/Kms.lean) over the listing of those versions, whatever their
    resource names: first ENABLED version, else the last PENDING_GENERATION one. -/
theorem scanFrom_eq_scanPage (st : Nat → VSt) (name : Nat → String) (todo i : Nat) (pend : Option Nat) :
    GceTcb.Kms.scanPage ((List.range' i todo).map fun j => (⟨name j, (st j).code⟩ : GceTcb.Kms.Ver))
        (pend.map fun j => ⟨name j, (st j).code⟩) =
      (match scanFrom st todo i pend with
       | .ret j => GceTcb.Kms.Scan.ret ⟨name j, (st j).code⟩
       | .cont p => GceTcb.Kms.Scan.cont (p.map fun j => ⟨name j, (st j).code⟩)) := by
  induction todo generalizing i pend with
  | zero => simp [GceTcb.Kms.scanPage, scanFrom]
  | succ t ih =>
    rw [List.range'_succ, List.map_cons, GceTcb.Kms.scanPage]
    have other : ∀ s0 : VSt, st i = s0 → s0 ≠ .enabled → s0.isPending = false →
        scanFrom st (t + 1) i pend = scanFrom st t (i + 1) pend := by
      intro s0 h0 h1 h2
      rw [scanFrom]
      cases s0 with
      | enabled => exact absurd rfl h1
      | pending g => cases h2
      | disabled => simp only [h0]
      | scheduled => simp only [h0]
      | destroyed => simp only [h0]
    cases hs : st i with
    | enabled =>
      have h1 : (⟨name i, VSt.enabled.code⟩ : GceTcb.Kms.Ver).state = GceTcb.Kms.stEnabled := rfl
      rw [if_pos h1]
      simp only [scanFrom, hs]
    | pending g =>
      have h1 : ¬ (⟨name i, (VSt.pending g).code⟩ : GceTcb.Kms.Ver).state = GceTcb.Kms.stEnabled := by
        show ¬ Gen.Kms.stPendingGeneration = GceTcb.Kms.stEnabled; decide
      have h2 : (⟨name i, (VSt.pending g).code⟩ : GceTcb.Kms.Ver).state = GceTcb.Kms.stPending := rfl
      rw [if_neg h1, if_pos h2]
      have := ih (i + 1) (some i)
      simp only [Option.map_some, hs] at this
      rw [this]
      simp only [scanFrom, hs]
    | disabled =>
      have h1 : ¬ (⟨name i, VSt.disabled.code⟩ : GceTcb.Kms.Ver).state = GceTcb.Kms.stEnabled := by
        show ¬ VSt.disabled.code = GceTcb.Kms.stEnabled; decide
      have h2 : ¬ (⟨name i, VSt.disabled.code⟩ : GceTcb.Kms.Ver).state = GceTcb.Kms.stPending := by
        show ¬ VSt.disabled.code = GceTcb.Kms.stPending; decide
      rw [if_neg h1, if_neg h2, ih (i + 1) pend, other _ hs (by decide) rfl]
    | scheduled =>
      have h1 : ¬ (⟨name i, VSt.scheduled.code⟩ : GceTcb.Kms.Ver).state = GceTcb.Kms.stEnabled := by
        show ¬ VSt.scheduled.code = GceTcb.Kms.stEnabled; decide
      have h2 : ¬ (⟨name i, VSt.scheduled.code⟩ : GceTcb.Kms.Ver).state = GceTcb.Kms.stPending := by
        show ¬ VSt.scheduled.code = GceTcb.Kms.stPending; decide
      rw [if_neg h1, if_neg h2, ih (i + 1) pend, other _ hs (by decide) rfl]
    | destroyed =>
      have h1 : ¬ (⟨name i, VSt.destroyed.code⟩ : GceTcb.Kms.Ver).state = GceTcb.Kms.stEnabled := by
        show ¬ VSt.destroyed.code = GceTcb.Kms.stEnabled; decide
      have h2 : ¬ (⟨name i, VSt.destroyed.code⟩ : GceTcb.Kms.Ver).state = GceTcb.Kms.stPending := by
        show ¬ VSt.destroyed.code = GceTcb.Kms.stPending; decide
      rw [if_neg h1, if_neg h2, ih (i + 1) pend, other _ hs (by decide) rfl]

end GceTcb.KeyHistory.KmsH
