import GceTcb.Model.ProtoWire
/-
Lemmas about the protobuf wire codec of `Model/ProtoWire.lean`: varint and length-prefix round trips,
progress of every reader (so that fuel = number of bytes is never exhausted), the generic
"parse the fields that were emitted" lemma, and the per-message round trips.  Core-only.
-/
namespace GceTcb.ProtoWire
open GceTcb

/-! ## varints -/

theorem u8_toNat_ofNat (k : Nat) (h : k < 256) : (UInt8.ofNat k).toNat = k := by
  simp [UInt8.toNat_ofNat']; omega

theorem decodeVarintF_encodeVarintF (f : Nat) : ∀ (n : Nat) (rest : Bytes), n < 2 * 128 ^ f →
    decodeVarintF (f + 1) (encodeVarintF (f + 1) n ++ rest) = some (n, rest) := by
  induction f with
  | zero =>
    intro n rest h
    have h2 : n < 2 := by simpa using h
    have hb : (UInt8.ofNat n).toNat = n := u8_toNat_ofNat n (by omega)
    have : n < 128 := by omega
    simp only [encodeVarintF, this, if_true, List.cons_append, List.nil_append, decodeVarintF, hb]
    simp; omega
  | succ f ih =>
    intro n rest h
    rw [Nat.pow_succ] at h
    by_cases hn : n < 128
    · have hb : (UInt8.ofNat n).toNat = n := u8_toNat_ofNat n (by omega)
      simp [encodeVarintF, hn, decodeVarintF, hb]
    · have hb : (UInt8.ofNat (n % 128 + 128)).toNat = n % 128 + 128 := u8_toNat_ofNat _ (by omega)
      have hlt : ¬ (n % 128 + 128 < 128) := by omega
      rw [encodeVarintF]
      simp only [hn, if_false, List.cons_append]
      rw [decodeVarintF]
      simp only [hb, hlt, if_false, Nat.succ_ne_zero]
      rw [ih (n / 128) rest (by omega)]
      simp; omega

/-- ConsumeVarint ∘ AppendVarint, with anything after it: the value (as a uint64) and exactly the rest. -/
theorem decodeVarint_encodeVarint (n : Nat) (rest : Bytes) :
    decodeVarint (encodeVarint n ++ rest) = some (n % 2 ^ 64, rest) := by
  unfold decodeVarint encodeVarint
  exact decodeVarintF_encodeVarintF 9 _ rest (by have := Nat.mod_lt n (show 2^64 > 0 by decide); omega)

theorem encodeVarintF_ne_nil (f n : Nat) : encodeVarintF (f + 1) n ≠ [] := by
  rw [encodeVarintF]; split <;> simp

theorem encodeVarint_ne_nil (n : Nat) : encodeVarint n ≠ [] := encodeVarintF_ne_nil 9 _

theorem encodeVarintF_length_le (f : Nat) : ∀ n, (encodeVarintF f n).length ≤ f := by
  induction f with
  | zero => intro n; simp [encodeVarintF]
  | succ f ih =>
    intro n
    rw [encodeVarintF]
    split
    · simp
    · have := ih (n / 128); simp; omega

/-- an encoded varint has 1 to 10 bytes -/
theorem encodeVarint_length (n : Nat) : 1 ≤ (encodeVarint n).length ∧ (encodeVarint n).length ≤ 10 := by
  constructor
  · have := encodeVarint_ne_nil n
    cases h : encodeVarint n with
    | nil => exact absurd h this
    | cons _ _ => simp
  · exact encodeVarintF_length_le 10 _

/-- a successful ConsumeVarint consumes at least one byte and returns a proper suffix -/
theorem decodeVarintF_suffix (f : Nat) : ∀ (b : Bytes) (v : Nat) (r : Bytes),
    decodeVarintF f b = some (v, r) → ∃ pre, pre ≠ [] ∧ b = pre ++ r := by
  induction f with
  | zero => intro b v r h; simp [decodeVarintF] at h
  | succ f ih =>
    intro b v r h
    cases b with
    | nil => simp [decodeVarintF] at h
    | cons x xs =>
      rw [decodeVarintF] at h
      split at h
      · split at h
        · cases h
        · simp only [Option.some.injEq, Prod.mk.injEq] at h
          exact ⟨[x], by simp, by simp [h.2]⟩
      · split at h
        · cases h
        · cases hd : decodeVarintF f xs with
          | none => rw [hd] at h; cases h
          | some p =>
            obtain ⟨v', r'⟩ := p
            rw [hd] at h
            simp only [Option.some.injEq, Prod.mk.injEq] at h
            obtain ⟨pre, _, hpre⟩ := ih xs v' r' hd
            exact ⟨x :: pre, by simp, by rw [hpre, ← h.2]; simp⟩

theorem decodeVarint_suffix (b : Bytes) (v : Nat) (r : Bytes) (h : decodeVarint b = some (v, r)) :
    ∃ pre, pre ≠ [] ∧ b = pre ++ r := decodeVarintF_suffix 10 b v r h

theorem decodeVarint_lt (b : Bytes) (v : Nat) (r : Bytes) (h : decodeVarint b = some (v, r)) :
    r.length < b.length := by
  obtain ⟨pre, hne, rfl⟩ := decodeVarint_suffix b v r h
  cases pre with
  | nil => exact absurd rfl hne
  | cons _ _ => simp; omega

/-- decoded values are uint64 -/
theorem decodeVarintF_bound (f : Nat) : ∀ (b : Bytes) (v : Nat) (r : Bytes),
    decodeVarintF (f + 1) b = some (v, r) → v < 2 * 128 ^ f := by
  induction f with
  | zero =>
    intro b v r h
    cases b with
    | nil => simp [decodeVarintF] at h
    | cons x xs =>
      rw [decodeVarintF] at h
      split at h
      · split at h
        · cases h
        · rename_i h1 h2
          simp only [Option.some.injEq, Prod.mk.injEq] at h
          simp at h2
          omega
      · simp at h
  | succ f ih =>
    intro b v r h
    cases b with
    | nil => simp [decodeVarintF] at h
    | cons x xs =>
      rw [decodeVarintF] at h
      rw [Nat.pow_succ]
      have hx := x.toNat_lt
      have hp : 0 < 128 ^ f := Nat.pow_pos (by decide)
      split at h
      · split at h
        · cases h
        · simp only [Option.some.injEq, Prod.mk.injEq] at h
          omega
      · split at h
        · cases h
        · cases hd : decodeVarintF (f + 1) xs with
          | none => rw [hd] at h; cases h
          | some p =>
            obtain ⟨v', r'⟩ := p
            rw [hd] at h
            simp only [Option.some.injEq, Prod.mk.injEq] at h
            have := ih xs v' r' hd
            omega

theorem decodeVarint_bound (b : Bytes) (v : Nat) (r : Bytes) (h : decodeVarint b = some (v, r)) :
    v < 2 ^ 64 := by
  have := decodeVarintF_bound 9 b v r h
  have e : 2 * 128 ^ 9 = 2 ^ 64 := by decide
  omega

/-! ## length-delimited values -/

theorem decodeLen_encode (p rest : Bytes) (h : p.length < 2 ^ 64) :
    decodeLen (encodeVarint p.length ++ (p ++ rest)) = some (p, rest) := by
  unfold decodeLen
  rw [decodeVarint_encodeVarint, Nat.mod_eq_of_lt h]
  simp

theorem decodeLen_suffix (b p r : Bytes) (h : decodeLen b = some (p, r)) :
    ∃ pre, pre ≠ [] ∧ b = pre ++ r := by
  unfold decodeLen at h
  cases hd : decodeVarint b with
  | none => rw [hd] at h; cases h
  | some q =>
    obtain ⟨m, r1⟩ := q
    rw [hd] at h
    simp only at h
    split at h
    · cases h
    · simp only [Option.some.injEq, Prod.mk.injEq] at h
      obtain ⟨pre, hne, hb⟩ := decodeVarint_suffix b m r1 hd
      refine ⟨pre ++ r1.take m, by simp [hne], ?_⟩
      rw [hb, ← h.2, List.append_assoc, List.take_append_drop]

theorem decodeLen_lt (b p r : Bytes) (h : decodeLen b = some (p, r)) : r.length < b.length := by
  obtain ⟨pre, hne, rfl⟩ := decodeLen_suffix b p r h
  cases pre with
  | nil => exact absurd rfl hne
  | cons _ _ => simp; omega

theorem consumed_append (a r : Bytes) : consumed (a ++ r) r = a := by
  simp [consumed]


/-! ## one field -/

def numOk (num : Nat) : Prop := 1 ≤ num ∧ num ≤ maxValidNumber

/-- A field that reads back as itself, whatever follows it. -/
def Field.Good (f : Field) : Prop := ∀ rest, readField (encField f ++ rest) = some (f, rest)

theorem good_fVarint (num v : Nat) (hn : numOk num) : (fVarint num v).Good := by
  intro rest
  obtain ⟨h1, h2⟩ := hn
  unfold maxValidNumber at h2
  have ht : (num * 8 + 0) % 2 ^ 64 = num * 8 := by omega
  simp only [encField, fVarint, Val.wt, tagBytes, List.append_assoc]
  unfold readField
  rw [decodeVarint_encodeVarint, ht]
  have e1 : num * 8 / 8 = num := by omega
  have e2 : num * 8 % 8 = 0 := by omega
  have hc : ¬ (num < 1 ∨ maxValidNumber < num) := by unfold maxValidNumber; omega
  simp only [e1, e2, hc, if_false]
  rw [decodeVarint_encodeVarint]
  simp only [consumed_append]

theorem good_fLen (num : Nat) (p : Bytes) (hn : numOk num) (hp : p.length < 2 ^ 64) : (fLen num p).Good := by
  intro rest
  obtain ⟨h1, h2⟩ := hn
  unfold maxValidNumber at h2
  have ht : (num * 8 + 2) % 2 ^ 64 = num * 8 + 2 := by omega
  simp only [encField, fLen, Val.wt, tagBytes, List.append_assoc]
  unfold readField
  rw [decodeVarint_encodeVarint, ht]
  have e1 : (num * 8 + 2) / 8 = num := by omega
  have e2 : (num * 8 + 2) % 8 = 2 := by omega
  have hc : ¬ (num < 1 ∨ maxValidNumber < num) := by unfold maxValidNumber; omega
  simp only [e1, e2, hc, if_false]
  rw [decodeLen_encode p rest hp]
  have : consumed (encodeVarint p.length ++ (p ++ rest)) rest = encodeVarint p.length ++ p := by
    rw [← List.append_assoc, consumed_append]
  simp only [this]

theorem encField_ne_nil (f : Field) : encField f ≠ [] := by
  unfold encField tagBytes
  have := encodeVarint_ne_nil (f.num * 8 + f.val.wt)
  cases h : encodeVarint (f.num * 8 + f.val.wt) with
  | nil => exact absurd h this
  | cons _ _ => simp

theorem encFields_append (a b : List Field) : encFields (a ++ b) = encFields a ++ encFields b := by
  induction a with
  | nil => rfl
  | cons f fs ih => simp [encFields, ih]

theorem encFields_length_ge (fs : List Field) : fs.length ≤ (encFields fs).length := by
  induction fs with
  | nil => simp [encFields]
  | cons f fs ih =>
    have := encField_ne_nil f
    cases h : encField f with
    | nil => exact absurd h this
    | cons _ _ => simp [encFields, h]; omega

theorem mem_encFields_length (fs : List Field) (f : Field) (h : f ∈ fs) :
    (encField f).length ≤ (encFields fs).length := by
  induction fs with
  | nil => cases h
  | cons g gs ih =>
    simp only [encFields, List.length_append]
    rcases List.mem_cons.mp h with rfl | h'
    · omega
    · have := ih h'; omega

/-! ## the field loop -/

theorem parseFieldsF_nil (n : Nat) : parseFieldsF n [] = some [] := by
  cases n <;> rfl

theorem parseFieldsF_good (f : Field) (hg : f.Good) (n : Nat) (rest : Bytes) :
    parseFieldsF (n + 1) (encField f ++ rest) =
      match parseFieldsF n rest with
      | none => none
      | some fs => some (f :: fs) := by
  have hne := encField_ne_nil f
  cases h : encField f with
  | nil => exact absurd h hne
  | cons x xs =>
    have hr := hg rest
    rw [h] at hr
    simp only [List.cons_append] at hr ⊢
    rw [parseFieldsF, hr]
    simp only []
    cases parseFieldsF n rest <;> rfl

theorem parseFieldsF_encFields (fs : List Field) (hg : ∀ f ∈ fs, f.Good) :
    ∀ n, fs.length ≤ n → parseFieldsF n (encFields fs) = some fs := by
  induction fs with
  | nil => intro n _; simp [encFields, parseFieldsF_nil]
  | cons f fs ih =>
    intro n hn
    cases n with
    | zero => simp at hn
    | succ n =>
      simp only [encFields]
      rw [parseFieldsF_good f (hg f (by simp)) n, ih (fun g hgm => hg g (by simp [hgm])) n (by simpa using hn)]

/-- the fields that were emitted are the fields that are read -/
theorem parseFields_encFields (fs : List Field) (hg : ∀ f ∈ fs, f.Good) :
    parseFields (encFields fs) = some fs :=
  parseFieldsF_encFields fs hg _ (encFields_length_ge fs)

theorem decodeInto_encFields {M : Type} (step : M → Field → Option M) (init : M) (fs : List Field)
    (hg : ∀ f ∈ fs, f.Good) : decodeInto step init (encFields fs) = foldFields step init fs := by
  unfold decodeInto
  rw [parseFields_encFields fs hg]

/-- shape of the fields our encoders emit -/
def Field.Shape (f : Field) : Prop :=
  (∃ num v, numOk num ∧ f = fVarint num v) ∨ (∃ num p, numOk num ∧ f = fLen num p)

theorem fLen_payload_le (num : Nat) (p : Bytes) : p.length ≤ (encField (fLen num p)).length := by
  simp [encField, fLen]; omega

/-- emitted fields are good as soon as the whole encoding is shorter than 2^64 bytes -/
theorem good_of_shape (fs : List Field) (hs : ∀ f ∈ fs, f.Shape) (hsz : (encFields fs).length < 2 ^ 64) :
    ∀ f ∈ fs, f.Good := by
  intro f hf
  rcases hs f hf with ⟨num, v, hn, rfl⟩ | ⟨num, p, hn, rfl⟩
  · exact good_fVarint num v hn
  · have h1 := mem_encFields_length fs _ hf
    have h2 := fLen_payload_le num p
    exact good_fLen num p hn (by omega)

/-- a length-delimited payload is shorter than the encoding that contains it -/
theorem payload_lt (fs : List Field) (num : Nat) (p : Bytes) (hf : fLen num p ∈ fs) {B : Nat}
    (hsz : (encFields fs).length < B) : p.length < B := by
  have h1 := mem_encFields_length fs _ hf
  have h2 := fLen_payload_le num p
  omega

/-! ## folding the step function over emitted fields -/

theorem foldFields_append {M : Type} (step : M → Field → Option M) (s : M) (a b : List Field) :
    foldFields step s (a ++ b) =
      match foldFields step s a with
      | none => none
      | some s' => foldFields step s' b := by
  induction a generalizing s with
  | nil => rfl
  | cons f fs ih =>
    simp only [List.cons_append, foldFields]
    cases step s f with
    | none => rfl
    | some s' => exact ih s'

theorem fold_optVarint {M : Type} (step : M → Field → Option M) (num v : Nat) (s : M) (upd : Nat → M)
    (rest : List Field) (hstep : step s (fVarint num v) = some (upd (v % 2 ^ 64))) (hzero : upd 0 = s) :
    foldFields step s (optVarint num v ++ rest) = foldFields step (upd (v % 2 ^ 64)) rest := by
  unfold optVarint
  by_cases h : v % 2 ^ 64 = 0
  · simp only [h, if_true, List.nil_append, hzero]
  · simp only [h, if_false, List.cons_append, List.nil_append, foldFields, hstep]

theorem fold_optBytes {M : Type} (step : M → Field → Option M) (num : Nat) (p : Bytes) (s : M) (upd : Bytes → M)
    (rest : List Field) (hstep : step s (fLen num p) = some (upd p)) (hzero : upd [] = s) :
    foldFields step s (optBytes num p ++ rest) = foldFields step (upd p) rest := by
  unfold optBytes
  by_cases h : p = []
  · simp only [h, if_true, List.nil_append, hzero]
  · simp only [h, if_false, List.cons_append, List.nil_append, foldFields, hstep]

theorem fold_optMsg {M : Type} (step : M → Field → Option M) (num : Nat) (o : Option Bytes) (s s' : M)
    (rest : List Field) (hsome : ∀ p, o = some p → step s (fLen num p) = some s') (hnone : o = none → s' = s) :
    foldFields step s (optMsg num o ++ rest) = foldFields step s' rest := by
  cases o with
  | none => simp only [optMsg, List.nil_append, hnone rfl]
  | some p => simp only [optMsg, List.cons_append, List.nil_append, foldFields, hsome p rfl]

theorem fold_repeated {M α : Type} (step : M → Field → Option M) (num : Nat) (enc : α → Bytes) (acc : M → α → M)
    (l : List α) (hstep : ∀ s x, x ∈ l → step s (fLen num (enc x)) = some (acc s x)) :
    ∀ (s : M) (rest : List Field),
      foldFields step s (l.map (fun x => fLen num (enc x)) ++ rest) = foldFields step (l.foldl acc s) rest := by
  induction l with
  | nil => intro s rest; rfl
  | cons x xs ih =>
    intro s rest
    simp only [List.map_cons, List.cons_append, foldFields, hstep s x (by simp), List.foldl_cons]
    exact ih (fun s y hy => hstep s y (by simp [hy])) (acc s x) rest

/-! ## integer conversions -/

theorem toInt64_i64bits (x : Int) (h1 : -9223372036854775808 ≤ x) (h2 : x < 9223372036854775808) :
    toInt64 (i64bits x % 2 ^ 64) = x := by
  unfold toInt64 i64bits; omega

theorem toInt32_i64bits (x : Int) (h1 : -2147483648 ≤ x) (h2 : x < 2147483648) :
    toInt32 (i64bits x % 2 ^ 64) = x := by
  unfold toInt32 i64bits; omega

end GceTcb.ProtoWire
