import GceTcb.Proofs.RotateGcs
/-
C10, immediate authority (memca): the mutation's setters change the authority at once, Finalize is a
no-op.  Specifications of the steps of `rotateKey` for one arbitrary fault script.
-/
namespace GceTcb.CA

variable {sc : Nat → Fault} {ow : Bool}

/-- generic: sops.CreateCertificateFromTemplate with issuer key `rootKey` whose live material is the
    public key of the issuer certificate `r` -/
theorem createCertificate_gen {P : St → Prop} (cfg : Cfg) (hP : Stable P) (rootKey : String) (r : Cert)
    (hk : ∀ s, P s → lookup s.keys rootKey = some r.pub) (req : Req) (subjPub : Nat) :
    Tr sc ow P (createCertificate cfg req subjPub rootKey (some r))
      (fun c s => c = ⟨req.cn, req.serial, subjPub, r.pub⟩ ∧ P s) P := by
  unfold createCertificate
  have hpub : Tr sc ow P (sgPub rootKey) (fun a s => a = r.pub ∧ P s) P :=
    (sgPub_spec rootKey hP (fun _ h => h) (fun s h => ⟨_, hk s h⟩)).post
      (fun a s h => ⟨by have := hk s h.1; rw [h.2] at this; exact (Option.some.inj this), h.1⟩)
  refine Triple.bind (Triple.repeatRun hpub cfg.pubPre) ?_
  intro pre
  refine Triple.of_fact ?_
  intro hpre
  rw [parentMatches_of_all hpre]
  show Triple sc _ (sgSign rootKey >>= fun b => _) _ _ _
  refine Triple.bind (Q1 := fun a s => a = r.pub ∧ P s) ?_ ?_
  · exact (sgSign_spec rootKey hP (fun _ h => h) (fun s h => ⟨_, hk s h⟩)).post
      (fun a s h => ⟨by have := hk s h.1; rw [h.2] at this; exact (Option.some.inj this), h.1⟩)
  intro b
  refine Triple.of_fact ?_
  intro hb
  refine Triple.bind (Triple.repeatRun hpub cfg.pubPost) ?_
  intro _
  exact Triple.pure _ (fun s h => ⟨by rw [hb], h.2⟩)

section mem
variable (cfg : Cfg) (r c0 : Cert) (p0 root0 : String)

/-- Phase predicate before the primary is switched: the authority's contents are the good initial ones
    (root `root0` with certificate `r`, primary `p0` with certificate `c0`), possibly with the new key
    `kk` live and its certificate `extra` already added. -/
structure PhM (kk : Option (String × Nat)) (extra : Option (String × Cert)) (s : St) : Prop where
  inv : InvM cfg r c0 s
  prim : s.memPrimary = p0
  root : s.memRoot = root0
  nd : NoDestroy s.log
  key : ∀ k mat, kk = some (k, mat) → lookup s.keys k = some mat
  ex : ∀ k c, extra = some (k, c) → lookup s.memCerts k = some c

variable {cfg r c0 p0 root0}

theorem PhM.stable (kk : Option (String × Nat)) (extra : Option (String × Cert)) :
    Stable (PhM cfg r c0 p0 root0 kk extra) :=
  fun _ _ f hc h => ⟨h.inv.transfer rfl rfl rfl rfl, h.prim, h.root, h.nd.snoc hc f, h.key, h.ex⟩

theorem PhM.safe (hca : cfg.ca = .memca) {kk : Option (String × Nat)} {extra : Option (String × Cert)} {s : St}
    (h : PhM cfg r c0 p0 root0 kk extra s) : Safe cfg s := by
  refine ⟨?_, DAC_of_noDestroy cfg h.nd⟩
  unfold Inv; rw [hca]
  exact ⟨r, c0, h.inv⟩

theorem PhM.weaken {kk : Option (String × Nat)} {extra : Option (String × Cert)} {s : St}
    (h : PhM cfg r c0 p0 root0 kk extra s) : PhM cfg r c0 p0 root0 none none s :=
  ⟨h.inv, h.prim, h.root, h.nd, fun _ _ e => (by cases e), fun _ _ e => (by cases e)⟩

theorem caPskM_spec (hca : cfg.ca = .memca) (kk : Option (String × Nat)) (extra : Option (String × Cert)) :
    Tr sc ow (PhM cfg r c0 p0 root0 kk extra) (caPsk cfg)
      (fun p s => p = p0 ∧ PhM cfg r c0 p0 root0 kk extra s) (PhM cfg r c0 p0 root0 kk extra) := by
  unfold caPsk; rw [hca]
  refine Tr.wrap (P' := PhM cfg r c0 p0 root0 kk extra) .caPsk (fun s f h => PhM.stable kk extra s _ f nd_caPsk h)
    (fun s h => PhM.stable kk extra s _ _ nd_caPsk h) ?_ (fun a s h => h.2)
  refine Triple.getSt_bind ?_
  intro s0 h0
  exact Triple.pure _ (fun s hs => by subst hs; exact ⟨h0.prim, h0⟩)

theorem caPrkM_spec (hca : cfg.ca = .memca) (kk : Option (String × Nat)) (extra : Option (String × Cert)) :
    Tr sc ow (PhM cfg r c0 p0 root0 kk extra) (caPrk cfg)
      (fun p s => p = root0 ∧ PhM cfg r c0 p0 root0 kk extra s) (PhM cfg r c0 p0 root0 kk extra) := by
  unfold caPrk; rw [hca]
  refine Tr.wrap (P' := PhM cfg r c0 p0 root0 kk extra) .caPrk (fun s f h => PhM.stable kk extra s _ f nd_caPrk h)
    (fun s h => PhM.stable kk extra s _ _ nd_caPrk h) ?_ (fun a s h => h.2)
  refine Triple.getSt_bind ?_
  intro s0 h0
  exact Triple.pure _ (fun s hs => by subst hs; exact ⟨h0.root, h0⟩)

theorem caIssuerM_spec (hca : cfg.ca = .memca) (kk : Option (String × Nat)) (extra : Option (String × Cert)) :
    Tr sc ow (PhM cfg r c0 p0 root0 kk extra) (caIssuer cfg)
      (fun c s => c = r ∧ PhM cfg r c0 p0 root0 kk extra s) (PhM cfg r c0 p0 root0 kk extra) := by
  unfold caIssuer; rw [hca]
  refine Tr.wrap (P' := PhM cfg r c0 p0 root0 kk extra) .caBundle (fun s f h => PhM.stable kk extra s _ f nd_caBundle h)
    (fun s h => PhM.stable kk extra s _ _ nd_caBundle h) ?_ (fun a s h => h.2)
  refine Triple.getSt_bind ?_
  intro s0 h0
  rw [h0.inv.root]
  exact Triple.pure _ (fun s hs => by subst hs; exact ⟨rfl, h0⟩)

theorem caCertM_weak (hca : cfg.ca = .memca) (kvn : String) (kk : Option (String × Nat)) (extra : Option (String × Cert)) :
    Triple sc (PhM cfg r c0 p0 root0 kk extra) (caCert cfg kvn)
      (fun _ s => PhM cfg r c0 p0 root0 kk extra s) (PhM cfg r c0 p0 root0 kk extra)
      (fun s => PhM cfg r c0 p0 root0 kk extra s ∧ ¬ NoFault sc) := by
  unfold caCert; rw [hca]
  refine Triple.wrap (P' := PhM cfg r c0 p0 root0 kk extra) (.caCert kvn)
    (fun s f h => PhM.stable kk extra s _ f (nd_caCert kvn) h)
    (fun s h _ => PhM.stable kk extra s _ _ (nd_caCert kvn) h) ?_ (fun a s hf h => ⟨h, hf⟩) (fun s hf h => ⟨h, hf⟩)
  refine Triple.getSt_bind ?_
  intro s0 h0
  refine Triple.pre (P := PhM cfg r c0 p0 root0 kk extra) ?_ (fun s hs => by subst hs; exact h0)
  cases lookup s0.memCerts kvn with
  | none => exact Triple.throw (fun _ h => h)
  | some c => exact Triple.pure _ (fun _ h => h)

theorem kmCreateM_spec (hca : cfg.ca = .memca) (hb : BumpOK cfg) :
    Tr sc ow (PhM cfg r c0 p0 root0 none none) (kmCreate cfg)
      (fun kv s => kv = cfg.bump p0 ∧ ∃ mat, PhM cfg r c0 p0 root0 (some (cfg.bump p0, mat)) none s)
      (PhM cfg r c0 p0 root0 none none) := by
  unfold kmCreate
  refine Tr.wrap (P' := PhM cfg r c0 p0 root0 none none) .kmCreate
    (fun s f h => PhM.stable none none s _ f nd_kmCreate h)
    (fun s h => PhM.stable none none s _ _ nd_kmCreate h) ?_ (fun a s h => by
      obtain ⟨_, mat, hm⟩ := h; exact hm.weaken)
  refine Triple.bind (caPskM_spec hca none none) ?_
  intro p
  refine Triple.of_fact ?_
  intro hp
  rw [hp]
  unfold genKey
  refine Triple.bind (Triple.modSt (Q := fun _ s => ∃ mat, PhM cfg r c0 p0 root0 (some (cfg.bump p0, mat)) none s) _ ?_) ?_
  · intro s h
    have hi := h.inv
    have h1 : cfg.bump p0 ≠ s.memPrimary := by rw [h.prim]; exact hb.1 _
    have h2 : cfg.bump p0 ≠ s.memRoot := hi.broot _
    refine ⟨s.nextMat, ⟨hi.root, hi.prim, ?_, hi.chain, ?_, hi.sig_ne, hi.root_ne, hi.sr, hi.broot⟩, h.prim, h.root, h.nd, ?_, h.ex⟩
    · show lookup ((cfg.bump p0, s.nextMat) :: s.keys) s.memPrimary = _
      rw [lookup_cons_ne _ _ _ _ h1]; exact hi.kprim
    · show lookup ((cfg.bump p0, s.nextMat) :: s.keys) s.memRoot = _
      rw [lookup_cons_ne _ _ _ _ h2]; exact hi.kroot
    · intro k mat e
      cases e
      exact lookup_cons_self _ _ _
  intro _
  exact Triple.pure _ (fun s h => ⟨rfl, h⟩)

theorem getCurrentInfoM_spec (hca : cfg.ca = .memca) (kk : Option (String × Nat)) (extra : Option (String × Cert)) :
    Tr sc ow (PhM cfg r c0 p0 root0 kk extra) (getCurrentInfo cfg)
      (fun x s => x = (p0, root0, r) ∧ PhM cfg r c0 p0 root0 kk extra s)
      (PhM cfg r c0 p0 root0 kk extra) := by
  unfold getCurrentInfo
  refine Triple.bind (caPskM_spec hca kk extra) ?_
  intro cur
  refine Triple.of_fact ?_
  intro h1
  refine Triple.bind (caPrkM_spec hca kk extra) ?_
  intro root
  refine Triple.of_fact ?_
  intro h2
  refine Triple.bind (caIssuerM_spec hca kk extra) ?_
  intro iss
  refine Triple.of_fact ?_
  intro h3
  exact Triple.pure _ (fun s h => ⟨by rw [h1, h2, h3], h⟩)

theorem kmTemplateM_spec (hca : cfg.ca = .memca) (kk : Option (String × Nat)) (extra : Option (String × Cert)) :
    Tr sc ow (PhM cfg r c0 p0 root0 kk extra) (kmTemplate cfg)
      (fun _ s => PhM cfg r c0 p0 root0 kk extra s) (PhM cfg r c0 p0 root0 kk extra) := by
  unfold kmTemplate
  refine Triple.bind (caPskM_spec hca kk extra) ?_
  intro p
  refine Triple.pre (P := PhM cfg r c0 p0 root0 kk extra) ?_ (fun s h => h.2)
  refine Triple.bind (Q1 := fun _ s => PhM cfg r c0 p0 root0 kk extra s) ?_ ?_
  · exact (Triple.attempt (caCertM_weak hca p kk extra)).conseq (fun _ h => h)
      (fun a s h => by cases a <;> exact h) (fun _ h => h) (fun _ h => h)
  intro _
  exact Triple.pure _ (fun _ h => h)

/-- go: rotate.signCert on memca: the certificate is added to the authority at once -/
theorem signCertM_spec (hca : cfg.ca = .memca) (hb : BumpOK cfg) (req : Req) (mat : Nat) :
    Tr sc ow (PhM cfg r c0 p0 root0 (some (cfg.bump p0, mat)) none) (signCert cfg req {} r (cfg.bump p0) root0)
      (fun x s => x.2 = ⟨req.cn, req.serial, mat, r.pub⟩ ∧
        PhM cfg r c0 p0 root0 (some (cfg.bump p0, mat)) (some (cfg.bump p0, x.2)) s)
      (PhM cfg r c0 p0 root0 (some (cfg.bump p0, mat)) none) := by
  unfold signCert
  refine Triple.bind (Q1 := fun a s => a = mat ∧ PhM cfg r c0 p0 root0 (some (cfg.bump p0, mat)) none s) ?_ ?_
  · exact (sgPub_spec _ (PhM.stable _ _) (fun _ h => h) (fun s h => ⟨_, h.key _ mat rfl⟩)).post
      (fun a s h => ⟨by have := h.1.key _ mat rfl; rw [h.2] at this; exact (Option.some.inj this), h.1⟩)
  intro sp
  refine Triple.of_fact ?_
  intro hsp
  rw [hsp]
  refine Triple.bind (kmTemplateM_spec hca _ _) ?_
  intro _
  refine Triple.bind (createCertificate_gen cfg (PhM.stable _ _) root0 r
    (fun s h => by have := h.inv.kroot; rw [h.root] at this; exact this) req mat) ?_
  intro c
  refine Triple.of_fact ?_
  intro hc
  unfold mutAddCert; rw [hca]
  show Triple sc _ (((modSt fun s => { s with memCerts := (cfg.bump p0, c) :: s.memCerts }) >>= fun _ => pure _) >>= fun mu' => pure (mu', c)) _ _ _
  refine Triple.bind (Q1 := fun _ s => PhM cfg r c0 p0 root0 (some (cfg.bump p0, mat)) (some (cfg.bump p0, c)) s) ?_ ?_
  · refine Triple.bind (Triple.modSt (Q := fun _ s => PhM cfg r c0 p0 root0 (some (cfg.bump p0, mat)) (some (cfg.bump p0, c)) s) _ ?_) (fun _ => Triple.pure _ (fun _ h => h))
    intro s h
    have hi := h.inv
    have h1 : cfg.bump p0 ≠ s.memPrimary := by rw [h.prim]; exact hb.1 _
    have h2 : cfg.bump p0 ≠ s.memRoot := hi.broot _
    refine ⟨⟨?_, ?_, hi.kprim, hi.chain, hi.kroot, hi.sig_ne, hi.root_ne, hi.sr, hi.broot⟩, h.prim, h.root, h.nd, h.key, ?_⟩
    · show lookup ((cfg.bump p0, c) :: s.memCerts) s.memRoot = _
      rw [lookup_cons_ne _ _ _ _ h2]; exact hi.root
    · show lookup ((cfg.bump p0, c) :: s.memCerts) s.memPrimary = _
      rw [lookup_cons_ne _ _ _ _ h1]; exact hi.prim
    · intro k c' e
      cases e
      exact lookup_cons_self _ _ _
  intro mu
  exact Triple.pure _ (fun s h => ⟨hc, h⟩)

/-- after the primary was switched -/
structure PhMD (cfg : Cfg) (r C c0 : Cert) (p0 root0 : String) (f : Fault) (s : St) : Prop where
  inv : InvM cfg r C s
  prim : s.memPrimary = cfg.bump p0
  root : s.memRoot = root0
  old : lookup s.keys p0 = some c0.pub
  nd : NoDestroy s.log
  com : f = .ok → commitCall cfg ∈ s.log

theorem PhMD.safe (hca : cfg.ca = .memca) {C : Cert} {f : Fault} {s : St} (h : PhMD cfg r C c0 p0 root0 f s) : Safe cfg s := by
  refine ⟨?_, DAC_of_noDestroy cfg h.nd⟩
  unfold Inv; rw [hca]
  exact ⟨r, C, h.inv⟩

/-- go: rotate.Key on the immediate authority, for one arbitrary fault script. -/
theorem rotateKey_mem (hca : cfg.ca = .memca) (hb : BumpOK cfg) (req : Req) :
    Tr sc ow (PhM cfg r c0 p0 root0 none none) (rotateKey cfg req)
      (fun kv s => kv = cfg.bump p0 ∧ s.memPrimary = cfg.bump p0 ∧
        ∃ mat, InvM cfg r ⟨req.cn, req.serial, mat, r.pub⟩ s ∧ DAC cfg s.log)
      (Safe cfg) := by
  unfold rotateKey
  refine Triple.have_fact (φ := p0 ≠ root0 ∧ p0 ≠ "" ∧ root0 ≠ "" ∧ ∀ n, cfg.bump n ≠ root0)
    (fun s h => ⟨by have := h.inv.sr; rw [h.prim, h.root] at this; exact this,
      by have := h.inv.sig_ne; rw [h.prim] at this; exact this,
      by have := h.inv.root_ne; rw [h.root] at this; exact this,
      by have := h.inv.broot; rw [h.root] at this; exact this⟩) ?_
  intro hst
  refine Triple.bind ((kmCreateM_spec hca hb).weaken (fun _ h => h) (fun _ _ h => h) (fun _ h => h.safe hca)) ?_
  intro kver
  refine Triple.of_fact ?_
  intro hk
  refine Triple.of_exists ?_
  intro mat
  refine Triple.bind ((getCurrentInfoM_spec hca _ _).weaken (fun _ h => h) (fun _ _ h => h) (fun _ h => h.safe hca)) ?_
  intro x
  refine Triple.of_fact ?_
  intro hx
  rw [hx, hk]
  show Triple sc _ (if root0 = "" ∨ cfg.bump p0 = "" then throw else _) _ _ _
  refine Triple.ite (fun hc => Triple.unreach (fun s h => ?_)) (fun _ => ?_)
  · rcases hc with hc | hc
    · exact hst.2.2.1 hc
    · exact hb.2 _ hc
  refine Triple.bind ((signCertM_spec hca hb req mat).weaken (fun _ h => h) (fun _ _ h => h) (fun _ h => h.safe hca)) ?_
  intro y
  obtain ⟨mu, c⟩ := y
  refine Triple.of_fact ?_
  intro hc
  simp only at hc
  rw [hc]
  show Triple sc _ (mutSetPrimary cfg mu (cfg.bump p0) >>= fun mu2 => _) _ _ _
  unfold mutSetPrimary; rw [hca]
  show Triple sc _ (((modSt fun s => { s with memPrimary := cfg.bump p0 }) >>= fun _ => pure mu) >>= fun mu2 => _) _ _ _
  refine Triple.bind (Q1 := fun _ s => PhMD cfg r ⟨req.cn, req.serial, mat, r.pub⟩ c0 p0 root0 .fail s) ?_ ?_
  · refine Triple.bind (Triple.modSt (Q := fun _ s => PhMD cfg r ⟨req.cn, req.serial, mat, r.pub⟩ c0 p0 root0 .fail s) _ ?_) (fun _ => Triple.pure _ (fun _ h => h))
    intro s h
    have hi := h.inv
    refine ⟨⟨hi.root, h.ex _ _ rfl, h.key _ _ rfl, rfl, hi.kroot, hb.2 _, hi.root_ne, hi.broot _, hi.broot⟩, rfl, h.root, ?_, h.nd, fun e => by cases e⟩
    have := hi.kprim; rw [h.prim] at this; exact this
  intro mu2
  -- Finalize: a no-op call
  refine Triple.bind (Q1 := fun _ s => PhMD cfg r ⟨req.cn, req.serial, mat, r.pub⟩ c0 p0 root0 .ok s) ?_ ?_
  · unfold caFinalize; rw [hca]
    refine Tr.wrapI (P' := fun f s => PhMD cfg r ⟨req.cn, req.serial, mat, r.pub⟩ c0 p0 root0 f s)
      (Q' := fun f _ s => PhMD cfg r ⟨req.cn, req.serial, mat, r.pub⟩ c0 p0 root0 f s) .caFin ?_ ?_
      (fun f => Triple.pure _ (fun _ h => h)) (fun _ s h => h.safe hca)
    · intro s f h
      refine ⟨h.inv.transfer rfl rfl rfl rfl, h.prim, h.root, h.old, h.nd.snoc nd_caFin f, ?_⟩
      intro hf; subst hf
      show commitCall cfg ∈ s.log ++ [(Call.caFin, Fault.ok)]
      unfold commitCall; rw [hca]; simp
    · intro s h
      exact (PhMD.safe (f := .fail) hca ⟨h.inv.transfer rfl rfl rfl rfl, h.prim, h.root, h.old, h.nd.snoc nd_caFin _, fun e => by cases e⟩)
  intro _
  refine Triple.bind (Q1 := fun _ s => s.memPrimary = cfg.bump p0 ∧ InvM cfg r ⟨req.cn, req.serial, mat, r.pub⟩ s ∧ DAC cfg s.log) ?_ ?_
  · unfold destroyOld
    refine Triple.ite (fun _ => ?_) (fun hne => Triple.unreach (fun s h => hne hst.2.1))
    unfold kmDestroy
    have hsafe : ∀ s, (s.memPrimary = cfg.bump p0 ∧ InvM cfg r ⟨req.cn, req.serial, mat, r.pub⟩ s ∧ DAC cfg s.log) → Safe cfg s := by
      intro s h
      refine ⟨?_, h.2.2⟩
      unfold Inv; rw [hca]; exact ⟨r, _, h.2.1⟩
    refine Tr.wrap (P' := fun s => s.memPrimary = cfg.bump p0 ∧ s.memRoot = root0 ∧ InvM cfg r ⟨req.cn, req.serial, mat, r.pub⟩ s ∧ lookup s.keys p0 = some c0.pub ∧ DAC cfg s.log)
      (.kmDestroy p0)
      (fun s f h => ⟨h.prim, h.root, h.inv.transfer rfl rfl rfl rfl, h.old, DAC_snoc_destroy cfg h.nd (h.com rfl) _ f⟩)
      (fun s h => hsafe _ ⟨h.prim, h.inv.transfer rfl rfl rfl rfl, DAC_snoc_destroy cfg h.nd (h.com rfl) _ _⟩)
      ?_ (fun _ s h => hsafe s h)
    refine Triple.getSt_bind ?_
    intro s0 h0
    rw [h0.2.2.2.1, if_neg (by simp)]
    refine Triple.modSt _ ?_
    intro s hs
    subst hs
    have hi := h0.2.2.1
    have hp1 : s.memPrimary ≠ p0 := by rw [h0.1]; exact hb.1 _
    have hp2 : s.memRoot ≠ p0 := by rw [h0.2.1]; exact Ne.symm hst.1
    refine ⟨h0.1, ⟨hi.root, hi.prim, ?_, hi.chain, ?_, hi.sig_ne, hi.root_ne, hi.sr, hi.broot⟩, h0.2.2.2.2⟩
    · show lookup (erase s.keys p0) s.memPrimary = _
      rw [lookup_erase_ne _ _ _ hp1]; exact hi.kprim
    · show lookup (erase s.keys p0) s.memRoot = _
      rw [lookup_erase_ne _ _ _ hp2]; exact hi.kroot
  intro _
  exact Triple.pure _ (fun s h => ⟨rfl, h.1, mat, h.2⟩)

end mem

end GceTcb.CA
