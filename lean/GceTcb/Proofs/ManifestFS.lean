import GceTcb.Model.ManifestFS
import GceTcb.Proofs.Manifest
import GceTcb.Proofs.PathClean
/-
Helper lemmas for the C13 theorems over full paths (arbitrary names): the file map, the merge seen
through an injective naming of files, the invariant, the relation with the inside view `endorseRun`.
-/
namespace GceTcb.Manifest
open GceTcb.Paths GceTcb.SecureJoin

/-! ### the file map -/

theorem look_put (fs : FS) (p q : String) (c : Content) :
    look (put fs p c) q = if q = p then some c else look fs q := by
  unfold look put
  by_cases h : q = p
  · subst h; simp
  · have hpq : (p == q) = false := by simp; exact fun h' => h h'.symm
    simp only [List.find?_cons, hpq, h, if_false, List.find?_filter]
    congr 1
    apply find_congr
    intro a _
    by_cases ha : a.1 = q
    · have : a.1 ≠ p := fun h' => h (ha ▸ h')
      simp [ha, h]
    · simp [ha]

theorem look_putAll (ts : List (String × Content)) : ∀ (fs : FS) (q : String),
    (∀ t ∈ ts, t.1 ≠ q) → look (putAll fs ts) q = look fs q := by
  induction ts with
  | nil => intro fs q _; rfl
  | cons t ts ih =>
    intro fs q h
    show look (putAll (put fs t.1 t.2) ts) q = _
    rw [ih _ q (fun x hx => h x (List.mem_cons_of_mem _ hx)), look_put,
      if_neg (fun e => h t List.mem_cons_self e.symm)]

/-! ### names -/

theorem fullOut_inj (d : Dirs) (b₁ b₂ : String) (h₁ : LocalClean b₁) (h₂ : LocalClean b₂)
    (he : fullOut d b₁ = fullOut d b₂) : b₁ = b₂ := outPath_inj d.mode d.root d.outDir b₁ b₂ h₁ h₂ he

theorem getLast_ext (x : List Char) : (x ++ ['.', 'b', 'i', 'n', 'a', 'r', 'y', 'p', 'b']).getLast? = some 'b' := by
  simp [List.getLast?_append]

theorem basename_ne_manifestFile (cand : String) : basename cand ≠ manifestFile := by
  intro h
  have := congrArg String.toList h
  unfold basename cleanBasename at this
  generalize (if cand == "" then "endorsement" else cand) = rel at this
  rw [pclean_toList, String.toList_append, ext_toList] at this
  obtain ⟨k, ns, l, hs, hn, hl, hk⟩ := cleanStack_ext rel.toList
  have hne : rel.toList ++ extChars ≠ [] := by simp [extChars]
  -- the cleaned text ends with the last component, which ends with the extension: its last character is 'b'
  obtain ⟨init, last, h1, h2⟩ := splitSlash_append_noslash rel.toList extChars (by decide)
  have hlast : (clean (rel.toList ++ extChars)).getLast? = some 'b' := by
    unfold clean
    rw [if_neg hne]
    have hst : cleanStack (rel.toList ++ extChars) = (List.foldl (cleanStep (isAbs (rel.toList ++ extChars))) [] init).reverse ++ [last ++ extChars] := by
      unfold cleanStack
      have hnos : ∀ c ∈ init ++ [last], '/' ∉ c := by rw [← h1]; exact splitSlash_no_slash _
      rw [h2, List.foldl_append, List.foldl_cons, List.foldl_nil,
        cleanStep_normal _ _ _ (normal_append_ext last (hnos last (by simp)))]
      simp
    rw [hst]
    generalize (List.foldl (cleanStep (isAbs (rel.toList ++ extChars))) [] init).reverse = F
    cases hr : isAbs (rel.toList ++ extChars) with
    | true =>
      simp only [renderClean, if_true, renderAbs]
      rw [if_neg (by simp)]
      simp [List.flatMap_append, extChars]
      rw [← List.cons_append]; exact getLast_ext _
    | false =>
      simp only [renderClean, Bool.false_eq_true, if_false]
      cases F with
      | nil => simp [renderRel, extChars]
      | cons c cs =>
        simp [renderRel, List.flatMap_append, extChars]
        rw [← List.cons_append]; exact getLast_ext _
  rw [this] at hlast
  revert hlast
  decide

theorem fullOut_ne_manifest (d : Dirs) {b : String} (h : LocalClean b) (hb : b ≠ manifestFile) :
    fullOut d b ≠ fullOut d manifestFile :=
  fun he => hb (fullOut_inj d b manifestFile h manifestFile_local he)

theorem nameOk_local (cand : String) (h : nameOk cand = true) : LocalClean (basename cand) :=
  cleanBasename_local cand h

/-! ### the merge through a naming of files -/

theorem addEntry_subset (m : List Entry) (e x : Entry) (hx : x ∈ addEntry m e) : x ∈ m ∨ x = e := by
  unfold addEntry at hx
  split at hx
  · simp at hx; exact hx
  · split at hx
    · simp at hx; exact hx
    · rename_i p od _ _
      rw [List.mem_map] at hx
      obtain ⟨y, hy, rfl⟩ := hx
      by_cases hc : (y.path == e.path) = true
      · right; simp [hc]
      · left
        simp only [hc, Bool.false_eq_true, if_false]
        split at hy
        · exact (List.mem_filter.mp hy).1
        · exact hy
    · rw [List.mem_map] at hx
      obtain ⟨y, hy, rfl⟩ := hx
      by_cases hc : (y.digest == e.digest) = true
      · right; simp [hc]
      · left; simp only [hc, Bool.false_eq_true, if_false]; exact hy

/-- `faithful_addEntry` for any way `L` of looking a listed name up (here: through the full path of the
    name): after the merge and a write to the new entry's name every entry still finds its digest. -/
theorem faithful_addEntry_gen (D : String → Prop) (L L' : String → Option String) (m : List Entry) (e : Entry)
    (hu : Unique m) (hD : ∀ x ∈ m, D x.path)
    (hL' : ∀ q, D q → L' q = if q = e.path then some e.digest else L q)
    (hLe : L' e.path = some e.digest)
    (hf : ∀ x ∈ m, L x.path = some x.digest) :
    ∀ x ∈ addEntry m e, L' x.path = some x.digest := by
  intro x hx
  by_cases hxe : x.path = e.path
  · -- the entry under the new name is the new entry itself
    rcases addEntry_subset m e x hx with hxm | rfl
    · have hu' := unique_addEntry m e hu
      have hme := mem_addEntry m e hu
      have := inj_of_nodup_map (·.path) _ hu'.1 hx hme hxe
      rw [this]; exact hLe
    · exact hLe
  · rcases addEntry_subset m e x hx with hxm | rfl
    · rw [hL' x.path (hD x hxm), if_neg hxe]; exact hf x hxm
    · exact absurd rfl hxe

theorem nodup_map_of_inj_on {α β : Type} (f : α → β) (l : List α) (hn : l.Nodup)
    (hinj : ∀ a ∈ l, ∀ b ∈ l, f a = f b → a = b) : (l.map f).Nodup := by
  induction l with
  | nil => simp
  | cons a t ih =>
    simp only [List.nodup_cons, List.map_cons] at hn ⊢
    refine ⟨?_, ih hn.2 (fun x hx y hy => hinj x (List.mem_cons_of_mem _ hx) y (List.mem_cons_of_mem _ hy))⟩
    intro hm
    obtain ⟨b, hb, hfb⟩ := List.mem_map.mp hm
    have := hinj a List.mem_cons_self b (List.mem_cons_of_mem _ hb) hfb.symm
    exact hn.1 (this ▸ hb)

/-! ### the invariant over full paths -/

/-- The digest an endorsement file at the full path of name `q` carries. -/
def digestAt (d : Dirs) (fs : FS) (q : String) : Option String :=
  match look fs (fullOut d q) with
  | some (.endorsement dg) => some dg
  | _ => none

/-- The invariant of C13 on the files visible through the back end: the manifest parses (absent =
    empty); no path text and no digest twice; every recorded path is a clean local path (canonical, below
    the output directory); no two entries name the same FILE; every entry's file exists and is an
    endorsement carrying the entry's digest. -/
def InvP (d : Dirs) (fs : FS) : Prop :=
  ∃ m, readM fs (fullOut d manifestFile) = some m ∧ Unique m ∧ (∀ x ∈ m, LocalClean x.path) ∧
    (m.map (fun x => fullOut d x.path)).Nodup ∧
    ∀ x ∈ m, look fs (fullOut d x.path) = some (.endorsement x.digest)

theorem files_nodup (d : Dirs) (m : List Entry) (hu : Unique m) (hl : ∀ x ∈ m, LocalClean x.path) :
    (m.map (fun x => fullOut d x.path)).Nodup := by
  have : m.map (fun x => fullOut d x.path) = (m.map (·.path)).map (fullOut d) := by simp
  rw [this]
  refine nodup_map_of_inj_on (fullOut d) _ hu.1 ?_
  intro a ha b hb he
  obtain ⟨x, hx, rfl⟩ := List.mem_map.mp ha
  obtain ⟨y, hy, rfl⟩ := List.mem_map.mp hb
  exact fullOut_inj d _ _ (hl x hx) (hl y hy) he

theorem invP_empty (d : Dirs) : InvP d [] :=
  ⟨[], rfl, ⟨by simp, by simp⟩, by simp, by simp, by simp⟩

/-- A listed path is never the manifest's own path. -/
theorem InvP.entry_ne_manifest {d : Dirs} {fs : FS} {m : List Entry}
    (hm : readM fs (fullOut d manifestFile) = some m)
    (hf : ∀ x ∈ m, look fs (fullOut d x.path) = some (.endorsement x.digest)) :
    ∀ x ∈ m, fullOut d x.path ≠ fullOut d manifestFile := by
  intro x hx he
  have := hf x hx
  rw [he] at this
  simp [readM, this] at hm

/-! ### concrete inputs of the witnesses and examples of the property file -/

def exDirs : Dirs := ⟨.join, "/R", "out"⟩
def exRun (cand dg t : String) (ow : Bool) : RunP := ⟨cand, dg, t, ow, "", "", false, false⟩
def exSnap (sdir img : String) : RunP := ⟨"x", "aa", "2", false, sdir, img, false, false⟩

/-- "rc0" with firmware aa, on the code without the name test -/
def exNoTest1 : FS := (endorseRunNoTest exDirs [] (exRun "rc0" "aa" "1" false)).1
/-- … then "/rc0" with firmware bb and --overwrite -/
def exNoTest2 : FS := (endorseRunNoTest exDirs exNoTest1 (exRun "/rc0" "bb" "2" true)).1
/-- … or "../out/rc0" -/
def exNoTest3 : FS := (endorseRunNoTest exDirs exNoTest1 (exRun "../out/rc0" "bb" "2" true)).1

def exFs1 : FS := (endorseRunP exDirs [] (exRun "rc0" "aa" "1" false)).1
def exOverlapFile : FS := (endorseRunP exDirs exFs1 (exSnap "out" "rc0.binarypb")).1
def exOverlapManifest : FS := (endorseRunP exDirs exFs1 (exSnap "out" "manifest.textproto")).1

end GceTcb.Manifest
