import GceTcb.Model.Mrtd
import GceTcb.Spec.Mrtd
/-
C05 — the byte stream written by InitMemoryRegion (one loop in 256-byte steps) equals the
specification's record stream (page by page: PAGE.ADD, then sixteen MR.EXTEND when measured).  Core-only.
-/
namespace GceTcb.Mrtd
open GceTcb GceTcb.Codec GceTcb.Intervals GceTcb.TdxMeta GceTcb.Spec.Mrtd

theorem pageAdd_eq (gpa : Nat) : Mrtd.pageAdd gpa = pageAddRec gpa := by
  have h1 : asciiBytes "MEM.PAGE.ADD" = [77, 69, 77, 46, 80, 65, 71, 69, 46, 65, 68, 68] := by decide
  have h2 : ascii "MEM.PAGE.ADD" = [77, 69, 77, 46, 80, 65, 71, 69, 46, 65, 68, 68] := by decide
  have hl : (leBytes 8 gpa).length = 8 := leBytes_length 8 gpa
  unfold Mrtd.pageAdd pageAddRec writeAt zeros
  rw [h1, h2]
  simp [hl, List.replicate]

theorem mrExtend_eq (gpa : Nat) (chunk : Bytes) : Mrtd.mrExtend gpa chunk = mrExtendRec gpa chunk := by
  have h1 : asciiBytes "MR.EXTEND" = [77, 82, 46, 69, 88, 84, 69, 78, 68] := by decide
  have h2 : ascii "MR.EXTEND" = [77, 82, 46, 69, 88, 84, 69, 78, 68] := by decide
  have hl : (leBytes 8 gpa).length = 8 := leBytes_length 8 gpa
  unfold Mrtd.mrExtend mrExtendRec writeAt zeros
  rw [h1, h2]
  simp [hl, List.replicate]

/-- the records of the `t`-th 256-byte step of a section -/
def chunkRecs (extend : Bool) (base : Nat) (content : Bytes) (t : Nat) : Bytes :=
  (if t % 16 = 0 then pageAddRec (base + 256 * t) else []) ++
  (if extend then mrExtendRec (base + 256 * t) (sub content (256 * t) 256) else [])

theorem flatMap_congr_nat {f g : Nat → Bytes} : ∀ (l : List Nat), (∀ b ∈ l, f b = g b) → l.flatMap f = l.flatMap g := by
  intro l
  induction l with
  | nil => intro _; rfl
  | cons a t ih =>
    intro h
    rw [List.flatMap_cons, List.flatMap_cons, h a (List.mem_cons_self ..), ih (fun b hb => h b (List.mem_cons_of_mem _ hb))]

theorem sub_sub (content : Bytes) (a b n m : Nat) (h : b + m ≤ n) :
    sub (sub content a n) b m = sub content (a + b) m := by
  unfold sub
  rw [List.drop_take, List.take_take, List.drop_drop]
  congr 1
  omega

theorem chunk_ext (base : Nat) (content : Bytes) (p j : Nat) (hj : j < 16) :
    mrExtendRec (base + 256 * (16 * p + j)) (sub content (256 * (16 * p + j)) 256) =
    mrExtendRec (base + 4096 * p + 256 * j) (sub (sub content (4096 * p) 4096) (256 * j) 256) := by
  rw [sub_sub _ _ _ _ _ (by omega)]
  have e1 : 256 * (16 * p + j) = 4096 * p + 256 * j := by omega
  rw [e1, Nat.add_assoc]

theorem chunkRecs_first (ext : Bool) (base : Nat) (content : Bytes) (p : Nat) :
    chunkRecs ext base content (16 * p + 0) =
      pageAddRec (base + 4096 * p) ++
      (if ext then mrExtendRec (base + 4096 * p + 256 * 0) (sub (sub content (4096 * p) 4096) (256 * 0) 256) else []) := by
  unfold chunkRecs
  have h0 : (16 * p + 0) % 16 = 0 := by omega
  have e : base + 256 * (16 * p + 0) = base + 4096 * p := by omega
  rw [if_pos h0, chunk_ext base content p 0 (by decide), e]

theorem chunkRecs_later (ext : Bool) (base : Nat) (content : Bytes) (p j : Nat) (hj : j < 15) :
    chunkRecs ext base content (16 * p + Nat.succ j) =
      (if ext then mrExtendRec (base + 4096 * p + 256 * Nat.succ j) (sub (sub content (4096 * p) 4096) (256 * Nat.succ j) 256) else []) := by
  unfold chunkRecs
  have h0 : ¬ (16 * p + Nat.succ j) % 16 = 0 := by omega
  rw [if_neg h0, chunk_ext base content p (Nat.succ j) (by omega), List.nil_append]

/-- one page of the specification, step by step -/
theorem pageRecs_chunks (ext : Bool) (base : Nat) (content : Bytes) (p : Nat) :
    pageRecs ext (base + 4096 * p) (sub content (4096 * p) 4096) =
      ((List.range 16).map (16 * p + ·)).flatMap (chunkRecs ext base content) := by
  have hr : List.range 16 = 0 :: (List.range 15).map Nat.succ := List.range_succ_eq_map
  -- right-hand side: first step, then the fifteen later ones
  have hR : ((List.range 16).map (16 * p + ·)).flatMap (chunkRecs ext base content) =
      chunkRecs ext base content (16 * p + 0) ++
      (List.range 15).flatMap (fun j => chunkRecs ext base content (16 * p + Nat.succ j)) := by
    rw [hr, List.map_cons, List.flatMap_cons, List.map_map, List.flatMap_map]
    rfl
  have hrest : (List.range 15).flatMap (fun j => chunkRecs ext base content (16 * p + Nat.succ j)) =
      (List.range 15).flatMap (fun j => if ext then mrExtendRec (base + 4096 * p + 256 * Nat.succ j)
        (sub (sub content (4096 * p) 4096) (256 * Nat.succ j) 256) else []) := by
    apply flatMap_congr_nat
    intro j hj
    exact chunkRecs_later ext base content p j (List.mem_range.mp hj)
  rw [hR, hrest, chunkRecs_first, List.append_assoc]
  unfold pageRecs
  congr 1
  cases ext with
  | false =>
    simp only [Bool.false_eq_true, if_false, List.nil_append]
    symm
    rw [List.flatMap_eq_nil_iff]
    intro j _; rfl
  | true =>
    simp only [if_true]
    rw [hr, List.flatMap_cons, List.flatMap_map]

/-- a whole section of the specification, step by step -/
theorem sectionRecs_chunks (s : Section) :
    sectionRecs s = (List.range (16 * s.pages)).flatMap (chunkRecs s.extend s.base s.content) := by
  unfold sectionRecs
  generalize s.pages = n
  induction n with
  | zero => rfl
  | succ n ih =>
    rw [List.range_succ, List.flatMap_append, ih]
    have : 16 * (n + 1) = 16 * n + 16 := by omega
    rw [this, List.range_add, List.flatMap_append]
    congr 1
    simp only [List.flatMap_cons, List.flatMap_nil, List.append_nil]
    exact pageRecs_chunks s.extend s.base s.content n

/-- the loop of InitMemoryRegion, step by step -/
theorem initLoop_chunks (gpa : Nat) (m : Bool) (data : Bytes) : ∀ (n t0 : Nat), gpa + 256 * (t0 + n) ≤ 2 ^ 64 →
    initLoop gpa m n (256 * t0) (data.drop (256 * t0)) =
      ((List.range n).map (t0 + ·)).flatMap (chunkRecs m gpa data) := by
  intro n
  induction n with
  | zero => intro t0 _; simp [initLoop]
  | succ n ih =>
    intro t0 h
    rw [List.range_succ_eq_map, List.map_cons, List.flatMap_cons, List.map_map]
    unfold initLoop
    have hmod : (gpa + 256 * t0) % 2 ^ 64 = gpa + 256 * t0 := Nat.mod_eq_of_lt (by omega)
    have h16 : (256 * t0 % 4096 = 0) ↔ (t0 % 16 = 0) := by omega
    rw [hmod, pageAdd_eq, mrExtend_eq]
    have hstep : 256 * t0 + 256 = 256 * (t0 + 1) := by omega
    rw [List.drop_drop, hstep, ih (t0 + 1) (by omega)]
    have hmap : (List.range n).map ((fun x => t0 + x) ∘ Nat.succ) = (List.range n).map (fun x => t0 + 1 + x) := by
      apply List.map_congr_left; intro a _; simp only [Function.comp]; omega
    rw [hmap]
    congr 1
    unfold chunkRecs sub
    simp only [Nat.add_zero]
    by_cases hh : t0 % 16 = 0
    · have : 256 * t0 % 4096 = 0 := h16.mpr hh
      rw [if_pos hh, if_pos this]
    · have : ¬ 256 * t0 % 4096 = 0 := fun hc => hh (h16.mp hc)
      rw [if_neg hh, if_neg this]

/-- The measured-or-not flag InitMemoryRegion derives. -/
def measureOf (measureAll : Bool) (r : Region) : Bool := (r.attrs &&& 1 ≠ 0) || measureAll

/-- InitMemoryRegion on a region whose range does not wrap: the bytes it writes to the digest are the
    specification's records of the section (base, pages, measured?, host buffer). -/
theorem initMemoryRegion_eq_spec (measureAll : Bool) (r : Region) (s : Bytes)
    (hr : r.gpr.start + r.gpr.len ≤ 2 ^ 64) (hs : r.gpr.start < 2 ^ 64) (hl : r.gpr.len < 2 ^ 64)
    (h : initMemoryRegion measureAll r = .ok s) :
    s = sectionRecs ⟨r.gpr.start, r.gpr.len / 4096, measureOf measureAll r, r.buf.toBytes⟩ := by
  unfold initMemoryRegion at h
  cases hc : initChecks measureAll r with
  | err c => rw [hc] at h; simp at h
  | panic p => rw [hc] at h; simp at h
  | ok measure =>
    rw [hc] at h; simp only [] at h
    injection h with h
    have hfacts : measure = measureOf measureAll r ∧ r.gpr.len % 2 ^ 64 % 4096 = 0 := by
      unfold initChecks at hc
      simp only [] at hc
      repeat' (split at hc)
      all_goals try (simp at hc; done)
      injection hc with hc
      exact ⟨hc.symm, by omega⟩
    obtain ⟨hm, hl4⟩ := hfacts
    have hstart : r.gpr.start % 2 ^ 64 = r.gpr.start := Nat.mod_eq_of_lt hs
    have hlen : r.gpr.len % 2 ^ 64 = r.gpr.len := Nat.mod_eq_of_lt hl
    rw [hstart, hlen] at h
    rw [hlen] at hl4
    have h256 : r.gpr.len / 256 = 16 * (r.gpr.len / 4096) := by omega
    rw [sectionRecs_chunks]
    simp only []
    rw [← h, h256, ← hm]
    have key := initLoop_chunks r.gpr.start measure (if measure = true then r.buf.toBytes else [])
      (16 * (r.gpr.len / 4096)) 0 (by omega)
    simp only [Nat.mul_zero, List.drop_zero, Nat.zero_add] at key
    have hid : (List.range (16 * (r.gpr.len / 4096))).map (fun x => x) = List.range (16 * (r.gpr.len / 4096)) := List.map_id' _
    rw [hid] at key
    rw [key]
    -- when nothing is measured the records do not depend on the contents
    apply flatMap_congr_nat
    intro t _
    cases measure with
    | true => rfl
    | false => unfold chunkRecs; rfl

theorem or_one_and_one (a : Nat) : (a ||| 1) &&& 1 = 1 := by
  rw [Nat.and_one_is_mod]
  have := @Nat.or_mod_two_eq_one a 1
  omega

theorem sum_div_le (l : List Nat) : (l.map (· / 256)).sum ≤ l.sum / 256 := by
  induction l with
  | nil => simp
  | cons a t ih => simp only [List.map_cons, List.sum_cons]; omega

/-- C05 "sections not flagged for extension contribute page-add records only": the records of an
    unmeasured section are one PAGE.ADD buffer per page, whatever the contents. -/
theorem sectionRecs_not_extended (base pages : Nat) (content : Bytes) :
    sectionRecs ⟨base, pages, false, content⟩ = (List.range pages).flatMap (fun k => pageAddRec (base + 4096 * k)) := by
  unfold sectionRecs pageRecs
  simp

end GceTcb.Mrtd
