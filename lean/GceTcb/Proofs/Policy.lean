import GceTcb.Model.Policy
/- Helper lemmas for C17 / C02 (policy derivation steps). -/
namespace GceTcb.Policy
open GceTcb

/-- The bundle clause shared by several statements below. -/
def BundleApplied {R : Type} (pem : Pem) (bundle : Bytes) (p q : SevPolicy R) : Prop :=
  (bundle = [] ∧ q.trustedIdKeys = p.trustedIdKeys ∧ q.trustedAuthorKeys = p.trustedAuthorKeys) ∨
  (∃ idb rest, pem bundle = some ("CERTIFICATE", idb, rest) ∧
     q.trustedIdKeys = p.trustedIdKeys ++ [idb] ∧
     ((rest = [] ∧ q.trustedAuthorKeys = p.trustedAuthorKeys) ∨
      (∃ ab, pem rest = some ("CERTIFICATE", ab, []) ∧
         q.trustedAuthorKeys = p.trustedAuthorKeys ++ [ab])))

/-- What `addBundle` can do: append one identity key, optionally one author key, nothing else. -/
theorem addBundle_spec {R : Type} (pem : Pem) (bundle : Bytes) (p q : SevPolicy R)
    (h : addBundle pem bundle p = some q) :
    q.policy = p.policy ∧ q.measurement = p.measurement ∧ q.minimumGuestSvn = p.minimumGuestSvn ∧
    q.rest = p.rest ∧
    ((bundle = [] ∧ q.trustedIdKeys = p.trustedIdKeys ∧ q.trustedAuthorKeys = p.trustedAuthorKeys) ∨
     (∃ idb rest, pem bundle = some ("CERTIFICATE", idb, rest) ∧
        q.trustedIdKeys = p.trustedIdKeys ++ [idb] ∧
        ((rest = [] ∧ q.trustedAuthorKeys = p.trustedAuthorKeys) ∨
         (∃ ab, pem rest = some ("CERTIFICATE", ab, []) ∧
            q.trustedAuthorKeys = p.trustedAuthorKeys ++ [ab])))) := by
  unfold addBundle at h
  split at h
  · rename_i h0
    cases h
    exact ⟨rfl, rfl, rfl, rfl, Or.inl ⟨List.eq_nil_of_length_eq_zero h0, rfl, rfl⟩⟩
  · split at h
    · cases h
    · rename_i ty idb idrest hd
      split at h
      · cases h
      · rename_i hty
        have hty' : ty = "CERTIFICATE" := by simpa using hty
        subst hty'
        split at h
        · rename_i hr
          cases h
          exact ⟨rfl, rfl, rfl, rfl, Or.inr ⟨idb, idrest, hd, rfl,
            Or.inl ⟨List.eq_nil_of_length_eq_zero hr, rfl⟩⟩⟩
        · split at h
          · cases h
          · rename_i ty2 ab arest hd2
            split at h
            · cases h
            · rename_i hty2
              have hty2' : ty2 = "CERTIFICATE" := by simpa using hty2
              subst hty2'
              split at h
              · cases h
              · rename_i har
                have har' : arest = [] := by
                  have : arest.length = 0 := by simpa using har
                  exact List.eq_nil_of_length_eq_zero this
                subst har'
                cases h
                exact ⟨rfl, rfl, rfl, rfl, Or.inr ⟨idb, idrest, hd, rfl, Or.inr ⟨ab, hd2, rfl⟩⟩⟩

theorem setMeasurement_spec {R : Type} (pem : Pem) (s : SevSnp) (p1 q : SevPolicy R)
    (o : SevPolicyOptions R) (h : setMeasurement pem s p1 o = some q) :
    (o.launchVmsas ≠ 0 → mlookup s.measurements o.launchVmsas = some q.measurement) ∧
    (o.launchVmsas = 0 → q.measurement = p1.measurement ∧ o.allowUnspecifiedVmsas = true) ∧
    q.policy = p1.policy ∧ q.minimumGuestSvn = p1.minimumGuestSvn ∧ q.rest = p1.rest ∧
    BundleApplied pem s.caBundle p1 q := by
  unfold setMeasurement at h
  by_cases hz : o.launchVmsas = 0
  · simp only [hz, if_true] at h
    by_cases ha : (!o.allowUnspecifiedVmsas) = true
    · simp [ha] at h
    · simp only [ha] at h
      have sp := addBundle_spec pem _ _ _ h
      exact ⟨fun hne => absurd hz hne, fun _ => ⟨sp.2.1, by simpa using ha⟩, sp.1, sp.2.2.1, sp.2.2.2.1,
        sp.2.2.2.2⟩
  · simp only [hz, if_false] at h
    cases hm : mlookup s.measurements o.launchVmsas with
    | none => simp [hm] at h
    | some meas =>
      simp only [hm] at h
      have sp := addBundle_spec pem _ _ _ h
      exact ⟨fun _ => by rw [sp.2.1], fun h0 => absurd h0 hz, sp.1, sp.2.2.1, sp.2.2.2.1, sp.2.2.2.2⟩

theorem setPolicy_spec {R : Type} (s : SevSnp) (p : SevPolicy R) (ow : Bool) :
    (setPolicy s p ow).measurement = p.measurement ∧
    (setPolicy s p ow).minimumGuestSvn = p.minimumGuestSvn ∧
    (setPolicy s p ow).trustedIdKeys = p.trustedIdKeys ∧
    (setPolicy s p ow).trustedAuthorKeys = p.trustedAuthorKeys ∧
    (setPolicy s p ow).rest = p.rest ∧
    (ow = false ∨ p.policy = 0 → (setPolicy s p ow).policy = s.policy) ∧
    (ow = true → p.policy ≠ 0 → (setPolicy s p ow).policy = p.policy) := by
  unfold setPolicy
  by_cases hc : (!ow || p.policy == 0) = true
  · rw [if_pos hc]
    refine ⟨rfl, rfl, rfl, rfl, rfl, fun _ => rfl, ?_⟩
    intro h1 h2
    simp [h1, h2] at hc
  · rw [if_neg hc]
    refine ⟨rfl, rfl, rfl, rfl, rfl, ?_, fun _ _ => rfl⟩
    intro h1
    simp only [Bool.or_eq_true, Bool.not_eq_true', beq_iff_eq, not_or] at hc
    rcases h1 with h1 | h1
    · exact absurd h1 (by simpa using hc.1)
    · exact absurd h1 hc.2

theorem modifyPolicy_steps {R : Type} (pem : Pem) (s : SevSnp) (p q : SevPolicy R)
    (o : SevPolicyOptions R) (h : modifyPolicy pem s p o = some q) :
    setMeasurement pem s (setPolicy s p o.overwrite) o = some q ∧
    (o.overwrite = false → policyModificationAllowed s p o.launchVmsas = true ∧
      (p.minimumGuestSvn ≠ 0 → p.minimumGuestSvn ≤ s.svn)) := by
  unfold modifyPolicy at h
  by_cases h1 : (!o.overwrite && !(policyModificationAllowed s p o.launchVmsas)) = true
  · rw [if_pos h1] at h; cases h
  · rw [if_neg h1] at h
    by_cases h2 : (!o.overwrite && (p.minimumGuestSvn ≠ 0 && s.svn < p.minimumGuestSvn)) = true
    · rw [if_pos h2] at h; cases h
    · rw [if_neg h2] at h
      refine ⟨h, ?_⟩
      intro how
      simp only [how, Bool.not_false, Bool.true_and, Bool.not_eq_true', Bool.not_eq_false] at h1
      simp only [how, Bool.not_false, Bool.true_and, Bool.and_eq_true, ne_eq,
        decide_eq_true_eq, not_and, Nat.not_lt] at h2
      exact ⟨h1, h2⟩

theorem pma_policy {R : Type} (s : SevSnp) (p : SevPolicy R) (n : Nat)
    (h : policyModificationAllowed s p n = true) (hne : p.policy ≠ 0) : s.policy = p.policy := by
  unfold policyModificationAllowed at h
  by_cases hc : (p.policy ≠ 0 && p.policy ≠ s.policy) = true
  · rw [if_pos hc] at h; cases h
  · simp only [Bool.and_eq_true, ne_eq, decide_eq_true_eq, not_and, Decidable.not_not] at hc
    exact (hc hne).symm

theorem pma_measurement {R : Type} (s : SevSnp) (p : SevPolicy R) (n : Nat) (m : Bytes)
    (h : policyModificationAllowed s p n = true) (hn : n ≠ 0) (hm : mlookup s.measurements n = some m)
    (hne : p.measurement ≠ []) : m = p.measurement := by
  unfold policyModificationAllowed at h
  by_cases hc : (p.policy ≠ 0 && p.policy ≠ s.policy) = true
  · rw [if_pos hc] at h; cases h
  · rw [if_neg hc, if_pos hn, hm] at h
    unfold allowBytes at h
    have : p.measurement.length ≠ 0 := by
      intro h0; exact hne (List.eq_nil_of_length_eq_zero h0)
    rw [if_pos this] at h
    simpa using h

end GceTcb.Policy
