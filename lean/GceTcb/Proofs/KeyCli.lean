import GceTcb.Model.KeyCli
import GceTcb.Proofs.KeyHistory
/-
Lemmas about the command-line model of bootstrap / rotate / wipeout (Model/KeyCli.lean):
* the library step with explicit x509 refusals is `KeyHistory.step` on every representable context;
* the invariants of Proofs/KeyHistory.lean are preserved by EVERY command line — also by the contexts crypto/x509
  refuses after the keys were made (negative serial numbers, validities ASN.1 cannot encode).
-/
namespace GceTcb.KeyCli
open GceTcb GceTcb.KeyHistory GceTcb.CliFlagTypes GceTcb.Gen

/-! ### templates never outlive the root lifetime -/

theorem google_notAfter_le (root : Bool) (cn : String) (serial now key : Nat) :
    (Tmpl.google root cn serial now key).notAfter ≤ now + CertConsts.rootValidDays * daySeconds := by
  unfold Tmpl.google
  cases root
  · exact Nat.add_le_add_left (Nat.mul_le_mul_right _ (by decide)) _
  · exact Nat.add_le_add_left (Nat.mul_le_mul_right _ (by decide)) _

theorem fromCert_notAfter_le (old : Cert) (cn : String) (serial now key : Nat) :
    (Tmpl.fromCert old cn serial now key).notAfter ≤ now + CertConsts.rootValidDays * daySeconds := by
  unfold Tmpl.fromCert
  cases old.isCA
  · exact Nat.add_le_add_left (Nat.mul_le_mul_right _ (by decide)) _
  · exact Nat.add_le_add_left (Nat.mul_le_mul_right _ (by decide)) _

theorem templateFromCert_boot_le {a : BootArgs} {old : Cert} {key : Nat} {t : Tmpl}
    (h : templateFromCert (.boot a) old key = some t) : t.notAfter ≤ a.now + CertConsts.rootValidDays * daySeconds := by
  unfold templateFromCert at h
  by_cases hca : old.isCA = true
  · simp only [hca, if_true, CertCtx.rootInfo] at h
    cases h; exact fromCert_notAfter_le _ _ _ _ _
  · simp only [hca, CertCtx.signInfo] at h
    cases h; exact fromCert_notAfter_le _ _ _ _ _

theorem templateFromCert_rot_le {cn : String} {n now : Nat} {old : Cert} {key : Nat} {t : Tmpl}
    (h : templateFromCert (.rot cn n now) old key = some t) : t.notAfter ≤ now + CertConsts.rootValidDays * daySeconds := by
  unfold templateFromCert at h
  by_cases hca : old.isCA = true
  · simp [hca, CertCtx.rootInfo] at h
  · simp only [hca, CertCtx.signInfo] at h
    cases h; exact fromCert_notAfter_le _ _ _ _ _

theorem rootTemplate_boot_le {cfg : Cfg} {view : CA} {a : BootArgs} {key : Nat} {t : Tmpl}
    (h : rootTemplate cfg view (.boot a) key = some t) : t.notAfter ≤ a.now + CertConsts.rootValidDays * daySeconds := by
  unfold rootTemplate at h
  cases hb : bundle cfg view with
  | some r => rw [hb] at h; exact templateFromCert_boot_le h
  | none =>
    rw [hb] at h
    simp only [CertCtx.rootInfo] at h
    cases h; exact google_notAfter_le _ _ _ _ _

theorem signingTemplate_boot_le {view : CA} {a : BootArgs} {key : Nat} {t : Tmpl}
    (h : signingTemplate view (.boot a) key = some t) : t.notAfter ≤ a.now + CertConsts.rootValidDays * daySeconds := by
  unfold signingTemplate at h
  cases hb : certificate view view.primarySigning with
  | some p => rw [hb] at h; exact templateFromCert_boot_le h
  | none =>
    rw [hb] at h
    simp only [CertCtx.signInfo] at h
    cases h; exact google_notAfter_le _ _ _ _ _

theorem signingTemplate_rot_le {view : CA} {cn : String} {n now : Nat} {key : Nat} {t : Tmpl}
    (h : signingTemplate view (.rot cn n now) key = some t) : t.notAfter ≤ now + CertConsts.rootValidDays * daySeconds := by
  unfold signingTemplate at h
  cases hb : certificate view view.primarySigning with
  | some p => rw [hb] at h; exact templateFromCert_rot_le h
  | none =>
    rw [hb] at h
    simp only [CertCtx.signInfo] at h
    cases h; exact google_notAfter_le _ _ _ _ _

theorem refused_false {serial : Int} {now : Int × Nat} {t : Tmpl}
    (h1 : 0 ≤ serial) (h2 : 0 ≤ now.1 + epochShift) (h3 : t.notAfter < y10k) : refused serial now t = false := by
  unfold refused
  simp only [Bool.or_eq_false_iff, decide_eq_false_iff_not]
  omega

/-! ### the library step is KeyHistory.step on every representable context -/

theorem rotateSeqWith_eq (cfg : Cfg) (f : Flags) (s : State) (cn : String) (n now : Nat) :
    rotateSeqWith cfg f s (rotCert cfg s cn n now) = rotateSeq cfg f s cn n now := by
  unfold rotateSeqWith rotateSeq
  cases rotCert cfg s cn n now <;> rfl

theorem rotateEagerWith_eq (cfg : Cfg) (f : Flags) (s : State) (cn : String) (n now : Nat) :
    rotateEagerWith cfg f s (rotCert cfg s cn n now) = rotateEager cfg f s cn n now := rfl

theorem bootCertsX_eq (cfg : Cfg) (f : Flags) (c : BootCtx) (km : KM) (rk fk : Nat) (stored : CA)
    (h1 : 0 ≤ c.rootSerial) (h2 : 0 ≤ c.signSerial) (h3 : 0 ≤ c.now.1 + epochShift)
    (h4 : modelTime c.now + CertConsts.rootValidDays * daySeconds < y10k) :
    bootCertsX cfg f c km rk fk stored = bootCerts cfg f (bootArgs c) km rk fk stored := by
  unfold bootCertsX bootCerts
  cases hrt : rootTemplate cfg (bootView cfg stored) (.boot (bootArgs c)) rk with
  | none => rfl
  | some rt =>
    have hr : refused c.rootSerial c.now rt = false :=
      refused_false h1 h3 (Nat.lt_of_le_of_lt (rootTemplate_boot_le hrt) h4)
    simp only [hr, Bool.false_eq_true, if_false]
    cases signCert km none rootName rt with
    | none => rfl
    | some rc =>
      simp only []
      cases hst : signingTemplate (bootPutRoot cfg (bootView cfg stored) rc) (.boot (bootArgs c)) fk with
      | none => rfl
      | some st =>
        have hs : refused c.signSerial c.now st = false :=
          refused_false h2 h3 (Nat.lt_of_le_of_lt (signingTemplate_boot_le hst) h4)
        simp only [hs, Bool.false_eq_true, if_false]
        rfl

theorem rotCertX_eq (cfg : Cfg) (s : State) (c : RotCtx)
    (h1 : 0 ≤ c.serial) (h3 : 0 ≤ c.now.1 + epochShift)
    (h4 : modelTime c.now + CertConsts.rootValidDays * daySeconds < y10k) :
    rotCertX cfg s c = rotCert cfg s c.cn c.serial.toNat (modelTime c.now) := by
  unfold rotCertX rotCert
  by_cases hg : rotGuard cfg s.ca = true
  · simp only [hg, if_true]
    cases hst : signingTemplate s.ca (.rot c.cn c.serial.toNat (modelTime c.now)) s.km.next with
    | none => rfl
    | some t =>
      have hr : refused c.serial c.now t = false :=
        refused_false h1 h3 (Nat.lt_of_le_of_lt (signingTemplate_rot_le hst) h4)
      simp only [hr, Bool.false_eq_true, if_false]
  · simp [hg]

/-- rotCertX yields a certificate only when nothing was refused, and then it is KeyHistory.rotCert's. -/
theorem rotCertX_some {cfg : Cfg} {s : State} {c : RotCtx} {x : Cert} (h : rotCertX cfg s c = some x) :
    rotCert cfg s c.cn c.serial.toNat (modelTime c.now) = some x := by
  unfold rotCertX at h
  unfold rotCert
  by_cases hg : rotGuard cfg s.ca = true
  · simp only [hg, if_true] at h ⊢
    cases hst : signingTemplate s.ca (.rot c.cn c.serial.toNat (modelTime c.now)) s.km.next with
    | none => rw [hst] at h; cases h
    | some t =>
      rw [hst] at h
      simp only [] at h ⊢
      by_cases hr : refused c.serial c.now t = true
      · simp [hr] at h
      · simp only [hr, Bool.false_eq_true, if_false] at h; exact h
  · simp [hg] at h

theorem rotateKeyX_eq_of_cert {cfg : Cfg} {f : Flags} {s : State} {c : RotCtx}
    (h : rotCertX cfg s c = rotCert cfg s c.cn c.serial.toNat (modelTime c.now)) :
    rotateKeyX cfg f s c = rotateKey cfg f s c.cn c.serial.toNat (modelTime c.now) := by
  unfold rotateKeyX rotateKey
  rw [h, rotateSeqWith_eq, rotateEagerWith_eq]

theorem bootstrapX_eq (cfg : Cfg) (f : Flags) (c : BootCtx) (s : State)
    (h1 : 0 ≤ c.rootSerial) (h2 : 0 ≤ c.signSerial) (h3 : 0 ≤ c.now.1 + epochShift)
    (h4 : modelTime c.now + CertConsts.rootValidDays * daySeconds < y10k) :
    bootstrapX cfg f c s = bootstrap cfg f (bootArgs c) s := by
  unfold bootstrapX bootstrap
  rw [bootCertsX_eq cfg f c _ _ _ _ h1 h2 h3 h4]

/-- localca's pre-check does not stand in the way of the command (bootstrap is exempt from it) -/
def unblocked (cfg : Cfg) (s : State) : LibCmd → Bool
  | .bootstrap _ _ => true
  | _ => !cliBlocked cfg s.ca

/-- The library step on a representable context is the step of the KeyHistory model on the command it names
    (for rotate / wipeout: once localca's pre-check has passed, which `initCtx` has established). -/
theorem libStep_eq_step (cfg : Cfg) (s : State) (lc : LibCmd) (hr : representable lc = true)
    (hb : unblocked cfg s lc = true) :
    libStep cfg s lc = step cfg s (toCmd lc) := by
  cases lc with
  | bootstrap f c =>
    simp only [representable, Bool.and_eq_true, decide_eq_true_eq] at hr
    obtain ⟨⟨⟨r1, r2⟩, r3⟩, r4⟩ := hr
    simp only [libStep, toCmd, step]
    exact bootstrapX_eq cfg f c s r1 r2 r3 r4
  | rotate f c =>
    simp only [representable, Bool.and_eq_true, decide_eq_true_eq] at hr
    obtain ⟨⟨r1, r3⟩, r4⟩ := hr
    have hb' : cliBlocked cfg s.ca = false := by simpa [unblocked] using hb
    simp only [libStep, toCmd, step, hb', Bool.false_eq_true, if_false, resolveSerial]
    exact rotateKeyX_eq_of_cert (rotCertX_eq cfg s c r1 r3 r4)
  | wipeout f c =>
    have hb' : cliBlocked cfg s.ca = false := by simpa [unblocked] using hb
    simp only [libStep, toCmd, step, hb', Bool.false_eq_true, if_false]

/-! ### the root invariant: every command line, whatever crypto/x509 refuses -/

theorem RootInv_bootCertsX {cfg : Cfg} {stored : CA} (h : RootInv cfg stored) (f : Flags) (c : BootCtx)
    (km : KM) (rk fk : Nat) : RootInv cfg (bootCertsX cfg f c km rk fk stored).1 := by
  have hv := RootInv_bootView h
  unfold bootCertsX
  cases hrt : rootTemplate cfg (bootView cfg stored) (.boot (bootArgs c)) rk with
  | none => exact hv
  | some rt =>
    have hrtok := (rootTemplate_ok (fun r hr => ⟨(RootInv_bundle hv hr).1, (RootInv_bundle hv hr).2.1⟩) hrt).1
    simp only []
    by_cases hr1 : refused c.rootSerial c.now rt = true
    · simp only [hr1, if_true]; exact hv
    · simp only [hr1, Bool.false_eq_true, if_false]
      cases hrc : signCert km none rootName rt with
      | none => exact hv
      | some rc =>
        have hprof := rootProfile_of_signed hrtok hrc
        have hv2 := RootInv_bootPutRoot hv rc hprof
        simp only []
        cases hst : signingTemplate (bootPutRoot cfg (bootView cfg stored) rc) (.boot (bootArgs c)) fk with
        | none => exact hv2
        | some st =>
          simp only []
          by_cases hr2 : refused c.signSerial c.now st = true
          · simp only [hr2, if_true]; exact hv2
          · simp only [hr2, Bool.false_eq_true, if_false]
            cases hsc : signCert km (some rc) rootName st with
            | none => exact hv2
            | some sc =>
              simp only []
              unfold bootCommit
              cases hc : cfg.ca with
              | memca =>
                apply RootInv.mem hc
                exact MemRootInv_memPut (hv2.1 hc) firstName sc firstName_ne_noName (fun e => absurd e firstName_ne_root)
              | gcsca =>
                apply RootInv.gcs hc
                have key := (gcsFinalize_ext cfg.guard f stored ⟨some rootName, some firstName, [(rootName, rc), (firstName, sc)], some rc⟩).2
                intro r hr
                simp only [] at hr
                rcases key with e | ⟨r', e1, e2, _⟩
                · rw [e] at hr; exact h.2 hc r hr
                · simp only [Option.some.injEq] at e1; subst e1
                  rw [e2] at hr; simp only [Option.some.injEq] at hr; subst hr; exact hprof

theorem rotateKeyX_ca (cfg : Cfg) (f : Flags) (s : State) (c : RotCtx) :
    (rotateKeyX cfg f s c).1.ca = s.ca ∨
    ∃ oc, (rotateKeyX cfg f s c).1.ca = (caAfterRotate cfg f s.ca (bump s.ca.primarySigning) oc).1 := by
  unfold rotateKeyX
  by_cases hs : cfg.seq = true
  · simp only [hs, if_true]
    unfold rotateSeqWith
    cases rotCertX cfg s c with
    | none => left; rfl
    | some x =>
      simp only []
      by_cases hf : (caAfterRotate cfg f s.ca (bump s.ca.primarySigning) (some x)).2 = true
      · simp only [hf, if_true]; right; exact ⟨some x, rfl⟩
      · simp only [hf]; right; exact ⟨some x, rfl⟩
  · simp only [hs]
    unfold rotateEagerWith
    by_cases hg : rotGuard cfg s.ca = true
    · simp only [hg, if_true]; right; exact ⟨_, rfl⟩
    · simp only [hg]; left; rfl

theorem RootInv_libStep {cfg : Cfg} {s : State} (h : RootInv cfg s.ca) (lc : LibCmd) :
    RootInv cfg (libStep cfg s lc).1.ca := by
  cases lc with
  | bootstrap f c =>
    simp only [libStep, bootstrapX]
    by_cases h1 : keyExists f s.km rootName = true
    · simp only [h1, if_true]; exact h
    · simp only [h1]
      by_cases h2 : keyExists f (s.km.gen rootName) firstName = true
      · simp only [h2, if_true]; exact h
      · simp only [h2]; exact RootInv_bootCertsX h f c _ _ _
  | rotate f c =>
    simp only [libStep]
    rcases rotateKeyX_ca cfg f s c with e | ⟨oc, e⟩
    · rw [e]; exact h
    · rw [e]; exact RootInv_caAfterRotate h f _ oc (bump_ne_root _) (bump_ne_noName _)
  | wipeout f c =>
    simp only [libStep, wipeout]
    cases c.ca with
    | true => exact RootInv_empty cfg
    | false => exact h

theorem RootInv_cliStep (W : Wiring) (pt : String → Option (Int × Nat)) (E : Env) {s : State}
    (h : RootInv W.cfg s.ca) (f : CliFlags) : RootInv W.cfg (cliStep W pt E s f).1.ca := by
  unfold cliStep
  cases cmdOf W pt E s f with
  | ok hd => exact RootInv_libStep h hd.cmd
  | err e => exact h
  | panic x => exact h

theorem RootInv_cliRun (W : Wiring) (pt : String → Option (Int × Nat)) (h : List (Env × CliFlags)) :
    ∀ s : State, RootInv W.cfg s.ca → RootInv W.cfg (cliRun W pt s h).ca := by
  induction h with
  | nil => intro s hs; exact hs
  | cons l t ih => intro s hs; exact ih _ (RootInv_cliStep W pt l.1 hs l.2)

/-! ### the invariant of histories that never bootstrap over a populated store -/

theorem rotateKeyX_none {cfg : Cfg} {f : Flags} {s : State} {c : RotCtx} (h : rotCertX cfg s c = none) :
    (rotateKeyX cfg f s c).1 = ⟨s.km.gen (bump s.ca.primarySigning), s.ca⟩ ∨
    (rotGuard cfg s.ca = true ∧
      (rotateKeyX cfg f s c).1 = ⟨destroyOld (s.km.gen (bump s.ca.primarySigning)) s.ca.primarySigning,
        (caAfterRotate cfg f s.ca (bump s.ca.primarySigning) none).1⟩) := by
  unfold rotateKeyX
  rw [h]
  by_cases hs : cfg.seq = true
  · simp only [hs, if_true]; left; rfl
  · simp only [hs]
    unfold rotateEagerWith
    by_cases hg : rotGuard cfg s.ca = true
    · rw [if_pos hg]; right; exact ⟨hg, rfl⟩
    · simp only [hg]; left; rfl

theorem Inv_rotateKeyX {cfg : Cfg} (hgd : cfg.guard = true) {s : State} (h : Inv cfg s) (f : Flags) (c : RotCtx) :
    Inv cfg (rotateKeyX cfg f s c).1 := by
  cases hx : rotCertX cfg s c with
  | some x =>
    rw [rotateKeyX_eq_of_cert (by rw [hx, rotCertX_some hx])]
    exact Inv_rotateKey hgd h f _ _ _
  | none =>
    obtain ⟨hca, hkm⟩ := h
    rcases rotateKeyX_none (f := f) hx with e | ⟨hg, e⟩
    · rw [e]; exact ⟨hca, InvKM_same_gen hca hkm⟩
    · rw [e]
      obtain ⟨_, hpr⟩ := rotGuard_some hg
      have hroot : s.ca.primaryRoot = rootName := by
        rcases hca.rootOrEmpty with h1 | ⟨h1, _⟩
        · exact h1
        · exact absurd h1 hpr
      have hb := hca.psRoot hroot
      rcases caAfterRotate_shape (cfg := cfg) f none hca.kver_fresh with e1 | ⟨_, e1⟩ | ⟨x, hc, _⟩
      · rw [e1]; exact ⟨hca, InvKM_same_destroy hca hkm⟩
      · rw [e1]; exact ⟨InvCA_set hca hb, InvKM_rotate hca hkm (fun n hn => Or.inr hn) rfl hb⟩
      · cases hc

/-- What a bootstrap leaves in the authority: the certificates of KeyHistory.bootCerts, or — when crypto/x509
    refused the root certificate — only what the mutation applied at once (memca: the primaries), or — when it
    refused the signing certificate — that and the root certificate (memca). -/
theorem bootCertsX_shape (cfg : Cfg) (f : Flags) (c : BootCtx) (km : KM) (rk fk : Nat) (stored : CA) :
    bootCertsX cfg f c km rk fk stored = bootCerts cfg f (bootArgs c) km rk fk stored ∨
    bootCertsX cfg f c km rk fk stored = (bootView cfg stored, false) ∨
    ∃ rc, bootCertsX cfg f c km rk fk stored = (bootPutRoot cfg (bootView cfg stored) rc, false) := by
  unfold bootCertsX bootCerts
  cases hrt : rootTemplate cfg (bootView cfg stored) (.boot (bootArgs c)) rk with
  | none => left; rfl
  | some rt =>
    simp only []
    by_cases hr1 : refused c.rootSerial c.now rt = true
    · simp only [hr1, if_true]; right; left; trivial
    · simp only [hr1, Bool.false_eq_true, if_false]
      cases signCert km none rootName rt with
      | none => left; rfl
      | some rc =>
        simp only []
        cases hst : signingTemplate (bootPutRoot cfg (bootView cfg stored) rc) (.boot (bootArgs c)) fk with
        | none => left; rfl
        | some st =>
          simp only []
          by_cases hr2 : refused c.signSerial c.now st = true
          · simp only [hr2, if_true]; right; right; exact ⟨rc, rfl⟩
          · simp only [hr2, Bool.false_eq_true, if_false]; left; rfl

/-- the two keys a bootstrap of an empty key store creates -/
def km2 (k : Nat) : KM := ⟨[(rootName, k), (firstName, k + 1)], [], k + 2⟩

theorem Inv_bootView_empty (cfg : Cfg) (k : Nat) : Inv cfg ⟨km2 k, bootView cfg CA.empty⟩ := by
  unfold bootView
  cases hc : cfg.ca with
  | gcsca =>
    exact ⟨InvCA_empty cfg, ⟨fun n h => by simp [km2] at h, fun n h => by simp [CA.empty, KeyHistory.get] at h⟩⟩
  | memca =>
    refine ⟨⟨fun _ n p h => by simp [CA.empty, KeyHistory.get] at h, rfl, Or.inr rfl, Or.inl rfl, fun _ => rfl,
      fun n p c h => by simp [CA.empty, KeyHistory.get] at h, fun n h => by simp [CA.empty, KeyHistory.get] at h,
      fun _ n h => by simp [CA.empty, KeyHistory.get] at h⟩,
      ⟨fun n h => by simp [km2] at h, fun n h => by simp [CA.empty, KeyHistory.get] at h⟩⟩

theorem Inv_bootPutRoot_empty (cfg : Cfg) (k : Nat) (rc : Cert) :
    Inv cfg ⟨km2 k, bootPutRoot cfg (bootView cfg CA.empty) rc⟩ := by
  cases hc : cfg.ca with
  | gcsca =>
    have : bootPutRoot cfg (bootView cfg CA.empty) rc = bootView cfg CA.empty := by
      simp [bootPutRoot, hc]
    rw [this]; exact Inv_bootView_empty cfg k
  | memca =>
    have e : bootPutRoot cfg (bootView cfg CA.empty) rc =
        ⟨rootName, firstName, [(rootName, .byName rootName)], [(.byName rootName, rc)], none⟩ := by
      simp [bootPutRoot, bootView, hc, memPut, CA.empty, KeyHistory.put]
    rw [e]
    have hent : ∀ n p, get [(rootName, ObjKey.byName rootName)] n = some p → n = rootName ∧ p = .byName rootName := by
      intro n p h
      by_cases hn : n = rootName
      · simp [KeyHistory.get, hn] at h; exact ⟨hn, h.symm⟩
      · simp [KeyHistory.get, hn] at h
    refine ⟨⟨fun _ n p h => ?_, ?_, Or.inr rfl, Or.inl rfl, fun _ => rfl, fun n p c h hne => ?_, fun n h hb => ?_, fun _ n h => ?_⟩,
      ⟨fun n h => by simp [km2] at h, fun n h hne => ?_⟩⟩
    · obtain ⟨h1, h2⟩ := hent n p h; rw [h2, h1]
    · simp [KeyHistory.get, noName, rootName]
    · exact absurd (hent n p h).1 hne
    · simp only [] at h hb
      cases hg : get [(rootName, ObjKey.byName rootName)] n with
      | none => rw [hg] at h; cases h
      | some p =>
        have := (hent n p hg).1
        rw [this] at hb
        exact absurd hb (by decide)
    · simp only [] at h ⊢
      by_cases hn : n = rootName
      · simp [KeyHistory.get, hn]
      · have : ObjKey.byName n ≠ ObjKey.byName rootName := fun e => hn (by injection e)
        simp [KeyHistory.get, this] at h
    · simp only [] at h
      cases hg : get [(rootName, ObjKey.byName rootName)] n with
      | none => rw [hg] at h; cases h
      | some p => exact absurd (hent n p hg).1 hne

theorem Inv_bootstrapX_clean {cfg : Cfg} (hg : cfg.guard = true) (f : Flags) (c : BootCtx) {s : State}
    (hi : Inv cfg s) (hclean : Clean s) : Inv cfg (bootstrapX cfg f c s).1 := by
  have hs := hclean.eq
  have e1 : firstName ≠ rootName := firstName_ne_root
  have hk1 : keyExists f (⟨[], [], s.km.next⟩ : KM) rootName = false := by simp [keyExists, KeyHistory.get]
  have hk2 : keyExists f ((⟨[], [], s.km.next⟩ : KM).gen rootName) firstName = false := by
    simp [keyExists, KM.gen, KeyHistory.put, KeyHistory.get, e1]
  have hkm : ((⟨[], [], s.km.next⟩ : KM).gen rootName).gen firstName = km2 s.km.next := by
    simp [KM.gen, KeyHistory.put, km2, e1]
  rcases bootCertsX_shape cfg f c (km2 s.km.next) s.km.next (s.km.next + 1) CA.empty with e | e | ⟨rc, e⟩
  · have : bootstrapX cfg f c s = bootstrap cfg f (bootArgs c) s := by
      rw [hs]
      simp only [bootstrapX, bootstrap, hk1, hk2, hkm, Bool.false_eq_true, if_false, e]
    rw [this]
    exact Inv_step hg hi (.bootstrap f (bootArgs c)) (fun _ => hclean)
  · have : (bootstrapX cfg f c s).1 = ⟨km2 s.km.next, bootView cfg CA.empty⟩ := by
      rw [hs]
      simp only [bootstrapX, hk1, hk2, hkm, Bool.false_eq_true, if_false, e]
    rw [this]; exact Inv_bootView_empty cfg _
  · have : (bootstrapX cfg f c s).1 = ⟨km2 s.km.next, bootPutRoot cfg (bootView cfg CA.empty) rc⟩ := by
      rw [hs]
      simp only [bootstrapX, hk1, hk2, hkm, Bool.false_eq_true, if_false, e]
    rw [this]; exact Inv_bootPutRoot_empty cfg _ rc

def LibCmd.isBootstrap : LibCmd → Bool
  | .bootstrap _ _ => true
  | _ => false

theorem Inv_libStep {cfg : Cfg} (hg : cfg.guard = true) {s : State} (h : Inv cfg s) (lc : LibCmd)
    (hclean : lc.isBootstrap = true → Clean s) : Inv cfg (libStep cfg s lc).1 := by
  cases lc with
  | bootstrap f c => exact Inv_bootstrapX_clean hg f c h (hclean rfl)
  | rotate f c => exact Inv_rotateKeyX hg h f c
  | wipeout f c => exact Inv_wipeout h c.ca c.keys

/-! ### histories of command lines -/

theorem cmdOf_isBootstrap {W : Wiring} {pt : String → Option (Int × Nat)} {E : Env} {s : State} {f : CliFlags} {h : Handed}
    (hc : cmdOf W pt E s f = .ok h) : h.cmd.isBootstrap = true → f.sub = .bootstrap := by
  unfold cmdOf at hc
  cases hp : parseFlags pt f with
  | err e => simp [hp] at hc
  | panic x => simp [hp] at hc
  | ok p =>
    simp only [hp] at hc
    cases hq : preRun W E f p with
    | err e => simp [hq] at hc
    | panic x => simp [hq] at hc
    | ok r =>
      obtain ⟨site, now⟩ := r
      simp only [hq] at hc
      cases hi : initCtx W s f p now with
      | err e => simp [hi] at hc
      | panic x => simp [hi] at hc
      | ok c =>
        simp only [hi, Outcome.ok.injEq] at hc
        subst hc
        intro hb
        unfold initCtx at hi
        cases hsub : f.sub with
        | bootstrap => rfl
        | rotate =>
          simp only [hsub] at hi
          by_cases hbl : cliBlocked W.cfg s.ca = true
          · simp [hbl] at hi
          · simp only [hbl, Bool.false_eq_true, if_false] at hi
            cases hr : rotateSerial s.ca p.override with
            | none => simp [hr] at hi
            | some n => simp only [hr, Outcome.ok.injEq] at hi; subst hi; simp [LibCmd.isBootstrap] at hb
        | wipeout =>
          simp only [hsub] at hi
          by_cases hbl : cliBlocked W.cfg s.ca = true
          · simp [hbl] at hi
          · simp only [hbl, Bool.false_eq_true, if_false, Outcome.ok.injEq] at hi; subst hi; simp [LibCmd.isBootstrap] at hb

/-- Every ACCEPTED bootstrap line of the history runs on a clean store (the class the partial theorems of C12
    exclude — bootstrap over a populated store — stated for command lines). -/
def CliCleanRun (W : Wiring) (pt : String → Option (Int × Nat)) : State → List (Env × CliFlags) → Prop
  | _, [] => True
  | s, l :: h =>
    (l.2.sub = .bootstrap → (cmdOf W pt l.1 s l.2).isOk = true → Clean s) ∧ CliCleanRun W pt (cliStep W pt l.1 s l.2).1 h

theorem Inv_cliStep {W : Wiring} (hg : W.guard = true) (pt : String → Option (Int × Nat)) (E : Env) {s : State}
    (h : Inv W.cfg s) (f : CliFlags)
    (hclean : f.sub = .bootstrap → (cmdOf W pt E s f).isOk = true → Clean s) : Inv W.cfg (cliStep W pt E s f).1 := by
  unfold cliStep
  cases hc : cmdOf W pt E s f with
  | err e => exact h
  | panic x => exact h
  | ok hd =>
    exact Inv_libStep (cfg := W.cfg) hg h hd.cmd (fun hb => hclean (cmdOf_isBootstrap hc hb) (by rw [hc]; rfl))

theorem Inv_cliRun {W : Wiring} (hg : W.guard = true) (pt : String → Option (Int × Nat)) (h : List (Env × CliFlags)) :
    ∀ s : State, Inv W.cfg s → CliCleanRun W pt s h → Inv W.cfg (cliRun W pt s h) := by
  induction h with
  | nil => intro s hs _; exact hs
  | cons l t ih =>
    intro s hs hc
    exact ih _ (Inv_cliStep hg pt l.1 hs l.2 hc.1) hc.2

/-! ### a successful rotation through the command line -/

theorem rotCertX_some_nonneg {cfg : Cfg} {s : State} {c : RotCtx} {x : Cert} (h : rotCertX cfg s c = some x) :
    0 ≤ c.serial := by
  unfold rotCertX at h
  by_cases hg : rotGuard cfg s.ca = true
  · simp only [hg, if_true] at h
    cases hst : signingTemplate s.ca (.rot c.cn c.serial.toNat (modelTime c.now)) s.km.next with
    | none => rw [hst] at h; cases h
    | some t =>
      rw [hst] at h
      simp only [] at h
      by_cases hr : refused c.serial c.now t = true
      · simp [hr] at h
      · unfold refused at hr
        simp only [Bool.or_eq_true, decide_eq_true_eq, not_or, Int.not_lt] at hr
        exact hr.1.1
  · simp [hg] at h

theorem rotateKeyX_ok {cfg : Cfg} {f : Flags} {s : State} {c : RotCtx} (h : (rotateKeyX cfg f s c).2 = true) :
    rotateKeyX cfg f s c = rotateKey cfg f s c.cn c.serial.toNat (modelTime c.now) ∧ 0 ≤ c.serial := by
  cases hx : rotCertX cfg s c with
  | some x => exact ⟨rotateKeyX_eq_of_cert (by rw [hx, rotCertX_some hx]), rotCertX_some_nonneg hx⟩
  | none =>
    exfalso
    unfold rotateKeyX at h
    rw [hx] at h
    by_cases hs : cfg.seq = true
    · simp [hs, rotateSeqWith] at h
    · simp only [hs, Bool.false_eq_true, if_false, rotateEagerWith] at h
      by_cases hg : rotGuard cfg s.ca = true
      · simp [hg] at h
      · simp [hg] at h

/-- A successful rotation without keep_going records, for the new primary `BumpName(previous primary)`, a
    certificate with exactly the common name, serial and creation time of the context. -/
theorem rotateKeyX_ok_fields {cfg : Cfg} {f : Flags} {s : State} {c : RotCtx} (hk : f.keepGoing = false)
    (h : (rotateKeyX cfg f s c).2 = true) :
    ∃ x, (rotateKeyX cfg f s c).1.ca.primarySigning = bump s.ca.primarySigning ∧
      certificate (rotateKeyX cfg f s c).1.ca (bump s.ca.primarySigning) = some x ∧
      Int.ofNat x.subjSerial = c.serial ∧ x.certSerial = x.subjSerial ∧ x.cn = c.cn ∧ x.notBefore = modelTime c.now := by
  obtain ⟨e, hn⟩ := rotateKeyX_ok h
  rw [e] at h ⊢
  obtain ⟨x, hc, hfin, hst⟩ := rotateKey_ok h
  obtain ⟨c1, c2, c3, c4, _⟩ := rotCert_fields hc
  obtain ⟨k1, k2⟩ := caAfterRotate_ok_nokg hfin hk
  refine ⟨x, by rw [hst]; exact k1, by rw [hst]; exact k2, ?_, by rw [c2, c1], c3, c4⟩
  rw [c1]; exact Int.toNat_of_nonneg hn

/-! ### gcsca never changes an existing object without overwrite: every command line -/

def LibCmd.flags : LibCmd → Flags
  | .bootstrap f _ => f
  | .rotate f _ => f
  | .wipeout f _ => f

def LibCmd.isWipeout : LibCmd → Bool
  | .wipeout _ _ => true
  | _ => false

theorem bootCertsX_gcs {cfg : Cfg} (hc : cfg.ca = .gcsca) (f : Flags) (c : BootCtx) (km : KM) (rk fk : Nat) (stored : CA) :
    (bootCertsX cfg f c km rk fk stored).1 = stored ∨
    ∃ m, (bootCertsX cfg f c km rk fk stored).1 = (gcsFinalize cfg.guard f stored m).1 := by
  have hv : bootView cfg stored = stored := by simp [bootView, hc]
  have hp : ∀ rc, bootPutRoot cfg stored rc = stored := by intro rc; simp [bootPutRoot, hc]
  rcases bootCertsX_shape cfg f c km rk fk stored with e | e | ⟨rc, e⟩
  · rw [e]; exact bootCerts_gcs hc f _ km rk fk stored
  · left; rw [e, hv]
  · left; rw [e, hv, hp]

theorem libStep_no_clobber {cfg : Cfg} (hg : cfg.ca = .gcsca) (s : State) (lc : LibCmd)
    (hw : lc.isWipeout = false) (hf : lc.flags.overwrite = false) :
    (∀ p x, KeyHistory.get s.ca.objects p = some x → KeyHistory.get (libStep cfg s lc).1.ca.objects p = some x) ∧
    (∀ r, s.ca.rootObj = some r → (libStep cfg s lc).1.ca.rootObj = some r) := by
  have key : ∀ m : Mut, (∀ p x, KeyHistory.get s.ca.objects p = some x → KeyHistory.get (gcsFinalize cfg.guard lc.flags s.ca m).1.objects p = some x) ∧
      (∀ r, s.ca.rootObj = some r → (gcsFinalize cfg.guard lc.flags s.ca m).1.rootObj = some r) := by
    intro m
    obtain ⟨e1, e2⟩ := gcsFinalize_ext cfg.guard lc.flags s.ca m
    refine ⟨e1 hf, ?_⟩
    intro r hr
    rcases e2 with e | ⟨r', _, _, e⟩
    · rw [e]; exact hr
    · rcases e with e | e
      · rw [hr] at e; cases e
      · rw [hf] at e; cases e
  cases lc with
  | wipeout f c => simp [LibCmd.isWipeout] at hw
  | bootstrap f c =>
    simp only [libStep, bootstrapX]
    by_cases h1 : keyExists f s.km rootName = true
    · simp only [h1, if_true]; exact ⟨fun _ _ hx => hx, fun _ hx => hx⟩
    · simp only [h1]
      by_cases h2 : keyExists f (s.km.gen rootName) firstName = true
      · simp only [h2, if_true]; exact ⟨fun _ _ hx => hx, fun _ hx => hx⟩
      · simp only [h2]
        rcases bootCertsX_gcs hg f c ((s.km.gen rootName).gen firstName) s.km.next (s.km.next + 1) s.ca with e | ⟨m, e⟩
        · simp only [Bool.false_eq_true, if_false]; rw [e]; exact ⟨fun _ _ hx => hx, fun _ hx => hx⟩
        · simp only [Bool.false_eq_true, if_false]; rw [e]; exact key m
  | rotate f c =>
    simp only [libStep]
    rcases rotateKeyX_ca cfg f s c with e | ⟨oc, e⟩
    · rw [e]; exact ⟨fun _ _ hx => hx, fun _ hx => hx⟩
    · rw [e]; simp only [caAfterRotate, hg]; exact key _

/-! ### taking an accepted command line apart -/

theorem cmdOf_ok {W : Wiring} {pt : String → Option (Int × Nat)} {E : Env} {s : State} {f : CliFlags} {h : Handed}
    (hc : cmdOf W pt E s f = .ok h) :
    ∃ p site, parseFlags pt f = .ok p ∧ keyDirCheck W E f = .ok () ∧ siteCheck W f = .ok site ∧
      initCtx W s f p (nowOf E p.ts) = .ok h.cmd ∧ h.site = site ∧ h.keyDir = f.keyDir := by
  unfold cmdOf at hc
  cases hp : parseFlags pt f with
  | err e => simp [hp] at hc
  | panic x => simp [hp] at hc
  | ok p =>
    simp only [hp] at hc
    unfold preRun at hc
    cases hk : keyDirCheck W E f with
    | err e => simp [hk] at hc
    | panic x => simp [hk] at hc
    | ok u =>
      simp only [hk] at hc
      cases hs : siteCheck W f with
      | err e => simp [hs] at hc
      | panic x => simp [hs] at hc
      | ok site =>
        simp only [hs] at hc
        cases hi : initCtx W s f p (nowOf E p.ts) with
        | err e => simp [hi] at hc
        | panic x => simp [hi] at hc
        | ok c =>
          simp only [hi, Outcome.ok.injEq] at hc
          subst hc
          exact ⟨p, site, rfl, rfl, rfl, hi, rfl, rfl⟩

theorem cmdOf_of_parts {W : Wiring} {pt : String → Option (Int × Nat)} {E : Env} {s : State} {f : CliFlags}
    {p : Parsed} {site : Option Site} {c : LibCmd}
    (h1 : parseFlags pt f = .ok p) (h2 : keyDirCheck W E f = .ok ()) (h3 : siteCheck W f = .ok site)
    (h4 : initCtx W s f p (nowOf E p.ts) = .ok c) : cmdOf W pt E s f = .ok ⟨c, site, f.keyDir⟩ := by
  unfold cmdOf preRun
  simp only [h1, h2, h3, h4]

theorem bigintSetAll_append (cur : Int) (vs : List String) (v : String) :
    bigintSetAll cur (vs ++ [v]) =
      match bigintSetAll cur vs with
      | .ok n => bigintSet n v
      | .err e => .err e
      | .panic x => .panic x := by
  induction vs generalizing cur with
  | nil =>
    simp only [List.nil_append, bigintSetAll]
    cases bigintSet cur v <;> rfl
  | cons a t ih =>
    simp only [List.cons_append, bigintSetAll]
    cases bigintSet cur a with
    | ok n => exact ih n
    | err e => rfl
    | panic x => rfl

/-! ### the rejection classes -/

/-- The rejection classes, exhaustively. -/
def rejectionClasses : List String :=
  ["parse:bigint", "parse:timestamp", "parse:time-already-set",
   "prerun:key_dir-stat", "prerun:key_dir-not-a-directory",
   "prerun:nonempty-100", "prerun:nonempty-010", "prerun:nonempty-001", "prerun:nonempty-110", "prerun:nonempty-101",
   "prerun:nonempty-011", "prerun:nonempty-111",
   "init:check-certs", "init:next-serial"]

theorem bigintSetAll_err {cur : Int} {vs : List String} {e : String} (h : bigintSetAll cur vs = .err e) :
    e = "parse:bigint" := by
  induction vs generalizing cur with
  | nil => cases h
  | cons v t ih =>
    simp only [bigintSetAll] at h
    cases hb : bigintSet cur v with
    | ok n => rw [hb] at h; exact ih h
    | panic x => rw [hb] at h; cases h
    | err e' =>
      rw [hb] at h
      simp only [Outcome.err.injEq] at h
      subst h
      unfold bigintSet at hb
      by_cases hv : v = ""
      · simp [hv] at hb
      · simp only [hv, if_false] at hb
        cases hp : parseBigDec v with
        | some n => simp [hp] at hb
        | none => simp [hp] at hb; exact hb.symm

theorem timeSetAll_err {pt : String → Option (Int × Nat)} {cur : Int × Nat} {vs : List String} {e : String}
    (h : timeSetAll pt cur vs = .err e) : e = "parse:timestamp" ∨ e = "parse:time-already-set" := by
  induction vs generalizing cur with
  | nil => cases h
  | cons v t ih =>
    simp only [timeSetAll] at h
    cases hb : timeSet pt cur v with
    | ok n => rw [hb] at h; exact ih h
    | panic x => rw [hb] at h; cases h
    | err e' =>
      rw [hb] at h
      simp only [Outcome.err.injEq] at h
      subst h
      unfold timeSet at hb
      by_cases hz : cur = zeroTime
      · simp only [hz, if_true] at hb
        by_cases hv : v = ""
        · simp [hv] at hb
        · simp only [hv, if_false] at hb
          cases hp : pt v with
          | some n => simp [hp] at hb
          | none => simp [hp] at hb; exact Or.inl hb.symm
      · simp [hz] at hb; exact Or.inr hb.symm

theorem bigintSetAll_no_panic {cur : Int} {vs : List String} {x : String} : bigintSetAll cur vs ≠ .panic x := by
  induction vs generalizing cur with
  | nil => intro h; cases h
  | cons v t ih =>
    simp only [bigintSetAll]
    cases hb : bigintSet cur v with
    | ok n => exact ih
    | err e => intro h; cases h
    | panic y =>
      unfold bigintSet at hb
      by_cases hv : v = ""
      · simp [hv] at hb
      · simp only [hv, if_false] at hb
        cases hp : parseBigDec v <;> simp [hp] at hb

theorem timeSetAll_no_panic {pt : String → Option (Int × Nat)} {cur : Int × Nat} {vs : List String} {x : String} :
    timeSetAll pt cur vs ≠ .panic x := by
  induction vs generalizing cur with
  | nil => intro h; cases h
  | cons v t ih =>
    simp only [timeSetAll]
    cases hb : timeSet pt cur v with
    | ok n => exact ih
    | err e => intro h; cases h
    | panic y =>
      unfold timeSet at hb
      by_cases hz : cur = zeroTime
      · simp only [hz, if_true] at hb
        by_cases hv : v = ""
        · simp [hv] at hb
        · simp only [hv, if_false] at hb
          cases hp : pt v <;> simp [hp] at hb
      · simp [hz] at hb

theorem parseFlags_err {pt : String → Option (Int × Nat)} {f : CliFlags} {e : String} (h : parseFlags pt f = .err e) :
    e ∈ rejectionClasses := by
  have hb : ∀ {cur vs e}, bigintSetAll cur vs = .err e → e ∈ rejectionClasses := by
    intro cur vs e h; rw [bigintSetAll_err h]; decide
  have ht : ∀ {cur vs e}, timeSetAll pt cur vs = .err e → e ∈ rejectionClasses := by
    intro cur vs e h; rcases timeSetAll_err h with h | h <;> rw [h] <;> decide
  unfold parseFlags at h
  cases hs : f.sub with
  | bootstrap =>
    simp only [hs] at h
    cases h1 : bigintSetAll rootSerialDefault f.rootKeySerial with
    | err e1 => rw [h1] at h; cases h; exact hb h1
    | panic x => rw [h1] at h; cases h
    | ok rs =>
      simp only [h1] at h
      cases h2 : bigintSetAll signSerialDefault f.initialSigningKeySerial with
      | err e1 => rw [h2] at h; cases h; exact hb h2
      | panic x => rw [h2] at h; cases h
      | ok ss =>
        simp only [h2] at h
        cases h3 : timeSetAll pt zeroTime f.timestamp with
        | err e1 => rw [h3] at h; cases h; exact ht h3
        | panic x => rw [h3] at h; cases h
        | ok ts => rw [h3] at h; cases h
  | rotate =>
    simp only [hs] at h
    cases h1 : bigintSetAll overrideDefault f.rotatedKeySerialOverride with
    | err e1 => rw [h1] at h; cases h; exact hb h1
    | panic x => rw [h1] at h; cases h
    | ok ov =>
      simp only [h1] at h
      cases h3 : timeSetAll pt zeroTime f.timestamp with
      | err e1 => rw [h3] at h; cases h; exact ht h3
      | panic x => rw [h3] at h; cases h
      | ok ts => rw [h3] at h; cases h
  | wipeout => simp [hs] at h


theorem keyDirCheck_err {W : Wiring} {E : Env} {f : CliFlags} {e : String} (h : keyDirCheck W E f = .err e) :
    e ∈ rejectionClasses := by
  unfold keyDirCheck at h
  cases hk : W.km with
  | memkm => simp [hk] at h
  | localkm =>
    simp only [hk] at h
    cases hst : E.statDir f.keyDir with
    | none => simp [hst] at h; rw [← h]; decide
    | some b => cases b <;> simp [hst] at h; rw [← h]; decide

theorem keyDirCheck_no_panic {W : Wiring} {E : Env} {f : CliFlags} {x : String} : keyDirCheck W E f ≠ .panic x := by
  unfold keyDirCheck
  cases W.km with
  | memkm => intro h; cases h
  | localkm =>
    simp only []
    cases E.statDir f.keyDir with
    | none => intro h; cases h
    | some b => cases b <;> (intro h; cases h)

theorem siteCheck_err {W : Wiring} {f : CliFlags} {e : String} (h : siteCheck W f = .err e) : e ∈ rejectionClasses := by
  unfold siteCheck at h
  cases hg : W.ca with
  | memca => simp [hg] at h
  | gcsca =>
    simp only [hg] at h
    by_cases hbad : f.bucket = "" ∨ resolvedRootPath f = "" ∨ f.certDir = ""
    · simp only [hbad, if_true, Outcome.err.injEq] at h
      rw [← h]
      by_cases h1 : f.bucket = "" <;> by_cases h2 : resolvedRootPath f = "" <;> by_cases h3 : f.certDir = "" <;>
        simp [h1, h2, h3, b01, rejectionClasses] at hbad ⊢
    · simp [hbad] at h

theorem siteCheck_no_panic {W : Wiring} {f : CliFlags} {x : String} : siteCheck W f ≠ .panic x := by
  unfold siteCheck
  cases W.ca with
  | memca => intro h; cases h
  | gcsca =>
    simp only []
    by_cases hbad : f.bucket = "" ∨ resolvedRootPath f = "" ∨ f.certDir = ""
    · simp [hbad]
    · simp [hbad]

theorem initCtx_err {W : Wiring} {s : State} {f : CliFlags} {p : Parsed} {now : Int × Nat} {e : String}
    (h : initCtx W s f p now = .err e) : e ∈ rejectionClasses := by
  unfold initCtx at h
  cases hs : f.sub with
  | bootstrap => simp [hs] at h
  | rotate =>
    simp only [hs] at h
    by_cases hb : cliBlocked W.cfg s.ca = true
    · simp [hb] at h; rw [← h]; decide
    · simp only [hb, Bool.false_eq_true, if_false] at h
      cases hn : rotateSerial s.ca p.override with
      | none => simp [hn] at h; rw [← h]; decide
      | some n => simp [hn] at h
  | wipeout =>
    simp only [hs] at h
    by_cases hb : cliBlocked W.cfg s.ca = true
    · simp [hb] at h; rw [← h]; decide
    · simp [hb] at h

theorem initCtx_no_panic {W : Wiring} {s : State} {f : CliFlags} {p : Parsed} {now : Int × Nat} {x : String} :
    initCtx W s f p now ≠ .panic x := by
  unfold initCtx
  cases f.sub with
  | bootstrap => intro h; cases h
  | rotate =>
    simp only []
    by_cases hb : cliBlocked W.cfg s.ca = true
    · simp [hb]
    · simp only [hb, Bool.false_eq_true, if_false]
      cases rotateSerial s.ca p.override <;> (intro h; cases h)
  | wipeout =>
    simp only []
    by_cases hb : cliBlocked W.cfg s.ca = true
    · simp [hb]
    · simp [hb]

theorem parseFlags_no_panic {pt : String → Option (Int × Nat)} {f : CliFlags} {x : String} : parseFlags pt f ≠ .panic x := by
  intro hp
  unfold parseFlags at hp
  cases hs : f.sub with
  | bootstrap =>
    simp only [hs] at hp
    cases h1 : bigintSetAll rootSerialDefault f.rootKeySerial with
    | err e1 => rw [h1] at hp; cases hp
    | panic y => exact bigintSetAll_no_panic h1
    | ok rs =>
      simp only [h1] at hp
      cases h2 : bigintSetAll signSerialDefault f.initialSigningKeySerial with
      | err e1 => rw [h2] at hp; cases hp
      | panic y => exact bigintSetAll_no_panic h2
      | ok ss =>
        simp only [h2] at hp
        cases h3 : timeSetAll pt zeroTime f.timestamp with
        | err e1 => rw [h3] at hp; cases hp
        | panic y => exact timeSetAll_no_panic h3
        | ok ts => rw [h3] at hp; cases hp
  | rotate =>
    simp only [hs] at hp
    cases h1 : bigintSetAll overrideDefault f.rotatedKeySerialOverride with
    | err e1 => rw [h1] at hp; cases hp
    | panic y => exact bigintSetAll_no_panic h1
    | ok ov =>
      simp only [h1] at hp
      cases h3 : timeSetAll pt zeroTime f.timestamp with
      | err e1 => rw [h3] at hp; cases hp
      | panic y => exact timeSetAll_no_panic h3
      | ok ts => rw [h3] at hp; cases hp
  | wipeout => simp [hs] at hp

theorem cmdOf_err {W : Wiring} {pt : String → Option (Int × Nat)} {E : Env} {s : State} {f : CliFlags} {e : String}
    (hc : cmdOf W pt E s f = .err e) : e ∈ rejectionClasses := by
  unfold cmdOf at hc
  cases hp : parseFlags pt f with
  | err e1 => simp only [hp, Outcome.err.injEq] at hc; rw [← hc]; exact parseFlags_err hp
  | panic x => simp [hp] at hc
  | ok p =>
    simp only [hp] at hc
    unfold preRun at hc
    cases hk : keyDirCheck W E f with
    | err e1 => simp only [hk, Outcome.err.injEq] at hc; rw [← hc]; exact keyDirCheck_err hk
    | panic x => simp [hk] at hc
    | ok u =>
      simp only [hk] at hc
      cases hs : siteCheck W f with
      | err e1 => simp only [hs, Outcome.err.injEq] at hc; rw [← hc]; exact siteCheck_err hs
      | panic x => simp [hs] at hc
      | ok site =>
        simp only [hs] at hc
        cases hi : initCtx W s f p (nowOf E p.ts) with
        | err e1 => simp only [hi, Outcome.err.injEq] at hc; rw [← hc]; exact initCtx_err hi
        | panic x => simp [hi] at hc
        | ok c => simp [hi] at hc

theorem cmdOf_no_panic {W : Wiring} {pt : String → Option (Int × Nat)} {E : Env} {s : State} {f : CliFlags} {x : String} :
    cmdOf W pt E s f ≠ .panic x := by
  intro hc
  unfold cmdOf at hc
  cases hp : parseFlags pt f with
  | err e1 => simp [hp] at hc
  | panic y => exact parseFlags_no_panic hp
  | ok p =>
    simp only [hp] at hc
    unfold preRun at hc
    cases hk : keyDirCheck W E f with
    | err e1 => simp [hk] at hc
    | panic y => exact keyDirCheck_no_panic hk
    | ok u =>
      simp only [hk] at hc
      cases hs : siteCheck W f with
      | err e1 => simp [hs] at hc
      | panic y => exact siteCheck_no_panic hs
      | ok site =>
        simp only [hs] at hc
        cases hi : initCtx W s f p (nowOf E p.ts) with
        | err e1 => simp [hi] at hc
        | panic y => exact initCtx_no_panic hi
        | ok c => simp [hi] at hc

/-! ### what cmdOf establishes about the command it hands over -/

theorem cmdOf_cmd {W : Wiring} {pt : String → Option (Int × Nat)} {E : Env} {s : State} {f : CliFlags} {h : Handed}
    (hc : cmdOf W pt E s f = .ok h) :
    h.cmd.flags = ⟨f.overwrite, f.keepGoing⟩ ∧ (h.cmd.isWipeout = true ↔ f.sub = .wipeout) ∧
    unblocked W.cfg s h.cmd = true := by
  obtain ⟨p, site, _, _, _, h4, _, _⟩ := cmdOf_ok hc
  unfold initCtx at h4
  cases hs : f.sub with
  | bootstrap =>
    simp only [hs, Outcome.ok.injEq] at h4
    rw [← h4]; exact ⟨rfl, by simp [LibCmd.isWipeout], rfl⟩
  | rotate =>
    simp only [hs] at h4
    by_cases hb : cliBlocked W.cfg s.ca = true
    · simp [hb] at h4
    · simp only [hb, Bool.false_eq_true, if_false] at h4
      cases hn : rotateSerial s.ca p.override with
      | none => simp [hn] at h4
      | some n =>
        simp only [hn, Outcome.ok.injEq] at h4
        rw [← h4]; exact ⟨rfl, by simp [LibCmd.isWipeout], by simpa [unblocked] using hb⟩
  | wipeout =>
    simp only [hs] at h4
    by_cases hb : cliBlocked W.cfg s.ca = true
    · simp [hb] at h4
    · simp only [hb, Bool.false_eq_true, if_false, Outcome.ok.injEq] at h4
      rw [← h4]; exact ⟨rfl, by simp [LibCmd.isWipeout], by simpa [unblocked] using hb⟩

theorem cliStep_ok {W : Wiring} {pt : String → Option (Int × Nat)} {E : Env} {s : State} {f : CliFlags}
    (h : (cliStep W pt E s f).2 = true) :
    ∃ hd, cmdOf W pt E s f = .ok hd ∧ cliStep W pt E s f = libStep W.cfg s hd.cmd := by
  unfold cliStep at h ⊢
  cases hc : cmdOf W pt E s f with
  | ok hd => exact ⟨hd, rfl, rfl⟩
  | err e => rw [hc] at h; cases h
  | panic x => rw [hc] at h; cases h

end GceTcb.KeyCli
