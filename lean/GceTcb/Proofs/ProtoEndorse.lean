import GceTcb.Proofs.ProtoMap
import GceTcb.Proofs.Endorse
import GceTcb.Model.ProtoEndorse
/-
The wire codec applied to what the signer builds (`Model/Endorse.lean`) and to the C03 pipeline
(`Model/Pipeline.lean`).  Core-only.
-/
namespace GceTcb.ProtoEndorse
open GceTcb GceTcb.ProtoWire GceTcb.Endorse

/-! ## what endorse.GoldenMeasurement / endorse.SignDoc build -/

theorem signDoc_inv (keys : Option Keys) (ts : Int × Nat) (doc d : Golden) (sig : Bytes)
    (h : signDoc keys ts doc = .ok (d, sig)) :
    ∃ cert bundle, d = { doc with cert := cert, caBundle := bundle, timestamp := some ts } := by
  unfold signDoc signDocEff at h
  cases keys with
  | none => cases h
  | some k =>
    simp only at h
    cases hca : k.ca with
    | none => rw [hca] at h; cases h
    | some ca =>
      rw [hca] at h; simp only at h
      cases hsg : k.signer with
      | none => rw [hsg] at h; cases h
      | some signer =>
        rw [hsg] at h; simp only at h
        cases hp : ca.primary with
        | err e => rw [hp] at h; cases h
        | panic s => rw [hp] at h; cases h
        | ok key =>
          rw [hp] at h; simp only at h
          cases hc : ca.certificate key with
          | err e => rw [hc] at h; cases h
          | panic s => rw [hc] at h; cases h
          | ok cert =>
            rw [hc] at h; simp only at h
            cases hb : ca.bundle key with
            | err e => rw [hb] at h; cases h
            | panic s => rw [hb] at h; cases h
            | ok bundle =>
              rw [hb] at h; simp only at h
              cases hs : signer key { doc with cert := cert, caBundle := bundle, timestamp := some ts } with
              | err e => rw [hs] at h; cases h
              | panic s => rw [hs] at h; cases h
              | ok sg =>
                rw [hs] at h
                simp only [Outcome.ok.injEq, Prod.mk.injEq] at h
                exact ⟨cert, bundle, h.1.symm⟩

theorem snpPart_none (P : Prims) (T : Tables) (c : Ctx) (h : c.snp = none) : snpPart P T c = .ok none := by
  unfold snpPart; rw [h]

theorem tdxPart_none (P : Prims) (T : Tables) (c : Ctx) (h : c.tdx = none) : tdxPart P T c = .ok none := by
  unfold tdxPart; rw [h]

/-- the measurement map of a measured document has exactly the requested counts as keys, in order -/
theorem snp_keys (P : Prims) (T : Tables) (c : Ctx) (hT : T.vmsaCounts.Pairwise (· < ·)) (o : Option SnpDoc)
    (h : snpPart P T c = .ok o) (s : SnpDoc) (hs : o = some s) :
    ∃ r, c.snp = some r ∧ s.measurements.map (·.1) = vmsaCounts T r ∧ s.svn = r.svn ∧ s.policy = T.policy := by
  cases hc : c.snp with
  | none => rw [snpPart_none P T c hc] at h; cases h; cases hs
  | some r =>
    obtain ⟨fam, iid, lds, _, _, hl, ho⟩ := snpPart_some P T c r hc o h
    rw [hs] at ho
    simp only [Option.some.injEq] at ho
    subst ho
    have hnd : (vmsaCounts T r).Nodup := by
      unfold vmsaCounts
      split
      · exact hT.imp (fun h => Nat.ne_of_lt h)
      · simp
    have := (generateLDs_ok P c.image r.product (vmsaCounts T r) [] lds hnd (by simp) hl).1
    exact ⟨r, rfl, by simpa using this, rfl, rfl⟩

theorem vmsaCounts_sorted (T : Tables) (r : SnpRequest) (hT : T.vmsaCounts.Pairwise (· < ·)) :
    (vmsaCounts T r).Pairwise (· < ·) := by
  unfold vmsaCounts
  split
  · exact hT
  · simp

theorem sortedKeys_of_keys (l : List (Nat × Bytes)) (h : (l.map (·.1)).Pairwise (· < ·)) : SortedKeys l :=
  List.pairwise_map.mp h

/-- TDX rows carry a uint32 RAM size -/
theorem generateMRTDs_ram (P : Prims) (T : Tables) (img : Bytes) (early : Bool) :
    ∀ (ss : List String) (acc rows : List TdxRow), generateMRTDs P T img early ss acc = .ok rows →
      (∀ r ∈ acc, r.ramGib < 4294967296) → ∀ r ∈ rows, r.ramGib < 4294967296 := by
  intro ss
  induction ss with
  | nil =>
    intro acc rows h hacc
    unfold generateMRTDs at h
    cases hm : P.mrtd img "" .default with
    | err e => rw [hm] at h; cases h
    | panic s => rw [hm] at h; cases h
    | ok m =>
      rw [hm] at h
      simp only [Outcome.ok.injEq] at h
      subst h
      intro r hr
      rcases List.mem_append.mp hr with h1 | h1
      · exact hacc r h1
      · simp only [List.mem_singleton] at h1; subst h1; show (0 : Nat) < 4294967296; omega
  | cons s ss ih =>
    intro acc rows h hacc
    unfold generateMRTDs at h
    cases hs : shapeSize T s with
    | none => rw [hs] at h; cases h
    | some sz =>
      rw [hs] at h
      simp only at h
      have hlt : sz % 2 ^ 32 < 4294967296 := Nat.mod_lt _ (by decide)
      cases hm : P.mrtd img s .tdhobBug with
      | err e => rw [hm] at h; cases h
      | panic p => rw [hm] at h; cases h
      | ok m =>
        rw [hm] at h
        simp only at h
        have hacc2 : ∀ (extra : List TdxRow), (∀ r ∈ extra, r.ramGib < 4294967296) →
            ∀ r ∈ acc ++ extra, r.ramGib < 4294967296 := by
          intro extra he r hr
          rcases List.mem_append.mp hr with h1 | h1
          · exact hacc r h1
          · exact he r h1
        cases early with
        | false =>
          simp only [Bool.false_eq_true, if_false] at h
          exact ih _ rows h (hacc2 _ (by intro r hr; simp only [List.mem_singleton] at hr; subst hr; exact hlt))
        | true =>
          simp only [if_true] at h
          cases hm2 : P.mrtd img s .earlyAccept with
          | panic p => rw [hm2] at h; cases h
          | ok m2 =>
            rw [hm2] at h
            exact ih _ rows h (hacc2 _ (by
              intro r hr
              simp only [List.mem_cons, List.not_mem_nil, or_false] at hr
              rcases hr with rfl | rfl <;> exact hlt))
          | err e =>
            rw [hm2] at h
            exact ih _ rows h (hacc2 _ (by
              intro r hr
              simp only [List.mem_cons, List.not_mem_nil, or_false] at hr
              rcases hr with rfl | rfl <;> exact hlt))

/-- every value of a request fits its Go type (uint32 / uint64 / int64 / int32 fields) -/
structure GoTyped (T : Tables) (c : Ctx) (ts : Int × Nat) : Prop where
  clSpec : c.clSpec < 18446744073709551616
  snp : ∀ r, c.snp = some r → r.svn < 4294967296 ∧ r.launchVmsas < 4294967296
  tdx : ∀ t, c.tdx = some t → t.svn < 4294967296
  policy : T.policy < 18446744073709551616
  counts : ∀ k ∈ T.vmsaCounts, k < 4294967296
  seconds : -9223372036854775808 ≤ ts.1 ∧ ts.1 < 9223372036854775808
  nanos : ts.2 < 2147483648

/-- The document the signer builds is in canonical form: `canon` is the identity on it (its
    measurement map is listed by ascending VMSA count because the supported-count table is). -/
theorem signer_canon (P : Prims) (T : Tables) (c : Ctx) (g d : Golden) (keys : Option Keys) (ts : Int × Nat)
    (sig : Bytes) (hT : T.vmsaCounts.Pairwise (· < ·)) (hg : goldenMeasurement P T c = .ok g)
    (hs : signDoc keys ts g = .ok (d, sig)) : canonGolden (ofGolden d) = ofGolden d := by
  obtain ⟨cert, bundle, rfl⟩ := signDoc_inv keys ts g d sig hs
  obtain ⟨_, snp, tdx, hsnp, _, rfl⟩ := goldenMeasurement_ok P T c g hg
  cases snp with
  | none => rfl
  | some s =>
    obtain ⟨r, _, hk, _, _⟩ := snp_keys P T c hT (some s) hsnp s rfl
    have hsorted : SortedKeys s.measurements :=
      sortedKeys_of_keys _ (by rw [hk]; exact vmsaCounts_sorted T r hT)
    simp only [canonGolden, ofGolden, Option.map_some, canonSevSnp, ofSnp, normMap_sorted _ hsorted]

/-- … and is well-typed for the wire. -/
theorem signer_wf (P : Prims) (T : Tables) (c : Ctx) (g d : Golden) (keys : Option Keys) (ts : Int × Nat)
    (sig : Bytes) (hT : T.vmsaCounts.Pairwise (· < ·)) (hty : GoTyped T c ts)
    (hg : goldenMeasurement P T c = .ok g) (hs : signDoc keys ts g = .ok (d, sig)) : WfGolden (ofGolden d) := by
  obtain ⟨cert, bundle, rfl⟩ := signDoc_inv keys ts g d sig hs
  obtain ⟨_, snp, tdx, hsnp, htdx, rfl⟩ := goldenMeasurement_ok P T c g hg
  refine ⟨hty.clSpec, ?_, ?_, ?_, rfl⟩
  · intro t ht
    simp only [ofGolden, Option.map_some, Option.some.injEq] at ht
    subst ht
    exact ⟨hty.seconds.1, hty.seconds.2, by simp only; omega, by simp only; have := hty.nanos; omega, rfl⟩
  · intro w hw
    cases snp with
    | none => simp [ofGolden] at hw
    | some s =>
      simp only [ofGolden, Option.map_some, Option.some.injEq] at hw
      subst hw
      obtain ⟨r, hr, hk, hsvn, hpol⟩ := snp_keys P T c hT (some s) hsnp s rfl
      refine ⟨by simp only [ofSnp]; rw [hsvn]; exact (hty.snp r hr).1,
        by simp only [ofSnp]; rw [hpol]; exact hty.policy, ?_, rfl⟩
      intro p hp
      have hmem : p.1 ∈ vmsaCounts T r := by rw [← hk]; exact List.mem_map_of_mem (f := (·.1)) hp
      unfold vmsaCounts at hmem
      split at hmem
      · exact hty.counts _ hmem
      · simp only [List.mem_singleton] at hmem; rw [hmem]; exact (hty.snp r hr).2
  · intro w hw
    cases tdx with
    | none => simp [ofGolden] at hw
    | some dd =>
      simp only [ofGolden, Option.map_some, Option.some.injEq] at hw
      subst hw
      cases hc : c.tdx with
      | none => rw [tdxPart_none P T c hc] at htdx; cases htdx
      | some t =>
        obtain ⟨rows, hrows, ho⟩ := tdxPart_some P T c t hc (some dd) htdx
        simp only [Option.some.injEq] at ho
        subst ho
        refine ⟨hty.tdx t hc, ?_, rfl⟩
        intro r hr
        simp only [ofTdx, List.mem_map] at hr
        obtain ⟨x, hx, rfl⟩ := hr
        exact ⟨generateMRTDs_ram P T c.image t.includeEarlyAccept t.machineShapes [] rows hrows
          (by intro r hr; cases hr) x hx, rfl⟩

/-- the document with its measurement map re-listed by `σ` (Go's map iteration order) -/
def reorderGolden (σ : List (Nat × Bytes) → List (Nat × Bytes)) (w : WGolden) : WGolden :=
  { w with sevSnp := w.sevSnp.map (fun s => { s with measurements := σ s.measurements }) }

theorem wf_reorderGolden (σ : List (Nat × Bytes) → List (Nat × Bytes)) (hσ : ∀ l, (σ l).Perm l) (w : WGolden)
    (h : WfGolden w) : WfGolden (reorderGolden σ w) := by
  refine ⟨h.clSpec, h.timestamp, ?_, h.tdx, h.no_unknown⟩
  intro s hs
  simp only [reorderGolden, Option.map_eq_some_iff] at hs
  obtain ⟨s0, h0, rfl⟩ := hs
  have h1 := h.sevSnp s0 h0
  exact ⟨h1.svn, h1.policy, fun p hp => h1.keys p ((hσ _).mem_iff.mp hp), h1.no_unknown⟩

theorem canon_reorderGolden (σ : List (Nat × Bytes) → List (Nat × Bytes)) (hσ : ∀ l, (σ l).Perm l) (w : WGolden)
    (hc : canonGolden w = w) : canonGolden (reorderGolden σ w) = w := by
  cases w with
  | mk ts cl co ce di cab sev tdx unk =>
    cases sev with
    | none => rfl
    | some s =>
      simp only [canonGolden, Option.map_some, WGolden.mk.injEq, Option.some.injEq, true_and] at hc
      have hm : normMap s.measurements = s.measurements := by
        have := congrArg WSevSnp.measurements hc.1
        simpa [canonSevSnp] using this
      have hsorted : SortedKeys s.measurements := hm ▸ normMap_is_sorted s.measurements
      have := normMap_perm s.measurements (σ s.measurements) (sortedKeys_nodup _ hsorted) (hσ _)
      simp only [canonGolden, reorderGolden, Option.map_some, canonSevSnp, this, hm]

end GceTcb.ProtoEndorse
