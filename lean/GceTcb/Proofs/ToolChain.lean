import GceTcb.Model.ToolChain
import GceTcb.Proofs.KeyCli
import GceTcb.Proofs.EndorseCli
import GceTcb.Proofs.RpCli
/-
Lemmas for Props/C03Tools.lean: the agreement hypotheses between the writing and the reading side (`Agree`), what an
accepted `endorse` run wrote (`endorse_ok`), what `gcetcbendorsement verify` does with it (`verify_written`), and the
invariant of the key-management state that makes the two meet (`Bound`: the key the key directory holds under a
recorded name is the key the recorded certificate certifies).
-/
namespace GceTcb.ToolChain
open GceTcb GceTcb.KeyHistory

variable {Cert Roots R Q : Type}

/-! ## agreement of the writing side with the reading side -/

/-- What the relying party's proto.Unmarshal reads out of the document endorse.SignDoc marshalled (the fields of
    Model/Verify.lean's `Golden`; identical to `VerifyWire.goldenOfWire ∘ ProtoEndorse.ofGolden`). -/
def viewGolden (d : Endorse.Golden) : Verify.Golden :=
  { timestamp := d.timestamp.map fun t => ⟨t.1, (t.2 : Int)⟩, clSpec := d.clSpec, commit := d.commit, cert := d.cert,
    digest := d.digest, sevSnp := d.snp.map fun s => ⟨s.svsm, s.measurements⟩,
    tdx := d.tdx.map fun t => ⟨t.rows.map fun r => (r.ramGib, r.mrtd)⟩, other := d.caBundle }

def validAt (c : KeyHistory.Cert) (t : Nat) : Prop := c.notBefore ≤ t ∧ t ≤ c.notAfter

/-- The contracts of the third-party code BETWEEN the tools: what one tool's encoder writes, the other tool's decoder
    reads back (protobuf, DER, PEM); the key that signs is the key the certificate certifies (RSA-PSS); a signing
    certificate issued by a self-signed CA root chains to a pool holding that root at any time inside both validity
    windows (crypto/x509).  These are the `Laws` of Model/Pipeline.lean / `CryptoLaws` of Proofs/ProtoPipeline.lean,
    restated between `Codec` (writer) and `RpCli.Prims` (reader). -/
structure Agree (K : Kit Cert Roots R Q) : Prop where
  endorsement_rt : ∀ e, K.RW.P.v.unmarshalEndorsement (K.C.marshalEndorsement e) = some e
  golden_rt : ∀ d, K.RW.P.v.unmarshalGolden (K.C.marshalGolden d) = some (viewGolden d)
  der_nonempty : ∀ c, (K.C.certDer c).isEmpty = false
  der_parse : ∀ c, K.RW.P.v.parseCert (K.C.certDer c) = some (K.C.certOf c)
  pem_root : ∀ r, K.RW.P.pemCerts (K.C.rootPem r) = [K.C.certOf r]
  chain_ok : ∀ (r c : KeyHistory.Cert) (now : Nat), RootProfile r → SignProfile c → IssuedBy r c →
    validAt r now → validAt c now →
    K.RW.P.v.verifyChain (K.C.certOf c) (K.RW.P.poolOf [K.C.certOf r]) now = true
  sig_ok : ∀ (c : KeyHistory.Cert) (m : Bytes),
    K.RW.P.v.checkSigPss256 (K.C.certOf c) m (K.C.signPss c.subjectKey m) = true

/-- The document carries provenance (a changelist number or a commit), as the property states. -/
def HasProvenance (d : Endorse.Golden) : Prop := d.clSpec ≠ 0 ∨ d.commit ≠ []

/-- The bytes `endorse` stores for document `d` signed by the key certified by `c`. -/
def stored (C : Codec Cert) (c : KeyHistory.Cert) (d : Endorse.Golden) : Bytes :=
  C.marshalEndorsement ⟨C.marshalGolden d, C.signPss c.subjectKey (C.marshalGolden d)⟩

/-- `gcetcbendorsement verify --root_cert q p` on a world where `p` holds what `endorse` stored for a document that
    embeds the certificate `c`, and `q` holds the root object `r` that issued `c`: exit status 0 at any time inside
    both validity windows. -/
theorem verify_written {K : Kit Cert Roots R Q} (hA : Agree K) (read : String → Option Bytes) (now : Nat)
    (r c : KeyHistory.Cert) (d : Endorse.Golden) (p q : String) (hq : q ≠ "")
    (hp : read p = some (stored K.C c d)) (hr : read q = some (K.C.rootPem r))
    (hcert : d.cert = K.C.certDer c) (hts : d.timestamp.isSome = true) (hprov : HasProvenance d)
    (hroot : RootProfile r) (hsign : SignProfile c) (hiss : IssuedBy r c)
    (hvr : validAt r now) (hvc : validAt c now) :
    Verify.cliVerify K.RW.P.vp ⟨read, none, now⟩ p q = Verify.accept := by
  have hne : (q != "") = true := by simp [hq]
  have hpool : RpCli.loadRootPool K.RW.P (K.C.rootPem r) = some (K.RW.P.poolOf [K.C.certOf r]) := by
    simp [RpCli.loadRootPool, hA.pem_root]
  have hprov' : ∀ x : Bool, (x && d.clSpec == 0 && d.commit.isEmpty) = false := by
    intro x
    rcases hprov with h | h
    · simp [h]
    · cases hc : d.commit with
      | nil => exact absurd hc h
      | cons a t => simp
  obtain ⟨ts, hts'⟩ := Option.isSome_iff_exists.mp hts
  simp only [Verify.cliVerify, Verify.readEndorsement, hp, stored, RpCli.Prims.vp, hA.endorsement_rt,
    Verify.rootOfTrust, hne, if_true, hr, hpool, Verify.endorsementProto, Verify.verifySigned, hA.golden_rt,
    Verify.beforeSignature, Verify.checkProvenance, viewGolden, hts', Option.map_some]
  simp only [hprov', Bool.false_eq_true, if_false, Verify.checkCertificate, hcert, hA.der_nonempty,
    hA.der_parse, hA.chain_ok r c now hroot hsign hiss hvr hvc, if_true, hA.sig_ok, Bool.not_true,
    Verify.afterSignature, List.isEmpty_nil, Bool.not_true, Bool.false_and]

/-! ## what an accepted `endorse` command line did -/

/-- The request of an accepted command line carries the mode flags and the changelist number as written. -/
theorem contextOf_fields (P : EndorseCli.Params) (U : String → Option Bytes) (E : EndorseCli.Env)
    (fl : EndorseCli.CliFlags) (r : EndorseCli.Request) (h : EndorseCli.contextOf P U E fl = .ok r) :
    r.fl.measurementOnly = fl.measurementOnly ∧ r.fl.cfg.dryRun = fl.dryRun ∧
    r.fl.cfg.snapshot = (fl.snapshotDir != "") ∧ r.ctx.clSpec = fl.clspec ∧
    E.globalPre = true ∧ E.globalInit = true := by
  unfold EndorseCli.contextOf at h
  cases he : EndorseCli.ecOf P U E fl with
  | err e => simp [he] at h
  | panic x => simp [he] at h
  | ok v =>
    obtain ⟨ec, ow⟩ := v
    simp only [he, Outcome.ok.injEq] at h
    obtain ⟨commit, ts, prod, ok, v, img, svsm, m, A, hec, _⟩ := (EndorseCli.ecOf_ok_explicit P U E fl ec ow).mp he
    subst h; subst hec
    exact ⟨rfl, rfl, rfl, rfl, A.globalPre, A.globalInit⟩

/-- The document endorse.SignDoc builds from the measured one: certificate, CA bundle and timestamp filled in. -/
def docOf (C : Codec Cert) (g : Endorse.Golden) (c rt : KeyHistory.Cert) (ts : Int × Nat) : Endorse.Golden :=
  { g with cert := C.certDer c, caBundle := C.rootPem rt, timestamp := some ts }

/-- SignDoc over the store: succeeds exactly when the primary has a recorded certificate, the root object exists
    and the key directory holds the primary's key; the signature is that key's over the marshalled document. -/
theorem signDoc_keysOf (C : Codec Cert) (cfg : KeyHistory.Cfg) (s : KeyHistory.State) (ts : Int × Nat)
    (g d : Endorse.Golden) (sig : Bytes)
    (h : Endorse.signDoc (some (keysOf C cfg s)) ts g = .ok (d, sig)) :
    ∃ c rt k, certificate s.ca s.ca.primarySigning = some c ∧ bundle cfg s.ca = some rt ∧
      KeyHistory.get s.km.live s.ca.primarySigning = some k ∧ d = docOf C g c rt ts ∧
      sig = C.signPss k (C.marshalGolden d) := by
  unfold Endorse.signDoc Endorse.signDocEff keysOf at h
  simp only [if_true] at h
  cases hc : certificate s.ca s.ca.primarySigning with
  | none => simp [hc] at h
  | some c =>
    simp only [hc] at h
    cases hb : bundle cfg s.ca with
    | none => simp [hb] at h
    | some rt =>
      simp only [hb] at h
      cases hk : KeyHistory.get s.km.live s.ca.primarySigning with
      | none => simp [hk] at h
      | some k =>
        simp only [hk, Outcome.ok.injEq, Prod.mk.injEq] at h
        exact ⟨c, rt, k, rfl, rfl, rfl, h.1.symm, by rw [← h.2, ← h.1]⟩

/-- An `endorse` command line that exits 0, not dry-run, not measurement-only, not in snapshot mode: the request was
    accepted, the firmware was measured, SignDoc found the primary's certificate, the root object and the primary's
    key, and the file written holds the marshalled endorsement of exactly that document and signature. -/
theorem endorse_ok (K : Kit Cert Roots R Q) (w : World) (KE : KeyCli.Env) (wf : KeyCli.CliFlags) (E : EndorseEnv)
    (fl : EndorseCli.CliFlags) (hres : (endorseRun K w KE wf E fl).result = .ok ())
    (hmo : fl.measurementOnly = false) (hdry : fl.dryRun = false) (hsnap : fl.snapshotDir = "") :
    ∃ r g c rt k, EndorseCli.contextOf K.EP K.Pr.parseUuid (endorseEnvOf K w KE wf E) fl = .ok r ∧
      Endorse.goldenMeasurement K.Pr K.T r.ctx = .ok g ∧
      certificate w.keys.ca w.keys.ca.primarySigning = some c ∧ bundle K.W.cfg w.keys.ca = some rt ∧
      KeyHistory.get w.keys.km.live w.keys.ca.primarySigning = some k ∧
      r.ctx.clSpec = fl.clspec ∧ globalInit K.W w.keys = true ∧
      endorseWrites K w KE wf E fl = some (outPathOf r.fl.cfg,
        K.C.marshalEndorsement ⟨K.C.marshalGolden (docOf K.C g c rt r.ts),
          K.C.signPss k (K.C.marshalGolden (docOf K.C g c rt r.ts))⟩) := by
  have hres' := hres
  unfold endorseRun EndorseCli.cliRun at hres
  cases hc : EndorseCli.contextOf K.EP K.Pr.parseUuid (endorseEnvOf K w KE wf E) fl with
  | err e => simp [hc] at hres
  | panic x => simp [hc] at hres
  | ok r =>
    obtain ⟨f1, f2, f3, f4, _, f6⟩ := contextOf_fields _ _ _ _ _ hc
    simp only [hc] at hres
    unfold VF.virtualFirmware at hres
    cases hg : Endorse.goldenMeasurement K.Pr K.T r.ctx with
    | err e => simp [hg] at hres
    | panic x => simp [hg] at hres
    | ok g =>
      simp only [hg, f1, hmo, Bool.false_eq_true, if_false] at hres
      cases hs : Endorse.signDocEff (some (keysOf K.C K.W.cfg w.keys)) r.ts g with
      | mk effs o =>
        cases o with
        | err e => simp [hs] at hres
        | panic x => simp [hs] at hres
        | ok ds =>
          obtain ⟨d, sig⟩ := ds
          have hsd : Endorse.signDoc (some (keysOf K.C K.W.cfg w.keys)) r.ts g = .ok (d, sig) := by
            unfold Endorse.signDoc; rw [hs]
          obtain ⟨c, rt, k, h1, h2, h3, h4, h5⟩ := signDoc_keysOf _ _ _ _ _ _ _ hsd
          refine ⟨r, g, c, rt, k, rfl, hg, h1, h2, h3, f4, f6, ?_⟩
          unfold endorseWrites
          simp only [hc, f1, f2, f3, hmo, hdry, hsnap, hres', hg, hsd]
          subst h4
          subst h5
          simp

/-! ## the key directory and the store agree: the key held under a recorded name is the certified key -/

/-- For every key version the authority records a certificate for (other than the root's entry): if the key
    directory still holds a key under that name, it is the key the recorded certificate certifies. -/
def Bound (s : State) : Prop :=
  ∀ n p c k, KeyHistory.get s.ca.entries n = some p → KeyHistory.get s.ca.objects p = some c →
    KeyHistory.get s.km.live n = some k → n ≠ rootName → c.subjectKey = k

theorem Bound_init : Bound State.init := by
  intro n p c k h; simp [State.init, CA.empty, KeyHistory.get] at h

theorem Bound_wipeout {s : State} (h : Bound s) (c k : Bool) : Bound (wipeout s c k) := by
  intro n p x y hn hp hk hne
  unfold wipeout at hn hp hk
  cases c with
  | true => simp [CA.empty, KeyHistory.get] at hn
  | false =>
    cases k with
    | true => simp [KM.wipe, KeyHistory.get] at hk
    | false => exact h n p x y hn hp hk hne

/-- the key manager after a rotation step holds nothing the one after `gen` did not hold -/
def KmSub (km' : KM) (s : State) : Prop :=
  ∀ n x, KeyHistory.get km'.live n = some x → KeyHistory.get (s.km.gen (bump s.ca.primarySigning)).live n = some x

theorem Bound_sameEntries {cfg : Cfg} {s : State} (hi : InvCA cfg s.ca) (hb : Bound s) (km' : KM) (ca' : CA)
    (hkm : KmSub km' s) (he : ca'.entries = s.ca.entries) (ho : ca'.objects = s.ca.objects) : Bound ⟨km', ca'⟩ := by
  intro n p c k hn hp hk hne
  simp only [he, ho] at hn hp
  have hl := hkm n k hk
  rw [live_gen] at hl
  by_cases e : n = bump s.ca.primarySigning
  · rw [e, hi.kver_fresh] at hn; cases hn
  · simp only [e, if_false] at hl; exact hb n p c k hn hp hl hne

theorem Bound_write {s : State} (hb : Bound s) (km' : KM) (hkm : KmSub km' s)
    {p0 : ObjKey} {c0 : KeyHistory.Cert} (hc0 : c0.subjectKey = s.km.next) (hu : Unheld s.ca p0 (bump s.ca.primarySigning)) :
    Bound ⟨km', { caWrite s.ca (bump s.ca.primarySigning) p0 c0 with primarySigning := bump s.ca.primarySigning }⟩ := by
  intro n p c k hn hp hk hne
  simp only [caWrite, get_put] at hn hp
  have hl := hkm n k hk
  rw [live_gen] at hl
  by_cases e : n = bump s.ca.primarySigning
  · simp only [e, if_true, Option.some.injEq] at hn hl
    subst hn
    simp only [if_true, Option.some.injEq] at hp
    subst hp
    rw [hc0]; exact hl
  · simp only [e, if_false] at hn hl
    have hqp : p ≠ p0 := hu n p hn e
    simp only [hqp, if_false] at hp
    exact hb n p c k hn hp hl hne

theorem Bound_caAfterRotate {cfg : Cfg} (hg : cfg.guard = true) {s : State} (hi : InvCA cfg s.ca) (hb : Bound s)
    (f : Flags) (oc : Option KeyHistory.Cert) (hoc : ∀ c, oc = some c → c.subjectKey = s.km.next) (km' : KM) (hkm : KmSub km' s) :
    Bound ⟨km', (caAfterRotate cfg f s.ca (bump s.ca.primarySigning) oc).1⟩ := by
  rcases caAfterRotate_shape (cfg := cfg) f oc hi.kver_fresh with e | ⟨_, e⟩ | ⟨c, hc, ⟨e, hu⟩ | ⟨_, _, _, hgf⟩⟩
  · rw [e]; exact Bound_sameEntries hi hb km' _ hkm rfl rfl
  · rw [e]; exact Bound_sameEntries hi hb km' _ hkm rfl rfl
  · rw [e]
    refine Bound_write hb km' hkm (hoc c hc) ?_
    cases hcc : cfg.ca with
    | gcsca => exact hu hcc hg
    | memca =>
      intro n' p' hn' hne'
      have := hi.sync hcc n' p' hn'
      simp only [defaultPath, hcc]
      rw [this]
      intro e'; injection e' with e'; exact hne' e'
  · rw [hg] at hgf; cases hgf

theorem Bound_rotateKeyX {cfg : Cfg} (hg : cfg.guard = true) {s : State} (hi : Inv cfg s) (hb : Bound s)
    (f : Flags) (c : KeyCli.RotCtx) : Bound (KeyCli.rotateKeyX cfg f s c).1 := by
  have hsub : KmSub (s.km.gen (bump s.ca.primarySigning)) s := fun n x h => h
  have hsub2 : KmSub (destroyOld (s.km.gen (bump s.ca.primarySigning)) s.ca.primarySigning) s :=
    fun n x h => (live_destroyOld h).1
  cases hx : KeyCli.rotCertX cfg s c with
  | some x =>
    rw [KeyCli.rotateKeyX_eq_of_cert (by rw [hx, KeyCli.rotCertX_some hx])]
    rcases rotateKey_shape cfg f s c.cn c.serial.toNat (KeyCli.modelTime c.now) with e | ⟨oc, hoc, _, e⟩
    · rw [e]; exact Bound_sameEntries hi.1 hb _ _ hsub rfl rfl
    · rw [e]
      exact Bound_caAfterRotate hg hi.1 hb f oc (fun c' hc' => (rotCert_fields (hoc c' hc')).2.2.2.2) _ hsub2
  | none =>
    rcases KeyCli.rotateKeyX_none (f := f) hx with e | ⟨_, e⟩
    · rw [e]; exact Bound_sameEntries hi.1 hb _ _ hsub rfl rfl
    · rw [e]; exact Bound_caAfterRotate hg hi.1 hb f none (by intro c h; cases h) _ hsub2

theorem Bound_clean (cfg : Cfg) (a : BootArgs) (k : Nat)
    (hne : cfg.ca = .gcsca → ¬ (a.signCn = a.rootCn ∧ a.signSerial = a.rootSerial)) :
    Bound ⟨⟨[(rootName, k), (firstName, k + 1)], [], k + 2⟩, cleanCA cfg a k⟩ := by
  intro n p c x hn hp hk hnr
  have e1 : firstName ≠ rootName := firstName_ne_root
  by_cases hf : n = firstName
  · subst hf
    simp only [KeyHistory.get, e1, if_false, if_true, Option.some.injEq] at hk
    subst hk
    cases hc : cfg.ca with
    | memca =>
      simp only [cleanCA, hc, KeyHistory.get, e1, if_false, if_true, Option.some.injEq] at hn hp
      subst hn
      have : ObjKey.byName firstName ≠ ObjKey.byName rootName := by decide
      simp only [this, if_false, if_true, Option.some.injEq] at hp
      subst hp; rfl
    | gcsca =>
      simp only [cleanCA, hc, KeyHistory.get, e1, if_false, if_true, Option.some.injEq] at hn hp
      subst hn
      have : ObjKey.byCert a.signCn a.signSerial ≠ ObjKey.byCert a.rootCn a.rootSerial := by
        intro e; injection e with e2 e3; exact hne hc ⟨e2, e3⟩
      simp only [this, if_false, if_true, Option.some.injEq] at hp
      subst hp; rfl
  · simp [KeyHistory.get, hnr, hf] at hk

theorem Bound_noEntries (km : KM) (ca : CA) (h : ∀ n p, KeyHistory.get ca.entries n = some p → n = rootName) :
    Bound ⟨km, ca⟩ := by
  intro n p c k hn _ _ hne
  exact absurd (h n p hn) hne

theorem Bound_bootstrapX_clean {cfg : Cfg} (hg : cfg.guard = true) (f : Flags) (c : KeyCli.BootCtx) {s : State}
    (hclean : Clean s) : Bound (KeyCli.bootstrapX cfg f c s).1 := by
  have hs := hclean.eq
  have e1 : firstName ≠ rootName := firstName_ne_root
  have hk1 : keyExists f (⟨[], [], s.km.next⟩ : KM) rootName = false := by simp [keyExists, KeyHistory.get]
  have hk2 : keyExists f ((⟨[], [], s.km.next⟩ : KM).gen rootName) firstName = false := by
    simp [keyExists, KM.gen, KeyHistory.put, KeyHistory.get, e1]
  have hkm : ((⟨[], [], s.km.next⟩ : KM).gen rootName).gen firstName = KeyCli.km2 s.km.next := by
    simp [KM.gen, KeyHistory.put, KeyCli.km2, e1]
  rcases KeyCli.bootCertsX_shape cfg f c (KeyCli.km2 s.km.next) s.km.next (s.km.next + 1) CA.empty with e | e | ⟨rc, e⟩
  · have : KeyCli.bootstrapX cfg f c s = bootstrap cfg f (KeyCli.bootArgs c) s := by
      rw [hs]
      simp only [KeyCli.bootstrapX, bootstrap, hk1, hk2, hkm, Bool.false_eq_true, if_false, e]
    rw [this, hs]
    by_cases hsame : cfg.ca = .gcsca ∧ (KeyCli.bootArgs c).signCn = (KeyCli.bootArgs c).rootCn ∧
        (KeyCli.bootArgs c).signSerial = (KeyCli.bootArgs c).rootSerial
    · rw [bootstrap_clean_collide cfg f _ _ hsame.1 hg hsame.2]
      exact Bound_noEntries _ _ (fun n p h => by simp [collideCA, CA.empty, KeyHistory.get] at h)
    · have hne : cfg.ca = .gcsca → ¬ ((KeyCli.bootArgs c).signCn = (KeyCli.bootArgs c).rootCn ∧
          (KeyCli.bootArgs c).signSerial = (KeyCli.bootArgs c).rootSerial) := fun hc hh => hsame ⟨hc, hh⟩
      rw [bootstrap_clean cfg f _ _ hne]
      exact Bound_clean cfg _ _ hne
  · have : (KeyCli.bootstrapX cfg f c s).1 = ⟨KeyCli.km2 s.km.next, bootView cfg CA.empty⟩ := by
      rw [hs]
      simp only [KeyCli.bootstrapX, hk1, hk2, hkm, Bool.false_eq_true, if_false, e]
    rw [this]
    exact Bound_noEntries _ _ (fun n p h => by
      unfold bootView at h; cases hc : cfg.ca <;> simp [hc, CA.empty, KeyHistory.get] at h)
  · have : (KeyCli.bootstrapX cfg f c s).1 = ⟨KeyCli.km2 s.km.next, bootPutRoot cfg (bootView cfg CA.empty) rc⟩ := by
      rw [hs]
      simp only [KeyCli.bootstrapX, hk1, hk2, hkm, Bool.false_eq_true, if_false, e]
    rw [this]
    refine Bound_noEntries _ _ (fun n p h => ?_)
    unfold bootPutRoot bootView at h
    cases hc : cfg.ca with
    | gcsca => simp [hc, CA.empty, KeyHistory.get] at h
    | memca =>
      simp only [hc, memPut, CA.empty, KeyHistory.put, KeyHistory.get] at h
      by_cases hn : n = rootName
      · exact hn
      · simp [hn] at h

theorem Bound_libStep {cfg : Cfg} (hg : cfg.guard = true) {s : State} (hi : Inv cfg s) (hb : Bound s)
    (lc : KeyCli.LibCmd) (hclean : lc.isBootstrap = true → Clean s) : Bound (KeyCli.libStep cfg s lc).1 := by
  cases lc with
  | bootstrap f c => exact Bound_bootstrapX_clean hg f c (hclean rfl)
  | rotate f c => exact Bound_rotateKeyX hg hi hb f c
  | wipeout f c => exact Bound_wipeout hb c.ca c.keys

theorem Bound_cliStep {W : KeyCli.Wiring} (hg : W.guard = true) (pt : String → Option (Int × Nat)) (E : KeyCli.Env)
    {s : State} (hi : Inv W.cfg s) (hb : Bound s) (f : KeyCli.CliFlags)
    (hclean : f.sub = .bootstrap → (KeyCli.cmdOf W pt E s f).isOk = true → Clean s) :
    Bound (KeyCli.cliStep W pt E s f).1 := by
  unfold KeyCli.cliStep
  cases hc : KeyCli.cmdOf W pt E s f with
  | err e => exact hb
  | panic x => exact hb
  | ok hd =>
    exact Bound_libStep (cfg := W.cfg) hg hi hb hd.cmd
      (fun h => hclean (KeyCli.cmdOf_isBootstrap hc h) (by rw [hc]; rfl))

/-- The two invariants over histories of command lines whose accepted bootstraps run on a clean store. -/
theorem InvBound_cliRun {W : KeyCli.Wiring} (hg : W.guard = true) (pt : String → Option (Int × Nat))
    (h : List (KeyCli.Env × KeyCli.CliFlags)) :
    ∀ s : State, Inv W.cfg s → Bound s → KeyCli.CliCleanRun W pt s h →
      Inv W.cfg (KeyCli.cliRun W pt s h) ∧ Bound (KeyCli.cliRun W pt s h) := by
  induction h with
  | nil => intro s hi hb _; exact ⟨hi, hb⟩
  | cons l t ih =>
    intro s hi hb hc
    exact ih _ (KeyCli.Inv_cliStep hg pt l.1 hi l.2 hc.1) (Bound_cliStep hg pt l.1 hi hb l.2 hc.1) hc.2

/-! ## histories of steps -/

theorem run_append (K : Kit Cert Roots R Q) (a b : List Step) : ∀ w : World,
    run K w (a ++ b) = ((run K (run K w a).1 b).1, (run K w a).2 ++ (run K (run K w a).1 b).2) := by
  induction a with
  | nil => intro w; rfl
  | cons x t ih => intro w; simp only [List.cons_append, run, ih, List.cons_append]

/-- Key-management command lines move the key directory and the store exactly as `KeyCli.cliRun` does and touch
    nothing else of the world. -/
theorem run_keySteps (K : Kit Cert Roots R Q) (h : List (KeyCli.Env × KeyCli.CliFlags)) : ∀ w : World,
    (run K w (keySteps h)).1 = { w with keys := KeyCli.cliRun K.W K.pt w.keys h } := by
  induction h with
  | nil => intro w; rfl
  | cons l t ih =>
    intro w
    simp only [keySteps, List.map_cons, run, step] at ih ⊢
    rw [ih]
    rfl

theorem cliRun_append (W : KeyCli.Wiring) (pt : String → Option (Int × Nat)) (s : State)
    (a b : List (KeyCli.Env × KeyCli.CliFlags)) :
    KeyCli.cliRun W pt s (a ++ b) = KeyCli.cliRun W pt (KeyCli.cliRun W pt s a) b := by
  simp [KeyCli.cliRun, List.foldl_append]

/-! ## rotations keep the root -/

theorem bundle_caAfterRotate {cfg : Cfg} {ca : CA} (hi : InvCA cfg ca) (f : Flags) (oc : Option KeyHistory.Cert) :
    bundle cfg (caAfterRotate cfg f ca (bump ca.primarySigning) oc).1 = bundle cfg ca := by
  have hk : bump ca.primarySigning ≠ ca.primaryRoot := by
    rcases hi.rootOrEmpty with h1 | ⟨h1, _⟩
    · rw [h1]; exact bump_ne_root _
    · rw [h1]; exact bump_ne_noName _
  rcases caAfterRotate_shape (cfg := cfg) f oc hi.kver_fresh with e | ⟨_, e⟩ | ⟨c, _, ⟨e, _⟩ | ⟨e, _, hc, _⟩⟩
  · rw [e]
  · rw [e]; exact bundle_setSigning cfg ca _
  · rw [e]
    exact caWrite_bundle hi.sync (fun hc => by simp [defaultPath, hc]) hk
  · rw [e]
    unfold bundle
    rw [hc]
    rfl

/-- A `rotate` command line — accepted or not, successful or not — leaves the root the authority serves as it was. -/
theorem bundle_rotate_line {W : KeyCli.Wiring} (pt : String → Option (Int × Nat)) (E : KeyCli.Env) {s : State}
    (hi : Inv W.cfg s) (f : KeyCli.CliFlags) (hs : f.sub = .rotate) :
    bundle W.cfg (KeyCli.cliStep W pt E s f).1.ca = bundle W.cfg s.ca := by
  unfold KeyCli.cliStep
  cases hc : KeyCli.cmdOf W pt E s f with
  | err e => rfl
  | panic x => rfl
  | ok hd =>
    obtain ⟨_, k2, k3⟩ := KeyCli.cmdOf_cmd hc
    cases hcmd : hd.cmd with
    | bootstrap o c =>
      have := KeyCli.cmdOf_isBootstrap hc (by rw [hcmd]; rfl)
      rw [hs] at this; cases this
    | wipeout o c =>
      have := k2.mp (by rw [hcmd]; rfl)
      rw [hs] at this; cases this
    | rotate o c =>
      simp only [hcmd, KeyCli.libStep]
      rcases KeyCli.rotateKeyX_ca W.cfg o s c with e | ⟨oc, e⟩
      · rw [e]
      · rw [e]; exact bundle_caAfterRotate hi.1 o oc

def RotateOnly (h : List (KeyCli.Env × KeyCli.CliFlags)) : Prop := ∀ l ∈ h, l.2.sub = .rotate

theorem cleanRun_rotateOnly (W : KeyCli.Wiring) (pt : String → Option (Int × Nat))
    (h : List (KeyCli.Env × KeyCli.CliFlags)) (hr : RotateOnly h) : ∀ s, KeyCli.CliCleanRun W pt s h := by
  induction h with
  | nil => intro s; trivial
  | cons l t ih =>
    intro s
    refine ⟨fun hb => ?_, ih (fun x hx => hr x (List.mem_cons_of_mem _ hx)) _⟩
    have := hr l List.mem_cons_self
    rw [this] at hb; cases hb

theorem bundle_rotations {W : KeyCli.Wiring} (hg : W.guard = true) (pt : String → Option (Int × Nat))
    (h : List (KeyCli.Env × KeyCli.CliFlags)) (hr : RotateOnly h) : ∀ s : State, Inv W.cfg s →
    bundle W.cfg (KeyCli.cliRun W pt s h).ca = bundle W.cfg s.ca := by
  induction h with
  | nil => intro s _; rfl
  | cons l t ih =>
    intro s hi
    have hl := hr l List.mem_cons_self
    have hstep : Inv W.cfg (KeyCli.cliStep W pt l.1 s l.2).1 :=
      KeyCli.Inv_cliStep hg pt l.1 hi l.2 (fun hb => by rw [hl] at hb; cases hb)
    show bundle W.cfg (KeyCli.cliRun W pt (KeyCli.cliStep W pt l.1 s l.2).1 t).ca = _
    rw [ih (fun x hx => hr x (List.mem_cons_of_mem _ hx)) _ hstep, bundle_rotate_line pt l.1 hi l.2 hl]

/-! ## the composition -/

theorem rp_verify_eq (K : Kit Cert Roots R Q) (w : World) (now : Nat) (q p : String) :
    (rpRun K w now (verifyLine q p)).result = Verify.cliVerify K.RW.P.vp ⟨w.read, none, now⟩ p q := by
  have hw : RpCli.wellFormed K.RW.L (verifyLine q p) = true := by
    simp only [RpCli.wellFormed, verifyLine, List.all_cons, List.all_nil, Bool.and_true, RpCli.flagOk]
    have h1 : RpCli.isCommand "verify" = true := by decide
    have h2 : RpCli.kindOf "verify" "root_cert" = some "String" := by decide
    simp [h1, h2]
  have hne1 : ("root_cert" == "show") = false := by decide
  have hne2 : ("root_cert" == "help") = false := by decide
  have hs : RpCli.namedShow (verifyLine q p) = false := by
    simp [RpCli.namedShow, verifyLine, RpCli.lastOf, RpCli.optBool, hne1]
  have hh : RpCli.helpFlag (verifyLine q p) = false := by
    simp [RpCli.helpFlag, verifyLine, RpCli.lastOf, RpCli.optBool, hne2]
  have hr : RpCli.namedRoot (verifyLine q p) = q := by simp [RpCli.namedRoot, verifyLine, RpCli.lastOf]
  have hps : (RpCli.parsed K.RW.L (verifyLine q p)).verifyShow = false := by
    rw [RpCli.parsed_verifyShow _ _ (rfl : (verifyLine q p).cmd = "verify"), hs]
  have hpr : (RpCli.parsed K.RW.L (verifyLine q p)).verifyRoot = q := by
    rw [RpCli.parsed_verifyRoot _ _ (rfl : (verifyLine q p).cmd = "verify"), hr]
  have hargs : (verifyLine q p).args = [p] := rfl
  unfold rpRun RpCli.run
  rw [RpCli.callOf_verify _ _ _ _ hw rfl hh]
  simp only [RpCli.verifyCall, hargs, hps, hpr, Verify.cliVerify, Bool.not_false, if_true]
  cases he : Verify.readEndorsement K.RW.P.vp (rpEnv w now).backend p with
  | error c => simp [Verify.reject, RpCli.Env.backend, rpEnv] at he ⊢; simp [he]
  | ok e =>
    cases hrt : Verify.rootOfTrust K.RW.P.vp (rpEnv w now).backend q with
    | error c => simp [Verify.reject, RpCli.Env.backend, rpEnv] at he hrt ⊢; simp [he, hrt]
    | ok rot => simp [RpCli.exec, RpCli.Env.backend, rpEnv] at he hrt ⊢; simp [he, hrt]

/-- What an accepted `endorse` on a world whose key state satisfies the invariants leaves behind, and that
    `verify --root_cert q p` exits 0 on ANY later world that still has the written file at `p` and a copy of the
    root object of that moment at `q`. -/
theorem endorse_then_verify (K : Kit Cert Roots R Q) (hA : Agree K) (w : World)
    (hi : Inv K.W.cfg w.keys) (hb : Bound w.keys) (hroot : RootInv K.W.cfg w.keys.ca)
    (KE : KeyCli.Env) (wf : KeyCli.CliFlags) (E : EndorseEnv) (fl : EndorseCli.CliFlags)
    (hres : (endorseRun K w KE wf E fl).result = .ok ())
    (hmo : fl.measurementOnly = false) (hdry : fl.dryRun = false) (hsnap : fl.snapshotDir = "")
    (hprov : fl.clspec ≠ 0) :
    ∃ p content rt c, endorseWrites K w KE wf E fl = some (p, content) ∧
      bundle K.W.cfg w.keys.ca = some rt ∧ certificate w.keys.ca w.keys.ca.primarySigning = some c ∧
      RootProfile rt ∧ SignProfile c ∧ IssuedBy rt c ∧
      ∀ (w' : World) (q : String) (now : Nat), q ≠ "" → w'.read p = some content →
        w'.read q = some (K.C.rootPem rt) → validAt rt now → validAt c now →
        (step K w' (.rp now (verifyLine q p))).2 = "ok" := by
  obtain ⟨r, g, c, rt, k, hctx, hgm, hc, hrt, hk, hcl, _, hw⟩ := endorse_ok K w KE wf E fl hres hmo hdry hsnap
  -- the certificate of the primary is recorded, has the signing profile and is issued by the served root
  have hgood : Good K.W.cfg w.keys.ca c := by
    unfold certificate at hc
    cases he : KeyHistory.get w.keys.ca.entries w.keys.ca.primarySigning with
    | none => simp [he] at hc
    | some pth =>
      simp only [he] at hc
      exact hi.1.good _ pth c he hi.1.ps_ne_root hc
  obtain ⟨hsp, rt', hrt', hiss⟩ := hgood
  rw [hrt] at hrt'
  cases hrt'
  have hrp : RootProfile rt := RootInv_bundle hroot hrt
  -- the key the key directory holds for the primary is the certified one
  have hkey : c.subjectKey = k := by
    unfold certificate at hc
    cases he : KeyHistory.get w.keys.ca.entries w.keys.ca.primarySigning with
    | none => simp [he] at hc
    | some pth =>
      simp only [he] at hc
      exact hb _ pth c k he hc hk hi.1.ps_ne_root
  subst hkey
  refine ⟨_, _, rt, c, hw, hrt, hc, hrp, hsp, hiss, ?_⟩
  intro w' q now hq hp hr hvr hvc
  have hgc : g.clSpec = r.ctx.clSpec := by
    unfold Endorse.goldenMeasurement at hgm
    split at hgm
    · cases hgm
    · cases h1 : Endorse.snpPart K.Pr K.T r.ctx with
      | err e => simp [h1] at hgm
      | panic x => simp [h1] at hgm
      | ok sp =>
        cases h2 : Endorse.tdxPart K.Pr K.T r.ctx with
        | err e => simp [h1, h2] at hgm
        | panic x => simp [h1, h2] at hgm
        | ok tp => simp only [h1, h2, Outcome.ok.injEq] at hgm; rw [← hgm]
  have hv := verify_written hA w'.read now rt c (docOf K.C g c rt r.ts) (outPathOf r.fl.cfg) q hq
  simp only [step, rp_verify_eq]
  rw [hv]
  · rfl
  · exact hp
  · exact hr
  · rfl
  · rfl
  · left; show g.clSpec ≠ 0; rw [hgc, hcl]; exact hprov
  · exact hrp
  · exact hsp
  · exact hiss
  · exact hvr
  · exact hvc

/-! ## `sev validate` / `tdx validate` on what `endorse` wrote -/

/-- verify.EndorsementProto up to the signature check on what `endorse` stored: the decoded document. -/
theorem verifySigned_written {K : Kit Cert Roots R Q} (hA : Agree K) (now : Nat)
    (r c : KeyHistory.Cert) (d : Endorse.Golden) (o : Verify.Options Roots Nat)
    (hro : o.roots = some (K.RW.P.poolOf [K.C.certOf r])) (hno : o.now = now)
    (hcert : d.cert = K.C.certDer c) (hts : d.timestamp.isSome = true) (hprov : HasProvenance d)
    (hroot : RootProfile r) (hsign : SignProfile c) (hiss : IssuedBy r c)
    (hvr : validAt r now) (hvc : validAt c now) :
    Verify.verifySigned K.RW.P.vp ⟨K.C.marshalGolden d, K.C.signPss c.subjectKey (K.C.marshalGolden d)⟩ o =
      .ok (viewGolden d) := by
  have hprov' : ∀ x : Bool, (x && d.clSpec == 0 && d.commit.isEmpty) = false := by
    intro x
    rcases hprov with h | h
    · simp [h]
    · cases hc : d.commit with
      | nil => exact absurd hc h
      | cons a t => simp
  obtain ⟨ts, hts'⟩ := Option.isSome_iff_exists.mp hts
  simp only [Verify.verifySigned, RpCli.Prims.vp, hA.golden_rt, Verify.beforeSignature, Verify.checkProvenance,
    viewGolden, hts', Option.map_some, hprov', Bool.false_eq_true, if_false, Verify.checkCertificate, hcert,
    hA.der_nonempty, hro, hno, hA.der_parse, hA.chain_ok r c now hroot hsign hiss hvr hvc, if_true, hA.sig_ok,
    Bool.not_true]

def sevLine (s p q a : String) : RpCli.CmdLine :=
  ⟨"sev validate", [("launch_vmsas", s), ("endorsement", p), ("root_cert", q)], [a]⟩

theorem sev_validate_written {K : Kit Cert Roots R Q} (hA : Agree K) (w : World) (now : Nat)
    (r c : KeyHistory.Cert) (d : Endorse.Golden) (s p q a : String) (n : Nat) (hq : q ≠ "") (hpne : p ≠ "")
    (hs : K.RW.L.parseUint s = some n) (hn : n < 2 ^ 32)
    (hp : w.read p = some (stored K.C c d)) (hr : w.read q = some (K.C.rootPem r))
    (content : Bytes) (sa : Verify.Attestation) (ha : w.read a = some content)
    (hpa : K.RW.P.parseAttestation content = some (.sevSnp sa)) (hlen : sa.measurement.length = 48)
    (vopts : Nat)
    (hpol : K.RW.P.v.sevPolicyOptions ⟨K.C.marshalGolden d, K.C.signPss c.subjectKey (K.C.marshalGolden d)⟩ n false
      (K.RW.tagS none) = some vopts)
    (hbase : K.RW.P.v.snpBaseChecks sa.tag vopts = true)
    (hlisted : Verify.snp (viewGolden d) ⟨some sa.measurement, n⟩ = none)
    (hcert : d.cert = K.C.certDer c) (hts : d.timestamp.isSome = true) (hprov : HasProvenance d)
    (hroot : RootProfile r) (hsign : SignProfile c) (hiss : IssuedBy r c)
    (hvr : validAt r now) (hvc : validAt c now) :
    (rpRun K w now (sevLine s p q a)).result = Verify.accept := by
  have hne : (q != "") = true := by simp [hq]
  have hpne' : (p != "") = true := by simp [hpne]
  have hpool : RpCli.loadRootPool K.RW.P (K.C.rootPem r) = some (K.RW.P.poolOf [K.C.certOf r]) := by
    simp [RpCli.loadRootPool, hA.pem_root]
  have hcmd : (sevLine s p q a).cmd = "sev validate" := rfl
  have hw : RpCli.wellFormed K.RW.L (sevLine s p q a) = true := by
    have h1 : RpCli.isCommand "sev validate" = true := by decide
    have h2 : RpCli.kindOf "sev validate" "launch_vmsas" = some "Uint32" := by decide
    have h3 : RpCli.kindOf "sev validate" "endorsement" = some "String" := by decide
    have h4 : RpCli.kindOf "sev validate" "root_cert" = some "String" := by decide
    simp [RpCli.wellFormed, sevLine, RpCli.flagOk, h1, h2, h3, h4, hs, hn]
  have e1 : ("launch_vmsas" == "help") = false := by decide
  have e2 : ("endorsement" == "help") = false := by decide
  have e3 : ("root_cert" == "help") = false := by decide
  have hh : RpCli.helpFlag (sevLine s p q a) = false := by
    simp [RpCli.helpFlag, sevLine, RpCli.lastOf, RpCli.optBool, e1, e2, e3]
  have hv : (RpCli.parsed K.RW.L (sevLine s p q a)).sevLaunchVmsas = n := by
    rw [RpCli.parsed_sevLaunchVmsas _ _ (Or.inl hcmd)]
    have : ("endorsement" == "launch_vmsas") = false := by decide
    have : ("root_cert" == "launch_vmsas") = false := by decide
    simp [RpCli.namedVmsas, sevLine, RpCli.lastOf, hs, *]
  have hrt : (RpCli.parsed K.RW.L (sevLine s p q a)).sevValidateRoot = q := by
    rw [RpCli.parsed_sevValidateRoot _ _ hcmd]
    simp [RpCli.namedRoot, sevLine, RpCli.lastOf]
  obtain ⟨r1, r2, r3⟩ := RpCli.parsed_sevValidate_rest K.RW.L (sevLine s p q a) hcmd
  have hep : (RpCli.parsed K.RW.L (sevLine s p q a)).sevValidateEndorsementPath = p := by
    rw [r1]
    have : ("root_cert" == "endorsement") = false := by decide
    simp [RpCli.namedEndorsementPath, sevLine, RpCli.lastOf, this]
  have hfg : (RpCli.parsed K.RW.L (sevLine s p q a)).sevValidateTestonlyForceGCS = false := by
    rw [r2]
    have : ("launch_vmsas" == "testonly_force_gcs") = false := by decide
    have : ("endorsement" == "testonly_force_gcs") = false := by decide
    have : ("root_cert" == "testonly_force_gcs") = false := by decide
    simp [RpCli.namedForceGCS, sevLine, RpCli.lastOf, RpCli.optBool, *]
  have hbs : (RpCli.parsed K.RW.L (sevLine s p q a)).sevBase = "" := by
    rw [r3]
    have : ("launch_vmsas" == "base") = false := by decide
    have : ("endorsement" == "base") = false := by decide
    have : ("root_cert" == "base") = false := by decide
    simp [RpCli.namedBase, sevLine, RpCli.lastOf, *]
  have hov : (RpCli.parsed K.RW.L (sevLine s p q a)).sevOverwrite = false := by
    rw [RpCli.parsed_sevOverwrite _ _ (Or.inl hcmd)]
    have : ("launch_vmsas" == "overwrite") = false := by decide
    have : ("endorsement" == "overwrite") = false := by decide
    have : ("root_cert" == "overwrite") = false := by decide
    simp [RpCli.namedOverwrite, sevLine, RpCli.lastOf, RpCli.optBool, *]
  have hargs : (sevLine s p q a).args = [a] := rfl
  have hvs := verifySigned_written hA now r c d
    { snp := some ⟨some sa.measurement, n⟩, roots := some (K.RW.P.poolOf [K.C.certOf r]), expectedUefiSha384 := [],
      now := now, endorsement := some ⟨K.C.marshalGolden d, K.C.signPss c.subjectKey (K.C.marshalGolden d)⟩,
      getter := none } rfl rfl hcert hts hprov hroot hsign hiss hvr hvc
  unfold rpRun RpCli.run
  rw [RpCli.callOf_sevValidate _ _ _ _ hw hcmd hh]
  simp only [RpCli.sevValidateCall, RpCli.sevBase, hbs, hargs, rpEnv, ha, hep, hrt, hv, hov, hfg,
    Verify.cliEndorsement, hpne', if_true, Verify.readEndorsement, RpCli.Env.backend, hp, stored, RpCli.Prims.vp,
    hA.endorsement_rt, Verify.rootOfTrust, hne, hr, hpool, bne_self_eq_false, Bool.false_eq_true, if_false]
  simp only [RpCli.exec, RpCli.Prims.vp, hpa, Verify.sevValidate, RpCli.SevValidateOptions.toVerify, Verify.sevEndorsement, hpol,
    Option.map_some, Option.getD_some, hbase, Bool.not_true, Bool.false_eq_true, if_false, Verify.certTableOptions,
    Verify.snpClosure, hlen, Verify.measurementSize, bne_self_eq_false, Verify.closureSerialized,
    Verify.sevClosureOpts, Option.isNone_some, Bool.and_false, Verify.closureCallOpts, Option.getD_some,
    Verify.endorsementProto]
  simp only [RpCli.Prims.vp] at hvs
  rw [hvs]
  simp [Verify.afterSignature, hlisted]

def tdxLine (s p q a : String) : RpCli.CmdLine :=
  ⟨"tdx validate", [("ram_gib", s), ("endorsement", p), ("root_cert", q)], [a]⟩

theorem tdx_validate_written {K : Kit Cert Roots R Q} (hA : Agree K) (w : World) (now : Nat)
    (r c : KeyHistory.Cert) (d : Endorse.Golden) (s p q a : String) (g : Int) (hq : q ≠ "") (hpne : p ≠ "")
    (hs : K.RW.L.parseInt s = some g) (hg1 : -(2 ^ 63 : Int) ≤ g) (hg2 : g < 2 ^ 63)
    (hp : w.read p = some (stored K.C c d)) (hr : w.read q = some (K.C.rootPem r))
    (content : Bytes) (qt : Nat) (ha : w.read a = some content)
    (hpa : K.RW.P.parseAttestation content = some (.tdx qt))
    (vopts : Nat)
    (hpol : K.RW.P.v.tdxPolicyOptions ⟨K.C.marshalGolden d, K.C.signPss c.subjectKey (K.C.marshalGolden d)⟩
      (RpCli.ramTag g) false (K.RW.tagT none) = some vopts)
    (hquote : K.RW.P.v.tdxQuoteChecks qt vopts = true)
    (hcert : d.cert = K.C.certDer c) (hts : d.timestamp.isSome = true) (hprov : HasProvenance d)
    (hroot : RootProfile r) (hsign : SignProfile c) (hiss : IssuedBy r c)
    (hvr : validAt r now) (hvc : validAt c now) :
    (rpRun K w now (tdxLine s p q a)).result = Verify.accept := by
  have hne : (q != "") = true := by simp [hq]
  have hpne' : (p != "") = true := by simp [hpne]
  have hpool : RpCli.loadRootPool K.RW.P (K.C.rootPem r) = some (K.RW.P.poolOf [K.C.certOf r]) := by
    simp [RpCli.loadRootPool, hA.pem_root]
  have hcmd : (tdxLine s p q a).cmd = "tdx validate" := rfl
  have hw : RpCli.wellFormed K.RW.L (tdxLine s p q a) = true := by
    have h1 : RpCli.isCommand "tdx validate" = true := by decide
    have h2 : RpCli.kindOf "tdx validate" "ram_gib" = some "Int" := by decide
    have h3 : RpCli.kindOf "tdx validate" "endorsement" = some "String" := by decide
    have h4 : RpCli.kindOf "tdx validate" "root_cert" = some "String" := by decide
    simp [RpCli.wellFormed, tdxLine, RpCli.flagOk, h1, h2, h3, h4, hs]
    constructor <;> omega
  have e1 : ("ram_gib" == "help") = false := by decide
  have e2 : ("endorsement" == "help") = false := by decide
  have e3 : ("root_cert" == "help") = false := by decide
  have hh : RpCli.helpFlag (tdxLine s p q a) = false := by
    simp [RpCli.helpFlag, tdxLine, RpCli.lastOf, RpCli.optBool, e1, e2, e3]
  have hv : (RpCli.parsed K.RW.L (tdxLine s p q a)).tdxRamGiB = g := by
    rw [RpCli.parsed_tdxRamGiB _ _ (Or.inl hcmd)]
    have : ("endorsement" == "ram_gib") = false := by decide
    have : ("root_cert" == "ram_gib") = false := by decide
    simp [RpCli.namedRamGiB, tdxLine, RpCli.lastOf, hs, *]
  have hrt : (RpCli.parsed K.RW.L (tdxLine s p q a)).tdxValidateRoot = q := by
    rw [RpCli.parsed_tdxValidateRoot _ _ hcmd]
    simp [RpCli.namedRoot, tdxLine, RpCli.lastOf]
  obtain ⟨r1, r3⟩ := RpCli.parsed_tdxValidate_rest K.RW.L (tdxLine s p q a) hcmd
  have hep : (RpCli.parsed K.RW.L (tdxLine s p q a)).tdxValidateEndorsementPath = p := by
    rw [r1]
    have : ("root_cert" == "endorsement") = false := by decide
    simp [RpCli.namedEndorsementPath, tdxLine, RpCli.lastOf, this]
  have hbs : (RpCli.parsed K.RW.L (tdxLine s p q a)).tdxBase = "" := by
    rw [r3]
    have : ("ram_gib" == "base") = false := by decide
    have : ("endorsement" == "base") = false := by decide
    have : ("root_cert" == "base") = false := by decide
    simp [RpCli.namedBase, tdxLine, RpCli.lastOf, *]
  have hov : (RpCli.parsed K.RW.L (tdxLine s p q a)).tdxOverwrite = false := by
    rw [RpCli.parsed_tdxOverwrite _ _ (Or.inl hcmd)]
    have : ("ram_gib" == "overwrite") = false := by decide
    have : ("endorsement" == "overwrite") = false := by decide
    have : ("root_cert" == "overwrite") = false := by decide
    simp [RpCli.namedOverwrite, tdxLine, RpCli.lastOf, RpCli.optBool, *]
  have hargs : (tdxLine s p q a).args = [a] := rfl
  have hvs := verifySigned_written hA now r c d
    { snp := none, roots := some (K.RW.P.poolOf [K.C.certOf r]), expectedUefiSha384 := [],
      now := now, endorsement := none, getter := none } rfl rfl hcert hts hprov hroot hsign hiss hvr hvc
  unfold rpRun RpCli.run
  rw [RpCli.callOf_tdxValidate _ _ _ _ hw hcmd hh]
  simp only [RpCli.tdxValidateCall, RpCli.tdxBase, hbs, hargs, rpEnv, ha, hep, hrt, hv, hov,
    Verify.cliEndorsement, hpne', if_true, Verify.readEndorsement, RpCli.Env.backend, hp, stored, RpCli.Prims.vp,
    hA.endorsement_rt, Verify.rootOfTrust, hne, hr, hpool, bne_self_eq_false, Bool.false_eq_true, if_false]
  simp only [RpCli.exec, RpCli.Prims.vp, Verify.tdxValidate, hpa, RpCli.TdxValidateOptions.toVerify,
    Verify.tdxEndorsement, Verify.tdxVerifyOpts, Verify.endorsementProto]
  simp only [RpCli.Prims.vp] at hvs
  rw [hvs]
  simp [Verify.afterSignature, hpol, hquote]

/-- the measurement the written document lists for `n` launch VMSAs is accepted by verify.SNP for `n` -/
theorem snp_listed (d : Endorse.Golden) (sd : Endorse.SnpDoc) (n : Nat) (m : Bytes) (hd : d.snp = some sd) (hn : n ≠ 0)
    (hl : Verify.lookupNat sd.measurements n = some m) :
    Verify.snp (viewGolden d) ⟨some m, n⟩ = none := by
  have hne : sd.measurements.isEmpty = false := by
    cases hq : sd.measurements with
    | nil => rw [hq] at hl; simp [Verify.lookupNat] at hl
    | cons _ _ => rfl
  have hn' : (n != 0) = true := by simp [hn]
  simp only [Verify.snp, viewGolden, hd, Option.map_some, hn', if_true, hne, Bool.false_eq_true, if_false, hl,
    Option.getD_some]
  split
  · rfl
  · simp

/-- Everything the later steps need to know about what an accepted `endorse` wrote. -/
theorem endorse_facts (K : Kit Cert Roots R Q) (w : World)
    (hi : Inv K.W.cfg w.keys) (hb : Bound w.keys) (hroot : RootInv K.W.cfg w.keys.ca)
    (KE : KeyCli.Env) (wf : KeyCli.CliFlags) (E : EndorseEnv) (fl : EndorseCli.CliFlags)
    (hres : (endorseRun K w KE wf E fl).result = .ok ())
    (hmo : fl.measurementOnly = false) (hdry : fl.dryRun = false) (hsnap : fl.snapshotDir = "")
    (hprov : fl.clspec ≠ 0) :
    ∃ p rt c d, endorseWrites K w KE wf E fl = some (p, stored K.C c d) ∧
      bundle K.W.cfg w.keys.ca = some rt ∧ certificate w.keys.ca w.keys.ca.primarySigning = some c ∧
      RootProfile rt ∧ SignProfile c ∧ IssuedBy rt c ∧
      d.cert = K.C.certDer c ∧ d.timestamp.isSome = true ∧ HasProvenance d ∧
      ∃ r g, EndorseCli.contextOf K.EP K.Pr.parseUuid (endorseEnvOf K w KE wf E) fl = .ok r ∧
        Endorse.goldenMeasurement K.Pr K.T r.ctx = .ok g ∧ d = docOf K.C g c rt r.ts := by
  obtain ⟨r, g, c, rt, k, hctx, hgm, hc, hrt, hk, hcl, _, hw⟩ := endorse_ok K w KE wf E fl hres hmo hdry hsnap
  have hent : ∃ pth, KeyHistory.get w.keys.ca.entries w.keys.ca.primarySigning = some pth ∧
      KeyHistory.get w.keys.ca.objects pth = some c := by
    unfold certificate at hc
    cases he : KeyHistory.get w.keys.ca.entries w.keys.ca.primarySigning with
    | none => simp [he] at hc
    | some pth => simp only [he] at hc; exact ⟨pth, rfl, hc⟩
  obtain ⟨pth, he, ho⟩ := hent
  obtain ⟨hsp, rt', hrt', hiss⟩ := hi.1.good _ pth c he hi.1.ps_ne_root ho
  rw [hrt] at hrt'
  cases hrt'
  have hkey : c.subjectKey = k := hb _ pth c k he ho hk hi.1.ps_ne_root
  subst hkey
  have hgc : g.clSpec = r.ctx.clSpec := by
    unfold Endorse.goldenMeasurement at hgm
    split at hgm
    · cases hgm
    · cases h1 : Endorse.snpPart K.Pr K.T r.ctx with
      | err e => simp [h1] at hgm
      | panic x => simp [h1] at hgm
      | ok sp =>
        cases h2 : Endorse.tdxPart K.Pr K.T r.ctx with
        | err e => simp [h1, h2] at hgm
        | panic x => simp [h1, h2] at hgm
        | ok tp => simp only [h1, h2, Outcome.ok.injEq] at hgm; rw [← hgm]
  refine ⟨_, rt, c, docOf K.C g c rt r.ts, hw, hrt, hc, RootInv_bundle hroot hrt, hsp, hiss, rfl, rfl, ?_,
    r, g, hctx, hgm, rfl⟩
  left; show g.clSpec ≠ 0; rw [hgc, hcl]; exact hprov

section
open GceTcb.Policy

/-- `C03_every_listed_mrtd_accepted` for every policy type: the policy derived for a row's RAM size admits the row's
    MRTD (well-formed tables: 48-byte MRTDs). -/
theorem listed_mrtd_accepted {Q R : Type} (eq : Q) (er : R) (rows : List Policy.TdxRow)
    (hwf : ∀ x ∈ rows, x.mrtd.length = mrTdSize) (row : Policy.TdxRow) (hmem : row ∈ rows) (hram : row.ramGib < 4294967296) :
    tdxValidateMeasurement eq er (some rows) row.mrtd (none : Option (Policy.TdxPolicy Q R)) false (row.ramGib : Int) true = true := by
  have hu : u32 (row.ramGib : Int) = row.ramGib := by
    unfold u32
    have : ((row.ramGib : Int) % 4294967296) = (row.ramGib : Int) := by
      apply Int.emod_eq_of_lt <;> omega
    rw [this]; simp
  unfold tdxValidateMeasurement tdxPolicy
  simp only [hu]
  have hsel : row ∈ rows.filter (fun m => ((row.ramGib : Int) == 0 || m.ramGib == row.ramGib)) := by
    apply List.mem_filter.mpr
    exact ⟨hmem, by simp⟩
  have hany : (rows.filter (fun m => ((row.ramGib : Int) == 0 || m.ramGib == row.ramGib))).any
      (fun m => decide (m.mrtd.length ≠ mrTdSize)) = false := by
    simp only [List.any_eq_false, decide_eq_true_eq, ne_eq, Decidable.not_not]
    intro x hx
    exact hwf x (List.mem_filter.mp hx).1
  have hne : (rows.filter (fun m => ((row.ramGib : Int) == 0 || m.ramGib == row.ramGib))).isEmpty = false := by
    cases hq : rows.filter (fun m => ((row.ramGib : Int) == 0 || m.ramGib == row.ramGib)) with
    | nil => rw [hq] at hsel; cases hsel
    | cons _ _ => rfl
  simp only [hany, Bool.false_eq_true, if_false, hne, Option.getD_none, modifyTdxPolicy,
    Option.map_some, Option.getD_some, Bool.true_and, Bool.and_eq_true]
  constructor
  · simp only [lengthCheckMany, List.all_eq_true, List.mem_map, Bool.or_eq_true, decide_eq_true_eq]
    rintro v ⟨x, hx, rfl⟩
    right; exact hwf x (List.mem_filter.mp hx).1
  · unfold byteCheckAny
    have hne2 : ((rows.filter (fun m => ((row.ramGib : Int) == 0 || m.ramGib == row.ramGib))).map (·.mrtd)).isEmpty = false := by
      cases hq : rows.filter (fun m => ((row.ramGib : Int) == 0 || m.ramGib == row.ramGib)) with
      | nil => rw [hq] at hsel; cases hsel
      | cons _ _ => rfl
    simp only [hne2, Bool.false_eq_true, if_false, List.any_eq_true]
    refine ⟨row.mrtd, List.mem_map_of_mem hsel, ?_⟩
    unfold byteCheck
    have h48 := hwf row hmem
    have h0 : ¬ (row.mrtd.length = 0) := by rw [h48]; decide
    simp [h0, h48]
/-- the library call `tdx validate --ram_gib s --endorsement p --root_cert q a` amounts to on a world holding what
    `endorse` stored at `p`, the root object at `q` and an attestation at `a` -/
theorem tdx_call_written {K : Kit Cert Roots R Q} (hA : Agree K) (w : World) (now : Nat)
    (r c : KeyHistory.Cert) (d : Endorse.Golden) (s p q a : String) (g : Int) (hq : q ≠ "") (hpne : p ≠ "")
    (hs : K.RW.L.parseInt s = some g) (hg1 : -(2 ^ 63 : Int) ≤ g) (hg2 : g < 2 ^ 63)
    (hp : w.read p = some (stored K.C c d)) (hr : w.read q = some (K.C.rootPem r))
    (content : Bytes) (ha : w.read a = some content) :
    RpCli.callOf K.RW.P K.RW.L (rpEnv w now) (tdxLine s p q a) =
      .ok (.tdxValidate content
        { endorsement := some ⟨K.C.marshalGolden d, K.C.signPss c.subjectKey (K.C.marshalGolden d)⟩,
          basePolicy := none, overwrite := false, roots := some (K.RW.P.poolOf [K.C.certOf r]), now := now,
          getter := none, expectedRAMGiB := g }) := by
  have hne : (q != "") = true := by simp [hq]
  have hpne' : (p != "") = true := by simp [hpne]
  have hpool : RpCli.loadRootPool K.RW.P (K.C.rootPem r) = some (K.RW.P.poolOf [K.C.certOf r]) := by
    simp [RpCli.loadRootPool, hA.pem_root]
  have hcmd : (tdxLine s p q a).cmd = "tdx validate" := rfl
  have hw : RpCli.wellFormed K.RW.L (tdxLine s p q a) = true := by
    have h1 : RpCli.isCommand "tdx validate" = true := by decide
    have h2 : RpCli.kindOf "tdx validate" "ram_gib" = some "Int" := by decide
    have h3 : RpCli.kindOf "tdx validate" "endorsement" = some "String" := by decide
    have h4 : RpCli.kindOf "tdx validate" "root_cert" = some "String" := by decide
    simp [RpCli.wellFormed, tdxLine, RpCli.flagOk, h1, h2, h3, h4, hs]
    constructor <;> omega
  have e1 : ("ram_gib" == "help") = false := by decide
  have e2 : ("endorsement" == "help") = false := by decide
  have e3 : ("root_cert" == "help") = false := by decide
  have hh : RpCli.helpFlag (tdxLine s p q a) = false := by
    simp [RpCli.helpFlag, tdxLine, RpCli.lastOf, RpCli.optBool, e1, e2, e3]
  have hv : (RpCli.parsed K.RW.L (tdxLine s p q a)).tdxRamGiB = g := by
    rw [RpCli.parsed_tdxRamGiB _ _ (Or.inl hcmd)]
    have : ("endorsement" == "ram_gib") = false := by decide
    have : ("root_cert" == "ram_gib") = false := by decide
    simp [RpCli.namedRamGiB, tdxLine, RpCli.lastOf, hs, *]
  have hrt : (RpCli.parsed K.RW.L (tdxLine s p q a)).tdxValidateRoot = q := by
    rw [RpCli.parsed_tdxValidateRoot _ _ hcmd]
    simp [RpCli.namedRoot, tdxLine, RpCli.lastOf]
  obtain ⟨r1, r3⟩ := RpCli.parsed_tdxValidate_rest K.RW.L (tdxLine s p q a) hcmd
  have hep : (RpCli.parsed K.RW.L (tdxLine s p q a)).tdxValidateEndorsementPath = p := by
    rw [r1]
    have : ("root_cert" == "endorsement") = false := by decide
    simp [RpCli.namedEndorsementPath, tdxLine, RpCli.lastOf, this]
  have hbs : (RpCli.parsed K.RW.L (tdxLine s p q a)).tdxBase = "" := by
    rw [r3]
    have : ("ram_gib" == "base") = false := by decide
    have : ("endorsement" == "base") = false := by decide
    have : ("root_cert" == "base") = false := by decide
    simp [RpCli.namedBase, tdxLine, RpCli.lastOf, *]
  have hov : (RpCli.parsed K.RW.L (tdxLine s p q a)).tdxOverwrite = false := by
    rw [RpCli.parsed_tdxOverwrite _ _ (Or.inl hcmd)]
    have : ("ram_gib" == "overwrite") = false := by decide
    have : ("endorsement" == "overwrite") = false := by decide
    have : ("root_cert" == "overwrite") = false := by decide
    simp [RpCli.namedOverwrite, tdxLine, RpCli.lastOf, RpCli.optBool, *]
  have hargs : (tdxLine s p q a).args = [a] := rfl
  rw [RpCli.callOf_tdxValidate _ _ _ _ hw hcmd hh]
  simp only [RpCli.tdxValidateCall, RpCli.tdxBase, hbs, hargs, rpEnv, ha, hep, hrt, hv, hov,
    Verify.cliEndorsement, hpne', if_true, Verify.readEndorsement, RpCli.Env.backend, hp, stored, RpCli.Prims.vp,
    hA.endorsement_rt, Verify.rootOfTrust, hne, hr, hpool, bne_self_eq_false, Bool.false_eq_true, if_false]

/-- the measurement reading (Model/Policy.lean) of the same command line: a quote carrying the MRTD of a row the
    written document lists for the RAM size named is accepted -/
theorem tdx_measure_written {K : Kit Cert Roots R Q} (hA : Agree K) (M : RpCli.MeasurePrims) (w : World) (now : Nat)
    (r c : KeyHistory.Cert) (d : Endorse.Golden) (s p q a : String) (hq : q ≠ "") (hpne : p ≠ "")
    (rows : List Policy.TdxRow) (row : Policy.TdxRow)
    (hs : K.RW.L.parseInt s = some (row.ramGib : Int)) (hram : row.ramGib < 4294967296)
    (hp : w.read p = some (stored K.C c d)) (hr : w.read q = some (K.C.rootPem r))
    (content : Bytes) (ha : w.read a = some content)
    (hm : M.quoteMrtd content = some row.mrtd)
    (hrows : K.RW.G.goldenTdx ⟨K.C.marshalGolden d, K.C.signPss c.subjectKey (K.C.marshalGolden d)⟩ = some (some rows))
    (hwf : ∀ x ∈ rows, x.mrtd.length = mrTdSize) (hmem : row ∈ rows)
    (hother : M.otherChecks content ⟨K.C.marshalGolden d, K.C.signPss c.subjectKey (K.C.marshalGolden d)⟩ = true) :
    RpCli.measure K.RW M (rpEnv w now) (tdxLine s p q a) = true := by
  unfold RpCli.measure
  rw [tdx_call_written hA w now r c d s p q a row.ramGib hq hpne hs (by omega) (by omega) hp hr content ha]
  simp only [RpCli.measureCall, RpCli.measureTdx, hm, hrows, hother]
  exact listed_mrtd_accepted _ _ rows hwf row hmem hram

end

end GceTcb.ToolChain
