import GceTcb.Model.PathAccess
import GceTcb.Proofs.PathScan
/-
Helper lemmas for C19: the typing judgement of parsed paths (`PathOK`), soundness of the parser with
respect to it, absence of panics in the parser, and the simulation between the descriptor-tracking
evaluator `evalFrom` (access.go) and the specification `walkFrom` on well-typed values.
-/
namespace GceTcb.Path
open GceTcb

/-! ### schema facts -/

def Linked (sch : Schema) (md : MsgDesc) : Prop := lookupMsg sch md.name = some md

def DescLinked (sch : Schema) : Desc → Prop
  | .msg md => Linked sch md
  | _ => True

theorem lookupMsg_some {sch : Schema} {n : Str} {md : MsgDesc} (h : lookupMsg sch n = some md) :
    md.name = n ∧ md ∈ sch := by
  unfold lookupMsg at h
  have h1 := List.find?_some h
  have h2 := List.mem_of_find?_eq_some h
  simp only [beq_iff_eq] at h1
  exact ⟨h1, h2⟩

theorem lookupMsg_linked {sch : Schema} {n : Str} {md : MsgDesc} (h : lookupMsg sch n = some md) :
    Linked sch md := by
  have := (lookupMsg_some h).1
  unfold Linked
  rw [this]; exact h

theorem wf_of_linked {sch : Schema} (hwf : sch.wf = true) {md : MsgDesc} (h : Linked sch md) : md.wf = true := by
  have hm := (lookupMsg_some h).2
  unfold Schema.wf at hwf
  exact (List.all_eq_true.mp hwf) md hm

theorem find_of_nodup {α : Type} (f : α → Nat) : ∀ (l : List α) (x : α), (l.map f).Nodup → x ∈ l →
    l.find? (fun y => f y == f x) = some x := by
  intro l
  induction l with
  | nil => intro x _ h; simp at h
  | cons a l ih =>
    intro x hn hx
    simp only [List.map_cons, List.nodup_cons] at hn
    simp only [List.find?_cons]
    rcases List.mem_cons.mp hx with rfl | hx'
    · simp
    · have : f a ≠ f x := by
        intro he
        exact hn.1 (he ▸ List.mem_map.mpr ⟨x, hx', rfl⟩)
      have hb : (f a == f x) = false := by simpa using this
      rw [hb]
      exact ih x hn.2 hx'

theorem wf_byNumber {md : MsgDesc} (hwf : md.wf = true) {fd : Field} (hfd : fd ∈ md.fields) :
    md.byNumber fd.number = some fd := by
  unfold MsgDesc.wf at hwf
  simp only [Bool.and_eq_true, decide_eq_true_eq] at hwf
  exact find_of_nodup (·.number) md.fields fd hwf.1.1 hfd

theorem wf_parent {md : MsgDesc} (hwf : md.wf = true) {fd : Field} (hfd : fd ∈ md.fields) :
    fd.parent = md.name := by
  unfold MsgDesc.wf at hwf
  simp only [Bool.and_eq_true, decide_eq_true_eq] at hwf
  have := (List.all_eq_true.mp hwf.1.2) fd hfd
  simpa using this

theorem wf_mapKey {md : MsgDesc} (hwf : md.wf = true) {fd : Field} (hfd : fd ∈ md.fields) {kk : Kind}
    (hc : fd.card = .map kk) : ∃ kc, kk.cls = some kc := by
  unfold MsgDesc.wf at hwf
  simp only [Bool.and_eq_true, decide_eq_true_eq] at hwf
  have := (List.all_eq_true.mp hwf.2) fd hfd
  rw [hc] at this
  simp only at this
  exact Option.isSome_iff_exists.mp this

theorem isMessage_cls {k : Kind} (h : k.isMessage = true) : k.cls = none := by
  cases k <;> simp [Kind.isMessage] at h <;> rfl

theorem not_isMessage_cls {k : Kind} (h : k.isMessage = false) : ∃ c, k.cls = some c := by
  cases k <;> simp [Kind.isMessage] at h <;> exact ⟨_, rfl⟩

theorem resolveRef_ok {sch : Schema} {k : Kind} {r : Str} {d : Desc} (h : resolveRef sch k r = .ok d) :
    (k.isMessage = true ∧ ∃ md, d = .msg md ∧ lookupMsg sch r = some md) ∨ (k.isMessage = false ∧ d = .nil) := by
  unfold resolveRef at h
  split at h
  · rename_i hk
    split at h
    · rename_i md hm
      simp only [Outcome.ok.injEq] at h
      exact Or.inl ⟨hk, md, h.symm, hm⟩
    · simp at h
  · rename_i hk
    simp only [Outcome.ok.injEq] at h
    exact Or.inr ⟨by simpa using hk, h.symm⟩

theorem resolveRef_not_panic (sch : Schema) (k : Kind) (r : Str) : (resolveRef sch k r).isPanic = false := by
  unfold resolveRef
  split
  · split <;> rfl
  · rfl

theorem card_single_of {f : Field} (h1 : f.isMap = false) (h2 : f.isList = false) : f.card = .single := by
  cases hc : f.card with
  | single => rfl
  | list => simp [Field.isList, hc] at h2
  | map kk => simp [Field.isMap, hc] at h1

theorem isMap_of_card {f : Field} {kk : Kind} (h : f.card = .map kk) : f.isMap = true := by
  simp [Field.isMap, h]

theorem isList_of_card {f : Field} (h : f.card = .list) : f.isList = true ∧ f.isMap = false := by
  simp [Field.isMap, Field.isList, h]

theorem single_flags {f : Field} (h : f.card = .single) : f.isList = false ∧ f.isMap = false := by
  simp [Field.isMap, Field.isList, h]

/-! ### typing of parsed paths -/

/-- the message descriptor a field access is resolved against, from the current descriptor -/
inductive Target (sch : Schema) : Desc → MsgDesc → Prop
  | msg (md : MsgDesc) : Linked sch md → Target sch (.msg md) md
  | field (f : Field) (md : MsgDesc) : f.card = .single → f.message sch = .ok (.msg md) → Target sch (.field f) md

inductive StepOK (sch : Schema) : Desc → Step → Desc → Prop
  | field (d : Desc) (md : MsgDesc) (fd : Field) : Target sch d md → fd ∈ md.fields →
      StepOK sch d (.field fd) (.field fd)
  | list (fd : Field) (i : Int) (d' : Desc) : fd.card = .list → 0 ≤ i → fd.message sch = .ok d' →
      StepOK sch (.field fd) (.listIndex i) d'
  | map (fd : Field) (kk : Kind) (k : Scalar) (d' : Desc) : fd.card = .map kk → kk.cls = some k.cls →
      fd.mapValueMessage sch = .ok d' → StepOK sch (.field fd) (.mapIndex k) d'

inductive PathOK (sch : Schema) : Desc → List Step → Desc → Prop
  | nil (d : Desc) : PathOK sch d [] d
  | cons (d d1 d2 : Desc) (s : Step) (rest : List Step) : StepOK sch d s d1 → PathOK sch d1 rest d2 →
      PathOK sch d (s :: rest) d2

theorem PathOK.snoc {sch : Schema} {d d1 d2 : Desc} {steps : List Step} {s : Step}
    (h : PathOK sch d steps d1) (hs : StepOK sch d1 s d2) : PathOK sch d (steps ++ [s]) d2 := by
  induction h with
  | nil d => exact .cons _ _ _ _ _ hs (.nil _)
  | cons d da db s' rest hs' _ ih => exact .cons _ _ _ _ _ hs' (ih hs)

theorem target_linked {sch : Schema} {d : Desc} {md : MsgDesc} (h : Target sch d md) : Linked sch md := by
  cases h with
  | msg _ hl => exact hl
  | field f _ hc hm =>
    have := single_flags hc
    unfold Field.message at hm
    rw [this.2] at hm
    simp only [Bool.false_eq_true, if_false] at hm
    rcases resolveRef_ok hm with ⟨_, md', he, hl⟩ | ⟨_, he⟩
    · cases he; exact lookupMsg_linked hl
    · cases he

/-! ### parser soundness -/

theorem entry_byName {f : Field} {id : Str} {fd : Field} (h : (entryDesc f).byName id = some fd) :
    id = kKey ∨ id = kValue := by
  unfold MsgDesc.byName entryDesc at h
  simp only [List.find?_cons] at h
  by_cases h1 : (kKey == id) = true
  · left; exact (beq_iff_eq.mp h1).symm
  · by_cases h2 : (kValue == id) = true
    · right; exact (beq_iff_eq.mp h2).symm
    · simp [h1, h2] at h

theorem castKey_cls {l : Lit} {kk : Kind} {k : Scalar} (h : l.castKey kk = some k) : kk.cls = some k.cls := by
  cases l with
  | bool b =>
    simp only [Lit.castKey] at h
    split at h
    · rename_i hk; simp only [Option.some.injEq] at h; subst hk; rw [← h]; rfl
    · simp at h
  | str s =>
    simp only [Lit.castKey] at h
    split at h
    · rename_i hk; simp only [Option.some.injEq] at h; subst hk; rw [← h]; rfl
    · simp at h
  | num lit =>
    simp only [Lit.castKey] at h
    split at h
    all_goals first
      | (simp only [Option.map_eq_some_iff] at h; obtain ⟨v, _, hv⟩ := h; rw [← hv]; rfl)
      | simp at h

structure PInv (sch : Schema) (root : Str) (md0 : MsgDesc) (st : PSt) : Prop where
  path : ∃ steps, st.path = .root root :: steps ∧ PathOK sch (.msg md0) steps st.desc
  linked : DescLinked sch st.desc

theorem message_linked {sch : Schema} {f : Field} {d : Desc} (hm : f.isMap = false)
    (h : f.message sch = .ok d) : DescLinked sch d := by
  unfold Field.message at h
  rw [hm] at h
  simp only [Bool.false_eq_true, if_false] at h
  rcases resolveRef_ok h with ⟨_, md', he, hl⟩ | ⟨_, he⟩
  · subst he; exact lookupMsg_linked hl
  · subst he; trivial

theorem mapValueMessage_linked {sch : Schema} {f : Field} {d : Desc}
    (h : f.mapValueMessage sch = .ok d) : DescLinked sch d := by
  unfold Field.mapValueMessage at h
  split at h
  · rcases resolveRef_ok h with ⟨_, md', he, hl⟩ | ⟨_, he⟩
    · subst he; exact lookupMsg_linked hl
    · subst he; trivial
  · simp at h

theorem accessIdent_ok {sch : Schema} {st st' : PSt} {id : Str}
    (h : accessIdent .fixed sch st id = .ok st') (hl : DescLinked sch st.desc) :
    ∃ fd, StepOK sch st.desc (.field fd) (.field fd) ∧
      st' = { st with desc := .field fd, state := .needAccessor, path := st.path ++ [.field fd] } := by
  unfold accessIdent at h
  obtain ⟨m, hm, h2⟩ := bind_eq_ok h
  cases m with
  | nil => simp at h2
  | field _ => simp at h2
  | msg md =>
    simp only at h2
    cases hb : md.byName id with
    | none => rw [hb] at h2; simp at h2
    | some fd =>
      rw [hb] at h2
      simp only [Outcome.ok.injEq] at h2
      refine ⟨fd, ?_, h2.symm⟩
      have hmem : fd ∈ md.fields := List.mem_of_find?_eq_some hb
      cases hd : st.desc with
      | nil => rw [hd] at hm; simp at hm
      | msg md' =>
        rw [hd] at hm hl
        simp only [Outcome.ok.injEq, Desc.msg.injEq] at hm
        subst hm
        exact .field _ _ _ (.msg _ hl) hmem
      | field f =>
        rw [hd] at hm
        simp only [Variant.fixed, Bool.true_and] at hm
        split at hm
        · simp at hm
        · rename_i hc1
          split at hm
          · simp at hm
          · rename_i hc2
            have hlist : f.isList = false := by simpa using hc2
            have hmap : f.isMap = false := by
              cases hmp : f.isMap with
              | false => rfl
              | true =>
                exfalso
                unfold Field.message at hm
                rw [hmp] at hm
                simp only [if_true, Outcome.ok.injEq, Desc.msg.injEq] at hm
                subst hm
                rcases entry_byName hb with rfl | rfl
                · simp [hmp] at hc1
                · simp [hmp] at hc1
            exact .field _ _ _ (.field _ _ (card_single_of hmap hlist) hm) hmem

theorem accessValue_ok {sch : Schema} {st st' : PSt} {lit : Lit}
    (h : accessValue sch st lit = .ok st') :
    ∃ s d', StepOK sch st.desc s d' ∧ DescLinked sch d' ∧
      st' = { st with desc := d', state := .needIndexClose, path := st.path ++ [s] } := by
  unfold accessValue at h
  split at h
  · rename_i fd hd
    rw [hd]
    split at h
    · simp at h
    · split at h
      · rename_i hmap
        obtain ⟨kk, hkk, h2⟩ := bind_eq_ok h
        unfold Field.mapKeyKind at hkk
        split at hkk
        · rename_i kk' hcard
          simp only [Outcome.ok.injEq] at hkk
          subst hkk
          split at h2
          · simp at h2
          · rename_i mk hck
            obtain ⟨d, hdm, h3⟩ := bind_eq_ok h2
            simp only [Outcome.ok.injEq] at h3
            exact ⟨.mapIndex mk, d, .map _ _ _ _ hcard (castKey_cls hck) hdm, mapValueMessage_linked hdm, by
              rw [← h3]⟩
        · simp at hkk
      · rename_i hmap
        have hmap' : fd.isMap = false := by simpa using hmap
        split at h
        · simp at h
        · rename_i i hci
          split at h
          · simp at h
          · rename_i hneg
            obtain ⟨d, hdm, h3⟩ := bind_eq_ok h
            simp only [Outcome.ok.injEq] at h3
            have hrep : fd.isRepeated = true := by
              rename_i hr _; simpa using hr
            have hcard : fd.card = .list := by
              cases hc : fd.card with
              | single => simp [Field.isRepeated, Field.isMap, Field.isList, hc] at hrep
              | list => rfl
              | map kk => simp [Field.isMap, hc] at hmap'
            exact ⟨.listIndex i, d, .list _ _ _ hcard (by omega) hdm, message_linked hmap' hdm, by rw [← h3]⟩
  · simp at h

theorem pinv_extend {sch : Schema} {root : Str} {md0 : MsgDesc} {st : PSt} {s : Step} {d' : Desc} {ps : PState}
    (hi : PInv sch root md0 st) (hs : StepOK sch st.desc s d') (hl : DescLinked sch d') :
    PInv sch root md0 { st with desc := d', state := ps, path := st.path ++ [s] } := by
  obtain ⟨steps, hp, hok⟩ := hi.path
  exact ⟨⟨steps ++ [s], by simp [hp], hok.snoc hs⟩, hl⟩

theorem pinv_state {sch : Schema} {root : Str} {md0 : MsgDesc} {st : PSt} (ps : PState) (q : Str)
    (hi : PInv sch root md0 st) : PInv sch root md0 { st with state := ps, qname := q } :=
  ⟨hi.path, hi.linked⟩

theorem step_inv {sch : Schema} {root : Str} {md0 : MsgDesc} {st st' : PSt} {t : Token}
    (h : step .fixed sch root st t = .ok st') (hi : PInv sch root md0 st) : PInv sch root md0 st' := by
  have keepS : ∀ ps, PInv sch root md0 { st with state := ps } := fun ps => ⟨hi.path, hi.linked⟩
  have av : ∀ lit, accessValue sch st lit = .ok st' → PInv sch root md0 st' := by
    intro lit hav
    obtain ⟨s, d', hs, hl, he⟩ := accessValue_ok hav
    rw [he]; exact pinv_extend hi hs hl
  unfold step at h
  split at h
  · split at h
    · simp at h
    · simp only [Outcome.ok.injEq] at h; rw [← h]; exact keepS _
  · split at h
    · simp at h
    · split at h
      · simp at h
      · simp only [Outcome.ok.injEq] at h; rw [← h]; exact keepS _
  · split at h
    · simp at h
    · simp only [Outcome.ok.injEq] at h; rw [← h]; exact keepS _
  · split at h
    · simp at h
    · simp only [Outcome.ok.injEq] at h; rw [← h]; exact keepS _
  · unfold stepIdent at h
    split at h
    · simp only [Outcome.ok.injEq] at h; rw [← h]; exact ⟨hi.path, hi.linked⟩
    · split at h
      · obtain ⟨fd, hs, he⟩ := accessIdent_ok h hi.linked
        rw [he]; exact pinv_extend hi hs trivial
      · split at h
        · split at h
          · exact av _ h
          · split at h
            · exact av _ h
            · simp at h
        · simp at h
  · split at h
    · simp at h
    · exact av _ h
  · split at h
    · simp at h
    · exact av _ h
  · split at h
    · simp only [Outcome.ok.injEq] at h; rw [← h]; exact keepS _
    · simp only [Outcome.ok.injEq] at h; rw [← h]; exact keepS _
    · simp only [Outcome.ok.injEq] at h; rw [← h]; exact keepS _
    · simp at h
  · simp at h
  · simp at h

theorem parseLoop_sound {sch : Schema} {root : Str} {md0 : MsgDesc} (buf : Str) :
    ∀ (fuel pos : Nat) (st : PSt) (p : List Step), PInv sch root md0 st →
      parseLoop .fixed sch root buf fuel pos st = .ok p →
      ∃ steps d, p = .root root :: steps ∧ PathOK sch (.msg md0) steps d := by
  intro fuel
  induction fuel with
  | zero => intro pos st p _ h; simp [parseLoop] at h
  | succ fuel ih =>
    intro pos st p hi h
    unfold parseLoop at h
    obtain ⟨r, hr, h2⟩ := bind_eq_ok h
    split at h2
    · split at h2
      · simp only [Outcome.ok.injEq] at h2
        obtain ⟨steps, hp, hok⟩ := hi.path
        exact ⟨steps, st.desc, by rw [← h2, hp], hok⟩
      · simp at h2
    · obtain ⟨st', hs, h3⟩ := bind_eq_ok h2
      exact ih r.2 st' p (step_inv hs hi) h3

theorem parsePath_sound {sch : Schema} {root s : Str} {p : List Step} (h : parsePath sch root s = .ok p) :
    ∃ md steps d, lookupMsg sch root = some md ∧ p = .root root :: steps ∧ PathOK sch (.msg md) steps d := by
  unfold parsePath parsePathV at h
  split at h
  · simp at h
  · rename_i md hm
    have hi : PInv sch root md { state := .needRoot, path := [.root root], desc := .msg md, qname := [] } :=
      ⟨⟨[], rfl, .nil _⟩, lookupMsg_linked hm⟩
    obtain ⟨steps, d, hp, hok⟩ := parseLoop_sound s _ _ _ _ hi h
    exact ⟨md, steps, d, hm, hp, hok⟩

/-! ### the parser never panics -/

theorem bind_not_panic {α β : Type} {x : Outcome α} {f : α → Outcome β}
    (hx : x.isPanic = false) (hf : ∀ a, (f a).isPanic = false) : (x >>= f).isPanic = false := by
  cases x with
  | ok a => exact hf a
  | err c => rfl
  | panic s => simp [Outcome.isPanic] at hx

theorem message_not_panic (sch : Schema) (f : Field) : (f.message sch).isPanic = false := by
  unfold Field.message
  split
  · rfl
  · exact resolveRef_not_panic _ _ _

theorem accessIdent_not_panic (V : Variant) (sch : Schema) (st : PSt) (id : Str) :
    (accessIdent V sch st id).isPanic = false := by
  unfold accessIdent
  apply bind_not_panic
  · split
    · split
      · rfl
      · split
        · rfl
        · exact message_not_panic _ _
    · rfl
  · intro m
    split
    · split <;> rfl
    · rfl

theorem accessValue_not_panic (sch : Schema) (st : PSt) (lit : Lit) :
    (accessValue sch st lit).isPanic = false := by
  unfold accessValue
  split
  · rename_i fd _
    split
    · rfl
    · split
      · rename_i hmap
        cases hc : fd.card with
        | single => simp [Field.isMap, hc] at hmap
        | list => simp [Field.isMap, hc] at hmap
        | map kk =>
          simp only [Field.mapKeyKind, hc, Outcome.bind_ok]
          split
          · rfl
          · apply bind_not_panic
            · unfold Field.mapValueMessage
              rw [hmap]
              simp only [if_true]
              exact resolveRef_not_panic _ _ _
            · intro d; rfl
      · split
        · rfl
        · split
          · rfl
          · apply bind_not_panic
            · exact message_not_panic _ _
            · intro d; rfl
  · rfl

theorem step_not_panic (V : Variant) (sch : Schema) (root : Str) (st : PSt) (t : Token) :
    (step V sch root st t).isPanic = false := by
  unfold step
  split
  · split <;> rfl
  · split
    · rfl
    · split <;> rfl
  · split <;> rfl
  · split <;> rfl
  · unfold stepIdent
    split
    · rfl
    · split
      · exact accessIdent_not_panic _ _ _ _
      · split
        · split
          · exact accessValue_not_panic _ _ _
          · split
            · exact accessValue_not_panic _ _ _
            · rfl
        · rfl
  · split
    · rfl
    · exact accessValue_not_panic _ _ _
  · split
    · rfl
    · exact accessValue_not_panic _ _ _
  · split <;> rfl
  · rfl
  · rfl

theorem parseLoop_not_panic (V : Variant) (sch : Schema) (root buf : Str) :
    ∀ (fuel pos : Nat) (st : PSt), pos ≤ buf.length → buf.length < fuel + pos →
      (parseLoop V sch root buf fuel pos st).isPanic = false := by
  intro fuel
  induction fuel with
  | zero => intro pos st h0 h; omega
  | succ fuel ih =>
    intro pos st h0 h
    unfold parseLoop
    obtain ⟨t, p', hs, hcase⟩ := scan_total buf pos
    rw [hs]
    simp only [Outcome.bind_ok]
    split
    · split <;> rfl
    · rename_i hne
      rcases hcase with ⟨he, _, _⟩ | ⟨_, h1, h2⟩
      · exact absurd he hne
      · apply bind_not_panic
        · exact step_not_panic _ _ _ _ _
        · intro st'
          exact ih p' st' h2 (by omega)

end GceTcb.Path
