import GceTcb.Model.RpCli
import GceTcb.Proofs.Verify
/-
Helper definitions and lemmas for the command-line theorems (Props/C01Cli, C02Cli, C17Cli).  Core-only.
-/
namespace GceTcb.RpCli
open GceTcb

variable {Cert Roots Time R Q : Type}

/-! ### root data and the pool built from it -/

/-- The root data a command line names with the value `root` of its `--root_cert`: the file, or — flag absent or
    empty — what the Backend's getter returns for the pinned `DefaultRootURL`. -/
def rootData (E : Env Time) (root : String) : Option Bytes :=
  if root != "" then E.readFile root
  else
    match E.getter with
    | none => none
    | some g => g Verify.defaultRootURL

/-- The certificates `rootOfTrust` puts into the pool for this data: those of the PEM bundle, or — when the bundle
    has none — the data read as ONE DER certificate. -/
def certsIn (P : Prims Cert Roots Time R Q) (data : Bytes) : List Cert :=
  if (P.pemCerts data).isEmpty then
    match P.v.parseCert data with
    | some c => [c]
    | none => []
  else P.pemCerts data

theorem loadRootPool_eq (P : Prims Cert Roots Time R Q) (data : Bytes) :
    loadRootPool P data = if (certsIn P data).isEmpty then none else some (P.poolOf (certsIn P data)) := by
  unfold loadRootPool certsIn
  by_cases h : (P.pemCerts data).isEmpty = true
  · simp only [h, if_true]
    cases P.v.parseCert data <;> simp
  · simp only [h, Bool.false_eq_true, if_false]

theorem loadRootPool_some (P : Prims Cert Roots Time R Q) (data : Bytes) (r : Roots)
    (h : loadRootPool P data = some r) : certsIn P data ≠ [] ∧ r = P.poolOf (certsIn P data) := by
  rw [loadRootPool_eq] at h
  split at h
  · cases h
  · rename_i hne
    refine ⟨fun hh => hne (by simp [hh]), ?_⟩
    exact (Option.some.inj h).symm

theorem rootOfTrust_ok (P : Prims Cert Roots Time R Q) (E : Env Time) (root : String) (r : Roots)
    (h : Verify.rootOfTrust P.vp E.backend root = .ok r) :
    ∃ data, rootData E root = some data ∧ certsIn P data ≠ [] ∧ r = P.poolOf (certsIn P data) := by
  unfold Verify.rootOfTrust at h
  simp only [Prims.vp, Env.backend] at h
  by_cases hr : (root != "") = true
  · simp only [hr, if_true] at h
    cases hf : E.readFile root with
    | none => simp [hf] at h
    | some d =>
      simp only [hf] at h
      cases hl : loadRootPool P d with
      | none => simp [hl] at h
      | some r' =>
        simp only [hl] at h
        injection h with h
        subst h
        exact ⟨d, by simp [rootData, hr, hf], loadRootPool_some P d r' hl⟩
  · simp only [hr, Bool.false_eq_true, if_false] at h
    cases hg : E.getter with
    | none => simp [hg] at h
    | some g =>
      simp only [hg] at h
      cases hd : g Verify.defaultRootURL with
      | none => simp [hd] at h
      | some d =>
        simp only [hd] at h
        cases hl : loadRootPool P d with
        | none => simp [hl] at h
        | some r' =>
          simp only [hl] at h
          injection h with h
          subst h
          exact ⟨d, by simp [rootData, hr, hg, hd], loadRootPool_some P d r' hl⟩

/-- No root data, or root data without a certificate: `rootOfTrust` fails (it never yields an empty or nil pool). -/
theorem rootOfTrust_error (P : Prims Cert Roots Time R Q) (E : Env Time) (root : String)
    (h : ∀ data, rootData E root = some data → certsIn P data = []) :
    ∃ c, Verify.rootOfTrust P.vp E.backend root = .error c := by
  cases hr : Verify.rootOfTrust P.vp E.backend root with
  | error c => exact ⟨c, rfl⟩
  | ok r =>
    obtain ⟨data, hd, hne, _⟩ := rootOfTrust_ok P E root r hr
    exact absurd (h data hd) hne

/-! ### inversion of the per-command call functions -/

theorem verifyCall_ok (P : Prims Cert Roots Time R Q) (E : Env Time) (p : Parsed) (args : List String)
    (c : Call Roots Time R Q) (h : verifyCall P E p args = .ok c) :
    ∃ path, args = [path] ∧
      ((p.verifyShow = true ∧ c = .showCmds path (if p.verifyRoot == "" then defaultRootCmd else p.verifyRoot)) ∨
       (p.verifyShow = false ∧ ∃ e rot, Verify.readEndorsement P.vp E.backend path = .ok e ∧
          Verify.rootOfTrust P.vp E.backend p.verifyRoot = .ok rot ∧
          c = .verify e { snp := none, roots := some rot, expectedUefiSha384 := [], now := E.now,
                          endorsement := none, getter := E.getter })) := by
  unfold verifyCall at h
  split at h
  · rename_i path
    refine ⟨path, rfl, ?_⟩
    cases hs : p.verifyShow with
    | true =>
      simp only [hs, Bool.not_true, Bool.false_eq_true, if_false] at h
      cases h
      exact Or.inl ⟨rfl, rfl⟩
    | false =>
      simp only [hs, Bool.not_false, if_true] at h
      right
      refine ⟨rfl, ?_⟩
      split at h
      · cases h
      · rename_i e he
        split at h
        · cases h
        · rename_i rot hrot
          cases h
          exact ⟨e, rot, he, hrot, rfl⟩
  · cases h

theorem sevValidateCall_ok (P : Prims Cert Roots Time R Q) (E : Env Time) (p : Parsed) (args : List String)
    (c : Call Roots Time R Q) (h : sevValidateCall P E p args = .ok c) :
    ∃ base att content oe rot, sevBase P E p = .ok base ∧ args = [att] ∧ E.readFile att = some content ∧
      Verify.cliEndorsement P.vp E.backend p.sevValidateEndorsementPath = .ok oe ∧
      Verify.rootOfTrust P.vp E.backend p.sevValidateRoot = .ok rot ∧
      c = .sevValidate content
        { endorsement := oe, basePolicy := base, overwrite := p.sevOverwrite, roots := some rot, now := E.now,
          getter := E.getter, expectedLaunchVmsas := p.sevLaunchVmsas,
          testonlyForceGCS := p.sevValidateTestonlyForceGCS } := by
  unfold sevValidateCall at h
  split at h
  · cases h
  · cases h
  · rename_i base hbase
    split at h
    · rename_i att
      split at h
      · cases h
      · rename_i content hcontent
        split at h
        · cases h
        · rename_i oe hoe
          split at h
          · cases h
          · rename_i rot hrot
            cases h
            exact ⟨base, att, content, oe, rot, hbase, rfl, hcontent, hoe, hrot, rfl⟩
    · cases h

theorem tdxValidateCall_ok (P : Prims Cert Roots Time R Q) (E : Env Time) (p : Parsed) (args : List String)
    (c : Call Roots Time R Q) (h : tdxValidateCall P E p args = .ok c) :
    ∃ base att content oe rot, tdxBase P E p = .ok base ∧ args = [att] ∧ E.readFile att = some content ∧
      Verify.cliEndorsement P.vp E.backend p.tdxValidateEndorsementPath = .ok oe ∧
      Verify.rootOfTrust P.vp E.backend p.tdxValidateRoot = .ok rot ∧
      c = .tdxValidate content
        { endorsement := oe, basePolicy := base, overwrite := p.tdxOverwrite, roots := some rot, now := E.now,
          getter := E.getter, expectedRAMGiB := p.tdxRamGiB } := by
  unfold tdxValidateCall at h
  split at h
  · cases h
  · cases h
  · rename_i base hbase
    split at h
    · rename_i att
      split at h
      · cases h
      · rename_i content hcontent
        split at h
        · cases h
        · rename_i oe hoe
          split at h
          · cases h
          · rename_i rot hrot
            cases h
            exact ⟨base, att, content, oe, rot, hbase, rfl, hcontent, hoe, hrot, rfl⟩
    · cases h

theorem sevPolicyCall_ok (P : Prims Cert Roots Time R Q) (E : Env Time) (p : Parsed) (args : List String)
    (c : Call Roots Time R Q) (h : sevPolicyCall P E p args = .ok c) :
    ∃ base path out e, sevBase P E p = .ok base ∧ args = [path] ∧
      outSpecOf p.sevPolicyOut p.sevPolicyOutform = some out ∧
      Verify.readEndorsement P.vp E.backend path = .ok e ∧
      c = .sevPolicy e ⟨base, p.sevLaunchVmsas, p.sevOverwrite, p.sevAllowUnspecifiedVmsas⟩ out := by
  unfold sevPolicyCall at h
  split at h
  · cases h
  · cases h
  · rename_i base hbase
    split at h
    · rename_i path
      split at h
      · cases h
      · rename_i out hout
        split at h
        · cases h
        · rename_i e he
          cases h
          exact ⟨base, path, out, e, hbase, rfl, hout, he, rfl⟩
    · cases h

theorem tdxPolicyCall_ok (P : Prims Cert Roots Time R Q) (E : Env Time) (p : Parsed) (args : List String)
    (c : Call Roots Time R Q) (h : tdxPolicyCall P E p args = .ok c) :
    ∃ base path out e, tdxBase P E p = .ok base ∧ args = [path] ∧
      outSpecOf p.tdxPolicyOut p.tdxPolicyOutform = some out ∧
      Verify.readEndorsement P.vp E.backend path = .ok e ∧
      c = .tdxPolicy e ⟨base, p.tdxRamGiB, p.tdxOverwrite⟩ out := by
  unfold tdxPolicyCall at h
  split at h
  · cases h
  · cases h
  · rename_i base hbase
    split at h
    · rename_i path
      split at h
      · cases h
      · rename_i out hout
        split at h
        · cases h
        · rename_i e he
          cases h
          exact ⟨base, path, out, e, hbase, rfl, hout, he, rfl⟩
    · cases h

/-- `--base`: the policy handed to the library is the decoding of the file the flag names; no flag (or the empty
    value), no base policy. -/
theorem sevBase_ok (P : Prims Cert Roots Time R Q) (E : Env Time) (p : Parsed) (base : Option (Policy.SevPolicy R))
    (h : sevBase P E p = .ok base) :
    (p.sevBase = "" ∧ base = none) ∨
    (p.sevBase ≠ "" ∧ ∃ b q, E.readFile p.sevBase = some b ∧ P.unmarshalSevPolicy b = some q ∧ base = some q) := by
  unfold sevBase at h
  by_cases hb : p.sevBase = ""
  · simp [hb] at h
    exact Or.inl ⟨hb, h.symm⟩
  · have : (p.sevBase != "") = true := by simpa using hb
    simp only [this, if_true] at h
    right
    refine ⟨hb, ?_⟩
    split at h
    · cases h
    · rename_i b hb'
      split at h
      · cases h
      · rename_i q hq
        cases h
        exact ⟨b, q, hb', hq, rfl⟩

theorem tdxBase_ok (P : Prims Cert Roots Time R Q) (E : Env Time) (p : Parsed) (base : Option (Policy.TdxPolicy Q R))
    (h : tdxBase P E p = .ok base) :
    (p.tdxBase = "" ∧ base = none) ∨
    (p.tdxBase ≠ "" ∧ ∃ b q, E.readFile p.tdxBase = some b ∧ P.unmarshalTdxPolicy b = some q ∧ base = some q) := by
  unfold tdxBase at h
  by_cases hb : p.tdxBase = ""
  · simp [hb] at h
    exact Or.inl ⟨hb, h.symm⟩
  · have : (p.tdxBase != "") = true := by simpa using hb
    simp only [this, if_true] at h
    right
    refine ⟨hb, ?_⟩
    split at h
    · cases h
    · rename_i b hb'
      split at h
      · cases h
      · rename_i q hq
        cases h
        exact ⟨b, q, hb', hq, rfl⟩

/-! ### dispatch -/

theorem callOf_ok_wellFormed (P : Prims Cert Roots Time R Q) (L : Lex) (E : Env Time) (cl : CmdLine)
    (c : Call Roots Time R Q) (h : callOf P L E cl = .ok c) : wellFormed L cl = true := by
  unfold callOf at h
  cases hw : wellFormed L cl with
  | true => rfl
  | false => simp [hw] at h

theorem callOf_help (P : Prims Cert Roots Time R Q) (L : Lex) (E : Env Time) (cl : CmdLine)
    (hw : wellFormed L cl = true) (hc : cl.cmd ≠ "") (hh : helpFlag cl = true) : callOf P L E cl = .ok .help := by
  have : (cl.cmd == "") = false := by simpa using hc
  simp [callOf, hw, hh, this]

theorem callOf_verify (P : Prims Cert Roots Time R Q) (L : Lex) (E : Env Time) (cl : CmdLine)
    (hw : wellFormed L cl = true) (hc : cl.cmd = "verify") (hh : helpFlag cl = false) :
    callOf P L E cl = verifyCall P E (parsed L cl) cl.args := by
  simp [callOf, hw, hh, hc]

theorem callOf_sevValidate (P : Prims Cert Roots Time R Q) (L : Lex) (E : Env Time) (cl : CmdLine)
    (hw : wellFormed L cl = true) (hc : cl.cmd = "sev validate") (hh : helpFlag cl = false) :
    callOf P L E cl = sevValidateCall P E (parsed L cl) cl.args := by
  simp [callOf, hw, hh, hc]

theorem callOf_sevPolicy (P : Prims Cert Roots Time R Q) (L : Lex) (E : Env Time) (cl : CmdLine)
    (hw : wellFormed L cl = true) (hc : cl.cmd = "sev policy") (hh : helpFlag cl = false) :
    callOf P L E cl = sevPolicyCall P E (parsed L cl) cl.args := by
  simp [callOf, hw, hh, hc]

theorem callOf_tdxValidate (P : Prims Cert Roots Time R Q) (L : Lex) (E : Env Time) (cl : CmdLine)
    (hw : wellFormed L cl = true) (hc : cl.cmd = "tdx validate") (hh : helpFlag cl = false) :
    callOf P L E cl = tdxValidateCall P E (parsed L cl) cl.args := by
  simp [callOf, hw, hh, hc]

theorem callOf_tdxPolicy (P : Prims Cert Roots Time R Q) (L : Lex) (E : Env Time) (cl : CmdLine)
    (hw : wellFormed L cl = true) (hc : cl.cmd = "tdx policy") (hh : helpFlag cl = false) :
    callOf P L E cl = tdxPolicyCall P E (parsed L cl) cl.args := by
  simp [callOf, hw, hh, hc]

/-! ### what a flag value is on a given command -/

theorem owner_sevValidate_launch : ownerOf "sev validate" "launch_vmsas" = some "sev" := by decide
theorem owner_sevPolicy_launch : ownerOf "sev policy" "launch_vmsas" = some "sev" := by decide
theorem owner_tdxValidate_ram : ownerOf "tdx validate" "ram_gib" = some "tdx" := by decide
theorem owner_tdxPolicy_ram : ownerOf "tdx policy" "ram_gib" = some "tdx" := by decide
theorem owner_sevValidate_overwrite : ownerOf "sev validate" "overwrite" = some "sev" := by decide
theorem owner_sevPolicy_overwrite : ownerOf "sev policy" "overwrite" = some "sev" := by decide
theorem owner_tdxValidate_overwrite : ownerOf "tdx validate" "overwrite" = some "tdx" := by decide
theorem owner_tdxPolicy_overwrite : ownerOf "tdx policy" "overwrite" = some "tdx" := by decide
theorem owner_sevPolicy_base : ownerOf "sev policy" "base" = some "sev" := by decide
theorem owner_tdxPolicy_base : ownerOf "tdx policy" "base" = some "tdx" := by decide
theorem owner_sevPolicy_out : ownerOf "sev policy" "out" = some "sev policy" := by decide
theorem owner_tdxPolicy_out : ownerOf "tdx policy" "out" = some "tdx policy" := by decide
theorem owner_verify_root : ownerOf "verify" "root_cert" = some "verify" := by decide
theorem owner_sevValidate_root : ownerOf "sev validate" "root_cert" = some "sev validate" := by decide
theorem owner_tdxValidate_root : ownerOf "tdx validate" "root_cert" = some "tdx validate" := by decide

/-- The VMSA count a `sev validate` / `sev policy` command line names: the value written in the LAST
    `--launch_vmsas` occurrence; none, 0. -/
def namedVmsas (L : Lex) (cl : CmdLine) : Nat := ((lastOf "launch_vmsas" cl.flags).bind L.parseUint).getD 0

/-- The RAM size a `tdx validate` / `tdx policy` command line names. -/
def namedRamGiB (L : Lex) (cl : CmdLine) : Int := ((lastOf "ram_gib" cl.flags).bind L.parseInt).getD 0

/-- `--overwrite` as the command line gives it (absent: false). -/
def namedOverwrite (cl : CmdLine) : Bool := optBool (lastOf "overwrite" cl.flags)

theorem parsed_sevLaunchVmsas (L : Lex) (cl : CmdLine) (h : cl.cmd = "sev validate" ∨ cl.cmd = "sev policy") :
    (parsed L cl).sevLaunchVmsas = namedVmsas L cl := by
  rcases h with h | h <;>
    simp [parsed, flagVal, h, owner_sevValidate_launch, owner_sevPolicy_launch, namedVmsas]

theorem parsed_tdxRamGiB (L : Lex) (cl : CmdLine) (h : cl.cmd = "tdx validate" ∨ cl.cmd = "tdx policy") :
    (parsed L cl).tdxRamGiB = namedRamGiB L cl := by
  rcases h with h | h <;>
    simp [parsed, flagVal, h, owner_tdxValidate_ram, owner_tdxPolicy_ram, namedRamGiB]

theorem parsed_sevOverwrite (L : Lex) (cl : CmdLine) (h : cl.cmd = "sev validate" ∨ cl.cmd = "sev policy") :
    (parsed L cl).sevOverwrite = namedOverwrite cl := by
  rcases h with h | h <;>
    simp [parsed, boolFlag, flagVal, h, owner_sevValidate_overwrite, owner_sevPolicy_overwrite, namedOverwrite]

theorem parsed_tdxOverwrite (L : Lex) (cl : CmdLine) (h : cl.cmd = "tdx validate" ∨ cl.cmd = "tdx policy") :
    (parsed L cl).tdxOverwrite = namedOverwrite cl := by
  rcases h with h | h <;>
    simp [parsed, boolFlag, flagVal, h, owner_tdxValidate_overwrite, owner_tdxPolicy_overwrite, namedOverwrite]

/-- A well-formed command line gives `--launch_vmsas` only values below 2^32 (pflag's uint32). -/
theorem lastOf_mem (name : String) (l : List (String × String)) (v : String) (h : lastOf name l = some v) :
    (name, v) ∈ l := by
  induction l with
  | nil => cases h
  | cons x xs ih =>
    obtain ⟨n, w⟩ := x
    simp only [lastOf] at h
    cases hr : lastOf name xs with
    | some y =>
      rw [hr] at h
      cases h
      exact List.mem_cons_of_mem _ (ih hr)
    | none =>
      rw [hr] at h
      simp only at h
      split at h
      · rename_i hn
        cases h
        have : n = name := by simpa using hn
        subst this
        exact List.mem_cons_self
      · cases h

theorem kind_sevValidate_launch : kindOf "sev validate" "launch_vmsas" = some "Uint32" := by decide
theorem kind_sevPolicy_launch : kindOf "sev policy" "launch_vmsas" = some "Uint32" := by decide

theorem namedVmsas_lt (L : Lex) (cl : CmdLine) (hw : wellFormed L cl = true)
    (h : cl.cmd = "sev validate" ∨ cl.cmd = "sev policy") : namedVmsas L cl < 2 ^ 32 := by
  unfold namedVmsas
  cases hl : lastOf "launch_vmsas" cl.flags with
  | none => simp
  | some v =>
    have hm := lastOf_mem _ _ _ hl
    simp only [wellFormed, Bool.and_eq_true, List.all_eq_true] at hw
    have hok := hw.2 _ hm
    have hk : kindOf cl.cmd "launch_vmsas" = some "Uint32" := by
      rcases h with h | h <;> rw [h]
      · exact kind_sevValidate_launch
      · exact kind_sevPolicy_launch
    simp only [flagOk, hk] at hok
    simp only [Option.bind_some]
    cases hp : L.parseUint v with
    | none => simp
    | some n =>
      simp [hp] at hok
      simpa using hok

/-! ### what a library call decides about -/

/-- The endorsement a verifying call decides about (from the call alone, not from its result): the one read from
    the positional file (`verify`), the pre-supplied one, else the one SevValidate / TdxValidate extract. -/
def callEndorsement (W : World Cert Roots Time R Q) : Call Roots Time R Q → Option Verify.Endorsement
  | .verify e _ => some e
  | .sevValidate content o =>
    match W.P.parseAttestation content with
    | some (.sevSnp sa) => Verify.exceptToOption (Verify.sevEndorsement W.P.vp (some sa) (o.toVerify W.tagS))
    | _ => none
  | .tdxValidate content o => Verify.exceptToOption (Verify.tdxEndorsement W.P.vp content (o.toVerify W.tagT))
  | _ => none

/-- The trust roots the call verifies under. -/
def callRoots : Call Roots Time R Q → Option Roots
  | .verify _ o => o.roots
  | .sevValidate _ o => o.roots
  | .tdxValidate _ o => o.roots
  | _ => none

/-- The time the call verifies at (`dflt` for calls that verify nothing). -/
def callNow (dflt : Time) : Call Roots Time R Q → Time
  | .verify _ o => o.now
  | .sevValidate _ o => o.now
  | .tdxValidate _ o => o.now
  | _ => dflt

/-- `verify` (without --show), `sev validate`, `tdx validate` -/
def Call.verifying : Call Roots Time R Q → Bool
  | .verify _ _ => true
  | .sevValidate _ _ => true
  | .tdxValidate _ _ => true
  | _ => false

/-- The value of `--root_cert` on the command line (absent: the empty string). -/
def namedRoot (cl : CmdLine) : String := (lastOf "root_cert" cl.flags).getD ""

theorem parsed_verifyRoot (L : Lex) (cl : CmdLine) (h : cl.cmd = "verify") :
    (parsed L cl).verifyRoot = namedRoot cl := by
  simp [parsed, strFlag, flagVal, h, owner_verify_root, namedRoot]

theorem parsed_sevValidateRoot (L : Lex) (cl : CmdLine) (h : cl.cmd = "sev validate") :
    (parsed L cl).sevValidateRoot = namedRoot cl := by
  simp [parsed, strFlag, flagVal, h, owner_sevValidate_root, namedRoot]

theorem parsed_tdxValidateRoot (L : Lex) (cl : CmdLine) (h : cl.cmd = "tdx validate") :
    (parsed L cl).tdxValidateRoot = namedRoot cl := by
  simp [parsed, strFlag, flagVal, h, owner_tdxValidate_root, namedRoot]

theorem owner_verify_show : ownerOf "verify" "show" = some "verify" := by decide

/-- `--show` as the command line gives it -/
def namedShow (cl : CmdLine) : Bool := optBool (lastOf "show" cl.flags)

theorem parsed_verifyShow (L : Lex) (cl : CmdLine) (h : cl.cmd = "verify") :
    (parsed L cl).verifyShow = namedShow cl := by
  simp [parsed, boolFlag, flagVal, h, owner_verify_show, namedShow]

/-! ### output destination and effects -/

/-- The value of `--out` on the command line (absent: standard output, `-`). -/
def namedOut (cl : CmdLine) : String := (lastOf "out" cl.flags).getD "-"

/-- The value of `--base` on the command line (absent: the empty string = no base). -/
def namedBase (cl : CmdLine) : String := (lastOf "base" cl.flags).getD ""

/-- `--allow_unspecified_vmsas` as the command line gives it -/
def namedAllow (cl : CmdLine) : Bool := optBool (lastOf "allow_unspecified_vmsas" cl.flags)

/-- `--outform` on the command line (absent: auto) -/
def namedOutform (cl : CmdLine) : String := (lastOf "outform" cl.flags).getD "auto"

theorem owner_sevPolicy_outform : ownerOf "sev policy" "outform" = some "sev policy" := by decide
theorem owner_tdxPolicy_outform : ownerOf "tdx policy" "outform" = some "tdx policy" := by decide
theorem owner_sevPolicy_allow : ownerOf "sev policy" "allow_unspecified_vmsas" = some "sev" := by decide

theorem parsed_sevPolicyOut (L : Lex) (cl : CmdLine) (h : cl.cmd = "sev policy") :
    (parsed L cl).sevPolicyOut = namedOut cl ∧ (parsed L cl).sevPolicyOutform = namedOutform cl := by
  simp [parsed, strFlag, flagVal, h, owner_sevPolicy_out, owner_sevPolicy_outform, namedOut, namedOutform]

theorem parsed_tdxPolicyOut (L : Lex) (cl : CmdLine) (h : cl.cmd = "tdx policy") :
    (parsed L cl).tdxPolicyOut = namedOut cl ∧ (parsed L cl).tdxPolicyOutform = namedOutform cl := by
  simp [parsed, strFlag, flagVal, h, owner_tdxPolicy_out, owner_tdxPolicy_outform, namedOut, namedOutform]

theorem parsed_sevBase (L : Lex) (cl : CmdLine) (h : cl.cmd = "sev policy") :
    (parsed L cl).sevBase = namedBase cl ∧ (parsed L cl).sevAllowUnspecifiedVmsas = namedAllow cl := by
  simp [parsed, strFlag, boolFlag, flagVal, h, owner_sevPolicy_base, owner_sevPolicy_allow, namedBase, namedAllow]

theorem parsed_tdxBase (L : Lex) (cl : CmdLine) (h : cl.cmd = "tdx policy") :
    (parsed L cl).tdxBase = namedBase cl := by
  simp [parsed, strFlag, flagVal, h, owner_tdxPolicy_base, namedBase]

theorem outSpecOf_path (out outform : String) (s : OutSpec) (h : outSpecOf out outform = some s) : s.path = out := by
  unfold outSpecOf at h
  split at h
  · cases h; rfl
  · split at h
    · cases h; rfl
    · cases h

theorem emit_effects_path (E : Env Time) (path : String) (w : Written R Q) :
    ∀ eff ∈ (emit E path w).effects, eff.path = path := by
  intro eff h
  unfold emit at h
  split at h
  · cases h
  · split at h
    · simp at h; subst h; rfl
    · simp at h
      rcases h with h | h <;> subst h <;> rfl

/-- `emit` either does nothing (Create failed), creates and fails to write, or creates and writes. -/
theorem emit_cases (E : Env Time) (path : String) (w : Written R Q) :
    (emit E path w = ⟨[], .err "create"⟩) ∨ (emit E path w = ⟨[.create path], .err "write"⟩) ∨
    (emit E path w = ⟨[.create path, .write path w], Verify.accept⟩) := by
  unfold emit
  split
  · exact Or.inl rfl
  · split
    · exact Or.inr (Or.inl rfl)
    · exact Or.inr (Or.inr rfl)

/-- Files other than the one the effects are about hold what they held. -/
theorem fsAfter_other (render : Written R Q → Bytes) (effs : List (Effect R Q)) (p x : String)
    (h : ∀ eff ∈ effs, eff.path = p) (hx : x ≠ p) (fs : String → Option Bytes) :
    fsAfter render fs effs x = fs x := by
  induction effs generalizing fs with
  | nil => rfl
  | cons e rest ih =>
    have he := h e List.mem_cons_self
    have hrest : ∀ eff ∈ rest, eff.path = p := fun eff hm => h eff (List.mem_cons_of_mem _ hm)
    cases e with
    | create q =>
      simp only [Effect.path] at he
      subst he
      simp only [fsAfter]
      rw [ih hrest]
      simp [hx]
    | write q w =>
      simp only [Effect.path] at he
      subst he
      simp only [fsAfter]
      rw [ih hrest]
      simp [hx]

/-! ### the remaining flags of `sev validate` -/

theorem owner_sevValidate_endorsement : ownerOf "sev validate" "endorsement" = some "sev validate" := by decide
theorem owner_sevValidate_force : ownerOf "sev validate" "testonly_force_gcs" = some "sev validate" := by decide
theorem owner_sevValidate_base : ownerOf "sev validate" "base" = some "sev" := by decide

/-- `--endorsement` / `--testonly_force_gcs` as the command line gives them -/
def namedEndorsementPath (cl : CmdLine) : String := (lastOf "endorsement" cl.flags).getD ""
def namedForceGCS (cl : CmdLine) : Bool := optBool (lastOf "testonly_force_gcs" cl.flags)

theorem parsed_sevValidate_rest (L : Lex) (cl : CmdLine) (h : cl.cmd = "sev validate") :
    (parsed L cl).sevValidateEndorsementPath = namedEndorsementPath cl ∧
    (parsed L cl).sevValidateTestonlyForceGCS = namedForceGCS cl ∧ (parsed L cl).sevBase = namedBase cl := by
  simp [parsed, strFlag, boolFlag, flagVal, h, owner_sevValidate_endorsement, owner_sevValidate_force,
    owner_sevValidate_base, namedEndorsementPath, namedForceGCS, namedBase]

theorem owner_tdxValidate_endorsement : ownerOf "tdx validate" "endorsement" = some "tdx validate" := by decide
theorem owner_tdxValidate_base : ownerOf "tdx validate" "base" = some "tdx" := by decide

theorem parsed_tdxValidate_rest (L : Lex) (cl : CmdLine) (h : cl.cmd = "tdx validate") :
    (parsed L cl).tdxValidateEndorsementPath = namedEndorsementPath cl ∧ (parsed L cl).tdxBase = namedBase cl := by
  simp [parsed, strFlag, flagVal, h, owner_tdxValidate_endorsement, owner_tdxValidate_base, namedEndorsementPath,
    namedBase]


/-! ### concrete worlds for the non-vacuity examples and witnesses of the Props modules -/

/-- the policy a run wrote -/
def writtenSev : List (Effect R Q) → Option (Policy.SevPolicy R)
  | [] => none
  | .write _ (.sevPolicy _ q) :: _ => some q
  | _ :: rest => writtenSev rest

namespace Example
open Verify.Example in
/-- the world of the C01 examples, with root data `[0x52]` a PEM bundle of one certificate (number 7) -/
def W : World Nat String Nat Unit Unit :=
  { P := { v := Verify.Example.P
           pemCerts := fun b => if b == [0x52] then [7] else []
           poolOf := fun l => if l == [7] then "caller-roots" else "other-roots"
           unmarshalSevPolicy := fun _ => none
           unmarshalTdxPolicy := fun _ => none
           parseAttestation := fun b => if b == [0xA7] then some (.sevSnp Verify.Example.att) else none }
    L := ⟨fun _ => none, fun _ => none⟩
    G := { pem := fun _ => none, dflt := ⟨0, [], 0, [], [], ()⟩, emptyQ := (), emptyR := (),
           goldenSev := fun _ => none, goldenTdx := fun _ => none }
    tagS := fun _ => 0
    tagT := fun _ => 0 }

/-- files: a genuine endorsement `e`, a forged one `f` (unmarshals to nothing), the root `r`, an empty file `z`,
    junk `j`, an attestation `a` -/
def fs : String → Option Bytes := fun p =>
  if p == "e" then some [0xE0] else if p == "r" then some [0x52] else if p == "z" then some []
  else if p == "j" then some [0x58] else if p == "a" then some [0xA7] else none

def E (now : Nat) : Env Nat := { readFile := fs, getter := none, now := now }
end Example

namespace ExampleM
/-- an endorsement listing m4 for 4 VMSAs and m8 for 8; the report carries m4 -/
def m4 : Bytes := List.replicate 48 4
def m8 : Bytes := List.replicate 48 8
def mrA : Bytes := List.replicate 48 0xA
def mrB : Bytes := List.replicate 48 0xB

/-- the numerals of the examples -/
def numeral (s : String) : Option Nat :=
  if s == "4" then some 4 else if s == "8" then some 8 else if s == "16" then some 16
  else if s == "32" then some 32 else if s == "64" then some 64 else none

def W : World Nat String Nat Unit Unit :=
  { P := { v := { Verify.Example.P with
                  unmarshalEndorsement := fun b => if b == [0xE0] then some ⟨[0xA0], [0x5A]⟩ else none }
           pemCerts := fun b => if b == [0x52] then [7] else []
           poolOf := fun _ => "caller-roots"
           unmarshalSevPolicy := fun _ => none
           unmarshalTdxPolicy := fun _ => none
           parseAttestation := fun _ => none }
    L := ⟨fun s => numeral s, fun s => (numeral s).map Int.ofNat⟩
    G := { pem := fun _ => none, dflt := ⟨0x30000, [], 0, [], [], ()⟩, emptyQ := (), emptyR := (),
           goldenSev := fun _ => some (some ⟨0x30000, 1, [(4, m4), (8, m8)], [], []⟩)
           goldenTdx := fun _ => some (some [⟨16, false, mrA⟩, ⟨32, false, mrB⟩]) }
    tagS := fun _ => 0
    tagT := fun _ => 0 }

def M : MeasurePrims :=
  { reportMeasurement := fun b => if b == [0xA7] then some m4 else none
    quoteMrtd := fun b => if b == [0xA8] then some mrA else none
    extracted := fun _ => none
    digest := fun _ => []
    otherChecks := fun _ _ => true }

def E : Env Nat :=
  { readFile := fun p => if p == "e" then some [0xE0] else if p == "r" then some [0x52]
                         else if p == "a" then some [0xA7] else if p == "q" then some [0xA8] else none
    getter := none, now := 150 }

def sevLine (n : String) : CmdLine :=
  ⟨"sev validate", [("launch_vmsas", n), ("endorsement", "e"), ("root_cert", "r")], ["a"]⟩
def tdxLine (n : String) : CmdLine :=
  ⟨"tdx validate", [("ram_gib", n), ("endorsement", "e"), ("root_cert", "r")], ["q"]⟩
end ExampleM

namespace ExampleP
def m4 : Bytes := List.replicate 48 4
def m8 : Bytes := List.replicate 48 8

/-- base policy files: `agree` sets the measurement the endorsement lists for 4 VMSAs, `conflict` another one;
    `empty` is the empty file (the empty policy); `junk` does not decode -/
def W : World Nat String Nat Nat Unit :=
  { P := { v := { Verify.Example.P with
                  unmarshalEndorsement := fun b => if b == [0xE0] then some ⟨[0xA0], [0x5A]⟩ else none }
           pemCerts := fun _ => []
           poolOf := fun _ => "caller-roots"
           unmarshalSevPolicy := fun b =>
             if b == [] then some ⟨0, [], 0, [], [], 0⟩
             else if b == [0xB0] then some ⟨0x30000, m4, 3, [[1, 2]], [], 42⟩
             else if b == [0xB1] then some ⟨0x30000, m8, 0, [], [], 43⟩
             else none
           unmarshalTdxPolicy := fun _ => none
           parseAttestation := fun _ => none }
    L := ⟨fun s => if s == "4" then some 4 else if s == "8" then some 8 else none, fun _ => none⟩
    G := { pem := fun _ => none, dflt := ⟨0x30000, [], 0, [], [], 7⟩, emptyQ := (), emptyR := 0
           goldenSev := fun _ => some (some ⟨0x30000, 5, [(4, m4), (8, m8)], [], []⟩)
           goldenTdx := fun _ => some none }
    tagS := fun _ => 0
    tagT := fun _ => 0 }

def E : Env Nat :=
  { readFile := fun p => if p == "e" then some [0xE0] else if p == "agree" then some [0xB0]
                         else if p == "conflict" then some [0xB1] else if p == "empty" then some []
                         else if p == "junk" then some [0x58] else none
    getter := none, now := 150 }

def line (base : String) (extra : List (String × String)) : CmdLine :=
  ⟨"sev policy", [("base", base), ("launch_vmsas", "4"), ("out", "p.out")] ++ extra, ["e"]⟩
end ExampleP

end GceTcb.RpCli
