import GceTcb.Proofs.ProtoMap
/-
Whatever the decoders accept is well-typed and canonical: every scalar of a decoded message fits the Go
type of its field and every decoded map is in canonical form (strictly ascending keys) — for ALL input
bytes, not only for encodings.  Core-only.
-/
namespace GceTcb.ProtoWire
open GceTcb

theorem foldFields_inv {M : Type} (Inv : M → Prop) (step : M → Field → Option M)
    (hstep : ∀ m f m', Inv m → step m f = some m' → Inv m') :
    ∀ (fs : List Field) (m m' : M), Inv m → foldFields step m fs = some m' → Inv m' := by
  intro fs
  induction fs with
  | nil => intro m m' hi h; simp only [foldFields, Option.some.injEq] at h; exact h ▸ hi
  | cons f fs ih =>
    intro m m' hi h
    rw [foldFields] at h
    cases hs : step m f with
    | none => rw [hs] at h; cases h
    | some m1 => rw [hs] at h; exact ih m1 m' (hstep m f m1 hi hs) h

theorem decodeInto_inv {M : Type} (Inv : M → Prop) (step : M → Field → Option M)
    (hstep : ∀ m f m', Inv m → step m f = some m' → Inv m') (init m' : M) (b : Bytes) (hi : Inv init)
    (h : decodeInto step init b = some m') : Inv m' := by
  unfold decodeInto at h
  cases hp : parseFields b with
  | none => rw [hp] at h; cases h
  | some fs => rw [hp] at h; exact foldFields_inv Inv step hstep fs init m' hi h

def TypedTimestamp (t : WTimestamp) : Prop :=
  -9223372036854775808 ≤ t.seconds ∧ t.seconds < 9223372036854775808 ∧ -2147483648 ≤ t.nanos ∧ t.nanos < 2147483648

theorem toInt64_range (v : Nat) : -9223372036854775808 ≤ toInt64 v ∧ toInt64 v < 9223372036854775808 := by
  unfold toInt64; split <;> omega

theorem toInt32_range (v : Nat) : -2147483648 ≤ toInt32 v ∧ toInt32 v < 2147483648 := by
  unfold toInt32; split <;> omega

theorem stepTimestamp_inv (m : WTimestamp) (f : Field) (m' : WTimestamp) (hi : TypedTimestamp m)
    (h : stepTimestamp m f = some m') : TypedTimestamp m' := by
  unfold stepTimestamp at h
  split at h <;> simp only [Option.some.injEq] at h <;> subst h
  · exact ⟨(toInt64_range _).1, (toInt64_range _).2, hi.2.2.1, hi.2.2.2⟩
  · exact ⟨hi.1, hi.2.1, (toInt32_range _).1, (toInt32_range _).2⟩
  · exact hi

def TypedRow (r : WRow) : Prop := r.ramGib < 4294967296

theorem stepRow_inv (m : WRow) (f : Field) (m' : WRow) (hi : TypedRow m) (h : stepRow m f = some m') :
    TypedRow m' := by
  unfold stepRow at h
  split at h <;> simp only [Option.some.injEq] at h <;> subst h
  · exact Nat.mod_lt _ (by decide)
  · exact hi
  · exact hi
  · exact hi

theorem decodeRow_typed (b : Bytes) (r : WRow) (h : decodeRow b = some r) : TypedRow r :=
  decodeInto_inv TypedRow stepRow stepRow_inv .zero r b (by simp [TypedRow, WRow.zero]) h

def TypedTdx (d : WTdx) : Prop := d.svn < 4294967296 ∧ ∀ r ∈ d.measurements, TypedRow r

theorem stepTdx_inv (m : WTdx) (f : Field) (m' : WTdx) (hi : TypedTdx m) (h : stepTdx m f = some m') :
    TypedTdx m' := by
  unfold stepTdx at h
  split at h
  · simp only [Option.some.injEq] at h; subst h
    exact ⟨Nat.mod_lt _ (by decide), hi.2⟩
  · rename_i p _ _
    cases hd : decodeRow p with
    | none => rw [hd] at h; cases h
    | some r =>
      rw [hd] at h
      simp only [Option.some.injEq] at h; subst h
      refine ⟨hi.1, ?_⟩
      intro x hx
      rcases List.mem_append.mp hx with h1 | h1
      · exact hi.2 x h1
      · simp only [List.mem_singleton] at h1; subst h1; exact decodeRow_typed p x hd
  · simp only [Option.some.injEq] at h; subst h; exact hi

def TypedEntry (e : Nat × Bytes) : Prop := e.1 < 4294967296

theorem stepEntry_inv (m : Nat × Bytes) (f : Field) (m' : Nat × Bytes) (hi : TypedEntry m)
    (h : stepEntry m f = some m') : TypedEntry m' := by
  unfold stepEntry at h
  split at h <;> simp only [Option.some.injEq] at h <;> subst h
  · exact Nat.mod_lt _ (by decide)
  · exact hi
  · exact hi

theorem decodeEntry_typed (b : Bytes) (e : Nat × Bytes) (h : decodeEntry b = some e) : e.1 < 4294967296 :=
  decodeInto_inv TypedEntry stepEntry stepEntry_inv (0, []) e b (by simp [TypedEntry]) h

def TypedSevSnp (s : WSevSnp) : Prop :=
  s.svn < 4294967296 ∧ s.policy < 18446744073709551616 ∧ SortedKeys s.measurements ∧
  ∀ p ∈ s.measurements, p.1 < 4294967296

theorem stepSevSnp_inv (m : WSevSnp) (f : Field) (m' : WSevSnp) (hi : TypedSevSnp m)
    (h : stepSevSnp m f = some m') : TypedSevSnp m' := by
  unfold stepSevSnp at h
  split at h
  · simp only [Option.some.injEq] at h; subst h
    exact ⟨Nat.mod_lt _ (by decide), hi.2⟩
  · rename_i p _ _
    cases hd : decodeEntry p with
    | none => rw [hd] at h; cases h
    | some e =>
      obtain ⟨k, v⟩ := e
      rw [hd] at h
      simp only [Option.some.injEq] at h; subst h
      refine ⟨hi.1, hi.2.1, mapSet_sorted _ k v hi.2.2.1, ?_⟩
      intro q hq
      rcases mem_mapSet _ k v q hq with rfl | h1
      · exact decodeEntry_typed p _ hd
      · exact hi.2.2.2 q h1
  · simp only [Option.some.injEq] at h; subst h; exact hi
  · simp only [Option.some.injEq] at h; subst h; exact hi
  · simp only [Option.some.injEq] at h; subst h
    exact ⟨hi.1, Nat.mod_lt _ (by decide), hi.2.2⟩
  · simp only [Option.some.injEq] at h; subst h; exact hi
  · simp only [Option.some.injEq] at h; subst h; exact hi
  · simp only [Option.some.injEq] at h; subst h; exact hi

def TypedGolden (g : WGolden) : Prop :=
  g.clSpec < 18446744073709551616 ∧ (∀ t, g.timestamp = some t → TypedTimestamp t) ∧
  (∀ s, g.sevSnp = some s → TypedSevSnp s) ∧ (∀ d, g.tdx = some d → TypedTdx d)

theorem typed_zero_ts : TypedTimestamp .zero := by simp [TypedTimestamp, WTimestamp.zero]
theorem typed_zero_snp : TypedSevSnp .zero :=
  ⟨by simp [WSevSnp.zero], by simp [WSevSnp.zero], List.Pairwise.nil, (by intro p hp; cases hp)⟩
theorem typed_zero_tdx : TypedTdx .zero := ⟨by simp [WTdx.zero], (by intro r hr; cases hr)⟩

theorem stepGolden_inv (m : WGolden) (f : Field) (m' : WGolden) (hi : TypedGolden m)
    (h : stepGolden m f = some m') : TypedGolden m' := by
  unfold stepGolden at h
  split at h
  · rename_i p _ _
    cases hd : decodeTimestampInto (m.timestamp.getD .zero) p with
    | none => rw [hd] at h; cases h
    | some t =>
      rw [hd] at h
      simp only [Option.some.injEq] at h; subst h
      refine ⟨hi.1, ?_, hi.2.2⟩
      intro t' ht'
      simp only [Option.some.injEq] at ht'; subst ht'
      refine decodeInto_inv TypedTimestamp stepTimestamp stepTimestamp_inv _ _ p ?_ hd
      cases hm : m.timestamp with
      | none => exact typed_zero_ts
      | some t0 => exact hi.2.1 t0 hm
  · simp only [Option.some.injEq] at h; subst h
    exact ⟨Nat.mod_lt _ (by decide), hi.2⟩
  · simp only [Option.some.injEq] at h; subst h; exact hi
  · simp only [Option.some.injEq] at h; subst h; exact hi
  · simp only [Option.some.injEq] at h; subst h; exact hi
  · simp only [Option.some.injEq] at h; subst h; exact hi
  · rename_i p _ _
    cases hd : decodeSevSnpInto (m.sevSnp.getD .zero) p with
    | none => rw [hd] at h; cases h
    | some s =>
      rw [hd] at h
      simp only [Option.some.injEq] at h; subst h
      refine ⟨hi.1, hi.2.1, ?_, hi.2.2.2⟩
      intro s' hs'
      simp only [Option.some.injEq] at hs'; subst hs'
      refine decodeInto_inv TypedSevSnp stepSevSnp stepSevSnp_inv _ _ p ?_ hd
      cases hm : m.sevSnp with
      | none => exact typed_zero_snp
      | some s0 => exact hi.2.2.1 s0 hm
  · rename_i p _ _
    cases hd : decodeTdxInto (m.tdx.getD .zero) p with
    | none => rw [hd] at h; cases h
    | some d =>
      rw [hd] at h
      simp only [Option.some.injEq] at h; subst h
      refine ⟨hi.1, hi.2.1, hi.2.2.1, ?_⟩
      intro d' hd'
      simp only [Option.some.injEq] at hd'; subst hd'
      refine decodeInto_inv TypedTdx stepTdx stepTdx_inv _ _ p ?_ hd
      cases hm : m.tdx with
      | none => exact typed_zero_tdx
      | some d0 => exact hi.2.2.2 d0 hm
  · simp only [Option.some.injEq] at h; subst h; exact hi

/-- every accepted VMGoldenMeasurement is well-typed, its measurement map canonical -/
theorem decodeGolden_typed (b : Bytes) (g : WGolden) (h : decodeGolden b = some g) : TypedGolden g :=
  decodeInto_inv TypedGolden stepGolden stepGolden_inv .zero g b
    ⟨by simp [WGolden.zero], (by intro t ht; cases ht), (by intro s hs; cases hs), (by intro d hd; cases hd)⟩ h

theorem decodeSevSnp_typed (b : Bytes) (s : WSevSnp) (h : decodeSevSnp b = some s) : TypedSevSnp s :=
  decodeInto_inv TypedSevSnp stepSevSnp stepSevSnp_inv .zero s b typed_zero_snp h

theorem decodeTdx_typed (b : Bytes) (d : WTdx) (h : decodeTdx b = some d) : TypedTdx d :=
  decodeInto_inv TypedTdx stepTdx stepTdx_inv .zero d b typed_zero_tdx h

theorem decodeTimestamp_typed (b : Bytes) (t : WTimestamp) (h : decodeTimestamp b = some t) : TypedTimestamp t :=
  decodeInto_inv TypedTimestamp stepTimestamp stepTimestamp_inv .zero t b typed_zero_ts h

/-- a decoded golden measurement is a fixed point of `canon` -/
theorem decodeGolden_canon (b : Bytes) (g : WGolden) (h : decodeGolden b = some g) : canonGolden g = g := by
  have ht := decodeGolden_typed b g h
  cases g with
  | mk ts cl co ce di cab sev tdx unk =>
    cases sev with
    | none => rfl
    | some s =>
      have := (ht.2.2.1 s rfl).2.2.1
      simp only [canonGolden, Option.map_some, canonSevSnp, normMap_sorted _ this]

end GceTcb.ProtoWire
