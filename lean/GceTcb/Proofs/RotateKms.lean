import GceTcb.Proofs.RotateFinal
import GceTcb.Model.RotateKms
import Std.Data.String.ToNat
/-
C10 on the Cloud KMS stack (Model/RotateKms.lean): the naming scheme, the step specifications of
`rotateKeyKms` in the program logic of Proofs/Hoare.lean (reusing the specifications of the deferred
authority from Proofs/RotateGcs.lean), and the preservation of the key-service hygiene.

How the nonprod proofs are reused: they are parametric in `cfg.bump`, the function the nonprod managers
derive the new name with.  Cloud KMS derives the new name from its own state (`verName parent (count+1)`),
so a run that starts with `count = n0` is the run of the configuration `cfg.withNew K` whose `bump` is the
constant `K = verName parent (n0+1)`; `rotateKeyKms` never looks at `bump` (`rotateKeyKms_withNew`).
-/
namespace GceTcb.CA

variable {sc : Nat → Fault}

/-! ### the naming scheme `…/cryptoKeyVersions/N` -/

theorem verName_ne_empty (p : String) (n : Nat) : verName p n ≠ "" := by
  intro e
  have := congrArg String.length e
  unfold verName at this
  rw [String.length_append, String.length_append] at this
  have h2 : ("/cryptoKeyVersions/" : String).length = 19 := by decide
  rw [h2] at this
  simp at this

/-- distinct version numbers have distinct names -/
theorem verName_inj (p : String) (a b : Nat) (h : verName p a = verName p b) : a = b := by
  unfold verName at h
  have h1 := congrArg String.toList h
  simp only [String.toList_append] at h1
  have h2 := List.append_cancel_left h1
  have h3 : toString a = toString b := String.toList_inj.mp h2
  exact Nat.repr_injective h3

/-- Hygiene of the key service: no usable key carries a version number the cryptoKey has not handed out
    yet.  (True of Cloud KMS by construction; an invariant of every run — `rotateKeyKms_hyg`.) -/
def KHyg (env : KmsEnv) (s : St) : Prop :=
  ∀ n, s.kcount < n → lookup s.keys (verName env.parent n) = none

/-- the name the next CreateCryptoKeyVersion will hand out -/
def nextName (env : KmsEnv) (s : St) : String := verName env.parent (s.kcount + 1)

theorem KHyg.next_not_live {env : KmsEnv} {s : St} (h : KHyg env s) : lookup s.keys (nextName env s) = none :=
  h _ (Nat.lt_succ_self _)

/-! ### configurations -/

/-- the configuration whose `bump` is the constant `K` -/
def Cfg.withNew (cfg : Cfg) (K : String) : Cfg := { cfg with bump := fun _ => K }

/-- The configuration as the Cloud KMS stack sees it: `bump` plays no role; with the constant empty name
    the clause `broot` of the invariant says no more than `root_ne`. -/
def Cfg.kmsView (cfg : Cfg) : Cfg := cfg.withNew ""

theorem InvG.rebump {cfg cfg' : Cfg} {m : Manifest} {r c : Cert} {path : String} {s : St}
    (h : InvG cfg m r c path s) (hr : cfg'.rootPath = cfg.rootPath) (hb : ∀ n, cfg'.bump n ≠ m.root) :
    InvG cfg' m r c path s :=
  ⟨h.man, by rw [hr]; exact h.root, h.entry, h.prim, h.kprim, h.chain, h.kroot, h.sig_ne, h.root_ne, h.sr,
    h.pm, by rw [hr]; exact h.rm, hb⟩

theorem uploadAll_withNew (cfg : Cfg) (K : String) (l : List (String × Cert)) :
    uploadAll (cfg.withNew K) l = uploadAll cfg l := by
  induction l with
  | nil => rfl
  | cons h t ih =>
    obtain ⟨k, c⟩ := h
    show (upload (cfg.withNew K) k c >>= fun _ => uploadAll (cfg.withNew K) t) = (upload cfg k c >>= fun _ => uploadAll cfg t)
    rw [ih]; rfl

theorem caFinalize_withNew (cfg : Cfg) (K : String) (mu : Mut) (o : List (String × Cert)) :
    caFinalize (cfg.withNew K) mu o = caFinalize cfg mu o := by
  unfold caFinalize gcsFinalize
  simp only [uploadAll_withNew]
  rfl

/-- the Cloud KMS rotation never consults `bump` -/
theorem rotateKeyKms_withNew (cfg : Cfg) (K : String) (env : KmsEnv) (req : Req) :
    rotateKeyKms (cfg.withNew K) env req = rotateKeyKms cfg env req := by
  unfold rotateKeyKms
  simp only [caFinalize_withNew]
  rfl

/-! ### accounting: an error without a fault needs `overwrite = false` or a Cloud KMS that misbehaves -/

theorem Tr.and_ow {α : Type} {ow : Bool} (b : Bool) {P : St → Prop} {m : Run α} {Q : α → St → Prop} {X : St → Prop}
    (h : Tr sc ow P m Q X) : Tr sc (ow && b) P m Q X :=
  Triple.conseq h (fun _ h => h) (fun _ _ h => h)
    (fun _ hr => ⟨hr.1, hr.2.imp (fun x => x) (fun e => by rw [e]; rfl)⟩) (fun _ h => h)

theorem and_benign_false {ow : Bool} {env : KmsEnv} (h : env.benign = false) : (ow && env.benign) = false := by
  rw [h]; simp

/-! ### the signer -/

section leaf
variable {ow : Bool} {P X : St → Prop}

/-- go: gcpkms.Signer.PublicKey on a key the precondition shows to be live -/
theorem sgPubK_spec (env : KmsEnv) (k : String) (hP : Stable P) (hPX : ∀ s, P s → X s)
    (hk : ∀ s, P s → ∃ a, lookup s.keys k = some a) :
    Tr sc ow P (sgPubK env k) (fun a s => P s ∧ lookup s.keys k = some a) X := by
  unfold sgPubK kmsPub
  refine Tr.wrap (P' := P) (.sgPub k) (fun s f h => hP s _ f (nd_sgPub k) h)
    (fun s h => hPX _ (hP s _ _ (nd_sgPub k) h)) ?_ (fun a s h => hPX s h.1)
  refine Tr.wrap (P' := P) (.kmsPub k) (fun s f h => hP s _ f (nd_kmsPub k) h)
    (fun s h => hPX _ (hP s _ _ (nd_kmsPub k) h)) ?_ (fun a s h => hPX s h.1)
  refine Triple.getSt_bind ?_
  intro s0 h0
  obtain ⟨a, ha⟩ := hk s0 h0
  rw [ha]
  exact Triple.pure _ (fun s hs => by subst hs; exact ⟨h0, ha⟩)

/-- go: gcpkms.Signer.Sign on a live key; a corrupted response is an error of the environment -/
theorem sgSignK_spec (env : KmsEnv) (k : String) (hP : Stable P) (hPX : ∀ s, P s → X s)
    (hk : ∀ s, P s → ∃ a, lookup s.keys k = some a) :
    Tr sc (ow && env.benign) P (sgSignK env k) (fun a s => P s ∧ lookup s.keys k = some a) X := by
  unfold sgSignK kmsSign
  refine Tr.wrap (P' := P) (.sgSign k) (fun s f h => hP s _ f (nd_sgSign k) h)
    (fun s h => hPX _ (hP s _ _ (nd_sgSign k) h)) ?_ (fun a s h => hPX s h.1)
  refine Triple.bind (Q1 := fun a s => P s ∧ lookup s.keys k = some a) ?_ ?_
  · refine Tr.wrap (P' := P) (.kmsSign k) (fun s f h => hP s _ f (nd_kmsSign k) h)
      (fun s h => hPX _ (hP s _ _ (nd_kmsSign k) h)) ?_ (fun a s h => hPX s h.1)
    refine Triple.getSt_bind ?_
    intro s0 h0
    obtain ⟨a, ha⟩ := hk s0 h0
    rw [ha]
    exact Triple.pure _ (fun s hs => by subst hs; exact ⟨h0, ha⟩)
  intro a
  refine Triple.ite (fun hc => ?_) (fun _ => Triple.pure _ (fun _ h => h))
  refine Triple.throw (fun s h => ⟨hPX s h.1, Or.inr (and_benign_false ?_)⟩)
  unfold KmsEnv.benign; rw [hc]; simp

end leaf

/-! ### creating the new version and waiting for it -/

section gcs
variable {ow : Bool}
variable {cfg : Cfg} {m0 : Manifest} {r c0 : Cert} {path0 : String}

/-- adding a usable key under a name that is not in use keeps the phase predicate -/
theorem Ph.add_key {b : Bool} {s s' : St} {K : String} (h : Ph cfg m0 r c0 path0 b none s)
    (hK : lookup s.keys K = none) (mat : Nat)
    (hf1 : s'.store = s.store) (hf2 : s'.keys = (K, mat) :: s.keys) (hf3 : s'.cache = s.cache)
    (hf4 : s'.log = s.log) :
    Ph cfg m0 r c0 path0 b (some (K, mat)) s' := by
  have h1 : K ≠ m0.signing := by
    intro e; rw [e, h.inv.kprim] at hK; cases hK
  have h2 : K ≠ m0.root := by
    intro e; rw [e, h.inv.kroot] at hK; cases hK
  refine ⟨⟨by rw [hf1]; exact h.inv.man, by rw [hf1]; exact h.inv.root, h.inv.entry, by rw [hf1]; exact h.inv.prim,
    by rw [hf2, lookup_cons_ne _ _ _ _ h1]; exact h.inv.kprim, h.inv.chain,
    by rw [hf2, lookup_cons_ne _ _ _ _ h2]; exact h.inv.kroot, h.inv.sig_ne, h.inv.root_ne, h.inv.sr, h.inv.pm,
    h.inv.rm, h.inv.broot⟩, by rw [hf3]; exact h.cache, by rw [hf4]; exact h.nd, ?_⟩
  intro k m e
  cases e
  rw [hf2]; exact lookup_cons_self _ _ _

/-- a change of the key service's bookkeeping alone keeps the phase predicate -/
theorem Ph.frame {b : Bool} {kk : Option (String × Nat)} {s s' : St} (h : Ph cfg m0 r c0 path0 b kk s)
    (h1 : s'.store = s.store) (h2 : s'.keys = s.keys) (h3 : s'.cache = s.cache) (h4 : s'.log = s.log) :
    Ph cfg m0 r c0 path0 b kk s' :=
  ⟨h.inv.transfer h1 h2, by rw [h3]; exact h.cache, by rw [h4]; exact h.nd, by rw [h2]; exact h.key⟩

/-- while waiting: the new version `K` is not usable yet and will answer PENDING_GENERATION `j` more times -/
def PhW (cfg : Cfg) (m0 : Manifest) (r c0 : Cert) (path0 : String) (K : String) (j : Nat) (s : St) : Prop :=
  Ph cfg m0 r c0 path0 false none s ∧ lookup s.keys K = none ∧ lookup s.kdead K = some (.pending j)

theorem PhW.stable (K : String) (j : Nat) : Stable (PhW cfg m0 r c0 path0 K j) :=
  fun s c f hc h => ⟨Ph.stable false none s c f hc h.1, h.2.1, h.2.2⟩

/-- after CreateCryptoKeyVersion: what is known of the new version `K`, by the state it was created in -/
def PhC (cfg : Cfg) (m0 : Manifest) (r c0 : Cert) (path0 : String) (env : KmsEnv) (K : String) (s : St) : Prop :=
  match env.created with
  | .pending => PhW cfg m0 r c0 path0 K env.gen s
  | .enabled => ∃ mat, Ph cfg m0 r c0 path0 false (some (K, mat)) s
  | .disabled => Ph cfg m0 r c0 path0 false none s ∧ lookup s.keys K = none ∧ lookup s.kdead K = some .disabled
  | .genFailed => Ph cfg m0 r c0 path0 false none s ∧ lookup s.keys K = none ∧ lookup s.kdead K = some .genFailed

theorem PhC.weaken {env : KmsEnv} {K : String} {s : St} (h : PhC cfg m0 r c0 path0 env K s) :
    Ph cfg m0 r c0 path0 false none s := by
  unfold PhC at h
  cases hc : env.created <;> rw [hc] at h
  · exact h.1
  · obtain ⟨mat, hm⟩ := h; exact hm.weaken
  · exact h.1
  · exact h.1

/-- go: CreateCryptoKeyVersion — the version number after the last one, in the state the environment
    creates versions in -/
theorem kmsCreateVer_spec (env : KmsEnv) (n0 : Nat) :
    Tr sc ow (fun s => Ph cfg m0 r c0 path0 false none s ∧ s.kcount = n0 ∧
        lookup s.keys (verName env.parent (n0 + 1)) = none)
      (kmsCreateVer env)
      (fun kv s => kv = verName env.parent (n0 + 1) ∧ PhC cfg m0 r c0 path0 env (verName env.parent (n0 + 1)) s)
      (Ph cfg m0 r c0 path0 false none) := by
  unfold kmsCreateVer
  refine Tr.wrap (P' := fun s => Ph cfg m0 r c0 path0 false none s ∧ s.kcount = n0 ∧
      lookup s.keys (verName env.parent (n0 + 1)) = none) .kmsCreate
    (fun s f h => ⟨Ph.stable false none s _ f nd_kmsCreate h.1, h.2.1, h.2.2⟩)
    (fun s h => Ph.stable false none s _ _ nd_kmsCreate h.1) ?_ (fun a s h => h.2.weaken)
  refine Triple.getSt_bind ?_
  intro s0 h0
  refine Triple.bind (Q1 := fun _ s => PhC cfg m0 r c0 path0 env (verName env.parent (n0 + 1)) s) ?_ ?_
  · refine Triple.modSt _ ?_
    intro s hs
    subst hs
    rw [h0.2.1]
    unfold PhC createVer
    cases hc : env.created
    · exact ⟨h0.1.frame rfl rfl rfl rfl, h0.2.2, lookup_cons_self _ _ _⟩
    · exact ⟨s.nextMat, h0.1.add_key h0.2.2 s.nextMat rfl rfl rfl rfl⟩
    · exact ⟨h0.1.frame rfl rfl rfl rfl, h0.2.2, lookup_cons_self _ _ _⟩
    · exact ⟨h0.1.frame rfl rfl rfl rfl, h0.2.2, lookup_cons_self _ _ _⟩
  intro _
  rw [h0.2.1]
  exact Triple.pure _ (fun s h => ⟨rfl, h⟩)

/-- what one poll of the waiting version establishes -/
def GetPost (cfg : Cfg) (m0 : Manifest) (r c0 : Cert) (path0 : String) (env : KmsEnv) (K : String) (j : Nat)
    (o : KObs) (s : St) : Prop :=
  match o with
  | .enabled => ∃ mat, Ph cfg m0 r c0 path0 false (some (K, mat)) s
  | .pending => ∃ j', j = j' + 1 ∧ PhW cfg m0 r c0 path0 K j' s
  | .other => Ph cfg m0 r c0 path0 false none s ∧ env.final.isNone = false

/-- go: GetCryptoKeyVersion on the version being generated -/
theorem kmsGet_spec (env : KmsEnv) (K : String) (j : Nat) :
    Tr sc ow (PhW cfg m0 r c0 path0 K j) (kmsGet env K) (GetPost cfg m0 r c0 path0 env K j)
      (Ph cfg m0 r c0 path0 false none) := by
  unfold kmsGet
  refine Tr.wrap (P' := PhW cfg m0 r c0 path0 K j) (.kmsGet K)
    (fun s f h => PhW.stable K j s _ f (nd_kmsGet K) h)
    (fun s h => (PhW.stable K j s _ _ (nd_kmsGet K) h).1) ?_ ?_
  · refine Triple.getSt_bind ?_
    intro s0 h0
    rw [h0.2.1, h0.2.2]
    cases j with
    | zero =>
      show Triple sc _ (match env.final with
        | none => _
        | some st => _) _ _ _
      cases hfin : env.final with
      | none =>
        show Triple sc _ (modSt _ >>= fun _ => pure KObs.enabled) _ _ _
        refine Triple.bind (Q1 := fun _ s => ∃ mat, Ph cfg m0 r c0 path0 false (some (K, mat)) s) ?_ ?_
        · refine Triple.modSt _ ?_
          intro s hs
          subst hs
          exact ⟨s.nextMat, h0.1.add_key h0.2.1 s.nextMat rfl rfl rfl rfl⟩
        intro _
        exact Triple.pure _ (fun s h => h)
      | some st =>
        show Triple sc _ (modSt _ >>= fun _ => pure KObs.other) _ _ _
        refine Triple.bind (Q1 := fun _ s => Ph cfg m0 r c0 path0 false none s) ?_ ?_
        · refine Triple.modSt _ ?_
          intro s hs
          subst hs
          exact h0.1.frame rfl rfl rfl rfl
        intro _
        exact Triple.pure _ (fun s h => ⟨h, by rw [hfin]; rfl⟩)
    | succ j' =>
      show Triple sc _ (modSt _ >>= fun _ => pure KObs.pending) _ _ _
      refine Triple.bind (Q1 := fun _ s => PhW cfg m0 r c0 path0 K j' s) ?_ ?_
      · refine Triple.modSt _ ?_
        intro s hs
        subst hs
        exact ⟨h0.1.frame rfl rfl rfl rfl, h0.2.1, lookup_cons_self _ _ _⟩
      intro _
      exact Triple.pure _ (fun s h => ⟨j', rfl, h⟩)
  · intro o s h
    cases o with
    | enabled => obtain ⟨mat, hm⟩ := h; exact hm.weaken
    | pending => obtain ⟨j', _, hw⟩ := h; exact hw.1
    | other => exact h.1

/-- go: waitForKeyVersionGen — with enough fuel for the countdown the loop ends with the version ENABLED
    and usable, or with an error that is a fault or the environment's doing -/
theorem kmsWait_spec (env : KmsEnv) (K : String) :
    ∀ (fuel j : Nat), j < fuel →
    Tr sc (ow && env.benign) (PhW cfg m0 r c0 path0 K j) (kmsWait env K fuel)
      (fun kv s => kv = K ∧ ∃ mat, Ph cfg m0 r c0 path0 false (some (K, mat)) s)
      (Ph cfg m0 r c0 path0 false none) := by
  intro fuel
  induction fuel with
  | zero => intro j hj; exact absurd hj (Nat.not_lt_zero _)
  | succ fuel ih =>
    intro j hj
    unfold kmsWait
    refine Triple.bind (kmsGet_spec env K j) ?_
    intro o
    cases o with
    | enabled => exact Triple.pure _ (fun s h => ⟨rfl, h⟩)
    | pending =>
      show Triple sc _ (if env.deadline = true then throw else kmsWait env K fuel) _ _ _
      refine Triple.ite (fun hd => ?_) (fun _ => ?_)
      · refine Triple.throw (fun s h => ?_)
        obtain ⟨j', _, hw⟩ := h
        refine ⟨hw.1, Or.inr (and_benign_false ?_)⟩
        unfold KmsEnv.benign; rw [hd]; simp
      · refine Triple.of_exists ?_
        intro j'
        refine Triple.of_fact ?_
        intro hj'
        exact ih j' (by omega)
    | other =>
      refine Triple.throw (fun s h => ⟨h.1, Or.inr (and_benign_false ?_)⟩)
      unfold KmsEnv.benign; rw [h.2]; simp

/-- go: GetCryptoKeyVersion on a version that is ENABLED -/
theorem kmsGet_live (env : KmsEnv) (K : String) (mat : Nat) :
    Tr sc ow (Ph cfg m0 r c0 path0 false (some (K, mat))) (kmsGet env K)
      (fun o s => o = .enabled ∧ Ph cfg m0 r c0 path0 false (some (K, mat)) s)
      (Ph cfg m0 r c0 path0 false none) := by
  unfold kmsGet
  refine Tr.wrap (P' := Ph cfg m0 r c0 path0 false (some (K, mat))) (.kmsGet K)
    (fun s f h => Ph.stable false _ s _ f (nd_kmsGet K) h)
    (fun s h => (Ph.stable false _ s _ _ (nd_kmsGet K) h).weaken) ?_ (fun o s h => h.2.weaken)
  refine Triple.getSt_bind ?_
  intro s0 h0
  rw [h0.key K mat rfl]
  exact Triple.pure _ (fun s hs => by subst hs; exact ⟨rfl, h0⟩)

/-- go: GetCryptoKeyVersion on a version that is neither ENABLED nor PENDING_GENERATION -/
theorem kmsGet_dead (env : KmsEnv) (K : String) (st : KState) (hst : ∀ n, st ≠ .pending n) :
    Tr sc ow (fun s => Ph cfg m0 r c0 path0 false none s ∧ lookup s.keys K = none ∧ lookup s.kdead K = some st)
      (kmsGet env K) (fun o s => o = .other ∧ Ph cfg m0 r c0 path0 false none s)
      (Ph cfg m0 r c0 path0 false none) := by
  unfold kmsGet
  refine Tr.wrap (P' := fun s => Ph cfg m0 r c0 path0 false none s ∧ lookup s.keys K = none ∧ lookup s.kdead K = some st)
    (.kmsGet K)
    (fun s f h => ⟨Ph.stable false none s _ f (nd_kmsGet K) h.1, h.2.1, h.2.2⟩)
    (fun s h => Ph.stable false none s _ _ (nd_kmsGet K) h.1) ?_ (fun o s h => h.2)
  refine Triple.getSt_bind ?_
  intro s0 h0
  rw [h0.2.1, h0.2.2]
  cases st with
  | pending n => exact absurd rfl (hst n)
  | disabled => exact Triple.pure _ (fun s hs => by subst hs; exact ⟨rfl, h0.1⟩)
  | scheduled => exact Triple.pure _ (fun s hs => by subst hs; exact ⟨rfl, h0.1⟩)
  | destroyed => exact Triple.pure _ (fun s hs => by subst hs; exact ⟨rfl, h0.1⟩)
  | genFailed => exact Triple.pure _ (fun s hs => by subst hs; exact ⟨rfl, h0.1⟩)

/-- go: waitForKeyVersionGen after CreateCryptoKeyVersion, whatever state the version was created in: the
    loop ends with the version ENABLED and usable, or with an error that is a fault or the environment's doing -/
theorem kmsWaitC_spec (env : KmsEnv) (K : String) :
    Tr sc (ow && env.benign) (PhC cfg m0 r c0 path0 env K) (kmsWait env K (env.gen + 1))
      (fun kv s => kv = K ∧ ∃ mat, Ph cfg m0 r c0 path0 false (some (K, mat)) s)
      (Ph cfg m0 r c0 path0 false none) := by
  have hdead : ∀ st : KState, (∀ n, st ≠ .pending n) → env.created.good = false →
      Tr sc (ow && env.benign)
        (fun s => Ph cfg m0 r c0 path0 false none s ∧ lookup s.keys K = none ∧ lookup s.kdead K = some st)
        (kmsWait env K (env.gen + 1))
        (fun kv s => kv = K ∧ ∃ mat, Ph cfg m0 r c0 path0 false (some (K, mat)) s)
        (Ph cfg m0 r c0 path0 false none) := by
    intro st hst hg
    unfold kmsWait
    refine Triple.bind (kmsGet_dead env K st hst) ?_
    intro o
    refine Triple.of_fact ?_
    intro ho
    subst ho
    refine Triple.throw (fun s h => ⟨h, Or.inr (and_benign_false ?_)⟩)
    unfold KmsEnv.benign; rw [hg]; simp
  unfold PhC
  cases hc : env.created with
  | pending => exact kmsWait_spec env K (env.gen + 1) env.gen (Nat.lt_succ_self _)
  | enabled =>
    refine Triple.of_exists ?_
    intro mat
    unfold kmsWait
    refine Triple.bind (kmsGet_live env K mat) ?_
    intro o
    refine Triple.of_fact ?_
    intro ho
    subst ho
    exact Triple.pure _ (fun s h => ⟨rfl, mat, h⟩)
  | disabled => exact hdead .disabled (fun n e => by cases e) (by rw [hc]; rfl)
  | genFailed => exact hdead .genFailed (fun n e => by cases e) (by rw [hc]; rfl)

/-- go: CreateCryptoKeyVersion as the client sees it: the second component (the state the response
    reports) is unconstrained -/
theorem kmsCreate_spec (env : KmsEnv) (n0 : Nat) :
    Tr sc ow (fun s => Ph cfg m0 r c0 path0 false none s ∧ s.kcount = n0 ∧
        lookup s.keys (verName env.parent (n0 + 1)) = none)
      (kmsCreate env)
      (fun p s => p.1 = verName env.parent (n0 + 1) ∧ PhC cfg m0 r c0 path0 env (verName env.parent (n0 + 1)) s)
      (Ph cfg m0 r c0 path0 false none) := by
  unfold kmsCreate
  refine Triple.bind (kmsCreateVer_spec env n0) ?_
  intro k
  exact Triple.pure _ (fun s h => h)

/-- go: gcpkms.Manager.CreateNewSigningKeyVersion -/
theorem kmCreateK_spec (env : KmsEnv) (n0 : Nat) :
    Tr sc (ow && env.benign) (fun s => Ph cfg m0 r c0 path0 false none s ∧ s.kcount = n0 ∧
        lookup s.keys (verName env.parent (n0 + 1)) = none)
      (kmCreateK env)
      (fun kv s => kv = verName env.parent (n0 + 1) ∧
        ∃ mat, Ph cfg m0 r c0 path0 false (some (verName env.parent (n0 + 1), mat)) s)
      (Ph cfg m0 r c0 path0 false none) := by
  unfold kmCreateK
  refine Tr.wrap (P' := fun s => Ph cfg m0 r c0 path0 false none s ∧ s.kcount = n0 ∧
      lookup s.keys (verName env.parent (n0 + 1)) = none) .kmCreate
    (fun s f h => ⟨Ph.stable false none s _ f nd_kmCreate h.1, h.2.1, h.2.2⟩)
    (fun s h => Ph.stable false none s _ _ nd_kmCreate h.1) ?_ (fun a s h => by
      obtain ⟨_, mat, hm⟩ := h; exact hm.weaken)
  refine Triple.bind (kmsCreate_spec env n0) ?_
  intro p
  refine Triple.of_fact ?_
  intro hk
  rw [hk]
  exact kmsWaitC_spec env _

/-- go: keyRequest.getCurrentInfo, from an authority instance that may not have read its manifest yet -/
theorem getCurrentInfoK_spec (hca : cfg.ca = .gcsca) (kk : Option (String × Nat)) :
    Tr sc ow (Ph cfg m0 r c0 path0 false kk) (getCurrentInfo cfg)
      (fun x s => x = (m0.signing, m0.root, r) ∧ Ph cfg m0 r c0 path0 true kk s)
      (Ph cfg m0 r c0 path0 false kk) := by
  unfold getCurrentInfo
  refine Triple.bind (caPsk_spec hca false kk) ?_
  intro cur
  refine Triple.of_fact ?_
  intro h1
  refine Tr.weaken (X := Ph cfg m0 r c0 path0 true kk) ?_ (fun _ h => h) (fun _ _ h => h) (fun _ h => h.uncache)
  refine Triple.bind (caPrk_spec hca true kk) ?_
  intro root
  refine Triple.of_fact ?_
  intro h2
  refine Triple.bind (caIssuer_spec hca true kk) ?_
  intro iss
  refine Triple.of_fact ?_
  intro h3
  exact Triple.pure _ (fun s h => ⟨by rw [h1, h2, h3], h⟩)

/-- go: sops.CreateCertificateFromTemplate with the root as issuer, over the Cloud KMS signer -/
theorem createCertificateK_spec (env : KmsEnv) (req : Req) (subjPub : Nat) (kk : Option (String × Nat)) :
    Tr sc (ow && env.benign) (Ph cfg m0 r c0 path0 true kk) (createCertificateK cfg env req subjPub m0.root (some r))
      (fun c s => c = ⟨req.cn, req.serial, subjPub, r.pub⟩ ∧ Ph cfg m0 r c0 path0 true kk s)
      (Ph cfg m0 r c0 path0 true kk) := by
  unfold createCertificateK
  have hpub : Tr sc (ow && env.benign) (Ph cfg m0 r c0 path0 true kk) (sgPubK env m0.root)
      (fun a s => a = r.pub ∧ Ph cfg m0 r c0 path0 true kk s) (Ph cfg m0 r c0 path0 true kk) :=
    (sgPubK_spec env m0.root (Ph.stable true kk) (fun _ h => h) (fun s h => ⟨_, h.inv.kroot⟩)).post
      (fun a s h => ⟨by have := h.1.inv.kroot; rw [h.2] at this; exact (Option.some.inj this), h.1⟩)
  refine Triple.bind (Triple.repeatRun hpub cfg.pubPre) ?_
  intro pre
  refine Triple.of_fact ?_
  intro hpre
  rw [parentMatches_of_all hpre]
  show Triple sc _ (sgSignK env m0.root >>= fun b => _) _ _ _
  refine Triple.bind (Q1 := fun a s => a = r.pub ∧ Ph cfg m0 r c0 path0 true kk s) ?_ ?_
  · exact (sgSignK_spec env m0.root (Ph.stable true kk) (fun _ h => h) (fun s h => ⟨_, h.inv.kroot⟩)).post
      (fun a s h => ⟨by have := h.1.inv.kroot; rw [h.2] at this; exact (Option.some.inj this), h.1⟩)
  intro b
  refine Triple.of_fact ?_
  intro hb
  refine Triple.bind (Triple.repeatRun hpub cfg.pubPost) ?_
  intro _
  exact Triple.pure _ (fun s h => ⟨by rw [hb], h.2⟩)

/-- go: rotate.signCert for the new key version (the Cloud KMS template makes no call) -/
theorem signCertK_spec (hca : cfg.ca = .gcsca) (env : KmsEnv) (req : Req) (k : String) (mat : Nat) :
    Tr sc (ow && env.benign) (Ph cfg m0 r c0 path0 true (some (k, mat))) (signCertK cfg env req {} r k m0.root)
      (fun x s => x.2 = ⟨req.cn, req.serial, mat, r.pub⟩ ∧ x.1.certs = [(k, x.2)] ∧ x.1.primaryRoot = none ∧
        x.1.primarySigning = none ∧ x.1.rootCert = none ∧ Ph cfg m0 r c0 path0 true (some (k, mat)) s)
      (Ph cfg m0 r c0 path0 true (some (k, mat))) := by
  unfold signCertK
  refine Triple.bind (Q1 := fun a s => a = mat ∧ Ph cfg m0 r c0 path0 true (some (k, mat)) s) ?_ ?_
  · exact (sgPubK_spec env k (Ph.stable true _) (fun _ h => h) (fun s h => ⟨_, h.key k mat rfl⟩)).post
      (fun a s h => ⟨by have := h.1.key k mat rfl; rw [h.2] at this; exact (Option.some.inj this), h.1⟩)
  intro sp
  refine Triple.of_fact ?_
  intro hsp
  rw [hsp]
  refine Triple.bind (createCertificateK_spec env req mat _) ?_
  intro c
  refine Triple.of_fact ?_
  intro hc
  unfold mutAddCert; rw [hca]
  show Triple sc _ ((pure _ : Run Mut) >>= fun mu' => pure (mu', c)) _ _ _
  refine Triple.bind (Triple.pure (Q := fun mu s => mu = ({ certs := [(k, c)] } : Mut) ∧ Ph cfg m0 r c0 path0 true (some (k, mat)) s) _ (fun s h => ⟨rfl, h⟩)) ?_
  intro mu
  refine Triple.of_fact ?_
  intro hmu
  exact Triple.pure _ (fun s h => ⟨hc, by rw [hmu], by rw [hmu], by rw [hmu], by rw [hmu], h⟩)

/-- the durable invariant and destroy-after-commit at both levels -/
def SafeK (cfg : Cfg) (s : St) : Prop := Inv cfg s ∧ DAC cfg s.log ∧ DACK cfg s.log

theorem SafeN.safeK {s : St} (h : SafeN cfg s) : SafeK cfg s :=
  ⟨h.1, DAC_of_noDestroy cfg h.2, DACK_of_noDestroy cfg h.2⟩

/-- a log that ends with the manager's destroy call has no Cloud KMS destroy request yet -/
theorem DACK_snoc_km (cfg : Cfg) {L : List (Call × Fault)} (h : NoDestroy L) (k : String) (f : Fault) :
    DACK cfg (L ++ [(Call.kmDestroy k, f)]) := by
  intro pre k2 f2 post hl _
  rcases snoc_eq_append_cons hl with ⟨_, _, h3⟩ | h4
  · cases h3
  · exact absurd rfl (h _ h4 k2).2

/-- go: gcpkms.Manager.DestroyKeyVersion of the old primary, after the commit -/
theorem kmDestroyK_spec (hca : cfg.ca = .gcsca) {m3 : Manifest} {C : Cert} {T : String}
    (h1 : m3.signing ≠ m0.signing) (h2 : m3.root ≠ m0.signing) :
    Tr sc ow (PhD cfg m0 r c0 m3 C T .ok) (kmDestroyK m0.signing)
      (fun _ s => (InvG cfg m3 r C T s ∧ DAC cfg s.log ∧ DACK cfg s.log) ∧
        lookup s.keys m0.signing = none ∧ lookup s.kdead m0.signing = some .scheduled) (SafeK cfg) := by
  unfold kmDestroyK kmsDestroy
  have hsafe : ∀ s, (InvG cfg m3 r C T s ∧ DAC cfg s.log ∧ DACK cfg s.log) → SafeK cfg s := by
    intro s h
    refine ⟨?_, h.2⟩
    unfold Inv; rw [hca]; exact ⟨m3, r, C, T, h.1⟩
  refine Tr.wrap (P' := fun s => InvG cfg m3 r C T s ∧ lookup s.keys m0.signing = some c0.pub ∧
      ∃ L f, s.log = L ++ [(Call.kmDestroy m0.signing, f)] ∧ NoDestroy L ∧ commitCall cfg ∈ L)
    (.kmDestroy m0.signing)
    (fun s f h => ⟨h.inv.transfer rfl rfl, h.old, s.log, f, rfl, h.nd, h.com rfl⟩)
    (fun s h => hsafe _ ⟨h.inv.transfer rfl rfl, DAC_snoc_destroy cfg h.nd (h.com rfl) _ _, DACK_snoc_km cfg h.nd _ _⟩)
    ?_ (fun _ s h => hsafe s h.1)
  refine Tr.wrap (P' := fun s => InvG cfg m3 r C T s ∧ lookup s.keys m0.signing = some c0.pub ∧
      DAC cfg s.log ∧ DACK cfg s.log)
    (.kmsDestroy m0.signing)
    (fun s f h => by
      obtain ⟨hi, hold, L, f0, hl, hnd, hcom⟩ := h
      refine ⟨hi.transfer rfl rfl, hold, ?_, ?_⟩
      · show DAC cfg (s.log ++ [(Call.kmsDestroy m0.signing, f)])
        rw [hl]
        exact DAC_snoc_other cfg (DAC_snoc_destroy cfg hnd hcom _ _) (fun k e => by cases e) f
      · show DACK cfg (s.log ++ [(Call.kmsDestroy m0.signing, f)])
        rw [hl]
        exact DACK_snoc_kms cfg hnd hcom _ _ _ _)
    (fun s h => by
      obtain ⟨hi, hold, L, f0, hl, hnd, hcom⟩ := h
      refine hsafe _ ⟨hi.transfer rfl rfl, ?_, ?_⟩
      · show DAC cfg (s.log ++ [(Call.kmsDestroy m0.signing, Fault.fail)])
        rw [hl]
        exact DAC_snoc_other cfg (DAC_snoc_destroy cfg hnd hcom _ _) (fun k e => by cases e) _
      · show DACK cfg (s.log ++ [(Call.kmsDestroy m0.signing, Fault.fail)])
        rw [hl]
        exact DACK_snoc_kms cfg hnd hcom _ _ _ _)
    ?_ (fun _ s h => hsafe s h.1)
  refine Triple.getSt_bind ?_
  intro s0 h0
  rw [h0.2.1]
  refine Triple.modSt _ ?_
  intro s hs
  subst hs
  refine ⟨⟨?_, h0.2.2⟩, lookup_erase_self _ _, lookup_cons_self _ _ _⟩
  have hi := h0.1
  exact ⟨hi.man, hi.root, hi.entry, hi.prim,
    by show lookup (erase s.keys m0.signing) m3.signing = _
       rw [lookup_erase_ne _ _ _ h1]; exact hi.kprim,
    hi.chain,
    by show lookup (erase s.keys m0.signing) m3.root = _
       rw [lookup_erase_ne _ _ _ h2]; exact hi.kroot,
    hi.sig_ne, hi.root_ne, hi.sr, hi.pm, hi.rm, hi.broot⟩

/-- go: rotate.Key on the Cloud KMS stack with the deferred authority, for one arbitrary fault script and
    one arbitrary environment: a normal return means the durable state is the rotated one; an error or a
    crash leaves a durable state satisfying the invariant; every log satisfies destroy-after-commit at both
    levels; a crash needs a fault; an error needs a fault, `overwrite = false`, or an environment that is
    not benign. -/
theorem rotateKeyKms_gcs (hca : cfg.ca = .gcsca) (env : KmsEnv) (req : Req) (n0 : Nat)
    (hK : cfg.bump m0.signing = verName env.parent (n0 + 1))
    (ht1 : target cfg req m0 ≠ manifestName) (ht2 : target cfg req m0 ≠ cfg.rootPath) :
    Tr sc ((cfg.overwrite && !claimed cfg req m0) && env.benign)
      (fun s => Ph cfg m0 r c0 path0 false none s ∧ s.kcount = n0 ∧
        lookup s.keys (verName env.parent (n0 + 1)) = none)
      (rotateKeyKms cfg env req)
      (fun kv s => kv = cfg.bump m0.signing ∧ claimed cfg req m0 = false ∧ ∃ mat, (InvG cfg (rotatedManifest cfg req m0) r
        ⟨req.cn, req.serial, mat, r.pub⟩ (target cfg req m0) s ∧ DAC cfg s.log ∧ DACK cfg s.log) ∧
        lookup s.keys m0.signing = none ∧ lookup s.kdead m0.signing = some .scheduled)
      (SafeK cfg) := by
  unfold rotateKeyKms
  refine Triple.have_fact (φ := m0.signing ≠ m0.root ∧ m0.signing ≠ "" ∧ cfg.bump m0.signing ≠ m0.signing)
    (fun s h => ⟨h.1.inv.sr, h.1.inv.sig_ne, by
      intro e
      have := h.2.2
      rw [← hK, e, h.1.inv.kprim] at this
      cases this⟩) ?_
  intro hst
  have hb2 : cfg.bump m0.signing ≠ "" := by rw [hK]; exact verName_ne_empty _ _
  refine Triple.bind (Q1 := fun kv s => kv = cfg.bump m0.signing ∧
      ∃ mat, Ph cfg m0 r c0 path0 false (some (cfg.bump m0.signing, mat)) s) ?_ ?_
  · exact (kmCreateK_spec env n0).weaken (fun _ h => h) (fun _ _ h => by rw [hK]; exact h)
      (fun _ h => (h.safeN hca).safeK)
  intro kver
  refine Triple.of_fact ?_
  intro hk
  refine Triple.of_exists ?_
  intro mat
  refine Triple.bind ((getCurrentInfoK_spec hca _).weaken (fun _ h => h) (fun _ _ h => h) (fun _ h => (h.safeN hca).safeK)) ?_
  intro x
  refine Triple.of_fact ?_
  intro hx
  rw [hx, hk]
  show Triple sc _ (if m0.root = "" ∨ cfg.bump m0.signing = "" then throw else _) _ _ _
  refine Triple.ite (fun hc => Triple.unreach (fun s h => ?_)) (fun _ => ?_)
  · rcases hc with hc | hc
    · exact h.inv.root_ne hc
    · exact hb2 hc
  refine Triple.bind ((signCertK_spec hca env req _ mat).weaken (fun _ h => h) (fun _ _ h => h) (fun _ h => (h.safeN hca).safeK)) ?_
  intro y
  obtain ⟨mu, c⟩ := y
  refine Triple.of_fact ?_
  intro hc
  refine Triple.pre (P := fun s => (mu.certs = [(cfg.bump m0.signing, c)] ∧ mu.primaryRoot = none ∧ mu.primarySigning = none ∧ mu.rootCert = none) ∧ Ph cfg m0 r c0 path0 true (some (cfg.bump m0.signing, mat)) s) ?_
    (fun s h => ⟨⟨h.1, h.2.1, h.2.2.1, h.2.2.2.1⟩, h.2.2.2.2⟩)
  refine Triple.of_fact ?_
  intro hmu
  simp only at hc hmu
  show Triple sc _ (mutSetPrimary cfg mu (cfg.bump m0.signing) >>= fun mu2 => _) _ _ _
  unfold mutSetPrimary; rw [hca]
  show Triple sc _ ((pure { mu with primarySigning := some (cfg.bump m0.signing) } : Run Mut) >>= fun mu2 => _) _ _ _
  refine Triple.bind (Triple.pure (Q := fun mu2 s => mu2 = { mu with primarySigning := some (cfg.bump m0.signing) } ∧ Ph cfg m0 r c0 path0 true (some (cfg.bump m0.signing, mat)) s) _ (fun s h => ⟨rfl, h⟩)) ?_
  intro mu2
  refine Triple.of_fact ?_
  intro hmu2
  rw [hmu2]
  show Triple sc _ (caFinalize cfg _ mu.certs >>= fun _ => _) _ _ _
  rw [hmu.1, hc]
  have hfin : Tr sc ((cfg.overwrite && !claimed cfg req m0) && env.benign) (Ph cfg m0 r c0 path0 true (some (cfg.bump m0.signing, mat)))
      (caFinalize cfg { mu with primarySigning := some (cfg.bump m0.signing) }
        [(cfg.bump m0.signing, ⟨req.cn, req.serial, mat, r.pub⟩)])
      (fun _ s => claimed cfg req m0 = false ∧
        PhD cfg m0 r c0 (rotatedManifest cfg req m0) ⟨req.cn, req.serial, mat, r.pub⟩ (target cfg req m0) .ok s)
      (SafeK cfg) :=
    Tr.weaken (Tr.and_ow env.benign (caFinalize_spec hca hst.2.2 hb2 req mat _ hmu.2.1 rfl hmu.2.2.2 ht1 ht2))
      (fun _ h => h) (fun _ _ h => h) (fun _ h => h.safeK)
  refine Triple.bind hfin ?_
  intro _
  refine Triple.of_fact ?_
  intro hcf
  refine Triple.bind (Q1 := fun _ s => (InvG cfg (rotatedManifest cfg req m0) r ⟨req.cn, req.serial, mat, r.pub⟩ (target cfg req m0) s ∧ DAC cfg s.log ∧ DACK cfg s.log) ∧
      lookup s.keys m0.signing = none ∧ lookup s.kdead m0.signing = some .scheduled) ?_ ?_
  · unfold destroyOldK
    refine Triple.ite (fun _ => ?_) (fun hne => Triple.unreach (fun s h => ?_))
    · exact kmDestroyK_spec hca (by rw [rotatedManifest_signing]; exact hst.2.2)
        (by rw [rotatedManifest_root]; exact Ne.symm hst.1)
    · exact hne hst.2.1
  intro _
  exact Triple.pure _ (fun s h => ⟨rfl, hcf, mat, h⟩)

end gcs

/-! ### hygiene of the key service is an invariant of every run

Only three calls touch the usable keys or the version counter: CreateCryptoKeyVersion, the poll that
completes generation, DestroyCryptoKeyVersion.  Everything else is framed out. -/

def KV (s : St) : List (String × Nat) × Nat := (s.keys, s.kcount)

/-- `m` never changes the usable keys or the version counter -/
structure Frame {α : Type} (m : Run α) : Prop where
  h : ∀ sc s, KV (m sc s).state = KV s

theorem Frame.pure {α : Type} (a : α) : Frame (Pure.pure a : Run α) := ⟨fun _ _ => rfl⟩
theorem Frame.throw {α : Type} : Frame (throw : Run α) := ⟨fun _ _ => rfl⟩
theorem Frame.getSt : Frame getSt := ⟨fun _ _ => rfl⟩
theorem Frame.modSt (f : St → St) (h : ∀ s, KV (f s) = KV s) : Frame (modSt f) := ⟨fun _ s => h s⟩

theorem Frame.bind {α β : Type} {m : Run α} {f : α → Run β} (h1 : Frame m) (h2 : ∀ a, Frame (f a)) :
    Frame (m >>= f) := by
  refine ⟨fun sc s => ?_⟩
  have := h1.h sc s
  show KV (match m sc s with
    | .ok a s' => f a sc s'
    | .err s' => .err s'
    | .crash s' => .crash s').state = KV s
  cases hm : m sc s with
  | ok a s' => rw [hm] at this; simp only []; rw [(h2 a).h sc s']; exact this
  | err s' => rw [hm] at this; exact this
  | crash s' => rw [hm] at this; exact this

theorem Frame.wrap {α : Type} (c : Call) {body : Run α} (h : Frame body) : Frame (wrap c body) := by
  refine ⟨fun sc s => ?_⟩
  unfold CA.wrap
  cases sc s.pos with
  | fail => rfl
  | ok => exact h.h sc (s.logged c .ok)
  | crash =>
    have := h.h sc (s.logged c .crash)
    cases hb : body sc (s.logged c .crash) with
    | ok a s' => rw [hb] at this; exact this
    | err s' => rw [hb] at this; exact this
    | crash s' => rw [hb] at this; exact this

theorem Frame.attempt {α : Type} {m : Run α} (h : Frame m) : Frame (attempt m) := by
  refine ⟨fun sc s => ?_⟩
  have := h.h sc s
  unfold CA.attempt
  cases hm : m sc s with
  | ok a s' => rw [hm] at this; exact this
  | err s' => rw [hm] at this; exact this
  | crash s' => rw [hm] at this; exact this

theorem Frame.ofOption {α : Type} (o : Option α) : Frame (ofOption o) := by
  cases o with
  | none => exact Frame.throw
  | some a => exact Frame.pure a

theorem Frame.repeatRun {α : Type} {m : Run α} (h : Frame m) (n : Nat) : Frame (repeatRun n m) := by
  induction n with
  | zero => exact Frame.pure _
  | succ n ih =>
    unfold CA.repeatRun
    exact Frame.bind h (fun a => Frame.bind ih (fun r => Frame.pure _))

macro "frame" : tactic => `(tactic| repeat (first
  | exact Frame.pure _ | exact Frame.throw | exact Frame.getSt | exact Frame.modSt _ (fun _ => rfl)
  | exact Frame.ofOption _
  | apply Frame.wrap | apply Frame.attempt | apply Frame.repeatRun | apply Frame.bind | intro _ | split | assumption))

theorem stReader_frame (o : String) : Frame (stReader o) := by unfold stReader; frame
theorem stExists_frame (o : String) : Frame (stExists o) := by unfold stExists; frame
theorem writeFile_frame (o : String) (d : Obj) : Frame (writeFile o d) := by unfold writeFile; frame

theorem getManifest_frame : Frame getManifest := by
  have := stReader_frame manifestName
  unfold getManifest; frame

theorem writeIfAllowed_frame (cfg : Cfg) (o : String) (d : Obj) : Frame (writeIfAllowed cfg o d) := by
  have := stExists_frame o
  have := writeFile_frame o d
  unfold writeIfAllowed; frame

theorem upload_frame (cfg : Cfg) (k : String) (c : Cert) : Frame (upload cfg k c) := by
  unfold upload
  refine Frame.bind Frame.getSt (fun s => ?_)
  split
  · exact Frame.throw
  · exact Frame.bind (writeIfAllowed_frame _ _ _) (fun _ => Frame.modSt _ (fun _ => rfl))

theorem uploadAll_frame (cfg : Cfg) (l : List (String × Cert)) : Frame (uploadAll cfg l) := by
  induction l with
  | nil => exact Frame.pure _
  | cons h t ih =>
    obtain ⟨k, c⟩ := h
    exact Frame.bind (upload_frame cfg k c) (fun _ => ih)

theorem writeManifest_frame : Frame writeManifest := by
  unfold writeManifest
  exact Frame.bind Frame.getSt (fun s => writeFile_frame _ _)

theorem gcsFinalize_frame (cfg : Cfg) (mu : Mut) (o : List (String × Cert)) : Frame (gcsFinalize cfg mu o) := by
  have := getManifest_frame
  have := uploadAll_frame cfg o
  have := writeManifest_frame
  have := fun c => writeIfAllowed_frame cfg cfg.rootPath (.pem c)
  unfold gcsFinalize
  refine Frame.bind getManifest_frame (fun m => Frame.bind (Frame.modSt _ (fun _ => rfl)) (fun _ =>
    Frame.bind (uploadAll_frame cfg o) (fun _ => Frame.bind ?_ (fun _ => ?_))))
  · cases mu.rootCert with
    | none => exact Frame.pure _
    | some rc => exact Frame.bind (writeIfAllowed_frame cfg cfg.rootPath (.pem rc)) (fun _ => Frame.pure _)
  · split
    · exact writeManifest_frame
    · exact Frame.pure _

theorem caFinalize_frame (cfg : Cfg) (mu : Mut) (o : List (String × Cert)) : Frame (caFinalize cfg mu o) := by
  unfold caFinalize
  refine Frame.wrap _ ?_
  cases cfg.ca with
  | gcsca => exact gcsFinalize_frame cfg mu o
  | memca => exact Frame.pure _

theorem caPsk_frame (cfg : Cfg) : Frame (caPsk cfg) := by
  have := getManifest_frame
  unfold caPsk; frame

theorem caPrk_frame (cfg : Cfg) : Frame (caPrk cfg) := by
  have := getManifest_frame
  unfold caPrk; frame

theorem caIssuer_frame (cfg : Cfg) : Frame (caIssuer cfg) := by
  have := stReader_frame cfg.rootPath
  unfold caIssuer; frame

theorem getCurrentInfo_frame (cfg : Cfg) : Frame (getCurrentInfo cfg) := by
  unfold getCurrentInfo
  exact Frame.bind (caPsk_frame cfg) (fun _ => Frame.bind (caPrk_frame cfg) (fun _ =>
    Frame.bind (caIssuer_frame cfg) (fun _ => Frame.pure _)))

theorem sgPubK_frame (env : KmsEnv) (k : String) : Frame (sgPubK env k) := by unfold sgPubK kmsPub; frame
theorem sgSignK_frame (env : KmsEnv) (k : String) : Frame (sgSignK env k) := by unfold sgSignK kmsSign; frame

theorem createCertificateK_frame (cfg : Cfg) (env : KmsEnv) (req : Req) (p : Nat) (ik : String) (iss : Option Cert) :
    Frame (createCertificateK cfg env req p ik iss) := by
  have := sgPubK_frame env ik
  have := sgSignK_frame env ik
  unfold createCertificateK; frame

theorem mutAddCert_frame (cfg : Cfg) (mu : Mut) (k : String) (c : Cert) : Frame (mutAddCert cfg mu k c) := by
  unfold mutAddCert; frame

theorem mutSetPrimary_frame (cfg : Cfg) (mu : Mut) (k : String) : Frame (mutSetPrimary cfg mu k) := by
  unfold mutSetPrimary; frame

theorem signCertK_frame (cfg : Cfg) (env : KmsEnv) (req : Req) (mu : Mut) (iss : Cert) (k ik : String) :
    Frame (signCertK cfg env req mu iss k ik) := by
  unfold signCertK
  exact Frame.bind (sgPubK_frame env k) (fun _ => Frame.bind (createCertificateK_frame _ _ _ _ _ _) (fun _ =>
    Frame.bind (mutAddCert_frame _ _ _ _) (fun _ => Frame.pure _)))

/-- a predicate on the usable keys and the counter survives every framed program -/
theorem Frame.triple {α : Type} {m : Run α} (hm : Frame m) (J : St → Prop)
    (hJ : ∀ s s', KV s' = KV s → J s → J s') : Triple sc J m (fun _ => J) J J := by
  intro s hs
  have := hm.h sc s
  cases hr : m sc s with
  | ok a s' => rw [hr] at this; exact hJ s s' this hs
  | err s' => rw [hr] at this; exact hJ s s' this hs
  | crash s' => rw [hr] at this; exact hJ s s' this hs

theorem KHyg.of_KV {env : KmsEnv} {s s' : St} (h : KV s' = KV s) (hs : KHyg env s) : KHyg env s' := by
  have h1 : s'.keys = s.keys := congrArg Prod.fst h
  have h2 : s'.kcount = s.kcount := congrArg Prod.snd h
  intro n hn
  rw [h1]; rw [h2] at hn; exact hs n hn

/-- hygiene + `k` is a name the cryptoKey has already handed out -/
def KHygAt (env : KmsEnv) (k : String) (s : St) : Prop :=
  KHyg env s ∧ ∃ n, n ≤ s.kcount ∧ k = verName env.parent n

theorem KHygAt.add {env : KmsEnv} {k : String} {s s' : St} (h : KHygAt env k s) (mat : Nat)
    (h1 : s'.keys = (k, mat) :: s.keys) (h2 : s'.kcount = s.kcount) : KHyg env s' := by
  obtain ⟨hh, n, hn, hk⟩ := h
  intro n' hn'
  rw [h2] at hn'
  rw [h1]
  have hne : k ≠ verName env.parent n' := by
    intro e
    rw [hk] at e
    have := verName_inj _ _ _ e
    omega
  rw [lookup_cons_ne _ _ _ _ hne]
  exact hh n' hn'

theorem lookup_erase_none {α : Type} (l : List (String × α)) (q k : String) (h : lookup l k = none) :
    lookup (erase l q) k = none := by
  by_cases e : k = q
  · rw [e]; exact lookup_erase_self l q
  · rw [lookup_erase_ne l q k e]; exact h

theorem kmsCreateVer_hyg (env : KmsEnv) :
    Triple sc (KHyg env) (kmsCreateVer env) (fun k s => KHygAt env k s) (KHyg env) (KHyg env) := by
  unfold kmsCreateVer
  refine Triple.wrap (P' := KHyg env) .kmsCreate (fun s f h => KHyg.of_KV rfl h) (fun s h _ => KHyg.of_KV rfl h)
    ?_ (fun a s _ h => h.1) (fun s _ h => h)
  refine Triple.getSt_bind ?_
  intro s0 h0
  refine Triple.bind (Q1 := fun _ s => KHygAt env (verName env.parent (s0.kcount + 1)) s) ?_
    (fun _ => Triple.pure _ (fun s h => h))
  refine Triple.modSt _ ?_
  intro s hs
  subst hs
  have hk : ∀ s' : St, s'.keys = s.keys → s'.kcount = s.kcount + 1 →
      KHygAt env (verName env.parent (s.kcount + 1)) s' := by
    intro s' h1 h2
    refine ⟨?_, s.kcount + 1, by rw [h2]; exact Nat.le_refl _, rfl⟩
    intro n hn
    rw [h1]
    exact h0 n (by rw [h2] at hn; omega)
  unfold createVer
  cases env.created
  · exact hk _ rfl rfl
  · refine ⟨?_, s.kcount + 1, Nat.le_refl _, rfl⟩
    intro n hn
    have hn' : s.kcount + 1 < n := hn
    have hne : verName env.parent (s.kcount + 1) ≠ verName env.parent n := by
      intro e
      have := verName_inj _ _ _ e
      omega
    show lookup ((verName env.parent (s.kcount + 1), s.nextMat) :: s.keys) (verName env.parent n) = none
    rw [lookup_cons_ne _ _ _ _ hne]
    exact h0 n (by omega)
  · exact hk _ rfl rfl
  · exact hk _ rfl rfl

theorem kmsCreate_hyg (env : KmsEnv) :
    Triple sc (KHyg env) (kmsCreate env) (fun p s => KHygAt env p.1 s) (KHyg env) (KHyg env) := by
  unfold kmsCreate
  exact Triple.bind (kmsCreateVer_hyg env) (fun k => Triple.pure _ (fun s h => h))

theorem kmsGet_hyg (env : KmsEnv) (k : String) :
    Triple sc (KHygAt env k) (kmsGet env k) (fun _ s => KHygAt env k s) (KHyg env) (KHyg env) := by
  unfold kmsGet
  have hst : ∀ s c f, KHygAt env k s → KHygAt env k (s.logged c f) := fun s c f h => ⟨KHyg.of_KV rfl h.1, h.2⟩
  have hfr : ∀ (s s' : St), s'.keys = s.keys → s'.kcount = s.kcount → KHygAt env k s → KHygAt env k s' := by
    intro s s' h1 h2 h
    refine ⟨KHyg.of_KV (by unfold KV; rw [h1, h2]) h.1, ?_⟩
    rw [h2]; exact h.2
  refine Triple.wrap (P' := KHygAt env k) (.kmsGet k) (fun s f h => hst s _ f h) (fun s h _ => (hst s _ _ h).1)
    ?_ (fun a s _ h => h.1) (fun s _ h => h)
  refine Triple.getSt_bind ?_
  intro s0 h0
  split
  · exact Triple.pure _ (fun s hs => by subst hs; exact h0)
  · split
    · exact Triple.throw (fun s hs => by subst hs; exact h0.1)
    · split
      · refine Triple.bind (Q1 := fun _ s => KHygAt env k s) (Triple.modSt _ ?_) (fun _ => Triple.pure _ (fun _ h => h))
        intro s hs
        subst hs
        exact ⟨h0.add s.nextMat rfl rfl, h0.2⟩
      · refine Triple.bind (Q1 := fun _ s => KHygAt env k s) (Triple.modSt _ ?_) (fun _ => Triple.pure _ (fun _ h => h))
        intro s hs
        subst hs
        exact hfr s _ rfl rfl h0
    · refine Triple.bind (Q1 := fun _ s => KHygAt env k s) (Triple.modSt _ ?_) (fun _ => Triple.pure _ (fun _ h => h))
      intro s hs
      subst hs
      exact hfr s _ rfl rfl h0
    · exact Triple.pure _ (fun s hs => by subst hs; exact h0)

theorem kmsWait_hyg (env : KmsEnv) (k : String) (fuel : Nat) :
    Triple sc (KHygAt env k) (kmsWait env k fuel) (fun _ s => KHyg env s) (KHyg env) (KHyg env) := by
  induction fuel with
  | zero => exact Triple.throw (fun _ h => h.1)
  | succ fuel ih =>
    unfold kmsWait
    refine Triple.bind (kmsGet_hyg env k) ?_
    intro o
    cases o with
    | enabled => exact Triple.pure _ (fun _ h => h.1)
    | pending =>
      show Triple sc _ (if env.deadline = true then throw else kmsWait env k fuel) _ _ _
      exact Triple.ite (fun _ => Triple.throw (fun _ h => h.1)) (fun _ => ih)
    | other => exact Triple.throw (fun _ h => h.1)

theorem kmCreateK_hyg (env : KmsEnv) :
    Triple sc (KHyg env) (kmCreateK env) (fun _ s => KHyg env s) (KHyg env) (KHyg env) := by
  unfold kmCreateK
  refine Triple.wrap (P' := KHyg env) .kmCreate (fun s f h => KHyg.of_KV rfl h) (fun s h _ => KHyg.of_KV rfl h)
    ?_ (fun a s _ h => h) (fun s _ h => h)
  exact Triple.bind (kmsCreate_hyg env) (fun p => kmsWait_hyg env p.1 _)

theorem kmDestroyK_hyg (env : KmsEnv) (k : String) :
    Triple sc (KHyg env) (kmDestroyK k) (fun _ s => KHyg env s) (KHyg env) (KHyg env) := by
  unfold kmDestroyK kmsDestroy
  refine Triple.wrap (P' := KHyg env) (.kmDestroy k) (fun s f h => KHyg.of_KV rfl h) (fun s h _ => KHyg.of_KV rfl h)
    ?_ (fun a s _ h => h) (fun s _ h => h)
  refine Triple.wrap (P' := KHyg env) (.kmsDestroy k) (fun s f h => KHyg.of_KV rfl h) (fun s h _ => KHyg.of_KV rfl h)
    ?_ (fun a s _ h => h) (fun s _ h => h)
  refine Triple.getSt_bind ?_
  intro s0 h0
  split
  · refine Triple.modSt _ ?_
    intro s hs
    subst hs
    intro n hn
    exact lookup_erase_none _ _ _ (h0 n hn)
  · split
    · refine Triple.modSt _ ?_
      intro s hs
      subst hs
      exact KHyg.of_KV rfl h0
    · exact Triple.throw (fun s hs => by subst hs; exact h0)

/-- **Hygiene is preserved** by every run of the Cloud KMS rotation, whatever the script and the
    environment: version numbers only grow, and a usable key never carries a number beyond the counter. -/
theorem rotateKeyKms_hyg (cfg : Cfg) (env : KmsEnv) (req : Req) :
    Triple sc (KHyg env) (rotateKeyKms cfg env req) (fun _ s => KHyg env s) (KHyg env) (KHyg env) := by
  have fr : ∀ {α : Type} {m : Run α}, Frame m → Triple sc (KHyg env) m (fun _ => KHyg env) (KHyg env) (KHyg env) :=
    fun hm => hm.triple (KHyg env) (fun _ _ h hs => KHyg.of_KV h hs)
  unfold rotateKeyKms
  refine Triple.bind (kmCreateK_hyg env) ?_
  intro kver
  refine Triple.bind (fr (getCurrentInfo_frame cfg)) ?_
  intro x
  obtain ⟨cur, root, issuer⟩ := x
  show Triple sc _ (if root = "" ∨ kver = "" then throw else _) _ _ _
  refine Triple.ite (fun _ => Triple.throw (fun _ h => h)) (fun _ => ?_)
  refine Triple.bind (fr (signCertK_frame cfg env req {} issuer kver root)) ?_
  intro y
  obtain ⟨mu, c⟩ := y
  show Triple sc _ (mutSetPrimary cfg mu kver >>= fun mu2 => _) _ _ _
  refine Triple.bind (fr (mutSetPrimary_frame cfg mu kver)) ?_
  intro mu2
  refine Triple.bind (fr (caFinalize_frame cfg mu2 mu2.certs)) ?_
  intro _
  refine Triple.bind (Q1 := fun _ s => KHyg env s) ?_ (fun _ => Triple.pure _ (fun _ h => h))
  unfold destroyOldK
  exact Triple.ite (fun _ => kmDestroyK_hyg env cur) (fun _ => Triple.pure _ (fun _ h => h))

theorem KHyg_reload (env : KmsEnv) (s : St) : KHyg env s.reload ↔ KHyg env s := Iff.rfl

/-! ### glue -/

/-- The invariant on the Cloud KMS stack: the invariant of the nonprod stacks read with `kmsView` (the
    recorded primary is an ENABLED version, certified for its key, chaining to the stored root; the root
    version is ENABLED and is the key of the stored root certificate; name hygiene) + the hygiene of the
    key service. -/
def InvKms (cfg : Cfg) (env : KmsEnv) (s : St) : Prop := Inv cfg.kmsView s ∧ KHyg env s

/-- Precondition on the request: the object the certificate of the NEXT version is written to (its
    manifest entry when that name is already listed, `<certDir><cn>-<serial>.crt` otherwise) is not the
    manifest, the root certificate or the primary's certificate. -/
def FreshKms (cfg : Cfg) (env : KmsEnv) (req : Req) (s : St) : Prop :=
  Fresh (cfg.withNew (nextName env s)) req s

/-- the request does not name a certificate object that the stored manifest records for a key version
    other than the NEXT one (needed for a rotation to succeed, not for failure atomicity) -/
def UnclaimedKms (cfg : Cfg) (env : KmsEnv) (req : Req) (s : St) : Prop :=
  Unclaimed (cfg.withNew (nextName env s)) req s

/-- gcsca.upload will refuse the rotation's certificate -/
def ClaimedKms (cfg : Cfg) (env : KmsEnv) (req : Req) (s : St) : Prop :=
  Claimed (cfg.withNew (nextName env s)) req s

theorem InvKms.primaryOK {cfg : Cfg} {env : KmsEnv} {s : St} (h : InvKms cfg env s) : PrimaryOK cfg s :=
  h.1.primaryOK

theorem Inv_of_withNew {cfg : Cfg} {K : String} {s : St} (hca : cfg.ca = .gcsca) (h : Inv (cfg.withNew K) s) :
    Inv cfg.kmsView s := by
  unfold Inv at h ⊢
  rw [show (cfg.withNew K).ca = CAKind.gcsca from hca] at h
  rw [show cfg.kmsView.ca = CAKind.gcsca from hca]
  obtain ⟨m, r, c, p, hi⟩ := h
  exact ⟨m, r, c, p, hi.rebump rfl (fun _ => Ne.symm hi.root_ne)⟩

theorem and_false_cases {a b : Bool} (h : (a && b) = false) : a = false ∨ b = false := by
  cases a <;> cases b <;> simp_all

/-- facts about one run on the Cloud KMS stack, extracted from the step-by-step specifications -/
theorem rotateKms_run_facts (cfg : Cfg) (env : KmsEnv) (req : Req) (sc : Nat → Fault) (s : St)
    (hca : cfg.ca = .gcsca) (hi : InvKms cfg env s) (hf : FreshKms cfg env req s) :
    match rotateKeyKms cfg env req sc s.reload with
    | .ok k s' => InvKms cfg env s' ∧ DAC cfg s'.log ∧ DACK cfg s'.log ∧ primaryOf cfg s' = k ∧ k = nextName env s ∧
        lookup s'.keys (primaryOf cfg s) = none ∧ lookup s'.kdead (primaryOf cfg s) = some .scheduled ∧
        ¬ ClaimedKms cfg env req s
    | .err s' => (InvKms cfg env s' ∧ DAC cfg s'.log ∧ DACK cfg s'.log) ∧
        (¬ NoFault sc ∨ cfg.overwrite = false ∨ ClaimedKms cfg env req s ∨ env.benign = false)
    | .crash s' => (InvKms cfg env s' ∧ DAC cfg s'.log ∧ DACK cfg s'.log) ∧ ¬ NoFault sc := by
  obtain ⟨hinv, hhyg⟩ := hi
  unfold Inv at hinv
  rw [show cfg.kmsView.ca = CAKind.gcsca from hca] at hinv
  obtain ⟨m0, r, c0, path0, h0⟩ := hinv
  have hKn : lookup s.keys (nextName env s) = none := hhyg.next_not_live
  have hKr : nextName env s ≠ m0.root := by
    intro e; rw [e, h0.kroot] at hKn; cases hKn
  have h0K : InvG (cfg.withNew (nextName env s)) m0 r c0 path0 s := h0.rebump rfl (fun _ => hKr)
  unfold FreshKms Fresh at hf
  rw [show (cfg.withNew (nextName env s)).ca = CAKind.gcsca from hca] at hf
  obtain ⟨ht1, ht2⟩ := hf m0 h0.man
  have hclaim : ClaimedKms cfg env req s ↔ claimed (cfg.withNew (nextName env s)) req m0 = true := by
    unfold ClaimedKms Claimed
    constructor
    · rintro ⟨_, m, hm, hc⟩
      rw [h0.man] at hm
      injection hm with hm; injection hm with hm
      rw [hm]; exact hc
    · intro hc; exact ⟨hca, m0, h0.man, hc⟩
  have hP : Ph (cfg.withNew (nextName env s)) m0 r c0 path0 false none s.reload :=
    ⟨h0K.transfer rfl rfl, Or.inl rfl, fun e he => (by cases he), fun _ _ e => (by cases e)⟩
  have main := rotateKeyKms_gcs (cfg := cfg.withNew (nextName env s)) (sc := sc) hca env req s.kcount rfl
    ht1 ht2 s.reload ⟨hP, rfl, hKn⟩
  rw [rotateKeyKms_withNew] at main
  have hyg := rotateKeyKms_hyg (sc := sc) cfg env req s.reload hhyg
  cases hr : rotateKeyKms cfg env req sc s.reload with
  | ok k s' =>
    rw [hr] at main hyg
    obtain ⟨hk, hcf, mat, ⟨hinv', hdac, hdack⟩, hgone, hsched⟩ := main
    have hp0 : primaryOf cfg s = m0.signing := by
      unfold primaryOf; rw [hca, h0.man]
    refine ⟨⟨?_, hyg⟩, hdac, hdack, ?_, hk, by rw [hp0]; exact hgone, by rw [hp0]; exact hsched, ?_⟩
    · exact Inv_of_withNew hca (by unfold Inv; rw [show (cfg.withNew (nextName env s)).ca = CAKind.gcsca from hca]; exact ⟨_, _, _, _, hinv'⟩)
    · unfold primaryOf; rw [hca, hinv'.man, hk]; exact rotatedManifest_signing req
    · rw [hclaim, hcf]; simp
  | err s' =>
    rw [hr] at main hyg
    refine ⟨⟨⟨Inv_of_withNew hca main.1.1, hyg⟩, main.1.2.1, main.1.2.2⟩, ?_⟩
    rcases main.2 with h | h
    · exact Or.inl h
    · rcases and_false_cases h with h | h
      · rcases and_false_cases' h with h | h
        · exact Or.inr (Or.inl h)
        · exact Or.inr (Or.inr (Or.inl (hclaim.mpr h)))
      · exact Or.inr (Or.inr (Or.inr h))
  | crash s' =>
    rw [hr] at main hyg
    exact ⟨⟨⟨Inv_of_withNew hca main.1.1, hyg⟩, main.1.2.1, main.1.2.2⟩, main.2⟩

/-! ### the state reported by CreateCryptoKeyVersion's response plays no role

gcpkms.Manager.CreateNewSigningKeyVersion passes only `key.GetName()` on to waitForKeyVersionGen. -/

theorem kmsWait_resp (env : KmsEnv) (o : Option KObs) (k : String) (fuel : Nat) :
    kmsWait { env with resp := o } k fuel = kmsWait env k fuel := by
  induction fuel with
  | zero => rfl
  | succ n ih =>
    unfold kmsWait
    rw [ih]
    rfl

theorem bind_pure_bind {α β γ : Type} (m : Run α) (g : α → β) (f : β → Run γ) :
    ((m >>= fun a => (pure (g a) : Run β)) >>= f) = (m >>= fun a => f (g a)) := by
  funext sc s
  show (match (match m sc s with
      | .ok a s' => Res.ok (g a) s'
      | .err s' => .err s'
      | .crash s' => .crash s') with
    | .ok b s' => f b sc s'
    | .err s' => .err s'
    | .crash s' => .crash s') = (match m sc s with
    | .ok a s' => f (g a) sc s'
    | .err s' => .err s'
    | .crash s' => .crash s')
  cases m sc s <;> rfl

theorem kmCreateK_eq (env : KmsEnv) :
    kmCreateK env = wrap .kmCreate (kmsCreateVer env >>= fun k => kmsWait env k (env.gen + 1)) := by
  unfold kmCreateK kmsCreate
  exact congrArg (wrap .kmCreate) (bind_pure_bind _ _ _)

theorem kmCreateK_resp (env : KmsEnv) (o : Option KObs) : kmCreateK { env with resp := o } = kmCreateK env := by
  rw [kmCreateK_eq, kmCreateK_eq]
  have : ∀ k, kmsWait { env with resp := o } k (env.gen + 1) = kmsWait env k (env.gen + 1) := fun k => kmsWait_resp env o k _
  show wrap .kmCreate (kmsCreateVer env >>= fun k => kmsWait { env with resp := o } k (env.gen + 1)) = _
  simp only [this]

theorem rotateKeyKms_resp (cfg : Cfg) (env : KmsEnv) (o : Option KObs) (req : Req) :
    rotateKeyKms cfg { env with resp := o } req = rotateKeyKms cfg env req := by
  unfold rotateKeyKms
  rw [kmCreateK_resp]
  rfl

/-- when the response reports PENDING_GENERATION the changed CreateNewSigningKeyVersion is the shipped one -/
theorem kmCreateKTrust_pending (env : KmsEnv) (h : env.respObs = .pending) : kmCreateKTrust env = kmCreateK env := by
  unfold kmCreateKTrust kmCreateK kmsCreate
  refine congrArg (wrap .kmCreate) ?_
  rw [bind_pure_bind, bind_pure_bind]
  simp only [h, if_true]

theorem InvKms_reload (cfg : Cfg) (env : KmsEnv) (s : St) : InvKms cfg env s.reload ↔ InvKms cfg env s := by
  unfold InvKms
  rw [Inv_reload]
  exact Iff.rfl

theorem InvKms_allowOverwrite (cfg : Cfg) (env : KmsEnv) (s : St) :
    InvKms cfg.allowOverwrite env s ↔ InvKms cfg env s := by
  unfold InvKms
  exact and_congr_left' (Inv_allowOverwrite cfg.kmsView s)

end GceTcb.CA
