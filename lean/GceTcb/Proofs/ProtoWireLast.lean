import GceTcb.Proofs.ProtoWireAppend
/-
"Last wins", as theorems about the codec: which occurrence of a field a decoded message holds.

* VMLaunchEndorsement: `decodeEndorsement` is total on every sequence of fields, and the message it
  yields holds the LAST length-delimited field 1 as payload, the LAST length-delimited field 2 as
  signature (`decodeEndorsement_fields`), also across a concatenation of containers
  (`decodeEndorsement_concat`).
* VMGoldenMeasurement: the scalar / bytes fields the verifier reads before the signature check (cl_spec,
  commit, cert) and the digest are the last occurrences in the payload (`decodeGolden_last`); an embedded
  message is absent exactly when no field with its number and wire type 2 occurs (`decodeGolden_absent`).

Core-only.
-/
namespace GceTcb.ProtoWire
open GceTcb

/-- the value of `f` when it is a length-delimited field number `num` -/
def isLen (num : Nat) (f : Field) : Option Bytes :=
  if f.num = num then (match f.val with | .len p => some p | _ => none) else none

/-- the value of `f` when it is a varint field number `num` -/
def isVarint (num : Nat) (f : Field) : Option Nat :=
  if f.num = num then (match f.val with | .varint v => some v | _ => none) else none

/-- the value of `f` when it is a varint field number `num`, converted to uint64 -/
def isU64 (num : Nat) (f : Field) : Option Nat := (isVarint num f).map (· % 18446744073709551616)

/-- the last field of `fs` that `sel` selects, `d` when there is none -/
def lastD {α : Type} (sel : Field → Option α) (d : α) : List Field → α
  | [] => d
  | f :: fs => lastD sel ((sel f).getD d) fs

/-- the last length-delimited field `num` of `fs`, `d` when there is none -/
abbrev lastLenD (num : Nat) (d : Bytes) (fs : List Field) : Bytes := lastD (isLen num) d fs

theorem lastD_append {α : Type} (sel : Field → Option α) (d : α) (a b : List Field) :
    lastD sel d (a ++ b) = lastD sel (lastD sel d a) b := by
  induction a generalizing d with
  | nil => rfl
  | cons f fs ih => simp only [List.cons_append, lastD]; exact ih _

/-- no occurrence: the default survives -/
theorem lastD_absent {α : Type} (sel : Field → Option α) (d : α) (fs : List Field) (h : ∀ f ∈ fs, sel f = none) :
    lastD sel d fs = d := by
  induction fs generalizing d with
  | nil => rfl
  | cons f fs ih =>
    simp only [lastD]
    rw [h f (List.mem_cons_self), Option.getD_none]
    exact ih d (fun g hg => h g (List.mem_cons_of_mem _ hg))

/-- an occurrence: the default does not matter -/
theorem lastD_present {α : Type} (sel : Field → Option α) (d d' : α) (fs : List Field) (h : ∃ f ∈ fs, (sel f).isSome) :
    lastD sel d fs = lastD sel d' fs := by
  induction fs generalizing d d' with
  | nil => obtain ⟨f, hf, _⟩ := h; cases hf
  | cons f fs ih =>
    simp only [lastD]
    cases hl : sel f with
    | some p => simp only [Option.getD_some]
    | none =>
      simp only [Option.getD_none]
      apply ih
      obtain ⟨g, hg, hs⟩ := h
      rcases List.mem_cons.mp hg with rfl | hg'
      · rw [hl] at hs; cases hs
      · exact ⟨g, hg', hs⟩

/-! ## VMLaunchEndorsement -/

/-- fields of a container that are neither a length-delimited field 1 nor a length-delimited field 2 -/
def unkEnd : List Field → Bytes
  | [] => []
  | f :: fs => (if (isLen 1 f).isSome || (isLen 2 f).isSome then [] else f.unknownBytes) ++ unkEnd fs

theorem unkEnd_append (a b : List Field) : unkEnd (a ++ b) = unkEnd a ++ unkEnd b := by
  induction a with
  | nil => rfl
  | cons f fs ih => simp only [List.cons_append, unkEnd, ih, List.append_assoc]

theorem stepEndorsement_eq (m : WEndorsement) (f : Field) :
    stepEndorsement m f = some ⟨(isLen 1 f).getD m.serializedUefiGolden, (isLen 2 f).getD m.signature,
      m.unknown ++ (if (isLen 1 f).isSome || (isLen 2 f).isSome then [] else f.unknownBytes)⟩ := by
  obtain ⟨num, val, raw⟩ := f
  unfold stepEndorsement
  split
  · rename_i h1 h2
    simp only at h1 h2
    subst h1; subst h2
    simp [isLen]
  · rename_i h1 h2
    simp only at h1 h2
    subst h1; subst h2
    simp [isLen]
  · rename_i h1 h2
    simp only at h1 h2
    have e1 : isLen 1 ⟨num, val, raw⟩ = none := by
      unfold isLen
      by_cases hn : num = 1
      · subst hn
        cases val with
        | len p => exact absurd rfl (h1 p rfl)
        | _ => simp
      · simp [hn]
    have e2 : isLen 2 ⟨num, val, raw⟩ = none := by
      unfold isLen
      by_cases hn : num = 2
      · subst hn
        cases val with
        | len p => exact absurd rfl (h2 p rfl)
        | _ => simp
      · simp [hn]
    simp [e1, e2]

/-- The container fold never fails, and yields last payload, last signature, the rest as unknown bytes. -/
theorem foldEndorsement (fs : List Field) : ∀ (m : WEndorsement),
    foldFields stepEndorsement m fs = some ⟨lastLenD 1 m.serializedUefiGolden fs, lastLenD 2 m.signature fs,
      m.unknown ++ unkEnd fs⟩ := by
  induction fs with
  | nil => intro m; simp [foldFields, lastD, unkEnd]
  | cons f fs ih =>
    intro m
    simp only [foldFields, stepEndorsement_eq, ih, lastLenD, lastD, unkEnd, List.append_assoc]

/-- Unmarshal into a VMLaunchEndorsement that already holds `m` -/
theorem decodeEndorsementInto_fields (m : WEndorsement) (b : Bytes) (fs : List Field) (h : parseFields b = some fs) :
    decodeInto stepEndorsement m b = some ⟨lastLenD 1 m.serializedUefiGolden fs, lastLenD 2 m.signature fs,
      m.unknown ++ unkEnd fs⟩ := by
  unfold decodeInto; rw [h]; exact foldEndorsement fs m

theorem decodeEndorsement_fields (b : Bytes) (fs : List Field) (h : parseFields b = some fs) :
    decodeEndorsement b = some ⟨lastLenD 1 [] fs, lastLenD 2 [] fs, unkEnd fs⟩ := by
  have := decodeEndorsementInto_fields .zero b fs h
  simpa [decodeEndorsement, WEndorsement.zero] using this

/-- the container decodes iff it is a sequence of fields -/
theorem decodeEndorsement_isSome (b : Bytes) : (decodeEndorsement b).isSome = (parseFields b).isSome := by
  cases h : parseFields b with
  | none => simp [decodeEndorsement, decodeInto, h]
  | some fs => rw [decodeEndorsement_fields b fs h]; rfl

/-- Two containers back to back: the second is unmarshalled INTO the first (last payload, last signature). -/
theorem decodeEndorsement_concat (b1 b2 : Bytes) (e1 : WEndorsement) (fs2 : List Field)
    (h1 : decodeEndorsement b1 = some e1) (h2 : parseFields b2 = some fs2) :
    decodeEndorsement (b1 ++ b2) = some ⟨lastLenD 1 e1.serializedUefiGolden fs2, lastLenD 2 e1.signature fs2,
      e1.unknown ++ unkEnd fs2⟩ := by
  obtain ⟨fa, hp, _⟩ := decodeInto_parses stepEndorsement .zero e1 b1 h1
  unfold decodeEndorsement
  rw [decodeInto_append stepEndorsement .zero e1 b1 b2 fa hp h1]
  exact decodeEndorsementInto_fields e1 b2 fs2 h2

/-- … and when what follows is not a sequence of fields the whole input is rejected -/
theorem decodeEndorsement_concat_garbage (b1 b2 : Bytes) (e1 : WEndorsement)
    (h1 : decodeEndorsement b1 = some e1) (h2 : parseFields b2 = none) : decodeEndorsement (b1 ++ b2) = none := by
  obtain ⟨fa, hp, _⟩ := decodeInto_parses stepEndorsement .zero e1 b1 h1
  unfold decodeEndorsement decodeInto
  rw [parseFields_append_none b1 b2 fa hp h2]

/-! ## VMGoldenMeasurement -/

/-- what one field does to the parts of the golden measurement the verifier reads before the signature
    check, and to the presence of the embedded messages -/
theorem stepGolden_reads (m m' : WGolden) (f : Field) (h : stepGolden m f = some m') :
    m'.clSpec = (isU64 2 f).getD m.clSpec ∧
    m'.commit = (isLen 3 f).getD m.commit ∧ m'.cert = (isLen 4 f).getD m.cert ∧
    m'.digest = (isLen 5 f).getD m.digest ∧
    (m'.timestamp.isSome = (m.timestamp.isSome || (isLen 1 f).isSome)) ∧
    (m'.sevSnp.isSome = (m.sevSnp.isSome || (isLen 7 f).isSome)) ∧
    (m'.tdx.isSome = (m.tdx.isSome || (isLen 8 f).isSome)) := by
  obtain ⟨num, val, raw⟩ := f
  unfold stepGolden at h
  split at h
  · rename_i h1 h2; simp only at h1 h2; subst h1; subst h2
    split at h
    · cases h
    · simp only [Option.some.injEq] at h; subst h; simp [isLen, isVarint, isU64]
  · rename_i h1 h2; simp only at h1 h2; subst h1; subst h2
    simp only [Option.some.injEq] at h; subst h; simp [isLen, isVarint, isU64]
  · rename_i h1 h2; simp only at h1 h2; subst h1; subst h2
    simp only [Option.some.injEq] at h; subst h; simp [isLen, isVarint, isU64]
  · rename_i h1 h2; simp only at h1 h2; subst h1; subst h2
    simp only [Option.some.injEq] at h; subst h; simp [isLen, isVarint, isU64]
  · rename_i h1 h2; simp only at h1 h2; subst h1; subst h2
    simp only [Option.some.injEq] at h; subst h; simp [isLen, isVarint, isU64]
  · rename_i h1 h2; simp only at h1 h2; subst h1; subst h2
    simp only [Option.some.injEq] at h; subst h; simp [isLen, isVarint, isU64]
  · rename_i h1 h2; simp only at h1 h2; subst h1; subst h2
    split at h
    · cases h
    · simp only [Option.some.injEq] at h; subst h; simp [isLen, isVarint, isU64]
  · rename_i h1 h2; simp only at h1 h2; subst h1; subst h2
    split at h
    · cases h
    · simp only [Option.some.injEq] at h; subst h; simp [isLen, isVarint, isU64]
  · rename_i h1 h2 h3 h4 h5 h6 h7 h8
    simp only at h1 h2 h3 h4 h5 h6 h7 h8
    simp only [Option.some.injEq] at h; subst h
    have e1 : isLen 1 ⟨num, val, raw⟩ = none := by
      unfold isLen; by_cases hn : num = 1
      · subst hn; cases val with
        | len p => exact absurd rfl (h1 p rfl)
        | _ => simp
      · simp [hn]
    have e2 : isVarint 2 ⟨num, val, raw⟩ = none := by
      unfold isVarint; by_cases hn : num = 2
      · subst hn; cases val with
        | varint v => exact absurd rfl (h2 v rfl)
        | _ => simp
      · simp [hn]
    have e3 : isLen 3 ⟨num, val, raw⟩ = none := by
      unfold isLen; by_cases hn : num = 3
      · subst hn; cases val with
        | len p => exact absurd rfl (h3 p rfl)
        | _ => simp
      · simp [hn]
    have e4 : isLen 4 ⟨num, val, raw⟩ = none := by
      unfold isLen; by_cases hn : num = 4
      · subst hn; cases val with
        | len p => exact absurd rfl (h4 p rfl)
        | _ => simp
      · simp [hn]
    have e5 : isLen 5 ⟨num, val, raw⟩ = none := by
      unfold isLen; by_cases hn : num = 5
      · subst hn; cases val with
        | len p => exact absurd rfl (h5 p rfl)
        | _ => simp
      · simp [hn]
    have e7 : isLen 7 ⟨num, val, raw⟩ = none := by
      unfold isLen; by_cases hn : num = 7
      · subst hn; cases val with
        | len p => exact absurd rfl (h7 p rfl)
        | _ => simp
      · simp [hn]
    have e8 : isLen 8 ⟨num, val, raw⟩ = none := by
      unfold isLen; by_cases hn : num = 8
      · subst hn; cases val with
        | len p => exact absurd rfl (h8 p rfl)
        | _ => simp
      · simp [hn]
    simp [e1, e2, e3, e4, e5, e7, e8, isU64]

/-- some field of `fs` is a length-delimited field `num` -/
def hasLen (num : Nat) (fs : List Field) : Bool := fs.any (fun f => (isLen num f).isSome)

theorem hasLen_cons (num : Nat) (f : Field) (fs : List Field) :
    hasLen num (f :: fs) = ((isLen num f).isSome || hasLen num fs) := by
  simp [hasLen]

/-- The golden-measurement fold: last cl_spec / commit / cert / digest; an embedded message is present
    exactly when it was present before or a length-delimited field with its number occurs. -/
theorem foldGolden_reads (fs : List Field) : ∀ (m g : WGolden), foldFields stepGolden m fs = some g →
    g.clSpec = lastD (isU64 2) m.clSpec fs ∧ g.commit = lastLenD 3 m.commit fs ∧
    g.cert = lastLenD 4 m.cert fs ∧ g.digest = lastLenD 5 m.digest fs ∧
    g.timestamp.isSome = (m.timestamp.isSome || hasLen 1 fs) ∧
    g.sevSnp.isSome = (m.sevSnp.isSome || hasLen 7 fs) ∧ g.tdx.isSome = (m.tdx.isSome || hasLen 8 fs) := by
  induction fs with
  | nil =>
    intro m g h
    simp only [foldFields, Option.some.injEq] at h
    subst h
    simp [lastD, hasLen]
  | cons f fs ih =>
    intro m g h
    simp only [foldFields] at h
    cases hs : stepGolden m f with
    | none => rw [hs] at h; cases h
    | some m' =>
      rw [hs] at h
      obtain ⟨a1, a2, a3, a4, a5, a6, a7⟩ := stepGolden_reads m m' f hs
      obtain ⟨b1, b2, b3, b4, b5, b6, b7⟩ := ih m' g h
      simp only [lastLenD, lastD, hasLen_cons]
      refine ⟨by rw [b1, a1], by rw [b2, a2], by rw [b3, a3], by rw [b4, a4], ?_, ?_, ?_⟩
      · rw [b5, a5, Bool.or_assoc]
      · rw [b6, a6, Bool.or_assoc]
      · rw [b7, a7, Bool.or_assoc]

/-- what `decodeGolden` holds, in terms of the fields of the payload -/
theorem decodeGolden_last (b : Bytes) (g : WGolden) (fs : List Field) (hp : parseFields b = some fs)
    (h : decodeGolden b = some g) :
    g.clSpec = lastD (isU64 2) 0 fs ∧ g.commit = lastLenD 3 [] fs ∧ g.cert = lastLenD 4 [] fs ∧
    g.digest = lastLenD 5 [] fs ∧ g.timestamp.isSome = hasLen 1 fs ∧ g.sevSnp.isSome = hasLen 7 fs ∧
    g.tdx.isSome = hasLen 8 fs := by
  unfold decodeGolden decodeInto at h
  rw [hp] at h
  simpa [WGolden.zero] using foldGolden_reads fs .zero g h

end GceTcb.ProtoWire
