import GceTcb.Model.SevLd
import GceTcb.Spec.SnpLaunch
/-
C04 — the VMSA page: the interpreter of the PutVmsa statement table writes the bytes the APM layout
prescribes.  Helper lemmas (core only).

Method: the stores of the table are executed once symbolically (every byte of the page is
`some (field, k)` = byte k of a named field, or `none` = zero); the symbolic page of the statement
table equals the page obtained by placing the APM fields at their offsets (`symPage_spec`, by
evaluation), and executing the stores on real bytes is the image of the symbolic execution under
`evalDesc` (`applyG_map`, parametricity of `write`), for every register state.
-/
namespace GceTcb.Proofs.SnpVmsa
open GceTcb GceTcb.Codec GceTcb.Codecs GceTcb.SevLd
open GceTcb.Spec.SnpLaunch (Desc evalDesc)

/-- symbolic rendering of one store -/
def renderSym (w : Write) : List Desc :=
  (List.range w.2.1).map fun k => w.2.2.map fun n => (n, k)

/-- the page after the stores of a statement table, symbolically -/
def symPage (L : List Entry) (n : Nat) : List Desc :=
  applyG ((L.flatMap expand).map fun w => (w.1, renderSym w)) (List.replicate n none)

set_option maxRecDepth 100000 in
theorem symPage_spec : symPage Spec.SnpLaunch.vmsaLayout 4096 = Spec.SnpLaunch.symVmsa := by decide +kernel

theorem write_map {α β : Type} (f : α → β) (buf : List α) (off : Nat) (bs : List α) :
    (write buf off bs).map f = write (buf.map f) off (bs.map f) := by
  simp [write, List.map_take, List.map_drop]

theorem applyG_map {α β : Type} (f : α → β) (ws : List (Nat × List α)) (buf : List α) :
    (applyG ws buf).map f = applyG (ws.map fun w => (w.1, w.2.map f)) (buf.map f) := by
  induction ws generalizing buf with
  | nil => rfl
  | cons w ws ih =>
    simp only [applyG, List.foldl_cons, List.map_cons] at ih ⊢
    rw [ih, write_map]

theorem leBytes_eq_map (w x : Nat) :
    leBytes w x = (List.range w).map fun k => UInt8.ofNat (x / 256 ^ k % 256) := by
  induction w generalizing x with
  | zero => rfl
  | succ w ih =>
    rw [List.range_succ_eq_map, List.map_cons, List.map_map, leBytes, ih]
    congr 1
    · simp
    · apply List.map_congr_left
      intro k _
      simp only [Function.comp]
      rw [Nat.pow_succ, Nat.mul_comm, Nat.div_div_eq_div_mul]

theorem render_eq (v : Vmsa) (w : Write) : render v w = (renderSym w).map (evalDesc v.f) := by
  obtain ⟨off, wd, src⟩ := w
  simp only [render, renderSym, List.map_map]
  rw [leBytes_eq_map]
  apply List.map_congr_left
  intro k _
  cases src with
  | none => simp [evalDesc]
  | some n => simp [evalDesc]

theorem zeros_eq_map (f : String → Nat) (n : Nat) : zeros n = (List.replicate n (none : Desc)).map (evalDesc f) := by
  simp [zeros, evalDesc]

/-- executing the stores on a zero page = evaluating the symbolic page -/
theorem applyWrites_zeros (L : List Entry) (v : Vmsa) (n : Nat) :
    applyWrites (L.flatMap expand) v (zeros n) = (symPage L n).map (evalDesc v.f) := by
  unfold applyWrites symPage
  rw [applyG_map, zeros_eq_map v.f, List.map_map]
  congr 1
  apply List.map_congr_left
  intro w _
  simp [render_eq]

/-! ### the checks -/

theorem write_length {β : Type} (buf : List β) (off : Nat) (bs : List β)
    (h : bs.length = 0 ∨ off + bs.length ≤ buf.length) :
    (write buf off bs).length = buf.length := by
  simp [write]; omega

theorem render_length (v : Vmsa) (w : Write) : (render v w).length = w.2.1 := by simp [render]

/-- all stores of a statement lie inside a buffer of `n` bytes -/
def writesInBounds (n : Nat) (ws : List Write) : Prop := ∀ w ∈ ws, w.2.1 = 0 ∨ w.1 + w.2.1 ≤ n

theorem applyWrites_length (ws : List Write) (v : Vmsa) (buf : Bytes) (h : writesInBounds buf.length ws) :
    (applyWrites ws v buf).length = buf.length := by
  unfold applyWrites applyG
  induction ws generalizing buf with
  | nil => rfl
  | cons w ws ih =>
    simp only [List.map_cons, List.foldl_cons]
    have hw : (write buf w.1 (render v w)).length = buf.length :=
      write_length _ _ _ (by rw [render_length]; exact h w (List.mem_cons_self))
    rw [ih, hw]
    intro w' hw'
    rw [hw]
    exact h w' (List.mem_cons_of_mem _ hw')

theorem applyWrites_append (a b : List Write) (v : Vmsa) (buf : Bytes) :
    applyWrites (a ++ b) v buf = applyWrites b v (applyWrites a v buf) := by
  simp [applyWrites, applyG, List.foldl_append]

theorem entryCheck_inBounds (v : Vmsa) (n : Nat) (e : Entry) (h : entryCheck v n e = .ok ()) :
    writesInBounds n (expand e) := by
  obtain ⟨kind, lo, hi, name⟩ := e
  unfold entryCheck at h
  unfold expand writesInBounds
  simp only at h ⊢
  by_cases hseg : kind = "seg"
  · simp only [hseg, if_true] at h ⊢
    split at h <;> try cases h
    split at h <;> try cases h
    intro w hw
    simp only [List.mem_cons, List.mem_nil_iff, or_false] at hw
    rcases hw with rfl | rfl | rfl | rfl <;> simp only <;> omega
  · simp only [hseg, if_false] at h ⊢
    by_cases hresv : kind = "resv"
    · have : ¬ (kind = "le" ∨ kind = "byte8") := by subst hresv; decide
      simp only [hresv, if_true] at h
      split at h <;> try cases h
      split at h <;> try cases h
      rw [if_neg (by subst hresv; decide), if_neg (by subst hresv; decide)]
      intro w hw
      simp only [List.mem_cons, List.mem_nil_iff, or_false] at hw
      subst hw; simp only; omega
    · simp only [hresv, if_false] at h
      by_cases hb : kind = "byte8"
      · simp only [hb, if_true] at h
        split at h <;> try cases h
        split at h <;> try cases h
        rw [if_pos (Or.inr hb)]
        intro w hw
        simp only [List.mem_cons, List.mem_nil_iff, or_false] at hw
        subst hw; simp only; omega
      · simp only [hb, if_false] at h
        by_cases hle : kind = "le"
        · simp only [hle, if_true] at h
          split at h <;> try cases h
          rw [if_pos (Or.inl hle)]
          intro w hw
          simp only [List.mem_cons, List.mem_nil_iff, or_false] at hw
          subst hw; simp only; omega
        · simp only [hle, if_false] at h
          rw [if_neg (by simp [hle, hb])]
          by_cases h64 : kind = "resv64"
          · simp only [h64, if_true] at h
            split at h <;> try cases h
            split at h <;> try cases h
            split at h <;> try cases h
            rw [if_neg (by subst h64; decide)]
            intro w hw
            simp only [List.mem_cons, List.mem_nil_iff, or_false] at hw
            subst hw; simp only; omega
          · simp only [h64, if_false] at h
            by_cases hz : kind = "zero"
            · simp only [hz, if_true] at h
              split at h <;> try cases h
              rw [if_neg (by subst hz; decide)]
              intro w hw
              simp only [List.mem_cons, List.mem_nil_iff, or_false] at hw
              subst hw; simp only; omega
            · simp only [hz, if_false] at h
              by_cases hm : kind = "mbz"
              · rw [if_pos hm]
                intro w hw
                cases hw
              · simp only [hm, if_false] at h
                cases h

/-- every statement's checks pass on a buffer of `n` bytes -/
def entriesOk (v : Vmsa) (n : Nat) (L : List Entry) : Prop := ∀ e ∈ L, entryCheck v n e = .ok ()

theorem putEntries_ok (v : Vmsa) (L : List Entry) (buf : Bytes) (h : entriesOk v buf.length L) :
    putEntries v L buf = .ok (applyWrites (L.flatMap expand) v buf) := by
  induction L generalizing buf with
  | nil => simp [putEntries, applyWrites, applyG]
  | cons e es ih =>
    have he := h e (List.mem_cons_self)
    have hlen := applyWrites_length (expand e) v buf (entryCheck_inBounds v _ e he)
    have hp : putEntry v buf e = .ok (applyWrites (expand e) v buf) := by
      unfold putEntry; rw [he]
    rw [putEntries, hp, List.flatMap_cons, applyWrites_append]
    apply ih
    intro e' he'
    rw [hlen]
    exact h e' (List.mem_cons_of_mem _ he')

/-- go: PutVmsa on a fresh zero page of 4096 bytes, for every VMSA value that passes the range and
    must-be-zero checks of the statement table -/
theorem putVmsa_spec_layout (v : Vmsa) (h : entriesOk v 4096 Spec.SnpLaunch.vmsaLayout) :
    putVmsa Spec.SnpLaunch.vmsaLayout Spec.SnpLaunch.sizeofVmsa v (zeros 4096) = .ok (Spec.SnpLaunch.vmsaBytes v.f) := by
  have hl : (zeros 4096).length = 4096 := List.length_replicate
  unfold putVmsa
  rw [if_neg (by rw [hl]; decide), putEntries_ok v _ _ (by rw [hl]; exact h), applyWrites_zeros, symPage_spec]
  rfl

/-! ### strictness: acceptance implies every check passed -/

theorem putEntries_ok_inv (v : Vmsa) (L : List Entry) (buf out : Bytes) (h : putEntries v L buf = .ok out) :
    entriesOk v buf.length L := by
  induction L generalizing buf with
  | nil => intro e he; cases he
  | cons e es ih =>
    rw [putEntries] at h
    unfold putEntry at h
    cases hc : entryCheck v buf.length e with
    | err c => rw [hc] at h; cases h
    | panic p => rw [hc] at h; cases h
    | ok u =>
      rw [hc] at h
      simp only at h
      have hlen := applyWrites_length (expand e) v buf (entryCheck_inBounds v _ e hc)
      have := ih _ h
      rw [hlen] at this
      intro e' he'
      rcases List.mem_cons.mp he' with rfl | he'
      · exact hc
      · exact this e' he'

/-- what a passed check says about the value, kind by kind -/
def EntryStrict (v : Vmsa) (e : Entry) : Prop :=
  (e.1 = "seg" → v.f (e.2.2.2 ++ ".Selector") < 2 ^ 16 ∧ v.f (e.2.2.2 ++ ".Attrib") < 2 ^ 16) ∧
  (e.1 = "byte8" → v.f e.2.2.2 < 2 ^ 8) ∧
  (e.1 = "resv64" → v.f e.2.2.2 = 0) ∧
  (e.1 = "resv" ∨ e.1 = "mbz" →
    (v.r e.2.2.2).length = 0 ∨ ((v.r e.2.2.2).length = e.2.2.1 - e.2.1 ∧ allZero (v.r e.2.2.2) = true))

theorem entryCheck_strict (v : Vmsa) (n : Nat) (e : Entry) (h : entryCheck v n e = .ok ()) : EntryStrict v e := by
  obtain ⟨kind, lo, hi, name⟩ := e
  unfold entryCheck at h
  unfold EntryStrict
  simp only at h ⊢
  by_cases hseg : kind = "seg"
  · subst hseg
    simp only [if_true] at h
    split at h <;> try cases h
    split at h <;> try cases h
    split at h <;> try cases h
    split at h <;> try cases h
    refine ⟨fun _ => ⟨by omega, by omega⟩, fun hh => absurd hh (by decide), fun hh => absurd hh (by decide), fun hh => ?_⟩
    rcases hh with hh | hh <;> exact absurd hh (by decide)
  · simp only [hseg, if_false] at h
    by_cases hresv : kind = "resv"
    · subst hresv
      simp only [if_true] at h
      split at h <;> try cases h
      rename_i hc
      refine ⟨fun hh => absurd hh (by decide), fun hh => absurd hh (by decide), fun hh => absurd hh (by decide), fun _ => ?_⟩
      by_cases h0 : (v.r name).length = 0
      · exact Or.inl h0
      · right
        simp only [not_and, not_or, Bool.not_eq_true', ne_eq] at hc
        have := hc h0
        refine ⟨by omega, ?_⟩
        cases ha : allZero (v.r name)
        · exact absurd ha this.2
        · rfl
    · simp only [hresv, if_false] at h
      by_cases hb : kind = "byte8"
      · subst hb
        simp only [if_true] at h
        split at h <;> try cases h
        refine ⟨fun hh => absurd hh (by decide), fun _ => by omega, fun hh => absurd hh (by decide), fun hh => ?_⟩
        rcases hh with hh | hh <;> exact absurd hh (by decide)
      · simp only [hb, if_false] at h
        by_cases hle : kind = "le"
        · subst hle
          refine ⟨fun hh => absurd hh (by decide), fun hh => absurd hh (by decide), fun hh => absurd hh (by decide), fun hh => ?_⟩
          rcases hh with hh | hh <;> exact absurd hh (by decide)
        · simp only [hle, if_false] at h
          by_cases h64 : kind = "resv64"
          · subst h64
            simp only [if_true] at h
            split at h <;> try cases h
            split at h <;> try cases h
            rename_i hz
            refine ⟨fun hh => absurd hh (by decide), fun hh => absurd hh (by decide), fun _ => by omega, fun hh => ?_⟩
            rcases hh with hh | hh <;> exact absurd hh (by decide)
          · simp only [h64, if_false] at h
            by_cases hz : kind = "zero"
            · subst hz
              refine ⟨fun hh => absurd hh (by decide), fun hh => absurd hh (by decide), fun hh => absurd hh (by decide), fun hh => ?_⟩
              rcases hh with hh | hh <;> exact absurd hh (by decide)
            · simp only [hz, if_false] at h
              by_cases hm : kind = "mbz"
              · subst hm
                simp only [if_true] at h
                split at h <;> try cases h
                rename_i hc
                refine ⟨fun hh => absurd hh (by decide), fun hh => absurd hh (by decide), fun hh => absurd hh (by decide), fun _ => ?_⟩
                by_cases h0 : (v.r name).length = 0
                · exact Or.inl h0
                · right
                  simp only [not_and, not_or, Bool.not_eq_true', ne_eq] at hc
                  have := hc h0
                  refine ⟨by omega, ?_⟩
                  cases ha : allZero (v.r name)
                  · exact absurd ha this.2
                  · rfl
              · simp only [hm, if_false] at h
                cases h

/-- go: PutVmsa on a fresh 4 KiB page accepts a value exactly when every statement's check passes, and then
    writes the APM-layout bytes -/
theorem putVmsa_spec_iff (v : Vmsa) (page : Bytes) :
    putVmsa Spec.SnpLaunch.vmsaLayout Spec.SnpLaunch.sizeofVmsa v (zeros 4096) = .ok page ↔
      entriesOk v 4096 Spec.SnpLaunch.vmsaLayout ∧ page = Spec.SnpLaunch.vmsaBytes v.f := by
  have hl : (zeros 4096).length = 4096 := List.length_replicate
  constructor
  · intro h
    have hok : entriesOk v 4096 Spec.SnpLaunch.vmsaLayout := by
      unfold putVmsa at h
      rw [if_neg (by rw [hl]; decide)] at h
      have := putEntries_ok_inv v _ _ _ h
      rwa [hl] at this
    refine ⟨hok, ?_⟩
    rw [putVmsa_spec_layout v hok] at h
    injection h with h
    exact h.symm
  · rintro ⟨hok, rfl⟩
    exact putVmsa_spec_layout v hok

/-! ### the reset states measured by LaunchDigest -/

def bspVmsa : Vmsa := Vmsa.ofList Spec.SnpLaunch.gceResetState
def apVmsa (rb : ResetBlock) : Vmsa :=
  (bspVmsa.set "Cs.Base" (SevMeta.ripAndCsBase rb).2).set "Rip" (SevMeta.ripAndCsBase rb).1

theorem bspVmsa_f : bspVmsa.f = Spec.SnpLaunch.bspState := rfl

theorem apVmsa_f (rb : ResetBlock) : (apVmsa rb).f = Spec.SnpLaunch.apState rb.addr := rfl

def entriesOkB (v : Vmsa) (n : Nat) (L : List Entry) : Bool := L.all fun e => entryCheck v n e == .ok ()

theorem entriesOk_of_B (v : Vmsa) (n : Nat) (L : List Entry) (h : entriesOkB v n L = true) : entriesOk v n L := by
  intro e he
  have := List.all_eq_true.mp h e he
  exact eq_of_beq this

theorem bsp_ok : entriesOk bspVmsa 4096 Spec.SnpLaunch.vmsaLayout :=
  entriesOk_of_B _ _ _ (by decide +kernel)

theorem set_f_ne (v : Vmsa) (name : String) (x : Nat) (n : String) (h : n ≠ name) : (v.set name x).f n = v.f n := by
  simp [Vmsa.set, h]

/-- a statement's checks read only `<name>.Selector`, `<name>.Attrib` (seg) or `<name>` (byte8, resv64) -/
theorem entryCheck_set (v : Vmsa) (name : String) (x n : Nat) (e : Entry)
    (h1 : e.1 = "seg" → e.2.2.2 ++ ".Selector" ≠ name ∧ e.2.2.2 ++ ".Attrib" ≠ name)
    (h3 : e.1 = "byte8" ∨ e.1 = "resv64" → e.2.2.2 ≠ name) :
    entryCheck (v.set name x) n e = entryCheck v n e := by
  obtain ⟨kind, lo, hi, nm⟩ := e
  simp only at h1 h3
  unfold entryCheck
  simp only
  by_cases hseg : kind = "seg"
  · simp only [hseg, if_true, set_f_ne _ _ _ _ (h1 hseg).1, set_f_ne _ _ _ _ (h1 hseg).2]
  · simp only [hseg, if_false]
    by_cases hresv : kind = "resv"
    · simp only [hresv, if_true]; rfl
    · simp only [hresv, if_false]
      by_cases hb : kind = "byte8"
      · simp only [hb, if_true, set_f_ne _ _ _ _ (h3 (Or.inl hb))]
      · simp only [hb, if_false]
        by_cases hle : kind = "le"
        · simp only [hle, if_true]
        · simp only [hle, if_false]
          by_cases h64 : kind = "resv64"
          · simp only [h64, if_true, set_f_ne _ _ _ _ (h3 (Or.inr h64))]
          · simp only [h64, if_false]
            rfl

def notChecked (name : String) (L : List Entry) : Bool :=
  L.all fun e =>
    (e.1 != "seg" || (e.2.2.2 ++ ".Selector" != name && e.2.2.2 ++ ".Attrib" != name)) &&
    ((e.1 != "byte8" && e.1 != "resv64") || e.2.2.2 != name)

theorem entriesOk_set (v : Vmsa) (name : String) (x n : Nat) (L : List Entry) (hn : notChecked name L = true)
    (h : entriesOk v n L) : entriesOk (v.set name x) n L := by
  intro e he
  have := List.all_eq_true.mp hn e he
  simp only [Bool.and_eq_true, Bool.or_eq_true, bne_iff_ne, ne_eq] at this
  rw [entryCheck_set v name x n e]
  · exact h e he
  · intro hk
    rcases this.1 with h' | h'
    · exact absurd hk h'
    · exact h'
  · intro hk
    rcases this.2 with h' | h'
    · rcases hk with hk | hk
      · exact absurd hk h'.1
      · exact absurd hk h'.2
    · exact h'

theorem ap_ok (rb : ResetBlock) : entriesOk (apVmsa rb) 4096 Spec.SnpLaunch.vmsaLayout :=
  entriesOk_set _ _ _ _ _ (by decide +kernel) (entriesOk_set _ _ _ _ _ (by decide +kernel) bsp_ok)

theorem putVmsa_bsp :
    putVmsa Spec.SnpLaunch.vmsaLayout Spec.SnpLaunch.sizeofVmsa bspVmsa (zeros 4096)
      = .ok (Spec.SnpLaunch.vmsaBytes Spec.SnpLaunch.bspState) := by
  rw [putVmsa_spec_layout _ bsp_ok, bspVmsa_f]

theorem putVmsa_ap (rb : ResetBlock) :
    putVmsa Spec.SnpLaunch.vmsaLayout Spec.SnpLaunch.sizeofVmsa (apVmsa rb) (zeros 4096)
      = .ok (Spec.SnpLaunch.vmsaBytes (Spec.SnpLaunch.apState rb.addr)) := by
  rw [putVmsa_spec_layout _ (ap_ok rb), apVmsa_f]

end GceTcb.Proofs.SnpVmsa
