import GceTcb.Model.Mrtd
import GceTcb.Proofs.Codecs
import GceTcb.Proofs.SnpTotal
/-
C08 (TDX half) — no panic: the GUID-table walk (shared model, lemmas of Proofs/SnpTotal.lean), extractTDXMetadata, the facts that
validateTDXMetadataSections establishes, the section loop of parse, getTDHOBList and InitMemoryRegion.
Core-only.
-/
namespace GceTcb.TdxMeta
open GceTcb GceTcb.Codec GceTcb.Codecs GceTcb.GuidTable

theorem goSlice_ok (site : String) (b : Bytes) (lo hi : Nat) (h : lo ≤ hi ∧ hi ≤ b.length) :
    goSlice site b lo hi = .ok (sliceOf b lo hi) := by
  have hc : (0 : Int) ≤ (lo : Int) ∧ (lo : Int) ≤ (hi : Int) ∧ (hi : Int) ≤ (b.length : Int) := by omega
  unfold goSlice slice sliceOf
  rw [if_pos hc]
  simp only [Int.toNat_natCast]

/-- the unsigned slice panics exactly outside `lo ≤ hi ≤ len` -/
theorem goSlice_panic (site : String) (b : Bytes) (lo hi : Nat) (h : ¬ (lo ≤ hi ∧ hi ≤ b.length)) :
    goSlice site b lo hi = .panic site := by
  have hc : ¬ ((0 : Int) ≤ (lo : Int) ∧ (lo : Int) ≤ (hi : Int) ∧ (hi : Int) ≤ (b.length : Int)) := by omega
  unfold goSlice slice
  rw [if_neg hc]

theorem sliceOf_length (b : Bytes) (lo hi : Nat) (h : lo ≤ hi ∧ hi ≤ b.length) : (sliceOf b lo hi).length = hi - lo := by
  simp [sliceOf]; omega

/-- the shared GUID-table walk (Model/GuidTable.lean) never panics: `Proofs/SnpTotal.lean` -/
theorem getFwGuidToBlockMap_no_panic (fw : Bytes) : ¬ (getFwGUIDToBlockMap fw).isPanic := by
  cases h : getFwGUIDToBlockMap fw with
  | ok m => simp [Outcome.isPanic]
  | err c => simp [Outcome.isPanic]
  | panic p => exact absurd h (Proofs.SnpTotal.getFwGUIDToBlockMap_no_panic fw p)

end GceTcb.TdxMeta

namespace GceTcb.TdxMeta
open GceTcb GceTcb.Codec GceTcb.Codecs GceTcb.Intervals

/-- What validateTDXMetadataSections establishes for every section (with the repair). -/
def SecOK (fwLen : Nat) (s : TdxSection) : Prop :=
  s.memorySize ≤ maxInitialMemory ∧ s.memoryBase + s.memorySize ≤ 2 ^ 52 ∧ s.sectionType ≤ 3 ∧
  ((s.sectionType = 0 ∨ s.sectionType = 1) →
    s.memorySize = s.dataSize ∧ s.dataOffset + s.dataSize ≤ fwLen ∧ s.dataSize ≠ 0)

instance (n : Nat) (s : TdxSection) : Decidable (SecOK n s) := by unfold SecOK; exact inferInstance

theorem cfvCheck_ok (fwLen : Nat) (s : TdxSection) (st st' : VState) (h : cfvCheck fwLen s st = .ok st') :
    s.memorySize = s.dataSize ∧ s.dataOffset + s.dataSize ≤ fwLen ∧ s.dataSize ≠ 0 ∧ st'.total = st.total := by
  unfold cfvCheck at h
  by_cases h1 : s.dataOffset > fwLen ∨ s.dataSize = 0 ∨ fwLen - s.dataOffset < s.dataSize
  · simp [h1] at h
  · simp only [h1, if_false] at h
    by_cases h2 : s.memorySize ≠ s.dataSize
    · simp [h2] at h
    · simp only [h2, if_false] at h
      injection h with h; subst h
      refine ⟨by omega, by omega, by omega, rfl⟩

theorem validateStep_ok (fwLen : Nat) (s : TdxSection) (st st' : VState) (h : validateStep fwLen s st = .ok st') :
    SecOK fwLen s ∧ st'.total = st.total + s.memorySize ∧ st'.total ≤ maxInitialMemory := by
  unfold validateStep at h
  by_cases h1 : s.memorySize > maxInitialMemory ∨ st.total > maxInitialMemory - s.memorySize ∨
      s.memoryBase > 2 ^ maxPhysBits - s.memorySize
  · simp [h1] at h
  · simp only [h1, if_false] at h
    have hphys : (2:Nat) ^ maxPhysBits = 2 ^ 52 := rfl
    rw [hphys] at h1
    have hmax : maxInitialMemory ≤ 2 ^ 52 := by decide
    by_cases t0 : s.sectionType = 0
    · simp only [t0, if_true] at h
      obtain ⟨a, b, c, d⟩ := cfvCheck_ok _ _ _ _ h
      simp only [] at d
      exact ⟨⟨by omega, by omega, by omega, fun _ => ⟨a, b, c⟩⟩, d, by omega⟩
    · simp only [t0, if_false] at h
      by_cases t1 : s.sectionType = 1
      · simp only [t1, if_true] at h
        obtain ⟨a, b, c, d⟩ := cfvCheck_ok _ _ _ _ h
        simp only [] at d
        exact ⟨⟨by omega, by omega, by omega, fun _ => ⟨a, b, c⟩⟩, d, by omega⟩
      · simp only [t1, if_false] at h
        by_cases t2 : s.sectionType = 2
        · simp only [t2, if_true] at h
          by_cases hh : st.foundHob = true
          · simp [hh] at h
          · simp only [hh] at h
            injection h with h; subst h
            exact ⟨⟨by omega, by omega, by omega, fun hc => by omega⟩, rfl, by simp only []; omega⟩
        · simp only [t2, if_false] at h
          by_cases t3 : s.sectionType = 3
          · simp only [t3, if_true] at h
            injection h with h; subst h
            exact ⟨⟨by omega, by omega, by omega, fun hc => by omega⟩, rfl, by simp only []; omega⟩
          · simp [t3] at h

theorem validateLoop_ok (fwLen : Nat) : ∀ (ss : List TdxSection) (st st' : VState),
    validateLoop fwLen ss st = .ok st' →
    (∀ s ∈ ss, SecOK fwLen s) ∧ st'.total = st.total + (ss.map (·.memorySize)).sum ∧
    (st.total ≤ maxInitialMemory → st'.total ≤ maxInitialMemory) := by
  intro ss
  induction ss with
  | nil => intro st st' h; simp [validateLoop] at h; subst h; simp
  | cons s ss ih =>
    intro st st' h
    unfold validateLoop at h
    cases hs : validateStep fwLen s st with
    | ok st1 =>
      rw [hs] at h; simp only [] at h
      obtain ⟨a, b, c⟩ := validateStep_ok _ _ _ _ hs
      obtain ⟨d, e, f⟩ := ih st1 st' h
      refine ⟨?_, ?_, fun _ => f c⟩
      · intro x hx
        rcases List.mem_cons.mp hx with rfl | hx
        · exact a
        · exact d x hx
      · simp only [List.map_cons, List.sum_cons]; omega
    | err c => rw [hs] at h; simp at h
    | panic p => rw [hs] at h; simp at h

theorem validateStep_no_panic (fwLen : Nat) (s : TdxSection) (st : VState) : ¬ (validateStep fwLen s st).isPanic := by
  unfold validateStep cfvCheck
  repeat' split
  all_goals first | (simp [Outcome.isPanic]; done) | (cases st.foundHob <;> simp [Outcome.isPanic])

theorem validateLoop_no_panic (fwLen : Nat) : ∀ (ss : List TdxSection) (st : VState), ¬ (validateLoop fwLen ss st).isPanic := by
  intro ss
  induction ss with
  | nil => intro st; simp [validateLoop, Outcome.isPanic]
  | cons s ss ih =>
    intro st
    unfold validateLoop
    have := validateStep_no_panic fwLen s st
    cases hs : validateStep fwLen s st with
    | ok st1 => exact ih st1
    | err c => simp [Outcome.isPanic]
    | panic p => rw [hs] at this; simp [Outcome.isPanic] at this

/-- Facts about metadata that passed validation. -/
structure Validated (fwLen : Nat) (md : TdxMetadata) : Prop where
  secs : ∀ s ∈ md.sections, SecOK fwLen s
  total : (md.sections.map (·.memorySize)).sum ≤ maxInitialMemory

theorem validate_ok (fwLen : Nat) (md : TdxMetadata) (h : validateTDXMetadataSections fwLen md = .ok ()) :
    Validated fwLen md := by
  unfold validateTDXMetadataSections at h
  repeat' (split at h)
  all_goals try (simp at h)
  rename_i st hst _ _ _
  obtain ⟨a, b, c⟩ := validateLoop_ok fwLen md.sections {} st hst
  have : ({} : VState).total = 0 := rfl
  exact ⟨a, by have := c (by rw [this]; exact Nat.zero_le _); omega⟩

theorem validate_no_panic (fwLen : Nat) (md : TdxMetadata) : ¬ (validateTDXMetadataSections fwLen md).isPanic := by
  unfold validateTDXMetadataSections
  have := validateLoop_no_panic fwLen md.sections {}
  repeat' split
  all_goals try (simp [Outcome.isPanic])
  rename_i p hp
  rw [hp] at this; simp [Outcome.isPanic] at this

end GceTcb.TdxMeta

namespace GceTcb.TdxMeta
open GceTcb GceTcb.Codec GceTcb.Codecs GceTcb.Intervals

theorem guidTable_ok_length (fw : Bytes) (m : GuidTable.BlockMap) (h : GuidTable.getFwGUIDToBlockMap fw = .ok m) :
    50 ≤ fw.length := by
  unfold GuidTable.getFwGUIDToBlockMap GuidTable.getFwGUIDTable at h
  by_cases h0 : fw.length < 50
  · simp [h0] at h
  · omega

/-- uint32 arithmetic of the metadata GUID offset: both slice expressions are in range -/
theorem guid_offset_in_range (L mo : Nat) (hL : 50 ≤ L) (h1 : ¬ (mo > (L - 16) % 2 ^ 32 ∨ mo < 16)) :
    let goff := (L % 2 ^ 32 + 2 ^ 32 - mo + 2 ^ 32 - 16) % 2 ^ 32
    goff ≤ (goff + 16) % 2 ^ 32 ∧ (goff + 16) % 2 ^ 32 ≤ L := by
  intro goff
  have hgo : goff = (L % 2 ^ 32 + 2 ^ 32 - mo + 2 ^ 32 - 16) % 2 ^ 32 := rfl
  by_cases hl : L % 2 ^ 32 ≥ 16
  · have : (L - 16) % 2 ^ 32 = L % 2 ^ 32 - 16 := by omega
    omega
  · have : (L - 16) % 2 ^ 32 = L % 2 ^ 32 + 2 ^ 32 - 16 := by omega
    omega

theorem tdxMetadataFromBytes_no_panic (b : Bytes) : ¬ (tdxMetadataFromBytes b).isPanic := by
  unfold tdxMetadataFromBytes tdxDescriptorFromBytes Rec.dec Rec.decBody
  by_cases h1 : b.length < tdxDescriptorRec.size
  · simp [h1, Outcome.isPanic]
  · simp only [h1, if_false]
    by_cases h2 : tdxDescriptorRec.valid (decF tdxDescriptorRec.ws b) = true
    · simp only [h2, if_true]
      split <;> simp [Outcome.isPanic]
    · simp [h2, Outcome.isPanic]

theorem locateMetadata_no_panic (fw block : Bytes) (hL : 50 ≤ fw.length) :
    ¬ (locateMetadata fw block).isPanic ∧ ∀ d, locateMetadata fw block = .ok d → d.length ≤ fw.length := by
  unfold locateMetadata
  by_cases h0 : block.length < 4 + 18
  · simp [h0, Outcome.isPanic]
  · simp only [h0, if_false]
    by_cases h1 : leVal (block.take 4) > (fw.length - 16) % 2 ^ 32 ∨ leVal (block.take 4) < 16
    · simp [h1, Outcome.isPanic]
    · simp only [h1, if_false]
      have hr := guid_offset_in_range fw.length (leVal (block.take 4)) hL h1
      simp only [] at hr
      rw [goSlice_ok _ _ _ _ hr]
      simp only []
      split
      · simp [Outcome.isPanic]
      · rw [goSlice_ok _ _ _ _ ⟨hr.2, Nat.le_refl _⟩]
        refine ⟨by simp [Outcome.isPanic], ?_⟩
        intro d hd
        injection hd with hd
        rw [← hd]; simp [sliceOf]

theorem decodeAndValidate_no_panic (fwLen : Nat) (desc : Bytes) : ¬ (decodeAndValidate fwLen desc).isPanic := by
  unfold decodeAndValidate
  have hm := tdxMetadataFromBytes_no_panic desc
  cases hmd : tdxMetadataFromBytes desc with
  | ok md =>
    simp only []
    have hv := validate_no_panic fwLen md
    cases hvv : validateTDXMetadataSections fwLen md with
    | ok _ => simp [Outcome.isPanic]
    | err c => simp [Outcome.isPanic]
    | panic p => rw [hvv] at hv; simp [Outcome.isPanic] at hv
  | err c => simp [Outcome.isPanic]
  | panic p => rw [hmd] at hm; simp [Outcome.isPanic] at hm

theorem decodeAndValidate_ok (fwLen : Nat) (desc : Bytes) (md : TdxMetadata) (h : decodeAndValidate fwLen desc = .ok md) :
    Validated fwLen md ∧ 32 * md.sections.length ≤ desc.length := by
  unfold decodeAndValidate at h
  cases hmd : tdxMetadataFromBytes desc with
  | ok md' =>
    rw [hmd] at h; simp only [] at h
    cases hvv : validateTDXMetadataSections fwLen md' with
    | ok u =>
      rw [hvv] at h; simp only [] at h
      injection h with h; subst h
      refine ⟨validate_ok _ _ (by cases u; exact hvv), ?_⟩
      unfold tdxMetadataFromBytes at hmd
      cases hh : tdxDescriptorFromBytes desc with
      | ok hdr =>
        rw [hh] at hmd; simp only [] at hmd
        by_cases hc : hdr.sectionCount * 32 > desc.length - 16
        · simp [hc] at hmd
        · simp only [hc, if_false] at hmd
          injection hmd with hmd; subst hmd
          simp only [tdxReadSections_length]; omega
      | err c => rw [hh] at hmd; simp at hmd
      | panic p => rw [hh] at hmd; simp at hmd
    | err c => rw [hvv] at h; simp at h
    | panic p => rw [hvv] at h; simp at h
  | err c => rw [hmd] at h; simp at h
  | panic p => rw [hmd] at h; simp at h

theorem extract_no_panic (fw : Bytes) : ¬ (extractTDXMetadata fw).isPanic := by
  unfold extractTDXMetadata
  have hg := getFwGuidToBlockMap_no_panic fw
  cases hw : GuidTable.getFwGUIDToBlockMap fw with
  | ok w =>
    simp only []
    have hL := guidTable_ok_length fw w hw
    cases hb : GuidTable.BlockMap.lookup w tdxOffsetUuid with
    | none => simp [Outcome.isPanic]
    | some block =>
      simp only []
      have hl := (locateMetadata_no_panic fw block hL).1
      cases hd : locateMetadata fw block with
      | ok desc => exact decodeAndValidate_no_panic _ desc
      | err c => simp [Outcome.isPanic]
      | panic p => rw [hd] at hl; simp [Outcome.isPanic] at hl
  | err c => simp [Outcome.isPanic]
  | panic p => rw [hw] at hg; simp [Outcome.isPanic] at hg

/-- Metadata returned by extractTDXMetadata passed validation, and its section list fits the image. -/
theorem extract_ok (fw : Bytes) (md : TdxMetadata) (h : extractTDXMetadata fw = .ok md) :
    Validated (fw.length % 2 ^ 32) md ∧ 32 * md.sections.length ≤ fw.length ∧ 50 ≤ fw.length := by
  unfold extractTDXMetadata at h
  cases hw : GuidTable.getFwGUIDToBlockMap fw with
  | ok w =>
    rw [hw] at h; simp only [] at h
    have hL := guidTable_ok_length fw w hw
    cases hb : GuidTable.BlockMap.lookup w tdxOffsetUuid with
    | none => rw [hb] at h; simp at h
    | some block =>
      rw [hb] at h; simp only [] at h
      cases hd : locateMetadata fw block with
      | ok desc =>
        rw [hd] at h; simp only [] at h
        have := decodeAndValidate_ok _ desc md h
        have hl := (locateMetadata_no_panic fw block hL).2 desc hd
        exact ⟨this.1, by omega, hL⟩
      | err c => rw [hd] at h; simp at h
      | panic p => rw [hd] at h; simp at h
  | err c => rw [hw] at h; simp at h
  | panic p => rw [hw] at h; simp at h

/-- SectionCount is a uint32: accepted metadata has fewer than 2^32 sections (whatever the image size). -/
theorem extract_count (fw : Bytes) (md : TdxMetadata) (h : extractTDXMetadata fw = .ok md) :
    md.sections.length < 2 ^ 32 := by
  unfold extractTDXMetadata at h
  cases hw : GuidTable.getFwGUIDToBlockMap fw with
  | ok w =>
    rw [hw] at h; simp only [] at h
    cases hb : GuidTable.BlockMap.lookup w tdxOffsetUuid with
    | none => rw [hb] at h; simp at h
    | some block =>
      rw [hb] at h; simp only [] at h
      cases hd : locateMetadata fw block with
      | ok desc =>
        rw [hd] at h; simp only [] at h
        unfold decodeAndValidate at h
        cases hmd : tdxMetadataFromBytes desc with
        | ok md' =>
          rw [hmd] at h; simp only [] at h
          cases hvv : validateTDXMetadataSections (fw.length % 2 ^ 32) md' with
          | ok u =>
            rw [hvv] at h; simp only [] at h
            injection h with h; subst h
            unfold tdxMetadataFromBytes at hmd
            cases hh : tdxDescriptorFromBytes desc with
            | ok hdr =>
              rw [hh] at hmd; simp only [] at hmd
              have hr := (Rec.dec_canon tdxDescriptorLaws .errShort desc hdr hh).2.1
              by_cases hc : hdr.sectionCount * 32 > desc.length - 16
              · simp [hc] at hmd
              · simp only [hc, if_false] at hmd
                injection hmd with hmd; subst hmd
                simp only [tdxReadSections_length]
                exact hr.2.2.2
            | err c => rw [hh] at hmd; simp at hmd
            | panic p => rw [hh] at hmd; simp at hmd
          | err c => rw [hvv] at h; simp at h
          | panic p => rw [hvv] at h; simp at h
        | err c => rw [hmd] at h; simp at h
        | panic p => rw [hmd] at h; simp at h
      | err c => rw [hd] at h; simp at h
      | panic p => rw [hd] at h; simp at h
  | err c => rw [hw] at h; simp at h
  | panic p => rw [hw] at h; simp at h

end GceTcb.TdxMeta

namespace GceTcb.TdxHob
open GceTcb GceTcb.Codec GceTcb.Codecs GceTcb.Intervals GceTcb.TdxMeta

/-- Invariant of the section loop of parse. -/
structure PInv (st : PState) : Prop where
  len : st.regions.length = st.index
  privLen : st.priv.length = st.index
  hob : ∀ i, st.hobIndex = some i → i < st.index
  size : ∀ r ∈ st.regions, r.gpr.len ≤ maxInitialMemory
  range : ∀ r ∈ st.regions, r.gpr.start + r.gpr.len ≤ 2 ^ 52
  /-- bytes requested from `make` so far: at most the declared memory of the sections seen -/
  alloc : st.alloc ≤ (st.regions.map (·.gpr.len)).sum
  /-- iterations of the overlap check so far -/
  ticks : st.ticks ≤ st.index * st.index

theorem validateGpr_no_panic (regions : List Region) (g : Gpr) : ¬ (validateMetadataSectionGpr regions g).isPanic := by
  unfold validateMetadataSectionGpr; split <;> simp [Outcome.isPanic]

theorem parseStep_ok (ma : Bool) (fw : Bytes) (s : TdxSection) (st : PState)
    (hs : SecOK (fw.length % 2 ^ 32) s) (hi : PInv st) :
    ¬ (parseStep ma fw s st).isPanic ∧
    ∀ st', parseStep ma fw s st = .ok st' → PInv st' ∧ st'.index = st.index + 1 ∧
      (st'.regions.map (·.gpr.len)).sum = (st.regions.map (·.gpr.len)).sum + s.memorySize := by
  obtain ⟨s1, s2, s3, s4⟩ := hs
  unfold parseStep
  simp only []
  cases hv : validateMetadataSectionGpr st.regions ⟨s.memoryBase, s.memorySize⟩ with
  | panic p => have := validateGpr_no_panic st.regions ⟨s.memoryBase, s.memorySize⟩; rw [hv] at this; simp [Outcome.isPanic] at this
  | err c => simp [Outcome.isPanic]
  | ok u =>
    simp only []
    have hsq : st.ticks + st.regions.length ≤ (st.index + 1) * (st.index + 1) := by
      have := hi.ticks; have := hi.len
      have : (st.index + 1) * (st.index + 1) = st.index * st.index + 2 * st.index + 1 := by
        rw [Nat.add_mul, Nat.mul_add, Nat.mul_add]; omega
      omega
    -- the state after a zero-filled section
    have zero_inv : ∀ (ho : Option Nat), (∀ i, ho = some i → i < st.index + 1) →
        PInv { regions := st.regions ++ [⟨⟨s.memoryBase, s.memorySize⟩, ⟨[], if ma then s.memorySize else 0⟩, if ma then s.attributes ||| 1 else s.attributes⟩],
               priv := st.priv ++ [⟨s.memoryBase, s.memorySize⟩], hobIndex := ho, index := st.index + 1,
               alloc := st.alloc + (if ma then s.memorySize else 0), ticks := st.ticks + st.regions.length } := by
      intro ho hho
      refine ⟨by simp [hi.len], by simp [hi.privLen], hho, ?_, ?_, ?_, hsq⟩
      · intro r hr
        rcases List.mem_append.mp hr with hr | hr
        · exact hi.size r hr
        · simp only [List.mem_singleton] at hr; subst hr; exact s1
      · intro r hr
        rcases List.mem_append.mp hr with hr | hr
        · exact hi.range r hr
        · simp only [List.mem_singleton] at hr; subst hr; exact s2
      · simp only [List.map_append, List.sum_append, List.map_cons, List.map_nil, List.sum_cons, List.sum_nil]
        have := hi.alloc
        split <;> omega
    by_cases t2 : s.sectionType = 2
    · simp only [t2, if_true]
      refine ⟨by simp [Outcome.isPanic], ?_⟩
      intro st' h; injection h with h; subst h
      exact ⟨zero_inv (some st.index) (fun i hi' => by injection hi' with hi'; omega), rfl, by simp⟩
    · simp only [t2, if_false]
      by_cases t3 : s.sectionType = 3
      · simp only [t3, if_true]
        refine ⟨by simp [Outcome.isPanic], ?_⟩
        intro st' h; injection h with h; subst h
        exact ⟨zero_inv st.hobIndex (fun i hi' => by have := hi.hob i hi'; omega), rfl, by simp⟩
      · simp only [t3, if_false]
        have t01 : s.sectionType = 0 ∨ s.sectionType = 1 := by omega
        obtain ⟨f1, f2, f3⟩ := s4 t01
        simp only [t01, if_true]
        have hmod : (s.dataOffset + s.memorySize % 2 ^ 32) % 2 ^ 32 = s.dataOffset + s.dataSize := by
          have : fw.length % 2 ^ 32 < 2 ^ 32 := Nat.mod_lt _ (by decide)
          rw [f1]; omega
        have hle : fw.length % 2 ^ 32 ≤ fw.length := Nat.mod_le _ _
        rw [hmod, goSlice_ok _ _ _ _ (by omega)]
        refine ⟨by simp [Outcome.isPanic], ?_⟩
        intro st' h; injection h with h; subst h
        refine ⟨⟨by simp [hi.len], by simp [hi.privLen], fun i hi' => by have := hi.hob i hi'; simp only [] at *; omega, ?_, ?_, ?_, hsq⟩, rfl, by simp⟩
        · intro r hr
          rcases List.mem_append.mp hr with hr | hr
          · exact hi.size r hr
          · simp only [List.mem_singleton] at hr; subst hr; exact s1
        · intro r hr
          rcases List.mem_append.mp hr with hr | hr
          · exact hi.range r hr
          · simp only [List.mem_singleton] at hr; subst hr; exact s2
        · simp only [List.map_append, List.sum_append, List.map_cons, List.map_nil, List.sum_cons, List.sum_nil]
          have := hi.alloc; omega

theorem parseLoop_ok (ma : Bool) (fw : Bytes) : ∀ (ss : List TdxSection) (st : PState),
    (∀ s ∈ ss, SecOK (fw.length % 2 ^ 32) s) → PInv st →
    ¬ (parseLoop ma fw ss st).isPanic ∧
    ∀ st', parseLoop ma fw ss st = .ok st' → PInv st' ∧ st'.index = st.index + ss.length ∧
      (st'.regions.map (·.gpr.len)).sum = (st.regions.map (·.gpr.len)).sum + (ss.map (·.memorySize)).sum := by
  intro ss
  induction ss with
  | nil => intro st _ hi; simp [parseLoop, Outcome.isPanic]; exact hi
  | cons s ss ih =>
    intro st hs hi
    unfold parseLoop
    obtain ⟨p1, p2⟩ := parseStep_ok ma fw s st (hs s (List.mem_cons_self ..)) hi
    cases h : parseStep ma fw s st with
    | ok st1 =>
      simp only []
      obtain ⟨i1, i2, i3⟩ := p2 st1 h
      obtain ⟨q1, q2⟩ := ih st1 (fun x hx => hs x (List.mem_cons_of_mem _ hx)) i1
      refine ⟨q1, ?_⟩
      intro st' h'
      obtain ⟨r1, r2, r3⟩ := q2 st' h'
      exact ⟨r1, by simp only [List.length_cons]; omega,
        by simp only [List.map_cons, List.sum_cons]; omega⟩
    | err c => simp [Outcome.isPanic]
    | panic p => rw [h] at p1; simp [Outcome.isPanic] at p1

theorem pinv_init : PInv {} := ⟨rfl, rfl, fun i h => by simp at h, fun r h => by simp at h, fun r h => by simp at h, by simp, by simp⟩

theorem getTDHOBList_no_panic (hob : Gpr) (priv un : List Gpr) (dea : Bool) (h : hob.len < 2 ^ 63) :
    ¬ (getTDHOBList hob priv un dea).isPanic := by
  unfold getTDHOBList
  have : ¬ hob.len % 2 ^ 64 ≥ 2 ^ 63 := by omega
  simp only [this, if_false]
  split <;> simp [Outcome.isPanic]

/-- tdxFwParser.parse never panics on images below 64 GiB (the TD HOB index is stored as int32). -/
theorem parse_no_panic (o : ParserOpts) (fw : Bytes) (banks : List Gpr) (hfw : fw.length < 2 ^ 36) :
    ¬ (parse o fw banks).isPanic := by
  unfold parse
  have he := extract_no_panic fw
  cases hmd : extractTDXMetadata fw with
  | panic p => rw [hmd] at he; simp [Outcome.isPanic] at he
  | err c => simp [Outcome.isPanic]
  | ok md =>
    simp only []
    obtain ⟨hv, hlen, _⟩ := extract_ok fw md hmd
    obtain ⟨p1, p2⟩ := parseLoop_ok o.measureAll fw md.sections {} hv.secs pinv_init
    cases hp : parseLoop o.measureAll fw md.sections {} with
    | panic p => rw [hp] at p1; simp [Outcome.isPanic] at p1
    | err c => simp [Outcome.isPanic]
    | ok st =>
      simp only []
      obtain ⟨inv, hidx, _⟩ := p2 st hp
      cases hh : st.hobIndex with
      | none => simp [Outcome.isPanic]
      | some i =>
        simp only []
        have hi := inv.hob i hh
        have hidx' : st.index = md.sections.length := by simpa using hidx
        have hi31 : ¬ i % 2 ^ 32 ≥ 2 ^ 31 := by omega
        simp only [hi31, if_false]
        have himod : i % 2 ^ 32 = i := by omega
        rw [himod]
        have hlt : i < st.regions.length := by rw [inv.len]; exact hi
        rw [List.getElem?_eq_getElem hlt]
        simp only []
        have hsz := inv.size st.regions[i] (List.getElem_mem hlt)
        have hmax : maxInitialMemory < 2 ^ 63 := by decide
        have hg := getTDHOBList_no_panic st.regions[i].gpr st.priv (unacceptedMemRanges st.priv banks) o.disableEarlyAccept (by omega)
        cases hgl : getTDHOBList st.regions[i].gpr st.priv (unacceptedMemRanges st.priv banks) o.disableEarlyAccept with
        | ok b => simp [Outcome.isPanic]
        | err c => simp [Outcome.isPanic]
        | panic p => rw [hgl] at hg; simp [Outcome.isPanic] at hg

end GceTcb.TdxHob

namespace GceTcb.Mrtd
open GceTcb GceTcb.Intervals GceTcb.TdxMeta GceTcb.TdxHob

/-- InitMemoryRegion: the slice `data[i:i+256]` is only evaluated when the buffer has the region's length. -/
theorem initChecks_no_panic (m : Bool) (r : Region) : ¬ (initChecks m r).isPanic := by
  unfold initChecks
  generalize ((r.attrs &&& 1 ≠ 0) || m) = measure
  simp only []
  by_cases h1 : measure = true ∧ r.gpr.len % 2 ^ 64 ≠ r.buf.length
  · rw [if_pos h1]; simp [Outcome.isPanic]
  · rw [if_neg h1]
    by_cases h2 : r.gpr.start % 2 ^ 64 % 4096 ≠ 0
    · rw [if_pos h2]; simp [Outcome.isPanic]
    · rw [if_neg h2]
      by_cases h3 : r.gpr.len % 2 ^ 64 % 4096 ≠ 0
      · rw [if_pos h3]; simp [Outcome.isPanic]
      · rw [if_neg h3]
        by_cases h4 : r.buf.length % 256 ≠ 0
        · rw [if_pos h4]; simp [Outcome.isPanic]
        · rw [if_neg h4]
          have h5 : ¬ (measure = true ∧ r.buf.length < r.gpr.len % 2 ^ 64) := by
            intro hh; apply h1; exact ⟨hh.1, by omega⟩
          rw [if_neg h5]; simp [Outcome.isPanic]

theorem initMemoryRegion_no_panic (m : Bool) (r : Region) : ¬ (initMemoryRegion m r).isPanic := by
  unfold initMemoryRegion
  have := initChecks_no_panic m r
  cases h : initChecks m r with
  | ok b => simp [Outcome.isPanic]
  | err c => simp [Outcome.isPanic]
  | panic p => rw [h] at this; simp [Outcome.isPanic] at this

theorem initAll_no_panic (m : Bool) : ∀ (rs : List Region), ¬ (initAll m rs).isPanic := by
  intro rs
  induction rs with
  | nil => simp [initAll, Outcome.isPanic]
  | cons r rs ih =>
    unfold initAll
    have h1 := initMemoryRegion_no_panic m r
    cases h : initMemoryRegion m r with
    | ok s =>
      simp only []
      cases h' : initAll m rs with
      | ok t => simp [Outcome.isPanic]
      | err c => simp [Outcome.isPanic]
      | panic p => rw [h'] at ih; simp [Outcome.isPanic] at ih
    | err c => simp [Outcome.isPanic]
    | panic p => rw [h] at h1; simp [Outcome.isPanic] at h1

theorem mrtdRegions_no_panic (o : LaunchOptions) (fw : Bytes) (hfw : fw.length < 2 ^ 36) :
    ¬ (mrtdRegions o fw).isPanic := by
  unfold mrtdRegions extractNoUnacceptedMemory extractTDHOBBug extractDefault
  split
  · exact parse_no_panic _ fw _ hfw
  · split
    · exact parse_no_panic _ fw _ hfw
    · exact parse_no_panic _ fw _ hfw

theorem mrtdStream_no_panic (o : LaunchOptions) (fw : Bytes) (hfw : fw.length < 2 ^ 36) :
    ¬ (mrtdStream o fw).isPanic := by
  unfold mrtdStream
  have := mrtdRegions_no_panic o fw hfw
  cases h : mrtdRegions o fw with
  | ok regions => exact initAll_no_panic _ regions
  | err c => simp [Outcome.isPanic]
  | panic p => rw [h] at this; simp [Outcome.isPanic] at this

theorem mrtd_no_panic (H : Bytes → Bytes) (o : LaunchOptions) (fw : Bytes) (hfw : fw.length < 2 ^ 36) :
    ¬ (mrtd H o fw).isPanic := by
  unfold mrtd
  have := mrtdStream_no_panic o fw hfw
  cases h : mrtdStream o fw with
  | ok s => simp [Outcome.isPanic]
  | err c => simp [Outcome.isPanic]
  | panic p => rw [h] at this; simp [Outcome.isPanic] at this

end GceTcb.Mrtd
