import GceTcb.Proofs.TdxMain
import GceTcb.Proofs.GuidTableExtra
/-
C05 — non-vacuity of the end-to-end theorem: a concrete 4 KiB image (one boot firmware volume covering
the image, a TD_HOB page, two pages of temporary memory; TDX metadata located through the GUIDed table
at the end of the image) that meets `Valid` in the default and in the measure-all mode, evaluated by the
kernel.  The well-founded GUID-table walk is stepped with the lemmas of Proofs/GuidTableExtra.lean.
Core-only.
-/
namespace GceTcb.TdxExample
open GceTcb GceTcb.Codec GceTcb.Codecs GceTcb.Intervals GceTcb.TdxMeta GceTcb.TdxHob GceTcb.Mrtd GceTcb.GuidTable

/-- descriptor (magic, length 16 + 3·32, version 1, three sections) and the sections:
    BFV = the whole image at 0xFFFFF000, measured; TD_HOB page at 0x809000; two TempMem pages at 0x80A000 -/
def exMd : TdxMetadata :=
  ⟨⟨0x46564454, 112, 1, 3⟩,
   [⟨0, 4096, 0xFFFFF000, 4096, 0, 1⟩, ⟨0, 0, 0x809000, 0x1000, 2, 0⟩, ⟨0, 0, 0x80A000, 0x2000, 3, 0⟩]⟩

/-- the GUIDed table contents: the TDX metadata offset block (offset 184 from the end, then its entry) -/
def exTable : Bytes := leBytes 4 184 ++ fwGuidEntryRec.enc ⟨22, tdxOffsetUuid⟩

/-- padding, metadata GUID, descriptor + sections, GUIDed table, footer entry, 32 trailing bytes -/
def exFw : Bytes :=
  List.replicate 3896 0 ++ uuidRec.enc tdxMetadataUuid ++ tdxMetadataEnc exMd ++
    exTable ++ fwGuidEntryRec.enc ⟨40, footerGuid⟩ ++ List.replicate 32 0

theorem ex_length : exFw.length = 4096 := by decide +kernel

theorem ex_table : getFwGUIDTable exFw = .ok exTable := by decide +kernel

theorem ex_step : walkStep exTable 22 [] = .ok (0, [(tdxOffsetUuid, exTable)]) := by decide

theorem ex_map : getFwGUIDToBlockMap exFw = .ok [(tdxOffsetUuid, exTable)] := by
  unfold getFwGUIDToBlockMap
  rw [ex_table]
  simp only []
  have hl : exTable.length = 22 := by decide
  rw [hl, guidWalk_step _ 22 [] 0 _ (by decide) ex_step, guidWalk_zero]

theorem ex_read : readTDXMetadata exFw = .ok exMd := by
  unfold readTDXMetadata
  rw [ex_map]
  simp only []
  have hl : BlockMap.lookup [(tdxOffsetUuid, exTable)] tdxOffsetUuid = some exTable := by decide
  rw [hl]
  simp only []
  have hloc : locateMetadata exFw exTable = .ok (exFw.drop 3912) := by decide +kernel
  rw [hloc]
  simp only []
  have hdec : tdxMetadataFromBytes (exFw.drop 3912) = .ok exMd := by decide +kernel
  rw [hdec]

theorem ex_metaValid : MetaValid (exFw.length % 2 ^ 32) exMd := by
  rw [ex_length]
  exact ⟨by decide, by decide, by decide, by decide, by decide, by decide,
    ⟨_, List.mem_cons_self .., rfl⟩, by decide⟩

theorem ex_disjoint : DisjointL (exMd.sections.map gprOf) := by
  simp only [exMd, List.map_cons, List.map_nil, gprOf, DisjointL, List.pairwise_cons, List.mem_cons,
    List.not_mem_nil, or_false, Gpr.mem, forall_eq_or_imp, forall_eq]
  repeat' apply And.intro
  all_goals first | (intro x; omega) | exact List.Pairwise.nil | (intro _ hf; exact absurd hf id)

/-- the example image has valid TDVF metadata in every mode -/
theorem ex_valid (mode : Spec.Mrtd.Mode) : Valid mode exFw exMd :=
  ⟨ex_read, ex_metaValid, ex_disjoint, by decide, by decide, fun _ => by decide⟩

/-- one 16 MiB bank from address 0: it contains the TD_HOB page and the temporary memory -/
def exBanks : List Gpr := [⟨0, 0x1000000⟩]

theorem ex_banks : NoOverflow exBanks ∧ DisjointL exBanks := by
  refine ⟨?_, ?_⟩
  · intro g hg; simp only [exBanks, List.mem_cons, List.not_mem_nil, or_false] at hg; subst hg; decide
  · simp [exBanks, DisjointL]

theorem ex_stream_default :
    (Spec.Mrtd.stream .default exFw [] (exMd.sections.map metaOf)).isSome = true := by decide +kernel

theorem ex_stream_all :
    (Spec.Mrtd.stream .measureAll exFw (exBanks.map pair) (exMd.sections.map metaOf)).isSome = true := by
  decide +kernel

/-- default mode: tdx.MRTD returns the hash of the specification's stream -/
theorem ex_mrtd_default (H : Bytes → Bytes) :
    ∃ s, Spec.Mrtd.stream .default exFw [] (exMd.sections.map metaOf) = some s ∧ mrtd H {} exFw = .ok (H s) := by
  obtain ⟨s, hs⟩ := Option.isSome_iff_exists.mp ex_stream_default
  refine ⟨s, hs, ?_⟩
  have hm : modeOf {} = .default := rfl
  apply (mrtd_iff H {} exFw (H s) (fun h => absurd hm h)).mpr
  refine ⟨exMd, ex_valid _, ?_⟩
  rw [hm]
  show (Spec.Mrtd.stream .default exFw [] (exMd.sections.map metaOf)).map H = some (H s)
  rw [hs]; rfl

/-- legacy measure-all mode with a bank list: likewise -/
theorem ex_mrtd_all (H : Bytes → Bytes) :
    ∃ s, Spec.Mrtd.stream .measureAll exFw (exBanks.map pair) (exMd.sections.map metaOf) = some s ∧
      mrtd H { banks := exBanks, measureAllRegions := true } exFw = .ok (H s) := by
  obtain ⟨s, hs⟩ := Option.isSome_iff_exists.mp ex_stream_all
  refine ⟨s, hs, ?_⟩
  have hm : modeOf { banks := exBanks, measureAllRegions := true } = .measureAll := rfl
  apply (mrtd_iff H _ exFw (H s) (fun _ => ex_banks)).mpr
  refine ⟨exMd, ex_valid _, ?_⟩
  rw [hm]
  show (Spec.Mrtd.stream .measureAll exFw (exBanks.map pair) (exMd.sections.map metaOf)).map H = some (H s)
  rw [hs]; rfl

end GceTcb.TdxExample
