import GceTcb.Model.Rotate
/-
A small program logic for the `Run` monad of Model/CA.lean: triples with three postconditions
(normal return, error return, crash), valid for one arbitrary but fixed fault script `sc`.
Because the script is arbitrary, a triple proved here holds for every combination of faults.
-/
namespace GceTcb.CA

def NoFault (sc : Nat → Fault) : Prop := ∀ n, sc n = .ok

theorem noFault_noFault : NoFault noFault := fun _ => rfl

/-- `{P} m {Q | R | E}` under script `sc`: from a state satisfying `P`, a normal return with value `a`
    ends in a state satisfying `Q a`, an error return in `R`, a crash in `E`. -/
def Triple {α : Type} (sc : Nat → Fault) (P : St → Prop) (m : Run α) (Q : α → St → Prop)
    (R E : St → Prop) : Prop :=
  ∀ s, P s → match m sc s with
    | .ok a s' => Q a s'
    | .err s' => R s'
    | .crash s' => E s'

/-- The usual shape: on error or crash the state satisfies `X`; a crash happens only under a script
    with a fault, an error only under a script with a fault or when overwriting is not allowed. -/
def Tr {α : Type} (sc : Nat → Fault) (ow : Bool) (P : St → Prop) (m : Run α) (Q : α → St → Prop)
    (X : St → Prop) : Prop :=
  Triple sc P m Q (fun s => X s ∧ (¬ NoFault sc ∨ ow = false)) (fun s => X s ∧ ¬ NoFault sc)

variable {sc : Nat → Fault} {ow : Bool}

theorem Triple.pure {α : Type} {P : St → Prop} {Q : α → St → Prop} {R E : St → Prop} (a : α)
    (h : ∀ s, P s → Q a s) : Triple sc P (Pure.pure a : Run α) Q R E := by
  intro s hP; exact h s hP

theorem Triple.bind {α β : Type} {P : St → Prop} {m : Run α} {f : α → Run β} {Q1 : α → St → Prop}
    {Q : β → St → Prop} {R E : St → Prop}
    (h1 : Triple sc P m Q1 R E) (h2 : ∀ a, Triple sc (Q1 a) (f a) Q R E) :
    Triple sc P (m >>= f) Q R E := by
  intro s hP
  have := h1 s hP
  show match (match m sc s with
    | .ok a s' => f a sc s'
    | .err s' => .err s'
    | .crash s' => .crash s') with
    | .ok a s' => Q a s' | .err s' => R s' | .crash s' => E s'
  cases hm : m sc s with
  | ok a s' => rw [hm] at this; exact h2 a s' this
  | err s' => rw [hm] at this; exact this
  | crash s' => rw [hm] at this; exact this

theorem Triple.conseq {α : Type} {P P' : St → Prop} {m : Run α} {Q Q' : α → St → Prop}
    {R R' E E' : St → Prop} (h : Triple sc P m Q R E) (hP : ∀ s, P' s → P s)
    (hQ : ∀ a s, Q a s → Q' a s) (hR : ∀ s, R s → R' s) (hE : ∀ s, E s → E' s) :
    Triple sc P' m Q' R' E' := by
  intro s hP'
  have := h s (hP s hP')
  cases hm : m sc s with
  | ok a s' => rw [hm] at this; exact hQ a s' this
  | err s' => rw [hm] at this; exact hR s' this
  | crash s' => rw [hm] at this; exact hE s' this

theorem Triple.pre {α : Type} {P P' : St → Prop} {m : Run α} {Q : α → St → Prop}
    {R E : St → Prop} (h : Triple sc P m Q R E) (hP : ∀ s, P' s → P s) : Triple sc P' m Q R E :=
  h.conseq hP (fun _ _ x => x) (fun _ x => x) (fun _ x => x)

theorem Triple.post {α : Type} {P : St → Prop} {m : Run α} {Q Q' : α → St → Prop}
    {R E : St → Prop} (h : Triple sc P m Q R E) (hQ : ∀ a s, Q a s → Q' a s) : Triple sc P m Q' R E :=
  h.conseq (fun _ x => x) hQ (fun _ x => x) (fun _ x => x)

/-- a precondition that carries a state-independent fact -/
theorem Triple.of_fact {α : Type} {φ : Prop} {P : St → Prop} {m : Run α} {Q : α → St → Prop}
    {R E : St → Prop} (h : φ → Triple sc P m Q R E) : Triple sc (fun s => φ ∧ P s) m Q R E := by
  intro s hP; exact h hP.1 s hP.2

/-- use a state-independent fact that the precondition implies -/
theorem Triple.have_fact {α : Type} {φ : Prop} {P : St → Prop} {m : Run α} {Q : α → St → Prop}
    {R E : St → Prop} (hφ : ∀ s, P s → φ) (h : φ → Triple sc P m Q R E) : Triple sc P m Q R E :=
  fun s hP => h (hφ s hP) s hP

theorem Triple.of_exists {α ι : Type} {P : ι → St → Prop} {m : Run α} {Q : α → St → Prop}
    {R E : St → Prop} (h : ∀ i, Triple sc (P i) m Q R E) : Triple sc (fun s => ∃ i, P i s) m Q R E := by
  intro s hP; obtain ⟨i, hi⟩ := hP; exact h i s hi

theorem Triple.unreach {α : Type} {P : St → Prop} {m : Run α} {Q : α → St → Prop}
    {R E : St → Prop} (h : ∀ s, ¬ P s) : Triple sc P m Q R E := by
  intro s hP; exact absurd hP (h s)

theorem Triple.throw {α : Type} {P : St → Prop} {Q : α → St → Prop} {R E : St → Prop}
    (h : ∀ s, P s → R s) : Triple sc P (throw : Run α) Q R E := by
  intro s hP; exact h s hP

theorem Triple.getSt {P : St → Prop} {R E : St → Prop} :
    Triple sc P getSt (fun a s => a = s ∧ P s) R E := by
  intro s hP; exact ⟨rfl, hP⟩

theorem Triple.modSt {P : St → Prop} {Q : Unit → St → Prop} {R E : St → Prop} (f : St → St)
    (h : ∀ s, P s → Q () (f s)) : Triple sc P (modSt f) Q R E := by
  intro s hP; exact h s hP

theorem Triple.ofOption {α : Type} {P : St → Prop} {Q : α → St → Prop} {R E : St → Prop} (o : Option α)
    (h : ∀ s, P s → match o with | some a => Q a s | none => R s) : Triple sc P (ofOption o) Q R E := by
  intro s hP
  have := h s hP
  cases o with
  | none => exact this
  | some a => exact this

/-- rule for one external call; the assertions inside the call may depend on the outcome `f` the script
    assigned to it (`f ≠ fail` there) -/
theorem Triple.wrapI {α : Type} {P : St → Prop} {P' : Fault → St → Prop} {body : Run α}
    {Q' : Fault → α → St → Prop} {R E : St → Prop}
    (c : Call)
    (hlog : ∀ s f, P s → P' f (s.logged c f))
    (hfail : ∀ s, P s → ¬ NoFault sc → R (s.logged c .fail))
    (hbody : ∀ f, Triple sc (P' f) body (Q' f) R E)
    (hQE : ∀ a s, ¬ NoFault sc → Q' .crash a s → E s)
    (hRE : ∀ s, ¬ NoFault sc → R s → E s) :
    Triple sc P (wrap c body) (Q' .ok) R E := by
  intro s hP
  unfold CA.wrap
  cases hs : sc s.pos with
  | fail =>
    have hf : ¬ NoFault sc := fun h => by rw [h s.pos] at hs; cases hs
    exact hfail s hP hf
  | ok => exact hbody .ok _ (hlog s .ok hP)
  | crash =>
    have hf : ¬ NoFault sc := fun h => by rw [h s.pos] at hs; cases hs
    have := hbody .crash _ (hlog s .crash hP)
    cases hb : body sc (s.logged c .crash) with
    | ok a s' => rw [hb] at this; exact hQE a s' hf this
    | err s' => rw [hb] at this; exact hRE s' hf this
    | crash s' => rw [hb] at this; exact this

theorem Triple.wrap {α : Type} {P P' : St → Prop} {body : Run α} {Q : α → St → Prop} {R E : St → Prop}
    (c : Call)
    (hlog : ∀ s f, P s → P' (s.logged c f))
    (hfail : ∀ s, P s → ¬ NoFault sc → R (s.logged c .fail))
    (hbody : Triple sc P' body Q R E)
    (hQE : ∀ a s, ¬ NoFault sc → Q a s → E s)
    (hRE : ∀ s, ¬ NoFault sc → R s → E s) :
    Triple sc P (wrap c body) Q R E :=
  Triple.wrapI (P' := fun _ => P') (Q' := fun _ => Q) c hlog hfail (fun _ => hbody) hQE hRE

theorem Triple.attempt {α : Type} {P : St → Prop} {m : Run α} {Q : α → St → Prop} {R R' E : St → Prop}
    (h : Triple sc P m Q R E) :
    Triple sc P (attempt m) (fun o s => match o with | some a => Q a s | none => R s) R' E := by
  intro s hP
  have := h s hP
  unfold CA.attempt
  cases hm : m sc s with
  | ok a s' => rw [hm] at this; exact this
  | err s' => rw [hm] at this; exact this
  | crash s' => rw [hm] at this; exact this

theorem Triple.repeatRun {α : Type} {P : St → Prop} {m : Run α} {φ : α → Prop} {R E : St → Prop}
    (h : Triple sc P m (fun a s => φ a ∧ P s) R E) (n : Nat) :
    Triple sc P (repeatRun n m) (fun l s => (∀ a ∈ l, φ a) ∧ P s) R E := by
  induction n with
  | zero =>
    unfold CA.repeatRun
    exact Triple.pure _ (fun s hP => ⟨fun a ha => (by cases ha), hP⟩)
  | succ n ih =>
    unfold CA.repeatRun
    refine Triple.bind h ?_
    intro a
    refine Triple.of_fact ?_
    intro ha
    refine Triple.bind ih ?_
    intro l
    refine Triple.pure _ ?_
    intro s hs
    refine ⟨?_, hs.2⟩
    intro b hb
    cases hb with
    | head => exact ha
    | tail _ hb' => exact hs.1 b hb'

theorem Triple.ite {α : Type} {P : St → Prop} {c : Prop} [Decidable c] {m1 m2 : Run α} {Q : α → St → Prop}
    {R E : St → Prop} (h1 : c → Triple sc P m1 Q R E) (h2 : ¬ c → Triple sc P m2 Q R E) :
    Triple sc P (if c then m1 else m2) Q R E := by
  by_cases hc : c
  · rw [if_pos hc]; exact h1 hc
  · rw [if_neg hc]; exact h2 hc

/-! ### `Tr` forms -/

theorem Tr.wrapI {α : Type} {P : St → Prop} {P' : Fault → St → Prop} {body : Run α}
    {Q' : Fault → α → St → Prop} {X : St → Prop}
    (c : Call)
    (hlog : ∀ s f, P s → P' f (s.logged c f))
    (hfail : ∀ s, P s → X (s.logged c .fail))
    (hbody : ∀ f, Tr sc ow (P' f) body (Q' f) X)
    (hQX : ∀ a s, Q' .crash a s → X s) :
    Tr sc ow P (wrap c body) (Q' .ok) X :=
  Triple.wrapI c hlog (fun s hP hf => ⟨hfail s hP, Or.inl hf⟩) hbody
    (fun a s hf hq => ⟨hQX a s hq, hf⟩) (fun _ hf hr => ⟨hr.1, hf⟩)

theorem Tr.wrap {α : Type} {P P' : St → Prop} {body : Run α} {Q : α → St → Prop} {X : St → Prop}
    (c : Call)
    (hlog : ∀ s f, P s → P' (s.logged c f))
    (hfail : ∀ s, P s → X (s.logged c .fail))
    (hbody : Tr sc ow P' body Q X)
    (hQX : ∀ a s, Q a s → X s) :
    Tr sc ow P (wrap c body) Q X :=
  Tr.wrapI (P' := fun _ => P') (Q' := fun _ => Q) c hlog hfail (fun _ => hbody) hQX

/-- weaken the exceptional postcondition of a `Tr` -/
theorem Tr.weaken {α : Type} {P P' : St → Prop} {m : Run α} {Q Q' : α → St → Prop} {X X' : St → Prop}
    (h : Tr sc ow P m Q X) (hP : ∀ s, P' s → P s) (hQ : ∀ a s, Q a s → Q' a s) (hX : ∀ s, X s → X' s) :
    Tr sc ow P' m Q' X' :=
  Triple.conseq h hP hQ (fun s hr => ⟨hX s hr.1, hr.2⟩) (fun s he => ⟨hX s he.1, he.2⟩)

theorem Triple.getSt_bind {β : Type} {P : St → Prop} {f : St → Run β} {Q : β → St → Prop} {R E : St → Prop}
    (h : ∀ s0, P s0 → Triple sc (fun s => s = s0) (f s0) Q R E) : Triple sc P (CA.getSt >>= f) Q R E := by
  intro s hP
  exact h s hP s rfl

/-! ### the call log -/

/-- a call that is neither the manager's DestroyKeyVersion nor Cloud KMS's DestroyCryptoKeyVersion -/
def NonDestroy (c : Call) : Prop := ∀ k, c ≠ .kmDestroy k ∧ c ≠ .kmsDestroy k

def NoDestroy (log : List (Call × Fault)) : Prop := ∀ e ∈ log, NonDestroy e.1

theorem NoDestroy.snoc {log : List (Call × Fault)} (h : NoDestroy log) {c : Call} (hc : NonDestroy c)
    (f : Fault) : NoDestroy (log ++ [(c, f)]) := by
  intro e he
  rcases List.mem_append.mp he with h1 | h1
  · exact h e h1
  · have : e = (c, f) := by simpa using h1
    rw [this]; exact hc

/-- the call whose successful completion makes the new primary durable -/
def commitCall (cfg : Cfg) : Call × Fault :=
  match cfg.ca with
  | .gcsca => (.stC manifestName, .ok)
  | .memca => (.caFin, .ok)

/-- destroy-after-commit on a call log: every DestroyKeyVersion that reached the key manager is
    preceded by the completed commit call. -/
def DAC (cfg : Cfg) (log : List (Call × Fault)) : Prop :=
  ∀ pre k f post, log = pre ++ (Call.kmDestroy k, f) :: post → f ≠ .fail → commitCall cfg ∈ pre

/-- … and the same one level down: every DestroyCryptoKeyVersion request that reached Cloud KMS is
    preceded by the completed commit call. -/
def DACK (cfg : Cfg) (log : List (Call × Fault)) : Prop :=
  ∀ pre k f post, log = pre ++ (Call.kmsDestroy k, f) :: post → f ≠ .fail → commitCall cfg ∈ pre

theorem DAC_of_noDestroy (cfg : Cfg) {log : List (Call × Fault)} (h : NoDestroy log) : DAC cfg log := by
  intro pre k f post hl _
  have : (Call.kmDestroy k, f) ∈ log := by rw [hl]; simp
  exact absurd rfl (h _ this k).1

theorem DACK_of_noDestroy (cfg : Cfg) {log : List (Call × Fault)} (h : NoDestroy log) : DACK cfg log := by
  intro pre k f post hl _
  have : (Call.kmsDestroy k, f) ∈ log := by rw [hl]; simp
  exact absurd rfl (h _ this k).2

theorem snoc_eq_append_cons {α : Type} {L pre post : List α} {x y : α}
    (h : L ++ [x] = pre ++ y :: post) : (post = [] ∧ pre = L ∧ y = x) ∨ y ∈ L := by
  induction L generalizing pre with
  | nil =>
    cases pre with
    | nil =>
      simp at h
      exact Or.inl ⟨h.2, rfl, h.1.symm⟩
    | cons p ps =>
      simp at h
  | cons a L ih =>
    cases pre with
    | nil =>
      simp at h
      exact Or.inr (by rw [h.1]; simp)
    | cons p ps =>
      simp at h
      rcases ih h.2 with ⟨h1, h2, h3⟩ | h4
      · exact Or.inl ⟨h1, by rw [h.1, h2], h3⟩
      · exact Or.inr (List.mem_cons_of_mem _ h4)

theorem DAC_snoc_destroy (cfg : Cfg) {log : List (Call × Fault)} (h : NoDestroy log)
    (hc : commitCall cfg ∈ log) (k : String) (f : Fault) : DAC cfg (log ++ [(Call.kmDestroy k, f)]) := by
  intro pre k' f' post hl _
  rcases snoc_eq_append_cons hl with ⟨_, h2, _⟩ | h4
  · rw [h2]; exact hc
  · exact absurd rfl (h _ h4 k').1

/-- appending a call other than DestroyKeyVersion keeps destroy-after-commit -/
theorem DAC_snoc_other (cfg : Cfg) {log : List (Call × Fault)} (h : DAC cfg log) {c : Call}
    (hc : ∀ k, c ≠ .kmDestroy k) (f : Fault) : DAC cfg (log ++ [(c, f)]) := by
  intro pre k' f' post hl hf
  rcases snoc_eq_append_cons hl with ⟨_, _, h3⟩ | h4
  · exact absurd (congrArg Prod.fst h3).symm (hc k')
  · -- the destroy entry lies inside `log`: use the hypothesis on `log` and transport the prefix
    have key : ∀ (L pre post : List (Call × Fault)) (x y : Call × Fault), x.1 ≠ y.1 →
        L ++ [x] = pre ++ y :: post → ∃ post', L = pre ++ y :: post' := by
      intro L
      induction L with
      | nil =>
        intro pre post x y hxy e
        cases pre with
        | nil => simp at e; exact absurd (congrArg Prod.fst e.1) hxy
        | cons p ps => simp at e
      | cons a L ih =>
        intro pre post x y hxy e
        cases pre with
        | nil => simp at e; exact ⟨L, by rw [e.1]; rfl⟩
        | cons p ps =>
          simp at e
          obtain ⟨post', hp⟩ := ih ps post x y hxy e.2
          exact ⟨post', by rw [e.1, hp]; rfl⟩
    obtain ⟨post'', hL⟩ := key log pre post (c, f) (Call.kmDestroy k', f') (fun e => hc k' e) hl
    exact h pre k' f' post'' hL hf

/-- Cloud KMS's destroy request, issued inside a DestroyKeyVersion call that follows the commit -/
theorem DACK_snoc_kms (cfg : Cfg) {L : List (Call × Fault)} (h : NoDestroy L) (hc : commitCall cfg ∈ L)
    (k : String) (f f' : Fault) (k' : String) :
    DACK cfg ((L ++ [(Call.kmDestroy k, f)]) ++ [(Call.kmsDestroy k', f')]) := by
  intro pre k2 f2 post hl _
  rcases snoc_eq_append_cons hl with ⟨_, h2, _⟩ | h4
  · rw [h2]; exact List.mem_append_left _ hc
  · rcases List.mem_append.mp h4 with h5 | h5
    · exact absurd rfl (h _ h5 k2).2
    · simp at h5

end GceTcb.CA
