import GceTcb.Model.SevExample
import GceTcb.Model.SevCfg
import GceTcb.Proofs.SnpDigest
import GceTcb.Proofs.SnpAnyProduct
import GceTcb.Proofs.GuidTableExtra
/-
C04 — non-vacuity of the end-to-end theorem by kernel evaluation: the concrete 4 KiB image of
Model/SevExample.lean parses (GUIDed table walk, SEV-ES reset block, SEV metadata with four sections in
non-ascending declared order), meets `Accepts` for every vCPU count ≥ 1, and every edit of one
descriptor that realises a malformation named in the property parses as well and is refused with the
error of the stage that catches it.  The well-founded GUID-table walk is stepped with the lemmas of
Proofs/GuidTableExtra.lean; everything about the image is `decide` (kernel evaluation); the hash stays
abstract, so no hashing is evaluated.  Core only.
-/
namespace GceTcb.Proofs.SnpExample
open GceTcb GceTcb.Codec GceTcb.Codecs GceTcb.GuidTable GceTcb.SevMeta GceTcb.SevLd GceTcb.SevExample
open GceTcb.Proofs.SnpSections (Sec SectionsValid Disjoint count validateSections_ok_iff validateSections_no_panic)
open GceTcb.Proofs.SnpChain
open GceTcb.Proofs.SnpDigest (CfgIsSpec Accepts)
open GceTcb.Spec.SnpLaunch (launchUpdate)

/-! ### the GUIDed table of the example (shared by all variants) -/

/-- what the walk collects: the reset block is met first (it is nearest to the footer) -/
def exMap : BlockMap := [(sevEsResetBlockGuid, resetBlock), (sevMetadataOffsetGuid, metaOffBlock)]

theorem ex_step1 : walkStep exTable 44 [] = .ok (22, [(sevEsResetBlockGuid, resetBlock)]) := by decide +kernel

theorem ex_step2 : walkStep exTable 22 [(sevEsResetBlockGuid, resetBlock)] = .ok (0, exMap) := by decide +kernel

theorem ex_walk : guidWalk exTable exTable.length [] = .ok exMap := by
  have hl : exTable.length = 44 := by decide
  rw [hl, guidWalk_step _ 44 [] 22 _ (by decide) ex_step1, guidWalk_step _ 22 _ 0 _ (by decide) ex_step2,
    guidWalk_zero]

theorem ex_reset : extractSevEsResetBlock exMap = .ok exRb := by decide +kernel

/-- An image whose GUIDed table is the example's and whose metadata reads as `secs` parses to the example's
    reset block and `secs`. -/
theorem parse_of (fw : Bytes) (secs : List Sec) (ht : getFwGUIDTable fw = .ok exTable)
    (hm : extractSevOvmfMetadata exMap fw = .ok secs) :
    extractFromFirmware true true fw = .ok (some exRb, some secs) := by
  unfold extractFromFirmware getFwGUIDToBlockMap
  simp only [Bool.not_true, Bool.false_eq_true, if_false, if_true]
  rw [ht]
  simp only []
  rw [ex_walk]
  simp only []
  rw [ex_reset]
  simp only []
  rw [hm]

/-! ### the example image -/

theorem ex_length : exFw.length = 4096 := by decide +kernel

theorem ex_parse : extractFromFirmware true true exFw = .ok (some exRb, some exSecs) :=
  parse_of _ _ (by decide +kernel) (by decide +kernel)

theorem ex_sectionsValid : SectionsValid exSecs :=
  ⟨by decide, by decide, by decide, by decide, by decide, by decide, by decide⟩

theorem ex_measurable : ∀ s ∈ exSecs, KindKnown s ∧ s.address % 4096 = 0 := by
  intro s hs
  simp only [exSecs, List.mem_cons, List.not_mem_nil, or_false] at hs
  rcases hs with rfl | rfl | rfl | rfl <;> exact ⟨by unfold KindKnown; decide, by decide⟩

/-- the example image meets `Accepts` for every vCPU count ≥ 1 (and whatever the product) -/
theorem ex_accepts (o : Opts) (hv : 1 ≤ o.vcpus) : Accepts o exFw exRb exSecs :=
  ⟨hv, ex_parse, by rw [ex_length], by rw [ex_length]; decide, ex_sectionsValid, ex_measurable⟩

/-- the (PAGE_TYPE, GPA) sequence the specification measures for the example before the VMSA pages: the
    ROM page at 4 GiB − 4 KiB, then the metadata ranges IN DECLARED ORDER (secrets, 9 unmeasured pages,
    CPUID, the SVSM calling area as a ZERO page) -/
theorem ex_spec_pages :
    (Spec.SnpLaunch.romPages exFw ++ (exSecs.map toSpec).flatMap Spec.SnpLaunch.sectionPages).map
        (fun p => (p.pageType, p.gpa, p.data.isSome)) =
      [(1, 0xFFFFF000, true), (5, 0x80D000, false),
       (4, 0x800000, false), (4, 0x801000, false), (4, 0x802000, false), (4, 0x803000, false), (4, 0x804000, false),
       (4, 0x805000, false), (4, 0x806000, false), (4, 0x807000, false), (4, 0x808000, false),
       (6, 0x80E000, false), (3, 0x80C000, false)] := by
  rw [Spec.SnpLaunch.romPages, ex_length]
  decide

/-! ### launchDigest on an image that parses, stage by stage -/

/-- validation errors surface unchanged (any product value) -/
theorem launchDigestOld_validate_err_any (H : Bytes → Bytes) (hH : ∀ x, (H x).length = 48) (c : Cfg) (o : Opts)
    (hv : 1 ≤ o.vcpus) (fw : Bytes) (rb : ResetBlock) (secs : List Sec)
    (hp : extractFromFirmware true true fw = .ok (some rb, some secs)) (hfw : fw.length ≤ 2 ^ 32)
    (hrom : checkAlign (productHigh (c.width o.product)) (romBase fw.length) (fw.length % 2 ^ 32) = none)
    (e : String) (he : validateSections secs = .err e) :
    launchDigestOld H c o fw = .err e := by
  unfold launchDigestOld launchDigestBody
  rw [if_neg (by omega), hp]
  simp only
  unfold measureUefi
  rw [SnpAnyProduct.update_rom_any H hH _ fw hfw hrom]
  simp only [measureZeroContentUefiPages, Option.getD_some]
  rw [he]

/-- errors of the section loop surface unchanged (any product value) -/
theorem launchDigestOld_measure_err_any (H : Bytes → Bytes) (hH : ∀ x, (H x).length = 48) (c : Cfg) (o : Opts)
    (hv : 1 ≤ o.vcpus) (fw : Bytes) (rb : ResetBlock) (secs : List Sec)
    (hp : extractFromFirmware true true fw = .ok (some rb, some secs)) (hfw : fw.length ≤ 2 ^ 32)
    (hrom : checkAlign (productHigh (c.width o.product)) (romBase fw.length) (fw.length % 2 ^ 32) = none)
    (hok : validateSections secs = .ok ()) (e : String)
    (he : ∀ d, d.length = 48 → measureSections H (productHigh (c.width o.product)) secs d = .err e) :
    launchDigestOld H c o fw = .err e := by
  unfold launchDigestOld launchDigestBody
  rw [if_neg (by omega), hp]
  simp only
  unfold measureUefi
  rw [SnpAnyProduct.update_rom_any H hH _ fw hfw hrom]
  simp only [measureZeroContentUefiPages, Option.getD_some]
  rw [hok]
  simp only
  have hd0 : ((Spec.SnpLaunch.romPages fw).foldl (launchUpdate H) (Spec.SnpLaunch.zeros 48)).length = 48 :=
    foldl_launchUpdate_length H hH _ _ List.length_replicate
  rw [he _ hd0]

theorem launchDigest_validate_err (H : Bytes → Bytes) (hH : ∀ x, (H x).length = 48) (c : Cfg) (o : Opts)
    (hw : WidthOK (c.width o.product)) (hv : 1 ≤ o.vcpus) (fw : Bytes) (rb : ResetBlock) (secs : List Sec)
    (hp : extractFromFirmware true true fw = .ok (some rb, some secs))
    (hrom : fw.length % 4096 = 0 ∧ fw.length ≤ 2 ^ 32) (e : String) (he : validateSections secs = .err e) :
    launchDigest H c o fw = .err e := by
  rw [SnpDigest.launchDigest_supported H c o fw (SnpDigest.widthOK_supported c _ hw)]
  exact launchDigestOld_validate_err_any H hH c o hv fw rb secs hp hrom.2
    ((checkAlign_rom _ hw fw.length (by omega)).mpr hrom) e he

theorem launchDigest_measure_err (H : Bytes → Bytes) (hH : ∀ x, (H x).length = 48) (c : Cfg) (o : Opts)
    (hw : WidthOK (c.width o.product)) (hv : 1 ≤ o.vcpus) (fw : Bytes) (rb : ResetBlock) (secs : List Sec)
    (hp : extractFromFirmware true true fw = .ok (some rb, some secs))
    (hrom : fw.length % 4096 = 0 ∧ fw.length ≤ 2 ^ 32) (hok : validateSections secs = .ok ()) (e : String)
    (he : ∀ d, d.length = 48 → measureSections H (productHigh (c.width o.product)) secs d = .err e) :
    launchDigest H c o fw = .err e := by
  rw [SnpDigest.launchDigest_supported H c o fw (SnpDigest.widthOK_supported c _ hw)]
  exact launchDigestOld_measure_err_any H hH c o hv fw rb secs hp hrom.2
    ((checkAlign_rom _ hw fw.length (by omega)).mpr hrom) hok e he

/-- the section loop measures a well-formed prefix and then reports the error of the rest -/
theorem measureSections_append_err (H : Bytes → Bytes) (hH : ∀ x, (H x).length = 48) (w : Nat) (hw : WidthOK w)
    (pre rest : List Sec) (hpre : ∀ s ∈ pre, SecInRange s ∧ SecMeasurable s) (e : String)
    (hrest : ∀ d, d.length = 48 → measureSections H (productHigh w) rest d = .err e) (d : Bytes) (hd : d.length = 48) :
    measureSections H (productHigh w) (pre ++ rest) d = .err e := by
  induction pre generalizing d with
  | nil => exact hrest d hd
  | cons s pre ih =>
    obtain ⟨hr, hk, ha, hl⟩ := hpre s List.mem_cons_self
    rw [List.cons_append, measureSections, (sectionPageType_some s.kind hk).1]
    simp only
    rw [zeroContentUpdate_sec H hH w hw s hk hr.1 hr.2 d hd ha hl]
    simp only
    exact ih (fun x hx => hpre x (List.mem_cons_of_mem _ hx)) _ (foldl_launchUpdate_length H hH _ d hd)

/-- an overlap is reported when the first loop and the three presence checks pass -/
theorem validateSections_overlap (secs : List Sec) (seen : List Nat) (hc : checkSections secs [] = .ok seen)
    (h1 : seen.contains kindUnmeasured = true) (h2 : seen.contains kindSecret = true) (h3 : seen.contains kindCpuid = true)
    (hl : ∀ s ∈ secs, 0 < s.length) (hov : ¬ secs.Pairwise Disjoint) : validateSections secs = .err "overlap" := by
  unfold validateSections
  have hne : secs ≠ [] := by rintro rfl; exact hov List.Pairwise.nil
  rw [if_neg hne, hc]
  simp only [h1, h2, h3, Bool.not_true, Bool.false_eq_true, if_false]
  have : overlapSorted (secs.mergeSort startLe) = true := by
    cases h : overlapSorted (secs.mergeSort startLe)
    · exact absurd ((SnpSections.overlap_mergeSort secs hl).mp h) hov
    · rfl
  rw [this]; rfl

/-! ### the example is measured as the specification says; the edited images are refused -/

theorem genWidth_ok (p : Nat) (hp : p = 1 ∨ p = 2) : WidthOK (genCfg.width p) := by
  rcases hp with rfl | rfl <;> exact ⟨by decide, by decide⟩

/-- sev.LaunchDigest on the example image: the SNP_LAUNCH_UPDATE chain of the specification, for every
    48-byte hash, every vCPU count ≥ 1, Milan and Genoa -/
theorem ex_digest (H : Bytes → Bytes) (hH : ∀ x, (H x).length = 48) (hc : CfgIsSpec genCfg) (o : Opts)
    (hp : o.product = 1 ∨ o.product = 2) (hv : 1 ≤ o.vcpus) :
    launchDigest H genCfg o exFw =
      .ok (Spec.SnpLaunch.snpSpec H exFw (exSecs.map toSpec) 0x80B004 o.vcpus.toNat (genCfg.width o.product)) :=
  (SnpDigest.launchDigest_iff H hH genCfg hc o (genWidth_ok _ hp) exFw (by rw [ex_length]; decide) _).mpr
    ⟨exRb, exSecs, ex_accepts o hv, rfl⟩

theorem rejected_validate (secs : List Sec) (hp : extractFromFirmware true true (fwOf secs) = .ok (some exRb, some secs))
    (hl : (fwOf secs).length = 4096) (e : String) (he : validateSections secs = .err e)
    (H : Bytes → Bytes) (hH : ∀ x, (H x).length = 48) (o : Opts) (hpr : o.product = 1 ∨ o.product = 2) (hv : 1 ≤ o.vcpus) :
    launchDigest H genCfg o (fwOf secs) = .err e :=
  launchDigest_validate_err H hH genCfg o (genWidth_ok _ hpr) hv _ exRb secs hp (by rw [hl]; decide) e he

theorem rejected_measure (secs : List Sec) (hp : extractFromFirmware true true (fwOf secs) = .ok (some exRb, some secs))
    (hl : (fwOf secs).length = 4096) (hok : SectionsValid secs) (e : String)
    (H : Bytes → Bytes) (hH : ∀ x, (H x).length = 48) (o : Opts) (hpr : o.product = 1 ∨ o.product = 2) (hv : 1 ≤ o.vcpus)
    (he : ∀ d, d.length = 48 → measureSections H (productHigh (genCfg.width o.product)) secs d = .err e) :
    launchDigest H genCfg o (fwOf secs) = .err e :=
  launchDigest_measure_err H hH genCfg o (genWidth_ok _ hpr) hv _ exRb secs hp (by rw [hl]; decide)
    ((validateSections_ok_iff secs).mpr hok) e he

section variants
variable (H : Bytes → Bytes) (hH : ∀ x, (H x).length = 48) (o : Opts) (hp : o.product = 1 ∨ o.product = 2) (hv : 1 ≤ o.vcpus)
include hH hp hv

/-- misaligned (length): an unmeasured range of 8.5 pages -/
theorem rejected_misaligned_length : launchDigest H genCfg o (fwOf vMisLen) = .err "section-length" :=
  rejected_validate vMisLen (parse_of _ _ (by decide +kernel) (by decide +kernel)) (by decide +kernel) _ (by decide) H hH o hp hv

/-- empty: a range of length 0 -/
theorem rejected_empty : launchDigest H genCfg o (fwOf vEmpty) = .err "section-length" :=
  rejected_validate vEmpty (parse_of _ _ (by decide +kernel) (by decide +kernel)) (by decide +kernel) _ (by decide) H hH o hp hv

/-- overlap: the SVSM calling area inside the unmeasured range -/
theorem rejected_overlap : launchDigest H genCfg o (fwOf vOverlap) = .err "overlap" :=
  rejected_validate vOverlap (parse_of _ _ (by decide +kernel) (by decide +kernel)) (by decide +kernel) _
    (validateSections_overlap vOverlap [kindSvsmCaa, kindCpuid, kindUnmeasured, kindSecret] (by decide) (by decide) (by decide)
      (by decide) (by decide) (by decide)) H hH o hp hv

/-- a second CPUID page -/
theorem rejected_duplicate_cpuid : launchDigest H genCfg o (fwOf vDupCpuid) = .err "dup-kind" :=
  rejected_validate vDupCpuid (parse_of _ _ (by decide +kernel) (by decide +kernel)) (by decide +kernel) _ (by decide) H hH o hp hv

/-- a second secrets page -/
theorem rejected_duplicate_secrets : launchDigest H genCfg o (fwOf vDupSecret) = .err "dup-kind" :=
  rejected_validate vDupSecret (parse_of _ _ (by decide +kernel) (by decide +kernel)) (by decide +kernel) _ (by decide) H hH o hp hv

theorem rejected_missing_unmeasured : launchDigest H genCfg o (fwOf vNoUnmeasured) = .err "no-unmeasured" :=
  rejected_validate vNoUnmeasured (parse_of _ _ (by decide +kernel) (by decide +kernel)) (by decide +kernel) _ (by decide) H hH o hp hv

theorem rejected_missing_secrets : launchDigest H genCfg o (fwOf vNoSecret) = .err "no-secret" :=
  rejected_validate vNoSecret (parse_of _ _ (by decide +kernel) (by decide +kernel)) (by decide +kernel) _ (by decide) H hH o hp hv

theorem rejected_missing_cpuid : launchDigest H genCfg o (fwOf vNoCpuid) = .err "no-cpuid" :=
  rejected_validate vNoCpuid (parse_of _ _ (by decide +kernel) (by decide +kernel)) (by decide +kernel) _ (by decide) H hH o hp hv

/-- misaligned (address): validateSections does not look at addresses; the first iteration of the section
    loop refuses the range -/
theorem rejected_misaligned_address : launchDigest H genCfg o (fwOf vMisAddr) = .err "align-addr" := by
  refine rejected_measure vMisAddr (parse_of _ _ (by decide +kernel) (by decide +kernel)) (by decide +kernel)
    ⟨by decide, by decide, by decide, by decide, by decide, by decide, by decide⟩ _ H hH o hp hv ?_
  intro d _
  simp only [vMisAddr, measureSections]
  rfl

/-- unknown kind: the three well-formed ranges before it are measured, then the `switch` refuses kind 5 -/
theorem rejected_unknown_kind : launchDigest H genCfg o (fwOf vUnknown) = .err "unknown-kind" := by
  refine rejected_measure vUnknown (parse_of _ _ (by decide +kernel) (by decide +kernel)) (by decide +kernel)
    ⟨by decide, by decide, by decide, by decide, by decide, by decide, by decide⟩ _ H hH o hp hv ?_
  intro d hd
  have hsplit : vUnknown = [⟨0x80D000, 0x1000, kindSecret⟩, ⟨0x800000, 0x9000, kindUnmeasured⟩, ⟨0x80E000, 0x1000, kindCpuid⟩] ++
      [⟨0x80C000, 0x1000, 5⟩] := rfl
  rw [hsplit]
  apply measureSections_append_err H hH _ (genWidth_ok _ hp) _ _ _ _ _ d hd
  · intro s hs
    simp only [List.mem_cons, List.not_mem_nil, or_false] at hs
    rcases hs with rfl | rfl | rfl <;>
      exact ⟨⟨by decide, by decide⟩, by unfold KindKnown; decide, by decide, by decide⟩
  · intro d' _
    rfl

end variants

/-! ### a product value that is not a key of `bitWidth`: refused by sev.LaunchDigest; what the pre-repair
variant `launchDigestOld` did with it -/

theorem genSupported_false (p : Nat) (hp : p ≠ 1 ∧ p ≠ 2) : genCfg.supported p = false := by
  have h1 : (1 == p) = false := by simp; omega
  have h2 : (2 == p) = false := by simp; omega
  simp [Cfg.supported, genCfg, Gen.SevLayout.BitWidths, List.find?, h1, h2]

/-- sev.LaunchDigest refuses every product value other than Milan and Genoa, for every image (no image is
    parsed: the check precedes ExtractFromFirmware) -/
theorem unsupported_rejected (H : Bytes → Bytes) (o : Opts) (hp : o.product ≠ 1 ∧ o.product ≠ 2) (hv : 1 ≤ o.vcpus)
    (fw : Bytes) : launchDigest H genCfg o fw = .err "product" :=
  SnpDigest.launchDigest_unsupported H genCfg o fw hv (genSupported_false _ hp)

theorem genWidth_zero (p : Nat) (hp : p ≠ 1 ∧ p ≠ 2) : genCfg.width p = 0 := by
  have h1 : (1 == p) = false := by simp; omega
  have h2 : (2 == p) = false := by simp; omega
  simp [Cfg.width, genCfg, Gen.SevLayout.BitWidths, List.find?, h1, h2]

theorem wide_length : wideFw.length = 8192 := by decide +kernel

theorem wide_parse : extractFromFirmware true true wideFw = .ok (some exRb, some wideSecs) :=
  parse_of _ _ (by decide +kernel) (by decide +kernel)

theorem wide_accepts (o : Opts) (hv : 1 ≤ o.vcpus) : Accepts o wideFw exRb wideSecs := by
  refine ⟨hv, wide_parse, by rw [wide_length], by rw [wide_length]; decide,
    ⟨by decide, by decide, by decide, by decide, by decide, by decide, by decide⟩, ?_⟩
  intro s hs
  simp only [wideSecs, List.mem_cons, List.not_mem_nil, or_false] at hs
  rcases hs with rfl | rfl | rfl | rfl <;> exact ⟨by unfold KindKnown; decide, by decide⟩

/-- witness: an 8 KiB image all of whose ranges have two pages WAS measured for an unsupported product (the
    pre-repair variant), with every VMSA page at guest-physical address 0 -/
theorem wide_digest_unsupported (H : Bytes → Bytes) (hH : ∀ x, (H x).length = 48) (hc : CfgIsSpec genCfg) (o : Opts)
    (hp : o.product ≠ 1 ∧ o.product ≠ 2) (hv : 1 ≤ o.vcpus) :
    launchDigestOld H genCfg o wideFw =
      .ok (Spec.SnpLaunch.snpSpec H wideFw (wideSecs.map toSpec) 0x80B004 o.vcpus.toNat 0) :=
  (SnpAnyProduct.launchDigestOld_width_zero H hH genCfg hc o (genWidth_zero _ hp) wideFw (by rw [wide_length]; decide) _).mpr
    ⟨exRb, wideSecs, wide_accepts o hv, by rw [wide_length]; decide, by decide, rfl⟩

/-- the same image on a supported product: the chain with the VMSA pages at the product's highest page -/
theorem wide_digest_supported (H : Bytes → Bytes) (hH : ∀ x, (H x).length = 48) (hc : CfgIsSpec genCfg) (o : Opts)
    (hp : o.product = 1 ∨ o.product = 2) (hv : 1 ≤ o.vcpus) :
    launchDigest H genCfg o wideFw =
      .ok (Spec.SnpLaunch.snpSpec H wideFw (wideSecs.map toSpec) 0x80B004 o.vcpus.toNat (genCfg.width o.product)) :=
  (SnpDigest.launchDigest_iff H hH genCfg hc o (genWidth_ok _ hp) wideFw (by rw [wide_length]; decide) _).mpr
    ⟨exRb, wideSecs, wide_accepts o hv, rfl⟩

/-- an error of the ROM range check surfaces unchanged (any product value) -/
theorem launchDigestOld_rom_err (H : Bytes → Bytes) (c : Cfg) (o : Opts) (hv : 1 ≤ o.vcpus) (fw : Bytes) (rb : ResetBlock)
    (secs : List Sec) (hp : extractFromFirmware true true fw = .ok (some rb, some secs)) (e : String)
    (hc : checkAlign (productHigh (c.width o.product)) (romBase fw.length) (fw.length % 2 ^ 32) = some e) :
    launchDigestOld H c o fw = .err e := by
  unfold launchDigestOld launchDigestBody
  rw [if_neg (by omega), hp]
  simp only
  unfold measureUefi update
  rw [hc]

/-- a one-page ROM was refused for an unsupported product (pre-repair variant), with the range error: `0 + 0x1000 − 0x1000 = 0 < 0xFFFFF000` -/
theorem ex_unsupported_rejected (H : Bytes → Bytes) (o : Opts) (hp : o.product ≠ 1 ∧ o.product ≠ 2) (hv : 1 ≤ o.vcpus) :
    launchDigestOld H genCfg o exFw = .err "range" := by
  apply launchDigestOld_rom_err H genCfg o hv exFw exRb exSecs ex_parse
  rw [genWidth_zero _ hp, ex_length]
  decide

theorem twoPage_length : twoPageFw.length = 8192 := by decide +kernel

theorem twoPage_parse : extractFromFirmware true true twoPageFw = .ok (some exRb, some exSecs) :=
  parse_of _ _ (by decide +kernel) (by decide +kernel)

/-- two ROM pages but one-page secrets / CPUID ranges above address 0 (the layout OVMF declares): refused for an
    unsupported product (pre-repair variant) by the FIRST iteration of the section loop, with the range-check error -/
theorem twoPage_unsupported_rejected (H : Bytes → Bytes) (hH : ∀ x, (H x).length = 48) (o : Opts)
    (hp : o.product ≠ 1 ∧ o.product ≠ 2) (hv : 1 ≤ o.vcpus) :
    launchDigestOld H genCfg o twoPageFw = .err "range" := by
  refine launchDigestOld_measure_err_any H hH genCfg o hv _ exRb exSecs twoPage_parse (by rw [twoPage_length]; decide) ?_
    ((validateSections_ok_iff _).mpr ex_sectionsValid) _ ?_
  · rw [genWidth_zero _ hp, twoPage_length]; decide
  · intro d _
    rw [genWidth_zero _ hp]
    simp only [exSecs, measureSections]
    rfl

end GceTcb.Proofs.SnpExample
