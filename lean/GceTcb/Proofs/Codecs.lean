import GceTcb.Model.Codecs
/-
Helper lemmas for C18 (fixed-layout codecs): the generic "record of little-endian fields" laws and
their instances for every structure of Model/Codecs.lean.  Core-only.
-/
namespace GceTcb.Codecs
open GceTcb GceTcb.Codec

/-! ## encF / decF -/

theorem encF_length (ws vs : List Nat) : (encF ws vs).length = ws.sum := by
  induction ws generalizing vs with
  | nil => simp [encF]
  | cons w ws ih =>
    cases vs with
    | nil => simp [encF, ih]
    | cons v vs => simp [encF, ih]

theorem decF_encF (ws vs : List Nat) (t : Bytes) (h : Fits ws vs) : decF ws (encF ws vs ++ t) = vs := by
  induction ws generalizing vs with
  | nil => cases vs with
    | nil => simp [decF]
    | cons v vs => simp [Fits] at h
  | cons w ws ih =>
    cases vs with
    | nil => simp [Fits] at h
    | cons v vs =>
      simp only [Fits] at h
      simp only [encF, decF, List.append_assoc]
      have hl : (leBytes w v).length = w := leBytes_length w v
      rw [List.take_left' hl, List.drop_left' hl, leVal_leBytes_of_lt w v h.1, ih vs h.2]

theorem decF_fits (ws : List Nat) (b : Bytes) : Fits ws (decF ws b) := by
  induction ws generalizing b with
  | nil => simp [decF, Fits]
  | cons w ws ih =>
    simp only [decF, Fits]
    refine ⟨?_, ih _⟩
    have h1 := leVal_lt (b.take w)
    have h2 : (b.take w).length ≤ w := by simp [List.length_take]; omega
    exact Nat.lt_of_lt_of_le h1 (Nat.pow_le_pow_right (by decide) h2)

theorem encF_decF (ws : List Nat) (b : Bytes) (h : ws.sum ≤ b.length) :
    encF ws (decF ws b) = b.take ws.sum := by
  induction ws generalizing b with
  | nil => simp [encF]
  | cons w ws ih =>
    simp only [decF, encF, List.sum_cons] at *
    have hl : (b.take w).length = w := by simp [List.length_take]; omega
    have h1 : leBytes w (leVal (b.take w)) = b.take w := by
      have := leBytes_leVal (b.take w); rwa [hl] at this
    rw [h1, ih (b.drop w) (by simp [List.length_drop]; omega)]
    rw [List.take_add]

/-- `decF` only looks at the first `ws.sum` bytes. -/
theorem decF_take (ws : List Nat) (b : Bytes) (n : Nat) (h : ws.sum ≤ n) : decF ws (b.take n) = decF ws b := by
  induction ws generalizing b n with
  | nil => simp [decF]
  | cons w ws ih =>
    simp only [decF, List.sum_cons] at *
    have h1 : (b.take n).take w = b.take w := by rw [List.take_take]; congr 1; omega
    have h2 : (b.take n).drop w = (b.drop w).take (n - w) := by rw [List.drop_take]
    rw [h1, h2, ih (b.drop w) (n - w) (by omega)]

/-! ## laws of a record codec -/

structure Laws {α : Type} (c : Rec α) (P : α → Prop) : Prop where
  fits : ∀ v, P v → Fits c.ws (c.toVals v)
  valid_to : ∀ v, P v → c.valid (c.toVals v) = true
  of_to : ∀ v, P v → c.ofVals (c.toVals v) = v
  to_of : ∀ b, c.valid (decF c.ws b) = true → c.toVals (c.ofVals (decF c.ws b)) = decF c.ws b
  inr : ∀ b, c.valid (decF c.ws b) = true → P (c.ofVals (decF c.ws b))

namespace Rec
variable {α : Type} {c : Rec α} {P : α → Prop}

theorem enc_length (c : Rec α) (v : α) : (c.enc v).length = c.size := encF_length _ _

theorem decBody_enc (L : Laws c P) (v : α) (hv : P v) (t : Bytes) : c.decBody (c.enc v ++ t) = .ok v := by
  unfold decBody enc
  rw [decF_encF _ _ _ (L.fits v hv), L.valid_to v hv, L.of_to v hv]; rfl

/-- Decoding an encoding (followed by anything, for the prefix decoders) gives the value back. -/
theorem dec_enc (L : Laws c P) (m : Mode) (v : α) (hv : P v) (t : Bytes) (ht : m = .exact → t = []) :
    c.dec m (c.enc v ++ t) = .ok v := by
  have hl : (c.enc v ++ t).length = c.size + t.length := by simp [enc_length]
  cases m with
  | errShort => simp only [dec]; rw [if_neg (by omega)]; exact decBody_enc L v hv t
  | panicShort => simp only [dec]; rw [if_neg (by omega)]; exact decBody_enc L v hv t
  | exact =>
    have : t = [] := ht rfl
    subst this
    simp only [dec]; rw [if_neg (by simp [enc_length])]; exact decBody_enc L v hv []

/-- Short input is never decoded. -/
theorem dec_short (c : Rec α) (m : Mode) (b : Bytes) (h : b.length < c.size) : (c.dec m b).isOk = false := by
  cases m with
  | errShort => simp [dec, h, Outcome.isOk]
  | panicShort => simp [dec, h, Outcome.isOk]
  | exact => simp only [dec]; rw [if_pos (by omega)]; rfl

/-- The exact-size decoders refuse a longer input too. -/
theorem dec_exact_long (c : Rec α) (b : Bytes) (h : b.length ≠ c.size) : c.dec .exact b = .err "size" := by
  simp [dec, h]

theorem decBody_ok (L : Laws c P) (b : Bytes) (v : α) (hl : c.size ≤ b.length) (h : c.decBody b = .ok v) :
    c.enc v = b.take c.size ∧ P v := by
  unfold decBody at h
  by_cases hv : c.valid (decF c.ws b) = true
  · rw [if_pos hv] at h
    have hv' : v = c.ofVals (decF c.ws b) := by injection h with h; exact h.symm
    subst hv'
    refine ⟨?_, L.inr b hv⟩
    unfold enc
    rw [L.to_of b hv]; exact encF_decF _ _ hl
  · rw [if_neg hv] at h; cases h

/-- Canonicity: an accepted byte string re-encodes to the bytes that were read (its first `size`
    bytes; the whole input for the exact-size decoders), and the decoded value is in range. -/
theorem dec_canon (L : Laws c P) (m : Mode) (b : Bytes) (v : α) (h : c.dec m b = .ok v) :
    c.enc v = b.take c.size ∧ P v ∧ c.size ≤ b.length ∧ (m = .exact → b.length = c.size) := by
  cases m with
  | errShort =>
    simp only [dec] at h
    by_cases hs : b.length < c.size
    · rw [if_pos hs] at h; cases h
    · rw [if_neg hs] at h
      have := decBody_ok L b v (by omega) h
      exact ⟨this.1, this.2, by omega, by intro h; cases h⟩
  | panicShort =>
    simp only [dec] at h
    by_cases hs : b.length < c.size
    · rw [if_pos hs] at h; cases h
    · rw [if_neg hs] at h
      have := decBody_ok L b v (by omega) h
      exact ⟨this.1, this.2, by omega, by intro h; cases h⟩
  | exact =>
    simp only [dec] at h
    by_cases hs : b.length ≠ c.size
    · rw [if_pos hs] at h; cases h
    · rw [if_neg hs] at h
      have hs' : b.length = c.size := by omega
      have := decBody_ok L b v (by omega) h
      exact ⟨this.1, this.2, by omega, fun _ => hs'⟩

/-- A non-zero reserved field is refused (whatever the rest of the input). -/
theorem dec_reserved (c : Rec α) (m : Mode) (b : Bytes) (h : c.valid (decF c.ws b) = false) :
    (c.dec m b).isOk = false := by
  have hb : c.decBody b = .err "reserved" := by simp [decBody, h]
  cases m with
  | errShort => simp only [dec]; split <;> simp [hb, Outcome.isOk]
  | panicShort => simp only [dec]; split <;> simp [hb, Outcome.isOk]
  | exact => simp only [dec]; split <;> simp [hb, Outcome.isOk]

theorem put_ok (c : Rec α) (v : α) (data : Bytes) (h : c.size ≤ data.length) :
    c.put v data = .ok (c.enc v ++ data.drop c.size) := by
  simp only [put]; rw [if_neg (by omega)]

theorem put_short (c : Rec α) (v : α) (data : Bytes) (h : data.length < c.size) : c.put v data = .err "short" := by
  simp [put, h]

theorem enc_injective (L : Laws c P) (v w : α) (hv : P v) (hw : P w) (h : c.enc v = c.enc w) : v = w := by
  have h1 := decBody_enc L v hv []
  have h2 := decBody_enc L w hw []
  rw [h] at h1; rw [h1] at h2; injection h2

end Rec
/-! ## big-endian / uuid helpers -/

theorem beVal_beBytes (n v : Nat) (h : v < 256 ^ n) : beVal (beBytes n v) = v := by
  simp [beVal, beBytes, leVal_leBytes_of_lt n v h]

theorem beBytes_length (n v : Nat) : (beBytes n v).length = n := by simp [beBytes]

theorem beBytes_beVal (bs : Bytes) (n : Nat) (h : bs.length = n) : beBytes n (beVal bs) = bs := by
  subst h
  have := leBytes_leVal bs.reverse
  simp only [List.length_reverse] at this
  simp [beBytes, beVal, this]

theorem leBytes_leVal' (bs : Bytes) (n : Nat) (h : bs.length = n) : leBytes n (leVal bs) = bs := by
  subst h; exact leBytes_leVal bs

theorem beVal_lt (bs : Bytes) (n : Nat) (h : bs.length ≤ n) : beVal bs < 256 ^ n := by
  have h1 := leVal_lt bs.reverse
  simp only [List.length_reverse] at h1
  exact Nat.lt_of_lt_of_le h1 (Nat.pow_le_pow_right (by decide) h)

theorem leVal_lt' (bs : Bytes) (n : Nat) (h : bs.length ≤ n) : leVal bs < 256 ^ n :=
  Nat.lt_of_lt_of_le (leVal_lt bs) (Nat.pow_le_pow_right (by decide) h)

theorem field_length_le (bs : Bytes) (off len : Nat) : (field bs off len).length ≤ len := by
  simp [field, List.length_take]; omega

theorem field_length' (bs : Bytes) (off len : Nat) (h : off + len ≤ bs.length) : (field bs off len).length = len :=
  field_length bs off len h

/-- consecutive fields join -/
theorem field_append_field (bs : Bytes) (off a b : Nat) :
    field bs off a ++ field bs (off + a) b = field bs off (a + b) := by
  simp only [field]
  rw [List.take_add, List.drop_drop]

theorem field_zero_all (bs : Bytes) (n : Nat) (h : bs.length = n) : field bs 0 n = bs := by
  subst h; simp [field]

/-- fields of an append -/
theorem field_append_left (a r : Bytes) (w : Nat) (h : a.length = w) : field (a ++ r) 0 w = a := by
  simp [field, List.take_left' h]

theorem field_append_right (a r : Bytes) (n off w : Nat) (h : a.length = n) :
    field (a ++ r) (n + off) w = field r off w := by
  simp only [field]
  rw [← List.drop_drop, List.drop_left' h]

theorem uuidOfVals_length (a b c d : Nat) : (uuidOfVals a b c d).length = 16 := by
  simp [uuidOfVals, beBytes_length]

theorem uuidVals_uuidOfVals (a b c d : Nat) (ha : a < 256 ^ 4) (hb : b < 256 ^ 2) (hc : c < 256 ^ 2)
    (hd : d < 256 ^ 8) : uuidVals (uuidOfVals a b c d) = [a, b, c, d] := by
  simp only [uuidVals, uuidOfVals, List.append_assoc]
  have l1 := beBytes_length 4 a
  have l2 := beBytes_length 2 b
  have l3 := beBytes_length 2 c
  have l4 := leBytes_length 8 d
  rw [field_append_left _ _ 4 l1]
  rw [show (4:Nat) = 4 + 0 from rfl, field_append_right _ _ 4 0 2 l1, field_append_left _ _ 2 l2]
  rw [show (6:Nat) = 4 + (2 + 0) from rfl, field_append_right _ _ 4 _ 2 l1, field_append_right _ _ 2 0 2 l2,
    field_append_left _ _ 2 l3]
  rw [show (8:Nat) = 4 + (2 + (2 + 0)) from rfl, field_append_right _ _ 4 _ 8 l1, field_append_right _ _ 2 _ 8 l2,
    field_append_right _ _ 2 0 8 l3]
  rw [field_zero_all _ 8 l4]
  rw [beVal_beBytes 4 a ha, beVal_beBytes 2 b hb, beVal_beBytes 2 c hc, leVal_leBytes_of_lt 8 d hd]

theorem uuidOfVals_uuidVals (u : Bytes) (h : u.length = 16) :
    uuidOfVals (beVal (field u 0 4)) (beVal (field u 4 2)) (beVal (field u 6 2)) (leVal (field u 8 8)) = u := by
  simp only [uuidOfVals]
  rw [beBytes_beVal _ 4 (field_length' u 0 4 (by omega)), beBytes_beVal _ 2 (field_length' u 4 2 (by omega)),
    beBytes_beVal _ 2 (field_length' u 6 2 (by omega)), leBytes_leVal' _ 8 (field_length' u 8 8 (by omega))]
  rw [field_append_field u 0 4 2, field_append_field u 0 6 2, field_append_field u 0 8 8]
  exact field_zero_all u 16 h


/-! ## laws of each structure -/

theorem sevMetadataLaws : Laws sevMetadataRec SevMetadata.InRange where
  fits := by intro v h; simpa [sevMetadataRec, Fits, SevMetadata.InRange] using h
  valid_to := by intro v _; rfl
  of_to := by intro v _; rfl
  to_of := by intro b _; rfl
  inr := by
    intro b _
    have := decF_fits sevMetadataRec.ws b
    simpa [sevMetadataRec, decF, Fits, SevMetadata.InRange] using this

theorem efiGuidLaws : Laws efiGuidRec EfiGuid.InRange where
  fits := by
    intro v h
    simp only [efiGuidRec, Fits, EfiGuid.InRange] at *
    exact ⟨by omega, by omega, by omega, leVal_lt' _ 8 (by omega), trivial⟩
  valid_to := by intro v _; rfl
  of_to := by
    intro v h
    simp only [efiGuidRec]
    rw [leBytes_leVal' v.d4 8 h.2.2.2]
  to_of := by
    intro b _
    have := decF_fits efiGuidRec.ws b
    simp only [efiGuidRec, decF, Fits] at *
    rw [leVal_leBytes_of_lt 8 _ this.2.2.2.1]
  inr := by
    intro b _
    have := decF_fits efiGuidRec.ws b
    simp only [efiGuidRec, decF, Fits, EfiGuid.InRange] at *
    exact ⟨by omega, by omega, by omega, leBytes_length _ _⟩

theorem uuidLaws : Laws uuidRec (fun u => u.length = 16) where
  fits := by
    intro u h
    simp only [uuidRec, uuidVals, Fits]
    exact ⟨beVal_lt _ 4 (field_length_le _ _ _), beVal_lt _ 2 (field_length_le _ _ _),
      beVal_lt _ 2 (field_length_le _ _ _), leVal_lt' _ 8 (field_length_le _ _ _), trivial⟩
  valid_to := by intro v _; rfl
  of_to := by intro u h; exact uuidOfVals_uuidVals u h
  to_of := by
    intro b _
    have := decF_fits uuidRec.ws b
    simp only [uuidRec, decF, Fits] at *
    exact uuidVals_uuidOfVals _ _ _ _ this.1 this.2.1 this.2.2.1 this.2.2.2.1
  inr := by intro b _; exact uuidOfVals_length _ _ _ _

theorem sevMetadataSectionLaws : Laws sevMetadataSectionRec SevMetadataSection.InRange where
  fits := by intro v h; simpa [sevMetadataSectionRec, Fits, SevMetadataSection.InRange] using h
  valid_to := by intro v _; rfl
  of_to := by intro v _; rfl
  to_of := by intro b _; rfl
  inr := by
    intro b _
    have := decF_fits sevMetadataSectionRec.ws b
    simpa [sevMetadataSectionRec, decF, Fits, SevMetadataSection.InRange] using this

theorem tdxDescriptorLaws : Laws tdxDescriptorRec TdxDescriptor.InRange where
  fits := by intro v h; simpa [tdxDescriptorRec, Fits, TdxDescriptor.InRange] using h
  valid_to := by intro v _; rfl
  of_to := by intro v _; rfl
  to_of := by intro b _; rfl
  inr := by
    intro b _
    have := decF_fits tdxDescriptorRec.ws b
    simpa [tdxDescriptorRec, decF, Fits, TdxDescriptor.InRange] using this

theorem tdxSectionLaws : Laws tdxSectionRec TdxSection.InRange where
  fits := by intro v h; simpa [tdxSectionRec, Fits, TdxSection.InRange] using h
  valid_to := by intro v _; rfl
  of_to := by intro v _; rfl
  to_of := by intro b _; rfl
  inr := by
    intro b _
    have := decF_fits tdxSectionRec.ws b
    simpa [tdxSectionRec, decF, Fits, TdxSection.InRange] using this

theorem vmcbSegLaws : Laws vmcbSegRec VmcbSeg.InRange where
  fits := by intro v h; simpa [vmcbSegRec, Fits, VmcbSeg.InRange] using h
  valid_to := by intro v _; rfl
  of_to := by intro v _; rfl
  to_of := by intro b _; rfl
  inr := by
    intro b _
    have := decF_fits vmcbSegRec.ws b
    simpa [vmcbSegRec, decF, Fits, VmcbSeg.InRange] using this

theorem fwGuidEntryLaws : Laws fwGuidEntryRec FwGuidEntry.InRange where
  fits := by
    intro v h
    simp only [fwGuidEntryRec, uuidVals, Fits, FwGuidEntry.InRange] at *
    exact ⟨by omega, beVal_lt _ 4 (field_length_le _ _ _), beVal_lt _ 2 (field_length_le _ _ _),
      beVal_lt _ 2 (field_length_le _ _ _), leVal_lt' _ 8 (field_length_le _ _ _), trivial⟩
  valid_to := by intro v _; rfl
  of_to := by
    intro v h
    simp only [fwGuidEntryRec, uuidVals]
    rw [uuidOfVals_uuidVals v.guid h.2]
  to_of := by
    intro b _
    have := decF_fits fwGuidEntryRec.ws b
    simp only [fwGuidEntryRec, decF, Fits] at *
    rw [uuidVals_uuidOfVals _ _ _ _ this.2.1 this.2.2.1 this.2.2.2.1 this.2.2.2.2.1]
  inr := by
    intro b _
    have := decF_fits fwGuidEntryRec.ws b
    simp only [fwGuidEntryRec, decF, Fits, FwGuidEntry.InRange] at *
    exact ⟨by omega, uuidOfVals_length _ _ _ _⟩

theorem metadataOffsetLaws : Laws metadataOffsetRec MetadataOffset.InRange where
  fits := by
    intro v h
    simp only [metadataOffsetRec, uuidVals, Fits, MetadataOffset.InRange, FwGuidEntry.InRange] at *
    exact ⟨by omega, by omega, beVal_lt _ 4 (field_length_le _ _ _), beVal_lt _ 2 (field_length_le _ _ _),
      beVal_lt _ 2 (field_length_le _ _ _), leVal_lt' _ 8 (field_length_le _ _ _), trivial⟩
  valid_to := by intro v _; rfl
  of_to := by
    intro v h
    simp only [metadataOffsetRec, uuidVals]
    rw [uuidOfVals_uuidVals v.entry.guid h.2.2]
  to_of := by
    intro b _
    have := decF_fits metadataOffsetRec.ws b
    simp only [metadataOffsetRec, decF, Fits] at *
    rw [uuidVals_uuidOfVals _ _ _ _ this.2.2.1 this.2.2.2.1 this.2.2.2.2.1 this.2.2.2.2.2.1]
  inr := by
    intro b _
    have := decF_fits metadataOffsetRec.ws b
    simp only [metadataOffsetRec, decF, Fits, MetadataOffset.InRange, FwGuidEntry.InRange] at *
    exact ⟨by omega, by omega, uuidOfVals_length _ _ _ _⟩

theorem resetBlockLaws : Laws resetBlockRec ResetBlock.InRange where
  fits := by
    intro v h
    simp only [resetBlockRec, uuidVals, Fits, ResetBlock.InRange] at *
    exact ⟨by omega, by omega, beVal_lt _ 4 (field_length_le _ _ _), beVal_lt _ 2 (field_length_le _ _ _),
      beVal_lt _ 2 (field_length_le _ _ _), leVal_lt' _ 8 (field_length_le _ _ _), trivial⟩
  valid_to := by intro v _; rfl
  of_to := by
    intro v h
    simp only [resetBlockRec, uuidVals]
    rw [uuidOfVals_uuidVals v.guid h.2.2]
  to_of := by
    intro b _
    have := decF_fits resetBlockRec.ws b
    simp only [resetBlockRec, decF, Fits] at *
    rw [uuidVals_uuidOfVals _ _ _ _ this.2.2.1 this.2.2.2.1 this.2.2.2.2.1 this.2.2.2.2.2.1]
  inr := by
    intro b _
    have := decF_fits resetBlockRec.ws b
    simp only [resetBlockRec, decF, Fits, ResetBlock.InRange] at *
    exact ⟨by omega, by omega, uuidOfVals_length _ _ _ _⟩

theorem hobHeaderLaws : Laws hobHeaderRec HobHeader.InRange where
  fits := by
    intro v h
    simp only [hobHeaderRec, Fits, HobHeader.InRange] at *
    exact ⟨by omega, by omega, by omega, trivial⟩
  valid_to := by intro v _; rfl
  of_to := by intro v _; rfl
  to_of := by
    intro b hv
    simp only [hobHeaderRec, decF] at *
    have : leVal (List.take 4 (List.drop 2 (List.drop 2 b))) = 0 := by simpa using hv
    rw [this]
  inr := by
    intro b _
    have := decF_fits hobHeaderRec.ws b
    simp only [hobHeaderRec, decF, Fits, HobHeader.InRange] at *
    exact ⟨by omega, by omega⟩

theorem handoffLaws : Laws handoffRec HandoffInfoTable.InRange where
  fits := by
    intro v h
    simp only [handoffRec, Fits, HandoffInfoTable.InRange, HobHeader.InRange] at *
    exact ⟨by omega, by omega, by omega, by omega, by omega, by omega, by omega, by omega, by omega, by omega, trivial⟩
  valid_to := by intro v _; rfl
  of_to := by intro v _; rfl
  to_of := by
    intro b hv
    simp only [handoffRec, decF] at *
    have : leVal (List.take 4 (List.drop 2 (List.drop 2 b))) = 0 := by simpa using hv
    rw [this]
  inr := by
    intro b _
    have := decF_fits handoffRec.ws b
    simp only [handoffRec, decF, Fits, HandoffInfoTable.InRange, HobHeader.InRange] at *
    exact ⟨⟨by omega, by omega⟩, by omega, by omega, by omega, by omega, by omega, by omega, by omega⟩

theorem resourceLaws : Laws resourceRec ResourceDescriptor.InRange where
  fits := by
    intro v h
    simp only [resourceRec, Fits, ResourceDescriptor.InRange, HobHeader.InRange, EfiGuid.InRange] at *
    exact ⟨by omega, by omega, by omega, by omega, by omega, by omega, leVal_lt' _ 8 (by omega), by omega, by omega,
      by omega, by omega, trivial⟩
  valid_to := by intro v _; rfl
  of_to := by
    intro v h
    simp only [resourceRec]
    rw [leBytes_leVal' v.owner.d4 8 h.2.1.2.2.2]
  to_of := by
    intro b hv
    have hf := decF_fits resourceRec.ws b
    simp only [resourceRec, decF, Fits] at *
    have : leVal (List.take 4 (List.drop 2 (List.drop 2 b))) = 0 := by simpa using hv
    rw [this, leVal_leBytes_of_lt 8 _ hf.2.2.2.2.2.2.1]
  inr := by
    intro b _
    have := decF_fits resourceRec.ws b
    simp only [resourceRec, decF, Fits, ResourceDescriptor.InRange, HobHeader.InRange, EfiGuid.InRange] at *
    exact ⟨⟨by omega, by omega⟩, ⟨by omega, by omega, by omega, leBytes_length _ _⟩, by omega, by omega, by omega, by omega⟩

theorem pageInfoLaws : Laws pageInfoRec PageInfo.InRange where
  fits := by
    intro v h
    simp only [pageInfoRec, Fits, PageInfo.InRange] at *
    exact ⟨leVal_lt' _ 48 (by omega), leVal_lt' _ 48 (by omega), by omega, by omega, by omega, by omega, by omega, trivial⟩
  valid_to := by
    intro v h
    simp only [pageInfoRec, PageInfo.InRange] at *
    simp; omega
  of_to := by
    intro v h
    obtain ⟨h1, h2, _, _, _, h6, h7, h8, _⟩ := h
    simp only [pageInfoRec]
    rw [leBytes_leVal' v.digestCur 48 h1, leBytes_leVal' v.contents 48 h2]
    have e1 : (v.vmpl1 * 2 ^ 8 + v.vmpl2 * 2 ^ 16 + v.vmpl3 * 2 ^ 24) / 2 ^ 8 % 2 ^ 8 = v.vmpl1 := by omega
    have e2 : (v.vmpl1 * 2 ^ 8 + v.vmpl2 * 2 ^ 16 + v.vmpl3 * 2 ^ 24) / 2 ^ 16 % 2 ^ 8 = v.vmpl2 := by omega
    have e3 : (v.vmpl1 * 2 ^ 8 + v.vmpl2 * 2 ^ 16 + v.vmpl3 * 2 ^ 24) / 2 ^ 24 = v.vmpl3 := by omega
    rw [e1, e2, e3]
  to_of := by
    intro b hv
    have hf := decF_fits pageInfoRec.ws b
    simp only [pageInfoRec, decF, Fits] at *
    rw [leVal_leBytes_of_lt 48 _ hf.1, leVal_leBytes_of_lt 48 _ hf.2.1]
    have hz : leVal (List.take 4 (List.drop 1 (List.drop 1 (List.drop 2 (List.drop 48 (List.drop 48 b)))))) % 2 ^ 8 = 0 := by
      simpa using hv
    have hw := hf.2.2.2.2.2.1
    generalize leVal (List.take 4 (List.drop 1 (List.drop 1 (List.drop 2 (List.drop 48 (List.drop 48 b)))))) = w at *
    have : w / 2 ^ 8 % 2 ^ 8 * 2 ^ 8 + w / 2 ^ 16 % 2 ^ 8 * 2 ^ 16 + w / 2 ^ 24 * 2 ^ 24 = w := by omega
    rw [this]
  inr := by
    intro b _
    have hf := decF_fits pageInfoRec.ws b
    simp only [pageInfoRec, decF, Fits, PageInfo.InRange] at *
    have hw := hf.2.2.2.2.2.1
    generalize leVal (List.take 4 (List.drop 1 (List.drop 1 (List.drop 2 (List.drop 48 (List.drop 48 b)))))) = w at *
    exact ⟨leBytes_length _ _, leBytes_length _ _, by omega, by omega, by omega, by omega, by omega, by omega, by omega⟩

/-! ## TDX metadata (descriptor + sections) -/

theorem tdxSectionsEnc_length (ss : List TdxSection) : (tdxSectionsEnc ss).length = 32 * ss.length := by
  induction ss with
  | nil => rfl
  | cons s ss ih =>
    simp only [tdxSectionsEnc, List.length_append, List.length_cons, ih, Rec.enc_length]
    have : tdxSectionRec.size = 32 := rfl
    omega

theorem tdxMetadataEnc_length (m : TdxMetadata) : (tdxMetadataEnc m).length = 16 + 32 * m.sections.length := by
  simp only [tdxMetadataEnc, List.length_append, tdxSectionsEnc_length, Rec.enc_length]
  have : tdxDescriptorRec.size = 16 := rfl
  omega

theorem tdxReadSections_length (n : Nat) (b : Bytes) : (tdxReadSections n b).length = n := by
  induction n generalizing b with
  | zero => rfl
  | succ n ih => simp [tdxReadSections, ih]

theorem tdxReadSections_enc (ss : List TdxSection) (t : Bytes) (h : ∀ s ∈ ss, s.InRange) :
    tdxReadSections ss.length (tdxSectionsEnc ss ++ t) = ss := by
  induction ss with
  | nil => rfl
  | cons s ss ih =>
    have hs : s.InRange := h s (by simp)
    have hl : (tdxSectionRec.enc s).length = 32 := Rec.enc_length _ _
    simp only [List.length_cons, tdxReadSections, tdxSectionsEnc, List.append_assoc]
    rw [List.take_left' hl, List.drop_left' hl, ih (fun x hx => h x (by simp [hx]))]
    have := decF_encF tdxSectionRec.ws (tdxSectionRec.toVals s) [] (tdxSectionLaws.fits s hs)
    simp only [List.append_nil] at this
    show tdxSectionRec.ofVals (decF tdxSectionRec.ws (encF tdxSectionRec.ws (tdxSectionRec.toVals s))) :: ss = s :: ss
    rw [this, tdxSectionLaws.of_to s hs]

theorem tdxSectionsEnc_read (n : Nat) (b : Bytes) (h : 32 * n ≤ b.length) :
    tdxSectionsEnc (tdxReadSections n b) = b.take (32 * n) := by
  induction n generalizing b with
  | zero => simp [tdxReadSections, tdxSectionsEnc]
  | succ n ih =>
    simp only [tdxReadSections, tdxSectionsEnc]
    have h32 : (b.take 32).length = 32 := by simp [List.length_take]; omega
    have e1 : tdxSectionRec.enc (tdxSectionRec.ofVals (decF tdxSectionRec.ws (b.take 32))) = b.take 32 := by
      unfold Rec.enc
      rw [tdxSectionLaws.to_of (b.take 32) rfl, encF_decF _ _ (by rw [h32]; exact Nat.le_refl 32)]
      show (b.take 32).take 32 = b.take 32
      rw [List.take_take]; rfl
    rw [e1, ih (b.drop 32) (by simp [List.length_drop]; omega)]
    rw [show 32 * (n + 1) = 32 + 32 * n by omega, List.take_add]

theorem tdxReadSections_inRange (n : Nat) (b : Bytes) : ∀ s ∈ tdxReadSections n b, s.InRange := by
  induction n generalizing b with
  | zero => intro s hs; simp [tdxReadSections] at hs
  | succ n ih =>
    intro s hs
    simp only [tdxReadSections, List.mem_cons] at hs
    rcases hs with h | h
    · rw [h]; exact tdxSectionLaws.inr (b.take 32) rfl
    · exact ih _ s h

theorem tdxMetadata_roundtrip (m : TdxMetadata) (t : Bytes) (h : m.InRange) :
    tdxMetadataFromBytes (tdxMetadataEnc m ++ t) = .ok m := by
  obtain ⟨hh, hc, hs, _⟩ := h
  have hd : tdxDescriptorFromBytes (tdxMetadataEnc m ++ t) = .ok m.header := by
    simp only [tdxMetadataEnc, List.append_assoc]
    exact Rec.dec_enc tdxDescriptorLaws .errShort m.header hh _ (by intro h; cases h)
  have hl : (tdxDescriptorRec.enc m.header).length = 16 := Rec.enc_length _ _
  simp only [tdxMetadataFromBytes, hd]
  have hlen : (tdxMetadataEnc m ++ t).length = 16 + 32 * m.sections.length + t.length := by
    simp [tdxMetadataEnc_length]
  rw [if_neg (by rw [hlen, hc]; omega)]
  have : (tdxMetadataEnc m ++ t).drop 16 = tdxSectionsEnc m.sections ++ t := by
    simp only [tdxMetadataEnc, List.append_assoc]; exact List.drop_left' hl
  rw [this, hc, tdxReadSections_enc _ _ hs]

/-- What an accepted TDX metadata block looks like. -/
theorem tdxMetadata_canon (b : Bytes) (m : TdxMetadata) (h : tdxMetadataFromBytes b = .ok m) :
    tdxMetadataEnc m = b.take (16 + 32 * m.sections.length) ∧ 16 + 32 * m.sections.length ≤ b.length ∧
    m.header.sectionCount = m.sections.length ∧ m.header.InRange ∧ (∀ s ∈ m.sections, s.InRange) := by
  simp only [tdxMetadataFromBytes] at h
  cases hd : tdxDescriptorFromBytes b with
  | err e => rw [hd] at h; cases h
  | panic s => rw [hd] at h; cases h
  | ok hdr =>
    rw [hd] at h
    simp only at h
    by_cases hc : hdr.sectionCount * 32 > b.length - 16
    · rw [if_pos hc] at h; cases h
    · rw [if_neg hc] at h
      have hm : m = ⟨hdr, tdxReadSections hdr.sectionCount (b.drop 16)⟩ := by injection h with h; exact h.symm
      have hcan := Rec.dec_canon tdxDescriptorLaws .errShort b hdr hd
      have h16 : tdxDescriptorRec.size = 16 := rfl
      rw [h16] at hcan
      subst hm
      simp only [tdxReadSections_length, tdxMetadataEnc]
      refine ⟨?_, by omega, trivial, hcan.2.1, tdxReadSections_inRange _ _⟩
      rw [hcan.1, tdxSectionsEnc_read _ _ (by simp [List.length_drop]; omega), List.take_add]

theorem tdxMetadata_short (b : Bytes) (h : b.length < 16) : tdxMetadataFromBytes b = .err "short" := by
  have : tdxDescriptorFromBytes b = .err "short" := by
    simp only [tdxDescriptorFromBytes, Rec.dec]
    rw [if_pos (by show b.length < 16; exact h)]
  simp [tdxMetadataFromBytes, this]

theorem tdxMetadataPut_ok (m : TdxMetadata) (data : Bytes) (h : m.InRange)
    (hd : 16 + 32 * m.sections.length ≤ data.length) :
    tdxMetadataPut m data = .ok (tdxMetadataEnc m ++ data.drop (16 + 32 * m.sections.length)) := by
  obtain ⟨_, hc, _, hs⟩ := h
  have hsz : tdxMetadataSize m = 16 + 32 * m.sections.length := by
    simp only [tdxMetadataSize]; rw [hc]; omega
  simp only [tdxMetadataPut, tdxMetadataEnc_length]
  rw [if_neg (by omega), if_neg (by rw [hsz]; omega), if_pos hd]

theorem tdxMetadataPut_count (m : TdxMetadata) (data : Bytes) (h : m.header.sectionCount ≠ m.sections.length) :
    tdxMetadataPut m data = .err "count" := by
  simp [tdxMetadataPut, h]

theorem tdxMetadataPut_short (m : TdxMetadata) (data : Bytes) (h : m.InRange)
    (hd : data.length < 16 + 32 * m.sections.length) : tdxMetadataPut m data = .err "short" := by
  obtain ⟨_, hc, _, hs⟩ := h
  have hsz : tdxMetadataSize m = 16 + 32 * m.sections.length := by
    simp only [tdxMetadataSize]; rw [hc]; omega
  simp only [tdxMetadataPut]
  rw [if_neg (by omega), if_pos (by rw [hsz]; exact hd)]

/-! ## GUID HOB -/

theorem guidHobWriteTo_ok (h : GuidHob) (hr : h.InRange) :
    guidHobWriteTo h = .ok (hobHeaderRec.enc h.header ++ efiGuidRec.enc h.guid ++ h.data) := by
  obtain ⟨ht, hl, _, _⟩ := hr
  simp [guidHobWriteTo, ht, hl]

theorem guidHobWriteTo_length (h : GuidHob) (bs : Bytes) (hw : guidHobWriteTo h = .ok bs) :
    bs.length = h.header.hobLength ∧ h.header.hobType = 4 ∧ h.header.hobLength = 24 + h.data.length := by
  simp only [guidHobWriteTo] at hw
  by_cases ht : h.header.hobType ≠ 4
  · rw [if_pos ht] at hw; cases hw
  · rw [if_neg ht] at hw
    by_cases hl : h.header.hobLength ≠ 24 + h.data.length
    · rw [if_pos hl] at hw; cases hw
    · rw [if_neg hl] at hw
      injection hw with hw
      subst hw
      have h1 : (hobHeaderRec.enc h.header).length = 8 := Rec.enc_length _ _
      have h2 : (efiGuidRec.enc h.guid).length = 16 := Rec.enc_length _ _
      simp only [List.length_append, h1, h2]
      omega

theorem guidHobWriteTo_strict (h : GuidHob) (hn : ¬ (h.header.hobType = 4 ∧ h.header.hobLength = 24 + h.data.length)) :
    (guidHobWriteTo h).isOk = false := by
  simp only [guidHobWriteTo]
  by_cases ht : h.header.hobType ≠ 4
  · rw [if_pos ht]; rfl
  · rw [if_neg ht]
    by_cases hl : h.header.hobLength ≠ 24 + h.data.length
    · rw [if_pos hl]; rfl
    · exfalso; apply hn; omega

theorem guidHob_roundtrip (h : GuidHob) (t : Bytes) (hr : h.InRange) :
    guidHobDec (hobHeaderRec.enc h.header ++ efiGuidRec.enc h.guid ++ h.data ++ t) = .ok (h, t) := by
  obtain ⟨ht, hl, hlt, hg⟩ := hr
  have hhr : h.header.InRange := ⟨by omega, hlt⟩
  have l1 : (hobHeaderRec.enc h.header).length = 8 := Rec.enc_length _ _
  have l2 : (efiGuidRec.enc h.guid).length = 16 := Rec.enc_length _ _
  have hd : hobHeaderDec (hobHeaderRec.enc h.header ++ efiGuidRec.enc h.guid ++ h.data ++ t) = .ok h.header := by
    simp only [List.append_assoc]
    exact Rec.dec_enc hobHeaderLaws .errShort h.header hhr _ (by intro h; cases h)
  simp only [guidHobDec, hd]
  rw [if_neg (by omega), if_neg (by omega), if_neg (by simp only [List.length_append, l1, l2]; omega)]
  have f1 : field (hobHeaderRec.enc h.header ++ efiGuidRec.enc h.guid ++ h.data ++ t) 8 16 = efiGuidRec.enc h.guid := by
    simp only [List.append_assoc]
    rw [show (8:Nat) = 8 + 0 from rfl, field_append_right _ _ 8 0 16 l1, field_append_left _ _ 16 l2]
  have f2 : field (hobHeaderRec.enc h.header ++ efiGuidRec.enc h.guid ++ h.data ++ t) 24 (h.header.hobLength - 24) = h.data := by
    simp only [List.append_assoc]
    rw [show (24:Nat) = 8 + (16 + 0) from rfl, field_append_right _ _ 8 _ _ l1, field_append_right _ _ 16 0 _ l2]
    exact field_append_left _ _ _ (by omega)
  have f3 : (hobHeaderRec.enc h.header ++ efiGuidRec.enc h.guid ++ h.data ++ t).drop h.header.hobLength = t := by
    apply List.drop_left'
    simp only [List.length_append, l1, l2]; omega
  rw [f1, f2, f3]
  have hp : parseEFIGUID (efiGuidRec.enc h.guid) = .ok h.guid := by
    have := Rec.dec_enc efiGuidLaws .exact h.guid hg [] (fun _ => rfl)
    rw [List.append_nil] at this
    exact this
  rw [hp]

/-- What the PI-spec reader accepts is exactly what WriteTo writes: type 4, consistent length, and
    the bytes consumed are the encoding. -/
theorem guidHob_canon (b rest : Bytes) (h : GuidHob) (hd : guidHobDec b = .ok (h, rest)) :
    h.InRange ∧ b = hobHeaderRec.enc h.header ++ efiGuidRec.enc h.guid ++ h.data ++ rest := by
  simp only [guidHobDec] at hd
  cases hh : hobHeaderDec b with
  | err e => rw [hh] at hd; cases hd
  | panic s => rw [hh] at hd; cases hd
  | ok hdr =>
    rw [hh] at hd
    simp only at hd
    have hcan := Rec.dec_canon hobHeaderLaws .errShort b hdr hh
    have h8 : hobHeaderRec.size = 8 := rfl
    rw [h8] at hcan
    by_cases c1 : hdr.hobType ≠ 4
    · rw [if_pos c1] at hd; cases hd
    · rw [if_neg c1] at hd
      by_cases c2 : hdr.hobLength < 24
      · rw [if_pos c2] at hd; cases hd
      · rw [if_neg c2] at hd
        by_cases c3 : b.length < hdr.hobLength
        · rw [if_pos c3] at hd; cases hd
        · rw [if_neg c3] at hd
          cases hg : parseEFIGUID (field b 8 16) with
          | err e => rw [hg] at hd; cases hd
          | panic s => rw [hg] at hd; cases hd
          | ok g =>
            rw [hg] at hd
            simp only at hd
            injection hd with hd
            injection hd with e1 e2
            subst e1
            have gcan := Rec.dec_canon efiGuidLaws .exact (field b 8 16) g hg
            have h16 : efiGuidRec.size = 16 := rfl
            rw [h16] at gcan
            have fl : (field b 8 16).length = 16 := field_length' b 8 16 (by omega)
            have fd : (field b 24 (hdr.hobLength - 24)).length = hdr.hobLength - 24 := field_length' b 24 _ (by omega)
            refine ⟨⟨by simp only; omega, by simp only [fd]; omega, hcan.2.1.2, gcan.2.1⟩, ?_⟩
            simp only
            rw [hcan.1, gcan.1, List.take_of_length_le (by omega : (field b 8 16).length ≤ 16), ← e2]
            have : b.take 8 = field b 0 8 := by simp [field]
            rw [this, field_append_field b 0 8 16, field_append_field b 0 24 (hdr.hobLength - 24)]
            have : 24 + (hdr.hobLength - 24) = hdr.hobLength := by omega
            rw [this]
            simp [field]

theorem zeros_length (n : Nat) : (zeros n).length = n := by simp [zeros]

theorem fromUUID_eq (u : Bytes) (h : u.length = 16) : fromUUID u = efiGuidRec.ofVals (uuidRec.toVals u) := by
  have hf := uuidLaws.fits u h
  have hd : parseEFIGUID (uuidRec.enc u) = .ok (efiGuidRec.ofVals (uuidRec.toVals u)) := by
    show efiGuidRec.dec .exact (encF efiGuidRec.ws (uuidRec.toVals u)) = _
    simp only [Rec.dec]
    rw [if_neg (by rw [encF_length]; exact fun h => h rfl)]
    simp only [Rec.decBody]
    have := decF_encF efiGuidRec.ws (uuidRec.toVals u) [] hf
    rw [List.append_nil] at this
    rw [this]; rfl
  simp only [fromUUID, hd]

theorem fromUUID_inRange (u : Bytes) (h : u.length = 16) : (fromUUID u).InRange := by
  have hf := uuidLaws.fits u h
  rw [fromUUID_eq u h]
  simp only [uuidRec, uuidVals, Fits] at hf ⊢
  simp only [efiGuidRec, EfiGuid.InRange]
  exact ⟨by omega, by omega, by omega, leBytes_length _ _⟩

/-- CreateEFIHOBGUID builds a HOB that WriteTo accepts, whose length is a multiple of 8, and whose
    data is the caller's data followed by fewer than 8 zero bytes. -/
theorem createGuidHob_ok (u d : Bytes) (h : GuidHob) (hu : u.length = 16) (hc : createEFIHOBGUID u d = .ok h) :
    h.InRange ∧ h.header.hobLength % 8 = 0 ∧
    h.data = d ++ zeros (h.data.length - d.length) ∧ h.data.length - d.length < 8 ∧ d.length ≤ h.data.length := by
  have hmax : maxGuidHobDataSize = 65504 := rfl
  simp only [createEFIHOBGUID] at hc
  by_cases hl : (d.length + 7) / 8 * 8 > maxGuidHobDataSize
  · rw [if_pos hl] at hc; cases hc
  · rw [if_neg hl] at hc
    injection hc with hc
    subst hc
    simp only [GuidHob.InRange, List.length_append, zeros_length]
    have e : d.length + ((d.length + 7) / 8 * 8 - d.length) = (d.length + 7) / 8 * 8 := by omega
    refine ⟨⟨trivial, by omega, by omega, fromUUID_inRange u hu⟩, by omega, ?_, by omega, by omega⟩
    congr 2
    omega

theorem createGuidHob_long (u d : Bytes) (hl : (d.length + 7) / 8 * 8 > maxGuidHobDataSize) :
    createEFIHOBGUID u d = .err "long" := by
  simp only [createEFIHOBGUID]
  rw [if_pos hl]

theorem createGuidHob_fits (u d : Bytes) (hl : (d.length + 7) / 8 * 8 ≤ maxGuidHobDataSize) :
    (createEFIHOBGUID u d).isOk = true := by
  simp only [createEFIHOBGUID]
  rw [if_neg (by omega)]; rfl

end GceTcb.Codecs
