import GceTcb.Model.SevLd
import GceTcb.Proofs.SnpSections
/-
C08 (SEV half) — totality of the firmware analysis: no checked operation of the model panics, on any
byte string; parsed values are in range; loop iterations are bounded.  Helper lemmas (core only).
-/
namespace GceTcb.Proofs.SnpTotal
open GceTcb GceTcb.Codec GceTcb.GuidTable GceTcb.SevMeta GceTcb.SevLd
open GceTcb.Codecs hiding sevEsResetBlockFromBytes metadataOffsetFromBytes sevMetadataFromBytes sevMetadataSectionFromBytes
open GceTcb.Proofs.SnpSections (Sec)

/-! ### slices -/

theorem slice_ok {site : String} {s : Bytes} {a b : Int} {r : Bytes} (h : slice site s a b = .ok r) :
    0 ≤ a ∧ a ≤ b ∧ b ≤ (s.length : Int) ∧ r = (s.drop a.toNat).take (b.toNat - a.toNat) := by
  unfold slice at h
  split at h
  · cases h; rename_i hc; exact ⟨hc.1, hc.2.1, hc.2.2, rfl⟩
  · cases h

theorem slice_ok_length {site : String} {s : Bytes} {a b : Int} {r : Bytes} (h : slice site s a b = .ok r) :
    (r.length : Int) = b - a := by
  obtain ⟨h0, h1, h2, rfl⟩ := slice_ok h
  simp only [List.length_take, List.length_drop]
  omega

theorem slice_in_range (site : String) (s : Bytes) (a b : Int) (h : 0 ≤ a ∧ a ≤ b ∧ b ≤ (s.length : Int)) :
    ∃ r, slice site s a b = .ok r := by
  unfold slice; rw [if_pos h]; exact ⟨_, rfl⟩

theorem slice_not_err (site : String) (s : Bytes) (a b : Int) (c : String) : slice site s a b ≠ .err c := by
  unfold slice; split <;> simp

/-! ### decoders -/

theorem populateFromBytes_total (data : Bytes) (h : 18 ≤ data.length) :
    populateFromBytes data = .ok (fwGuidEntryRec.ofVals (decF fwGuidEntryRec.ws data)) := by
  unfold populateFromBytes
  obtain ⟨r1, h1⟩ := slice_in_range "abi.FwGUIDEntry.PopulateFromBytes#0:slice" data 0 2 (by omega)
  obtain ⟨r2, h2⟩ := slice_in_range "abi.FwGUIDEntry.PopulateFromBytes#1:slice" data 2 18 (by omega)
  rw [h1, h2]

theorem populateFromBytes_size_lt (data : Bytes) : (fwGuidEntryRec.ofVals (decF fwGuidEntryRec.ws data)).size < 2 ^ 16 := by
  simp only [fwGuidEntryRec, decF]
  have := leVal_lt (data.take 2)
  have hl : (data.take 2).length ≤ 2 := by simp; omega
  have : 256 ^ (data.take 2).length ≤ 256 ^ 2 := Nat.pow_le_pow_right (by decide) hl
  omega

/-! ### GetFwGUIDTable / GetFwGUIDToBlockMap -/

theorem getFwGUIDTable_no_panic (fw : Bytes) (p : String) : getFwGUIDTable fw ≠ .panic p := by
  unfold getFwGUIDTable
  split
  · simp
  · rename_i hlen
    obtain ⟨ent, he⟩ := slice_in_range "ovmf.GetFwGUIDTable#0:slice" fw ((fw.length : Int) - 50) fw.length (by omega)
    have hel := slice_ok_length he
    rw [he]
    simp only
    rw [populateFromBytes_total ent (by omega)]
    simp only
    split
    · simp
    · split
      · simp
      · rename_i hsz
        generalize (fwGuidEntryRec.ofVals (decF fwGuidEntryRec.ws ent)).size = sz at *
        obtain ⟨r, hr⟩ := slice_in_range "ovmf.GetFwGUIDTable#1:slice" fw ((fw.length : Int) - 32 - sz)
          ((fw.length : Int) - 32 - sz + ((sz : Int) - 18)) (by omega)
        rw [hr]; simp

theorem getFwGUIDTable_length {fw table : Bytes} (h : getFwGUIDTable fw = .ok table) : table.length + 50 ≤ fw.length := by
  unfold getFwGUIDTable at h
  split at h
  · cases h
  · split at h
    · split at h
      · split at h
        · cases h
        · split at h
          · cases h
          · have := slice_ok_length h
            omega
      · cases h
      · cases h
    · cases h
    · cases h

theorem walkStep_no_panic (table : Bytes) (n : Nat) (acc : BlockMap) (hn : n ≤ table.length) (p : String) :
    walkStep table n acc ≠ .panic p := by
  unfold walkStep
  split
  · simp
  · rename_i h18
    obtain ⟨eb, he⟩ := slice_in_range "ovmf.GetFwGUIDToBlockMap#0:slice" table ((n : Int) - 18) ((n : Int) - 18 + 18) (by omega)
    have hel := slice_ok_length he
    rw [he]
    simp only
    rw [populateFromBytes_total eb (by omega)]
    simp only
    split
    · simp
    · split
      · simp
      · rename_i hsz _
        generalize (fwGuidEntryRec.ofVals (decF fwGuidEntryRec.ws eb)).size = sz at *
        obtain ⟨r, hr⟩ := slice_in_range "ovmf.GetFwGUIDToBlockMap#1:slice" table ((n : Int) - sz) ((n : Int) - sz + sz) (by omega)
        rw [hr]; simp

theorem guidWalk_no_panic (table : Bytes) (n : Nat) (acc : BlockMap) (hn : n ≤ table.length) (p : String) :
    guidWalk table n acc ≠ .panic p := by
  induction n using Nat.strongRecOn generalizing acc with
  | _ n ih =>
    rw [guidWalk]
    split
    · simp
    · split
      · rename_i n' acc' hstep
        have := walkStep_decreases hstep
        exact ih n' (by omega) acc' (by omega)
      · simp
      · rename_i s hstep
        exact absurd hstep (walkStep_no_panic table n acc hn s)

theorem getFwGUIDToBlockMap_no_panic (fw : Bytes) (p : String) : getFwGUIDToBlockMap fw ≠ .panic p := by
  unfold getFwGUIDToBlockMap
  split
  · exact guidWalk_no_panic _ _ _ (Nat.le_refl _) p
  · simp
  · rename_i s h; exact absurd h (getFwGUIDTable_no_panic fw s)

/-- every iteration removes at least 18 bytes: at most `n/18 + 1` iterations -/
theorem guidWalkTicks_le (table : Bytes) (n : Nat) (acc : BlockMap) : guidWalkTicks table n acc ≤ n / 18 + 1 := by
  induction n using Nat.strongRecOn generalizing acc with
  | _ n ih =>
    rw [guidWalkTicks]
    split
    · omega
    · split
      · rename_i n' acc' hstep
        have hd := walkStep_decreases hstep
        have := ih n' (by omega) acc'
        omega
      · omega
      · omega

theorem getFwGUIDToBlockMapTicks_le (fw : Bytes) : getFwGUIDToBlockMapTicks fw ≤ fw.length / 18 + 1 := by
  unfold getFwGUIDToBlockMapTicks
  split
  · rename_i table h
    have := getFwGUIDTable_length h
    have := guidWalkTicks_le table table.length []
    omega
  · omega

/-! ### ovmf/sev_data.go -/

theorem extractGUIDBlockFromMap_ok {m : BlockMap} {g : Bytes} {n : Nat} {blk : Bytes}
    (h : extractGUIDBlockFromMap m g n = .ok blk) : blk.length % 2 ^ 32 = n := by
  unfold extractGUIDBlockFromMap at h
  split at h
  · cases h
  · split at h
    · cases h
    · cases h; rename_i hh; simpa using hh

theorem extractGUIDBlockFromMap_no_panic (m : BlockMap) (g : Bytes) (n : Nat) (p : String) :
    extractGUIDBlockFromMap m g n ≠ .panic p := by
  unfold extractGUIDBlockFromMap
  split
  · simp
  · split <;> simp

theorem sevEsResetBlockFromBytes_no_panic (data : Bytes) (p : String) : sevEsResetBlockFromBytes data ≠ .panic p := by
  unfold sevEsResetBlockFromBytes
  split
  · simp
  · rename_i hl
    obtain ⟨r0, h0⟩ := slice_in_range "abi.SevEsResetBlockFromBytes#0:slice" data 6 22 (by omega)
    obtain ⟨r1, h1⟩ := slice_in_range "abi.SevEsResetBlockFromBytes#1:slice" data 0 4 (by omega)
    obtain ⟨r2, h2⟩ := slice_in_range "abi.SevEsResetBlockFromBytes#2:slice" data 4 6 (by omega)
    rw [h0, h1, h2]; simp

theorem extractSevEsResetBlock_no_panic (m : BlockMap) (p : String) : extractSevEsResetBlock m ≠ .panic p := by
  unfold extractSevEsResetBlock
  split
  · exact sevEsResetBlockFromBytes_no_panic _ p
  · simp
  · rename_i s h; exact absurd h (extractGUIDBlockFromMap_no_panic _ _ _ s)

theorem metadataOffsetFromBytes_total (blk : Bytes) (h : 22 ≤ blk.length) :
    ∃ mo, metadataOffsetFromBytes blk = .ok mo ∧ mo.offset < 2 ^ 32 := by
  unfold metadataOffsetFromBytes
  obtain ⟨r0, h0⟩ := slice_in_range "abi.MetadataOffsetFromBytes#0:slice" blk 0 4 (by omega)
  obtain ⟨r1, h1⟩ := slice_in_range "abi.MetadataOffsetFromBytes#1:slice" blk 4 22 (by omega)
  have hl0 := slice_ok_length h0
  have hl1 := slice_ok_length h1
  rw [h0, h1]
  simp only
  rw [populateFromBytes_total r1 (by omega)]
  refine ⟨_, rfl, ?_⟩
  have := leVal_lt r0
  have h4 : r0.length = 4 := by omega
  rw [h4] at this
  exact this

theorem sevMetadataFromBytes_total (b : Bytes) (h : 16 ≤ b.length) :
    ∃ md, sevMetadataFromBytes b = .ok md ∧ md.length < 2 ^ 32 ∧ md.sections < 2 ^ 32 := by
  unfold sevMetadataFromBytes
  obtain ⟨r0, h0⟩ := slice_in_range "abi.SevMetadataFromBytes#0:slice" b 0 4 (by omega)
  obtain ⟨r1, h1⟩ := slice_in_range "abi.SevMetadataFromBytes#1:slice" b 4 8 (by omega)
  obtain ⟨r2, h2⟩ := slice_in_range "abi.SevMetadataFromBytes#2:slice" b 8 12 (by omega)
  obtain ⟨r3, h3⟩ := slice_in_range "abi.SevMetadataFromBytes#3:slice" b 12 16 (by omega)
  have hl1 := slice_ok_length h1
  have hl3 := slice_ok_length h3
  rw [h0, h1, h2, h3]
  refine ⟨_, rfl, ?_, ?_⟩
  · have := leVal_lt r1
    have h4 : r1.length = 4 := by omega
    rw [h4] at this; exact this
  · have := leVal_lt r3
    have h4 : r3.length = 4 := by omega
    rw [h4] at this; exact this

theorem sevMetadataSectionFromBytes_total (b : Bytes) (h : 12 ≤ b.length) :
    ∃ s, sevMetadataSectionFromBytes b = .ok s ∧ s.address < 2 ^ 32 ∧ s.length < 2 ^ 32 ∧ s.kind < 2 ^ 32 := by
  unfold sevMetadataSectionFromBytes
  obtain ⟨r0, h0⟩ := slice_in_range "abi.SevMetadataSectionFromBytes#0:slice" b 0 4 (by omega)
  obtain ⟨r1, h1⟩ := slice_in_range "abi.SevMetadataSectionFromBytes#1:slice" b 4 8 (by omega)
  obtain ⟨r2, h2⟩ := slice_in_range "abi.SevMetadataSectionFromBytes#2:slice" b 8 12 (by omega)
  have hl0 := slice_ok_length h0
  have hl1 := slice_ok_length h1
  have hl2 := slice_ok_length h2
  rw [h0, h1, h2]
  have e0 : r0.length = 4 := by omega
  have e1 : r1.length = 4 := by omega
  have e2 : r2.length = 4 := by omega
  have l0 := leVal_lt r0
  have l1 := leVal_lt r1
  have l2 := leVal_lt r2
  rw [e0] at l0; rw [e1] at l1; rw [e2] at l2
  exact ⟨_, rfl, l0, l1, l2⟩

def SecInRange (s : Sec) : Prop := s.address < 2 ^ 32 ∧ s.length < 2 ^ 32 ∧ s.kind < 2 ^ 32

/-- the descriptor loop stays inside the image when the header checks passed -/
theorem readSections_total (fw : Bytes) (start : Int) (count it : Nat) (h0 : 0 ≤ start)
    (hfit : start + 12 * ((it : Int) + count) ≤ fw.length) :
    ∃ secs, readSections fw start count it = .ok secs ∧ secs.length = count ∧ ∀ s ∈ secs, SecInRange s := by
  induction count generalizing it with
  | zero => exact ⟨[], rfl, rfl, by simp⟩
  | succ k ih =>
    unfold readSections
    obtain ⟨blk, hb⟩ := slice_in_range "ovmf.extractSevOvmfMetadata#1:slice" fw (start + it * 12) fw.length (by omega)
    have hbl := slice_ok_length hb
    rw [hb]
    simp only
    obtain ⟨s, hs, hr⟩ := sevMetadataSectionFromBytes_total blk (by omega)
    rw [hs]
    simp only
    obtain ⟨rest, hrest, hlen, hrr⟩ := ih (it + 1) (by omega)
    rw [hrest]
    refine ⟨s :: rest, rfl, by simp [hlen], ?_⟩
    intro x hx
    rcases List.mem_cons.mp hx with rfl | hx
    · exact hr
    · exact hrr x hx

theorem readSectionsTicks_le (fw : Bytes) (start : Int) (count it : Nat) : readSectionsTicks fw start count it ≤ count := by
  induction count generalizing it with
  | zero => simp [readSectionsTicks]
  | succ k ih =>
    unfold readSectionsTicks
    split
    · split
      · have := ih (it + 1); omega
      · omega
    · omega

theorem sevMetadataHeader_no_panic (m : BlockMap) (fw : Bytes) (p : String) : sevMetadataHeader m fw ≠ .panic p := by
  unfold sevMetadataHeader
  split
  · rename_i blk hblk
    have hl := extractGUIDBlockFromMap_ok hblk
    obtain ⟨mo, hmo, _⟩ := metadataOffsetFromBytes_total blk (by omega)
    rw [hmo]
    simp only
    split
    · simp
    · split
      · simp
      · rename_i h1 h2
        obtain ⟨hb, hhb⟩ := slice_in_range "ovmf.extractSevOvmfMetadata#0:slice" fw ((fw.length : Int) - mo.offset) fw.length (by omega)
        have hbl := slice_ok_length hhb
        rw [hhb]
        simp only
        obtain ⟨md, hmd, _⟩ := sevMetadataFromBytes_total hb (by omega)
        rw [hmd]
        simp only
        split
        · simp
        · split
          · simp
          · split <;> simp
  · simp
  · rename_i s h; exact absurd h (extractGUIDBlockFromMap_no_panic _ _ _ s)

theorem sevMetadataHeader_ok {m : BlockMap} {fw : Bytes} {count : Nat} {start : Int}
    (h : sevMetadataHeader m fw = .ok (count, start)) :
    0 ≤ start ∧ start + 12 * (count : Int) ≤ fw.length ∧ 12 * count + 16 ≤ fw.length := by
  unfold sevMetadataHeader at h
  split at h
  · split at h
    · split at h
      · cases h
      · split at h
        · cases h
        · split at h
          · split at h
            · split at h
              · cases h
              · split at h
                · cases h
                · split at h
                  · cases h
                  · cases h
                    omega
            · cases h
            · cases h
          · cases h
          · cases h
    · cases h
    · cases h
  · cases h
  · cases h

theorem extractSevOvmfMetadata_total (m : BlockMap) (fw : Bytes) :
    (∃ c, extractSevOvmfMetadata m fw = .err c) ∨
    (∃ secs, extractSevOvmfMetadata m fw = .ok secs ∧ 12 * secs.length + 16 ≤ fw.length ∧ ∀ s ∈ secs, SecInRange s) := by
  unfold extractSevOvmfMetadata
  cases hh : sevMetadataHeader m fw with
  | err c => exact Or.inl ⟨c, rfl⟩
  | panic p => exact absurd hh (sevMetadataHeader_no_panic m fw p)
  | ok v =>
    obtain ⟨count, start⟩ := v
    obtain ⟨h0, h1, h2⟩ := sevMetadataHeader_ok hh
    obtain ⟨secs, hs, hl, hr⟩ := readSections_total fw start count 0 h0 (by omega)
    right
    exact ⟨secs, hs, by omega, hr⟩

theorem extractSevOvmfMetadataTicks_le (m : BlockMap) (fw : Bytes) : 12 * extractSevOvmfMetadataTicks m fw ≤ fw.length := by
  unfold extractSevOvmfMetadataTicks
  split
  · rename_i count start hh
    obtain ⟨_, _, h2⟩ := sevMetadataHeader_ok hh
    have := readSectionsTicks_le fw start count 0
    omega
  · omega

/-- go: ExtractFromFirmware with both flags never panics and, when it succeeds, has stored a reset block
    and a descriptor list whose values fit 32 bits and whose length is bounded by the image size. -/
theorem extractFromFirmware_tt (fw : Bytes) :
    (∃ c, extractFromFirmware true true fw = .err c) ∨
    (∃ rb secs, extractFromFirmware true true fw = .ok (some rb, some secs) ∧ 12 * secs.length + 16 ≤ fw.length ∧
      ∀ s ∈ secs, SecInRange s) := by
  unfold extractFromFirmware
  simp only [Bool.not_true, Bool.false_eq_true, if_false, if_true]
  cases hm : getFwGUIDToBlockMap fw with
  | err c => exact Or.inl ⟨c, rfl⟩
  | panic p => exact absurd hm (getFwGUIDToBlockMap_no_panic fw p)
  | ok m =>
    simp only
    cases hr : extractSevEsResetBlock m with
    | err c => exact Or.inl ⟨c, rfl⟩
    | panic p => exact absurd hr (extractSevEsResetBlock_no_panic m p)
    | ok rb =>
      simp only
      rcases extractSevOvmfMetadata_total m fw with ⟨c, hc⟩ | ⟨secs, hs, hl, hrr⟩
      · rw [hc]; exact Or.inl ⟨c, rfl⟩
      · rw [hs]; exact Or.inr ⟨rb, secs, rfl, hl, hrr⟩

theorem extractFromFirmware_no_panic (es snp : Bool) (fw : Bytes) (p : String) : extractFromFirmware es snp fw ≠ .panic p := by
  unfold extractFromFirmware
  split
  · split <;> simp
  · cases hm : getFwGUIDToBlockMap fw with
    | err c => simp
    | panic q => exact absurd hm (getFwGUIDToBlockMap_no_panic fw q)
    | ok m =>
      simp only
      cases hr : extractSevEsResetBlock m with
      | err c => simp
      | panic q => exact absurd hr (extractSevEsResetBlock_no_panic m q)
      | ok rb =>
        simp only
        split
        · rcases extractSevOvmfMetadata_total m fw with ⟨c, hc⟩ | ⟨secs, hs, _, _⟩
          · rw [hc]; simp
          · rw [hs]; simp
        · simp

theorem extractFromFirmwareTicks_le (es snp : Bool) (fw : Bytes) :
    extractFromFirmwareTicks es snp fw ≤ fw.length / 18 + 1 + fw.length / 12 := by
  unfold extractFromFirmwareTicks
  have h1 := getFwGUIDToBlockMapTicks_le fw
  split
  · omega
  · cases getFwGUIDToBlockMap fw with
    | err c => simp only; omega
    | panic q => simp only; omega
    | ok m =>
      simp only
      have := extractSevOvmfMetadataTicks_le m fw
      split
      · split <;> omega
      · omega

end GceTcb.Proofs.SnpTotal
