import GceTcb.Model.Reentrancy
import GceTcb.Proofs.Verify
/-
Helper lemmas for C09 (core-only): with empty write lists a step never changes the shared options and
its effect on the thread-local state does not depend on the shared options or the thread id; hence under
any schedule each thread's local state is the state of the same number of steps taken alone.
-/
namespace GceTcb.Reentrancy
open GceTcb GceTcb.Verify

variable {Cert Roots Time : Type}

/-- `iter f k a = f (f (… a))`, k times, unfolding at the outside. -/
def iter {α : Type} (f : α → α) : Nat → α → α
  | 0, a => a
  | k + 1, a => f (iter f k a)

/-- The thread-local effect of a step taken against the initial shared options. -/
def stepL (cfg : Cfg Cert Roots Time) (call : Call) (l : Local) : Local :=
  (step cfg 0 call (initShared cfg) l).2

theorem step_noWrites (cfg : Cfg Cert Roots Time) (hc : cfg.constructorWrites = [])
    (hw : cfg.closureWrites = []) (tid : Nat) (call : Call) (sh : Shared) (l : Local) :
    step cfg tid call sh l = (sh, stepL cfg call l) := by
  unfold stepL step
  cases hp : l.phase with
  | construct k => simp [hc]
  | start =>
    simp only []
    cases call.att with
    | none => simp [finish]
    | some a =>
      simp only []
      split <;> simp [finish]
  | fetch =>
    simp only []
    cases closureSerialized cfg.P cfg.familyID cfg.opts l.m call.serialized with
    | error c => simp [finish]
    | ok s => simp
  | store k => simp [hw]
  | verify =>
    simp only []
    split
    · simp [finish]
    · split <;> simp [finish]
  | compare => simp [finish, snpRead, hw]
  | done r => simp

theorem foldl_inv {n : Nat} (cfg : Cfg Cert Roots Time) (hc : cfg.constructorWrites = [])
    (hw : cfg.closureWrites = []) (calls : Fin n → Call) (σ : List (Fin n)) :
    ∀ (s : State n) (c : Fin n → Nat), s.shared = initShared cfg →
      (∀ i, s.locals i = iter (stepL cfg (calls i)) (c i) initLocal) →
      (σ.foldl (stepThread cfg calls) s).shared = initShared cfg ∧
      ∀ i, (σ.foldl (stepThread cfg calls) s).locals i =
        iter (stepL cfg (calls i)) (c i + σ.count i) initLocal := by
  induction σ with
  | nil => intro s c hs hl; exact ⟨hs, by simpa using hl⟩
  | cons j rest ih =>
    intro s c hs hl
    have hstep : stepThread cfg calls s j =
        ⟨s.shared, fun k => if k = j then stepL cfg (calls j) (s.locals j) else s.locals k⟩ := by
      simp only [stepThread, step_noWrites cfg hc hw]
    have := ih (stepThread cfg calls s j) (fun k => c k + if k = j then 1 else 0)
      (by rw [hstep]; exact hs)
      (by
        intro i
        rw [hstep]
        by_cases hij : i = j
        · subst hij
          simp [iter, hl]
        · simp [hij, hl])
    refine ⟨this.1, ?_⟩
    intro i
    have h2 := this.2 i
    simp only [List.foldl_cons]
    rw [h2]
    congr 1
    rw [List.count_cons]
    by_cases hij : i = j
    · subst hij; simp; omega
    · have : (j == i) = false := by simp [Ne.symm hij]
      simp [hij, this]

theorem runSched_shared {n : Nat} (cfg : Cfg Cert Roots Time) (hc : cfg.constructorWrites = [])
    (hw : cfg.closureWrites = []) (calls : Fin n → Call) (σ : List (Fin n)) :
    (runSched cfg calls σ).shared = initShared cfg :=
  (foldl_inv cfg hc hw calls σ (init cfg n) (fun _ => 0) rfl (fun _ => rfl)).1

theorem runSched_locals {n : Nat} (cfg : Cfg Cert Roots Time) (hc : cfg.constructorWrites = [])
    (hw : cfg.closureWrites = []) (calls : Fin n → Call) (σ : List (Fin n)) (i : Fin n) :
    (runSched cfg calls σ).locals i = iter (stepL cfg (calls i)) (σ.count i) initLocal := by
  have := (foldl_inv cfg hc hw calls σ (init cfg n) (fun _ => 0) rfl (fun _ => rfl)).2 i
  simpa [runSched] using this

/-- Progress measure of a thread when there are no stores to perform. -/
def rank : Phase → Nat
  | .construct _ => 6
  | .start => 5
  | .fetch => 4
  | .store _ => 3
  | .verify => 2
  | .compare => 1
  | .done _ => 0

theorem rank_stepL (cfg : Cfg Cert Roots Time) (hc : cfg.constructorWrites = [])
    (hw : cfg.closureWrites = []) (call : Call) (l : Local) :
    rank (stepL cfg call l).phase ≤ rank l.phase - 1 := by
  unfold stepL step
  cases hp : l.phase with
  | construct k => simp [hc, rank]
  | start =>
    simp only []
    cases call.att with
    | none => simp [finish, rank]
    | some a =>
      simp only []
      split <;> simp [finish, rank]
  | fetch =>
    simp only []
    cases closureSerialized cfg.P cfg.familyID cfg.opts l.m call.serialized with
    | error c => simp [finish, rank]
    | ok s => simp [rank]
  | store k => simp [hw, rank]
  | verify =>
    simp only []
    split
    · simp [finish, rank]
    · split <;> simp [finish, rank]
  | compare => simp [finish, rank]
  | done r => simp [rank, hp]

theorem rank_iter (cfg : Cfg Cert Roots Time) (hc : cfg.constructorWrites = [])
    (hw : cfg.closureWrites = []) (call : Call) (l : Local) (k : Nat) :
    rank (iter (stepL cfg call) k l).phase ≤ rank l.phase - k := by
  induction k with
  | zero => simp [iter]
  | succ k ih =>
    have := rank_stepL cfg hc hw call (iter (stepL cfg call) k l)
    simp only [iter]
    omega

theorem done_of_rank_zero (p : Phase) (h : rank p = 0) : ∃ r, p = .done r := by
  cases p <;> simp [rank] at h
  exact ⟨_, rfl⟩

theorem stepL_done (cfg : Cfg Cert Roots Time) (call : Call) (l : Local) (r : Res)
    (h : l.phase = .done r) : stepL cfg call l = l := by
  simp [stepL, step, h]

/-- After six steps alone the invocation is done, and further steps change nothing. -/
theorem iter_stable (cfg : Cfg Cert Roots Time) (hc : cfg.constructorWrites = [])
    (hw : cfg.closureWrites = []) (call : Call) (k : Nat) (hk : 6 ≤ k) :
    iter (stepL cfg call) k initLocal = iter (stepL cfg call) 6 initLocal := by
  have hdone : ∃ r, (iter (stepL cfg call) 6 initLocal).phase = .done r := by
    apply done_of_rank_zero
    have := rank_iter cfg hc hw call initLocal 6
    simp [initLocal, rank] at this
    exact this
  obtain ⟨r, hr⟩ := hdone
  obtain ⟨d, rfl⟩ : ∃ d, k = 6 + d := ⟨k - 6, by omega⟩
  clear hk
  induction d with
  | zero => rfl
  | succ d ih =>
    show stepL cfg call (iter (stepL cfg call) (6 + d) initLocal) = _
    rw [ih]
    exact stepL_done cfg call _ r hr

theorem closureCallOpts_verifySigned (P : Prims Cert Roots Time) (e : Endorsement) (o : Options Roots Time)
    (m : Bytes) : verifySigned P e (closureCallOpts o m) = verifySigned P e o := rfl

theorem afterSignature_congr (g : Golden) (o1 o2 : Options Roots Time) (hs : o1.snp = o2.snp)
    (he : o1.expectedUefiSha384 = o2.expectedUefiSha384) : afterSignature g o1 = afterSignature g o2 := by
  simp only [afterSignature, hs, he]

/-- Six steps alone compute exactly the closure of the C01 model. -/
theorem iter_six_is_closure (cfg : Cfg Cert Roots Time) (hc : cfg.constructorWrites = [])
    (hw : cfg.closureWrites = []) (call : Call) :
    (iter (stepL cfg call) 6 initLocal).result =
      some (snpClosure cfg.P cfg.familyID cfg.opts call.att call.serialized) := by
  simp only [iter, snpClosure]
  -- step 1: construct
  have h1 : stepL cfg call initLocal = { initLocal with phase := .start } := by
    simp [stepL, step, initLocal, hc]
  rw [h1]
  cases hatt : call.att with
  | none =>
    simp [stepL, step, initLocal, hatt, finish, Local.result]
  | some a =>
    by_cases hsz : a.measurement.length != measurementSize
    · simp [stepL, step, initLocal, hatt, finish, Local.result, hsz]
    · have h2 : stepL cfg call { initLocal with phase := .start } =
          { initLocal with phase := .fetch, m := a.measurement } := by
        simp [stepL, step, initLocal, hatt, hsz]
      rw [h2]
      simp only [hsz]
      cases hser : closureSerialized cfg.P cfg.familyID cfg.opts a.measurement call.serialized with
      | error c =>
        simp [stepL, step, initLocal, hser, finish, Local.result]
      | ok s =>
        have h3 : stepL cfg call { initLocal with phase := .fetch, m := a.measurement } =
            { initLocal with phase := .store 0, m := a.measurement, ser := s } := by
          simp [stepL, step, initLocal, hser]
        rw [h3]
        have h4 : stepL cfg call { initLocal with phase := .store 0, m := a.measurement, ser := s } =
            { initLocal with phase := .verify, m := a.measurement, ser := s } := by
          simp [stepL, step, initLocal, hw]
        rw [h4]
        simp only [closureCallOpts_endorsement]
        cases hoe : cfg.opts.endorsement with
        | some e =>
          simp only [endorsementProto, closureCallOpts_verifySigned]
          cases hv : verifySigned cfg.P e cfg.opts with
          | panic x => simp [stepL, step, initLocal, hoe, hv, finish, Local.result]
          | err x => simp [stepL, step, initLocal, hoe, hv, finish, Local.result]
          | ok g =>
            simp [stepL, step, hoe, hv, finish, Local.result, snpRead, hw]
            exact afterSignature_congr _ _ _ rfl rfl
        | none =>
          simp only [endorsement]
          cases hu : cfg.P.unmarshalEndorsement (s.getD []) with
          | none => simp [stepL, step, initLocal, hoe, hu, finish, Local.result]
          | some e =>
            simp only [endorsementProto, closureCallOpts_verifySigned]
            cases hv : verifySigned cfg.P e cfg.opts with
            | panic x => simp [stepL, step, initLocal, hoe, hu, hv, finish, Local.result]
            | err x => simp [stepL, step, initLocal, hoe, hu, hv, finish, Local.result]
            | ok g =>
              simp [stepL, step, hoe, hu, hv, finish, Local.result, snpRead, hw]
              exact afterSignature_congr _ _ _ rfl rfl

/-- The endorsement an invocation with report `a` is checked against: the pre-supplied one, else the
    serialized argument, else the blob fetched for the report's measurement. -/
def usedEndorsement (cfg : Cfg Cert Roots Time) (call : Call) (a : Attestation) : Option Endorsement :=
  match cfg.opts.endorsement with
  | some e => some e
  | none =>
    match closureSerialized cfg.P cfg.familyID cfg.opts a.measurement call.serialized with
    | .ok s => cfg.P.unmarshalEndorsement (s.getD [])
    | .error _ => none

/-- Acceptance by the closure means the report's own measurement passed `verify.SNP` against the golden
    measurement of the endorsement used, for the configured VMSA count. -/
theorem snpClosure_accept_listed (cfg : Cfg Cert Roots Time) (call : Call) (a : Attestation)
    (hatt : call.att = some a)
    (h : snpClosure cfg.P cfg.familyID cfg.opts call.att call.serialized = accept) :
    ∃ e g, usedEndorsement cfg call a = some e ∧ cfg.P.unmarshalGolden e.payload = some g ∧
      snp g ⟨some a.measurement, (cfg.opts.snp.getD ⟨none, 0⟩).expectedLaunchVMSAs⟩ = none := by
  have key : ∀ e, endorsementProto cfg.P e (closureCallOpts cfg.opts a.measurement) = accept →
      ∃ g, cfg.P.unmarshalGolden e.payload = some g ∧
        snp g ⟨some a.measurement, (cfg.opts.snp.getD ⟨none, 0⟩).expectedLaunchVMSAs⟩ = none := by
    intro e he
    simp only [endorsementProto, closureCallOpts_verifySigned] at he
    split at he
    · cases he
    · cases he
    · rename_i g hg
      obtain ⟨hu, _⟩ := verifySigned_ok cfg.P e cfg.opts g hg
      refine ⟨g, hu, ?_⟩
      simp only [afterSignature] at he
      split at he
      · cases he
      · simp only [closureCallOpts] at he
        split at he
        · cases he
        · rename_i hnone; exact hnone
  simp only [snpClosure, hatt] at h
  split at h
  · cases h
  · split at h
    · cases h
    · rename_i s hs
      simp only [closureCallOpts_endorsement] at h
      split at h
      · rename_i e he
        obtain ⟨g, hu, hl⟩ := key e h
        exact ⟨e, g, by simp [usedEndorsement, he], hu, hl⟩
      · rename_i he
        simp only [endorsement] at h
        split at h
        · cases h
        · rename_i e hue
          obtain ⟨g, hu, hl⟩ := key e h
          exact ⟨e, g, by simp [usedEndorsement, he, hs, hue], hu, hl⟩

/-! ### A concrete world for the non-vacuity examples and witnesses of the Props module -/

namespace Example
def endorsedMeasurement : Bytes := List.replicate 48 7
def otherMeasurement : Bytes := List.replicate 48 8

def golden : Golden :=
  { timestamp := some ⟨1725148800, 0⟩, clSpec := 1234, commit := [], cert := [0xC0], digest := [],
    sevSnp := some ⟨[], [(1, endorsedMeasurement)]⟩, tdx := none, other := [] }

def P : Prims Nat String Nat :=
  { unmarshalEndorsement := fun b => if b == [0xE0] then some ⟨[0xA0], [0x5A]⟩ else none
    unmarshalGolden := fun b => if b == [0xA0] then some golden else none
    timeFromNil := none
    parseCert := fun b => if b == [0xC0] then some 1 else none
    verifyChain := fun c r t => c == 1 && r == "roots" && t == 150
    checkSigPss256 := fun c m s => c == 1 && m == [0xA0] && s == [0x5A]
    objectURL := fun f _ => f
    loadRootPool := fun _ => none
    sevPolicyOptions := fun _ _ _ _ => none
    snpBaseChecks := fun _ _ => false
    tdxPolicyOptions := fun _ _ _ _ => none
    tdxQuoteChecks := fun _ _ => false
    tdxExtractEndorsement := fun _ => none }

def opts : Options String Nat :=
  { snp := none, roots := some "roots", expectedUefiSha384 := [], now := 150, endorsement := none, getter := none }

/-- the source before the fix: the constructor allocates opts.SNP, the closure stores the measurement there -/
def oldCfg : Cfg Nat String Nat := ⟨P, gceUefiFamilyID, opts, [snpAlloc], [measurementStore]⟩
/-- the source after the fix -/
def newCfg : Cfg Nat String Nat := ⟨P, gceUefiFamilyID, opts, [], []⟩

/-- thread 0 validates an UNENDORSED report, thread 1 an endorsed one, with the same genuine endorsement -/
def calls : Fin 2 → Call := fun i =>
  if i = 0 then ⟨some ⟨1, otherMeasurement, []⟩, some [0xE0]⟩ else ⟨some ⟨2, endorsedMeasurement, []⟩, some [0xE0]⟩

/-- thread 0 stores its (bad) measurement, thread 1 then stores its (good) one, thread 0 verifies and
    compares — against thread 1's measurement; both then run to completion -/
def badSchedule : List (Fin 2) :=
  [0, 0, 0, 0, 0, 1, 1, 1, 1, 1, 0, 0, 0, 0] ++ List.replicate 9 0 ++ List.replicate 9 1
end Example

end GceTcb.Reentrancy
