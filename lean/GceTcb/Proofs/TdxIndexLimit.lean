import GceTcb.Proofs.TdxGlue
/-
C08 (TDX half) — the int32 TD HOB index: validation does NOT exclude metadata whose TD_HOB section is
preceded by 2^31 section entries (empty temporary-memory sections declare no memory, overlap nothing
and do not count towards any bound that validateTDXMetadataSections checks).  Together with
`parse_panic_iff` this classifies the `|image| < 2^36` / `IndexFits` hypothesis of the no-panic
theorems: it is needed, and it can only fail for an image of 64 GiB or more.  Core-only.
-/
namespace GceTcb.TdxHob
open GceTcb GceTcb.Codec GceTcb.Codecs GceTcb.Intervals GceTcb.TdxMeta

def tmEmpty : TdxSection := ⟨0, 0, 0, 0, 3, 0⟩
def hobSec : TdxSection := ⟨0, 0, 0x809000, 0x1000, 2, 0⟩
def bfvSec : TdxSection := ⟨0, 4096, 0xFFFFF000, 4096, 0, 1⟩

/-- `n` empty temporary-memory sections, then the TD_HOB section, then a 4 KiB boot firmware volume -/
def longSections (n : Nat) : List TdxSection := List.replicate n tmEmpty ++ [hobSec, bfvSec]

def longMd (n : Nat) : TdxMetadata :=
  ⟨⟨tdvfMagic, (16 + 32 * (n + 2)) % 2 ^ 32, 1, n + 2⟩, longSections n⟩

theorem findIdx_long (n : Nat) : (longSections n).findIdx isHob = n := by
  unfold longSections
  induction n with
  | zero => decide
  | succ n ih =>
    rw [List.replicate_succ, List.cons_append, findIdx_isHob_cons, ih]
    have : isHob tmEmpty = false := by decide
    rw [this]; simp

theorem mem_long {n : Nat} {s : TdxSection} (h : s ∈ longSections n) : s = tmEmpty ∨ s = hobSec ∨ s = bfvSec := by
  unfold longSections at h
  rcases List.mem_append.mp h with h | h
  · exact Or.inl (List.eq_of_mem_replicate h)
  · simp only [List.mem_cons, List.not_mem_nil, or_false] at h
    exact Or.inr h

theorem sum_replicate_zero : ∀ n : Nat, (List.replicate n 0).sum = 0
  | 0 => rfl
  | n + 1 => by rw [List.replicate_succ, List.sum_cons, sum_replicate_zero n]

/-- Metadata with any number `n` of empty temporary-memory sections in front of the TD_HOB section is
    valid for a 4 KiB image (as far as validateTDXMetadataSections is concerned: `MetaValid`), its sections are pairwise disjoint and page-aligned —
    and the TD_HOB section sits at index `n`. -/
theorem long_valid (n : Nat) :
    MetaValid 4096 (longMd n) ∧ DisjointL ((longMd n).sections.map gprOf) ∧
    (∀ s ∈ (longMd n).sections, s.memoryBase % 4096 = 0 ∧ s.memorySize % 4096 = 0) ∧
    (longMd n).sections.findIdx isHob = n ∧ (longMd n).sections.length = (longMd n).header.sectionCount := by
  have hcases : ∀ (P : TdxSection → Prop), P tmEmpty → P hobSec → P bfvSec → ∀ s ∈ longSections n, P s := by
    intro P h1 h2 h3 s hs
    rcases mem_long hs with rfl | rfl | rfl <;> assumption
  refine ⟨⟨rfl, rfl, rfl, ?_, ?_, ?_, ⟨bfvSec, ?_, rfl⟩, ?_⟩, ?_, ?_, findIdx_long n, ?_⟩
  · exact hcases _ (by decide) (by decide) (by decide)
  · show memSum (longSections n) ≤ maxInitialMemory
    unfold memSum longSections
    rw [List.map_append, List.sum_append, List.map_replicate]
    have : (List.replicate n tmEmpty.memorySize).sum = 0 := sum_replicate_zero n
    rw [this]; decide
  · show hobCount (longSections n) = 1
    unfold hobCount longSections
    rw [List.countP_append, List.countP_replicate]
    have : isHob tmEmpty = false := by decide
    rw [this]; simp only [Bool.false_eq_true, if_false]; decide
  · unfold longMd longSections; simp
  · show fvSum (longSections n) % 2 ^ 32 = 4096
    unfold fvSum longSections
    rw [List.filter_append, List.filter_replicate]
    have : isFv tmEmpty = false := by decide
    rw [this]; simp only [Bool.false_eq_true, if_false, List.nil_append]; decide
  · show DisjointL ((longSections n).map gprOf)
    unfold longSections DisjointL
    rw [List.map_append, List.map_replicate, List.pairwise_append]
    refine ⟨?_, ?_, ?_⟩
    · apply List.pairwise_replicate.mpr
      right
      intro x hx
      simp only [Gpr.mem, gprOf, tmEmpty] at hx; omega
    · simp only [List.map_cons, List.map_nil, List.pairwise_cons, List.mem_cons, List.not_mem_nil, or_false,
        forall_eq, gprOf, hobSec, bfvSec, Gpr.mem]
      refine ⟨fun x => by omega, ⟨fun _ hf => absurd hf id, List.Pairwise.nil⟩⟩
    · intro a ha b _ x hx
      rw [List.eq_of_mem_replicate ha] at hx
      simp only [Gpr.mem, gprOf, tmEmpty] at hx; omega
  · exact hcases _ (by decide) (by decide) (by decide)
  · show (longSections n).length = n + 2
    unfold longSections; simp

/-- … in particular with 2^31 entries in front of the TD_HOB section (a descriptor of 64 GiB + 80 bytes). -/
theorem index_limit_consistent :
    ∃ md : TdxMetadata, MetaValid 4096 md ∧ DisjointL (md.sections.map gprOf) ∧
      2 ^ 31 ≤ md.sections.findIdx isHob ∧ md.sections.length = md.header.sectionCount ∧
      md.header.sectionCount < 2 ^ 32 :=
  ⟨longMd (2 ^ 31), (long_valid _).1, (long_valid _).2.1,
    by rw [(long_valid _).2.2.2.1]; exact Nat.le_refl _, (long_valid _).2.2.2.2, by decide⟩

end GceTcb.TdxHob
