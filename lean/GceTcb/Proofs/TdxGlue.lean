import GceTcb.Proofs.TdxValid
import GceTcb.Proofs.TdxCompose
import GceTcb.Proofs.TdxHob
/-
C05 — the gluing step: the regions returned by tdxFwParser.parse are the declared metadata sections in
declared order (firmware volumes: `image[DataOffset, +size)`; TD_HOB: the generated hand-off block;
temporary memory: zero-filled when everything is measured, no buffer otherwise), and parse succeeds
exactly when the metadata is valid, the sections do not overlap and the hand-off block fits.  Core-only.
-/
namespace GceTcb.TdxHob
open GceTcb GceTcb.Codec GceTcb.Codecs GceTcb.Intervals GceTcb.TdxMeta

/-! ### overlap check -/

/-- ovmf.GuestPhysicalRegion.intersect on ranges that do not wrap: empty exactly when no address is in both -/
theorem intersect_len_zero_iff (a b : Gpr) (ha : a.start + a.len < 2 ^ 64) (hb : b.start + b.len < 2 ^ 64) :
    (intersect a b).len = 0 ↔ ∀ x, ¬ (a.mem x ∧ b.mem x) := by
  have ea := end_of_lt ha
  have eb := end_of_lt hb
  have sa : a.start % 2 ^ 64 = a.start := Nat.mod_eq_of_lt (by omega)
  have sb : b.start % 2 ^ 64 = b.start := Nat.mod_eq_of_lt (by omega)
  unfold intersect
  rw [ea, eb, sa, sb]
  unfold Gpr.mem
  constructor
  · intro h x hx
    split at h
    · omega
    · split at h
      · omega
      · simp only [] at h; omega
  · intro h
    split
    · rfl
    · split
      · rfl
      · exfalso
        exact h (max a.start b.start) (by omega)

/-- the memory range a section declares -/
def gprOf (s : TdxSection) : Gpr := ⟨s.memoryBase, s.memorySize⟩
/-- go: `attributes |= abi.TDXMetadataAttributeExtendMR` when MeasureAllRegions -/
def attrsOf (ma : Bool) (s : TdxSection) : Nat := if ma then s.attributes ||| 1 else s.attributes
/-- the host buffer the section loop of parse attaches to a section (fvExtend / zeroExtend) -/
def bufOf (ma : Bool) (fw : Bytes) (s : TdxSection) : HostBuf :=
  if s.sectionType = 0 ∨ s.sectionType = 1 then ⟨sliceOf fw s.dataOffset (s.dataOffset + s.dataSize), 0⟩
  else ⟨[], if ma then s.memorySize else 0⟩
/-- the region the section loop of parse appends for a section -/
def regionOf (ma : Bool) (fw : Bytes) (s : TdxSection) : Region := ⟨gprOf s, bufOf ma fw s, attrsOf ma s⟩

/-- validateMetadataSectionGpr passes: the new range meets none of the earlier ones -/
def NoIsect (prev : List Gpr) (g : Gpr) : Prop := ∀ p ∈ prev, (intersect p g).len = 0

theorem validateGpr_iff (regions : List Region) (g : Gpr) :
    validateMetadataSectionGpr regions g = .ok () ↔ NoIsect (regions.map (·.gpr)) g := by
  unfold validateMetadataSectionGpr NoIsect
  by_cases h : regions.any (fun r => (intersect r.gpr g).len ≠ 0) = true
  · rw [if_pos h]
    constructor
    · intro hc; cases hc
    · intro hn
      obtain ⟨r, hr, hne⟩ := List.any_eq_true.mp h
      have := hn r.gpr (List.mem_map.mpr ⟨r, hr, rfl⟩)
      simp [this] at hne
  · rw [if_neg h]
    refine ⟨fun _ => ?_, fun _ => rfl⟩
    intro p hp
    obtain ⟨r, hr, rfl⟩ := List.mem_map.mp hp
    cases hz : decide ((intersect r.gpr g).len = 0) with
    | true => simpa using hz
    | false =>
      exfalso; apply h
      exact List.any_eq_true.mpr ⟨r, hr, by simpa using hz⟩

theorem validateGpr_cases (regions : List Region) (g : Gpr) :
    validateMetadataSectionGpr regions g = .ok () ∨ validateMetadataSectionGpr regions g = .err "overlap" := by
  unfold validateMetadataSectionGpr; split <;> simp

/-- One iteration of the section loop on a validated section: it fails exactly on an overlap and
    otherwise appends `regionOf`. -/
theorem parseStep_spec (ma : Bool) (fw : Bytes) (s : TdxSection) (st : PState)
    (hs : SecOK (fw.length % 2 ^ 32) s) :
    (∀ st', parseStep ma fw s st = .ok st' →
      NoIsect (st.regions.map (·.gpr)) (gprOf s) ∧ st'.regions = st.regions ++ [regionOf ma fw s] ∧
      st'.priv = st.priv ++ [gprOf s] ∧ st'.index = st.index + 1 ∧
      st'.hobIndex = if s.sectionType = 2 then some st.index else st.hobIndex) ∧
    (NoIsect (st.regions.map (·.gpr)) (gprOf s) → ∃ st', parseStep ma fw s st = .ok st') := by
  obtain ⟨s1, s2, s3, s4⟩ := hs
  have hiff := validateGpr_iff st.regions (gprOf s)
  unfold parseStep
  simp only []
  rcases validateGpr_cases st.regions (gprOf s) with hv | hv
  · have hn := hiff.mp hv
    have hv' : validateMetadataSectionGpr st.regions ⟨s.memoryBase, s.memorySize⟩ = .ok () := hv
    rw [hv']
    simp only []
    by_cases t2 : s.sectionType = 2
    · simp only [t2, if_true]
      refine ⟨?_, fun _ => ⟨_, rfl⟩⟩
      intro st' h; injection h with h; subst h
      refine ⟨hn, ?_, rfl, rfl, rfl⟩
      simp [regionOf, bufOf, attrsOf, gprOf, t2]
    · simp only [t2, if_false]
      by_cases t3 : s.sectionType = 3
      · simp only [t3, if_true]
        refine ⟨?_, fun _ => ⟨_, rfl⟩⟩
        intro st' h; injection h with h; subst h
        refine ⟨hn, ?_, rfl, rfl, rfl⟩
        simp [regionOf, bufOf, attrsOf, gprOf, t3]
      · simp only [t3, if_false]
        have t01 : s.sectionType = 0 ∨ s.sectionType = 1 := by omega
        obtain ⟨f1, f2, f3⟩ := s4 t01
        simp only [t01, if_true]
        have hmod : (s.dataOffset + s.memorySize % 2 ^ 32) % 2 ^ 32 = s.dataOffset + s.dataSize := by
          have : fw.length % 2 ^ 32 < 2 ^ 32 := Nat.mod_lt _ (by decide)
          rw [f1]; omega
        have hle : fw.length % 2 ^ 32 ≤ fw.length := Nat.mod_le _ _
        rw [hmod, goSlice_ok _ _ _ _ (by omega)]
        refine ⟨?_, fun _ => ⟨_, rfl⟩⟩
        intro st' h; injection h with h; subst h
        refine ⟨hn, ?_, rfl, rfl, rfl⟩
        simp [regionOf, bufOf, attrsOf, gprOf, t01]
  · have hv' : validateMetadataSectionGpr st.regions ⟨s.memoryBase, s.memorySize⟩ = .err "overlap" := hv
    rw [hv']
    simp only []
    refine ⟨(fun st' h => by cases h), fun hn => ?_⟩
    have := hiff.mpr hn
    rw [hv] at this; cases this

/-- the overlap checks of the whole loop: each section against everything before it -/
def ChainOK : List Gpr → List TdxSection → Prop
  | _, [] => True
  | prev, s :: ss => NoIsect prev (gprOf s) ∧ ChainOK (prev ++ [gprOf s]) ss

theorem chainOK_iff : ∀ (ss : List TdxSection) (prev : List Gpr),
    ChainOK prev ss ↔ (∀ s ∈ ss, NoIsect prev (gprOf s)) ∧
      (ss.map gprOf).Pairwise (fun a b => (intersect a b).len = 0) := by
  intro ss
  induction ss with
  | nil => intro prev; simp [ChainOK]
  | cons s ss ih =>
    intro prev
    simp only [ChainOK, ih, List.mem_cons, forall_eq_or_imp, List.map_cons, List.pairwise_cons, NoIsect,
      List.mem_append, List.not_mem_nil, or_false, List.mem_map]
    constructor
    · rintro ⟨h1, h2, h3⟩
      refine ⟨⟨h1, fun x hx p hp => h2 x hx p (Or.inl hp)⟩, ?_, h3⟩
      rintro g ⟨x, hx, rfl⟩
      exact h2 x hx _ (Or.inr rfl)
    · rintro ⟨⟨h1, h2⟩, h3, h4⟩
      refine ⟨h1, ?_, h4⟩
      intro x hx p hp
      rcases hp with hp | rfl
      · exact h2 x hx p hp
      · exact h3 _ ⟨x, hx, rfl⟩

/-- On validated sections the overlap checks of the loop say: the declared ranges are pairwise disjoint. -/
theorem chainOK_nil_iff (fwLen : Nat) (ss : List TdxSection) (hs : ∀ s ∈ ss, SecOK fwLen s) :
    ChainOK [] ss ↔ DisjointL (ss.map gprOf) := by
  rw [chainOK_iff]
  have hr : ∀ g ∈ ss.map gprOf, g.start + g.len < 2 ^ 64 := by
    intro g hg
    obtain ⟨s, hs', rfl⟩ := List.mem_map.mp hg
    have := (hs s hs').2.1
    simp only [gprOf]; omega
  unfold DisjointL
  constructor
  · rintro ⟨_, h⟩
    exact h.imp_of_mem (fun ha hb hab => (intersect_len_zero_iff _ _ (hr _ ha) (hr _ hb)).mp hab)
  · intro h
    refine ⟨(fun s _ p hp => by cases hp), ?_⟩
    exact h.imp_of_mem (fun ha hb hab => (intersect_len_zero_iff _ _ (hr _ ha) (hr _ hb)).mpr hab)

theorem findIdx_isHob_cons (s : TdxSection) (ss : List TdxSection) :
    (s :: ss).findIdx isHob = if isHob s then 0 else ss.findIdx isHob + 1 := by
  rw [List.findIdx_cons]; cases isHob s <;> rfl

/-- The section loop of parse on validated sections: it succeeds exactly when no section overlaps an
    earlier one, and then the regions are the sections in declared order, the private ranges are their
    memory ranges in declared order and the TD HOB index is the position of the TD_HOB section. -/
theorem parseLoop_spec (ma : Bool) (fw : Bytes) : ∀ (ss : List TdxSection) (st : PState),
    (∀ s ∈ ss, SecOK (fw.length % 2 ^ 32) s) →
    (∀ st', parseLoop ma fw ss st = .ok st' →
      ChainOK (st.regions.map (·.gpr)) ss ∧ st'.regions = st.regions ++ ss.map (regionOf ma fw) ∧
      st'.priv = st.priv ++ ss.map gprOf ∧ st'.index = st.index + ss.length ∧
      (hobCount ss = 0 → st'.hobIndex = st.hobIndex) ∧
      (hobCount ss = 1 → st'.hobIndex = some (st.index + ss.findIdx isHob))) ∧
    (ChainOK (st.regions.map (·.gpr)) ss → ∃ st', parseLoop ma fw ss st = .ok st') := by
  intro ss
  induction ss with
  | nil =>
    intro st _
    refine ⟨?_, fun _ => ⟨st, rfl⟩⟩
    intro st' h
    simp only [parseLoop] at h
    injection h with h; subst h
    simp [ChainOK, hobCount]
  | cons s ss ih =>
    intro st hs
    obtain ⟨p1, p2⟩ := parseStep_spec ma fw s st (hs s (List.mem_cons_self ..))
    have hss : ∀ x ∈ ss, SecOK (fw.length % 2 ^ 32) x := fun x hx => hs x (List.mem_cons_of_mem _ hx)
    unfold parseLoop
    constructor
    · intro st' h
      cases hst : parseStep ma fw s st with
      | err c => rw [hst] at h; cases h
      | panic p => rw [hst] at h; cases h
      | ok st1 =>
        rw [hst] at h; simp only [] at h
        obtain ⟨a1, a2, a3, a4, a5⟩ := p1 st1 hst
        obtain ⟨b1, b2, b3, b4, b5, b6⟩ := (ih st1 hss).1 st' h
        have hmap : st1.regions.map (·.gpr) = st.regions.map (·.gpr) ++ [gprOf s] := by
          rw [a2]; simp [regionOf]
        rw [hmap] at b1
        have hiff : isHob s = true ↔ s.sectionType = 2 := by simp [isHob]
        refine ⟨⟨a1, b1⟩, by rw [b2, a2]; simp, by rw [b3, a3]; simp, by rw [b4, a4]; simp; omega, ?_, ?_⟩
        · intro hc
          rw [hobCount_cons] at hc
          have hn : isHob s = false := by cases h' : isHob s <;> simp_all
          have h2 : ¬ s.sectionType = 2 := fun t => by rw [hiff.mpr t] at hn; cases hn
          rw [b5 (by simp [hn] at hc; exact hc), a5, if_neg h2]
        · intro hc
          rw [hobCount_cons] at hc
          rw [findIdx_isHob_cons]
          cases h' : isHob s with
          | true =>
            have h2 : s.sectionType = 2 := hiff.mp h'
            rw [b5 (by simp [h'] at hc; exact hc), a5, if_pos h2]; simp
          | false =>
            have h2 : ¬ s.sectionType = 2 := fun t => by rw [hiff.mpr t] at h'; cases h'
            rw [b6 (by simp [h'] at hc; exact hc), a4]
            simp; omega
    · rintro ⟨c1, c2⟩
      obtain ⟨st1, hst⟩ := p2 c1
      rw [hst]; simp only []
      obtain ⟨a1, a2, a3, a4, a5⟩ := p1 st1 hst
      have hmap : st1.regions.map (·.gpr) = st.regions.map (·.gpr) ++ [gprOf s] := by
        rw [a2]; simp [regionOf]
      exact (ih st1 hss).2 (by rw [hmap]; exact c2)

/-! ### the TD_HOB section and the final region list -/

theorem hobCount_zero {ss : List TdxSection} (h : hobCount ss = 0) : ∀ s ∈ ss, isHob s = false := by
  intro s hs
  have := (List.countP_eq_zero.mp h) s hs
  cases hh : isHob s <;> simp_all

/-- With exactly one TD_HOB section `h`: it is the one `find?` returns, it sits at `findIdx`, and writing
    the hand-off buffer at that index is the same as giving it to the section of type TD_HOB. -/
theorem hob_unique : ∀ (ss : List TdxSection), hobCount ss = 1 →
    ∃ h, ss.find? isHob = some h ∧ h ∈ ss ∧ isHob h = true ∧ (∀ s ∈ ss, isHob s = true → s = h) ∧
      ss.findIdx isHob < ss.length ∧
      ∀ (f : TdxSection → Region) (b : HostBuf), (ss.map f)[ss.findIdx isHob]? = some (f h) ∧
        setBuf (ss.map f) (ss.findIdx isHob) b = ss.map (fun s => if isHob s then { f s with buf := b } else f s) := by
  intro ss
  induction ss with
  | nil => intro h; simp [hobCount] at h
  | cons x ss ih =>
    intro hc
    rw [hobCount_cons] at hc
    cases hx : isHob x with
    | true =>
      rw [hx] at hc
      have h0 := hobCount_zero (ss := ss) (by simp at hc; exact hc)
      refine ⟨x, by simp [hx], List.mem_cons_self .., hx, ?_, by rw [findIdx_isHob_cons, hx]; simp, ?_⟩
      · intro s hs hh
        rcases List.mem_cons.mp hs with rfl | hs
        · rfl
        · rw [h0 s hs] at hh; cases hh
      · intro f b
        rw [findIdx_isHob_cons, hx]
        simp only [List.map_cons, List.getElem?_cons_zero, setBuf, true_and, hx, ↓reduceIte]
        congr 1
        apply List.map_congr_left
        intro s hs
        rw [h0 s hs]; simp
    | false =>
      rw [hx] at hc
      obtain ⟨h, e1, e2, e3, e4, e5, e6⟩ := ih (by simp at hc; exact hc)
      refine ⟨h, by simp [hx, e1], List.mem_cons_of_mem _ e2, e3, ?_, by rw [findIdx_isHob_cons, hx]; simp only [Bool.false_eq_true, if_false, List.length_cons]; omega, ?_⟩
      · intro s hs hh
        rcases List.mem_cons.mp hs with rfl | hs
        · rw [hx] at hh; cases hh
        · exact e4 s hs hh
      · intro f b
        obtain ⟨g1, g2⟩ := e6 f b
        rw [findIdx_isHob_cons, hx]
        simp only [Bool.false_eq_true, List.map_cons, List.getElem?_cons_succ, setBuf, g1, g2, true_and, hx, ↓reduceIte]

/-- the region parse returns for a section, given the hand-off buffer `b` -/
def finalRegion (ma : Bool) (fw : Bytes) (b : HostBuf) (s : TdxSection) : Region :=
  if isHob s then { regionOf ma fw s with buf := b } else regionOf ma fw s

/-- **Gluing lemma.**  tdxFwParser.parse returns `regions` exactly when the image carries metadata that
    passes validation, whose sections are pairwise disjoint, whose TD_HOB section is among the first
    2^31 entries (its index is kept in an int32) and the generated hand-off block fits that (unique)
    TD_HOB section `h`; the regions are then the declared sections in declared order: range and
    attributes of the section, buffer `image[DataOffset, +size)` for firmware volumes, the hand-off block
    for `h`, zeros (measure-all) or no buffer (default) for temporary memory.  The private ranges handed
    to unacceptedMemRanges and getTDHOBList are the declared ranges in declared order.  No hypothesis
    on the image size. -/
theorem parse_iff (o : ParserOpts) (fw : Bytes) (banks : List Gpr) (regions : List Region) :
    parse o fw banks = .ok regions ↔
      ∃ md h b, extractTDXMetadata fw = .ok md ∧ DisjointL (md.sections.map gprOf) ∧
        md.sections.find? isHob = some h ∧ md.sections.findIdx isHob < 2 ^ 31 ∧
        getTDHOBList (gprOf h) (md.sections.map gprOf) (unacceptedMemRanges (md.sections.map gprOf) banks)
          o.disableEarlyAccept = .ok b ∧
        regions = md.sections.map (finalRegion o.measureAll fw b) := by
  constructor
  · intro h
    obtain ⟨md, st, i, r, b, hmd, hp, hh, hi31, hr, hg, hreg⟩ := parse_ok o fw banks regions h
    obtain ⟨hv, _, _⟩ := extract_ok fw md hmd
    have hmv := ((extract_iff_valid fw md).mp hmd).2
    obtain ⟨c1, c2, c3, c4, _, c6⟩ := (parseLoop_spec o.measureAll fw md.sections {} hv.secs).1 st hp
    have hr0 : ({} : PState).regions = [] := rfl
    have hp0 : ({} : PState).priv = [] := rfl
    have hi0 : ({} : PState).index = 0 := rfl
    rw [hr0] at c1 c2; rw [hp0] at c3; rw [hi0] at c6
    simp only [List.map_nil, List.nil_append, Nat.zero_add] at c1 c2 c3 c6
    obtain ⟨hs, e1, e2, e3, e4, e5, e6⟩ := hob_unique md.sections hmv.oneHob
    obtain ⟨g1, g2⟩ := e6 (regionOf o.measureAll fw) b
    have hi : i = md.sections.findIdx isHob := by
      have := c6 hmv.oneHob; rw [hh] at this; injection this
    subst hi
    rw [c2, g1] at hr
    injection hr with hr
    subst hr
    rw [c3] at hg
    refine ⟨md, hs, b, hmd, (chainOK_nil_iff _ _ hv.secs).mp c1, e1, hi31, hg, ?_⟩
    rw [hreg, c2, g2]; rfl
  · rintro ⟨md, hs, b, hmd, hd, e1, hi31, hg, hreg⟩
    obtain ⟨hv, hlen, _⟩ := extract_ok fw md hmd
    have hmv := ((extract_iff_valid fw md).mp hmd).2
    have hr0 : ({} : PState).regions = [] := rfl
    have hp0 : ({} : PState).priv = [] := rfl
    have hi0 : ({} : PState).index = 0 := rfl
    obtain ⟨q1, q2⟩ := parseLoop_spec o.measureAll fw md.sections {} hv.secs
    obtain ⟨st, hp⟩ := q2 (by rw [hr0]; exact (chainOK_nil_iff _ _ hv.secs).mpr hd)
    obtain ⟨c1, c2, c3, c4, _, c6⟩ := q1 st hp
    rw [hr0] at c2; rw [hp0] at c3; rw [hi0] at c6
    simp only [List.nil_append, Nat.zero_add] at c2 c3 c6
    obtain ⟨hs', e1', e2, e3, e4, e5, e6⟩ := hob_unique md.sections hmv.oneHob
    rw [e1] at e1'; injection e1' with e1'; subst e1'
    obtain ⟨g1, g2⟩ := e6 (regionOf o.measureAll fw) b
    have hidx := c6 hmv.oneHob
    have hlt : md.sections.findIdx isHob % 2 ^ 32 = md.sections.findIdx isHob := Nat.mod_eq_of_lt (by omega)
    unfold parse
    rw [hmd]; simp only []
    rw [hp]; simp only []
    rw [hidx]; simp only []
    rw [hlt, if_neg (by omega), c2, g1]; simp only []
    have : (regionOf o.measureAll fw hs).gpr = gprOf hs := rfl
    rw [this, c3, hg]; simp only []
    rw [g2, hreg]; rfl

/-- **When tdxFwParser.parse panics** — exactly: the image carries metadata that passes validation,
    with pairwise disjoint sections, whose TD_HOB section is preceded by 2^31 or more entries: then
    `int32(index)` is negative and `p.Regions[tdHOBregionIndex.Value]` is out of range.  (32 bytes per
    entry: such an image has at least 64 GiB, and the overlap loop runs 2^61 times before the
    conversion is reached.) -/
theorem parse_panic_iff (o : ParserOpts) (fw : Bytes) (banks : List Gpr) :
    (parse o fw banks).isPanic = true ↔
      ∃ md, extractTDXMetadata fw = .ok md ∧ DisjointL (md.sections.map gprOf) ∧
        2 ^ 31 ≤ md.sections.findIdx isHob := by
  unfold parse
  have he := extract_no_panic fw
  cases hmd : extractTDXMetadata fw with
  | panic p => rw [hmd] at he; simp [Outcome.isPanic] at he
  | err c => simp [Outcome.isPanic]
  | ok md =>
    simp only []
    obtain ⟨hv, hlen, _⟩ := extract_ok fw md hmd
    have hcount := extract_count fw md hmd
    have hmv := ((extract_iff_valid fw md).mp hmd).2
    have hr0 : ({} : PState).regions = [] := rfl
    have hi0 : ({} : PState).index = 0 := rfl
    obtain ⟨p1, p2⟩ := parseLoop_ok o.measureAll fw md.sections {} hv.secs pinv_init
    obtain ⟨q1, q2⟩ := parseLoop_spec o.measureAll fw md.sections {} hv.secs
    obtain ⟨hs, e1, e2, e3, e4, e5, e6⟩ := hob_unique md.sections hmv.oneHob
    have hex : (∃ md', Outcome.ok md = Outcome.ok md' ∧ DisjointL (md'.sections.map gprOf) ∧
        2 ^ 31 ≤ md'.sections.findIdx isHob) ↔
        (DisjointL (md.sections.map gprOf) ∧ 2 ^ 31 ≤ md.sections.findIdx isHob) := by
      constructor
      · rintro ⟨md', h, h'⟩; injection h with h; subst h; exact h'
      · intro h'; exact ⟨md, rfl, h'⟩
    rw [hex]
    cases hp : parseLoop o.measureAll fw md.sections {} with
    | panic p => rw [hp] at p1; simp [Outcome.isPanic] at p1
    | err c =>
      simp only [Outcome.isPanic]
      refine ⟨(fun h => by cases h), ?_⟩
      rintro ⟨hd, _⟩
      obtain ⟨st, hst⟩ := q2 (by rw [hr0]; exact (chainOK_nil_iff _ _ hv.secs).mpr hd)
      rw [hp] at hst; cases hst
    | ok st =>
      simp only []
      obtain ⟨c1, c2, c3, c4, _, c6⟩ := q1 st hp
      rw [hr0] at c1 c2; rw [hi0] at c6
      simp only [List.map_nil, List.nil_append, Nat.zero_add] at c1 c2 c6
      have hd := (chainOK_nil_iff _ _ hv.secs).mp c1
      rw [c6 hmv.oneHob]
      simp only []
      have hlt : md.sections.findIdx isHob % 2 ^ 32 = md.sections.findIdx isHob := Nat.mod_eq_of_lt (by omega)
      rw [hlt]
      by_cases h31 : md.sections.findIdx isHob ≥ 2 ^ 31
      · rw [if_pos h31]
        simp only [Outcome.isPanic]
        exact ⟨fun _ => ⟨hd, h31⟩, fun _ => trivial⟩
      · rw [if_neg h31]
        obtain ⟨g1, _⟩ := e6 (regionOf o.measureAll fw) ⟨[], 0⟩
        rw [c2, g1]
        simp only []
        have hsz := (hv.secs hs e2).1
        have hmax : maxInitialMemory < 2 ^ 63 := by decide
        have hg := getTDHOBList_no_panic (regionOf o.measureAll fw hs).gpr st.priv
          (unacceptedMemRanges st.priv banks) o.disableEarlyAccept (by simp only [regionOf, gprOf]; omega)
        cases hgl : getTDHOBList (regionOf o.measureAll fw hs).gpr st.priv (unacceptedMemRanges st.priv banks)
            o.disableEarlyAccept with
        | panic p => rw [hgl] at hg; simp [Outcome.isPanic] at hg
        | err c => simp only [Outcome.isPanic]; exact ⟨(fun h => by cases h), fun h => absurd h.2 h31⟩
        | ok b => simp only [Outcome.isPanic]; exact ⟨(fun h => by cases h), fun h => absurd h.2 h31⟩

/-- The int32 index fits: the TD_HOB section of accepted metadata is among the first 2^31 entries.
    Weaker than any bound on the image size (`indexFits_of_small`). -/
def IndexFits (fw : Bytes) : Prop :=
  ∀ md, extractTDXMetadata fw = .ok md → md.sections.findIdx isHob < 2 ^ 31

theorem indexFits_of_small (fw : Bytes) (hfw : fw.length < 2 ^ 36) : IndexFits fw := by
  intro md hmd
  obtain ⟨_, hlen, _⟩ := extract_ok fw md hmd
  have := List.findIdx_le_length (p := isHob) (xs := md.sections)
  omega

theorem parse_no_panic_of_index (o : ParserOpts) (fw : Bytes) (banks : List Gpr) (h : IndexFits fw) :
    ¬ (parse o fw banks).isPanic := by
  intro hp
  obtain ⟨md, hmd, _, h31⟩ := (parse_panic_iff o fw banks).mp hp
  have := h md hmd
  omega

end GceTcb.TdxHob

namespace GceTcb.Mrtd
open GceTcb GceTcb.Intervals GceTcb.TdxMeta GceTcb.TdxHob

theorem mrtd_no_panic_of_index (H : Bytes → Bytes) (o : LaunchOptions) (fw : Bytes) (h : IndexFits fw) :
    ¬ (mrtd H o fw).isPanic := by
  have hr : ¬ (mrtdRegions o fw).isPanic := by
    unfold mrtdRegions extractNoUnacceptedMemory extractTDHOBBug extractDefault
    split
    · exact parse_no_panic_of_index _ fw _ h
    · split
      · exact parse_no_panic_of_index _ fw _ h
      · exact parse_no_panic_of_index _ fw _ h
  have hs : ¬ (mrtdStream o fw).isPanic := by
    unfold mrtdStream
    cases hc : mrtdRegions o fw with
    | ok regions => exact initAll_no_panic _ regions
    | err c => simp [Outcome.isPanic]
    | panic p => rw [hc] at hr; simp [Outcome.isPanic] at hr
  unfold mrtd
  cases hc : mrtdStream o fw with
  | ok s => simp [Outcome.isPanic]
  | err c => simp [Outcome.isPanic]
  | panic p => rw [hc] at hs; simp [Outcome.isPanic] at hs

end GceTcb.Mrtd
