import GceTcb.Proofs.SnpDigest
/-
C08 (SEV half) — sev.LaunchDigest / sev.UnsignedSnp never panic, for every hash function, every launch
option (any vCPU count, any product value) and every byte string; explicit bounds on the loop
iterations and on the allocation account.  Core only.
-/
namespace GceTcb.Proofs.SnpBounds
open GceTcb GceTcb.Codec GceTcb.GuidTable GceTcb.SevMeta GceTcb.SevLd
open GceTcb.Codecs (ResetBlock zeros)
open GceTcb.Proofs.SnpSections (Sec validateSections_no_panic)
open GceTcb.Proofs.SnpChain
open GceTcb.Proofs.SnpDigest (CfgIsSpec)
open GceTcb.Proofs.SnpVmsa (bspVmsa apVmsa putVmsa_bsp putVmsa_ap)

theorem updatePages_no_panic (H : Bytes → Bytes) (pt gpa : Nat) (data : Bytes) (k off : Nat) (d : Bytes)
    (hfit : off + 4096 * k ≤ data.length) (p : String) : updatePages H pt gpa data k off d ≠ .panic p := by
  induction k generalizing off d with
  | zero => simp [updatePages]
  | succ k ih =>
    have hs : slice "sev.SnpMeasurement.Update#0:slice" data (off : Int) ((off : Int) + 4096)
        = .ok ((data.drop off).take 4096) := by
      have := slice_nat "sev.SnpMeasurement.Update#0:slice" data off (off + 4096) (by omega)
      simpa using this
    rw [updatePages, hs]
    exact ih (off + 4096) _ (by omega)

/-- go: SnpMeasurement.Update never panics: the alignment check makes the page loop fit the data -/
theorem update_no_panic (H : Bytes → Bytes) (high : Nat) (d : Bytes) (gpa : Nat) (data : Bytes) (pt : Nat) (p : String) :
    update H high d gpa data pt ≠ .panic p := by
  unfold update
  cases hc : checkAlign high gpa (data.length % 2 ^ 32) with
  | some c => simp
  | none =>
    simp only
    have hal : data.length % 4096 = 0 := by
      unfold checkAlign at hc
      split at hc; · cases hc
      split at hc; · cases hc
      omega
    exact updatePages_no_panic H pt gpa data _ 0 d (by omega) p

theorem measureVmsa_no_panic (H : Bytes → Bytes) (c : Cfg) (high : Nat) (vs : List Vmsa)
    (hv : ∀ v ∈ vs, ∃ page, putVmsa c.layout c.sizeofVmsa v zeroPage = .ok page) (d : Bytes) (p : String) :
    measureVmsa H c high vs d ≠ .panic p := by
  induction vs generalizing d with
  | nil => simp [measureVmsa]
  | cons v rest ih =>
    obtain ⟨page, hp⟩ := hv v List.mem_cons_self
    rw [measureVmsa]
    unfold measureOneVmsa
    rw [hp]
    simp only
    cases hu : update H high d high page pageTypeVmsa with
    | ok d' => simp only; exact ih (fun x hx => hv x (List.mem_cons_of_mem _ hx)) d'
    | err e => simp
    | panic q => exact absurd hu (update_no_panic H high d high page _ q)

theorem vmsas_ok (c : Cfg) (hc : CfgIsSpec c) (rb : ResetBlock) (n : Nat) :
    ∀ v ∈ bspVmsa :: List.replicate n (apVmsa rb), ∃ page, putVmsa c.layout c.sizeofVmsa v zeroPage = .ok page := by
  intro v hv
  rcases List.mem_cons.mp hv with rfl | hv
  · exact ⟨_, by rw [hc.layout, hc.size, zeroPage_eq]; exact putVmsa_bsp⟩
  · have := List.eq_of_mem_replicate hv
    subst this
    exact ⟨_, by rw [hc.layout, hc.size, zeroPage_eq]; exact putVmsa_ap rb⟩

/-- the measurement of sev.LaunchDigest never panics, whatever the product value -/
theorem launchDigestBody_no_panic (H : Bytes → Bytes) (c : Cfg) (hc : CfgIsSpec c) (o : Opts) (hv : ¬ o.vcpus < 1)
    (fw : Bytes) (p : String) : launchDigestBody H c o fw ≠ .panic p := by
  unfold launchDigestBody
  · rcases SnpTotal.extractFromFirmware_tt fw with ⟨e, he⟩ | ⟨rb, secs, hp, _, _⟩
    · rw [he]; simp
    · rw [hp]
      simp only
      unfold measureUefi
      cases hu : update H (productHigh (c.width o.product)) zeros48 (romBase fw.length) fw pageTypeNormal with
      | panic q => exact absurd hu (update_no_panic _ _ _ _ _ _ q)
      | err e => simp
      | ok d0 =>
        simp only [measureZeroContentUefiPages, Option.getD_some]
        cases hvs : validateSections secs with
        | panic q => exact absurd hvs (validateSections_no_panic secs q)
        | err e => simp
        | ok u =>
          simp only
          cases hms : measureSections H (productHigh (c.width o.product)) secs d0 with
          | panic q => exact absurd hms (measureSections_no_panic H _ secs _ q)
          | err e => simp
          | ok d1 =>
            simp only
            rw [SnpDigest.prepareVmsas_eq c.template hc.template o.vcpus (by omega) rb]
            simp only
            exact measureVmsa_no_panic H c _ _ (vmsas_ok c hc rb _) d1 p

/-- go: sev.LaunchDigest never panics -/
theorem launchDigest_no_panic (H : Bytes → Bytes) (c : Cfg) (hc : CfgIsSpec c) (o : Opts) (fw : Bytes) (p : String) :
    launchDigest H c o fw ≠ .panic p := by
  unfold launchDigest
  split
  · simp
  · rename_i hv
    split
    · simp
    · exact launchDigestBody_no_panic H c hc o hv fw p

/-- … nor did the pre-repair variant -/
theorem launchDigestOld_no_panic (H : Bytes → Bytes) (c : Cfg) (hc : CfgIsSpec c) (o : Opts) (fw : Bytes) (p : String) :
    launchDigestOld H c o fw ≠ .panic p := by
  unfold launchDigestOld
  split
  · simp
  · rename_i hv
    exact launchDigestBody_no_panic H c hc o hv fw p

theorem generateLDs_no_panic (H : Bytes → Bytes) (c : Cfg) (hc : CfgIsSpec c) (product : Nat) (fw : Bytes)
    (counts : List Nat) : ∀ p : String, generateLDs H c product fw counts ≠ .panic p := by
  induction counts with
  | nil => simp [generateLDs]
  | cons n rest ih =>
    intro p
    rw [generateLDs]
    cases hl : launchDigest H c ⟨n, product⟩ fw with
    | panic q => exact absurd hl (launchDigest_no_panic H c hc _ fw q)
    | err e => simp
    | ok d =>
      simp only
      cases hr : generateLDs H c product fw rest with
      | panic q => exact absurd hr (ih q)
      | err e => simp
      | ok ds => simp

/-- go: sev.UnsignedSnp never panics -/
theorem unsignedSnp_no_panic (H : Bytes → Bytes) (c : Cfg) (hc : CfgIsSpec c) (all : List Nat) (familyOk imageOk : Bool)
    (launchVmsas product : Nat) (fw : Bytes) (p : String) :
    unsignedSnp H c all familyOk imageOk launchVmsas product fw ≠ .panic p := by
  unfold unsignedSnp
  split
  · simp
  · split
    · simp
    · exact generateLDs_no_panic H c hc product fw _ p

/-! ### cost -/

/-- pages a descriptor list declares (one more per descriptor than `length/4096`, for the ceiling) -/
def declaredPages (secs : List Sec) : Nat := (secs.map fun s => s.length / 4096 + 1).sum

theorem measureSectionsTicks_le (high : Nat) (secs : List Sec) (hr : ∀ s ∈ secs, s.address < 2 ^ 32 ∧ s.length < 2 ^ 32) :
    measureSectionsTicks high secs ≤ secs.length + declaredPages secs := by
  induction secs with
  | nil => simp [measureSectionsTicks, declaredPages]
  | cons s rest ih =>
    have hs := hr s List.mem_cons_self
    have ih' := ih (fun x hx => hr x (List.mem_cons_of_mem _ hx))
    unfold measureSectionsTicks
    simp only [declaredPages, List.map_cons, List.sum_cons, List.length_cons] at ih' ⊢
    split
    · omega
    · split
      · omega
      · have ht : tripCount s.address ((s.address + s.length) % 2 ^ 64) ≤ s.length / 4096 + 1 := by
          unfold tripCount; omega
        omega

/-- What `launchDigestTicks` is bounded in: the image length, the vCPU count and the pages the image's
    own metadata declares (0 unless the image parses). -/
def declaredPagesOf (fw : Bytes) : Nat :=
  match extractFromFirmware true true fw with
  | .ok (_, some secs) => declaredPages secs
  | _ => 0

theorem launchDigestBodyTicks_le (c : Cfg) (o : Opts) (fw : Bytes) :
    launchDigestBodyTicks c o fw ≤ fw.length / 2 + 4 + 2 * o.vcpus.toNat + declaredPagesOf fw := by
  unfold launchDigestBodyTicks declaredPagesOf
  · have h1 := SnpTotal.extractFromFirmwareTicks_le true true fw
    rcases SnpTotal.extractFromFirmware_tt fw with ⟨e, he⟩ | ⟨rb, secs, hp, hl, hr⟩
    · rw [he]; simp only; omega
    · rw [hp]
      simp only [Option.getD_some]
      have hm := measureSectionsTicks_le (productHigh (c.width o.product)) secs (fun s hs => ⟨(hr s hs).1, (hr s hs).2.1⟩)
      have hvt : validateSectionsTicks secs ≤ 2 * secs.length := by unfold validateSectionsTicks; omega
      cases update H0 (productHigh (c.width o.product)) zeros48 (romBase fw.length) fw pageTypeNormal with
      | err e => simp only; omega
      | panic q => simp only; omega
      | ok d0 =>
        simp only
        cases validateSections secs with
        | err e => simp only; omega
        | panic q => simp only; omega
        | ok u =>
          simp only
          cases measureSections H0 (productHigh (c.width o.product)) secs zeros48 with
          | err e => simp only; omega
          | panic q => simp only; omega
          | ok d1 => simp only; omega

theorem launchDigestTicks_le (c : Cfg) (o : Opts) (fw : Bytes) :
    launchDigestTicks c o fw ≤ fw.length / 2 + 4 + 2 * o.vcpus.toNat + declaredPagesOf fw := by
  unfold launchDigestTicks
  split
  · omega
  · split
    · omega
    · exact launchDigestBodyTicks_le c o fw

theorem launchDigestAlloc_le (c : Cfg) (o : Opts) (fw : Bytes) :
    launchDigestAlloc c o fw ≤ 64 * fw.length + 4368 * o.vcpus.toNat + 128 * declaredPagesOf fw + 8704 := by
  unfold launchDigestAlloc
  have := launchDigestTicks_le c o fw
  omega

end GceTcb.Proofs.SnpBounds
