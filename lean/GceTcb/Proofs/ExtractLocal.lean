import GceTcb.Proofs.Extract
import GceTcb.Spec.Extract
/-
Helper lemmas for C16: local-first behaviour of `endorsement`, absence of panics with a reader,
and the contract of the lexical secure join.  Core-only.
-/
namespace GceTcb.Extract
open GceTcb GceTcb.Spec.Extract

/-! ## Regenerated constants equal the specified ones (used to compute with literals) -/

theorem gen_precedence : Gen.Names.locatorPrecedence = precedence := rfl
theorem gen_raw : Gen.Names.rimLocationRaw = 0 := rfl
theorem gen_uri : Gen.Names.rimLocationURI = 1 := rfl
theorem gen_local : Gen.Names.rimLocationLocal = 2 := rfl
theorem gen_variable : Gen.Names.rimLocationVariable = 3 := rfl

/-! ## `Locate` by locator type -/

theorem locate_raw (env : Env) (o : Options) (e : RimEvent) (h : e.locType = 0) :
    locate env o e = { out := .ok e.locator } := by
  unfold locate
  rw [if_pos (by rw [h, gen_raw])]

theorem locate_variable (env : Env) (o : Options) (e : RimEvent) (h : e.locType = 3) :
    locate env o e =
      match variableLocatorDecode e.locator with
      | none => { out := .err "varloc" }
      | some (guid, name) =>
        match o.reader with
        | none => { out := .err "locatereadernil" }
        | some root => readVariable env root guid name := by
  unfold locate
  rw [if_neg (by rw [h, gen_raw]; decide), if_neg (by rw [h, gen_uri]; decide), if_pos (by rw [h, gen_variable])]
  rfl

theorem locate_local (env : Env) (o : Options) (e : RimEvent) (h : e.locType = 2) :
    locate env o e = { out := .err "unsupported" } := by
  unfold locate
  rw [if_neg (by rw [h, gen_raw]; decide), if_neg (by rw [h, gen_uri]; decide), if_neg (by rw [h, gen_variable]; decide)]

theorem locate_uri (env : Env) (o : Options) (e : RimEvent) (h : e.locType = 1) :
    locate env o e =
      if o.hasGetter then
        match env.get (.verbatim e.locator) with
        | some b => { out := .ok b, urls := [.verbatim e.locator] }
        | none => { out := .err "get", urls := [.verbatim e.locator] }
      else { out := .err "locategetternil" } := by
  unfold locate
  rw [if_neg (by rw [h, gen_raw]; decide), if_pos (by rw [h, gen_uri])]
  rfl

/-! ## No panic when a reader is configured -/

theorem decodeUtf16_ne_nil (bs : Bytes) (h : bs ≠ []) : decodeUtf16 bs ≠ [] := by
  match bs, h with
  | [_], _ => simp [decodeUtf16]
  | a :: b :: rest, _ =>
    unfold decodeUtf16
    split
    · split
      · split <;> simp
      · simp
    · simp

theorem variableLocatorDecode_name_ne_nil (loc g n : Bytes) (h : variableLocatorDecode loc = some (g, n)) : n ≠ [] := by
  unfold variableLocatorDecode at h
  split at h
  · simp at h
  · next hl =>
    split at h
    · simp at h
    · split at h
      · simp only [Option.some.injEq, Prod.mk.injEq] at h
        rw [← h.2]
        intro hn
        have : (loc.drop 16).length = 0 := by rw [hn]; rfl
        simp only [List.length_drop] at this
        omega
      · simp at h

theorem ucs2toUTF8_no_panic (n : Bytes) (h : n ≠ []) : ∀ s, ucs2toUTF8 n ≠ .panic s := by
  intro s
  unfold ucs2toUTF8
  split
  · next hl =>
    have := decodeUtf16_ne_nil n h
    rw [List.getLast?_eq_none_iff] at hl
    exact absurd hl this
  · split <;> split <;> simp

theorem readVariable_no_panic (env : Env) (root : String) (g n : Bytes) (h : n ≠ []) :
    ∀ s, (readVariable env root g n).out ≠ .panic s := by
  intro s
  unfold readVariable varBasename
  split
  · split
    · simp
    · split <;> simp
  · simp
  · next s' hs =>
    split at hs
    · split at hs <;> simp at hs
    · simp at hs
    · next s'' hu => exact absurd hu (ucs2toUTF8_no_panic n h s'')

/-! ## Selection: the spec's raw/variable pair against the code's precedence list -/

abbrev findType (t : Nat) (mfr : Bytes) (evs : List LogEvent) : Option RimEvent :=
  ((rimEvents evs).filter (fun x => x.locType == t)).find? (manufacturerMatches mfr)

theorem findType_type (t : Nat) (mfr : Bytes) (evs : List LogEvent) (e : RimEvent) (h : findType t mfr evs = some e) :
    e.locType = t := by
  have hm := List.mem_of_find?_eq_some h
  rw [List.mem_filter] at hm
  simpa using hm.2

theorem selectEvent_unfold (mfr : Bytes) (evs : List LogEvent) :
    selectEvent mfr evs =
      match findType 0 mfr evs with
      | some e => some e
      | none =>
        match findType 3 mfr evs with
        | some e => some e
        | none =>
          match findType 2 mfr evs with
          | some e => some e
          | none => findType 1 mfr evs := by
  unfold selectEvent
  rw [gen_precedence]
  simp only [precedence, locRaw, locVariable, locLocal, locURI, selectEventBy, List.findSome?_cons, List.findSome?_nil, findType]
  generalize List.find? (manufacturerMatches mfr) (List.filter (fun x => x.locType == 0) (rimEvents evs)) = a0
  generalize List.find? (manufacturerMatches mfr) (List.filter (fun x => x.locType == 3) (rimEvents evs)) = a3
  generalize List.find? (manufacturerMatches mfr) (List.filter (fun x => x.locType == 2) (rimEvents evs)) = a2
  generalize List.find? (manufacturerMatches mfr) (List.filter (fun x => x.locType == 1) (rimEvents evs)) = a1
  cases a0 <;> cases a3 <;> cases a2 <;> cases a1 <;> rfl

theorem selectSpec_unfold (mfr : Bytes) (evs : List LogEvent) :
    selectEventBy [locRaw, locVariable] mfr evs =
      match findType 0 mfr evs with
      | some e => some e
      | none => findType 3 mfr evs := by
  simp only [locRaw, locVariable, selectEventBy, List.findSome?_cons, List.findSome?_nil, findType]
  generalize List.find? (manufacturerMatches mfr) (List.filter (fun x => x.locType == 0) (rimEvents evs)) = a0
  generalize List.find? (manufacturerMatches mfr) (List.filter (fun x => x.locType == 3) (rimEvents evs)) = a3
  cases a0 <;> cases a3 <;> rfl


/-! ## The event-log phase against the specified local evidence -/

theorem fromEventLog_parsed (env : Env) (o : Options) (evs : List LogEvent) (e : RimEvent)
    (hl : o.eventLog = some (.parsed evs)) (hs : selectEvent o.manufacturer evs = some e) :
    fromEventLog env o = locate env o e := by
  unfold fromEventLog
  rw [hl]
  simp only [hs]

/-- L1: specified event-log evidence `b` exists ⇒ the code selects that event and `Locate` returns `b`
    without asking the getter. -/
theorem eventLogLocal_some (env : Env) (o : Options) (b : Bytes) (h : eventLogLocal env o = some b) :
    (fromEventLog env o).out = .ok b ∧ (fromEventLog env o).urls = [] := by
  unfold eventLogLocal at h
  split at h
  · next evs hl =>
    rw [selectSpec_unfold] at h
    cases h0 : findType 0 o.manufacturer evs with
    | some e =>
      rw [h0] at h
      simp only at h
      have ht := findType_type 0 _ _ e h0
      have hsel : selectEvent o.manufacturer evs = some e := by rw [selectEvent_unfold, h0]
      rw [fromEventLog_parsed env o evs e hl hsel, locate_raw env o e ht]
      rw [if_pos (by rw [ht]; rfl)] at h
      simp only [Option.some.injEq] at h
      exact ⟨by rw [h], rfl⟩
    | none =>
      rw [h0] at h
      simp only at h
      cases h3 : findType 3 o.manufacturer evs with
      | none => rw [h3] at h; simp at h
      | some e =>
        rw [h3] at h
        simp only at h
        have ht := findType_type 3 _ _ e h3
        have hsel : selectEvent o.manufacturer evs = some e := by rw [selectEvent_unfold, h0, h3]
        rw [fromEventLog_parsed env o evs e hl hsel, locate_variable env o e ht]
        rw [if_neg (by rw [ht]; decide)] at h
        split at h
        · next g n root hd hr =>
          rw [hd]
          simp only [hr]
          split at h
          · next b' hb =>
            simp only [Option.some.injEq] at h
            exact ⟨by rw [hb, h], readVariable_urls ..⟩
          · simp at h
        · simp at h
  · simp at h

/-- L2: no specified event-log evidence, a reader is configured and the event-log phase asked the
    getter nothing ⇒ the event-log phase ends in an error (neither a value nor a panic). -/
theorem eventLogLocal_none (env : Env) (o : Options) (h : eventLogLocal env o = none)
    (hr : o.reader.isSome = true) (hu : (fromEventLog env o).urls = []) :
    ∃ c, (fromEventLog env o).out = .err c := by
  rcases fromEventLog_cases env o with ⟨c, hc⟩ | ⟨evs, e, hl, hs, hf⟩
  · exact ⟨c, by rw [hc]⟩
  · rw [hf] at hu ⊢
    unfold eventLogLocal at h
    rw [hl] at h
    simp only at h
    rw [selectSpec_unfold] at h
    rw [selectEvent_unfold] at hs
    cases h0 : findType 0 o.manufacturer evs with
    | some e0 =>
      rw [h0] at h
      simp only at h
      have ht := findType_type 0 _ _ e0 h0
      rw [if_pos (by rw [ht]; rfl)] at h
      simp at h
    | none =>
      rw [h0] at h hs
      simp only at h hs
      cases h3 : findType 3 o.manufacturer evs with
      | some e3 =>
        rw [h3] at h hs
        simp only [Option.some.injEq] at h hs
        subst hs
        have ht := findType_type 3 _ _ e3 h3
        rw [if_neg (by rw [ht]; decide)] at h
        rw [locate_variable env o e3 ht]
        cases hd : variableLocatorDecode e3.locator with
        | none => exact ⟨_, rfl⟩
        | some gn =>
          obtain ⟨g, n⟩ := gn
          cases hrd : o.reader with
          | none => rw [hrd] at hr; simp at hr
          | some root =>
            rw [hd, hrd] at h
            simp only at h ⊢
            have hn := variableLocatorDecode_name_ne_nil _ g n hd
            cases ho : (readVariable env root g n).out with
            | ok b => rw [ho] at h; simp at h
            | err c => exact ⟨c, rfl⟩
            | panic s => exact absurd ho (readVariable_no_panic env root g n hn s)
      | none =>
        rw [h3] at hs
        simp only at hs
        cases h2 : findType 2 o.manufacturer evs with
        | some e2 =>
          rw [h2] at hs
          simp only [Option.some.injEq] at hs
          subst hs
          rw [locate_local env o e2 (findType_type 2 _ _ e2 h2)]
          exact ⟨_, rfl⟩
        | none =>
          rw [h2] at hs
          simp only at hs
          have ht := findType_type 1 _ _ e hs
          rw [locate_uri env o e ht] at hu ⊢
          by_cases hg : o.hasGetter = true
          · rw [if_pos hg] at hu
            cases hget : env.get (.verbatim e.locator) <;> rw [hget] at hu <;> simp at hu
          · rw [if_neg hg]; exact ⟨_, rfl⟩

/-! ## The quote and provider phases when a certificate-table entry is present -/

theorem certTableEntry_some (t : Option Tee) (b : Bytes) (h : certTableEntry t = some b) :
    ∃ m, t = some (.sev m (some b)) ∧ b.isEmpty = false := by
  unfold certTableEntry at h
  split at h
  · next m x =>
    split at h
    · simp at h
    · next hx =>
      simp only [Option.some.injEq] at h
      subst h
      exact ⟨m, rfl, by simpa using hx⟩
  · simp at h

theorem quotePhase_supplied_entry (env : Env) (o : Options) (urls : List Url) (paths : List String) (m b : Bytes)
    (hf : o.forceFetch = false) (hq : o.quote = some (.sev m (some b))) (hb : b.isEmpty = false) :
    quotePhase fromQuote false env o urls paths = { out := .ok b, urls := urls, paths := paths } := by
  unfold quotePhase
  rw [hq]
  by_cases hl : m.length = Gen.Names.sevMeasurementSize
  · simp [fromQuote, hl, hb, hf]
  · simp [fromQuote, hl, hb, hf]

/-- A supplied quote without a usable entry and without a full-length measurement yields no blob
    and no object name. -/
theorem fromQuote_useless (t : Option Tee) (h1 : certTableEntry t = none) (h2 : hasFullMeasurement t = false) :
    fromQuote t = none ∨ ∃ b, fromQuote t = some (b, none) ∧ b.isEmpty = true := by
  cases t with
  | none => left; rfl
  | some tee =>
    right
    cases tee with
    | sev m x =>
      have hm : ¬ m.length = Gen.Names.sevMeasurementSize := by
        have h48 : Gen.Names.sevMeasurementSize = 48 := rfl
        rw [h48]
        simpa [hasFullMeasurement, teeMeasurement, measurementSize] using h2
      refine ⟨x.getD [], ?_, ?_⟩
      · simp [fromQuote, hm]
      · cases x with
        | none => rfl
        | some y =>
          simp only [certTableEntry] at h1
          split at h1
          · next hy => simpa using hy
          · simp at h1
    | tdx m =>
      have hm : ¬ m.length = Gen.Names.tdxMrTdSize := by
        have h48 : Gen.Names.tdxMrTdSize = 48 := rfl
        rw [h48]
        simpa [hasFullMeasurement, teeMeasurement, measurementSize] using h2
      exact ⟨[], by simp [fromQuote, hm], rfl⟩

theorem quotePhase_provider_entry (env : Env) (o : Options) (urls : List Url) (paths : List String) (m b : Bytes)
    (hf : o.forceFetch = false) (h1 : certTableEntry o.quote = none) (h2 : hasFullMeasurement o.quote = false)
    (hp : o.provider = some (some (some (.sev m (some b))))) (hb : b.isEmpty = false) :
    quotePhase fromQuote false env o urls paths = { out := .ok b, urls := urls, paths := paths, provCalls := 1 } := by
  have hprov : providerPhase fromQuote false env o (some (some (.sev m (some b)))) urls paths =
      { out := .ok b, urls := urls, paths := paths, provCalls := 1 } := by
    unfold providerPhase fromQuote
    simp [hb, hf]
  unfold quotePhase
  rcases fromQuote_useless o.quote h1 h2 with hn | ⟨b', hs, hb'⟩
  · rw [hn]; simp only [hp]; exact hprov
  · rw [hs]; simp only [hb', hp]; simp only [Bool.not_true, Bool.false_and, Bool.false_eq_true, if_false]; exact hprov

/-! ## Reductions of `endorsement` -/

theorem endorsement_eventlog_ok (env : Env) (o : Options) (b : Bytes) (hf : o.forceFetch = false)
    (hl : o.eventLog.isSome = true) (h : (fromEventLog env o).out = .ok b) :
    endorsement env o = fromEventLog env o := by
  unfold endorsement endorsementWith
  simp only [hl, hf, Bool.not_false, Bool.and_self, if_true, h]

theorem endorsement_eventlog_err (env : Env) (o : Options) (c : String) (hf : o.forceFetch = false)
    (hl : o.eventLog.isSome = true) (h : (fromEventLog env o).out = .err c) :
    endorsement env o = quotePhase fromQuote false env o (fromEventLog env o).urls (fromEventLog env o).paths := by
  unfold endorsement endorsementWith
  simp only [hl, hf, Bool.not_false, Bool.and_self, if_true, h]

theorem endorsement_skip_eventlog (env : Env) (o : Options) (h : o.eventLog.isSome = false ∨ o.forceFetch = true) :
    endorsement env o = quotePhase fromQuote false env o [] [] := by
  unfold endorsement endorsementWith
  rcases h with h | h <;> simp [h]


/-! ## Case lemmas used by the property theorems -/

theorem familyIDObjectPrefix_cases (fam : String) :
    familyIDObjectPrefix fam = family ∨ familyIDObjectPrefix fam = unknownFamily := by
  unfold familyIDObjectPrefix
  split
  · left; rfl
  · right; rfl

theorem endorsement_cases (env : Env) (o : Options) :
    endorsement env o = fromEventLog env o ∨
    endorsement env o = quotePhase fromQuote false env o (fromEventLog env o).urls (fromEventLog env o).paths ∨
    endorsement env o = quotePhase fromQuote false env o [] [] := by
  unfold endorsement endorsementWith
  split
  · split
    · left; rfl
    · left; rfl
    · right; left; rfl
  · right; right; rfl

theorem fromEventLog_urls_verbatim (env : Env) (o : Options) (u : Url) (hu : u ∈ (fromEventLog env o).urls) :
    ∃ evs e, o.eventLog = some (.parsed evs) ∧ selectEvent o.manufacturer evs = some e ∧
      e.locType = locURI ∧ u = .verbatim e.locator := by
  rcases fromEventLog_cases env o with ⟨c, hc⟩ | ⟨evs, e, hl, hs, hc⟩
  · rw [hc] at hu; simp at hu
  · rw [hc] at hu
    rcases locate_urls env o e with h | ⟨ht, _, h⟩
    · rw [h] at hu; simp at hu
    · rw [h] at hu
      simp only [List.mem_singleton] at hu
      exact ⟨evs, e, hl, hs, ht, hu⟩

end GceTcb.Extract
