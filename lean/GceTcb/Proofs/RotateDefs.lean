import GceTcb.Proofs.Hoare
/-
Invariants and preconditions of C10 (stated once, used by Proofs/RotateGcs.lean, Proofs/RotateMem.lean
and Props/C10.lean).
-/
namespace GceTcb.CA

/-- object name of the certificate a rotation request produces (gcsca.certObjectName) -/
def objName (cfg : Cfg) (req : Req) : String :=
  cfg.certDir ++ req.cn ++ "-" ++ toString req.serial ++ ".crt"

theorem certObjectName_mk (cfg : Cfg) (req : Req) (p q : Nat) :
    certObjectName cfg ⟨req.cn, req.serial, p, q⟩ = objName cfg req := rfl

/-- contract of the key manager's naming: the new version's name differs from the current one and is
    not empty (memkm.BumpName: strictly larger numeric suffix; Cloud KMS: a fresh version number). -/
def BumpOK (cfg : Cfg) : Prop := (∀ n, cfg.bump n ≠ n) ∧ (∀ n, cfg.bump n ≠ "")

/-- gcsca: the durable state is good, with its witnesses named -/
structure InvG (cfg : Cfg) (m : Manifest) (r c : Cert) (path : String) (s : St) : Prop where
  man : lookup s.store manifestName = some (.manifest m)
  root : lookup s.store cfg.rootPath = some (.pem r)
  entry : lookup m.entries m.signing = some path
  prim : lookup s.store path = some (.der c)
  kprim : lookup s.keys m.signing = some c.pub
  chain : c.sigBy = r.pub
  kroot : lookup s.keys m.root = some r.pub
  sig_ne : m.signing ≠ ""
  root_ne : m.root ≠ ""
  sr : m.signing ≠ m.root
  pm : path ≠ manifestName
  rm : cfg.rootPath ≠ manifestName
  broot : ∀ n, cfg.bump n ≠ m.root

/-- memca: the authority's contents are good -/
structure InvM (cfg : Cfg) (r c : Cert) (s : St) : Prop where
  root : lookup s.memCerts s.memRoot = some r
  prim : lookup s.memCerts s.memPrimary = some c
  kprim : lookup s.keys s.memPrimary = some c.pub
  chain : c.sigBy = r.pub
  kroot : lookup s.keys s.memRoot = some r.pub
  sig_ne : s.memPrimary ≠ ""
  root_ne : s.memRoot ≠ ""
  sr : s.memPrimary ≠ s.memRoot
  broot : ∀ n, cfg.bump n ≠ s.memRoot

/-- The clause of the property: the recorded primary signing key is a live key, a certificate is
    stored for it, that certificate carries the live key's public key and its signature verifies under
    the stored root certificate (so signing with the primary and verifying against the root works). -/
def PrimaryOK (cfg : Cfg) (s : St) : Prop :=
  match cfg.ca with
  | .gcsca => ∃ m r c path,
      lookup s.store manifestName = some (.manifest m) ∧ lookup s.store cfg.rootPath = some (.pem r) ∧
      lookup m.entries m.signing = some path ∧ lookup s.store path = some (.der c) ∧
      lookup s.keys m.signing = some c.pub ∧ c.sigBy = r.pub
  | .memca => ∃ r c,
      lookup s.memCerts s.memRoot = some r ∧ lookup s.memCerts s.memPrimary = some c ∧
      lookup s.keys s.memPrimary = some c.pub ∧ c.sigBy = r.pub

/-- The invariant: `PrimaryOK` + the root key is live and is the key of the stored root certificate +
    name hygiene (primary, root and manifest names are distinct and non-empty; the key manager never
    hands out the root's name).  It speaks about durable state only. -/
def Inv (cfg : Cfg) (s : St) : Prop :=
  match cfg.ca with
  | .gcsca => ∃ m r c path, InvG cfg m r c path s
  | .memca => ∃ r c, InvM cfg r c s

theorem Inv.primaryOK {cfg : Cfg} {s : St} (h : Inv cfg s) : PrimaryOK cfg s := by
  unfold Inv at h; unfold PrimaryOK
  cases hca : cfg.ca with
  | gcsca =>
    rw [hca] at h
    obtain ⟨m, r, c, path, hi⟩ := h
    exact ⟨m, r, c, path, hi.man, hi.root, hi.entry, hi.prim, hi.kprim, hi.chain⟩
  | memca =>
    rw [hca] at h
    obtain ⟨r, c, hi⟩ := h
    exact ⟨r, c, hi.root, hi.prim, hi.kprim, hi.chain⟩

/-- recorded primary signing key of the durable state -/
def primaryOf (cfg : Cfg) (s : St) : String :=
  match cfg.ca with
  | .gcsca => match lookup s.store manifestName with
    | some (.manifest m) => m.signing
    | _ => ""
  | .memca => s.memPrimary

/-- where gcsca.upload will write the certificate of the next key version -/
def target (cfg : Cfg) (req : Req) (m : Manifest) : String :=
  (lookup m.entries (cfg.bump m.signing)).getD (objName cfg req)

/-- Precondition on the request: the object the new certificate goes to is neither the manifest nor the
    root certificate object (certificate objects live under `certDir` and end in ".crt", so this only
    excludes configurations in which `rootPath` itself looks like a certificate object).  The object that
    holds the PRIMARY's certificate is no longer excluded: gcsca.upload refuses it (`claimed`). -/
def Fresh (cfg : Cfg) (req : Req) (s : St) : Prop :=
  match cfg.ca with
  | .memca => True
  | .gcsca => ∀ m, lookup s.store manifestName = some (.manifest m) →
      target cfg req m ≠ manifestName ∧ target cfg req m ≠ cfg.rootPath

/-- gcsca.upload will refuse the rotation's certificate: the stored manifest records the target object
    for a key version other than the new one -/
def claimed (cfg : Cfg) (req : Req) (m : Manifest) : Bool :=
  heldByOther m (target cfg req m) (cfg.bump m.signing)

/-- the request does not name a certificate object that another key version holds (needed for a
    rotation to SUCCEED; not needed for failure atomicity) -/
def Unclaimed (cfg : Cfg) (req : Req) (s : St) : Prop :=
  match cfg.ca with
  | .memca => True
  | .gcsca => ∀ m, lookup s.store manifestName = some (.manifest m) → claimed cfg req m = false

/-- the opposite: the stored manifest records the target object for another key version -/
def Claimed (cfg : Cfg) (req : Req) (s : St) : Prop :=
  cfg.ca = .gcsca ∧ ∃ m, lookup s.store manifestName = some (.manifest m) ∧ claimed cfg req m = true

theorem heldByOther_of_lookup {m : Manifest} {k p kvn : String} (h : lookup m.entries k = some p) (hk : k ≠ kvn) :
    heldByOther m p kvn = true := by
  unfold heldByOther
  rw [List.any_eq_true]
  have key : ∀ l : List (String × String), lookup l k = some p → (k, p) ∈ l := by
    intro l
    induction l with
    | nil => intro h; simp [lookup] at h
    | cons hd t ih =>
      obtain ⟨k', v⟩ := hd
      intro h
      by_cases e : k' = k
      · simp [lookup, e] at h; rw [e, h]; exact List.mem_cons_self
      · simp [lookup, e] at h; exact List.mem_cons_of_mem _ (ih h)
  exact ⟨(k, p), key _ h, by simp [hk]⟩

theorem InvG.transfer {cfg : Cfg} {m : Manifest} {r c : Cert} {path : String} {s s' : St}
    (h : InvG cfg m r c path s) (h1 : s'.store = s.store) (h2 : s'.keys = s.keys) :
    InvG cfg m r c path s' :=
  ⟨by rw [h1]; exact h.man, by rw [h1]; exact h.root, h.entry, by rw [h1]; exact h.prim,
   by rw [h2]; exact h.kprim, h.chain, by rw [h2]; exact h.kroot, h.sig_ne, h.root_ne, h.sr, h.pm, h.rm,
   h.broot⟩

theorem InvM.transfer {cfg : Cfg} {r c : Cert} {s s' : St}
    (h : InvM cfg r c s) (h1 : s'.memCerts = s.memCerts) (h2 : s'.keys = s.keys)
    (h3 : s'.memRoot = s.memRoot) (h4 : s'.memPrimary = s.memPrimary) : InvM cfg r c s' :=
  ⟨by rw [h1, h3]; exact h.root, by rw [h1, h4]; exact h.prim, by rw [h2, h4]; exact h.kprim, h.chain,
   by rw [h2, h3]; exact h.kroot, by rw [h4]; exact h.sig_ne, by rw [h3]; exact h.root_ne,
   by rw [h3, h4]; exact h.sr, by rw [h3]; exact h.broot⟩

theorem Inv_reload (cfg : Cfg) (s : St) : Inv cfg s.reload ↔ Inv cfg s := by
  unfold Inv
  cases cfg.ca with
  | gcsca =>
    constructor
    · rintro ⟨m, r, c, p, h⟩; exact ⟨m, r, c, p, h.transfer rfl rfl⟩
    · rintro ⟨m, r, c, p, h⟩; exact ⟨m, r, c, p, h.transfer rfl rfl⟩
  | memca =>
    constructor
    · rintro ⟨r, c, h⟩; exact ⟨r, c, h.transfer rfl rfl rfl rfl⟩
    · rintro ⟨r, c, h⟩; exact ⟨r, c, h.transfer rfl rfl rfl rfl⟩

theorem Fresh_reload (cfg : Cfg) (req : Req) (s : St) : Fresh cfg req s.reload ↔ Fresh cfg req s := by
  unfold Fresh
  cases cfg.ca <;> exact Iff.rfl

theorem Unclaimed_reload (cfg : Cfg) (req : Req) (s : St) : Unclaimed cfg req s.reload ↔ Unclaimed cfg req s := by
  unfold Unclaimed
  cases cfg.ca <;> exact Iff.rfl

/-- exceptional postcondition used throughout: the durable invariant and destroy-after-commit -/
def Safe (cfg : Cfg) (s : St) : Prop := Inv cfg s ∧ DAC cfg s.log

/-- before anything is destroyed: the durable invariant and a log without any destroy call (implies
    `Safe`, and destroy-after-commit at the Cloud KMS level as well) -/
def SafeN (cfg : Cfg) (s : St) : Prop := Inv cfg s ∧ NoDestroy s.log

theorem SafeN.safe {cfg : Cfg} {s : St} (h : SafeN cfg s) : Safe cfg s :=
  ⟨h.1, DAC_of_noDestroy cfg h.2⟩

/-- a predicate that survives the logging of any call other than DestroyKeyVersion -/
def Stable (P : St → Prop) : Prop := ∀ s c f, NonDestroy c → P s → P (s.logged c f)

end GceTcb.CA
