import GceTcb.Model.Mrtd
import GceTcb.Proofs.TdxIntervals
/-
C05 — machine shapes: a decidable well-formedness check of the bank list of one shape, and the lemma
lifting it to the hypotheses of the interval theorem.  Core-only.
-/
namespace GceTcb.Mrtd
open GceTcb.Intervals

def threeGib : Nat := 3 * 1024 * 1024 * 1024
def fourGib' : Nat := 4 * 1024 * 1024 * 1024
def twoMib : Nat := 2 * 1024 * 1024

/-- a bank avoids the MMIO hole [3 GiB, 4 GiB) unless it is exactly the firmware window [4 GiB − 2 MiB, 4 GiB) -/
def avoidsHole (g : Gpr) : Prop :=
  g.start + g.len ≤ threeGib ∨ fourGib' ≤ g.start ∨ (g.start = fourGib' - twoMib ∧ g.len = twoMib)

instance (g : Gpr) : Decidable (avoidsHole g) := by unfold avoidsHole; exact inferInstance

/-- What C05 states about the banks of one shape. -/
def BanksWellFormed (s : Shape) (banks : List Gpr) : Prop :=
  banks.Pairwise (fun a b => a.start + a.len ≤ b.start) ∧        -- ascending and disjoint
  (∀ g ∈ banks, g.start + g.len < 2 ^ 64) ∧                      -- no 64-bit overflow
  (∀ g ∈ banks, avoidsHole g) ∧
  (banks.map (·.len)).sum = s.size * 1024 * 1024 * 1024 + twoMib ∧ -- the shape's RAM plus the firmware window
  (∀ g ∈ banks, g.len ≤ s.maxSizePerNode * 1024 * 1024 * 1024) ∧   -- per-node maximum
  banks.length = 2 + s.nodes

instance (s : Shape) (banks : List Gpr) : Decidable (BanksWellFormed s banks) := by
  unfold BanksWellFormed; exact inferInstance

def BanksOKOutcome (s : Shape) : Outcome (List Gpr) → Prop
  | .ok banks => BanksWellFormed s banks
  | .err _ => False
  | .panic _ => False

instance (s : Shape) : (o : Outcome (List Gpr)) → Decidable (BanksOKOutcome s o)
  | .ok banks => inferInstanceAs (Decidable (BanksWellFormed s banks))
  | .err _ => isFalse id
  | .panic _ => isFalse id

/-- regionsForShape does not panic on the shape and yields well-formed banks -/
def ShapeOK (s : Shape) : Prop := BanksOKOutcome s (regionsForShape s)

instance (s : Shape) : Decidable (ShapeOK s) := by
  unfold ShapeOK; exact inferInstance

def shapeOfEntry (e : String × Nat × Nat × Nat) : Shape := ⟨e.2.1, e.2.2.1, e.2.2.2⟩

/-- well-formed banks satisfy the preconditions of the interval theorem -/
theorem banks_preconditions {s : Shape} {banks : List Gpr} (h : BanksWellFormed s banks) :
    NoOverflow banks ∧ DisjointL banks ∧ SortedByStart banks := by
  obtain ⟨h1, h2, _⟩ := h
  refine ⟨h2, ?_, ?_⟩
  · exact h1.imp (fun {a b} hab x hx => by simp only [Gpr.mem] at hx; omega)
  · -- ascending ends imply ascending starts for the non-empty ones; an empty bank may only tie
    unfold SortedByStart
    exact h1.imp (fun {a b} hab => by omega)

theorem shapeOK_of_table (table : List (String × Nat × Nat × Nat)) (h : ∀ e ∈ table, ShapeOK (shapeOfEntry e))
    (name : String) (s : Shape) (hs : findShape table name = some s) :
    ∃ banks, machineTypeToRAMBanks table name = .ok banks ∧ BanksWellFormed s banks := by
  unfold findShape at hs
  cases hf : table.find? (fun e => e.1 == name) with
  | none => rw [hf] at hs; simp at hs
  | some e =>
    rw [hf] at hs
    simp only [Option.map_some, Option.some.injEq] at hs
    have hm := List.mem_of_find?_eq_some hf
    have hok := h e hm
    unfold shapeOfEntry at hok
    rw [hs] at hok
    unfold ShapeOK at hok
    unfold machineTypeToRAMBanks findShape
    rw [hf]
    simp only [Option.map_some, hs]
    generalize regionsForShape s = o at hok ⊢
    cases o with
    | ok banks => exact ⟨banks, rfl, hok⟩
    | err c => exact absurd hok id
    | panic c => exact absurd hok id

end GceTcb.Mrtd
