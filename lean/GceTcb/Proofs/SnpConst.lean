import GceTcb.Proofs.SnpBounds
/-
C08 (SEV half) — the absolute bound on what valid SNP metadata can declare.  Descriptors carry 32-bit
addresses and 32-bit lengths; validateSections accepts only non-empty whole-page lengths and pairwise
disjoint ranges (ends in 64 bits).  Hence the ranges lie side by side inside [0, 2^33 − 4097) and the
pages they declare sum to at most 2^21 − 2, whatever the image.  Core only.
-/
namespace GceTcb.Proofs.SnpConst
open GceTcb GceTcb.Codec GceTcb.GuidTable GceTcb.SevMeta GceTcb.SevLd
open GceTcb.Codecs (ResetBlock zeros)
open GceTcb.Proofs.SnpSections (Sec SectionsValid LenOK Disjoint validateSections_ok_iff)
open GceTcb.Proofs.SnpBounds (declaredPages declaredPagesOf)

/-- bytes declared -/
def totalLength (secs : List Sec) : Nat := (secs.map (·.length)).sum

/-- whole pages declared: the trip counts of the zero-content loop for whole-page lengths -/
def totalPages (secs : List Sec) : Nat := (secs.map fun s => s.length / 4096).sum

/-- On a list whose neighbours do not overlap (each range ends at or before the start of the next — what
    the overlap loop of validateSections checks on the sorted list) the lengths add up to at most the
    distance from the first start to any bound `E` on the ends. -/
theorem totalLength_chain (l : List Sec) (E : Nat) (hov : overlapSorted l = false)
    (hE : ∀ s ∈ l, s.address + s.length ≤ E) :
    ∀ a rest, l = a :: rest → a.address + totalLength l ≤ E := by
  induction l with
  | nil => intro a rest h; cases h
  | cons x t ih =>
    intro a rest h
    injection h with h1 h2
    subst h1
    cases t with
    | nil =>
      have := hE x List.mem_cons_self
      simpa [totalLength] using this
    | cons b r =>
      simp only [overlapSorted, Bool.or_eq_false_iff, decide_eq_false_iff_not, Nat.not_lt] at hov
      have := ih hov.2 (fun s hs => hE s (List.mem_cons_of_mem _ hs)) b r rfl
      simp only [totalLength, List.map_cons, List.sum_cons] at this ⊢
      omega

theorem totalLength_perm {l₁ l₂ : List Sec} (h : l₁.Perm l₂) : totalLength l₁ = totalLength l₂ :=
  (h.map _).sum_nat

theorem totalLength_pages (secs : List Sec) (hl : ∀ s ∈ secs, s.length % 4096 = 0) :
    totalLength secs = 4096 * totalPages secs := by
  induction secs with
  | nil => rfl
  | cons s rest ih =>
    have h1 := hl s List.mem_cons_self
    have h2 := ih (fun x hx => hl x (List.mem_cons_of_mem _ hx))
    simp only [totalLength, totalPages, List.map_cons, List.sum_cons] at h2 ⊢
    omega

theorem length_le_totalPages (secs : List Sec) (hl : ∀ s ∈ secs, LenOK s) : secs.length ≤ totalPages secs := by
  induction secs with
  | nil => simp
  | cons s rest ih =>
    have h1 := hl s List.mem_cons_self
    have h2 := ih (fun x hx => hl x (List.mem_cons_of_mem _ hx))
    unfold LenOK at h1
    simp only [totalPages, List.map_cons, List.sum_cons, List.length_cons] at h2 ⊢
    omega

/-- **The constant.** Valid metadata whose fields are 32-bit declares at most 2^21 − 2 pages (8 GiB − 8 KiB)
    in at most that many descriptors. -/
theorem totalPages_le (secs : List Sec) (hv : SectionsValid secs)
    (hr : ∀ s ∈ secs, s.address < 2 ^ 32 ∧ s.length < 2 ^ 32) :
    totalPages secs ≤ 2 ^ 21 - 2 ∧ secs.length ≤ 2 ^ 21 - 2 := by
  have hlen : ∀ s ∈ secs, s.length % 4096 = 0 := fun s hs => (hv.lengths s hs).1
  have hpos : ∀ s ∈ secs, 0 < s.length := fun s hs => by have := hv.lengths s hs; unfold LenOK at this; omega
  have hov := (SnpSections.overlap_mergeSort secs hpos).mpr hv.disjoint
  have hperm := List.mergeSort_perm secs startLe
  have hE : ∀ s ∈ secs.mergeSort startLe, s.address + s.length ≤ 2 ^ 33 - 4097 := by
    intro s hs
    have hs' := hperm.mem_iff.mp hs
    have := hr s hs'
    have := hlen s hs'
    omega
  have htot : totalLength secs ≤ 2 ^ 33 - 4097 := by
    rw [← totalLength_perm hperm]
    cases hm : secs.mergeSort startLe with
    | nil => simp [totalLength]
    | cons a rest =>
      have := totalLength_chain _ _ hov hE a rest hm
      rw [hm] at this
      omega
  have hp := totalLength_pages secs hlen
  have hn := length_le_totalPages secs hv.lengths
  constructor <;> omega

theorem declaredPages_eq (secs : List Sec) : declaredPages secs = totalPages secs + secs.length := by
  induction secs with
  | nil => rfl
  | cons s rest ih =>
    simp only [declaredPages, totalPages, List.map_cons, List.sum_cons, List.length_cons] at ih ⊢
    omega

/-- the section loop on valid metadata: one iteration per descriptor plus exactly the declared pages -/
theorem measureSectionsTicks_le_pages (high : Nat) (secs : List Sec) (hl : ∀ s ∈ secs, s.length % 4096 = 0)
    (hr : ∀ s ∈ secs, s.address < 2 ^ 32 ∧ s.length < 2 ^ 32) :
    measureSectionsTicks high secs ≤ secs.length + totalPages secs := by
  induction secs with
  | nil => simp [measureSectionsTicks, totalPages]
  | cons s rest ih =>
    have hs := hr s List.mem_cons_self
    have hls := hl s List.mem_cons_self
    have ih' := ih (fun x hx => hl x (List.mem_cons_of_mem _ hx)) (fun x hx => hr x (List.mem_cons_of_mem _ hx))
    unfold measureSectionsTicks
    simp only [totalPages, List.map_cons, List.sum_cons, List.length_cons] at ih' ⊢
    split
    · omega
    · split
      · omega
      · have ht : tripCount s.address ((s.address + s.length) % 2 ^ 64) = s.length / 4096 := by
          unfold tripCount; omega
        omega

/-- sev.LaunchDigest: loop iterations bounded by the image length, the vCPU count and a CONSTANT — the
    declared pages are hashed only after validateSections has accepted the metadata. -/
theorem launchDigestBodyTicks_le_const (c : Cfg) (o : Opts) (fw : Bytes) :
    launchDigestBodyTicks c o fw ≤ fw.length / 2 + 4 + 2 * o.vcpus.toNat + (2 ^ 21 - 2) := by
  unfold launchDigestBodyTicks
  · have h1 := SnpTotal.extractFromFirmwareTicks_le true true fw
    rcases SnpTotal.extractFromFirmware_tt fw with ⟨e, he⟩ | ⟨rb, secs, hp, hl, hr⟩
    · rw [he]; simp only; omega
    · rw [hp]
      simp only [Option.getD_some]
      have hr' : ∀ s ∈ secs, s.address < 2 ^ 32 ∧ s.length < 2 ^ 32 := fun s hs => ⟨(hr s hs).1, (hr s hs).2.1⟩
      have hvt : validateSectionsTicks secs ≤ 2 * secs.length := by unfold validateSectionsTicks; omega
      cases update H0 (productHigh (c.width o.product)) zeros48 (romBase fw.length) fw pageTypeNormal with
      | err e => simp only; omega
      | panic q => simp only; omega
      | ok d0 =>
        simp only
        cases hvs : validateSections secs with
        | err e => simp only; omega
        | panic q => simp only; omega
        | ok u =>
          have hvalid := (validateSections_ok_iff secs).mp (by rw [hvs])
          have hm := measureSectionsTicks_le_pages (productHigh (c.width o.product)) secs
            (fun s hs => (hvalid.lengths s hs).1) hr'
          have hc := (totalPages_le secs hvalid hr').1
          simp only
          cases measureSections H0 (productHigh (c.width o.product)) secs zeros48 with
          | err e => simp only; omega
          | panic q => simp only; omega
          | ok d1 => simp only; omega

theorem launchDigestTicks_le_const (c : Cfg) (o : Opts) (fw : Bytes) :
    launchDigestTicks c o fw ≤ fw.length / 2 + 4 + 2 * o.vcpus.toNat + (2 ^ 21 - 2) := by
  unfold launchDigestTicks
  split
  · omega
  · split
    · omega
    · exact launchDigestBodyTicks_le_const c o fw

theorem launchDigestAlloc_le_const (c : Cfg) (o : Opts) (fw : Bytes) :
    launchDigestAlloc c o fw ≤ 64 * fw.length + 4368 * o.vcpus.toNat + (8704 + 128 * (2 ^ 21 - 2)) := by
  unfold launchDigestAlloc
  have := launchDigestTicks_le_const c o fw
  omega

/-- what an image that parses and passes validateSections can declare -/
theorem declaredPagesOf_le (fw : Bytes) (rb : ResetBlock) (secs : List Sec)
    (hp : extractFromFirmware true true fw = .ok (some rb, some secs)) (hv : validateSections secs = .ok ()) :
    declaredPagesOf fw = totalPages secs + secs.length ∧ totalPages secs ≤ 2 ^ 21 - 2 ∧
    secs.length ≤ 2 ^ 21 - 2 ∧ 12 * secs.length + 16 ≤ fw.length := by
  rcases SnpTotal.extractFromFirmware_tt fw with ⟨e, he⟩ | ⟨rb', secs', hp', hl, hr⟩
  · rw [he] at hp; cases hp
  · rw [hp] at hp'
    injection hp' with hp'; injection hp' with _ h2; injection h2 with h2; subst h2
    have hvalid := (validateSections_ok_iff secs).mp hv
    have := totalPages_le secs hvalid (fun s hs => ⟨(hr s hs).1, (hr s hs).2.1⟩)
    refine ⟨?_, this.1, this.2, hl⟩
    unfold declaredPagesOf
    rw [hp]
    exact declaredPages_eq secs

/-- the bound is attained: a secrets page, a CPUID page and two unmeasured ranges that fill
    [0x2000, 2^33 − 8192) are valid, page-aligned metadata declaring 2^21 − 2 pages -/
def maxSecs : List Sec :=
  [⟨0, 0x1000, kindSecret⟩, ⟨0x1000, 0x1000, kindCpuid⟩, ⟨0x2000, 0xFFFFD000, kindUnmeasured⟩,
   ⟨0xFFFFF000, 0xFFFFF000, kindUnmeasured⟩]

theorem maxSecs_valid : SectionsValid maxSecs :=
  ⟨by decide, by decide, by decide, by decide, by decide, by decide, by decide⟩

theorem maxSecs_pages : totalPages maxSecs = 2 ^ 21 - 2 ∧
    measureSectionsTicks (productHigh 48) maxSecs = 4 + (2 ^ 21 - 2) := by decide

end GceTcb.Proofs.SnpConst
