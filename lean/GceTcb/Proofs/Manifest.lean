import GceTcb.Model.Manifest
/-
Helper lemmas for C13 (manifest merge keeps a faithful index).
-/
namespace GceTcb.Manifest

def Unique (m : List Entry) : Prop :=
  (m.map (·.path)).Nodup ∧ (m.map (·.digest)).Nodup

def Faithful (m : List Entry) (fs : List (String × String)) : Prop :=
  ∀ x ∈ m, lookup fs x.path = some x.digest

def Inv (s : Store) : Prop := Unique s.manifest ∧ Faithful s.manifest s.files

theorem entryMapsOk_iff (m : List Entry) : entryMapsOk m = true ↔ Unique m := by
  simp [entryMapsOk, Unique]

theorem find_congr {α : Type} (l : List α) (f g : α → Bool) (h : ∀ a ∈ l, f a = g a) :
    l.find? f = l.find? g := by
  induction l with
  | nil => rfl
  | cons a t ih =>
    simp only [List.find?_cons, h a (List.mem_cons_self ..)]
    rw [ih (fun b hb => h b (List.mem_cons_of_mem _ hb))]

theorem lookup_writeFile (fs : List (String × String)) (p d q : String) :
    lookup (writeFile fs p d) q = if q = p then some d else lookup fs q := by
  unfold lookup writeFile
  by_cases h : q = p
  · subst h; simp
  · have hpq : (p == q) = false := by simp; exact fun h' => h h'.symm
    simp only [List.find?_cons, hpq, h, if_false, List.find?_filter]
    congr 1
    apply find_congr
    intro a _
    by_cases ha : a.1 = q
    · have : a.1 ≠ p := fun h' => h (ha ▸ h')
      simp [ha, h]
    · simp [ha]

theorem inj_of_nodup_map {α β : Type} (f : α → β) (l : List α) (hn : (l.map f).Nodup)
    {x y : α} (hx : x ∈ l) (hy : y ∈ l) (h : f x = f y) : x = y := by
  induction l with
  | nil => cases hx
  | cons a t ih =>
    simp only [List.map_cons, List.nodup_cons] at hn
    rcases List.mem_cons.mp hx with rfl | hx' <;> rcases List.mem_cons.mp hy with rfl | hy'
    · rfl
    · exact absurd (h ▸ List.mem_map_of_mem (f := f) hy') hn.1
    · exact absurd (h ▸ List.mem_map_of_mem (f := f) hx') hn.1
    · exact ih hn.2 hx' hy'

theorem nodup_map_replace {α β : Type} (f : α → β) (l : List α) (e : α)
    (c : α → Bool) (hn : (l.map f).Nodup)
    (h1 : ∀ x ∈ l, c x = true → ∀ y ∈ l, c y = true → x = y ∨ f x = f y)
    (h2 : ∀ y ∈ l, c y = false → f y ≠ f e) :
    ((l.map (fun x => if c x then e else x)).map f).Nodup := by
  induction l with
  | nil => simp
  | cons a t ih =>
    simp only [List.map_cons, List.nodup_cons] at hn ⊢
    refine ⟨?_, ih hn.2 (fun x hx cx y hy cy => h1 x (List.mem_cons_of_mem _ hx) cx y (List.mem_cons_of_mem _ hy) cy)
      (fun y hy cy => h2 y (List.mem_cons_of_mem _ hy) cy)⟩
    intro hmem
    simp only [List.mem_map, List.map_map] at hmem
    obtain ⟨y, hy, hfy⟩ := hmem
    simp only [Function.comp] at hfy
    by_cases ca : c a = true <;> by_cases cy : c y = true
    · simp only [ca, cy, if_true] at hfy
      rcases h1 a (List.mem_cons_self ..) ca y (List.mem_cons_of_mem _ hy) cy with h | h
      · subst h; exact hn.1 (List.mem_map_of_mem hy)
      · exact hn.1 (by rw [h]; exact List.mem_map_of_mem hy)
    · simp only [ca, cy, if_true] at hfy
      simp at cy
      simp [cy] at hfy
      exact h2 y (List.mem_cons_of_mem _ hy) cy hfy
    · simp at ca
      simp only [ca, cy, if_true] at hfy
      simp at hfy
      exact h2 a (List.mem_cons_self ..) ca hfy.symm
    · simp at ca cy
      simp [ca, cy] at hfy
      exact hn.1 (by rw [← hfy]; exact List.mem_map_of_mem hy)

theorem nodup_map_filter {α β : Type} (f : α → β) (l : List α) (q : α → Bool)
    (hn : (l.map f).Nodup) : ((l.filter q).map f).Nodup :=
  List.Nodup.sublist (List.Sublist.map f List.filter_sublist) hn

theorem unique_filter (m : List Entry) (q : Entry → Bool) (h : Unique m) : Unique (m.filter q) :=
  ⟨nodup_map_filter _ _ _ h.1, nodup_map_filter _ _ _ h.2⟩

theorem find_none_path {m : List Entry} {e : Entry}
    (h : m.find? (fun x => x.path == e.path) = none) : ∀ x ∈ m, x.path ≠ e.path := by
  intro x hx
  have := List.find?_eq_none.mp h x hx
  simpa using this

theorem find_none_digest {m : List Entry} {e : Entry}
    (h : m.find? (fun x => x.digest == e.digest) = none) : ∀ x ∈ m, x.digest ≠ e.digest := by
  intro x hx
  have := List.find?_eq_none.mp h x hx
  simpa using this

theorem find_some_path {m : List Entry} {e p : Entry}
    (h : m.find? (fun x => x.path == e.path) = some p) : p ∈ m ∧ p.path = e.path := by
  refine ⟨List.mem_of_find?_eq_some h, ?_⟩
  have := List.find?_some h
  simpa using this

theorem find_some_digest {m : List Entry} {e p : Entry}
    (h : m.find? (fun x => x.digest == e.digest) = some p) : p ∈ m ∧ p.digest = e.digest := by
  refine ⟨List.mem_of_find?_eq_some h, ?_⟩
  have := List.find?_some h
  simpa using this

/-- The sub-list the path branch works on: either the manifest itself or the manifest with the
    stale digest entry removed.  What matters: it is unique, a subset, still holds `p`, and no
    entry other than the path entry carries the new digest. -/
theorem path_branch_facts (m : List Entry) (e p : Entry) (od : Option Entry) (hu : Unique m)
    (hp : m.find? (fun x => x.path == e.path) = some p)
    (hd : m.find? (fun x => x.digest == e.digest) = od) :
    let m' := if od.isSome && p.digest != e.digest then removeDigest m e.digest else m
    Unique m' ∧ (∀ x ∈ m', x ∈ m) ∧ p ∈ m' ∧ (∀ y ∈ m', y.path ≠ e.path → y.digest ≠ e.digest) := by
  obtain ⟨hpm, hpp⟩ := find_some_path hp
  intro m'
  by_cases hc : (od.isSome && p.digest != e.digest) = true
  · have hm' : m' = removeDigest m e.digest := by simp only [m', hc, if_true]
    rw [hm']
    simp only [Bool.and_eq_true, bne_iff_ne, ne_eq] at hc
    refine ⟨unique_filter _ _ hu, fun x hx => (List.mem_filter.mp hx).1, ?_, ?_⟩
    · exact List.mem_filter.mpr ⟨hpm, by simpa using hc.2⟩
    · intro y hy _
      have := (List.mem_filter.mp hy).2
      simpa using this
  · have hm' : m' = m := by simp only [m', hc]; rfl
    rw [hm']
    refine ⟨hu, fun x hx => hx, hpm, ?_⟩
    intro y hy hne hdy
    cases od with
    | none => exact find_none_digest hd y hy hdy
    | some q =>
      simp only [Option.isSome_some, Bool.true_and, bne_iff_ne, ne_eq, Bool.not_eq_true,
        decide_eq_false_iff_not, Decidable.not_not] at hc
      have hc' : p.digest = e.digest := by simpa using hc
      have : y = p := inj_of_nodup_map (·.digest) m hu.2 hy hpm (by rw [hdy, hc'])
      exact hne (this ▸ hpp)


theorem addEntry_nn (m : List Entry) (e : Entry) (hu : Unique m)
    (hp : m.find? (fun x => x.path == e.path) = none)
    (hd : m.find? (fun x => x.digest == e.digest) = none) : addEntry m e = m ++ [e] := by
  have hok : entryMapsOk m = true := (entryMapsOk_iff m).mpr hu
  simp only [addEntry, hok, hp, hd, Bool.not_true, Bool.false_eq_true, if_false]

theorem addEntry_path (m : List Entry) (e p : Entry) (od : Option Entry) (hu : Unique m)
    (hp : m.find? (fun x => x.path == e.path) = some p)
    (hd : m.find? (fun x => x.digest == e.digest) = od) :
    addEntry m e =
      (if od.isSome && p.digest != e.digest then removeDigest m e.digest else m).map
        (fun x => if x.path == e.path then e else x) := by
  have hok : entryMapsOk m = true := (entryMapsOk_iff m).mpr hu
  simp only [addEntry, hok, hp, hd, Bool.not_true, Bool.false_eq_true, if_false]

theorem addEntry_digest (m : List Entry) (e q : Entry) (hu : Unique m)
    (hp : m.find? (fun x => x.path == e.path) = none)
    (hd : m.find? (fun x => x.digest == e.digest) = some q) :
    addEntry m e = m.map (fun x => if x.digest == e.digest then e else x) := by
  have hok : entryMapsOk m = true := (entryMapsOk_iff m).mpr hu
  simp only [addEntry, hok, hp, hd, Bool.not_true, Bool.false_eq_true, if_false]

theorem unique_addEntry (m : List Entry) (e : Entry) (hu : Unique m) : Unique (addEntry m e) := by
  cases hp : m.find? (fun x => x.path == e.path) with
  | none =>
    cases hd : m.find? (fun x => x.digest == e.digest) with
    | none =>
      rw [addEntry_nn m e hu hp hd]
      have h1 := find_none_path hp
      have h2 := find_none_digest hd
      constructor
      · simp only [List.map_append, List.map_cons, List.map_nil]
        refine List.nodup_append.mpr ⟨hu.1, by simp, ?_⟩
        intro a ha b hb
        simp only [List.mem_map] at ha
        obtain ⟨x, hx, rfl⟩ := ha
        simp at hb; subst hb
        exact h1 x hx
      · simp only [List.map_append, List.map_cons, List.map_nil]
        refine List.nodup_append.mpr ⟨hu.2, by simp, ?_⟩
        intro a ha b hb
        simp only [List.mem_map] at ha
        obtain ⟨x, hx, rfl⟩ := ha
        simp at hb; subst hb
        exact h2 x hx
    | some q =>
      rw [addEntry_digest m e q hu hp hd]
      have h1 := find_none_path hp
      constructor
      · refine nodup_map_replace (·.path) _ e (fun x => x.digest == e.digest) hu.1 ?_ ?_
        · intro x hx cx y hy cy
          left; simp at cx cy
          exact inj_of_nodup_map (·.digest) _ hu.2 hx hy (by rw [cx, cy])
        · intro y hy _; exact h1 y hy
      · refine nodup_map_replace (·.digest) _ e (fun x => x.digest == e.digest) hu.2 ?_ ?_
        · intro x _ cx y _ cy
          right; simp at cx cy; rw [cx, cy]
        · intro y _ cy; simpa using cy
  | some p =>
    rw [addEntry_path m e p _ hu hp rfl]
    obtain ⟨hu', hsub, hpm', hdig⟩ := path_branch_facts m e p _ hu hp rfl
    constructor
    · refine nodup_map_replace (·.path) _ e (fun x => x.path == e.path) hu'.1 ?_ ?_
      · intro x _ cx y _ cy
        right; simp at cx cy; rw [cx, cy]
      · intro y _ cy; simpa using cy
    · refine nodup_map_replace (·.digest) _ e (fun x => x.path == e.path) hu'.2 ?_ ?_
      · intro x hx cx y hy cy
        left; simp at cx cy
        exact inj_of_nodup_map (·.path) _ hu'.1 hx hy (by rw [cx, cy])
      · intro y hy cy
        exact hdig y hy (by simpa using cy)

theorem faithful_addEntry (m : List Entry) (fs : List (String × String)) (e : Entry)
    (hu : Unique m) (hf : Faithful m fs) :
    Faithful (addEntry m e) (writeFile fs e.path e.digest) := by
  intro x hx
  rw [lookup_writeFile]
  cases hp : m.find? (fun x => x.path == e.path) with
  | none =>
    cases hd : m.find? (fun x => x.digest == e.digest) with
    | none =>
      rw [addEntry_nn m e hu hp hd] at hx
      rcases List.mem_append.mp hx with hx | hx
      · have := find_none_path hp x hx
        simp [this, hf x hx]
      · simp at hx; subst hx; simp
    | some q =>
      rw [addEntry_digest m e q hu hp hd] at hx
      simp only [List.mem_map] at hx
      obtain ⟨y, hy, rfl⟩ := hx
      by_cases hdy : y.digest = e.digest
      · simp [hdy]
      · have := find_none_path hp y hy
        simp [hdy, this, hf y hy]
  | some p =>
    rw [addEntry_path m e p _ hu hp rfl] at hx
    obtain ⟨_, hsub, _, _⟩ := path_branch_facts m e p _ hu hp rfl
    simp only [List.mem_map] at hx
    obtain ⟨y, hy, rfl⟩ := hx
    by_cases hpy : y.path = e.path
    · simp [hpy]
    · simp [hpy, hf y (hsub y hy)]

/-- The new entry is always present after the merge (under uniqueness). -/
theorem mem_addEntry (m : List Entry) (e : Entry) (hu : Unique m) : e ∈ addEntry m e := by
  cases hp : m.find? (fun x => x.path == e.path) with
  | none =>
    cases hd : m.find? (fun x => x.digest == e.digest) with
    | none => rw [addEntry_nn m e hu hp hd]; simp
    | some q =>
      rw [addEntry_digest m e q hu hp hd]
      obtain ⟨hqm, hqd⟩ := find_some_digest hd
      refine List.mem_map.mpr ⟨q, hqm, ?_⟩
      simp [hqd]
  | some p =>
    rw [addEntry_path m e p _ hu hp rfl]
    obtain ⟨_, _, hpm', _⟩ := path_branch_facts m e p _ hu hp rfl
    obtain ⟨_, hpp⟩ := find_some_path hp
    refine List.mem_map.mpr ⟨p, hpm', ?_⟩
    simp [hpp]

end GceTcb.Manifest
