import GceTcb.Model.CAStore
/-
Helper lemmas for C11: lookups after a list of writes, what the certificate-upload loop of
gcsca.Finalize writes and appends, and the invariant `Good` of the store.
-/
namespace GceTcb.CA

/-- an object path Finalize must never use for a certificate -/
def Bad (cfg : Cfg) (p : String) : Prop := p = manifestName ∨ p = cfg.rootPath

/-- `p` holds a DER certificate whose signature verifies under the public key `rp` -/
def DerOK (rp : Nat) (st : Store) (p : String) : Prop := ∃ c, lookup st p = some (.der c) ∧ c.sigBy = rp

/-- **Consistency** (the property's clause): reloading from `st` — the manifest, if there is one, parses;
    every key version it lists resolves to a stored, parseable certificate; and a recorded primary signing
    key has a certificate that verifies under the stored root certificate.  (No manifest object: the
    authority is empty, as before any bootstrap.) -/
def Consistent (cfg : Cfg) (st : Store) : Prop :=
  match lookup st manifestName with
  | none => True
  | some (.manifest m) =>
    (∀ e ∈ m.entries, ∃ c, lookup st e.2 = some (.der c)) ∧
    (m.signing ≠ "" → ∃ path c r, lookup m.entries m.signing = some path ∧
      lookup st path = some (.der c) ∧ lookup st cfg.rootPath = some (.pem r) ∧ c.sigBy = r.pub)
  | some _ => False

/-- the invariant of a bootstrapped store: `Consistent` + every listed certificate verifies under the
    stored root + the two special objects are where they belong -/
structure Good (cfg : Cfg) (m : Manifest) (r : Cert) (st : Store) : Prop where
  man : lookup st manifestName = some (.manifest m)
  root : lookup st cfg.rootPath = some (.pem r)
  rm : cfg.rootPath ≠ manifestName
  ents : ∀ e ∈ m.entries, DerOK r.pub st e.2
  paths : ∀ e ∈ m.entries, ¬ Bad cfg e.2
  prim : m.signing ≠ "" → (lookup m.entries m.signing).isSome

theorem lookup_mem {α : Type} {l : List (String × α)} {k : String} {v : α} (h : lookup l k = some v) :
    (k, v) ∈ l := by
  induction l with
  | nil => simp [lookup] at h
  | cons hd t ih =>
    obtain ⟨k', v'⟩ := hd
    by_cases hk : k' = k
    · simp [lookup, hk] at h; simp [hk, h]
    · simp [lookup, hk] at h; exact List.mem_cons_of_mem _ (ih h)

theorem Good.consistent {cfg : Cfg} {m : Manifest} {r : Cert} {st : Store} (h : Good cfg m r st) :
    Consistent cfg st := by
  unfold Consistent
  rw [h.man]
  refine ⟨fun e he => ?_, fun hne => ?_⟩
  · obtain ⟨c, hc, _⟩ := h.ents e he; exact ⟨c, hc⟩
  · have := h.prim hne
    cases hl : lookup m.entries m.signing with
    | none => rw [hl] at this; cases this
    | some path =>
      obtain ⟨c, hc, hs⟩ := h.ents _ (lookup_mem hl)
      exact ⟨path, c, r, rfl, hc, h.root, hs⟩

/-! ### lookups after a list of writes -/

theorem applyWrites_cons (w : String × Obj) (ws : List (String × Obj)) (st : Store) :
    applyWrites (w :: ws) st = applyWrites ws (w :: st) := rfl

theorem applyWrites_append (a b : List (String × Obj)) (st : Store) :
    applyWrites (a ++ b) st = applyWrites b (applyWrites a st) := by
  unfold applyWrites; rw [List.foldl_append]

theorem lookup_applyWrites_other (ws : List (String × Obj)) (st : Store) (p : String)
    (h : ∀ w ∈ ws, w.1 ≠ p) : lookup (applyWrites ws st) p = lookup st p := by
  induction ws generalizing st with
  | nil => rfl
  | cons w t ih =>
    rw [applyWrites_cons, ih _ (fun w' hw' => h w' (List.mem_cons_of_mem _ hw'))]
    obtain ⟨k, v⟩ := w
    have : k ≠ p := h (k, v) (by simp)
    simp [lookup, this]

/-- a certificate write: not to a special object, a DER certificate verifying under `rp` -/
def UpW (cfg : Cfg) (rp : Nat) (w : String × Obj) : Prop :=
  ¬ Bad cfg w.1 ∧ ∃ c, w.2 = .der c ∧ c.sigBy = rp

theorem derOK_applyWrites {cfg : Cfg} {rp : Nat} (ws : List (String × Obj)) (st : Store) (p : String)
    (hall : ∀ w ∈ ws, UpW cfg rp w) (h : DerOK rp st p) : DerOK rp (applyWrites ws st) p := by
  induction ws generalizing st with
  | nil => exact h
  | cons w t ih =>
    rw [applyWrites_cons]
    refine ih _ (fun w' hw' => hall w' (List.mem_cons_of_mem _ hw')) ?_
    obtain ⟨k, v⟩ := w
    by_cases hk : k = p
    · obtain ⟨_, c, hc, hs⟩ := hall (k, v) (by simp)
      simp only at hc
      exact ⟨c, by simp [lookup, hk, hc], hs⟩
    · obtain ⟨c, hc, hs⟩ := h
      exact ⟨c, by simp [lookup, hk, hc], hs⟩

theorem derOK_of_written {cfg : Cfg} {rp : Nat} (ws : List (String × Obj)) (st : Store) (p : String)
    (hall : ∀ w ∈ ws, UpW cfg rp w) (hmem : p ∈ ws.map (·.1)) : DerOK rp (applyWrites ws st) p := by
  induction ws generalizing st with
  | nil => simp at hmem
  | cons w t ih =>
    rw [applyWrites_cons]
    have hall' : ∀ w' ∈ t, UpW cfg rp w' := fun w' hw' => hall w' (List.mem_cons_of_mem _ hw')
    by_cases ht : p ∈ t.map (·.1)
    · exact ih _ hall' ht
    · have hw : w.1 = p := by
        simp only [List.map_cons, List.mem_cons] at hmem
        rcases hmem with h | h
        · exact h.symm
        · exact absurd h ht
      refine derOK_applyWrites t _ p hall' ?_
      obtain ⟨_, c, hc, hs⟩ := hall w (by simp)
      obtain ⟨k, v⟩ := w
      simp only at hw hc
      exact ⟨c, by simp [lookup, hw, hc], hs⟩

/-! ### the upload loop -/

theorem lookup_withEntry_preserved (m : Manifest) (k k' n : String) (h : (lookup m.entries k).isSome) :
    lookup (withEntry m k' n).entries k = lookup m.entries k := by
  unfold withEntry
  by_cases hn : (lookup m.entries k').isNone = true
  · rw [if_pos hn]
    have : k' ≠ k := by
      intro e; rw [e] at hn
      cases hl : lookup m.entries k with
      | none => rw [hl] at h; cases h
      | some x => rw [hl] at hn; cases hn
    exact lookup_append_ne _ _ _ _ this
  · rw [if_neg hn]

theorem withEntry_isSome (m : Manifest) (k n : String) : (lookup (withEntry m k n).entries k).isSome := by
  unfold withEntry
  cases hl : lookup m.entries k with
  | none => simp [lookup_append_none _ _ _ hl]
  | some x => simp [hl]

theorem withEntry_mem (m : Manifest) (k n : String) (e : String × String) (he : e ∈ (withEntry m k n).entries) :
    e ∈ m.entries ∨ e = (k, n) := by
  unfold withEntry at he
  split at he
  · simp at he; exact he
  · exact Or.inl he

theorem mem_withEntry (m : Manifest) (k n : String) (e : String × String) (he : e ∈ m.entries) :
    e ∈ (withEntry m k n).entries := by
  unfold withEntry
  split
  · simp [he]
  · exact he

theorem uploadName_cases (cfg : Cfg) (m : Manifest) (k : String) (c : Cert) :
    uploadName cfg m k c = certObjectName cfg c ∨ ∃ e ∈ m.entries, e.2 = uploadName cfg m k c := by
  unfold uploadName
  cases hl : lookup m.entries k with
  | none => exact Or.inl rfl
  | some p => exact Or.inr ⟨(k, p), lookup_mem hl, rfl⟩

/-- everything the proofs need to know about the upload loop -/
theorem uploadWrites_facts (cfg : Cfg) (rp : Nat) (order : List (String × Cert)) (m : Manifest)
    (hpaths : ∀ e ∈ m.entries, ¬ Bad cfg e.2)
    (hord : ∀ kc ∈ order, ¬ Bad cfg (certObjectName cfg kc.2) ∧ kc.2.sigBy = rp) :
    (∀ w ∈ (uploadWrites cfg m order).1, UpW cfg rp w) ∧
    (∀ e ∈ (uploadWrites cfg m order).2.entries, ¬ Bad cfg e.2) ∧
    (∀ e ∈ (uploadWrites cfg m order).2.entries, e ∈ m.entries ∨ e.2 ∈ (uploadWrites cfg m order).1.map (·.1)) ∧
    (∀ e ∈ m.entries, e ∈ (uploadWrites cfg m order).2.entries) ∧
    (uploadWrites cfg m order).2.signing = m.signing ∧ (uploadWrites cfg m order).2.root = m.root ∧
    (∀ k, (lookup m.entries k).isSome → (lookup (uploadWrites cfg m order).2.entries k).isSome) ∧
    (∀ kc ∈ order, (lookup (uploadWrites cfg m order).2.entries kc.1).isSome) ∧
    (uploadWrites cfg m order).1.length = order.length := by
  induction order generalizing m with
  | nil =>
    refine ⟨fun w hw => (by cases hw), hpaths, fun e he => Or.inl he, fun e he => he, rfl, rfl, fun k h => h,
      fun kc h => (by cases h), rfl⟩
  | cons kc t ih =>
    obtain ⟨k, c⟩ := kc
    have hname : ¬ Bad cfg (uploadName cfg m k c) := by
      rcases uploadName_cases cfg m k c with h | ⟨e, he, h⟩
      · rw [h]; exact (hord (k, c) (by simp)).1
      · rw [← h]; exact hpaths e he
    have hpaths' : ∀ e ∈ (withEntry m k (uploadName cfg m k c)).entries, ¬ Bad cfg e.2 := by
      intro e he
      rcases withEntry_mem _ _ _ _ he with h | h
      · exact hpaths e h
      · rw [h]; exact hname
    obtain ⟨i1, i2, i3, i4, i5, i6, i7, i8, i9⟩ := ih (withEntry m k (uploadName cfg m k c)) hpaths'
      (fun kc hkc => hord kc (List.mem_cons_of_mem _ hkc))
    show (∀ w ∈ (uploadName cfg m k c, Obj.der c) :: _, UpW cfg rp w) ∧ _
    refine ⟨?_, i2, ?_, ?_, ?_, ?_, ?_, ?_, ?_⟩
    · intro w hw
      rcases List.mem_cons.mp hw with h | h
      · rw [h]; exact ⟨hname, c, rfl, (hord (k, c) (by simp)).2⟩
      · exact i1 w h
    · intro e he
      rcases i3 e he with h | h
      · rcases withEntry_mem _ _ _ _ h with h' | h'
        · exact Or.inl h'
        · refine Or.inr ?_
          show e.2 ∈ ((uploadName cfg m k c, Obj.der c) :: _).map (·.1)
          rw [h']; simp
      · refine Or.inr ?_
        show e.2 ∈ ((uploadName cfg m k c, Obj.der c) :: _).map (·.1)
        simp only [List.map_cons, List.mem_cons]; exact Or.inr h
    · intro e he; exact i4 e (mem_withEntry _ _ _ _ he)
    · show (uploadWrites cfg (withEntry m k (uploadName cfg m k c)) t).2.signing = _
      rw [i5]; unfold withEntry; split <;> rfl
    · show (uploadWrites cfg (withEntry m k (uploadName cfg m k c)) t).2.root = _
      rw [i6]; unfold withEntry; split <;> rfl
    · intro k' hk'
      refine i7 k' ?_
      rw [lookup_withEntry_preserved _ _ _ _ hk']; exact hk'
    · intro kc hkc
      rcases List.mem_cons.mp hkc with h | h
      · rw [h]; exact i7 k (withEntry_isSome _ _ _)
      · exact i8 kc h
    · show (_ :: (uploadWrites cfg (withEntry m k (uploadName cfg m k c)) t).1).length = _
      simp [i9]

/-! ### prefixes -/

theorem take_append_singleton_cases {α : Type} (a : List α) (x : α) (k : Nat) :
    (a ++ [x]).take k = a.take k ∨ (a ++ [x]).take k = a ++ [x] := by
  by_cases h : k ≤ a.length
  · exact Or.inl (List.take_append_of_le_length h)
  · exact Or.inr (List.take_of_length_le (by simp; omega))

theorem mem_take {α : Type} {l : List α} {k : Nat} {x : α} (h : x ∈ l.take k) : x ∈ l :=
  List.mem_of_mem_take h


/-! ### one Finalize -/

theorem setRoot_entries (r : Option String) (m : Manifest) : (setRoot r m).entries = m.entries := by
  unfold setRoot; cases r with
  | none => rfl
  | some r => simp only; split <;> rfl

theorem setRoot_signing (r : Option String) (m : Manifest) : (setRoot r m).signing = m.signing := by
  unfold setRoot; cases r with
  | none => rfl
  | some r => simp only; split <;> rfl

theorem setSigning_entries (k : Option String) (m : Manifest) : (setSigning k m).entries = m.entries := by
  unfold setSigning; cases k with
  | none => rfl
  | some k => simp only; split <;> rfl

theorem applyPrimaries_entries (mu : Mut) (m : Manifest) : (applyPrimaries mu m).entries = m.entries := by
  unfold applyPrimaries; rw [setSigning_entries, setRoot_entries]

theorem applyPrimaries_signing_some (mu : Mut) (m : Manifest) (k : String) (h : mu.primarySigning = some k) :
    (applyPrimaries mu m).signing = k := by
  unfold applyPrimaries
  rw [h]
  unfold setSigning
  simp only
  by_cases hk : (setRoot mu.primaryRoot m).signing = k
  · rw [if_neg (by simpa using hk)]; exact hk
  · rw [if_pos hk]

theorem applyPrimaries_signing_none (mu : Mut) (m : Manifest) (h : mu.primarySigning = none) :
    (applyPrimaries mu m).signing = m.signing := by
  unfold applyPrimaries
  rw [h]
  show (setRoot mu.primaryRoot m).signing = _
  exact setRoot_signing _ _

theorem upW_path_ne {cfg : Cfg} {rp : Nat} {w : String × Obj} (h : UpW cfg rp w) :
    w.1 ≠ manifestName ∧ w.1 ≠ cfg.rootPath :=
  ⟨fun e => h.1 (Or.inl e), fun e => h.1 (Or.inr e)⟩

/-- certificate writes keep a good store good (for the manifest that is on disk) -/
theorem Good.after_uploads {cfg : Cfg} {m : Manifest} {r : Cert} {st : Store} (h : Good cfg m r st)
    (ws : List (String × Obj)) (hall : ∀ w ∈ ws, UpW cfg r.pub w) : Good cfg m r (applyWrites ws st) :=
  ⟨by rw [lookup_applyWrites_other ws st _ (fun w hw => (upW_path_ne (hall w hw)).1)]; exact h.man,
   by rw [lookup_applyWrites_other ws st _ (fun w hw => (upW_path_ne (hall w hw)).2)]; exact h.root,
   h.rm, fun e he => derOK_applyWrites ws st _ hall (h.ents e he), h.paths, h.prim⟩

/-- the store after the manifest write that ends a Finalize -/
theorem good_after_manifest {cfg : Cfg} {rp : Cert} {st : Store} (mf : Manifest)
    (hrm : cfg.rootPath ≠ manifestName)
    (hroot : lookup st cfg.rootPath = some (.pem rp))
    (hents : ∀ e ∈ mf.entries, DerOK rp.pub st e.2)
    (hpaths : ∀ e ∈ mf.entries, ¬ Bad cfg e.2)
    (hprim : mf.signing ≠ "" → (lookup mf.entries mf.signing).isSome) :
    Good cfg mf rp ((manifestName, .manifest mf) :: st) := by
  refine ⟨by simp [lookup], by simp [lookup, Ne.symm hrm, hroot], hrm, ?_, hpaths, hprim⟩
  intro e he
  obtain ⟨c, hc, hs⟩ := hents e he
  have : manifestName ≠ e.2 := fun e' => hpaths e he (Or.inl e'.symm)
  exact ⟨c, by simp [lookup, this, hc], hs⟩

/-- Finalize of a mutation without a root certificate (a rotation) on a good store: every prefix of its
    writes is consistent and the complete result is good again.  `order` is ANY visiting order. -/
theorem finalize_rot {cfg : Cfg} {m : Manifest} {r : Cert} {st : Store} (hg : Good cfg m r st)
    (mu : Mut) (hroot : mu.rootCert = none) (order : List (String × Cert))
    (hord : ∀ kc ∈ order, ¬ Bad cfg (certObjectName cfg kc.2) ∧ kc.2.sigBy = r.pub)
    (hprim : ∀ k, mu.primarySigning = some k → k ≠ "" → (lookup m.entries k).isSome ∨ ∃ kc ∈ order, kc.1 = k) :
    (∀ k, Consistent cfg (applyPrefix k (fullWrites cfg m mu order) st)) ∧
    ∃ mf, Good cfg mf r (applyWrites (fullWrites cfg m mu order) st) := by
  have hp1 : ∀ e ∈ (applyPrimaries mu m).entries, ¬ Bad cfg e.2 := by
    rw [applyPrimaries_entries]; exact hg.paths
  obtain ⟨i1, i2, i3, i4, i5, i6, i7, i8, i9⟩ := uploadWrites_facts cfg r.pub order (applyPrimaries mu m) hp1 hord
  have hfw : fullWrites cfg m mu order = (uploadWrites cfg (applyPrimaries mu m) order).1 ++
      (if manifestChanged mu m order then
        [(manifestName, .manifest (uploadWrites cfg (applyPrimaries mu m) order).2)] else []) := by
    unfold fullWrites rootWrites; rw [hroot]; simp
  -- the complete result when the manifest is written
  have hfinal : Good cfg (uploadWrites cfg (applyPrimaries mu m) order).2 r
      ((manifestName, .manifest (uploadWrites cfg (applyPrimaries mu m) order).2) ::
        applyWrites (uploadWrites cfg (applyPrimaries mu m) order).1 st) := by
    have hup := hg.after_uploads _ i1
    refine good_after_manifest _ hg.rm hup.root ?_ i2 ?_
    · intro e he
      rcases i3 e he with h | h
      · rw [applyPrimaries_entries] at h
        exact derOK_applyWrites _ st _ i1 (hg.ents e h)
      · exact derOK_of_written _ st _ i1 h
    · rw [i5]
      intro hne
      cases hps : mu.primarySigning with
      | none =>
        rw [applyPrimaries_signing_none mu m hps] at hne ⊢
        exact i7 _ (by rw [applyPrimaries_entries]; exact hg.prim hne)
      | some k =>
        rw [applyPrimaries_signing_some mu m k hps] at hne ⊢
        rcases hprim k hps hne with h | ⟨kc, hkc, hk⟩
        · exact i7 _ (by rw [applyPrimaries_entries]; exact h)
        · rw [← hk]; exact i8 kc hkc
  rw [hfw]
  by_cases hch : manifestChanged mu m order = true
  · rw [if_pos hch]
    refine ⟨fun k => ?_, _, by rw [applyWrites_append]; exact hfinal⟩
    unfold applyPrefix
    rcases take_append_singleton_cases (uploadWrites cfg (applyPrimaries mu m) order).1 _ k with h | h
    · rw [h]
      exact (hg.after_uploads _ (fun w hw => i1 w (mem_take hw))).consistent
    · rw [h, applyWrites_append]
      exact hfinal.consistent
  · rw [if_neg hch, List.append_nil]
    refine ⟨fun k => ?_, m, hg.after_uploads _ i1⟩
    unfold applyPrefix
    exact (hg.after_uploads _ (fun w hw => i1 w (mem_take hw))).consistent

/-- Finalize of a bootstrap mutation (it carries the root certificate `rc`) on a store without a
    manifest: every prefix of its writes is consistent, and the complete result is good.  `order` is
    ANY visiting order of the pending certificates. -/
theorem finalize_boot {cfg : Cfg} {st : Store} (hno : lookup st manifestName = none)
    (hrm : cfg.rootPath ≠ manifestName) (mu : Mut) (rc : Cert) (hroot : mu.rootCert = some rc)
    (order : List (String × Cert)) (hne : order ≠ [])
    (hord : ∀ kc ∈ order, ¬ Bad cfg (certObjectName cfg kc.2) ∧ kc.2.sigBy = rc.pub)
    (hprim : ∀ k, mu.primarySigning = some k → k ≠ "" → ∃ kc ∈ order, kc.1 = k) :
    (∀ k, Consistent cfg (applyPrefix k (fullWrites cfg Manifest.empty mu order) st)) ∧
    ∃ mf, Good cfg mf rc (applyWrites (fullWrites cfg Manifest.empty mu order) st) := by
  have hp1 : ∀ e ∈ (applyPrimaries mu Manifest.empty).entries, ¬ Bad cfg e.2 := by
    rw [applyPrimaries_entries]; intro e he; cases he
  obtain ⟨i1, i2, i3, i4, i5, i6, i7, i8, i9⟩ := uploadWrites_facts cfg rc.pub order (applyPrimaries mu Manifest.empty) hp1 hord
  have hch : manifestChanged mu Manifest.empty order = true := by
    unfold manifestChanged
    cases order with
    | nil => exact absurd rfl hne
    | cons a t => simp
  have hfw : fullWrites cfg Manifest.empty mu order =
      ((uploadWrites cfg (applyPrimaries mu Manifest.empty) order).1 ++ [(cfg.rootPath, .pem rc)]) ++
        [(manifestName, .manifest (uploadWrites cfg (applyPrimaries mu Manifest.empty) order).2)] := by
    unfold fullWrites rootWrites; rw [hroot, if_pos hch]
  -- writes before the manifest never touch the manifest object
  have hA : ∀ w ∈ (uploadWrites cfg (applyPrimaries mu Manifest.empty) order).1 ++ [(cfg.rootPath, Obj.pem rc)],
      w.1 ≠ manifestName := by
    intro w hw
    rcases List.mem_append.mp hw with h | h
    · exact (upW_path_ne (i1 w h)).1
    · simp at h; rw [h]; exact hrm
  have hfinal : Good cfg (uploadWrites cfg (applyPrimaries mu Manifest.empty) order).2 rc
      ((manifestName, .manifest (uploadWrites cfg (applyPrimaries mu Manifest.empty) order).2) ::
        applyWrites ((uploadWrites cfg (applyPrimaries mu Manifest.empty) order).1 ++ [(cfg.rootPath, .pem rc)]) st) := by
    rw [applyWrites_append]
    show Good cfg _ rc (_ :: ((cfg.rootPath, Obj.pem rc) :: applyWrites (uploadWrites cfg (applyPrimaries mu Manifest.empty) order).1 st))
    refine good_after_manifest _ hrm (by simp [lookup]) ?_ i2 ?_
    · intro e he
      have hder : DerOK rc.pub (applyWrites (uploadWrites cfg (applyPrimaries mu Manifest.empty) order).1 st) e.2 := by
        rcases i3 e he with h | h
        · rw [applyPrimaries_entries] at h; cases h
        · exact derOK_of_written _ st _ i1 h
      obtain ⟨c, hc, hs⟩ := hder
      have : cfg.rootPath ≠ e.2 := fun e' => i2 e he (Or.inr e'.symm)
      exact ⟨c, by simp [lookup, this, hc], hs⟩
    · rw [i5]
      intro hne'
      cases hps : mu.primarySigning with
      | none =>
        rw [applyPrimaries_signing_none mu _ hps] at hne'
        exact absurd rfl hne'
      | some k =>
        rw [applyPrimaries_signing_some mu _ k hps] at hne' ⊢
        obtain ⟨kc, hkc, hk⟩ := hprim k hps hne'
        rw [← hk]; exact i8 kc hkc
  rw [hfw]
  refine ⟨fun k => ?_, _, by rw [applyWrites_append]; exact hfinal⟩
  unfold applyPrefix
  rcases take_append_singleton_cases ((uploadWrites cfg (applyPrimaries mu Manifest.empty) order).1 ++ [(cfg.rootPath, .pem rc)]) _ k with h | h
  · rw [h]
    unfold Consistent
    rw [lookup_applyWrites_other _ st _ (fun w hw => hA w (mem_take hw)), hno]
    trivial
  · rw [h, applyWrites_append]
    exact hfinal.consistent

/-! ### the probing log is a prefix of the planned writes -/

theorem writesOf_runPlan_prefix (ow : Bool) (st : Store) (plan : List (Bool × Bool × String × Obj)) :
    ∃ j, writesOf (runPlan ow st plan) = (plan.map (·.2.2)).take j := by
  induction plan generalizing st with
  | nil => exact ⟨0, rfl⟩
  | cons hd t ih =>
    obtain ⟨probe, claimed, p, o⟩ := hd
    unfold runPlan
    by_cases hcl : claimed = true
    · rw [if_pos hcl]; exact ⟨0, rfl⟩
    rw [if_neg hcl]
    by_cases hc : (probe && (lookup st p).isSome && !ow) = true
    · rw [if_pos hc]; exact ⟨0, rfl⟩
    · rw [if_neg hc]
      obtain ⟨j, hj⟩ := ih ((p, o) :: st)
      refine ⟨j + 1, ?_⟩
      cases probe
      · show writesOf (StoreOp.wr p o :: _) = _
        simp [writesOf, hj]
      · show writesOf (StoreOp.ex p :: StoreOp.wr p o :: _) = _
        simp [writesOf, hj]

theorem uploadPlan_writes (cfg : Cfg) (order : List (String × Cert)) (m : Manifest) :
    (uploadPlan cfg m order).map (·.2) = (uploadWrites cfg m order).1 := by
  induction order generalizing m with
  | nil => rfl
  | cons hd t ih =>
    obtain ⟨k, c⟩ := hd
    simp only [uploadPlan, uploadWrites, List.map_cons, ih]

theorem planned_writes (cfg : Cfg) (m : Manifest) (mu : Mut) (order : List (String × Cert)) :
    (planned cfg m mu order).map (·.2.2) = fullWrites cfg m mu order := by
  unfold planned fullWrites
  have hid : ∀ l : List (Bool × String × Obj),
      List.map ((fun x : Bool × Bool × String × Obj => x.2.2) ∘ fun w => (true, w)) l = l.map (·.2) := by
    intro l; induction l with
    | nil => rfl
    | cons a t ih => simp [ih]
  have hid2 : ∀ l : List (String × Obj),
      List.map ((fun x : Bool × Bool × String × Obj => x.2.2) ∘ fun w => (true, false, w)) l = l := by
    intro l; induction l with
    | nil => rfl
    | cons a t ih => simp [ih]
  rw [List.map_append, List.map_append, List.map_map, List.map_map, hid, hid2, uploadPlan_writes]
  split <;> simp

/-! ### histories, and the concrete data of the non-vacuity examples -/

/-- the stores reachable by a bootstrap of a manifest-less store followed by any number of rotations, each
    completed, each with any visiting order; `m` and `r` are the stored manifest and root certificate -/
inductive Reachable (cfg : Cfg) : Store → Manifest → Cert → Prop where
  | boot (st : Store) (rootK signK : String) (rc sc : Cert) (order : List (String × Cert)) (mf : Manifest)
      (hno : lookup st manifestName = none) (hrm : cfg.rootPath ≠ manifestName)
      (hself : rc.sigBy = rc.pub) (hsig : sc.sigBy = rc.pub)
      (hn1 : ¬ Bad cfg (certObjectName cfg rc)) (hn2 : ¬ Bad cfg (certObjectName cfg sc))
      (hperm : order.Perm (bootMut rootK signK rc sc).certs)
      (hmf : lookup (applyWrites (fullWrites cfg Manifest.empty (bootMut rootK signK rc sc) order) st) manifestName
        = some (.manifest mf)) :
      Reachable cfg (applyWrites (fullWrites cfg Manifest.empty (bootMut rootK signK rc sc) order) st) mf rc
  | rot (st : Store) (m : Manifest) (r : Cert) (kv : String) (c : Cert) (order : List (String × Cert)) (mf : Manifest)
      (hprev : Reachable cfg st m r)
      (hsig : c.sigBy = r.pub) (hn : ¬ Bad cfg (certObjectName cfg c))
      (hperm : order.Perm (rotMut kv c).certs)
      (hmf : lookup (applyWrites (fullWrites cfg m (rotMut kv c) order) st) manifestName = some (.manifest mf)) :
      Reachable cfg (applyWrites (fullWrites cfg m (rotMut kv c) order) st) mf r

def c11Cfg : Cfg := ⟨.gcsca, .memkm, "root.crt", "certs/", fun n => n ++ "_1", 2, 1, false⟩
def c11Rc : Cert := ⟨"rootcn", 1, 0, 0⟩
def c11Sc : Cert := ⟨"sigcn", 2, 1, 0⟩

end GceTcb.CA
