import GceTcb.Model.SevLd
import GceTcb.Spec.SnpLaunch
import GceTcb.Proofs.SnpVmsa
import GceTcb.Proofs.SnpSections
/-
C04 — the loops of sev/measurement.go and sev/ld_from_ovmf.go compute the SNP_LAUNCH_UPDATE digest
chain of Spec/SnpLaunch.lean.  Helper lemmas (core only).
-/
namespace GceTcb.Proofs.SnpChain
open GceTcb GceTcb.Codec GceTcb.Codecs GceTcb.GuidTable GceTcb.SevMeta GceTcb.SevLd
open GceTcb.Proofs.SnpSections (Sec)
open GceTcb.Spec.SnpLaunch (Page launchUpdate)

/-! ### PAGE_INFO -/

theorem zeros_eq (n : Nat) : Codecs.zeros n = Spec.SnpLaunch.zeros n := rfl

theorem pageInfoBytes_eq (d c : Bytes) (pt gpa : Nat) (hd : d.length = 48) (hc : c.length = 48) (hpt : pt < 256) :
    pageInfoBytes d c pt gpa = Spec.SnpLaunch.pageInfo d c pt gpa := by
  have h1 : leBytes 48 (leVal d) = d := by rw [← hd]; exact leBytes_leVal d
  have h2 : leBytes 48 (leVal c) = c := by rw [← hc]; exact leBytes_leVal c
  simp only [pageInfoBytes, Rec.enc, pageInfoRec, encF, h1, h2, Spec.SnpLaunch.pageInfo, List.append_nil,
    Nat.zero_mul, Nat.add_zero]
  have h3 : leBytes 1 pt = [UInt8.ofNat pt] := by simp [leBytes, Nat.mod_eq_of_lt hpt]
  have h4 : leBytes 1 0 = [0] := rfl
  have h5 : leBytes 4 0 = [0, 0, 0, 0] := rfl
  rw [h3, h4, h5]
  simp only [List.append_assoc]

theorem update4K_eq (H : Bytes → Bytes) (hH : ∀ x, (H x).length = 48) (d : Bytes) (hd : d.length = 48)
    (gpa : Nat) (data : Bytes) (pt : Nat) (hpt : pt < 256) :
    update4K H d gpa data pt = launchUpdate H d ⟨pt, gpa, some data⟩ := by
  simp only [update4K, launchUpdate, pageInfoBytes_eq d (H data) pt gpa hd (hH _) hpt]

theorem zeroContentUpdate4K_eq (H : Bytes → Bytes) (d : Bytes) (hd : d.length = 48) (gpa pt : Nat) (hpt : pt < 256) :
    zeroContentUpdate4K H d gpa pt = launchUpdate H d ⟨pt, gpa, none⟩ := by
  have hz : zeros48.length = 48 := List.length_replicate
  simp only [zeroContentUpdate4K, launchUpdate, pageInfoBytes_eq d zeros48 pt gpa hd hz hpt]
  rfl

theorem launchUpdate_length (H : Bytes → Bytes) (hH : ∀ x, (H x).length = 48) (d : Bytes) (p : Page) :
    (launchUpdate H d p).length = 48 := hH _

theorem foldl_launchUpdate_length (H : Bytes → Bytes) (hH : ∀ x, (H x).length = 48) (ps : List Page) (d : Bytes)
    (hd : d.length = 48) : (ps.foldl (launchUpdate H) d).length = 48 := by
  induction ps generalizing d with
  | nil => exact hd
  | cons p ps ih => exact ih _ (hH _)

/-! ### slices with natural-number bounds -/

theorem slice_nat (site : String) (s : Bytes) (a b : Nat) (h : a ≤ b ∧ b ≤ s.length) :
    slice site s (a : Int) (b : Int) = .ok ((s.drop a).take (b - a)) := by
  unfold slice
  rw [if_pos (by omega)]
  simp only [Int.toNat_natCast]

theorem slice_no_panic_nat (site : String) (s : Bytes) (a b : Nat) (h : a ≤ b ∧ b ≤ s.length) (p : String) :
    slice site s (a : Int) (b : Int) ≠ .panic p := by
  rw [slice_nat site s a b h]; simp

/-! ### Update: the ROM pages -/

/-- the pages the loop of Update hands to Update4K, starting at byte `off` -/
def dataPages (pt gpa : Nat) (data : Bytes) (off k : Nat) : List Page :=
  (List.range k).map fun i => ⟨pt, (gpa + (off + 4096 * i)) % 2 ^ 64, some ((data.drop (off + 4096 * i)).take 4096)⟩

theorem dataPages_succ (pt gpa : Nat) (data : Bytes) (off k : Nat) :
    dataPages pt gpa data off (k + 1) =
      ⟨pt, (gpa + off) % 2 ^ 64, some ((data.drop off).take 4096)⟩ :: dataPages pt gpa data (off + 4096) k := by
  simp only [dataPages, List.range_succ_eq_map, List.map_cons, List.map_map, Nat.mul_zero, Nat.add_zero]
  refine congrArg (List.cons _) ?_
  apply List.map_congr_left
  intro i _
  simp only [Function.comp, Nat.succ_eq_add_one]
  have : off + 4096 * (i + 1) = off + 4096 + 4096 * i := by omega
  rw [this]

theorem updatePages_eq (H : Bytes → Bytes) (hH : ∀ x, (H x).length = 48) (pt gpa : Nat) (hpt : pt < 256)
    (data : Bytes) (k off : Nat) (d : Bytes) (hd : d.length = 48) (hfit : off + 4096 * k ≤ data.length) :
    updatePages H pt gpa data k off d = .ok ((dataPages pt gpa data off k).foldl (launchUpdate H) d) := by
  induction k generalizing off d with
  | zero => simp [updatePages, dataPages]
  | succ k ih =>
    have hs : slice "sev.SnpMeasurement.Update#0:slice" data (off : Int) ((off : Int) + 4096)
        = .ok ((data.drop off).take 4096) := by
      have := slice_nat "sev.SnpMeasurement.Update#0:slice" data off (off + 4096) (by omega)
      simpa using this
    rw [updatePages, hs, dataPages_succ, List.foldl_cons]
    simp only
    rw [update4K_eq H hH d hd _ _ pt hpt]
    exact ih (off + 4096) _ (hH _) (by omega)

/-! ### ZeroContentUpdate: metadata pages -/

theorem zeroPages_eq (H : Bytes → Bytes) (hH : ∀ x, (H x).length = 48) (pt : Nat) (hpt : pt < 256) (k gpa : Nat)
    (d : Bytes) (hd : d.length = 48) (hfit : gpa + 4096 * k ≤ 2 ^ 64) :
    zeroPages H pt k gpa d =
      ((List.range k).map fun i => (⟨pt, gpa + 4096 * i, none⟩ : Page)).foldl (launchUpdate H) d := by
  induction k generalizing gpa d with
  | zero => simp [zeroPages]
  | succ k ih =>
    rw [zeroPages, List.range_succ_eq_map, List.map_cons, List.foldl_cons, List.map_map,
      zeroContentUpdate4K_eq H d hd gpa pt hpt]
    have hmod : (gpa + 4096) % 2 ^ 64 = gpa + 4096 ∨ k = 0 := by
      by_cases hk : k = 0
      · exact Or.inr hk
      · left; apply Nat.mod_eq_of_lt; omega
    rcases hmod with hmod | hk
    · rw [hmod, ih (gpa + 4096) _ (launchUpdate_length H hH _ _) (by omega)]
      simp only [Nat.mul_zero, Nat.add_zero]
      refine congrArg (List.foldl _ _) ?_
      apply List.map_congr_left
      intro i _
      simp only [Function.comp, Nat.succ_eq_add_one]
      have : gpa + 4096 * (i + 1) = gpa + 4096 + 4096 * i := by omega
      rw [this]
    · subst hk
      simp [zeroPages]

/-! ### address widths -/

/-- a guest-physical address width for which the measurement is defined: Milan 48, Genoa 52 -/
structure WidthOK (w : Nat) : Prop where
  lo : 33 ≤ w
  hi : w ≤ 63

theorem pow_facts (w : Nat) (h : WidthOK w) : 2 ^ 33 ≤ 2 ^ w ∧ 2 ^ w ≤ 2 ^ 63 ∧ 2 ^ w % 4096 = 0 := by
  refine ⟨Nat.pow_le_pow_right (by decide) h.lo, Nat.pow_le_pow_right (by decide) h.hi, ?_⟩
  have : 2 ^ w = 4096 * 2 ^ (w - 12) := by
    have h12 : w = 12 + (w - 12) := by have := h.lo; omega
    conv => lhs; rw [h12, Nat.pow_add]
  rw [this]; exact Nat.mul_mod_right _ _

theorem productHigh_eq (w : Nat) (h : WidthOK w) : productHigh w = 2 ^ w - 4096 := by
  obtain ⟨h1, h2, h3⟩ := pow_facts w h
  unfold productHigh
  generalize 2 ^ w = P at *
  simp only
  omega

theorem specProductHigh_eq (w : Nat) (h : WidthOK w) : Spec.SnpLaunch.productHigh w = 2 ^ w - 4096 := by
  obtain ⟨h1, h2, h3⟩ := pow_facts w h
  unfold Spec.SnpLaunch.productHigh
  generalize 2 ^ w = P at *
  omega

/-! ### the ROM -/

theorem checkAlign_rom (w : Nat) (h : WidthOK w) (len : Nat) (hlen : len < 2 ^ 63) :
    checkAlign (productHigh w) (romBase len) (len % 2 ^ 32) = none ↔ len % 4096 = 0 ∧ len ≤ 2 ^ 32 := by
  obtain ⟨h1, h2, h3⟩ := pow_facts w h
  rw [productHigh_eq w h]
  unfold checkAlign romBase
  generalize 2 ^ w = P at *
  constructor
  · intro hc
    split at hc; · cases hc
    split at hc; · cases hc
    split at hc; · cases hc
    omega
  · rintro ⟨ha, hb⟩
    rw [if_neg (by omega), if_neg (by omega), if_neg (by omega)]

theorem romPages_eq (fw : Bytes) (hlen : fw.length ≤ 2 ^ 32) :
    dataPages pageTypeNormal (romBase fw.length) fw 0 (fw.length / 4096) = Spec.SnpLaunch.romPages fw := by
  unfold dataPages Spec.SnpLaunch.romPages romBase
  apply List.map_congr_left
  intro i hi
  have hi' := List.mem_range.mp hi
  have : (2 ^ 32 + 2 ^ 64 - fw.length % 2 ^ 64) % 2 ^ 64 = 2 ^ 32 - fw.length := by omega
  rw [this]
  have h2 : (2 ^ 32 - fw.length + (0 + 4096 * i)) % 2 ^ 64 = 2 ^ 32 - fw.length + 4096 * i := by omega
  rw [h2, Nat.zero_add]
  rfl

theorem update_rom (H : Bytes → Bytes) (hH : ∀ x, (H x).length = 48) (w : Nat) (h : WidthOK w) (fw : Bytes)
    (ha : fw.length % 4096 = 0) (hb : fw.length ≤ 2 ^ 32) :
    update H (productHigh w) zeros48 (romBase fw.length) fw pageTypeNormal
      = .ok ((Spec.SnpLaunch.romPages fw).foldl (launchUpdate H) (Spec.SnpLaunch.zeros 48)) := by
  unfold update
  rw [(checkAlign_rom w h fw.length (by omega)).mpr ⟨ha, hb⟩]
  simp only
  have hk : (fw.length + 4095) / 4096 = fw.length / 4096 := by omega
  rw [hk, updatePages_eq H hH pageTypeNormal _ (by decide) fw _ 0 zeros48 List.length_replicate (by omega),
    romPages_eq fw hb]
  rfl

/-! ### metadata sections -/

def toSpec (s : Sec) : Spec.SnpLaunch.Section := ⟨s.address, s.length, s.kind⟩

def KindKnown (s : Sec) : Prop :=
  s.kind = kindUnmeasured ∨ s.kind = kindSecret ∨ s.kind = kindCpuid ∨ s.kind = kindSvsmCaa

theorem sectionPageType_some (kind : Nat)
    (h : kind = kindUnmeasured ∨ kind = kindSecret ∨ kind = kindCpuid ∨ kind = kindSvsmCaa) :
    sectionPageType kind = some (Spec.SnpLaunch.kindPageType kind) ∧ Spec.SnpLaunch.kindPageType kind < 256 ∧
    Spec.SnpLaunch.kindPageType kind ≠ pageTypeVmsa ∧ Spec.SnpLaunch.kindPageType kind ≠ pageTypeNormal ∧
    (Spec.SnpLaunch.kindPageType kind = pageTypeUnmeasured ∨ Spec.SnpLaunch.kindPageType kind = pageTypeSecret ∨
     Spec.SnpLaunch.kindPageType kind = pageTypeCpuid ∨ Spec.SnpLaunch.kindPageType kind = pageTypeZero) := by
  rcases h with rfl | rfl | rfl | rfl <;> decide

theorem sectionPageType_none (kind : Nat)
    (h : ¬ (kind = kindUnmeasured ∨ kind = kindSecret ∨ kind = kindCpuid ∨ kind = kindSvsmCaa)) :
    sectionPageType kind = none := by
  unfold sectionPageType
  simp only [not_or] at h
  rw [if_neg h.1, if_neg h.2.1, if_neg h.2.2.1, if_neg h.2.2.2]

theorem checkAlign_sec (w : Nat) (h : WidthOK w) (a l : Nat) (ha : a < 2 ^ 32) (hl : l < 2 ^ 32) :
    checkAlign (productHigh w) a l = none ↔ a % 4096 = 0 ∧ l % 4096 = 0 := by
  obtain ⟨h1, h2, h3⟩ := pow_facts w h
  rw [productHigh_eq w h]
  unfold checkAlign
  generalize 2 ^ w = P at *
  constructor
  · intro hc
    split at hc; · cases hc
    split at hc; · cases hc
    omega
  · rintro ⟨h4, h5⟩
    rw [if_neg (by omega), if_neg (by omega), if_neg (by omega)]

theorem zeroContentUpdate_sec (H : Bytes → Bytes) (hH : ∀ x, (H x).length = 48) (w : Nat) (h : WidthOK w) (s : Sec)
    (hk : KindKnown s) (ha : s.address < 2 ^ 32) (hl : s.length < 2 ^ 32) (d : Bytes) (hd : d.length = 48)
    (h4 : s.address % 4096 = 0) (h5 : s.length % 4096 = 0) :
    zeroContentUpdate H (productHigh w) d s.address s.length (Spec.SnpLaunch.kindPageType s.kind)
      = .ok ((Spec.SnpLaunch.sectionPages (toSpec s)).foldl (launchUpdate H) d) := by
  obtain ⟨_, hlt, hn2, hn1, hin⟩ := sectionPageType_some s.kind hk
  unfold zeroContentUpdate
  rw [if_neg hn2, if_neg hn1, if_neg (fun hn => hn hin), (checkAlign_sec w h _ _ ha hl).mpr ⟨h4, h5⟩]
  simp only
  have ht : tripCount s.address ((s.address + s.length) % 2 ^ 64) = s.length / 4096 := by
    unfold tripCount; omega
  rw [ht, zeroPages_eq H hH _ hlt _ _ d hd (by omega)]
  rfl

/-- what the section loop requires of each descriptor beyond validateSections -/
def SecMeasurable (s : Sec) : Prop := KindKnown s ∧ s.address % 4096 = 0 ∧ s.length % 4096 = 0

def SecInRange (s : Sec) : Prop := s.address < 2 ^ 32 ∧ s.length < 2 ^ 32

theorem measureSections_no_panic (H : Bytes → Bytes) (high : Nat) (secs : List Sec) (d : Bytes) (p : String) :
    measureSections H high secs d ≠ .panic p := by
  induction secs generalizing d with
  | nil => simp [measureSections]
  | cons s rest ih =>
    unfold measureSections
    split
    · simp
    · rename_i pt _
      cases hz : zeroContentUpdate H high d s.address s.length pt with
      | ok d' => simp only; exact ih d'
      | err c => simp
      | panic q =>
        exfalso
        unfold zeroContentUpdate at hz
        split at hz; · cases hz
        split at hz; · cases hz
        split at hz; · cases hz
        split at hz <;> cases hz

theorem measureSections_eq (H : Bytes → Bytes) (hH : ∀ x, (H x).length = 48) (w : Nat) (h : WidthOK w)
    (secs : List Sec) (hr : ∀ s ∈ secs, SecInRange s) (d : Bytes) (hd : d.length = 48) (d' : Bytes) :
    measureSections H (productHigh w) secs d = .ok d' ↔
      (∀ s ∈ secs, SecMeasurable s) ∧
      d' = ((secs.map toSpec).flatMap Spec.SnpLaunch.sectionPages).foldl (launchUpdate H) d := by
  induction secs generalizing d with
  | nil =>
    simp only [measureSections, List.not_mem_nil, false_implies, implies_true, true_and, List.map_nil,
      List.flatMap_nil, List.foldl_nil]
    constructor
    · intro h; cases h; rfl
    · rintro rfl; rfl
  | cons s rest ih =>
    have hrs := hr s List.mem_cons_self
    have hrr : ∀ x ∈ rest, SecInRange x := fun x hx => hr x (List.mem_cons_of_mem _ hx)
    unfold measureSections
    by_cases hk : KindKnown s
    · obtain ⟨hpt, _⟩ := sectionPageType_some s.kind hk
      rw [hpt]
      simp only
      by_cases hal : s.address % 4096 = 0 ∧ s.length % 4096 = 0
      · rw [zeroContentUpdate_sec H hH w h s hk hrs.1 hrs.2 d hd hal.1 hal.2]
        simp only
        rw [ih hrr _ (foldl_launchUpdate_length H hH _ d hd)]
        simp only [List.map_cons, List.flatMap_cons, List.foldl_append]
        constructor
        · rintro ⟨hm, rfl⟩
          refine ⟨?_, rfl⟩
          intro x hx
          rcases List.mem_cons.mp hx with rfl | hx
          · exact ⟨hk, hal.1, hal.2⟩
          · exact hm x hx
        · rintro ⟨hm, rfl⟩
          exact ⟨fun x hx => hm x (List.mem_cons_of_mem _ hx), rfl⟩
      · have hz : ∃ c, zeroContentUpdate H (productHigh w) d s.address s.length (Spec.SnpLaunch.kindPageType s.kind) = .err c := by
          obtain ⟨_, hlt, hn2, hn1, hin⟩ := sectionPageType_some s.kind hk
          unfold zeroContentUpdate
          rw [if_neg hn2, if_neg hn1, if_neg (fun hn => hn hin)]
          cases hc : checkAlign (productHigh w) s.address s.length with
          | none => exact absurd ((checkAlign_sec w h _ _ hrs.1 hrs.2).mp hc) hal
          | some c => exact ⟨c, rfl⟩
        obtain ⟨c, hz⟩ := hz
        rw [hz]
        simp only
        constructor
        · intro h; cases h
        · rintro ⟨hm, _⟩
          exact absurd (hm s List.mem_cons_self).2 hal
    · rw [sectionPageType_none s.kind hk]
      simp only
      constructor
      · intro h; cases h
      · rintro ⟨hm, _⟩
        exact absurd (hm s List.mem_cons_self).1 hk

end GceTcb.Proofs.SnpChain
