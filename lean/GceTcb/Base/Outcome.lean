/-
Outcome of a decoder / analysis step: a value, an error the Go code returns, or a panic at a named
site (index / slice / make / nil dereference that Go would turn into a run-time panic).
-/
namespace GceTcb

inductive Outcome (α : Type) where
  | ok (a : α)
  | err (cls : String)
  | panic (site : String)
deriving Repr, DecidableEq

namespace Outcome

@[inline] def bind {α β : Type} (x : Outcome α) (f : α → Outcome β) : Outcome β :=
  match x with
  | ok a => f a
  | err c => err c
  | panic s => panic s

instance : Monad Outcome where
  pure := ok
  bind := bind

def isPanic {α : Type} : Outcome α → Bool
  | panic _ => true
  | _ => false

def isOk {α : Type} : Outcome α → Bool
  | ok _ => true
  | _ => false

/-- canonical class string for the line protocol -/
def cls {α : Type} (show_ : α → String) : Outcome α → String
  | ok a => "ok " ++ show_ a
  | err c => "reject=" ++ c
  | panic s => "panic=" ++ s

@[simp] theorem bind_ok {α β : Type} (a : α) (f : α → Outcome β) : (ok a >>= f) = f a := rfl
@[simp] theorem bind_err {α β : Type} (c : String) (f : α → Outcome β) : ((err c : Outcome α) >>= f) = err c := rfl
@[simp] theorem bind_panic {α β : Type} (s : String) (f : α → Outcome β) : ((panic s : Outcome α) >>= f) = panic s := rfl
@[simp] theorem pure_eq {α : Type} (a : α) : (pure a : Outcome α) = ok a := rfl

end Outcome
end GceTcb
