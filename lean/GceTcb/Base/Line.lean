/-
Line protocol helpers shared by every driver handler (core-only; no Mathlib).
One case per line: `<stream> key=value key=value ...`; bytes in lowercase hex; lists comma-separated.
-/
namespace GceTcb

abbrev Bytes := List UInt8

def hexDigit (n : Nat) : Char :=
  if n < 10 then Char.ofNat (48 + n) else Char.ofNat (87 + n)

def hexByte (b : UInt8) : String :=
  String.ofList [hexDigit (b.toNat / 16), hexDigit (b.toNat % 16)]

def hexEncode (bs : Bytes) : String :=
  String.join (bs.map hexByte)

def hexVal? (c : Char) : Option Nat :=
  if '0' ≤ c ∧ c ≤ '9' then some (c.toNat - 48)
  else if 'a' ≤ c ∧ c ≤ 'f' then some (c.toNat - 87)
  else if 'A' ≤ c ∧ c ≤ 'F' then some (c.toNat - 55)
  else none

def hexDecodeChars : List Char → Option Bytes
  | [] => some []
  | [_] => none
  | a :: b :: rest => do
    let x ← hexVal? a
    let y ← hexVal? b
    let t ← hexDecodeChars rest
    pure (UInt8.ofNat (x * 16 + y) :: t)

def hexDecode (s : String) : Option Bytes := hexDecodeChars s.toList

/-- key=value fields of a protocol line (after the stream token). -/
structure Fields where
  kv : List (String × String)

def Fields.parse (toks : List String) : Fields :=
  ⟨toks.filterMap fun t =>
    match t.splitOn "=" with
    | [] => none
    | [k] => some (k, "")
    | k :: rest => some (k, "=".intercalate rest)⟩

def Fields.get (f : Fields) (k : String) : String :=
  match f.kv.find? (fun p => p.1 == k) with
  | some p => p.2
  | none => ""

def Fields.has (f : Fields) (k : String) : Bool := f.kv.any (fun p => p.1 == k)

def Fields.nat (f : Fields) (k : String) : Nat := (f.get k).toNat?.getD 0

def Fields.int (f : Fields) (k : String) : Int := (f.get k).toInt?.getD 0

def Fields.bool (f : Fields) (k : String) : Bool := f.get k == "1"

def Fields.bytes (f : Fields) (k : String) : Bytes := (hexDecode (f.get k)).getD []

def Fields.list (f : Fields) (k : String) : List String :=
  let v := f.get k
  if v == "" then [] else v.splitOn ","

def splitLine (line : String) : List String :=
  ((line.trimAscii.toString).splitOn " ").filter (· ≠ "")

end GceTcb
