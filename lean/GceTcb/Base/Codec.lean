/-
Little-endian fixed-width codecs over `Nat` and `List UInt8`, with the round-trip lemmas every
binary-layout theorem rests on.  Core-only; proofs use `omega`/`simp` (axioms: propext, Quot.sound).
-/
namespace GceTcb.Codec

/-- `n` little-endian bytes of `v` (the value is truncated modulo `256^n`, like a Go conversion). -/
def leBytes : Nat → Nat → List UInt8
  | 0, _ => []
  | n + 1, v => UInt8.ofNat (v % 256) :: leBytes n (v / 256)

/-- Value of a little-endian byte string. -/
def leVal : List UInt8 → Nat
  | [] => 0
  | b :: bs => b.toNat + 256 * leVal bs

@[simp] theorem leBytes_length (n v : Nat) : (leBytes n v).length = n := by
  induction n generalizing v with
  | zero => rfl
  | succ n ih => simp [leBytes, ih]

theorem leVal_lt (bs : List UInt8) : leVal bs < 256 ^ bs.length := by
  induction bs with
  | nil => simp [leVal]
  | cons b bs ih =>
    simp only [leVal, List.length_cons, Nat.pow_succ]
    have := b.toNat_lt
    omega

theorem leVal_leBytes (n v : Nat) : leVal (leBytes n v) = v % 256 ^ n := by
  induction n generalizing v with
  | zero => simp [leBytes, leVal, Nat.mod_one]
  | succ n ih =>
    simp only [leBytes, leVal, ih]
    have h1 : (UInt8.ofNat (v % 256)).toNat = v % 256 := by
      simp [UInt8.toNat_ofNat']
    rw [h1, Nat.pow_succ, Nat.mul_comm (256 ^ n) 256, Nat.mod_mul]

theorem leBytes_leVal (bs : List UInt8) : leBytes bs.length (leVal bs) = bs := by
  induction bs with
  | nil => rfl
  | cons b bs ih =>
    simp only [List.length_cons, leBytes, leVal]
    have hb := b.toNat_lt
    have h1 : (b.toNat + 256 * leVal bs) % 256 = b.toNat := by omega
    have h2 : (b.toNat + 256 * leVal bs) / 256 = leVal bs := by omega
    rw [h1, h2, ih]
    simp

/-- An in-range value survives the round trip. -/
theorem leVal_leBytes_of_lt (n v : Nat) (h : v < 256 ^ n) : leVal (leBytes n v) = v := by
  rw [leVal_leBytes, Nat.mod_eq_of_lt h]

theorem leBytes_injective (n a b : Nat) (ha : a < 256 ^ n) (hb : b < 256 ^ n)
    (h : leBytes n a = leBytes n b) : a = b := by
  have := congrArg leVal h
  rwa [leVal_leBytes_of_lt n a ha, leVal_leBytes_of_lt n b hb] at this

/-- `take`/`drop` based field access used by decoders. -/
def field (bs : List UInt8) (off len : Nat) : List UInt8 := (bs.drop off).take len

theorem field_length (bs : List UInt8) (off len : Nat) (h : off + len ≤ bs.length) :
    (field bs off len).length = len := by
  simp [field]; omega

end GceTcb.Codec
