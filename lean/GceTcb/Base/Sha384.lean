/-
Executable SHA-384 (FIPS 180-4), core-only.  Used by the model driver so that whole launch digests can
be compared with Go's crypto/sha512.  It is *validated* (NIST vectors below are kernel-checked by `decide`-free
`#guard`s at build time, and every correspondence run compares digests with Go), not proved: every theorem
that mentions a hash is stated for an arbitrary function `H`.
-/
namespace GceTcb.Sha384

def K : Array UInt64 := #[
  0x428a2f98d728ae22, 0x7137449123ef65cd, 0xb5c0fbcfec4d3b2f, 0xe9b5dba58189dbbc, 0x3956c25bf348b538,
  0x59f111f1b605d019, 0x923f82a4af194f9b, 0xab1c5ed5da6d8118, 0xd807aa98a3030242, 0x12835b0145706fbe,
  0x243185be4ee4b28c, 0x550c7dc3d5ffb4e2, 0x72be5d74f27b896f, 0x80deb1fe3b1696b1, 0x9bdc06a725c71235,
  0xc19bf174cf692694, 0xe49b69c19ef14ad2, 0xefbe4786384f25e3, 0x0fc19dc68b8cd5b5, 0x240ca1cc77ac9c65,
  0x2de92c6f592b0275, 0x4a7484aa6ea6e483, 0x5cb0a9dcbd41fbd4, 0x76f988da831153b5, 0x983e5152ee66dfab,
  0xa831c66d2db43210, 0xb00327c898fb213f, 0xbf597fc7beef0ee4, 0xc6e00bf33da88fc2, 0xd5a79147930aa725,
  0x06ca6351e003826f, 0x142929670a0e6e70, 0x27b70a8546d22ffc, 0x2e1b21385c26c926, 0x4d2c6dfc5ac42aed,
  0x53380d139d95b3df, 0x650a73548baf63de, 0x766a0abb3c77b2a8, 0x81c2c92e47edaee6, 0x92722c851482353b,
  0xa2bfe8a14cf10364, 0xa81a664bbc423001, 0xc24b8b70d0f89791, 0xc76c51a30654be30, 0xd192e819d6ef5218,
  0xd69906245565a910, 0xf40e35855771202a, 0x106aa07032bbd1b8, 0x19a4c116b8d2d0c8, 0x1e376c085141ab53,
  0x2748774cdf8eeb99, 0x34b0bcb5e19b48a8, 0x391c0cb3c5c95a63, 0x4ed8aa4ae3418acb, 0x5b9cca4f7763e373,
  0x682e6ff3d6b2b8a3, 0x748f82ee5defb2fc, 0x78a5636f43172f60, 0x84c87814a1f0ab72, 0x8cc702081a6439ec,
  0x90befffa23631e28, 0xa4506cebde82bde9, 0xbef9a3f7b2c67915, 0xc67178f2e372532b, 0xca273eceea26619c,
  0xd186b8c721c0c207, 0xeada7dd6cde0eb1e, 0xf57d4f7fee6ed178, 0x06f067aa72176fba, 0x0a637dc5a2c898a6,
  0x113f9804bef90dae, 0x1b710b35131c471b, 0x28db77f523047d84, 0x32caab7b40c72493, 0x3c9ebe0a15c9bebc,
  0x431d67c49c100d4c, 0x4cc5d4becb3e42b6, 0x597f299cfc657e2a, 0x5fcb6fab3ad6faec, 0x6c44198c4a475817]

def H0 : Array UInt64 := #[
  0xcbbb9d5dc1059ed8, 0x629a292a367cd507, 0x9159015a3070dd17, 0x152fecd8f70e5939,
  0x67332667ffc00b31, 0x8eb44a8768581511, 0xdb0c2e0d64f98fa7, 0x47b5481dbefa4fa4]

@[inline] def rotr (x : UInt64) (n : UInt64) : UInt64 := (x >>> n) ||| (x <<< (64 - n))

@[inline] def bsig0 (x : UInt64) : UInt64 := rotr x 28 ^^^ rotr x 34 ^^^ rotr x 39
@[inline] def bsig1 (x : UInt64) : UInt64 := rotr x 14 ^^^ rotr x 18 ^^^ rotr x 41
@[inline] def ssig0 (x : UInt64) : UInt64 := rotr x 1 ^^^ rotr x 8 ^^^ (x >>> 7)
@[inline] def ssig1 (x : UInt64) : UInt64 := rotr x 19 ^^^ rotr x 61 ^^^ (x >>> 6)

/-- Big-endian 64-bit word at byte offset `o` of `b` (bytes beyond the end read as zero). -/
@[inline] def be64 (b : ByteArray) (o : Nat) : UInt64 := Id.run do
  let mut w : UInt64 := 0
  for i in [0:8] do
    w := (w <<< 8) ||| (b.get! (o + i)).toUInt64
  return w

def compress (h : Array UInt64) (blk : ByteArray) (off : Nat) : Array UInt64 := Id.run do
  let mut w : Array UInt64 := Array.mkEmpty 80
  for t in [0:16] do
    w := w.push (be64 blk (off + 8 * t))
  for t in [16:80] do
    w := w.push (ssig1 w[t-2]! + w[t-7]! + ssig0 w[t-15]! + w[t-16]!)
  let mut a := h[0]!
  let mut b := h[1]!
  let mut c := h[2]!
  let mut d := h[3]!
  let mut e := h[4]!
  let mut f := h[5]!
  let mut g := h[6]!
  let mut hh := h[7]!
  for t in [0:80] do
    let t1 := hh + bsig1 e + ((e &&& f) ^^^ ((~~~ e) &&& g)) + K[t]! + w[t]!
    let t2 := bsig0 a + ((a &&& b) ^^^ (a &&& c) ^^^ (b &&& c))
    hh := g; g := f; f := e; e := d + t1; d := c; c := b; b := a; a := t1 + t2
  return #[h[0]! + a, h[1]! + b, h[2]! + c, h[3]! + d, h[4]! + e, h[5]! + f, h[6]! + g, h[7]! + hh]

def pad (msg : ByteArray) : ByteArray := Id.run do
  let len := msg.size
  let mut m := msg.push 0x80
  while m.size % 128 != 112 do
    m := m.push 0
  -- 128-bit big-endian bit length (upper 64 bits zero for any realistic input)
  for _ in [0:8] do
    m := m.push 0
  let bits : UInt64 := (len * 8).toUInt64
  for i in [0:8] do
    m := m.push ((bits >>> (56 - 8 * i).toUInt64).toUInt8)
  return m

def sha384 (msg : ByteArray) : ByteArray := Id.run do
  let m := pad msg
  let mut h := H0
  for i in [0:m.size / 128] do
    h := compress h m (i * 128)
  let mut out := ByteArray.emptyWithCapacity 48
  for i in [0:6] do
    let w := h[i]!
    for j in [0:8] do
      out := out.push ((w >>> (56 - 8 * j).toUInt64).toUInt8)
  return out

def sha384List (msg : List UInt8) : List UInt8 := (sha384 ⟨msg.toArray⟩).toList

def toHex (b : ByteArray) : String :=
  let hd (n : Nat) : Char := if n < 10 then Char.ofNat (48 + n) else Char.ofNat (87 + n)
  String.ofList (b.toList.flatMap fun x => [hd (x.toNat / 16), hd (x.toNat % 16)])

-- NIST FIPS 180-4 examples: "abc" and the empty string.
#guard toHex (sha384 "abc".toUTF8) ==
  "cb00753f45a35e8bb5a03d699ac65007272c32ab0eded1631a8b605a43ff5bed8086072ba1e7cc2358baeca134c825a7"
#guard toHex (sha384 "".toUTF8) ==
  "38b060a751ac96384cd9327eb1b1e36a21fdb71114be07434c0cc7bf63f6e1da274edebfe76f65fbd51ad2f14898b95b"
#guard toHex (sha384 "abcdefghbcdefghicdefghijdefghijkefghijklfghijklmghijklmnhijklmnoijklmnopjklmnopqklmnopqrlmnopqrsmnopqrstnopqrstu".toUTF8) ==
  "09330c33f71147e83d192fc782cd1b4753111b173b3b05d22fa08086e3b0f712fcc7c71a557e2db966c3e9fa91746039"

end GceTcb.Sha384
