/-
C05 — specification of "guest RAM not covered by a declared section": for each RAM bank in ascending
order, the maximal sub-intervals of the bank that no private range touches.  Written from the set
reading (no two-pointer walk, no sortedness assumption on the private ranges); mathematical naturals,
no wrap-around.  Core-only.
-/
namespace GceTcb.Spec.Intervals

/-- A half-open interval `[lo, hi)` of guest physical addresses. -/
structure Iv where
  lo : Nat
  hi : Nat
deriving DecidableEq, Repr

def Iv.mem (x : Nat) (i : Iv) : Prop := i.lo ≤ x ∧ x < i.hi
def Iv.nonempty (i : Iv) : Bool := i.lo < i.hi

/-- `q` minus `p`: the (at most two) maximal sub-intervals of `q` outside `p`. -/
def cut (q p : Iv) : List Iv :=
  if p.hi ≤ p.lo ∨ p.hi ≤ q.lo ∨ q.hi ≤ p.lo then [q]
  else (if q.lo < p.lo then [⟨q.lo, p.lo⟩] else []) ++ (if p.hi < q.hi then [⟨p.hi, q.hi⟩] else [])

/-- every piece minus `p` -/
def minus (qs : List Iv) (p : Iv) : List Iv := qs.flatMap (cut · p)

/-- a bank minus all private ranges (in any order) -/
def subtract (b : Iv) (priv : List Iv) : List Iv := priv.foldl minus [b]

def insertAsc (a : Iv) : List Iv → List Iv
  | [] => [a]
  | b :: t => if b.lo < a.lo then b :: insertAsc a t else a :: b :: t

/-- banks in ascending order of their start -/
def sortAsc : List Iv → List Iv
  | [] => []
  | a :: t => insertAsc a (sortAsc t)

/-- RAM minus private ranges: for each non-empty bank, ascending, its maximal uncovered sub-intervals. -/
def difference (ram priv : List Iv) : List Iv :=
  (sortAsc (ram.filter Iv.nonempty)).flatMap (subtract · priv)

end GceTcb.Spec.Intervals
