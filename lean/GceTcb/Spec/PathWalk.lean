import GceTcb.Model.PathParse
/-
Specification for C19: what "the value addressed by a path" means, independent of access.go.

Written from the protobuf data model (protoreflect's documented semantics), not from the code under
test: a message value is its type's full name plus the populated fields by number; reading an
unpopulated field yields the field's default (zero scalar, empty message, empty list, empty map);
lists are indexed from 0; maps are looked up by key equality.  `walk` follows a path's steps through
a value field by field and never consults a descriptor cursor: a field access reads the field the
step names, a list index must be in range, a map key must be present — otherwise an error.
The step and field-descriptor types are shared with the parser model (Model/PathParse.lean).
-/
namespace GceTcb.Path

-- a value as protoreflect exposes it (scalar, message, list, map)
inductive Value
  | scalar (s : Scalar)
  | msg (ty : Str) (fields : List (Nat × Value))
  | list (elems : List Value)
  | map (kc : VClass) (entries : List (Scalar × Value))
deriving Repr

/-- zero value of a scalar Go type class -/
def zeroScalar (c : VClass) : Scalar := ⟨c, 0, []⟩

/-- default of an element of kind (kind, ref): zero scalar or the empty message -/
def defaultElem (fd : Field) : Value :=
  match fd.kind.cls with
  | some c => .scalar (zeroScalar c)
  | none => .msg fd.ref []

/-- what `Message.Get(fd)` returns for an unpopulated field -/
def defaultOf (fd : Field) : Value :=
  match fd.card with
  | .single => defaultElem fd
  | .list => .list []
  | .map kk => .map (kk.cls.getD .i32) []

def lookupField (fs : List (Nat × Value)) (n : Nat) : Option Value :=
  match fs.find? (fun p => p.1 == n) with
  | some p => some p.2
  | none => none

def lookupKey (es : List (Scalar × Value)) (k : Scalar) : Option Value :=
  match es.find? (fun p => p.1 == k) with
  | some p => some p.2
  | none => none

/-- go: cursor.Message().Get(fd) without the API's panics (used by the specification) -/
def msgGet (fs : List (Nat × Value)) (fd : Field) : Value :=
  match lookupField fs fd.number with
  | some v => v
  | none => defaultOf fd

/-! ### specification: walk the message field by field, ignoring descriptors -/

def walkStep (cur : Value) : Step → Outcome Value
  | .root _ => .ok cur
  | .field fd =>
    match cur with
    | .msg _ fs => .ok (msgGet fs fd)
    | _ => .err "not-message"
  | .listIndex i =>
    match cur with
    | .list xs =>
      if i < 0 ∨ i ≥ (xs.length : Int) then .err "range"
      else match xs[i.toNat]? with
        | some x => .ok x
        | none => .err "range"
    | _ => .err "not-list"
  | .mapIndex k =>
    match cur with
    | .map _ es =>
      match lookupKey es k with
      | some x => .ok x
      | none => .err "key"
    | _ => .err "not-map"
  | .anyExpand _ => .err "unsupported"
  | .unknown => .err "unsupported"

/-- values along the path, the addressed value last -/
def walkFrom : List Step → Value → List Value → Outcome (List Value)
  | [], _, acc => .ok acc
  | s :: rest, cur, acc =>
    match walkStep cur s with
    | .ok c => walkFrom rest c (acc ++ [c])
    | .err e => .err e
    | .panic p => .panic p

def walk (p : List Step) (v : Value) : Outcome (List Value) := walkFrom p v []

end GceTcb.Path
