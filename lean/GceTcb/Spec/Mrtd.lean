import GceTcb.Base.Line
import GceTcb.Base.Codec
import GceTcb.Spec.Intervals
import GceTcb.Spec.TdHob
/-
C05 — specification of MRTD, written from the Intel TDX module specification:

* §"MRTD: Build-Time Measurement Register": MRTD is the SHA-384 digest of the build process;
  TDH.MEM.PAGE.ADD inserts the page's GPA, TDH.MR.EXTEND inserts the data and GPA in 256-byte chunks.
* TDH.MEM.PAGE.ADD: "Extend TDCS.MRTD with the target page GPA ... using a 128B extension buffer:
  bytes 0 through 11 contain the ASCII string 'MEM.PAGE.ADD', bytes 16 through 23 contain the GPA
  (little-endian), all the other bytes contain 0."
* TDH.MR.EXTEND: "Extend TDCS.MRTD with the chunk's GPA and contents ... with three 128B extension
  buffers.  The first: bytes 0 through 8 contain the ASCII string 'MR.EXTEND', bytes 16 through 23
  contain the GPA (little-endian), all the other bytes contain 0.  The other two extension buffers
  contain the chunk's contents."

The host adds one 4 KiB page at a time and, when the section is to be measured, extends that page's
sixteen 256-byte chunks right after adding it (KVM_TDX_INIT_MEM_REGION order).  This is the reading
followed here; tdx/measurement.go quotes the same two paragraphs.  Independent of the Go code.
Core-only.
-/
namespace GceTcb.Spec.Mrtd
open GceTcb GceTcb.Codec GceTcb.Spec.Intervals

def zeros (n : Nat) : Bytes := List.replicate n 0
/-- the bytes of an ASCII string -/
def ascii (s : String) : Bytes := s.toList.map (fun c => UInt8.ofNat c.toNat)

/-- the 128-byte TDH.MEM.PAGE.ADD extension buffer -/
def pageAddRec (gpa : Nat) : Bytes := ascii "MEM.PAGE.ADD" ++ zeros 4 ++ leBytes 8 gpa ++ zeros 104

/-- the three 128-byte TDH.MR.EXTEND extension buffers for one 256-byte chunk -/
def mrExtendRec (gpa : Nat) (chunk : Bytes) : Bytes :=
  ascii "MR.EXTEND" ++ zeros 7 ++ leBytes 8 gpa ++ zeros 104 ++ chunk

/-- `len` bytes of `b` from `off` -/
def sub (b : Bytes) (off len : Nat) : Bytes := (b.drop off).take len

/-- records of one 4 KiB page -/
def pageRecs (extend : Bool) (gpa : Nat) (page : Bytes) : Bytes :=
  pageAddRec gpa ++
    (if extend then (List.range 16).flatMap (fun j => mrExtendRec (gpa + 256 * j) (sub page (256 * j) 256)) else [])

/-- A section as the VMM loads it: where, how many pages, whether measured, the contents. -/
structure Section where
  base : Nat
  pages : Nat
  extend : Bool
  content : Bytes
deriving Repr

def sectionRecs (s : Section) : Bytes :=
  (List.range s.pages).flatMap (fun k => pageRecs s.extend (s.base + 4096 * k) (sub s.content (4096 * k) 4096))

/-- MRTD of a TD built from the sections in the given order. -/
def mrtd (H : Bytes → Bytes) (secs : List Section) : Bytes := H (secs.flatMap sectionRecs)

/-! ### from TDVF metadata to sections -/

/-- A TDVF metadata section entry (TDVF design guide, "TDVF_SECTION"). -/
structure MetaSection where
  dataOffset : Nat
  rawDataSize : Nat
  memoryAddress : Nat
  memoryDataSize : Nat
  type : Nat          -- 0 BFV, 1 CFV, 2 TD_HOB, 3 TempMem
  attributes : Nat    -- bit 0: MR.EXTEND
deriving Repr, DecidableEq

/-- The three launch modes. -/
inductive Mode where
  | default          -- metadata attributes decide; no unaccepted memory is described
  | measureAll       -- legacy: every section measured; unaccepted memory above 4 GiB not early-accepted
  | measureAllEarly  -- legacy: every section measured; all unaccepted memory early-accepted
deriving Repr, DecidableEq

def Mode.measuresAll : Mode → Bool
  | .default => false
  | _ => true

def Mode.disableEarlyAccept : Mode → Bool
  | .measureAllEarly => false
  | _ => true

/-- RAM that the hand-off block describes as unaccepted: in the default mode no bank list is used. -/
def unaccepted (mode : Mode) (banks : List (Nat × Nat)) (secs : List MetaSection) : List (Nat × Nat) :=
  match mode with
  | .default => []
  | _ =>
    (difference (banks.map fun b => ⟨b.1, b.1 + b.2⟩)
        (secs.map fun s => ⟨s.memoryAddress, s.memoryAddress + s.memoryDataSize⟩)).map
      fun i => (i.lo, i.hi - i.lo)

/-- contents of one section -/
def content (mode : Mode) (image : Bytes) (banks : List (Nat × Nat)) (secs : List MetaSection)
    (s : MetaSection) : Option Bytes :=
  if s.type = 0 ∨ s.type = 1 then some (sub image s.dataOffset s.memoryDataSize)
  else if s.type = 2 then
    TdHob.tdHob s.memoryAddress s.memoryDataSize (secs.map fun t => (t.memoryAddress, t.memoryDataSize))
      (unaccepted mode banks secs) mode.disableEarlyAccept
  else some (zeros s.memoryDataSize)

def toSection (mode : Mode) (image : Bytes) (banks : List (Nat × Nat)) (secs : List MetaSection)
    (s : MetaSection) : Option Section :=
  (content mode image banks secs s).map fun c =>
    ⟨s.memoryAddress, s.memoryDataSize / 4096, s.attributes % 2 = 1 ∨ mode.measuresAll, c⟩

/-- The record stream of the whole TD; `none` when the hand-off block does not fit its section. -/
def stream (mode : Mode) (image : Bytes) (banks : List (Nat × Nat)) (secs : List MetaSection) : Option Bytes :=
  (secs.mapM (toSection mode image banks secs)).map fun l => l.flatMap sectionRecs

/-- MRTD of an image with the given (valid) metadata sections. -/
def mrtdOf (H : Bytes → Bytes) (mode : Mode) (image : Bytes) (banks : List (Nat × Nat))
    (secs : List MetaSection) : Option Bytes :=
  (stream mode image banks secs).map H

end GceTcb.Spec.Mrtd
