import GceTcb.Model.Endorse
/-
Declarative statement of what the signed document must list (written from the property text, not
from the loops in the code): which configurations, in which order, and what "the row describes the
configuration" means.
-/
namespace GceTcb.Endorse.Spec
open GceTcb GceTcb.Endorse

/-- SNP: one measurement per requested VMSA count; every supported count when none is requested. -/
def snpCounts (table : List Nat) (requested : Nat) : List Nat :=
  if requested = 0 then table else [requested]

/-- TDX: for each requested shape its measurement (and, with early accept, the early-accept one),
    in request order, then the default configuration. -/
def tdxConfigs (shapes : List String) (early : Bool) : List (String × TdxMode) :=
  shapes.flatMap (fun s => if early then [(s, .tdhobBug), (s, .earlyAccept)] else [(s, .tdhobBug)]) ++
    [("", .default)]

/-- element-wise relation between two lists of the same length -/
inductive Paired {α β : Type} (R : α → β → Prop) : List α → List β → Prop
  | nil : Paired R [] []
  | cons {a b as bs} : R a b → Paired R as bs → Paired R (a :: as) (b :: bs)

/-- The labels of a row are those of its configuration. -/
def LabelsFor (T : Tables) (cfg : String × TdxMode) (row : TdxRow) : Prop :=
  match cfg.2 with
  | .default => row.ramGib = 0 ∧ row.earlyAccept = false
  | .tdhobBug => (∃ sz, shapeSize T cfg.1 = some sz ∧ row.ramGib = sz % 2^32) ∧ row.earlyAccept = false
  | .earlyAccept => (∃ sz, shapeSize T cfg.1 = some sz ∧ row.ramGib = sz % 2^32) ∧ row.earlyAccept = true

/-- The row's value is the measurement of the image for its configuration. -/
def MeasuredRow (P : Prims) (T : Tables) (img : Bytes) (cfg : String × TdxMode) (row : TdxRow) : Prop :=
  LabelsFor T cfg row ∧ P.mrtd img cfg.1 cfg.2 = .ok row.mrtd

/-- What the code as written guarantees: as `MeasuredRow`, except that an early-accept row may carry
    the all-zero placeholder when (and only when) that measurement returned an error. -/
def WrittenRow (P : Prims) (T : Tables) (img : Bytes) (cfg : String × TdxMode) (row : TdxRow) : Prop :=
  LabelsFor T cfg row ∧
  (P.mrtd img cfg.1 cfg.2 = .ok row.mrtd ∨
   (cfg.2 = .earlyAccept ∧ (∃ e, P.mrtd img cfg.1 .earlyAccept = .err e) ∧ row.mrtd = zeros48))

end GceTcb.Endorse.Spec
