/-
C18 — layout tables written from the external documents (NOT from the Go code). Core-only, data and
two small checks.  An entry is `(offset, width, label)`, bytes; the label is `<kind>:<field>` where
kind says how the field is stored: `le` little-endian integer, `be` big-endian integer, `lebe`
little-endian store of a value loaded big-endian (EFI_GUID ↔ RFC 4122 text order), `copy` byte
array in order, `byte` single byte, `nest` embedded structure, `rest` variable-size tail.
Field names follow the Go identifiers so that the tables can be compared with the regenerated ones
by `decide`; the document's own name is given in the comment.

Sources:
* UEFI specification, Appendix A "GUID and Time Formats" (EFI_GUID: TimeLow u32, TimeMid u16,
  TimeHighAndVersion u16 stored little-endian, the remaining 8 bytes in order);
* edk2 OvmfPkg/ResetVector/Ia16/ResetVectorVtf0.asm (GUIDed table: each entry ends with
  `DW size, DB guid`; SEV-ES reset block `DD addr, DW size, DB guid`), X64/OvmfSevMetadata.asm
  (`OvmfSevGuidedStructureStart: DD 'ASEV', DD len, DD version, DD num_desc`; descriptors
  `DD base, DD len, DD type`; the offset block `DD offset, DW size, DB guid`),
  X64/IntelTdxMetadata.asm and the TDVF design guide §11 (descriptor `'TDVF', Length, Version,
  NumberOfSectionEntries`; section `DataOffset u32, RawDataSize u32, MemoryAddress u64,
  MemoryDataSize u64, Type u32, Attributes u32`);
* AMD SEV-SNP firmware ABI (56860), table "Layout of the PAGE_INFO structure" (0x70 bytes);
  AMD APM vol. 2, table B-2 (a VMCB segment register: selector u16, attrib u16, limit u32, base u64);
* UEFI PI specification vol. 3 §5 (EFI_HOB_GENERIC_HEADER, EFI_HOB_HANDOFF_INFO_TABLE (PHIT),
  EFI_HOB_RESOURCE_DESCRIPTOR, EFI_HOB_GUID_TYPE; HOB lengths are multiples of 8);
* TCG PC Client Platform Firmware Profile (TCG_PCClientPCREvent, TCG_PCR_EVENT2, TPML_DIGEST_VALUES,
  TPMT_HA; TCG_Sp800_155_PlatformId_Event3) and TCG Algorithm Registry (TPM_ALG_ID values).
-/
namespace GceTcb.Spec.AbiLayouts

abbrev Layout := List (Nat × Nat × String)

def widths (l : Layout) : List Nat := l.map (·.2.1)

/-- offsets are the running sums of the widths, starting at `start` (no holes, no overlap) -/
def contiguousFrom : Nat → Layout → Bool
  | _, [] => true
  | start, (off, w, _) :: rest => off == start && contiguousFrom (start + w) rest

def contiguous (l : Layout) : Bool := contiguousFrom 0 l

def total (l : Layout) : Nat := (widths l).sum

/-! ## EFI_GUID -/

/-- EFI_GUID {UINT32 Data1; UINT16 Data2; UINT16 Data3; UINT8 Data4[8]} -/
def efiGuid : Layout := [(0, 4, "le:Data1"), (4, 2, "le:Data2"), (6, 2, "le:Data3"), (8, 8, "copy:Data4")]
/-- the RFC 4122 (text order, uuid.UUID) form of the same fields: all big-endian -/
def uuidOfEfiGuid : Layout := [(0, 4, "be:Data1"), (4, 2, "be:Data2"), (6, 2, "be:Data3"), (8, 8, "copy:Data4")]
/-- an RFC 4122 UUID `guid` stored as EFI_GUID: first three fields byte-swapped -/
def efiGuidOfUuid : Layout :=
  [(0, 4, "lebe:guid[0:4]"), (4, 2, "lebe:guid[4:6]"), (6, 2, "lebe:guid[6:8]"), (8, 8, "copy:guid[8:16]")]

/-! ## edk2 GUIDed table, SEV and TDX metadata -/

def sizeofFwGuidEntry : Nat := 18
/-- GUIDed table entry footer: `DW size`, `DB guid` -/
def fwGuidEntryPut : Layout := [(0, 2, "le:Size"), (2, 16, "nest:PutUUID")]
def fwGuidEntryFromBytes : Layout := [(0, 2, "le:Size"), (2, 16, "nest:GUID=FromEFIGUID")]

def sizeofSevMetadata : Nat := 16
/-- OVMF_SEV_METADATA header: Signature 'ASEV', Len, Version, NumDesc -/
def sevMetadata : Layout := [(0, 4, "le:Signature"), (4, 4, "le:Length"), (8, 4, "le:Version"), (12, 4, "le:Sections")]

def sizeofSevMetadataSection : Nat := 12
/-- OVMF_SEV_METADATA descriptor: Base, Len, Type -/
def sevMetadataSection : Layout := [(0, 4, "le:Address"), (4, 4, "le:Length"), (8, 4, "le:Kind")]

def sizeofMetadataOffset : Nat := 22
/-- `DD offset`, then the GUIDed-table footer -/
def metadataOffsetPut : Layout := [(0, 4, "le:Offset"), (4, 18, "nest:GUIDEntry.Put")]
def metadataOffsetFromBytes : Layout := [(0, 4, "le:Offset"), (4, 18, "nest:GUIDEntry.PopulateFromBytes")]

def sizeofSevEsResetBlock : Nat := 22
/-- SEV-ES reset block: `DD addr`, `DW size`, `DB guid` -/
def resetBlockPut : Layout := [(0, 4, "le:Addr"), (4, 2, "le:Size"), (6, 16, "nest:PutUUID")]
def resetBlockFromBytes : Layout := [(0, 4, "le:Addr"), (4, 2, "le:Size"), (6, 16, "nest:guid=FromEFIGUID")]

def sizeofTdxDescriptor : Nat := 16
/-- TDVF descriptor: Signature 'TDVF', Length, Version, NumberOfSectionEntries -/
def tdxDescriptor : Layout := [(0, 4, "le:Signature"), (4, 4, "le:Length"), (8, 4, "le:Version"), (12, 4, "le:SectionCount")]

def sizeofTdxSection : Nat := 32
/-- TDVF section: DataOffset, RawDataSize, MemoryAddress, MemoryDataSize, Type, Attributes -/
def tdxSection : Layout :=
  [(0, 4, "le:DataOffset"), (4, 4, "le:DataSize"), (8, 8, "le:MemoryBase"), (16, 8, "le:MemorySize"),
   (24, 4, "le:SectionType"), (28, 4, "le:Attributes")]

/-! ## SEV-SNP PAGE_INFO and VMCB segment -/

def sizeofPageInfo : Nat := 0x70
/-- PAGE_INFO: DIGEST_CUR 0x00, CONTENTS 0x30, LENGTH 0x60, PAGE_TYPE 0x62, IMI_PAGE 0x63,
    0x64 = reserved byte then VMPL1/2/3_PERMS (one little-endian dword `vmplPerms`), GPA 0x68 -/
def pageInfo : Layout :=
  [(0, 48, "copy:digestCur"), (48, 48, "copy:contents"), (96, 2, "le:length"), (98, 1, "byte:pageType"),
   (99, 1, "byte:imi"), (100, 4, "le:vmplPerms"), (104, 8, "le:gpa")]

def sizeofVmcbSeg : Nat := 16
def vmcbSeg : Layout := [(0, 2, "le:Selector"), (2, 2, "le:Attrib"), (4, 4, "le:Limit"), (8, 8, "le:Base")]

/-! ## PI hand-off blocks -/

def sizeofHobHeader : Nat := 8
/-- EFI_HOB_GENERIC_HEADER {UINT16 HobType; UINT16 HobLength; UINT32 Reserved} -/
def hobHeader : Layout := [(0, 2, "le:HobType"), (2, 2, "le:HobLength"), (4, 4, "le:reserved")]

def sizeofHandoff : Nat := 56
/-- EFI_HOB_HANDOFF_INFO_TABLE -/
def handoff : Layout :=
  [(0, 8, "nest:Header.WriteTo"), (8, 4, "le:Version"), (12, 4, "le:BootMode"), (16, 8, "le:EfiMemoryTop"),
   (24, 8, "le:EfiMemoryBottom"), (32, 8, "le:EfiFreeMemoryTop"), (40, 8, "le:EfiFreeMemoryBottom"),
   (48, 8, "le:EfiEndOfHobList")]

def sizeofResource : Nat := 48
/-- EFI_HOB_RESOURCE_DESCRIPTOR -/
def resource : Layout :=
  [(0, 8, "nest:Header.WriteTo"), (8, 16, "copy:owner"), (24, 4, "le:ResourceType"), (28, 4, "le:ResourceAttribute"),
   (32, 8, "le:PhysicalStart"), (40, 8, "le:ResourceLength")]

def sizeofHobGuid : Nat := 24
/-- EFI_HOB_GUID_TYPE: header, Name, then the data -/
def guidHob : Layout := [(0, 8, "nest:Header.WriteTo"), (8, 16, "copy:guid"), (24, 0, "rest:Data")]

/-- HobLength is a UINT16 and HOBs are 8-byte aligned: the largest HOB is 0xFFF8 bytes -/
def maxGuidHobDataSize : Nat := 0xFFF8 - 24

def hobTypeHandoff : Nat := 1
def hobTypeResourceDescriptor : Nat := 3
def hobTypeGuidExtension : Nat := 4
def hobTypeEndOfHobList : Nat := 0xFFFF
def hobHandoffTableVersion : Nat := 9

/-! ## TCG event log -/

/-- TPM_ALG_ID → digest size: SHA1 0x0004 (20), SHA256 0x000B (32), SHA384 0x000C (48) -/
def tpmAlgoSize : List (Nat × Nat) := [(4, 20), (11, 32), (12, 48)]

/-- "SP800-155 Event3" -/
def event3Signature : List Nat := [83, 80, 56, 48, 48, 45, 49, 53, 53, 32, 69, 118, 101, 110, 116, 51]

/-- TCG_PCClientPCREvent: pcrIndex, eventType, digest[20], eventDataSize + event -/
def pcrEventOrder : List String :=
  ["PCRIndex:uint32", "EventType:uint32", "SHA1Digest:[20]uint8", "EventData:TCGEventData"]
/-- TCG_PCR_EVENT2: pcrIndex, eventType, digests (count + TPMT_HA…), eventSize + event -/
def event2Order : List String :=
  ["PCRIndex:uint32", "EventType:uint32", "Digests:Uint32SizedArrayT[*TaggedDigest]", "EventData:TCGEventData"]
/-- TPMT_HA: hashAlg, digest -/
def digestOrder : List String := ["AlgID:uint16", "Digest:[]uint8"]
/-- TCG_Sp800_155_PlatformId_Event3 after the 16-byte signature -/
def event3Order : List String :=
  ["PlatformManufacturerID:uint32", "ReferenceManifestGUID:EfiGUID", "PlatformManufacturerStr:ByteSizedCStr",
   "PlatformModel:ByteSizedCStr", "PlatformVersion:ByteSizedCStr", "FirmwareManufacturerStr:ByteSizedCStr",
   "FirmwareManufacturerID:uint32", "FirmwareVersion:ByteSizedCStr", "RIMLocatorType:uint32",
   "RIMLocator:Uint32SizedArray", "PlatformCertLocatorType:uint32", "PlatformCertLocator:Uint32SizedArray"]

end GceTcb.Spec.AbiLayouts
