import GceTcb.Model.Extract
/-
C16 — what the property text says, independently of the code: the naming scheme of endorsement
objects, the RIM locator type numbering of the TCG PC Client Platform Firmware Profile (SP800-155
Event3), the order of local evidence, and the names the signer's events use.
-/
namespace GceTcb.Spec.Extract
open GceTcb GceTcb.Extract

/-! ### Naming scheme: `<bucket URL>/<family prefix>/<technology>/<hex(measurement)>.binarypb` -/

def baseURL : String := "https://storage.googleapis.com"
def bucket : String := "gce_tcb_integrity"
def family : String := "ovmf_x64_csm"
def unknownFamily : String := "unknown"
def sevTech : String := "sevsnp"
def tdxTech : String := "tdx"
def ext : String := ".binarypb"
def measurementSize : Nat := 48

def name (tech : String) (m : Bytes) : String := family ++ "/" ++ tech ++ "/" ++ hexEncode m ++ ext
def url (obj : String) : String := baseURL ++ "/" ++ bucket ++ "/" ++ obj

/-! ### TCG PFP: RIM locator types; EV_NO_ACTION -/

def locRaw : Nat := 0
def locURI : Nat := 1
def locLocal : Nat := 2
def locVariable : Nat := 3
def evNoAction : Nat := 3

/-- raw > variable > local > URI -/
def precedence : List Nat := [locRaw, locVariable, locLocal, locURI]

/-! ### The signer's events -/

def googleVariableGUID : String := "a2858e46-a37f-456a-8c79-0c1fe48b65ff"
def rimVariableName : String := "FirmwareRIM"
def manufacturer : Bytes := [71, 111, 111, 103, 108, 101, 44, 32, 73, 110, 99, 46]  -- "Google, Inc."
def signedFirmwareExt : String := ".fd.signed"

/-! ### Local evidence, in the property's order -/

/-- The event log's raw or UEFI-variable locator (raw first), read the way `Locate` reads it. -/
def eventLogLocal (env : Env) (o : Options) : Option Bytes :=
  match o.eventLog with
  | some (.parsed evs) =>
    match selectEventBy [locRaw, locVariable] o.manufacturer evs with
    | some e =>
      if e.locType = locRaw then some e.locator
      else
        match variableLocatorDecode e.locator, o.reader with
        | some (g, n), some root =>
          (match (readVariable env root g n).out with
           | .ok b => some b
           | _ => none)
        | _, _ => none
    | none => none
  | _ => none

/-- The attestation's certificate-table entry for the GCE endorsement, when it is not empty. -/
def certTableEntry : Option Tee → Option Bytes
  | some (.sev _ (some x)) => if x.isEmpty then none else some x
  | _ => none

/-- A quote from which the object name can be derived: it has a full-length measurement. -/
def hasFullMeasurement : Option Tee → Bool
  | some t => (teeMeasurement t).length == measurementSize
  | none => false

/-- Local evidence: the event log's raw or variable locator, then the supplied attestation's
    certificate-table entry; the provider's attestation stands in for a supplied one that is absent,
    unreadable or without a full-length measurement. -/
def localEvidence (env : Env) (o : Options) : Option Bytes :=
  match eventLogLocal env o with
  | some b => some b
  | none =>
    match certTableEntry o.quote with
    | some b => some b
    | none =>
      if hasFullMeasurement o.quote then none
      else
        match o.provider with
        | some (some t) => certTableEntry t
        | _ => none

end GceTcb.Spec.Extract
