import GceTcb.Base.Line
import GceTcb.Base.Codec
/-
C04 — the SEV-SNP launch measurement as the AMD documents define it, written independently of the
Go code.  Core-only.

Sources (written from the documents' tables; this sandbox is offline, the revisions are the ones the
repository itself cites):
* AMD SEV-SNP Firmware ABI specification (56860, rev. 1.51–1.55), SNP_LAUNCH_UPDATE:
  table "Layout of the PAGE_INFO Structure" (0x70 bytes):
    0x00 DIGEST_CUR[48]   0x30 CONTENTS[48]   0x60 LENGTH (u16, = 0x70)   0x62 PAGE_TYPE (u8)
    0x63 IMI_PAGE (bit 0; bits 7:1 reserved)
    0x64 bits 7:0 reserved, 15:8 VMPL1_PERMS, 23:16 VMPL2_PERMS, 31:24 VMPL3_PERMS
    0x68 GPA (u64)
  (same byte order as the CMDBUF_SNP_LAUNCH_UPDATE word at 0x18 and Linux's
  `struct sev_data_snp_launch_update {rsvd3:8, vmpl1_perms:8, vmpl2_perms:8, vmpl3_perms:8}`;
  the open-source calculator sev-snp-measure serialises the three permission bytes in the opposite
  order — immaterial for a launch measurement, where IMI_PAGE and all permissions are zero);
  "LAUNCH_DIGEST' = SHA-384(PAGE_INFO)", one PAGE_INFO per 4 KiB page, digest initially zero;
  table "Encodings for the PAGE_TYPE Field": NORMAL 1, VMSA 2, ZERO 3, UNMEASURED 4, SECRETS 5,
  CPUID 6; CONTENTS is the SHA-384 of the page for NORMAL and VMSA pages and 0 for ZERO, UNMEASURED,
  SECRETS and CPUID pages; "the guest physical address space is limited according to CPUID
  Fn80000008_EAX" (Milan 48 bits, Genoa 52 bits), hence the GPA of a VMSA page, which KVM measures at
  GPA -1, is the highest page-aligned address of that width.
* AMD64 Architecture Programmer's Manual vol. 2 (24593), Appendix B, table "VMSA layout, state save
  area for SEV-ES" (offsets of the architected fields; everything else in the 4 KiB page is zero at
  launch) and §14.1.3 "Processor initialization state" as KVM applies it to an SEV-ES VMSA.
* edk2 OvmfPkg/ResetVector/X64/OvmfSevMetadata.asm: descriptor kinds 1 = SNP_SEC_MEM (pre-validated,
  measured as UNMEASURED pages), 2 = SNP_SECRETS, 3 = CPUID; coconut-svsm edk2: 4 = SVSM_CAA (a zero
  page).  OvmfPkg/ResetVector/Ia16/ResetVectorVtf0.asm: the SEV-ES reset block holds the AP reset
  vector as a 32-bit address; GHCB spec §4.3 "AP reset": CS.base = addr & 0xffff0000, RIP = addr & 0xffff.
-/
namespace GceTcb.Spec.SnpLaunch
open GceTcb GceTcb.Codec

def zeros (n : Nat) : Bytes := List.replicate n 0

/-! ## PAGE_INFO and the digest chain -/

def pageTypeNormal : Nat := 1
def pageTypeVmsa : Nat := 2
def pageTypeZero : Nat := 3
def pageTypeUnmeasured : Nat := 4
def pageTypeSecrets : Nat := 5
def pageTypeCpuid : Nat := 6

/-- PAGE_INFO of a launch update (IMI_PAGE = 0, VMPL permissions 0) -/
def pageInfo (digestCur contents : Bytes) (pageType gpa : Nat) : Bytes :=
  digestCur ++ contents ++ leBytes 2 0x70 ++ [UInt8.ofNat pageType] ++ [0] ++ [0, 0, 0, 0] ++ leBytes 8 gpa

/-- one 4 KiB page handed to SNP_LAUNCH_UPDATE; `data = none` for the page types whose CONTENTS is 0 -/
structure Page where
  pageType : Nat
  gpa : Nat
  data : Option Bytes

def launchUpdate (H : Bytes → Bytes) (d : Bytes) (p : Page) : Bytes :=
  H (pageInfo d (match p.data with | some x => H x | none => zeros 48) p.pageType p.gpa)

/-! ## pages of a GCE SEV-SNP launch -/

/-- the ROM image ends at 4 GiB; NORMAL pages in ascending order -/
def romPages (fw : Bytes) : List Page :=
  (List.range (fw.length / 4096)).map fun i =>
    ⟨pageTypeNormal, 2 ^ 32 - fw.length + 4096 * i, some ((fw.drop (4096 * i)).take 4096)⟩

/-- OVMF SEV metadata descriptor kind ↦ PAGE_TYPE -/
def kindPageType (kind : Nat) : Nat :=
  if kind = 1 then pageTypeUnmeasured
  else if kind = 2 then pageTypeSecrets
  else if kind = 3 then pageTypeCpuid
  else if kind = 4 then pageTypeZero
  else 0

structure Section where
  address : Nat
  length : Nat
  kind : Nat

def sectionPages (s : Section) : List Page :=
  (List.range (s.length / 4096)).map fun i => ⟨kindPageType s.kind, s.address + 4096 * i, none⟩

/-- highest page of a `w`-bit guest-physical address space: `(2^w − 1) & ~0xfff` -/
def productHigh (w : Nat) : Nat := (2 ^ w - 1) / 4096 * 4096

/-- CPUID Fn8000_0008 EAX[7:0] of the supported products (go-sev-guest SevProduct enum value ↦ bits) -/
def productWidths : List (Nat × Nat) := [(1, 48), (2, 52)]   -- Milan, Genoa

/-! ## VMSA page -/

/-- Architected fields of the SEV-ES save area that the repository's VMSA message carries:
    (offset, width, name).  Names are the Go identifiers; the APM name is in the comment. -/
def vmsaFields : List (Nat × Nat × String) := [
  (0x000, 2, "Es.Selector"), (0x002, 2, "Es.Attrib"), (0x004, 4, "Es.Limit"), (0x008, 8, "Es.Base"),
  (0x010, 2, "Cs.Selector"), (0x012, 2, "Cs.Attrib"), (0x014, 4, "Cs.Limit"), (0x018, 8, "Cs.Base"),
  (0x020, 2, "Ss.Selector"), (0x022, 2, "Ss.Attrib"), (0x024, 4, "Ss.Limit"), (0x028, 8, "Ss.Base"),
  (0x030, 2, "Ds.Selector"), (0x032, 2, "Ds.Attrib"), (0x034, 4, "Ds.Limit"), (0x038, 8, "Ds.Base"),
  (0x040, 2, "Fs.Selector"), (0x042, 2, "Fs.Attrib"), (0x044, 4, "Fs.Limit"), (0x048, 8, "Fs.Base"),
  (0x050, 2, "Gs.Selector"), (0x052, 2, "Gs.Attrib"), (0x054, 4, "Gs.Limit"), (0x058, 8, "Gs.Base"),
  (0x060, 2, "Gdtr.Selector"), (0x062, 2, "Gdtr.Attrib"), (0x064, 4, "Gdtr.Limit"), (0x068, 8, "Gdtr.Base"),
  (0x070, 2, "Ldtr.Selector"), (0x072, 2, "Ldtr.Attrib"), (0x074, 4, "Ldtr.Limit"), (0x078, 8, "Ldtr.Base"),
  (0x080, 2, "Idtr.Selector"), (0x082, 2, "Idtr.Attrib"), (0x084, 4, "Idtr.Limit"), (0x088, 8, "Idtr.Base"),
  (0x090, 2, "Tr.Selector"), (0x092, 2, "Tr.Attrib"), (0x094, 4, "Tr.Limit"), (0x098, 8, "Tr.Base"),
  (0x0CB, 1, "Cpl"),            -- CPL
  (0x0D0, 8, "Efer"),           -- EFER
  (0x140, 8, "Xss"),            -- XSS
  (0x148, 8, "Cr4"), (0x150, 8, "Cr3"), (0x158, 8, "Cr0"), (0x160, 8, "Dr7"), (0x168, 8, "Dr6"),
  (0x170, 8, "Rflags"), (0x178, 8, "Rip"),
  (0x1D8, 8, "Rsp"),
  (0x1F8, 8, "Rax"), (0x200, 8, "Star"), (0x208, 8, "Lstar"), (0x210, 8, "Cstar"), (0x218, 8, "Sfmask"),
  (0x220, 8, "KernelGsBase"), (0x228, 8, "SysenterCs"), (0x230, 8, "SysenterEsp"), (0x238, 8, "SysenterEip"),
  (0x240, 8, "Cr2"),
  (0x268, 8, "GPat"), (0x270, 8, "Dbgctl"), (0x278, 8, "BrFrom"), (0x280, 8, "BrTo"),
  (0x288, 8, "LastExcpFrom"), (0x290, 8, "LastExcpTo"),
  (0x2E8, 4, "Pkru"),
  (0x308, 8, "Rcx"), (0x310, 8, "Rdx"), (0x318, 8, "Rbx"),
  (0x328, 8, "Rbp"), (0x330, 8, "Rsi"), (0x338, 8, "Rdi"),
  (0x340, 8, "R8"), (0x348, 8, "R9"), (0x350, 8, "R10"), (0x358, 8, "R11"),
  (0x360, 8, "R12"), (0x368, 8, "R13"), (0x370, 8, "R14"), (0x378, 8, "R15"),
  (0x390, 8, "SwExitCode"), (0x398, 8, "SwExitInfo_1"), (0x3A0, 8, "SwExitInfo_2"), (0x3A8, 8, "SwScratch"),
  (0x3B0, 8, "SevFeatures"),
  (0x3E8, 8, "Xcr0")]

/-- a byte of the page, symbolically: byte `k` (little-endian) of the named field, or zero -/
abbrev Desc := Option (String × Nat)

def fieldDescs (w : Nat) (name : String) : List Desc := (List.range w).map fun k => some (name, k)

/-- fields placed at their offsets, zero in between and up to `total` (the table is sorted, disjoint) -/
def placeSym : List (Nat × Nat × String) → Nat → Nat → List Desc
  | [], cur, total => List.replicate (total - cur) none
  | (off, w, name) :: rest, cur, total =>
    List.replicate (off - cur) none ++ fieldDescs w name ++ placeSym rest (off + w) total

/-- the 4 KiB VMSA page, symbolically -/
def symVmsa : List Desc := placeSym vmsaFields 0 4096

def evalDesc (f : String → Nat) : Desc → UInt8
  | none => 0
  | some (name, k) => UInt8.ofNat (f name / 256 ^ k % 256)

/-- the 4 KiB VMSA page of a register state `f` -/
def vmsaBytes (f : String → Nat) : Bytes := symVmsa.map (evalDesc f)

/-- Reset state of an SEV-ES vCPU as GCE's hypervisor launches it (sorted by name; unlisted fields 0):
    APM §14.1.3 (CS F000h/base FFFF0000h/limit FFFFh, data segments limit FFFFh, GDTR/IDTR limit FFFFh,
    LDTR/TR limit FFFFh, RIP FFF0h, RFLAGS 2, DR6 FFFF0FF0h, DR7 400h, XCR0 1, RDX = family/model 600h)
    with VMCB segment attributes in the 12-bit form (code 9Bh, data 93h, LDT 82h, busy TSS 8Bh),
    EFER.SVME (1000h), CR0 = ET with CD/NW cleared and CR4 = MCE as KVM sets them for an SEV-ES guest,
    SEV_FEATURES = SNPActive (1) and GCE's PAT 00070106h. -/
def gceResetState : List (String × Nat) := [
  ("Cr0", 0x10), ("Cr4", 0x40),
  ("Cs.Attrib", 0x9b), ("Cs.Base", 0xffff0000), ("Cs.Limit", 0xffff), ("Cs.Selector", 0xf000),
  ("Dr6", 0xffff0ff0), ("Dr7", 0x400),
  ("Ds.Attrib", 0x93), ("Ds.Limit", 0xffff),
  ("Efer", 0x1000),
  ("Es.Attrib", 0x93), ("Es.Limit", 0xffff),
  ("Fs.Attrib", 0x93), ("Fs.Limit", 0xffff),
  ("GPat", 0x70106),
  ("Gdtr.Limit", 0xffff),
  ("Gs.Attrib", 0x93), ("Gs.Limit", 0xffff),
  ("Idtr.Limit", 0xffff),
  ("Ldtr.Attrib", 0x82), ("Ldtr.Limit", 0xffff),
  ("Rdx", 0x600), ("Rflags", 0x2), ("Rip", 0xfff0),
  ("SevFeatures", 0x1),
  ("Ss.Attrib", 0x93), ("Ss.Limit", 0xffff),
  ("Tr.Attrib", 0x8b), ("Tr.Limit", 0xffff),
  ("Xcr0", 0x1)]

def stateOf (l : List (String × Nat)) : String → Nat :=
  fun n => ((l.find? (fun p => p.1 == n)).map (·.2)).getD 0

/-- boot processor: the reset state -/
def bspState : String → Nat := stateOf gceResetState

/-- application processor: reset state with the reset vector of the SEV-ES reset block -/
def apState (resetAddr : Nat) : String → Nat :=
  fun n => if n == "Rip" then resetAddr % 2 ^ 16
           else if n == "Cs.Base" then resetAddr - resetAddr % 2 ^ 16
           else bspState n

def vmsaPage (high : Nat) (f : String → Nat) : Page := ⟨pageTypeVmsa, high, some (vmsaBytes f)⟩

def vmsaPages (resetAddr vcpus high : Nat) : List Page :=
  vmsaPage high bspState :: List.replicate (vcpus - 1) (vmsaPage high (apState resetAddr))

/-- The expected MEASUREMENT: ROM pages, metadata sections in declared order, VMSA pages. -/
def snpSpec (H : Bytes → Bytes) (fw : Bytes) (secs : List Section) (resetAddr vcpus width : Nat) : Bytes :=
  (romPages fw ++ secs.flatMap sectionPages ++ vmsaPages resetAddr vcpus (productHigh width)).foldl
    (launchUpdate H) (zeros 48)

/-! ## the statement table expected of sev.PutVmsa (compared with the regenerated one) -/

/-- (kind, lo, hi, field) in source order: `seg` a VMCB segment register, `le` a little-endian integer,
    `byte8` one byte with a range check, `resv`/`resv64` must-be-zero ranges written as zero,
    `zero` the trailing zero fill, `mbz` a must-be-zero check of a range that is not written.  The ranges the
    APM marks reserved — and the architected fields the VMSA message does not carry — are written as zero.
    APM vol. 2 table B-4: reserved 0x3B8–0x3E7 (48 bytes), XCR0 0x3E8, VALID_BITMAP 0x3F0 (16 bytes),
    X87_STATE_GPA 0x400, and from 0x408 the x87/SSE/AVX save slots, which a launch VMSA does not use (the
    message carries them as one must-be-zero field of 1016 bytes up to 0x800): VALID_BITMAP and
    X87_STATE_GPA are zero at launch, so a writer of launch VMSAs accepts them only as zero. -/
def vmsaLayout : List (String × Nat × Nat × String) := [
  ("seg", 0x00, 0x10, "Es"), ("seg", 0x10, 0x20, "Cs"), ("seg", 0x20, 0x30, "Ss"), ("seg", 0x30, 0x40, "Ds"),
  ("seg", 0x40, 0x50, "Fs"), ("seg", 0x50, 0x60, "Gs"), ("seg", 0x60, 0x70, "Gdtr"), ("seg", 0x70, 0x80, "Ldtr"),
  ("seg", 0x80, 0x90, "Idtr"), ("seg", 0x90, 0xA0, "Tr"),
  ("resv", 0xA0, 0xCB, "Reserved_1"), ("byte8", 0xCB, 0xCC, "Cpl"), ("resv", 0xCC, 0xD0, "Reserved_2"),
  ("le", 0xD0, 0xD8, "Efer"), ("resv", 0xD8, 0x140, "Reserved_3"),
  ("le", 0x140, 0x148, "Xss"), ("le", 0x148, 0x150, "Cr4"), ("le", 0x150, 0x158, "Cr3"), ("le", 0x158, 0x160, "Cr0"),
  ("le", 0x160, 0x168, "Dr7"), ("le", 0x168, 0x170, "Dr6"), ("le", 0x170, 0x178, "Rflags"), ("le", 0x178, 0x180, "Rip"),
  ("resv", 0x180, 0x1D8, "Reserved_4"), ("le", 0x1D8, 0x1E0, "Rsp"), ("resv", 0x1E0, 0x1F8, "Reserved_5"),
  ("le", 0x1F8, 0x200, "Rax"), ("le", 0x200, 0x208, "Star"), ("le", 0x208, 0x210, "Lstar"), ("le", 0x210, 0x218, "Cstar"),
  ("le", 0x218, 0x220, "Sfmask"), ("le", 0x220, 0x228, "KernelGsBase"), ("le", 0x228, 0x230, "SysenterCs"),
  ("le", 0x230, 0x238, "SysenterEsp"), ("le", 0x238, 0x240, "SysenterEip"), ("le", 0x240, 0x248, "Cr2"),
  ("resv", 0x248, 0x268, "Reserved_6"),
  ("le", 0x268, 0x270, "GPat"), ("le", 0x270, 0x278, "Dbgctl"), ("le", 0x278, 0x280, "BrFrom"), ("le", 0x280, 0x288, "BrTo"),
  ("le", 0x288, 0x290, "LastExcpFrom"), ("le", 0x290, 0x298, "LastExcpTo"),
  ("resv", 0x298, 0x2E8, "Reserved_7"), ("le", 0x2E8, 0x2EC, "Pkru"), ("resv", 0x2EC, 0x300, "Reserved_7A"),
  ("resv64", 0x300, 0x308, "Reserved_8"),
  ("le", 0x308, 0x310, "Rcx"), ("le", 0x310, 0x318, "Rdx"), ("le", 0x318, 0x320, "Rbx"),
  ("resv64", 0x320, 0x328, "Reserved_9"),
  ("le", 0x328, 0x330, "Rbp"), ("le", 0x330, 0x338, "Rsi"), ("le", 0x338, 0x340, "Rdi"),
  ("le", 0x340, 0x348, "R8"), ("le", 0x348, 0x350, "R9"), ("le", 0x350, 0x358, "R10"), ("le", 0x358, 0x360, "R11"),
  ("le", 0x360, 0x368, "R12"), ("le", 0x368, 0x370, "R13"), ("le", 0x370, 0x378, "R14"), ("le", 0x378, 0x380, "R15"),
  ("resv", 0x380, 0x390, "Reserved_10"),
  ("le", 0x390, 0x398, "SwExitCode"), ("le", 0x398, 0x3A0, "SwExitInfo_1"), ("le", 0x3A0, 0x3A8, "SwExitInfo_2"),
  ("le", 0x3A8, 0x3B0, "SwScratch"), ("le", 0x3B0, 0x3B8, "SevFeatures"),
  ("resv", 0x3B8, 0x3E8, "Reserved_11"), ("le", 0x3E8, 0x3F0, "Xcr0"),
  ("resv", 0x3F0, 0x400, "ValidBitmap"), ("resv64", 0x400, 0x408, "X87StateGpa"), ("mbz", 0x408, 0x800, "Reserved_12"),
  ("zero", 0x3F0, 0x670, "")]

def sizeofVmsa : Nat := 0x670

/-- sev.AllSupportedVmsaCounts: 1 (AP boot protocol) and the vCPU counts of GCE's N2D/C3D shapes -/
def gceVmsaCounts : List Nat := [1, 2, 4, 8, 16, 24, 32, 48, 64, 80, 96, 112, 128, 224, 240]

end GceTcb.Spec.SnpLaunch
