import GceTcb.Model.KeyHistory
/-
C12 — the certificate profiles the property documents, written from the property text and from the
documented lifetimes (sign/types: "5 years" + 1 day for signing keys as firmware support lifetime,
"25 years" = 25 × 365.24 days for the root), with literal numbers: they are NOT taken from Gen.
crypto/x509 enumerations: KeyUsageDigitalSignature = 1, KeyUsageCertSign = 32, SHA256WithRSAPSS = 13.
-/
namespace GceTcb.KeyHistory

/-- 25 × 365.24 days, in seconds. -/
def rootLifetime : Nat := 9131 * 86400
/-- (5·365 + 1) days, in seconds. -/
def signLifetime : Nat := (5 * 365 + 1) * 86400

/-- Root: self-signed CA certificate with certificate-signing usage and the 25-year lifetime. -/
def RootProfile (c : Cert) : Prop :=
  c.isCA = true ∧ c.keyUsage &&& 32 = 32 ∧
  c.signerKey = c.subjectKey ∧ c.issuerKey = c.subjectKey ∧ c.issuerCn = c.cn ∧ c.issuerSerial = c.subjSerial ∧
  c.notAfter = c.notBefore + rootLifetime

/-- Signing certificate: non-CA, digital signature only, RSA-PSS/SHA-256, five years plus one day
    from its creation time, certificate serial = subject serial. -/
def SignProfile (c : Cert) : Prop :=
  c.isCA = false ∧ c.keyUsage = 1 ∧ c.sigAlg = 13 ∧ c.notAfter = c.notBefore + signLifetime ∧
  c.certSerial = c.subjSerial

/-- `c` verifies under `r`'s key and names `r`'s subject as its issuer. -/
def IssuedBy (r c : Cert) : Prop :=
  c.signerKey = r.subjectKey ∧ c.issuerCn = r.cn ∧ c.issuerSerial = r.subjSerial

/-- Nothing recorded, no key alive, nothing destroyed in this key epoch. -/
def Clean (s : State) : Prop :=
  s.km.live = [] ∧ s.km.destroyed = [] ∧ s.ca = CA.empty

def Cmd.flags : Cmd → Flags
  | .bootstrap f _ => f
  | .rotate f _ => f
  | .wipeout f _ _ => f

def isWipeout : Cmd → Bool
  | .wipeout _ _ _ => true
  | _ => false

def isBootstrap : Cmd → Bool
  | .bootstrap _ _ => true
  | _ => false

/-- Every bootstrap of the history runs on a clean store (never over a populated one). -/
def CleanRun (cfg : Cfg) : State → List Cmd → Prop
  | _, [] => True
  | s, c :: h => (isBootstrap c = true → Clean s) ∧ CleanRun cfg (step cfg s c).1 h

end GceTcb.KeyHistory
