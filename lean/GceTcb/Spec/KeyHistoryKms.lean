import GceTcb.Model.KeyHistoryKms
import GceTcb.Spec.KeyHistory
/-
C12 on the Cloud KMS manager: the hypotheses under which the partial theorems are stated, written from the
property text (the certificate profiles are those of Spec/KeyHistory.lean).
-/
namespace GceTcb.KeyHistory.KmsH
open GceTcb.KeyHistory

def KCmd.flags : KCmd → Flags
  | .bootstrap f _ _ _ => f
  | .rotate f _ _ => f
  | .wipeout f _ _ => f
  | .ext _ => ⟨false, false⟩

def isBootstrapK : KCmd → Bool
  | .bootstrap _ _ _ _ => true
  | _ => false

/-- a command that may write certificates (bootstrap or rotate) -/
def isIssuingK : KCmd → Bool
  | .bootstrap _ _ _ _ => true
  | .rotate _ _ _ => true
  | _ => false

/-- Every bootstrap of the history runs on an EMPTY CERTIFICATE STORE (nothing recorded, stored or served).
    Cloud KMS itself may hold anything: versions of earlier lives, leftovers of failed attempts. -/
def CleanRunK (cfg : KCfg) : KState → List KCmd → Prop
  | _, [] => True
  | s, c :: h => (isBootstrapK c = true → s.ca = CA.empty) ∧ CleanRunK cfg (kStep cfg s c).1 h

/-- No command of the history runs with a context that expires while it waits for a key generation. -/
def NoDeadline : List KCmd → Prop
  | [] => True
  | .bootstrap _ _ e _ :: h => e.deadline = false ∧ NoDeadline h
  | .rotate _ _ e :: h => e.deadline = false ∧ NoDeadline h
  | _ :: h => NoDeadline h

/-- No key version is PENDING_GENERATION. -/
def NoPending (s : Svc) : Prop := ∀ n, s.has n = true → ∀ g, (s.ver n).st ≠ .pending g

end GceTcb.KeyHistory.KmsH
