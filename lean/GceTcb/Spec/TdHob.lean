import GceTcb.Base.Line
import GceTcb.Base.Codec
/-
C05 — specification of the TD hand-off block (TD HOB) that the VMM places in the TD_HOB section,
written from the UEFI Platform Initialization specification vol. 3 (HOB list: PHIT, resource
descriptor, end-of-list HOBs; all fields little-endian, every HOB starts with the 8-byte generic
header {u16 HobType, u16 HobLength, u32 Reserved = 0}) and the Intel TDX Virtual Firmware Design
Guide §"TD Hand-Off Block" (resource descriptors for the memory already added to the TD and for
unaccepted memory).  Independent of the Go code.  Core-only.
-/
namespace GceTcb.Spec.TdHob
open GceTcb GceTcb.Codec

def u16 (v : Nat) : Bytes := leBytes 2 v
def u32 (v : Nat) : Bytes := leBytes 4 v
def u64 (v : Nat) : Bytes := leBytes 8 v
def zeros (n : Nat) : Bytes := List.replicate n 0

/-- EFI_HOB_GENERIC_HEADER -/
def header (hobType hobLength : Nat) : Bytes := u16 hobType ++ u16 hobLength ++ u32 0

/-- EFI_HOB_HANDOFF_INFO_TABLE (PHIT), 56 bytes: type 1, version 9, boot mode 0
    (BOOT_WITH_FULL_CONFIGURATION), the four memory bounds zero, then EfiEndOfHobList. -/
def phit (endOfHobList : Nat) : Bytes :=
  header 1 56 ++ u32 9 ++ u32 0 ++ u64 0 ++ u64 0 ++ u64 0 ++ u64 0 ++ u64 endOfHobList

/-- EFI_HOB_RESOURCE_DESCRIPTOR, 48 bytes: type 3, owner GUID zero. -/
def resource (resourceType attributes start length : Nat) : Bytes :=
  header 3 48 ++ zeros 16 ++ u32 resourceType ++ u32 attributes ++ u64 start ++ u64 length

/-- EFI_HOB_TYPE_END_OF_HOB_LIST, 8 bytes. -/
def endMarker : Bytes := header 0xFFFF 8

def systemMemory : Nat := 0          -- EFI_RESOURCE_SYSTEM_MEMORY
def memoryUnaccepted : Nat := 7      -- EFI_RESOURCE_MEMORY_UNACCEPTED
/-- PRESENT | INITIALIZED | TESTED -/
def baseAttributes : Nat := 1 + 2 + 4
/-- the early-accept directive (bit 28) -/
def needsEarlyAccept : Nat := 0x10000000

/-- Unaccepted memory carries the early-accept attribute when it ends at or below 4 GiB or when early
    accept has not been disabled. -/
def unacceptedAttributes (disableEarlyAccept : Bool) (start length : Nat) : Nat :=
  if start + length ≤ 4 * 1024 * 1024 * 1024 ∨ ¬ disableEarlyAccept then baseAttributes + needsEarlyAccept
  else baseAttributes

/-- The list before padding: PHIT (EndOfHobList = address of the end marker), one system-memory
    descriptor per declared section in declared order, the unaccepted ranges in the given (ascending)
    order, the end marker. -/
def hobList (base : Nat) (sections unaccepted : List (Nat × Nat)) (disableEarlyAccept : Bool) : Bytes :=
  phit (base + 56 + 48 * (sections.length + unaccepted.length))
    ++ sections.flatMap (fun s => resource systemMemory baseAttributes s.1 s.2)
    ++ unaccepted.flatMap (fun u => resource memoryUnaccepted (unacceptedAttributes disableEarlyAccept u.1 u.2) u.1 u.2)
    ++ endMarker

/-- The TD HOB section contents: the list, zero-padded to the section size; `none` when it does not fit. -/
def tdHob (base size : Nat) (sections unaccepted : List (Nat × Nat)) (disableEarlyAccept : Bool) : Option Bytes :=
  let l := hobList base sections unaccepted disableEarlyAccept
  if l.length ≤ size then some (l ++ zeros (size - l.length)) else none

end GceTcb.Spec.TdHob
