import GceTcb.Base.Line
/- Driver handler for stream `c07evl` (stub: replaced when the property's model lands). -/
namespace GceTcb.Drive.C07Evl
open GceTcb

def handle (_f : Fields) : String := "unimplemented"

end GceTcb.Drive.C07Evl
