import GceTcb.Base.Line
import GceTcb.Model.EventLogCost
import GceTcb.Drive.C18
/-
Driver handler for stream `c07evl` (C07, event-log half): runs the checked, cost-instrumented model
of the repaired event-log readers and of the locator decoding.

  c07evl op=<item> kind=buffer|reader|file b=<hex>   item ∈ log pcrevent event2 eventdata digests digest cstr u32arr guid
        → ok:<value>[ rest=<n>] ab=<ok|over> | eof ab=… | err ab=… | panic=<site> ab=…
  c07evl op=event3 b=<hex>          SP800155Event3.UnmarshalFromBytes            → ok:<value> ab=… | eof | err | panic=
  c07evl op=varloc b=<hex>          variableLocatorDecode                        → ok:<guid>:<name> | err | panic=<site>
  c07evl op=ucs2 b=<hex>            ucs2toUTF8                                   → ok:<utf8 hex> | err | panic=<site>
  c07evl op=efivar b=<hex>          ReadVariable on a file with these contents   → ok:<hex> | err | panic=<site>
  c07evl op=rims b=<hex>            CryptoAgileLog.Unmarshal + RIMEventsFromEventLog → ok:<type/mfr/locator;…> | err | panic=
  c07evl op=from mfr=<hex> b=<hex>  extract.Endorsement over an event-log file    → ok:raw:<hex> | ok:uri:<hex> | ok:var:<guid>:<name>:<basename> | err | panic=
  c07evl op=rtlaw what=append|readall n=<n>          the runtime laws' bound      → bound=<bytes>

`kind` is ignored: the repaired readers issue no zero-length Read, so the three reader kinds agree
(C18_Log_reader_independent).  `ab` says whether the model's allocation count (with the runtime laws'
upper bounds) is within the harness's meter threshold 64·|b| + 2^20 — always `ok` (C07_evl_alloc_bound).
Text formats are those of Drive/C18.lean.
-/
namespace GceTcb.Drive.C07Evl
open GceTcb GceTcb.Codec GceTcb.EventLog GceTcb.EvlCost

def rt : Runtime := Runtime.upper

def threshold (n : Nat) : Nat := 64 * n + 2 ^ 20

/-- `<function>/<kind>` of a site name `<pkg>.<function>#<ordinal>:<kind>` (the form the harness reduces a
    Go panic to: innermost repository frame without its package, kind of run-time error) -/
def normSite (p : String) : String :=
  match p.splitOn "#" with
  | [f, r] =>
    let fn := match f.splitOn "." with
      | _ :: rest@(_ :: _) => ".".intercalate rest
      | _ => f
    match r.splitOn ":" with
    | [_, k] => fn ++ "/" ++ k
    | _ => p
  | _ => p

def showStep {α : Type} (f : α → String) (withRest : Bool) (n : Nat) (s : Step α) : String :=
  (match s.res with
   | .ok a rest => "ok:" ++ f a ++ (if withRest then s!" rest={rest.length}" else "")
   | .eof => "eof"
   | .fail => "err"
   | .panic p => "panic=" ++ normSite p) ++ (if s.alloc ≤ threshold n then " ab=ok" else " ab=over")

def showOut {α : Type} (f : α → String) : Outcome α → String
  | .ok a => "ok:" ++ f a
  | .err _ => "err"
  | .panic p => "panic=" ++ normSite p

def showRim (r : Rim) : String := s!"{r.locType}/{hexEncode r.manufacturer}/{hexEncode r.locator}"

def utf8Hex (s : String) : String := hexEncode s.toUTF8.toList

def showReq : LocateReq → String
  | .raw d => "raw:" ++ hexEncode d
  | .uri u => "uri:" ++ hexEncode u
  | .variable g n s => s!"var:{hexEncode g}:{hexEncode n}:{utf8Hex s}"

def handle (f : Fields) : String :=
  let b := f.bytes "b"
  match f.get "op" with
  | "log" => showStep Drive.C18.showLog false b.length (xReadLog rt b)
  | "pcrevent" => showStep Drive.C18.showPcrEvent true b.length (xReadPcrEvent rt b)
  | "event2" => showStep Drive.C18.showEvent2 true b.length (xReadEvent2 rt b)
  | "eventdata" => showStep Drive.C18.showData true b.length (xReadEventData rt b)
  | "digests" => showStep Drive.C18.showDigests true b.length (xReadDigestArray rt b)
  | "digest" => showStep Drive.C18.showDigest true b.length (xReadDigest b)
  | "cstr" => showStep hexEncode true b.length (xReadCStr b)
  | "u32arr" => showStep hexEncode true b.length (xReadU32Array b)
  | "guid" => showStep hexEncode true b.length (xReadGuid b)
  | "event3" => showStep Drive.C18.showEvent3 false b.length (xUnmarshalEvent3 rt b)
  | "varloc" => showOut (fun p => hexEncode p.1 ++ ":" ++ hexEncode p.2) (xVariableLocatorDecode b)
  | "ucs2" => showOut utf8Hex (xUcs2toUTF8 b)
  | "efivar" => showOut hexEncode (xEfiVarContents b)
  | "rims" =>
    match (xReadLog rt b).res with
    | .ok l _ =>   -- the Go result is a map keyed by locator type: types ascending, log order within a type
      "ok:" ++ ";".intercalate (((rimsOf l).mergeSort (fun a b => a.locType ≤ b.locType)).map showRim)
    | .panic p => "panic=" ++ normSite p
    | _ => "err"
  | "from" => showOut showReq (xFromEventLog rt (f.bytes "mfr") b)
  | "rtlaw" =>
    match f.get "what" with
    | "append" => s!"bound={rt.appendPtr (f.nat "n")}"
    | "readall" => s!"bound={rt.readAll (f.nat "n")}"
    | _ => "bad-op"
  | _ => "bad-op"

end GceTcb.Drive.C07Evl
