import GceTcb.Base.Line
/- Driver handler for stream `c20` (stub: replaced when the property's model lands). -/
namespace GceTcb.Drive.C20
open GceTcb

def handle (_f : Fields) : String := "unimplemented"

end GceTcb.Drive.C20
