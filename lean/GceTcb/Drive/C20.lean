import GceTcb.Base.Line
import GceTcb.Model.Kms
/- Driver handler for stream `c20` (Cloud KMS signing, wipeout, bootstrap, rotation). -/
namespace GceTcb.Drive.C20
open GceTcb GceTcb.Kms

def natList (s : String) : List Nat :=
  if s == "" then [] else (s.splitOn ",").map fun x => x.toNat?.getD 0

/-- exactly `n` groups of a ';'-separated field -/
def groups (s : String) (n : Nat) : List String :=
  let g := s.splitOn ";"
  (List.range n).map fun i => g.getD i ""

def tokIdx (t : String) : Option Nat :=
  match t.toList with
  | [] => some 0
  | 't' :: ds => (String.ofList ds).toNat?
  | _ => none

def tokOf (m : Nat) : String := if m = 0 then "" else s!"t{m}"

def sumNat (l : List Nat) : Nat := l.foldl (· + ·) 0

/-- The pager the harness's KMS double implements for a page plan: page `m` has `plan[m]` items, its
    token is `t<m>` ("" for the first), the last page ends the listing (or, when `cyc`, points back at
    page 1). Unknown tokens give an empty last page. -/
def mkPager (xs : List String) (plan : List Nat) (cyc : Bool) (total : Nat) : Pager String := fun tok =>
  match tokIdx tok with
  | none => ⟨[], "", total⟩
  | some m =>
    if m < plan.length then
      ⟨(xs.drop (sumNat (plan.take m))).take (plan.getD m 0),
       if m + 1 < plan.length then tokOf (m + 1) else if cyc && decide (2 ≤ plan.length) then "t1" else "",
       total⟩
    else ⟨[], "", total⟩

def showCall : Call → String
  | .listKeys t => s!"LK:{t}"
  | .listVers k t => s!"LV:{k}:{t}"
  | .destroy n => s!"D:{n}"
  | .createRing => "CR"
  | .createKey id hsm => s!"CK:{id}:{if hsm then "hsm" else "sw"}"
  | .createVer p => s!"CV:{p}"
  | .get n => s!"G:{n}"
  | .setIam k => s!"IAM:{k}"

def showLog (log : List Ev) : String :=
  ",".intercalate (log.reverse.map fun e => showCall e.call ++ (if e.ok then "" else "!"))

def isList : Call → Bool
  | .listKeys _ => true
  | .listVers _ _ => true
  | _ => false

def showPs (log : List Ev) : String :=
  if log.any (fun e => isList e.call) then toString Gen.Kms.keyPageSize else "-"

def parseStyle (f : Fields) : Style :=
  if f.get "style" == "old" then .old Gen.Kms.keyPageSize else .fixed

/-- Fault script.  The harness's watchdog panics on call number `limit + 1`; here every call from index
    `limit` on fails instead, which ends every loop promptly, and a run whose log is longer than `limit`
    is reported as `diverged` (up to that call both sides behave identically). -/
def failFn (f : Fields) : Nat → Bool :=
  let l := natList (f.get "fail")
  let limit := f.nat "limit"
  fun i => l.contains i || decide (limit ≤ i)

def fuelOf (f : Fields) : Nat := f.nat "limit" + 2

def verName (k : String) (j : Nat) : String := s!"{k}/{j + 1}"

def lookupStr (l : List (String × Nat)) (n : String) : Nat :=
  match l.find? (fun p => p.1 == n) with
  | some p => p.2
  | none => 0

def dummyVer : Ver := ⟨"", 0⟩

def handleWipeout (f : Fields) : String :=
  let nk := f.nat "nk"
  let keyNames := (List.range nk).map fun i => s!"k{i}"
  let vstates := (groups (f.get "vs") nk).map natList
  let vplans := (groups (f.get "vplans") nk).map natList
  let cyc := f.bool "cyc"
  let names := fun (i : Nat) => (List.range (vstates.getD i []).length).map (verName s!"k{i}")
  let table : List (String × Nat) :=
    (List.range nk).flatMap fun i => (names i).zip (vstates.getD i [])
  let keyIdx := fun (k : String) => (keyNames.findIdx? (· == k)).getD nk
  let svc : Svc := {
    keys := mkPager keyNames (natList (f.get "kplan")) false nk
    vers := fun k => mkPager (names (keyIdx k)) (vplans.getD (keyIdx k) []) cyc (names (keyIdx k)).length
    fail := failFn f
    ringExists := false, keyExists := false, createVer := dummyVer, gets := fun _ _ => none }
  let st : St := ⟨lookupStr table, []⟩
  match wipeout (parseStyle f) svc (fuelOf f) st with
  | none => "res=diverged"
  | some a =>
    if a.st.log.length > f.nat "limit" then "res=diverged" else
    let final := ";".intercalate ((List.range nk).map fun i =>
      ",".intercalate ((names i).map fun n => toString (a.st.state n)))
    s!"res={if a.failed then "err" else "ok"} ps={showPs a.st.log} log={showLog a.st.log} final={final}"

def getsFn (f : Fields) : Nat → String → Option Ver :=
  let l := natList (f.get "gets")
  let gname := f.bool "gname"
  fun i name => if i < l.length then some ⟨if gname then "X" else name, l.getD i 0⟩ else none

def showBoot (limit : Nat) (r : St × Boot) : String :=
  if r.1.log.length > limit then "res=diverged" else
  match r.2 with
  | .diverged => "res=diverged"
  | .ok n => s!"res=ok:{n} ps={showPs r.1.log} log={showLog r.1.log}"
  | .err _ => s!"res=err ps={showPs r.1.log} log={showLog r.1.log}"

def bootSvc (f : Fields) : Svc × St :=
  let states := natList (f.get "vs")
  let names := (List.range states.length).map (verName "K")
  ({ keys := fun _ => ⟨[], "", 0⟩
     vers := fun _ => mkPager names (natList (f.get "plan")) (f.bool "cyc") (f.nat "total")
     fail := failFn f
     ringExists := f.bool "ring", keyExists := f.bool "ck"
     createVer := ⟨"K/c", f.nat "cv"⟩
     gets := getsFn f },
   ⟨lookupStr (names.zip states), []⟩)

def handleBoot (f : Fields) : String :=
  let (svc, st) := bootSvc f
  let sty := parseStyle f
  let keep := f.bool "keep"
  if f.get "kind" == "root" then
    showBoot (f.nat "limit") (createNewRootKey sty svc keep "kid" "K" (fuelOf f) (f.nat "fuel") st)
  else
    showBoot (f.nat "limit") (createFirstSigningKey sty svc keep "kid" "K" (fuelOf f) (f.nat "fuel") st)

def handleRotate (f : Fields) : String :=
  let (svc, st) := bootSvc f
  showBoot (f.nat "limit") (createNewSigningKeyVersion svc "K" (f.nat "fuel") st)

def parseOpts (s : String) : SignerOpts :=
  match s.splitOn ":" with
  | ["nilpss"] => .nilPss
  | ["pss", a, b] =>
    match a.toInt?, b.toNat? with
    | some x, some y => .pss x y
    | _, _ => .other
  | _ => .other

def handleSign (f : Fields) : String :=
  let resp : SignResp := ⟨f.bytes "sig", f.int "crc", f.bool "vd", f.bool "vg", f.get "rname"⟩
  let svc : SignReq → Option SignResp := fun _ => if f.bool "rpc" then some resp else none
  let r := sign crc32c svc (f.get "name") (f.bytes "digest") (parseOpts (f.get "opts"))
  let req := match r.sent with
    | none => "none"
    | some q => s!"{q.name}:{hexEncode q.digest}:{q.digestCrc}:{q.dataCrc}"
  let out := match r.out with
    | .sig s => s!"sig:{hexEncode s}"
    | .err _ => "err"
    | .panic => "panic"
  s!"req={req} out={out}"

def handle (f : Fields) : String :=
  match f.get "op" with
  | "crc" => toString (crc32c (f.bytes "data"))
  | "flip" => s!"{hexEncode (flipBit (f.bytes "data") (f.nat "bit"))} {crc32c (flipBit (f.bytes "data") (f.nat "bit"))}"
  | "sign" => handleSign f
  | "wipeout" => handleWipeout f
  | "boot" => handleBoot f
  | "rotate" => handleRotate f
  | _ => "bad-op"

end GceTcb.Drive.C20
