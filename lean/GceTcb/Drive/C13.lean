import GceTcb.Base.Line
import GceTcb.Model.ManifestFS
/- Driver handler for stream `c13` (manifest merge, Go's path.Clean / path.Join, endorse histories over
   full paths with arbitrary names). Names in protocol lines are free of ' ', ':', ';', '=' (the
   harness generates them so); everything else, including '/', '.', unicode and the empty text, passes. -/
namespace GceTcb.Drive.C13
open GceTcb GceTcb.Manifest GceTcb.Paths

def parseEntry (s : String) : Option Entry :=
  match s.splitOn ":" with
  | [p, d, t] => some ⟨p, d, t⟩
  | _ => none

def parseEntries (s : String) : List Entry :=
  if s == "" then [] else (s.splitOn ";").filterMap parseEntry

def showEntry (e : Entry) : String := s!"{e.path}:{e.digest}:{e.time}"
def showEntries (m : List Entry) : String := ";".intercalate (m.map showEntry)

def parseRun (s : String) : Option Run :=
  match s.splitOn ":" with
  | [c, d, t, o] => some ⟨c, d, t, o == "1", false⟩
  | [c, d, t, o, sn] => some ⟨c, d, t, o == "1", sn == "1"⟩
  | _ => none

/-- `cand:digest:time:ow:snapDir:imageName:svsm:scrtm` -/
def parseRunP (s : String) : Option RunP :=
  match s.splitOn ":" with
  | [c, d, t, o, sd, im, sv, sc] => some ⟨c, d, t, o == "1", sd, im, sv == "1", sc == "1"⟩
  | _ => none

def showContent : Content → String
  | .endorsement d => "E:" ++ d
  | .manifest _ => "M"
  | .blob => "B"

def insertSorted (x : String) : List String → List String
  | [] => [x]
  | y :: ys => if x ≤ y then x :: y :: ys else y :: insertSorted x ys

def sortStrings (l : List String) : List String := l.foldr insertSorted []

def handle (f : Fields) : String :=
  match f.get "op" with
  | "add" =>
    match parseEntry (f.get "e") with
    | some e => showEntries (addEntry (parseEntries (f.get "m")) e)
    | none => "bad-op"
  | "hist" =>
    let runs := ((f.get "runs").splitOn ";").filterMap parseRun
    let step := fun (acc : Store × List String) (r : Run) =>
      let res := endorseRun acc.1 r
      (res.1, acc.2 ++ [if res.2 then "1" else "0"])
    let (s, oks) := runs.foldl step (Store.empty, [])
    let files := sortStrings (s.files.map fun p => s!"{p.1}:{p.2}")
    s!"ok={",".intercalate oks} manifest={showEntries s.manifest} files={",".intercalate files}"
  | "clean" => pclean (f.get "p")
  | "join" =>
    let n := f.nat "n"
    pjoin ((List.range n).map fun i => f.get s!"e{i}")
  | "histp" =>
    let d : Dirs := ⟨if f.get "mode" == "concat" then .concat else .join, f.get "root", f.get "out"⟩
    let runs := ((f.get "runs").splitOn ";").filterMap parseRunP
    let step := fun (acc : FS × List String) (r : RunP) =>
      let res := endorseRunP d acc.1 r
      (res.1, acc.2 ++ [if res.2 then "1" else "0"])
    let (fs, oks) := runs.foldl step (([] : FS), [])
    let mp := fullOut d manifestFile
    let man := match readM fs mp with
      | some m => showEntries m
      | none => "garbage"
    let files := sortStrings ((fs.filter fun p => !(p.1 == mp && (readM fs mp).isSome)).map fun p => s!"{p.1}:{showContent p.2}")
    s!"ok={",".intercalate oks} manifest={man} files={",".intercalate files}"
  | _ => "bad-op"

end GceTcb.Drive.C13
