import GceTcb.Base.Line
import GceTcb.Model.HexB64
import GceTcb.Model.AttestChain
/- Driver handler for stream `c16wire`: the quote path of extract.Attestation / extract.Endorsement from the
   bytes of the quote (text decoders, certificate table, report, the chain). -/
namespace GceTcb.Drive.C16Wire
open GceTcb GceTcb.AttestChain GceTcb.DecTotal

def hexOr (s : String) : Bytes := (hexDecode s).getD []

def showOpt : Option Bytes → String
  | some b => "ok " ++ hexEncode b
  | none => "reject"

def showOut : Outcome Bytes → String
  | .ok b => "ok " ++ hexEncode b
  | .err _ => "reject"
  | .panic _ => "panic"

def showTee : Option Extract.Tee → String
  | none => "none"
  | some (.sev m x) => "sev:" ++ hexEncode m ++ ":" ++ (match x with | some b => hexEncode b | none => "-")
  | some (.tdx m) => "tdx:" ++ hexEncode m

/-- sevsnp.Attestation with measurement `m` and, when given, the GCE entry among its extras -/
def pattOf (m : Bytes) (x : Option Bytes) : PAtt :=
  ⟨some ⟨m⟩, some ⟨some (match x with | some b => [(gceFwCertGUID, b)] | none => [])⟩⟩

/-- a proto reading as the harness reports it: "-" rejected; "none"; "sev:m:x"; "tdx:m" -/
def parseTeeP (s : String) : Option Tee :=
  match s.splitOn ":" with
  | ["none"] => some .none
  | ["sev", m, x] => some (.sev (some (pattOf (hexOr m) (if x == "-" then none else some (hexOr x)))))
  | ["tdx", m] => some (.tdx (some ⟨some (hexOr m)⟩))
  | _ => none

def parseTq (s : String) : Outcome (Option PQuote) :=
  match s.splitOn ":" with
  | ["ok", m] => .ok (some ⟨some (hexOr m)⟩)
  | ["other"] => .ok none
  | ["panic"] => .panic "tabi"
  | _ => .err "tdx"

/-- the parameters from the line: what the real proto.Unmarshal calls made of the quote (`ptpm`, `psev`,
    `prep`, `pq4`) and what tabi.QuoteToProto makes of the quote itself / its hex decoding / its base64
    decoding (`tq` = three results) -/
def protosOf (f : Fields) (v : Variant) (quote : Bytes) : Protos :=
  let tq := (f.get "tq").splitOn ","
  let pq := v.pre quote
  { unmarshalTpm := fun _ => parseTeeP (f.get "ptpm")
    unmarshalSevAtt := fun _ =>
      match parseTeeP (f.get "psev") with
      | some (.sev (some a)) => some a
      | _ => none
    unmarshalReport := fun _ => if f.get "prep" == "-" then none else some ⟨hexOr (f.get "prep")⟩
    unmarshalQuoteV4 := fun _ => if f.get "pq4" == "-" then none else some ⟨some (hexOr (f.get "pq4"))⟩
    quoteToProto := fun b =>
      if b == pq then parseTq (tq.getD 0 "e")
      else if some b == HexB64.hexDecode pq then parseTq (tq.getD 1 "e")
      else if some b == v.b64 pq then parseTq (tq.getD 2 "e")
      else .err "tdx" }

def variantOf (f : Fields) : Variant :=
  if f.get "goacc" == "1" then looseVariant else goVariant

def noEnv : Extract.Env := { secureJoin := fun _ _ => none, readFile := fun _ => none, get := fun _ => none }

/-- extract.Endorsement with Options{Quote: q} (no event log, no provider, no getter) -/
def endorse (t : Option Extract.Tee) : Outcome Bytes :=
  (Extract.endorsement noEnv
    { provider := none, hasGetter := false, manufacturer := [], eventLog := none, reader := none,
      quote := t, forceFetch := false }).out

def handle (f : Fields) : String :=
  match f.get "op" with
  | "hex" => showOpt (HexB64.hexDecode (f.bytes "t"))
  | "b64" => showOpt (if f.get "goacc" == "1" then HexB64.b64DecodeLoose (f.bytes "t") else HexB64.b64Decode (f.bytes "t"))
  | "enc" =>
    let b := f.bytes "b"
    "hex=" ++ hexEncode (HexB64.hexEncode b) ++ " b64=" ++ hexEncode (HexB64.b64Encode b)
  | "tbl" =>
    let t := f.bytes "t"
    let sp := fromCertTableSparse false t t.length
    "check=" ++ (if checkCertTable t then "1" else "0") ++ " first=" ++ showOut (fromCertTable t)
      ++ (if t.length ≥ 24 && (sp.1 != checkCertTable t || showOut sp.2 != showOut (fromCertTable t)) then " SPARSE-DIFFERS" else "")
  | "tblbig" =>
    let r := fromCertTableSparse false (f.bytes "pre") (f.nat "len")
    "check=" ++ (if r.1 then "1" else "0") ++ " first=" ++ showOut r.2
  | "rep" =>
    let r := f.bytes "r"
    if reportAccepted r then "ok meas=" ++ hexEncode (reportMeasurement r) else "reject"
  | "att" =>
    let q := f.bytes "q"
    let v := variantOf f
    let X := protosOf f v q
    match attestationWith v X q with
    | .ok a => "ok tee=" ++ showTee (teeOf a) ++ " end=" ++ showOut (endorse (teeOf a))
    | .err _ => "reject end=" ++ showOut (endorse none)
    | .panic _ => "panic"
  | "law" =>
    let q := f.bytes "q"
    match q with
    | c :: _ => if c.toNat < 8 then "rej=1" else "rej=?"
    | [] => "rej=?"
  | "lawtdx" =>
    let q := f.bytes "q"
    if q.length < 2 || Codec.leVal (q.take 2) ≠ 4 then "rej=1" else "rej=?"
  | o => "unknown-op " ++ o

end GceTcb.Drive.C16Wire
