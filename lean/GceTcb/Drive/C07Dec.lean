import GceTcb.Base.Line
import GceTcb.Model.DecTotal
/- Driver handler for stream `c07dec` (verifier-glue half of C07): instantiates the model's `Parsers`
   with the parse-shape facts of one protocol line and prints the model's outcome class and values. -/
namespace GceTcb.Drive.C07Dec
open GceTcb GceTcb.DecTotal

/-- compact byte strings of the harness: `x<hex>` or `#<len>.<id>` (content determined by id) -/
def cb (s : String) : Bytes :=
  if s.startsWith "x" then (hexDecode (s.drop 1).toString).getD []
  else if s.startsWith "#" then
    match ((s.drop 1).toString).splitOn "." with
    | [l, i] => List.replicate (l.toNat?.getD 0) (UInt8.ofNat (i.toNat?.getD 0))
    | _ => []
  else []

def showCb (b : Bytes) : String :=
  if b.length ≤ 48 then "x" ++ hexEncode b
  else s!"#{b.length}.{(b.headD 0).toNat}"

abbrev Cert := Nat
abbrev Roots := Unit
abbrev Time := Unit

/-! ### endorsement facts under a key prefix -/

def parseTs (s : String) : Option Ts :=
  match s.splitOn ":" with
  | [a, b] => some ⟨a.toInt?.getD 0, b.toInt?.getD 0⟩
  | _ => none

def parseMeas (s : String) : Option (List (Nat × Bytes)) :=
  if s == "nil" then none
  else some ((if s == "" then [] else s.splitOn ",").filterMap fun e =>
    match e.splitOn ":" with
    | [k, v] => some (k.toNat?.getD 0, cb v)
    | _ => none)

def parseRows (s : String) : List (Option PTdxRow) :=
  (if s == "" then [] else s.splitOn ",").filterMap fun e =>
    match e.splitOn ":" with
    | [k, v] => some (some ⟨k.toNat?.getD 0, cb v⟩)
    | _ => none

/-- the facts of endorsement number `i` (key prefix `p`) -/
structure EFacts where
  idx : Nat
  present : Bool          -- the key `<p>e` is on the line
  ser : Bool
  golden : Option PGolden
  certLen : Nat
  parse : Bool
  chain : Bool
  sig : Bool
  cab : Nat
  pem : List String

def payloadOf (i : Nat) : Bytes := [0xA0, UInt8.ofNat i]
def sigOf (i : Nat) : Bytes := [0x51, UInt8.ofNat i]
def certOf (i n : Nat) : Bytes := if n == 0 then [] else [0xC0, UInt8.ofNat i]
def bundleOf (i n : Nat) : Bytes := if n == 0 then [] else [0xCA, UInt8.ofNat i, 0]
def restOf (i k n : Nat) : Bytes := if n == 0 then [] else [0xCA, UInt8.ofNat i, UInt8.ofNat k]

def eFacts (f : Fields) (p : String) (i : Nat) : EFacts :=
  let g := fun k => f.get (p ++ k)
  let ser := g "e" == "1"
  let gol : Option PGolden :=
    if ser && g "g" == "1" then
      let snp : Option PSevSnp :=
        if g "snp" == "1" then
          some ⟨(g "pol").toNat?.getD 0, (g "svn").toNat?.getD 0, parseMeas (g "meas"), cb (g "svsm"),
                bundleOf i ((g "cab").toNat?.getD 0)⟩
        else none
      let tdx : Option PTdx := if g "tdx" == "1" then some ⟨parseRows (g "rows")⟩ else none
      some ⟨parseTs (g "ts"), (g "cl").toNat?.getD 0, List.replicate ((g "cm").toNat?.getD 0) 0,
            certOf i ((g "c").toNat?.getD 0), cb (g "d"), snp, tdx⟩
    else none
  { idx := i, present := f.has (p ++ "e"), ser := ser, golden := gol, certLen := (g "c").toNat?.getD 0,
    parse := g "cp" == "1", chain := g "cch" == "1", sig := g "cs" == "1",
    cab := (g "cab").toNat?.getD 0,
    pem := if g "pem" == "-" || g "pem" == "" then [] else (g "pem").splitOn "," }

def EFacts.endorsement (x : EFacts) : Option PEndorsement :=
  if x.ser then some ⟨payloadOf x.idx, sigOf x.idx⟩ else none

/-- pem.Decode on the bundle of endorsement i and on the rests the facts name -/
def pemOf (x : EFacts) (b : Bytes) : Option PemBlock × Bytes :=
  let rec go (k : Nat) (cur : Bytes) : List String → Option PemBlock × Bytes
    | [] => (none, b)
    | s :: more =>
      let parts := s.splitOn ":"
      let res : Option PemBlock × Bytes :=
        match parts with
        | ["nil", r] => (none, restOf x.idx (k + 1) (r.toNat?.getD 0))
        | [t, l, r] => (some ⟨t == "C", List.replicate (l.toNat?.getD 0) 0⟩, restOf x.idx (k + 1) (r.toNat?.getD 0))
        | _ => (none, b)
      if b == cur then res else go (k + 1) res.2 more
  go 0 (bundleOf x.idx x.cab) x.pem

/-! ### attestation shapes -/

def sevShape (f : Fields) (p : String) : PAtt :=
  let g := fun k => f.get (p ++ k)
  let report : Option PReport := if g "rep" == "1" then some ⟨cb (g "m")⟩ else none
  let nex := (g "nex").toNat?.getD 0
  let x := g "x"
  let entries : List (String × Bytes) :=
    (if x == "-" then [] else [(gceFwCertGUID, cb x)]) ++
    (List.range (nex - (if x == "-" then 0 else 1))).map (fun i => (s!"other-{i}", []))
  let chain : Option PChain := if g "cc" == "1" then some ⟨if nex == 0 then none else some entries⟩ else none
  ⟨report, chain⟩

def tdxShape (f : Fields) (p : String) : PQuote :=
  ⟨if f.get (p ++ "body") == "1" then some (cb (f.get (p ++ "mrtd"))) else none⟩

def parseEnts (s : String) : List (Nat × Nat) :=
  (if s == "" then [] else s.splitOn ";").filterMap fun e =>
    match e.splitOn ":" with
    | [a, b] => some (a.toNat?.getD 0, b.toNat?.getD 0)
    | _ => none

def headerFact (f : Fields) (p : String) : Option (List (Nat × Nat)) :=
  if f.get p == "1" then some (parseEnts (f.get (p ++ ".ents"))) else none

/-! ### the parsers of one line -/

def caseQuote (f : Fields) : Bytes := List.replicate (f.nat "n") 0xB0
def decodedQuote (f : Fields) : Bytes :=
  if f.get "enc" == "raw" then caseQuote f else List.replicate (f.nat "dn") 0xB2
def provQuote : Bytes := [0xB9]

def mkParsers (f : Fields) : Parsers Cert Roots Time :=
  let es : List EFacts := [eFacts f "" 0, eFacts f "x." 1, eFacts f "o." 2, eFacts f "n." 3]
  let byIdx := fun (i : Nat) => es.find? (fun x => x.idx == i)
  -- the byte strings the endorsements arrive as
  let serOf := fun (i : Nat) => ([0xE0, UInt8.ofNat i] : Bytes)
  let quote := caseQuote f
  let quote2 := decodedQuote f
  let hasAF := f.has "tpm"
  { unmarshalEndorsement := fun b =>
      match es.find? (fun x => x.present && b == serOf x.idx) with
      | some x => x.endorsement
      | none => if b.isEmpty then some ⟨[], []⟩ else none
    unmarshalGolden := fun b =>
      match es.find? (fun x => x.present && x.ser && b == payloadOf x.idx) with
      | some x => x.golden
      | none => if b.isEmpty then some PGolden.empty else none
    parseCert := fun b =>
      match b with
      | [0xC0, i] => (byIdx i.toNat).bind (fun x => if x.parse then some x.idx else none)
      | _ => none
    verifyChain := fun c _ _ => ((byIdx c).map (·.chain)).getD false
    checkSig := fun c m s => m == payloadOf c && s == sigOf c && ((byIdx c).map (·.sig)).getD false
    pemDecode := fun b =>
      match b with
      | 0xCA :: i :: _ => match byIdx i.toNat with
        | some x => pemOf x b
        | none => (none, b)
      | _ => (none, b)
    unmarshalTpm := fun q =>
      if q == provQuote then some (.sev (some ⟨some ⟨cb (f.get "gm")⟩, some ⟨some [(gceFwCertGUID, [0xE0, 9])]⟩⟩))
      else if !hasAF then (if q == quote then some (.tdx (some ⟨some []⟩)) else none)
      else if q == quote && f.get "tpm" == "1" then
        match f.get "t.tee" with
        | "sev" => some (.sev (if f.get "t.nil" == "1" then none else some (sevShape f "t.")))
        | "tdx" => some (.tdx (if f.get "t.nil" == "1" then none else some (tdxShape f "t.")))
        | _ => some .none
      else none
    unmarshalSevAtt := fun q => if q == quote && f.get "sa" == "1" then some (sevShape f "sa.") else none
    unmarshalReport := fun q => if q == quote && f.get "rp" == "1" then some ⟨cb (f.get "rp.m")⟩ else none
    unmarshalQuoteV4 := fun q => if q == quote && f.get "q4" == "1" then some (tdxShape f "q4.") else none
    hexDecode := fun q => if q == quote && f.get "enc" == "hex" then some quote2 else none
    base64Decode := fun q => if q == quote && f.get "enc" == "b64" then some quote2 else none
    certTableHeader := fun t =>
      if f.has "h" then (if t == quote then headerFact f "h" else none)
      else if t == quote2 then headerFact f "h2"
      else if t == quote2.drop reportSize then headerFact f "h1"
      else none
    reportCertsToProto := fun q => if q == quote2 && f.get "rc" == "1" then some (sevShape f "rc.") else none
    certTableProto := fun q => if q == quote2 && f.get "ct" == "1" then (sevShape f "ct.").chain else none
    certTableGet := fun t =>
      if t == quote && f.get "tb" == "1" then some (if f.get "tb.x" == "-" then none else some (cb (f.get "tb.x")))
      else none
    quoteToProto := fun q =>
      if q == quote2 then
        match f.get "tq" with
        | "v4" => .ok (some (tdxShape f "tq."))
        | "other" => .ok none
        | "panic" => .panic "go-tdx-guest"
        | _ => .err "quote"
      else .err "quote"
    defaultPolicyBits := f.nat "dp"
    sevPolicyToOptions := fun _ => f.bool "pto"
    snpBaseChecks := fun _ _ => f.bool "base"
    tdxPolicyToOptions := fun _ => f.bool "pto"
    tdxQuoteChecks := fun _ _ => f.bool "quote"
    pathValue := fun _ path _ =>
      -- the facts are positional: path names are "p<i>"
      let i := (path.drop 1).toString.toNat?.getD 0
      match ((f.get "pv").splitOn ",")[i]? with
      | none => none
      | some s =>
        match s.splitOn ":" with
        | ["err"] => none
        | ["b", n] => some (.bytes (n.toNat?.getD 0))
        | ["msg"] => some .msg
        | ["map", n, t] => some (.map (n.toNat?.getD 0) (t.toNat?.getD 0))
        | ["s", n] => some (.scalar (n.toNat?.getD 0))
        | ["ts", n] => some (.ts (n.toNat?.getD 0))
        | ["tsbad"] => some .tsBad
        | _ => none }

/-! ### rendering -/

def cls {α : Type} (x : M α) (vals : α → String) : String :=
  match x.out with
  | .ok a => let v := vals a; if v == "" then "ok" else "ok " ++ v
  | .err _ => "reject"
  | .panic _ => "panic"

def showGot {α : Type} (x : M α) : String :=
  match x.tr.gets with
  | [] => " got=-"
  | [u] => s!" got={u.tech}:{showCb u.meas}"
  | l => s!" got=?{l.length}-requests"

def parseSnpo (s : String) : Option SNPOptions :=
  if s == "nil" then none
  else match s.splitOn ":" with
    | [m, v] => some ⟨if m == "nil" then none else some (cb m), v.toNat?.getD 0⟩
    | _ => none

def parseForm (s : String) : BytesForm :=
  match s with
  | "bin" => .raw | "hex" => .hex | "guid" => .hexGuidify | "base64" => .base64 | "auto" => .auto | _ => .other

def parseSevBase (s : String) : Option SevPol :=
  match s.splitOn ":" with
  | [p, ms, m, ni, na] =>
    some ⟨p.toNat?.getD 0, ms.toNat?.getD 0, if m == "nil" then none else some (cb m),
          List.replicate (ni.toNat?.getD 0) [1], List.replicate (na.toNat?.getD 0) [1]⟩
  | _ => none

def parseTdxBase (s : String) : Option TdxPol :=
  match s with
  | "nobody" => some ⟨none⟩
  | "body" => some ⟨some none⟩
  | "anymrtd" => some ⟨some (some [[7]])⟩
  | _ => none

def lastLen (l : List Bytes) : Nat := (l.getLast?.map (·.length)).getD 0

def serMain : Bytes := [0xE0, 0]

def getterFor (f : Fields) (answer : Bytes) : Option (Url → Option Bytes) :=
  if f.get "gm" == "-" || !f.has "gm" then none
  else some (fun u => if u.tech == "sev" && u.meas == cb (f.get "gm") then some answer
                      else if u.tech == "tdx" && f.has "gt" && u.meas == cb (f.get "gt") then some answer else none)

def handle (f : Fields) : String :=
  let P := mkParsers f
  let op := f.get "op"
  let base := (op.splitOn ".").headD ""
  let sub := ((op.splitOn ".").drop 1).headD ""
  let main := eFacts f "" 0
  match base with
  | "endorsement" =>
    let o : Options Roots Time :=
      { snp := parseSnpo (f.get "snpo"), roots := (if f.bool "roots" then some () else none),
        expectedUefiSha384 := cb (f.get "exp"), now := (), endorsement := none, getter := none }
    cls (endorsement P serMain (some o)) (fun _ => "")
  | "closure" =>
    let att : Option PAtt :=
      match (f.get "att").splitOn ":" with
      | [r, m] => some ⟨if r == "1" then some ⟨cb m⟩ else none, none⟩
      | _ => none
    let mode := f.get "mode"
    let o : Options Roots Time :=
      { snp := some ⟨none, f.nat "vmsas"⟩, roots := some (), expectedUefiSha384 := [], now := (),
        endorsement := (if mode == "opt" then main.endorsement else none),
        getter := (if mode == "get" then some (fun u => if u.tech == "sev" && u.meas == PAtt.measurement att then some serMain else none) else none) }
    let r := snpClosure P (some o) att (if mode == "blob" then some serMain else none)
    cls r (fun _ => "") ++ showGot r
  | "attestation" =>
    cls (attestation P (caseQuote f)) fun
      | .sev a => s!"tee=sev m={showCb (PAtt.measurement a)} x=" ++
          (match slookup (PAtt.extras a) gceFwCertGUID with | some b => showCb b | none => "-")
      | .tdx q => s!"tee=tdx m={showCb (PQuote.mrtd q)}"
      | .none => "tee=none"
  | "extract" =>
    let o : ExtractOptions :=
      { provider := (if f.get "prov" == "1" then some (some provQuote) else none),
        getter := (if f.bool "getter" then getterFor f [0xE0, 9] else none), quote := caseQuote f, forceFetch := f.bool "force" }
    let r := extractEndorsement P (some o)
    cls r (fun b => "out=" ++ (if b == [0xE0, 9] then f.get "ge" else showCb b)) ++ showGot r
  | "fromcerttable" => cls (fromCertTable P (caseQuote f)) (fun b => "out=" ++ showCb b)
  | "fromattestation" => cls (fromAttestation (some (sevShape f "a."))) (fun b => "out=" ++ showCb b)
  | "sevpolicy" =>
    let o : SevPolicyOptions := ⟨parseSevBase (f.get "base"), f.nat "vmsas", f.bool "ow", f.bool "allow"⟩
    cls (sevPolicy P main.endorsement (some o)) fun p =>
      s!"pol={p.policy} m=" ++ (match p.measurement with | some m => (if m.isEmpty then "nil" else showCb m) | none => "nil") ++ " " ++
      s!"idk={p.trustedIdKeys.length}:{lastLen p.trustedIdKeys} ak={p.trustedAuthorKeys.length}:{lastLen p.trustedAuthorKeys}"
  | "tdxpolicy" =>
    let o : TdxPolicyOptions := ⟨parseTdxBase (f.get "base"), f.int "ram", f.bool "ow"⟩
    cls (tdxPolicy P main.endorsement (some o)) fun p =>
      "mrtds=" ++ ",".intercalate (((p.body.getD none).getD []).map showCb)
  | "sevvalidate" =>
    let src := f.get "src"
    let att := sevShape f "a."
    -- which endorsement facts stand for what: x. = the certificate-table entry, o. = opts.Endorsement, n. = the getter's answer
    let optE := (eFacts f "o." 2).endorsement
    let att' : PAtt :=
      -- the certificate-table entry's bytes are the serialized endorsement number 1
      { att with chain := att.chain.map fun c => ⟨c.extras.map fun l => l.map fun p => if p.1 == gceFwCertGUID then (p.1, if p.2.isEmpty && !(f.has "x.e") then [] else [0xE0, 1]) else p⟩ }
    let o : SevValidateOptions Roots Time :=
      { endorsement := (if src == "opt" || src == "attopt" then optE else none), basePolicy := none,
        overwrite := false, roots := some (), now := (), getter := getterFor f [0xE0, 3], expectedLaunchVmsas := f.nat "vmsas",
        testonlyForceGCS := f.bool "force" }
    let r := sevValidate P (some att') (some o)
    cls r (fun _ => "") ++ showGot r
  | "tdxvalidate" =>
    let o : TdxValidateOptions Roots Time :=
      { endorsement := (eFacts f "o." 2).endorsement, basePolicy := none, overwrite := false,
        roots := some (), now := (), expectedRAMGiB := f.int "ram", extracted := none }
    let q := if f.get "src" == "opt" then [0xB0] else caseQuote f
    let P' := if f.get "src" == "opt" then { P with unmarshalTpm := fun _ => some (.tdx (some ⟨some []⟩)) } else P
    cls (tdxValidate P' q (some o)) (fun _ => "")
  | "inspect" =>
    let ctx : Option (Option Inspect) := some (some ⟨parseForm (f.get "form"), f.bool "term"⟩)
    if sub == "mask" then
      let e : PEndorsement := ⟨[0xA0, 0], []⟩
      let P' := { P with unmarshalGolden := fun _ => if f.bool "g" then some PGolden.empty else none }
      let paths := (List.range (f.nat "np")).map (fun i => s!"p{i}")
      -- the timestamp renderer is selected by path name: the facts say which value kind came back
      cls (inspectMask P' ctx (some e) paths) fun
        | some n => s!"n={n}"
        | none => "n=*"
    else
      let e : PEndorsement := ⟨List.replicate (f.nat "len") 0, List.replicate (f.nat "len") 0⟩
      cls (if sub == "signature" then inspectSignature ctx (some e) else inspectPayload ctx (some e)) (fun n => s!"n={n}")
  | "cli" =>
    match sub with
    | "verify" =>
      let o : Options Roots Time := { snp := none, roots := some (), expectedUefiSha384 := [], now := (), endorsement := none, getter := none }
      cls (endorsement P serMain (some o)) (fun _ => "")
    | "inspect" =>
      if !f.bool "e" then "reject"
      else
        let ctx : Option (Option Inspect) := some (some ⟨parseForm (f.get "form"), false⟩)
        let e : PEndorsement := ⟨List.replicate (f.nat "len") 0, List.replicate (f.nat "len") 0⟩
        let which := ((op.splitOn ".").drop 2).headD ""
        cls (if which == "signature" then inspectSignature ctx (some e) else inspectPayload ctx (some e)) (fun n => s!"n={n}")
    | "sevpolicy" =>
      match main.endorsement with
      | none => "reject"
      | some e => cls (sevPolicy P (some e) (some ⟨none, f.nat "vmsas", false, true⟩)) (fun _ => "")
    | "tdxpolicy" =>
      match main.endorsement with
      | none => "reject"
      | some e => cls (tdxPolicy P (some e) (some ⟨none, f.int "ram", false⟩)) (fun _ => "")
    | _ => "unimplemented"
  | _ => "unimplemented"

end GceTcb.Drive.C07Dec
