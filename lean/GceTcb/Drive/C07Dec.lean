import GceTcb.Base.Line
/- Driver handler for stream `c07dec` (stub: replaced when the property's model lands). -/
namespace GceTcb.Drive.C07Dec
open GceTcb

def handle (_f : Fields) : String := "unimplemented"

end GceTcb.Drive.C07Dec
