import GceTcb.Drive.EndorseIO
import GceTcb.Model.VirtualFirmware
/- Driver handler for stream `c15` (endorse.VirtualFirmware as an effect log over the doubles). -/
namespace GceTcb.Drive.C15
open GceTcb GceTcb.Endorse GceTcb.Commit GceTcb.VF GceTcb.Drive.IO

def showEff : Eff → String
  | .caPrimary => "ca.primary"
  | .caCertificate _ => "ca.cert"
  | .caBundle _ => "ca.bundle"
  | .sign _ _ => "sign"
  | .vcs i ev => s!"v{i}:{showEv ev}"
  | .stdout l => "out:" ++ l.replace " " "_"

def parseVcs (s : String) : Option (List Attempt) := if s == "-" then none else some (parseScript s)

def parseVcss (s : String) : List (List Attempt) :=
  if s == "" then [] else (s.splitOn "^").map parseScript

def handle (f : Fields) : String :=
  match f.get "op" with
  | "vf" =>
    let c := { parseCtx f with svsmMeasurement := f.bytes "svsm_m" }
    let cfg := { parseCfg f with scrtm := scrtmOf c, imageName := f.get "imgname" }
    let fl : Flags := ⟨f.bool "mo", (match c.snp with | some r => r.launchVmsas | none => 0), f.int "budget", cfg⟩
    let r := virtualFirmware false (mkPrims f) genTables c (parseKeys f) (parseTsField (f.get "ts")) fl
      (parseVcs (f.get "vcs")) (parseVcss (f.get "vcss"))
    let res := match r.result with | .ok _ => "ok" | .err _ => "err" | .panic _ => "panic"
    s!"res={res} eff={",".intercalate (r.effects.map showEff)}"
  | _ => "bad-op"

end GceTcb.Drive.C15
